package main

// G1: wire-layout extraction. Symbolically executes the straight-line byte
// assignments of Encode/Decode-style functions into tables. Anything outside
// the recognised statement subset is an error (the tie is broken), never a guess.

import (
	"fmt"
	"go/ast"
	"go/token"
	"strconv"
	"strings"
)

type FieldInfo struct {
	Name  string `json:"name"`
	Width int    `json:"width"`
	Kind  string `json:"kind"` // int | bytes | str | lpstr
}

// Src describes where an encoded byte comes from.
type Src struct {
	K string `json:"k"` // const | field | str | undef
	F int    `json:"f"`
	I int    `json:"i"`
	V int    `json:"v"`
}

type StrDec struct {
	Field    int `json:"field"`
	Start    int `json:"start"`
	End      int `json:"end"`      // exclusive; for lpstr the cap is End-Start
	LenField int `json:"lenfield"` // -1 for trim strings
}

type Layout struct {
	Name    string      `json:"name"`
	File    string      `json:"file"`
	EncFn   string      `json:"encfn"`
	DecFn   string      `json:"decfn"`
	Fields  []FieldInfo `json:"fields"`
	Enc     []Src       `json:"enc"`
	Dec     [][]int     `json:"dec"` // per field: offsets of byte 0..w-1; empty for strings / unset
	StrDecs []StrDec    `json:"strdecs"`
	StrCaps map[int]int `json:"strcaps"` // field -> cap enforced by Encode's guard
	OffWire []string    `json:"offwire"` // struct fields that neither Encode nor Decode touches
	DecGuards [][2]int  `json:"decguards"` // (field, max): Decode returns an error when field > max, before any dependent slice
}

// dropOffWire removes fields that appear neither in Enc nor Dec and renumbers.
func (l *Layout) dropOffWire() {
	used := make([]bool, len(l.Fields))
	for _, s := range l.Enc {
		if s.K == "field" || s.K == "str" {
			used[s.F] = true
		}
	}
	for f, d := range l.Dec {
		if len(d) > 0 {
			used[f] = true
		}
	}
	for _, sd := range l.StrDecs {
		used[sd.Field] = true
	}
	ren := make([]int, len(l.Fields))
	var nf []FieldInfo
	var nd [][]int
	for f := range l.Fields {
		if used[f] {
			ren[f] = len(nf)
			nf = append(nf, l.Fields[f])
			nd = append(nd, l.Dec[f])
		} else {
			ren[f] = -1
			l.OffWire = append(l.OffWire, l.Fields[f].Name)
		}
	}
	l.Fields, l.Dec = nf, nd
	for i := range l.Enc {
		if l.Enc[i].K == "field" || l.Enc[i].K == "str" {
			l.Enc[i].F = ren[l.Enc[i].F]
		}
	}
	for i := range l.StrDecs {
		l.StrDecs[i].Field = ren[l.StrDecs[i].Field]
		if l.StrDecs[i].LenField >= 0 {
			l.StrDecs[i].LenField = ren[l.StrDecs[i].LenField]
		}
	}
	for i := range l.DecGuards {
		l.DecGuards[i][0] = ren[l.DecGuards[i][0]]
	}
	nc := map[int]int{}
	for k, v := range l.StrCaps {
		nc[ren[k]] = v
	}
	l.StrCaps = nc
}

type structDefs map[string]*ast.StructType

func collectStructs(files []*ast.File) structDefs {
	out := structDefs{}
	for _, f := range files {
		for _, d := range f.Decls {
			gd, ok := d.(*ast.GenDecl)
			if !ok || gd.Tok != token.TYPE {
				continue
			}
			for _, s := range gd.Specs {
				ts := s.(*ast.TypeSpec)
				if st, ok := ts.Type.(*ast.StructType); ok {
					out[ts.Name.Name] = st
				}
			}
		}
	}
	return out
}

func basicWidth(name string) int {
	switch name {
	case "uint8", "byte", "int8", "bool":
		return 1
	case "uint16", "int16":
		return 2
	case "uint32", "int32":
		return 4
	case "uint64", "int64":
		return 8
	}
	return 0
}

// flatten lists the wire-capable leaf fields of struct `name`.
func (sd structDefs) flatten(name, prefix string, out *[]FieldInfo) {
	st, ok := sd[name]
	if !ok {
		return
	}
	for _, f := range st.Fields.List {
		var names []string
		if len(f.Names) == 0 {
			// embedded
			if id, ok := f.Type.(*ast.Ident); ok {
				sd.flatten(id.Name, prefix, out)
			}
			continue
		}
		for _, n := range f.Names {
			names = append(names, n.Name)
		}
		for _, n := range names {
			switch t := f.Type.(type) {
			case *ast.Ident:
				if w := basicWidth(t.Name); w > 0 {
					*out = append(*out, FieldInfo{prefix + n, w, "int"})
				} else if t.Name == "string" {
					*out = append(*out, FieldInfo{prefix + n, 0, "str"})
				} else if _, ok := sd[t.Name]; ok {
					sd.flatten(t.Name, prefix+n+".", out)
				}
			case *ast.ArrayType:
				if t.Len != nil {
					if id, ok := t.Elt.(*ast.Ident); ok && basicWidth(id.Name) == 1 {
						if l, ok := t.Len.(*ast.BasicLit); ok {
							w, _ := strconv.Atoi(l.Value)
							*out = append(*out, FieldInfo{prefix + n, w, "bytes"})
						}
					}
				}
			}
		}
	}
}

type lx struct {
	fset   *token.FileSet
	recv   string // receiver / object variable whose fields are (de)coded
	bufs   map[string]bool
	fields []FieldInfo
	fidx   map[string]int
	env    map[string]int // loop variables
	lay    *Layout
	fn     string
}

func (x *lx) errf(n ast.Node, format string, a ...interface{}) error {
	return fmt.Errorf("%s: %s: %s", x.fn, x.fset.Position(n.Pos()), fmt.Sprintf(format, a...))
}

func (x *lx) constInt(e ast.Expr) (int, bool) {
	switch v := e.(type) {
	case *ast.BasicLit:
		if v.Kind == token.INT {
			n, err := strconv.ParseInt(v.Value, 0, 64)
			return int(n), err == nil
		}
	case *ast.Ident:
		n, ok := x.env[v.Name]
		return n, ok
	case *ast.ParenExpr:
		return x.constInt(v.X)
	case *ast.BinaryExpr:
		a, ok1 := x.constInt(v.X)
		b, ok2 := x.constInt(v.Y)
		if ok1 && ok2 {
			switch v.Op {
			case token.ADD:
				return a + b, true
			case token.SUB:
				return a - b, true
			case token.MUL:
				return a * b, true
			}
		}
	}
	return 0, false
}

// fieldPath recognises recv.A.B and returns "A.B".
func (x *lx) fieldPath(e ast.Expr) (string, bool) {
	switch v := e.(type) {
	case *ast.SelectorExpr:
		if id, ok := v.X.(*ast.Ident); ok && id.Name == x.recv {
			return v.Sel.Name, true
		}
		if p, ok := x.fieldPath(v.X); ok {
			return p + "." + v.Sel.Name, true
		}
	case *ast.ParenExpr:
		return x.fieldPath(v.X)
	}
	return "", false
}

func (x *lx) field(e ast.Expr) (int, bool) {
	p, ok := x.fieldPath(e)
	if !ok {
		return 0, false
	}
	// an embedded struct may be named explicitly (self.Command.Magic)
	if i, ok := x.fidx[p]; ok {
		return i, true
	}
	if k := strings.LastIndex(p, "."); k >= 0 {
		if i, ok := x.fidx[p[k+1:]]; ok {
			return i, true
		}
	}
	return 0, false
}

// bufIndex recognises buf[K].
func (x *lx) bufIndex(e ast.Expr) (int, bool) {
	ie, ok := e.(*ast.IndexExpr)
	if !ok {
		return 0, false
	}
	id, ok := ie.X.(*ast.Ident)
	if !ok || !x.bufs[id.Name] {
		return 0, false
	}
	return x.constInt(ie.Index)
}

func isConv(e ast.Expr) (string, ast.Expr, bool) {
	c, ok := e.(*ast.CallExpr)
	if !ok || len(c.Args) != 1 {
		return "", nil, false
	}
	id, ok := c.Fun.(*ast.Ident)
	if !ok || basicWidth(id.Name) == 0 {
		return "", nil, false
	}
	return id.Name, c.Args[0], true
}

// encSrc parses the right-hand side of `buf[k] = rhs`.
func (x *lx) encSrc(e ast.Expr) (Src, error) {
	if n, ok := x.constInt(e); ok {
		if n < 0 || n > 255 {
			return Src{}, x.errf(e, "constant out of byte range")
		}
		return Src{K: "const", V: n}, nil
	}
	if _, inner, ok := isConv(e); ok {
		// byte(F) or byte(F >> 8k) or byte(F[i])
		if f, ok := x.field(inner); ok {
			return Src{K: "field", F: f, I: 0}, nil
		}
		if pe, ok := inner.(*ast.ParenExpr); ok {
			inner = pe.X
		}
		if be, ok := inner.(*ast.BinaryExpr); ok && be.Op == token.SHR {
			f, ok1 := x.field(be.X)
			s, ok2 := x.constInt(be.Y)
			if ok1 && ok2 && s%8 == 0 {
				return Src{K: "field", F: f, I: s / 8}, nil
			}
		}
		if n, ok := x.constInt(inner); ok {
			return Src{K: "const", V: n & 255}, nil
		}
		return x.encSrc(inner)
	}
	if f, ok := x.field(e); ok {
		if x.fields[f].Width != 1 {
			return Src{}, x.errf(e, "unconverted multi-byte field %s", x.fields[f].Name)
		}
		return Src{K: "field", F: f, I: 0}, nil
	}
	if ie, ok := e.(*ast.IndexExpr); ok {
		f, ok1 := x.field(ie.X)
		i, ok2 := x.constInt(ie.Index)
		if ok1 && ok2 {
			if x.fields[f].Kind == "str" {
				return Src{K: "str", F: f, I: i}, nil
			}
			return Src{K: "field", F: f, I: i}, nil
		}
	}
	return Src{}, x.errf(e, "unrecognised encode source")
}

func (x *lx) setEnc(n ast.Node, off int, s Src) error {
	if off < 0 || off >= 64 {
		return x.errf(n, "offset %d outside frame", off)
	}
	x.lay.Enc[off] = s
	return nil
}

// isErrReturn: `return errors.New(..)` / `return err`
func isReturn(s ast.Stmt) bool {
	_, ok := s.(*ast.ReturnStmt)
	return ok
}

func (x *lx) encStmt(s ast.Stmt) error {
	switch v := s.(type) {
	case *ast.ReturnStmt:
		return nil
	case *ast.AssignStmt:
		if len(v.Lhs) != len(v.Rhs) {
			return x.errf(v, "assignment arity")
		}
		// tuple assignment evaluates all RHS first; sources are pure field reads, so order is irrelevant
		for i := range v.Lhs {
			off, ok := x.bufIndex(v.Lhs[i])
			if !ok {
				return x.errf(v, "unrecognised encode target")
			}
			src, err := x.encSrc(v.Rhs[i])
			if err != nil {
				return err
			}
			if err := x.setEnc(v, off, src); err != nil {
				return err
			}
		}
		return nil
	case *ast.ExprStmt:
		// copy(buf[a:], make([]byte, n))
		if c, ok := v.X.(*ast.CallExpr); ok {
			if id, ok := c.Fun.(*ast.Ident); ok && id.Name == "copy" && len(c.Args) == 2 {
				se, ok1 := c.Args[0].(*ast.SliceExpr)
				mk, ok2 := c.Args[1].(*ast.CallExpr)
				if ok1 && ok2 {
					bid, okb := se.X.(*ast.Ident)
					mid, okm := mk.Fun.(*ast.Ident)
					if okb && okm && x.bufs[bid.Name] && mid.Name == "make" && len(mk.Args) == 2 && se.High == nil {
						a, oka := x.constInt(se.Low)
						n, okn := x.constInt(mk.Args[1])
						if oka && okn {
							for i := 0; i < n && a+i < 64; i++ {
								if err := x.setEnc(v, a+i, Src{K: "const", V: 0}); err != nil {
									return err
								}
							}
							return nil
						}
					}
				}
			}
		}
		return x.errf(v, "unrecognised expression statement")
	case *ast.IfStmt:
		// guard: if len(buf) < 64 { return .. }   |   if len(self.S) > N { return .. }
		if be, ok := v.Cond.(*ast.BinaryExpr); ok && v.Else == nil && len(v.Body.List) == 1 && isReturn(v.Body.List[0]) {
			if c, ok := be.X.(*ast.CallExpr); ok {
				if id, ok := c.Fun.(*ast.Ident); ok && id.Name == "len" && len(c.Args) == 1 {
					if aid, ok := c.Args[0].(*ast.Ident); ok && x.bufs[aid.Name] && be.Op == token.LSS {
						return nil
					}
					if f, ok := x.field(c.Args[0]); ok && be.Op == token.GTR {
						if n, ok := x.constInt(be.Y); ok {
							x.lay.StrCaps[f] = n
							return nil
						}
					}
				}
			}
		}
		// string byte: if i >= len(self.S) { buf[a+i] = 0 } else { buf[a+i] = self.S[i] }
		if be, ok := v.Cond.(*ast.BinaryExpr); ok && be.Op == token.GEQ && v.Else != nil {
			iv, ok1 := x.constInt(be.X)
			if c, ok := be.Y.(*ast.CallExpr); ok && ok1 {
				if id, ok := c.Fun.(*ast.Ident); ok && id.Name == "len" && len(c.Args) == 1 {
					if f, ok := x.field(c.Args[0]); ok && x.fields[f].Kind == "str" {
						eb, ok := v.Else.(*ast.BlockStmt)
						if ok && len(v.Body.List) == 1 && len(eb.List) == 1 {
							a1, okA := v.Body.List[0].(*ast.AssignStmt)
							a2, okB := eb.List[0].(*ast.AssignStmt)
							if okA && okB && len(a1.Lhs) == 1 && len(a2.Lhs) == 1 {
								o1, k1 := x.bufIndex(a1.Lhs[0])
								o2, k2 := x.bufIndex(a2.Lhs[0])
								z, kz := x.constInt(a1.Rhs[0])
								src, err := x.encSrc(a2.Rhs[0])
								if k1 && k2 && kz && z == 0 && o1 == o2 && err == nil && src.K == "str" && src.F == f && src.I == iv {
									return x.setEnc(v, o1, src)
								}
							}
						}
					}
				}
			}
		}
		return x.errf(v, "unrecognised if statement")
	case *ast.ForStmt:
		name, n, ok := x.countedLoop(v)
		if !ok {
			return x.errf(v, "unrecognised loop")
		}
		for i := 0; i < n; i++ {
			x.env[name] = i
			for _, b := range v.Body.List {
				if err := x.encStmt(b); err != nil {
					return err
				}
			}
		}
		delete(x.env, name)
		return nil
	}
	return x.errf(s, "unrecognised statement %T", s)
}

// countedLoop recognises `for i := 0; i < N; i++`.
func (x *lx) countedLoop(v *ast.ForStmt) (string, int, bool) {
	init, ok := v.Init.(*ast.AssignStmt)
	if !ok || len(init.Lhs) != 1 || init.Tok != token.DEFINE {
		return "", 0, false
	}
	id, ok := init.Lhs[0].(*ast.Ident)
	if !ok {
		return "", 0, false
	}
	if z, ok := x.constInt(init.Rhs[0]); !ok || z != 0 {
		return "", 0, false
	}
	cond, ok := v.Cond.(*ast.BinaryExpr)
	if !ok || cond.Op != token.LSS {
		return "", 0, false
	}
	if cid, ok := cond.X.(*ast.Ident); !ok || cid.Name != id.Name {
		return "", 0, false
	}
	n, ok := x.constInt(cond.Y)
	if !ok {
		return "", 0, false
	}
	post, ok := v.Post.(*ast.IncDecStmt)
	if !ok || post.Tok != token.INC {
		return "", 0, false
	}
	return id.Name, n, true
}

// decSrc parses a decode right-hand side into the list of offsets (byte 0 first).
func (x *lx) decSrc(e ast.Expr) ([]int, error) {
	if off, ok := x.bufIndex(e); ok {
		return []int{off}, nil
	}
	if _, inner, ok := isConv(e); ok {
		if off, ok := x.bufIndex(inner); ok {
			return []int{off}, nil
		}
	}
	if pe, ok := e.(*ast.ParenExpr); ok {
		return x.decSrc(pe.X)
	}
	if be, ok := e.(*ast.BinaryExpr); ok {
		if be.Op == token.OR {
			a, err := x.decSrc(be.X)
			if err != nil {
				return nil, err
			}
			b, err := x.decShift(be.Y, len(a))
			if err != nil {
				return nil, err
			}
			return append(a, b), nil
		}
	}
	return nil, x.errf(e, "unrecognised decode source")
}

// decShift recognises uintN(buf[k])<<(8*pos)
func (x *lx) decShift(e ast.Expr, pos int) (int, error) {
	if pe, ok := e.(*ast.ParenExpr); ok {
		return x.decShift(pe.X, pos)
	}
	be, ok := e.(*ast.BinaryExpr)
	if !ok || be.Op != token.SHL {
		return 0, x.errf(e, "expected shifted byte")
	}
	s, ok := x.constInt(be.Y)
	if !ok || s != 8*pos {
		return 0, x.errf(e, "shift %d does not match byte position %d", s, pos)
	}
	_, inner, ok := isConv(be.X)
	if !ok {
		return 0, x.errf(e, "expected conversion")
	}
	off, ok := x.bufIndex(inner)
	if !ok {
		return 0, x.errf(e, "expected buf[k]")
	}
	return off, nil
}

func (x *lx) decStmt(s ast.Stmt) error {
	switch v := s.(type) {
	case *ast.ReturnStmt:
		return nil
	case *ast.IfStmt:
		if be, ok := v.Cond.(*ast.BinaryExpr); ok && v.Else == nil && len(v.Body.List) == 1 && isReturn(v.Body.List[0]) {
			if c, ok := be.X.(*ast.CallExpr); ok {
				if id, ok := c.Fun.(*ast.Ident); ok && id.Name == "len" && len(c.Args) == 1 {
					if aid, ok := c.Args[0].(*ast.Ident); ok && x.bufs[aid.Name] && be.Op == token.LSS {
						return nil
					}
				}
			}
		}
		// guard on a decoded length field: if self.F > N { return err }
		if be, ok := v.Cond.(*ast.BinaryExpr); ok && v.Else == nil && len(v.Body.List) == 1 && isReturn(v.Body.List[0]) && be.Op == token.GTR {
			f, ok1 := x.field(be.X)
			n, ok2 := x.constInt(be.Y)
			if ok1 && ok2 && x.lay.Dec[f] != nil {
				effective := true
				for _, sd := range x.lay.StrDecs {
					if sd.LenField == f {
						effective = false // the slice was already taken
					}
				}
				if effective {
					x.lay.DecGuards = append(x.lay.DecGuards, [2]int{f, n})
				}
				return nil
			}
		}
		return x.errf(v, "unrecognised if statement")
	case *ast.AssignStmt:
		if len(v.Lhs) != len(v.Rhs) {
			return x.errf(v, "assignment arity")
		}
		for i := range v.Lhs {
			// buf := self.buf  (alias)
			if id, ok := v.Lhs[i].(*ast.Ident); ok && v.Tok == token.DEFINE {
				if p, ok := x.fieldPath(v.Rhs[i]); ok && p == "buf" {
					x.bufs[id.Name] = true
					continue
				}
			}
			// string decodes
			if f, ok := x.field(v.Lhs[i]); ok && x.fields[f].Kind == "str" {
				sd, err := x.strDec(f, v.Rhs[i])
				if err != nil {
					return err
				}
				x.lay.StrDecs = append(x.lay.StrDecs, sd)
				continue
			}
			offs, err := x.decSrc(v.Rhs[i])
			if err != nil {
				return err
			}
			if f, ok := x.field(v.Lhs[i]); ok {
				if len(offs) != x.fields[f].Width {
					return x.errf(v, "field %s: %d bytes decoded, width %d", x.fields[f].Name, len(offs), x.fields[f].Width)
				}
				x.lay.Dec[f] = offs
				continue
			}
			if ie, ok := v.Lhs[i].(*ast.IndexExpr); ok {
				f, ok1 := x.field(ie.X)
				k, ok2 := x.constInt(ie.Index)
				if ok1 && ok2 && len(offs) == 1 && k < x.fields[f].Width {
					if x.lay.Dec[f] == nil {
						x.lay.Dec[f] = make([]int, x.fields[f].Width)
						for j := range x.lay.Dec[f] {
							x.lay.Dec[f][j] = -1
						}
					}
					x.lay.Dec[f][k] = offs[0]
					continue
				}
			}
			return x.errf(v, "unrecognised decode target")
		}
		return nil
	}
	return x.errf(s, "unrecognised statement %T", s)
}

// strDec: strings.Trim(string(buf[a:b]), string([]byte{0}))  |  string(buf[a : a+self.LenField])
func (x *lx) strDec(f int, e ast.Expr) (StrDec, error) {
	c, ok := e.(*ast.CallExpr)
	if !ok {
		return StrDec{}, x.errf(e, "unrecognised string decode")
	}
	if se, ok := c.Fun.(*ast.SelectorExpr); ok && se.Sel.Name == "Trim" && len(c.Args) == 2 {
		inner, ok := c.Args[0].(*ast.CallExpr)
		if ok && len(inner.Args) == 1 {
			if sl, ok := inner.Args[0].(*ast.SliceExpr); ok {
				a, ok1 := x.constInt(sl.Low)
				b, ok2 := x.constInt(sl.High)
				cut := exprString(c.Args[1])
				if ok1 && ok2 && cut == "string([]byte{0})" {
					return StrDec{Field: f, Start: a, End: b, LenField: -1}, nil
				}
			}
		}
	}
	if id, ok := c.Fun.(*ast.Ident); ok && id.Name == "string" && len(c.Args) == 1 {
		if sl, ok := c.Args[0].(*ast.SliceExpr); ok {
			a, ok1 := x.constInt(sl.Low)
			if be, ok := sl.High.(*ast.BinaryExpr); ok && ok1 && be.Op == token.ADD {
				a2, ok2 := x.constInt(be.X)
				lf, ok3 := x.field(be.Y)
				if ok2 && ok3 && a2 == a {
					return StrDec{Field: f, Start: a, End: 64, LenField: lf}, nil
				}
			}
		}
	}
	return StrDec{}, x.errf(e, "unrecognised string decode")
}

func exprString(e ast.Expr) string {
	switch v := e.(type) {
	case *ast.CallExpr:
		s := exprString(v.Fun) + "("
		for i, a := range v.Args {
			if i > 0 {
				s += ","
			}
			s += exprString(a)
		}
		return s + ")"
	case *ast.Ident:
		return v.Name
	case *ast.CompositeLit:
		s := exprString(v.Type) + "{"
		for i, a := range v.Elts {
			if i > 0 {
				s += ","
			}
			s += exprString(a)
		}
		return s + "}"
	case *ast.ArrayType:
		return "[]" + exprString(v.Elt)
	case *ast.BasicLit:
		return v.Value
	case *ast.SelectorExpr:
		return exprString(v.X) + "." + v.Sel.Name
	}
	return fmt.Sprintf("%T", e)
}

type layoutSpec struct {
	Name   string // layout name
	Struct string // struct type supplying the fields
	Enc    string // "Type.Method" or "" ; Dec likewise
	Dec    string
}

func findMethod(files []*ast.File, recvType, name string) (*ast.FuncDecl, string) {
	for _, f := range files {
		for _, d := range f.Decls {
			fd, ok := d.(*ast.FuncDecl)
			if !ok || fd.Recv == nil || fd.Name.Name != name || len(fd.Recv.List) != 1 {
				continue
			}
			t := fd.Recv.List[0].Type
			if st, ok := t.(*ast.StarExpr); ok {
				t = st.X
			}
			if id, ok := t.(*ast.Ident); ok && id.Name == recvType {
				rn := ""
				if len(fd.Recv.List[0].Names) == 1 {
					rn = fd.Recv.List[0].Names[0].Name
				}
				return fd, rn
			}
		}
	}
	return nil, ""
}

func bufParams(fd *ast.FuncDecl) map[string]bool {
	out := map[string]bool{}
	for _, p := range fd.Type.Params.List {
		if at, ok := p.Type.(*ast.ArrayType); ok && at.Len == nil {
			for _, n := range p.Names {
				out[n.Name] = true
			}
		}
	}
	return out
}

func extractLayout(fset *token.FileSet, files []*ast.File, sd structDefs, file string, spec layoutSpec) (*Layout, error) {
	lay := &Layout{Name: spec.Name, File: file, EncFn: spec.Enc, DecFn: spec.Dec, StrCaps: map[int]int{}}
	sd.flatten(spec.Struct, "", &lay.Fields)
	fidx := map[string]int{}
	for i, f := range lay.Fields {
		fidx[f.Name] = i
	}
	lay.Enc = make([]Src, 64)
	for i := range lay.Enc {
		lay.Enc[i] = Src{K: "undef"}
	}
	lay.Dec = make([][]int, len(lay.Fields))
	if spec.Enc != "" {
		parts := strings.SplitN(spec.Enc, ".", 2)
		fd, rn := findMethod(files, parts[0], parts[1])
		if fd == nil {
			return nil, fmt.Errorf("layout %s: encoder %s not found", spec.Name, spec.Enc)
		}
		x := &lx{fset: fset, recv: rn, bufs: bufParams(fd), fields: lay.Fields, fidx: fidx, env: map[string]int{}, lay: lay, fn: spec.Enc}
		// AofLock keeps its buffer in a field
		for _, s := range fd.Body.List {
			if as, ok := s.(*ast.AssignStmt); ok && as.Tok == token.DEFINE && len(as.Lhs) == 1 {
				if id, ok := as.Lhs[0].(*ast.Ident); ok {
					if p, ok := x.fieldPath(as.Rhs[0]); ok && p == "buf" {
						x.bufs[id.Name] = true
						continue
					}
				}
			}
			if err := x.encStmt(s); err != nil {
				return nil, err
			}
		}
	}
	if spec.Dec != "" {
		parts := strings.SplitN(spec.Dec, ".", 2)
		fd, rn := findMethod(files, parts[0], parts[1])
		if fd == nil {
			return nil, fmt.Errorf("layout %s: decoder %s not found", spec.Name, spec.Dec)
		}
		x := &lx{fset: fset, recv: rn, bufs: bufParams(fd), fields: lay.Fields, fidx: fidx, env: map[string]int{}, lay: lay, fn: spec.Dec}
		for _, s := range fd.Body.List {
			if err := x.decStmt(s); err != nil {
				return nil, err
			}
		}
	}
	// classify string fields; compute widths of strings from their encode span
	for i := range lay.Fields {
		if lay.Fields[i].Kind == "str" {
			n := 0
			for _, s := range lay.Enc {
				if s.K == "str" && s.F == i {
					n++
				}
			}
			lay.Fields[i].Width = n
			for _, sdv := range lay.StrDecs {
				if sdv.Field == i && sdv.LenField >= 0 {
					lay.Fields[i].Kind = "lpstr"
				}
			}
		}
		for _, o := range lay.Dec[i] {
			if o < 0 {
				return nil, fmt.Errorf("layout %s: field %s partially decoded", spec.Name, lay.Fields[i].Name)
			}
		}
	}
	lay.dropOffWire()
	return lay, nil
}
