package main

// Index expressions into the database table `….dbs[e]` (server package; SLock.dbs has a fixed number of slots, allocated
// in NewSLock). Every such expression is classified by WHY it is in range:
//   u8       e has type uint8 and the table has 256 slots: a conversion uint8(…)/byte(…), a byte of a []byte buffer,
//            a uint8 parameter, or a field `.DbId` / `.dbId` of a non-protobuf struct (all of those are uint8 — checked)
//   range    e is the index variable of `for e := range ….dbs`
//   guarded  e is wider (a protobuf uint32 field) and an earlier statement of the same block returns when
//            `e >= uint32(len(….dbs))`
//   unguarded / unknown   none of the above: `Slock.C13T.dbs_index_guarded` stops checking
// Emitted as lean/Slock/Gen/DbsIndex.lean.

import (
	"fmt"
	"go/ast"
	"go/parser"
	"go/token"
	"os"
	"path/filepath"
	"strings"
)

type dbsRead struct {
	Fn   string `json:"fn"`
	File string `json:"file"`
	Line int    `json:"line"`
	Expr string `json:"expr"`
	Kind string `json:"kind"`
}

func dbsExprString(e ast.Expr) string {
	switch x := e.(type) {
	case *ast.Ident:
		return x.Name
	case *ast.SelectorExpr:
		return dbsExprString(x.X) + "." + x.Sel.Name
	case *ast.CallExpr:
		var as []string
		for _, a := range x.Args {
			as = append(as, dbsExprString(a))
		}
		return dbsExprString(x.Fun) + "(" + strings.Join(as, ",") + ")"
	case *ast.IndexExpr:
		return dbsExprString(x.X) + "[" + dbsExprString(x.Index) + "]"
	case *ast.BasicLit:
		return x.Value
	case *ast.ParenExpr:
		return "(" + dbsExprString(x.X) + ")"
	case *ast.BinaryExpr:
		return dbsExprString(x.X) + x.Op.String() + dbsExprString(x.Y)
	case *ast.StarExpr:
		return "*" + dbsExprString(x.X)
	case *ast.ArrayType:
		if x.Len == nil {
			return "[]" + dbsExprString(x.Elt)
		}
		return "[" + dbsExprString(x.Len) + "]" + dbsExprString(x.Elt)
	}
	return "?"
}

func dbsIsTable(e ast.Expr) bool {
	switch x := e.(type) {
	case *ast.SelectorExpr:
		return x.Sel.Name == "dbs"
	case *ast.Ident:
		return x.Name == "dbs"
	}
	return false
}

// field name → set of declared types, over the struct definitions of the given files
func dbsFieldTypes(files []*ast.File, names map[string]bool) map[string]map[string]bool {
	out := map[string]map[string]bool{}
	for _, f := range files {
		ast.Inspect(f, func(n ast.Node) bool {
			st, ok := n.(*ast.StructType)
			if !ok {
				return true
			}
			for _, fld := range st.Fields.List {
				for _, nm := range fld.Names {
					if names[nm.Name] {
						if out[nm.Name] == nil {
							out[nm.Name] = map[string]bool{}
						}
						out[nm.Name][dbsExprString(fld.Type)] = true
					}
				}
			}
			return true
		})
	}
	return out
}

func extractDbsIndex(repo string, proto, server *pkgInfo, out *Output, leanDir string, fail func(error)) {
	if server == nil {
		return
	}
	// table size: `make([]*LockDB, N)` in NewSLock
	size := 0
	for _, f := range server.files {
		ast.Inspect(f, func(n ast.Node) bool {
			c, ok := n.(*ast.CallExpr)
			if !ok || len(c.Args) != 2 {
				return true
			}
			if id, ok := c.Fun.(*ast.Ident); !ok || id.Name != "make" {
				return true
			}
			if dbsExprString(c.Args[0]) == "[]*LockDB" {
				if n, ok := thInt(c.Args[1]); ok {
					size = n
				}
			}
			return true
		})
	}
	if size == 0 {
		fail(fmt.Errorf("dbsindex: the allocation make([]*LockDB, N) was not found"))
	}
	// all non-protobuf DbId / dbId fields must be uint8
	names := map[string]bool{"DbId": true, "dbId": true}
	var all []*ast.File
	all = append(all, server.files...)
	if proto != nil {
		all = append(all, proto.files...)
	}
	for nm, ts := range dbsFieldTypes(all, names) {
		for t := range ts {
			if t != "uint8" {
				fail(fmt.Errorf("dbsindex: a struct field %s of type %s exists outside protobuf: the u8 classification no longer holds", nm, t))
			}
		}
	}
	// protobuf message fields named DbId and their types
	pbWide := map[string]bool{}
	pbdir := filepath.Join(repo, "protocol", "protobuf")
	if ents, err := os.ReadDir(pbdir); err == nil {
		fset := token.NewFileSet()
		var pbfiles []*ast.File
		for _, e := range ents {
			if strings.HasSuffix(e.Name(), ".go") && !strings.HasSuffix(e.Name(), "_test.go") {
				if f, err := parser.ParseFile(fset, filepath.Join(pbdir, e.Name()), nil, 0); err == nil {
					pbfiles = append(pbfiles, f)
				}
			}
		}
		for _, ts := range dbsFieldTypes(pbfiles, names) {
			for t := range ts {
				if t != "uint8" {
					pbWide[t] = true
				}
			}
		}
	}

	var reads []dbsRead
	for fi, f := range server.files {
		for _, d := range f.Decls {
			fd, ok := d.(*ast.FuncDecl)
			if !ok || fd.Body == nil {
				continue
			}
			fn := fd.Name.Name
			if r := thRecv(fd); r != "" {
				fn = r + "." + fn
			}
			// variables of this function declared with a protobuf type; uint8 parameters; []byte values
			pbVars, u8Vars, byteSlices := map[string]bool{}, map[string]bool{}, map[string]bool{}
			for _, fld := range fd.Type.Params.List {
				t := dbsExprString(fld.Type)
				for _, nm := range fld.Names {
					if t == "uint8" || t == "byte" {
						u8Vars[nm.Name] = true
					}
					if t == "[]byte" || t == "[]uint8" {
						byteSlices[nm.Name] = true
					}
				}
			}
			ast.Inspect(fd.Body, func(n ast.Node) bool {
				if as, ok := n.(*ast.AssignStmt); ok && as.Tok == token.DEFINE && len(as.Lhs) == len(as.Rhs) {
					for i, l := range as.Lhs {
						id, ok := l.(*ast.Ident)
						if !ok {
							continue
						}
						rhs := as.Rhs[i]
						if u, ok := rhs.(*ast.UnaryExpr); ok && u.Op == token.AND {
							rhs = u.X
						}
						if cl, ok := rhs.(*ast.CompositeLit); ok && strings.HasPrefix(dbsExprString(cl.Type), "protobuf.") {
							pbVars[id.Name] = true
						}
					}
				}
				if ds, ok := n.(*ast.DeclStmt); ok {
					if g, ok := ds.Decl.(*ast.GenDecl); ok {
						for _, sp := range g.Specs {
							if v, ok := sp.(*ast.ValueSpec); ok && v.Type != nil && strings.Contains(dbsExprString(v.Type), "protobuf.") {
								for _, nm := range v.Names {
									pbVars[nm.Name] = true
								}
							}
						}
					}
				}
				return true
			})
			classify := func(idx ast.Expr, rangeVars map[string]bool, guards map[string]bool) string {
				switch x := idx.(type) {
				case *ast.CallExpr:
					if id, ok := x.Fun.(*ast.Ident); ok && (id.Name == "uint8" || id.Name == "byte") && len(x.Args) == 1 {
						return "u8"
					}
				case *ast.IndexExpr:
					if id, ok := x.X.(*ast.Ident); ok && (byteSlices[id.Name] || id.Name == "buf") {
						return "u8"
					}
				case *ast.Ident:
					if rangeVars[x.Name] {
						return "range"
					}
					if u8Vars[x.Name] {
						return "u8"
					}
				case *ast.SelectorExpr:
					if names[x.Sel.Name] {
						base := ""
						if id, ok := x.X.(*ast.Ident); ok {
							base = id.Name
						}
						if base != "" && pbVars[base] {
							if guards[dbsExprString(idx)] {
								return "guarded"
							}
							return "unguarded"
						}
						return "u8"
					}
				}
				if guards[dbsExprString(idx)] {
					return "guarded"
				}
				return "unknown"
			}
			// walk blocks, collecting `if E >= uint32(len(….dbs)) { return }` guards per block prefix
			var walk func(n ast.Node, rangeVars map[string]bool, guards map[string]bool)
			walk = func(n ast.Node, rangeVars map[string]bool, guards map[string]bool) {
				switch x := n.(type) {
				case nil:
					return
				case *ast.BlockStmt:
					g := map[string]bool{}
					for k := range guards {
						g[k] = true
					}
					for _, st := range x.List {
						walk(st, rangeVars, g)
						if is, ok := st.(*ast.IfStmt); ok && thTerminates(is.Body) {
							if be, ok := is.Cond.(*ast.BinaryExpr); ok && be.Op == token.GEQ {
								rhs := dbsExprString(be.Y)
								if strings.Contains(rhs, "len(") && strings.Contains(rhs, "dbs)") {
									g[dbsExprString(be.X)] = true
								}
							}
						}
					}
					return
				case *ast.RangeStmt:
					rv := map[string]bool{}
					for k := range rangeVars {
						rv[k] = true
					}
					if dbsIsTable(x.X) {
						if id, ok := x.Key.(*ast.Ident); ok && id.Name != "_" {
							rv[id.Name] = true
						}
					}
					walk(x.Body, rv, guards)
					return
				case *ast.IndexExpr:
					if dbsIsTable(x.X) {
						reads = append(reads, dbsRead{Fn: fn, File: "server/" + server.names[fi], Line: server.fset.Position(x.Pos()).Line, Expr: dbsExprString(x.Index), Kind: classify(x.Index, rangeVars, guards)})
					}
				}
				// generic children
				ast.Inspect(n, func(c ast.Node) bool {
					if c == n || c == nil {
						return true
					}
					switch c.(type) {
					case *ast.BlockStmt, *ast.RangeStmt, *ast.IndexExpr:
						walk(c, rangeVars, guards)
						return false
					}
					return true
				})
			}
			walk(fd.Body, map[string]bool{}, map[string]bool{})
		}
	}
	if len(reads) < 10 {
		fail(fmt.Errorf("dbsindex: only %d index expressions into dbs recognised", len(reads)))
	}
	out.Facts["dbsindex"] = map[string]interface{}{"size": size, "reads": reads}

	var b strings.Builder
	b.WriteString("/- GENERATED by /verif/go/extract (dbsindex.go) from /repo/server — do not edit. -/\nimport Slock.Model.TextHandlers\nnamespace Slock.Gen\nopen Slock.TextH\n\n")
	fmt.Fprintf(&b, "/-- `make([]*LockDB, N)` in NewSLock -/\ndef dbsTableSize : Nat := %d\n\n", size)
	b.WriteString("/-- every index expression `….dbs[e]` of the server package with the reason it is in range -/\ndef dbsReads : List DbsRead := [\n")
	for i, r := range reads {
		sep := ","
		if i == len(reads)-1 {
			sep = ""
		}
		kind := map[string]string{"u8": ".u8", "range": ".range", "guarded": ".guarded", "unguarded": ".unguarded"}[r.Kind]
		if kind == "" {
			kind = ".unknown"
		}
		fmt.Fprintf(&b, "  { fn := %s, file := %s, line := %d, expr := %s, kind := %s }%s\n", leanStr(r.Fn), leanStr(r.File), r.Line, leanStr(r.Expr), kind, sep)
	}
	b.WriteString("]\n\nend Slock.Gen\n")
	if err := writeIfChanged(filepath.Join(leanDir, "Slock/Gen/DbsIndex.lean"), b.String()); err != nil {
		fail(err)
	}
}
