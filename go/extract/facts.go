package main

// F: AST facts with hand-written expectations.

func extractFacts(repo string, proto, server *pkgInfo, out *Output, fail func(error)) {
}
