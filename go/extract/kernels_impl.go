package main

// G3: decision kernels. A mini-translator for PURE integer/boolean Go functions:
//   statements: `if cond { … }`, `if … else …`, `return expr`, local `x := expr` (non-reassigned)
//   expressions: comparisons, && || !, + - * / % & |, integer literals, package constants, fixed-width
//                conversions (widening only — see `conv`), reads of struct fields through a per-kernel
//                PARAMETER MAP (Go selector chain → Lean parameter), calls to other kernels in the map.
// Anything else is an extraction error (the tie is broken), never a guess.

import (
	"fmt"
	"go/ast"
	"go/token"
	"sort"
	"strings"
)

type kernelSpec struct {
	Name   string            // Lean def name
	Pkg    string            // "server" | "protocol"
	Recv   string            // receiver type ("" for plain func)
	Func   string            // Go function name
	Params []string          // Lean parameters in order, "name : Type"
	Map    map[string]string // Go expression (normalised) → Lean term
	Ret    string            // Lean return type
	Target string            // fragment kernels: the assigned lvalue (normalised); "" for whole-function kernels
	Occ    int               // fragment kernels: which maximal assignment chain inside Func (0-based, source order)
	Total  int               // "assign": expected number of assignments to Target in Func (default Occ+1)
	Kind   string            // "callargs": the argument lists of every call of Target in Func, as strings (a fact, compared with a committed expectation in Lean) |
	//                          "" whole function | "chain" (default when Target set) | "assign": the Occ-th plain assignment / definition of Target |
	//                          "guard": the condition of the innermost `if` whose body directly contains the call statement Target
}

var kernelSpecs = []kernelSpec{
	{Name: "doLock", Pkg: "server", Recv: "LockDB", Func: "doLock", Ret: "Bool",
		Params: []string{"locked : Nat32", "curCount : Nat16", "count : Nat16", "tflag : Nat16", "cmpVersion : Int"},
		Map: map[string]string{
			"lockManager.locked": "locked", "lockManager.currentLock.command.Count": "curCount", "lock.command.Count": "count",
			"lock.command.TimeoutFlag": "tflag",
			"self.compareLockVersion(lock.command.LockId,lockManager.currentLock.command.LockId)": "cmpVersion"}},
	{Name: "checkLockedCountEqual", Pkg: "server", Recv: "LockManager", Func: "checkLockedCountEqual", Ret: "Bool",
		Params: []string{"count : Nat16", "rcount : Nat8", "tflag : Nat16", "hCount : Nat16", "hRcount : Nat8", "hTflag : Nat16"},
		Map: map[string]string{"command.Count": "count", "command.Rcount": "rcount", "command.TimeoutFlag": "tflag",
			"lock.command.Count": "hCount", "lock.command.Rcount": "hRcount", "lock.command.TimeoutFlag": "hTflag"}},
	{Name: "checkLockedEqual", Pkg: "server", Recv: "LockManager", Func: "CheckLockedEqual", Ret: "Bool",
		Params: []string{"now : Int", "expT : Int", "eflag : Nat16", "expried : Nat16", "countEq : Bool"},
		Map: map[string]string{"command.ExpriedFlag": "eflag", "command.Expried": "expried", "lock.expriedTime": "expT",
			"self.lockDb.currentTime": "now", "self.checkLockedCountEqual(lock,command)": "countEq"}},
	// deadline formulas: every place that computes a hold's expiry deadline or a request's wait deadline from its command
	{Name: "expAddLock", Pkg: "server", Recv: "LockManager", Func: "AddLock", Ret: "Int", Target: "lock.expriedTime", Occ: 0,
		Params: []string{"start : Int", "eflag : Nat16", "expried : Nat16"},
		Map:    map[string]string{"lock.startTime": "start", "lock.command.ExpriedFlag": "eflag", "lock.command.Expried": "expried"}},
	{Name: "expUpdate", Pkg: "server", Recv: "LockManager", Func: "UpdateLockedLock", Ret: "Int", Target: "lock.expriedTime", Occ: 0,
		Params: []string{"start : Int", "eflag : Nat16", "expried : Nat16"},
		Map:    map[string]string{"lock.startTime": "start", "command.ExpriedFlag": "eflag", "command.Expried": "expried"}},
	{Name: "toUpdate", Pkg: "server", Recv: "LockManager", Func: "UpdateLockedLock", Ret: "Int", Target: "lock.timeoutTime", Occ: 0,
		Params: []string{"start : Int", "tflag : Nat16", "timeout : Nat16"},
		Map:    map[string]string{"lock.startTime": "start", "command.TimeoutFlag": "tflag", "command.Timeout": "timeout"}},
	{Name: "expNew", Pkg: "server", Recv: "LockManager", Func: "GetOrNewLock", Ret: "Int", Target: "lock.expriedTime", Occ: 0,
		Params: []string{"start : Int", "eflag : Nat16", "expried : Nat16"},
		Map:    map[string]string{"lock.startTime": "start", "lock.command.ExpriedFlag": "eflag", "lock.command.Expried": "expried"}},
	{Name: "toNew", Pkg: "server", Recv: "LockManager", Func: "GetOrNewLock", Ret: "Int", Target: "lock.timeoutTime", Occ: 0,
		Params: []string{"start : Int", "tflag : Nat16", "timeout : Nat16"},
		Map:    map[string]string{"now": "start", "lock.command.TimeoutFlag": "tflag", "command.Timeout": "timeout"}},
	{Name: "expAck", Pkg: "server", Recv: "LockDB", Func: "DoAckLock", Ret: "Int", Target: "lock.expriedTime", Occ: 0,
		Params: []string{"start : Int", "eflag : Nat16", "expried : Nat16"},
		Map:    map[string]string{"lock.startTime": "start", "lock.command.ExpriedFlag": "eflag", "lock.command.Expried": "expried"}},
	// journal <-> deadline conversions (C07): remaining lifetime stored in a record, and the Expried replayed on reload
	{Name: "getLockCommandExpriedTime", Pkg: "server", Recv: "Aof", Func: "GetLockCommandExpriedTime", Ret: "Nat",
		Params: []string{"eflag : Nat16", "recExp : Nat16", "ct : Int", "now : Int"},
		Map: map[string]string{"aofLock.ExpriedFlag": "eflag", "aofLock.ExpriedTime": "recExp", "int64(aofLock.CommandTime)": "ct",
			"lockDb.currentTime": "now"}},
	{Name: "getAofLockExpriedTime", Pkg: "server", Recv: "Aof", Func: "GetAofLockExpriedTime", Ret: "Nat",
		Params: []string{"eflag : Nat16", "expried : Nat16", "dl : Int", "ct : Int"},
		Map: map[string]string{"lockCommand.ExpriedFlag": "eflag", "lockCommand.Expried": "expried", "lock.expriedTime": "dl",
			"int64(aofLock.CommandTime)": "ct"}},
	// millisecond wheel: park time, hand-over decision, second-wheel deadline (C05 / C06, millisecond unit)
	{Name: "msParkEndTimeout", Pkg: "server", Recv: "LockDB", Func: "AddMillisecondTimeOut", Ret: "Int", Target: "ms", Kind: "assign",
		Params: []string{"nowMs : Int", "timeout : Nat16"},
		Map:    map[string]string{"time.Now().UnixNano()/1e6": "nowMs", "lock.command.Timeout": "timeout"}},
	{Name: "msToSecondWheelTimeout", Pkg: "server", Recv: "LockDB", Func: "checkMillisecondTimeOut", Ret: "Bool", Target: "self.AddTimeOut(lock)", Kind: "guard",
		Params: []string{"timeout : Nat16"}, Map: map[string]string{"lock.command.Timeout": "timeout"}},
	{Name: "msSecondDeadlineTimeout", Pkg: "server", Recv: "LockDB", Func: "checkMillisecondTimeOut", Ret: "Int", Target: "lock.timeoutTime", Kind: "assign",
		Params: []string{"start : Int", "timeout : Nat16"}, Map: map[string]string{"lock.startTime": "start", "lock.command.Timeout": "timeout"}},
	{Name: "msParkEndExpried", Pkg: "server", Recv: "LockDB", Func: "AddMillisecondExpried", Ret: "Int", Target: "ms", Kind: "assign",
		Params: []string{"nowMs : Int", "expried : Nat16"},
		Map:    map[string]string{"time.Now().UnixNano()/1e6": "nowMs", "lock.command.Expried": "expried"}},
	{Name: "msToSecondWheelExpried", Pkg: "server", Recv: "LockDB", Func: "checkMillisecondExpried", Ret: "Bool", Target: "self.AddExpried(lock)", Kind: "guard",
		Params: []string{"expried : Nat16"}, Map: map[string]string{"lock.command.Expried": "expried"}},
	{Name: "msSecondDeadlineExpried", Pkg: "server", Recv: "LockDB", Func: "checkMillisecondExpried", Ret: "Int", Target: "lock.expriedTime", Kind: "assign",
		Params: []string{"start : Int", "expried : Nat16"}, Map: map[string]string{"lock.startTime": "start", "lock.command.Expried": "expried"}},
	// follower-side expiry: the re-arm applied to a replicated hold that reaches its deadline off-leader, and which call sites may defer
	{Name: "followerRearm", Pkg: "server", Recv: "LockDB", Func: "doExpried", Ret: "Int", Target: "lock.expriedTime", Kind: "assign", Occ: 0, Total: 2,
		Params: []string{"now : Int"}, Map: map[string]string{"self.currentTime": "now"}},
	{Name: "doExpriedCalls_checkMillisecondExpried", Pkg: "server", Recv: "LockDB", Func: "checkMillisecondExpried", Ret: "List (List String)", Target: "self.doExpried", Kind: "callargs"},
	{Name: "doExpriedCalls_checkTimeExpried", Pkg: "server", Recv: "LockDB", Func: "checkTimeExpried", Ret: "List (List String)", Target: "self.doExpried", Kind: "callargs"},
	{Name: "doTimeOutCalls_checkMillisecondTimeOut", Pkg: "server", Recv: "LockDB", Func: "checkMillisecondTimeOut", Ret: "List (List String)", Target: "self.doTimeOut", Kind: "callargs"},
	{Name: "doTimeOutCalls_checkTimeTimeOut", Pkg: "server", Recv: "LockDB", Func: "checkTimeTimeOut", Ret: "List (List String)", Target: "self.doTimeOut", Kind: "callargs"},
	// client package: how a Database's default flags are merged into the packed timeout / expried words of every primitive it builds
	{Name: "clientMergeTimeoutFlag", Pkg: "client", Recv: "Database", Func: "mergeTimeoutFlag", Ret: "Nat",
		Params: []string{"timeout : Nat32", "defT : Nat16", "defE : Nat16"},
		Map:    map[string]string{"timeout": "timeout", "self.defaultTimeoutFlag": "defT", "self.defaultExpriedFlag": "defE"}},
	{Name: "clientMergeExpriedFlag", Pkg: "client", Recv: "Database", Func: "mergeExpriedFlag", Ret: "Nat",
		Params: []string{"expried : Nat32", "defT : Nat16", "defE : Nat16"},
		Map:    map[string]string{"expried": "expried", "self.defaultTimeoutFlag": "defT", "self.defaultExpriedFlag": "defE"}},
	{Name: "getMajorityMemberCount", Pkg: "server", Recv: "ArbiterManager", Func: "GetMajorityMemberCount", Ret: "Nat", Params: nil, Map: nil},
}

var kernelClientPkg *pkgInfo // set by main: the client package, for kernels with Pkg == "client"

type ktr struct {
	spec   *kernelSpec
	fset   *token.FileSet
	locals map[string]string // local var → Lean term
	consts map[string]int64
	intCtx bool
}

func kNormExpr(e ast.Expr) string {
	switch v := e.(type) {
	case *ast.Ident:
		return v.Name
	case *ast.SelectorExpr:
		return kNormExpr(v.X) + "." + v.Sel.Name
	case *ast.CallExpr:
		var a []string
		for _, x := range v.Args {
			a = append(a, kNormExpr(x))
		}
		return kNormExpr(v.Fun) + "(" + strings.Join(a, ",") + ")"
	case *ast.ParenExpr:
		return kNormExpr(v.X)
	case *ast.BasicLit:
		return v.Value
	case *ast.BinaryExpr:
		return kNormExpr(v.X) + v.Op.String() + kNormExpr(v.Y)
	}
	return fmt.Sprintf("<%T>", e)
}

func (k *ktr) errf(n ast.Node, f string, a ...interface{}) error {
	return fmt.Errorf("kernel %s: %s: %s", k.spec.Name, k.fset.Position(n.Pos()), fmt.Sprintf(f, a...))
}

// isIntTerm: Lean parameters typed Int force integer (possibly negative) arithmetic
func (k *ktr) leanType(term string) string {
	for _, p := range k.spec.Params {
		parts := strings.SplitN(p, " : ", 2)
		if parts[0] == term {
			return parts[1]
		}
	}
	return ""
}

// Types: "Bool", "Int" (Go int64/int: no wrap-around assumed), "Nat" (uint64 / unbounded), "Nat8"/"Nat16"/"Nat32" (Go uintN:
// + and * wrap modulo 2^N exactly as Go does), "Lit" (untyped constant: takes the other operand's type).
func natWidth(ty string) int {
	switch ty {
	case "Nat8":
		return 8
	case "Nat16":
		return 16
	case "Nat32":
		return 32
	}
	return 0
}

func leanParamType(ty string) string {
	if natWidth(ty) > 0 {
		return "Nat"
	}
	return ty
}

func pow2(w int) string { return fmt.Sprintf("%d", uint64(1)<<uint(w)) }

func (k *ktr) expr(e ast.Expr) (string, string, error) { // returns Lean term, type ("Nat","Int","Bool")
	if t, ok := k.spec.Map[kNormExpr(e)]; ok {
		return t, k.leanType(t), nil
	}
	switch v := e.(type) {
	case *ast.ParenExpr:
		t, ty, err := k.expr(v.X)
		return "(" + t + ")", ty, err
	case *ast.BasicLit:
		if v.Kind == token.INT {
			n, ok := evalConst(v, 0, nil)
			if !ok {
				return "", "", k.errf(e, "bad literal")
			}
			return fmt.Sprintf("%d", n), "Lit", nil
		}
	case *ast.Ident:
		if t, ok := k.locals[v.Name]; ok {
			parts := strings.SplitN(t, "\x00", 2)
			return parts[0], parts[1], nil
		}
		if v.Name == "true" || v.Name == "false" {
			return v.Name, "Bool", nil
		}
		if n, ok := k.consts[v.Name]; ok {
			return fmt.Sprintf("%d", n), "Lit", nil
		}
	case *ast.SelectorExpr:
		if id, ok := v.X.(*ast.Ident); ok && id.Name == "protocol" {
			if n, ok := k.consts[v.Sel.Name]; ok {
				return fmt.Sprintf("%d", n), "Lit", nil
			}
		}
	case *ast.CallExpr:
		// fixed-width conversions: only widening / same-width conversions of already-bounded fields are accepted as identity
		if id, ok := v.Fun.(*ast.Ident); ok && len(v.Args) == 1 {
			switch id.Name {
			case "uint32", "uint64", "int64", "int", "uint16", "uint8", "int32":
				t, ty, err := k.expr(v.Args[0])
				if err != nil {
					return "", "", err
				}
				if ty == "Bool" {
					return "", "", k.errf(e, "conversion of a boolean")
				}
				if id.Name == "int64" || id.Name == "int" {
					if ty == "Int" {
						return t, "Int", nil
					}
					return "(" + t + " : Int)", "Int", nil // every unsigned ≤ 32-bit value and every Lit fits
				}
				if id.Name == "int32" {
					return "", "", k.errf(e, "int32 conversion is not translated")
				}
				target := map[string]string{"uint8": "Nat8", "uint16": "Nat16", "uint32": "Nat32", "uint64": "Nat"}[id.Name]
				if ty == "Int" {
					if natWidth(target) == 0 {
						return "", "", k.errf(e, "conversion of a signed value to uint64 is not translated")
					}
					// two's-complement truncation: Lean's Int `%` is Euclidean, so the result is in [0, 2^w)
					return "(Int.toNat (" + t + " % (" + pow2(natWidth(target)) + " : Int)))", target, nil
				}
				if ty == "Lit" {
					return t, target, nil
				}
				sw, tw := natWidth(ty), natWidth(target)
				if sw == 0 {
					sw = 64
				}
				if tw == 0 {
					tw = 64
				}
				if tw >= sw {
					return t, target, nil // widening: value unchanged
				}
				return "(" + t + " % " + pow2(tw) + ")", target, nil // narrowing truncates
			}
		}
	case *ast.UnaryExpr:
		if v.Op == token.NOT {
			t, _, err := k.expr(v.X)
			return "(!" + t + ")", "Bool", err
		}
	case *ast.BinaryExpr:
		a, ta, err := k.expr(v.X)
		if err != nil {
			return "", "", err
		}
		b, tb, err := k.expr(v.Y)
		if err != nil {
			return "", "", err
		}
		coerce := func() {
			if ta == "Lit" && tb != "Lit" {
				ta = tb
				if tb == "Int" {
					a = "(" + a + " : Int)"
				}
			}
			if tb == "Lit" && ta != "Lit" {
				tb = ta
				if ta == "Int" {
					b = "(" + b + " : Int)"
				}
			}
			if ta == "Lit" && tb == "Lit" {
				ta, tb = "Nat", "Nat"
			}
		}
		mixed := func() error {
			if ta != tb {
				return k.errf(e, "operands of different Go types (%s, %s): not translated", ta, tb)
			}
			return nil
		}
		switch v.Op {
		case token.LAND:
			return "(" + a + " && " + b + ")", "Bool", nil
		case token.LOR:
			return "(" + a + " || " + b + ")", "Bool", nil
		case token.EQL, token.NEQ, token.LSS, token.LEQ, token.GTR, token.GEQ:
			coerce()
			if err := mixed(); err != nil {
				return "", "", err
			}
			if ta == "Bool" {
				op := map[token.Token]string{token.EQL: "==", token.NEQ: "!="}[v.Op]
				return "(" + a + " " + op + " " + b + ")", "Bool", nil
			}
			op := map[token.Token]string{token.EQL: "==", token.NEQ: "!=", token.LSS: "<", token.LEQ: "≤", token.GTR: ">", token.GEQ: "≥"}[v.Op]
			if v.Op == token.EQL || v.Op == token.NEQ {
				return "(" + a + " " + op + " " + b + ")", "Bool", nil
			}
			return "(decide (" + a + " " + op + " " + b + "))", "Bool", nil
		case token.ADD, token.SUB, token.MUL, token.QUO, token.REM:
			coerce()
			if err := mixed(); err != nil {
				return "", "", err
			}
			op := map[token.Token]string{token.ADD: "+", token.SUB: "-", token.MUL: "*", token.QUO: "/", token.REM: "%"}[v.Op]
			if v.Op == token.SUB && ta != "Int" {
				w := natWidth(ta)
				if w == 0 {
					return "", "", k.errf(e, "subtraction on 64-bit unsigned values is not translated")
				}
				// Go's unsigned subtraction wraps modulo 2^w (operands are < 2^w by their type)
				return "(((" + a + " + " + pow2(w) + ") - " + b + ") % " + pow2(w) + ")", ta, nil
			}
			if (v.Op == token.QUO || v.Op == token.REM) && ta == "Int" {
				// Go truncates towards zero: Int.tdiv / Int.tmod are exactly that
				fn := map[token.Token]string{token.QUO: "Int.tdiv", token.REM: "Int.tmod"}[v.Op]
				return "(" + fn + " " + a + " " + b + ")", "Int", nil
			}
			r := "(" + a + " " + op + " " + b + ")"
			if w := natWidth(ta); w > 0 && (v.Op == token.ADD || v.Op == token.MUL) {
				r = "(" + r + " % " + pow2(w) + ")" // Go's unsigned arithmetic wraps
			}
			return r, ta, nil
		case token.SHL, token.SHR:
			// shift of an unsigned value by a literal: wraps modulo 2^w exactly as Go does
			if tb != "Lit" || ta == "Int" || ta == "Bool" || ta == "Lit" {
				return "", "", k.errf(e, "only `unsigned << literal` / `>> literal` is translated")
			}
			w := natWidth(ta)
			if v.Op == token.SHL {
				if w == 0 {
					return "", "", k.errf(e, "left shift of a 64-bit value is not translated (wrap-around)")
				}
				return "((" + a + " <<< " + b + ") % " + pow2(w) + ")", ta, nil
			}
			return "(" + a + " >>> " + b + ")", ta, nil
		case token.AND, token.OR:
			coerce()
			if err := mixed(); err != nil {
				return "", "", err
			}
			if ta == "Int" || ta == "Bool" {
				return "", "", k.errf(e, "bit operation on %s", ta)
			}
			op := map[token.Token]string{token.AND: "&&&", token.OR: "|||"}[v.Op]
			return "(" + a + " " + op + " " + b + ")", ta, nil
		}
	}
	return "", "", k.errf(e, "untranslatable expression %s", kNormExpr(e))
}

func (k *ktr) cond(e ast.Expr) (string, error) {
	t, ty, err := k.expr(e)
	if err != nil {
		return "", err
	}
	if ty != "Bool" {
		return "", k.errf(e, "condition is not boolean")
	}
	return t, nil
}

// block translates a statement list that ends in a return on every path into one Lean expression.
func (k *ktr) block(stmts []ast.Stmt, indent string) (string, error) {
	if len(stmts) == 0 {
		return "", fmt.Errorf("kernel %s: control reaches the end of a block without return", k.spec.Name)
	}
	switch s := stmts[0].(type) {
	case *ast.ReturnStmt:
		if len(s.Results) != 1 {
			return "", k.errf(s, "return arity")
		}
		t, ty, err := k.expr(s.Results[0])
		if err == nil && ty == "Lit" && k.spec.Ret == "Int" {
			t = "(" + t + " : Int)"
		}
		return t, err
	case *ast.AssignStmt:
		if s.Tok == token.DEFINE && len(s.Lhs) == 1 && len(s.Rhs) == 1 {
			id, ok := s.Lhs[0].(*ast.Ident)
			if !ok {
				return "", k.errf(s, "assignment target")
			}
			t, ty, err := k.expr(s.Rhs[0])
			if err != nil {
				return "", err
			}
			k.locals[id.Name] = id.Name + "\x00" + ty
			rest, err := k.block(stmts[1:], indent)
			if err != nil {
				return "", err
			}
			return "let " + id.Name + " := " + t + "\n" + indent + rest, nil
		}
		return "", k.errf(s, "only `x := expr` assignments are translated")
	case *ast.IncDecStmt:
		id, ok := s.X.(*ast.Ident)
		if !ok {
			return "", k.errf(s, "++/-- on a non-local")
		}
		cur, ok := k.locals[id.Name]
		if !ok {
			return "", k.errf(s, "++/-- on an unknown local")
		}
		ty := strings.SplitN(cur, "\x00", 2)[1]
		if ty != "Int" {
			return "", k.errf(s, "++/-- is translated only for int64 locals")
		}
		op := "+"
		if s.Tok == token.DEC {
			op = "-"
		}
		rest, err := k.block(stmts[1:], indent)
		if err != nil {
			return "", err
		}
		return "let " + id.Name + " := (" + id.Name + " " + op + " (1 : Int))\n" + indent + rest, nil
	case *ast.IfStmt:
		if s.Init != nil {
			return "", k.errf(s, "if with init")
		}
		c, err := k.cond(s.Cond)
		if err != nil {
			return "", err
		}
		// then-branch: may fall through to the rest
		thenStmts := append(append([]ast.Stmt{}, s.Body.List...), stmts[1:]...)
		if blockReturns(s.Body.List) {
			thenStmts = s.Body.List
		}
		th, err := k.block(thenStmts, indent+"  ")
		if err != nil {
			return "", err
		}
		var elseStmts []ast.Stmt
		if s.Else != nil {
			switch ev := s.Else.(type) {
			case *ast.BlockStmt:
				elseStmts = append(append([]ast.Stmt{}, ev.List...), stmts[1:]...)
				if blockReturns(ev.List) {
					elseStmts = ev.List
				}
			case *ast.IfStmt:
				elseStmts = append([]ast.Stmt{ev}, stmts[1:]...)
			}
		} else {
			elseStmts = stmts[1:]
		}
		el, err := k.block(elseStmts, indent+"  ")
		if err != nil {
			return "", err
		}
		return "if " + c + " then\n" + indent + "  " + th + "\n" + indent + "else\n" + indent + "  " + el, nil
	}
	return "", k.errf(stmts[0], "untranslatable statement %T", stmts[0])
}

func blockReturns(stmts []ast.Stmt) bool {
	if len(stmts) == 0 {
		return false
	}
	switch s := stmts[len(stmts)-1].(type) {
	case *ast.ReturnStmt:
		return true
	case *ast.IfStmt:
		if s.Else == nil {
			return false
		}
		eb, ok := s.Else.(*ast.BlockStmt)
		if ok {
			return blockReturns(s.Body.List) && blockReturns(eb.List)
		}
		if ei, ok := s.Else.(*ast.IfStmt); ok {
			return blockReturns(s.Body.List) && blockReturns([]ast.Stmt{ei})
		}
	}
	return false
}

func findFunc(p *pkgInfo, recv, name string) *ast.FuncDecl {
	if recv != "" {
		fd, _ := findMethod(p.files, recv, name)
		return fd
	}
	for _, f := range p.files {
		for _, d := range f.Decls {
			if fd, ok := d.(*ast.FuncDecl); ok && fd.Recv == nil && fd.Name.Name == name {
				return fd
			}
		}
	}
	return nil
}

func extractKernels(proto, server *pkgInfo, out *Output, fail func(error)) {
	for i := range kernelSpecs {
		spec := &kernelSpecs[i]
		if spec.Map == nil && spec.Kind != "callargs" { // specs without a map are handled by special-purpose code or skipped
			continue
		}
		p := server
		if spec.Pkg == "protocol" {
			p = proto
		}
		if spec.Pkg == "client" {
			p = kernelClientPkg
		}
		if p == nil {
			continue
		}
		fd := findFunc(p, spec.Recv, spec.Func)
		if fd == nil {
			fail(fmt.Errorf("kernel %s: function %s.%s not found", spec.Name, spec.Recv, spec.Func))
			continue
		}
		k := &ktr{spec: spec, fset: p.fset, locals: map[string]string{}, consts: out.Consts}
		var body string
		var err error
		if spec.Kind == "callargs" {
			body, err = extractCallArgs(k, fd)
		} else if spec.Kind == "assign" {
			body, err = extractAssign(k, fd)
		} else if spec.Kind == "guard" {
			body, err = extractGuard(k, fd)
		} else if spec.Target != "" {
			body, err = extractFragment(k, fd)
		} else {
			body, err = k.block(fd.Body.List, "  ")
		}
		if err != nil {
			fail(err)
			continue
		}
		lean := fmt.Sprintf("def %s %s : %s :=\n  %s\n", spec.Name, paramList(spec.Params), spec.Ret, body)
		out.Kernels = append(out.Kernels, KernelOut{Name: spec.Name, Src: fmt.Sprintf("%s.%s", spec.Recv, spec.Func), Lean: lean})
	}
}

func paramList(ps []string) string {
	var s []string
	for _, p := range ps {
		parts := strings.SplitN(p, " : ", 2)
		s = append(s, "("+parts[0]+" : "+leanParamType(parts[1])+")")
	}
	return strings.Join(s, " ")
}

func emitKernels(out *Output) string {
	var b strings.Builder
	b.WriteString("/- GENERATED by /verif/go/extract (kernels_impl.go) from /repo — do not edit.\n   Pure decision kernels translated statement by statement; struct fields become the parameters named in the kernel's map. -/\nnamespace Slock.Gen.K\n\n")
	ks := append([]KernelOut{}, out.Kernels...)
	sort.SliceStable(ks, func(i, j int) bool { return false })
	for _, k := range ks {
		b.WriteString("/-- from " + k.Src + " -/\n" + k.Lean + "\n")
	}
	b.WriteString("end Slock.Gen.K\n")
	return b.String()
}
