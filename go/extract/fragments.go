package main

// G3 (fragments): an if/else chain inside a larger function whose every leaf is ONE assignment to the same lvalue
// (`lock.expriedTime = …`) is translated into a Lean function returning the assigned value. The chain is located by
// (function, target, occurrence index); if the function no longer contains that many chains, or a leaf is anything but a
// single assignment to the target, extraction fails (= tie broken), never guesses.

import (
	"fmt"
	"go/ast"
	"go/token"
	"strings"
)

func isAssignTo(s ast.Stmt, target string) (ast.Expr, bool) {
	a, ok := s.(*ast.AssignStmt)
	if !ok || a.Tok != token.ASSIGN || len(a.Lhs) != 1 || len(a.Rhs) != 1 {
		return nil, false
	}
	if kNormExpr(a.Lhs[0]) != target {
		return nil, false
	}
	return a.Rhs[0], true
}

func isChainBlock(list []ast.Stmt, target string) bool {
	if len(list) != 1 {
		return false
	}
	if _, ok := isAssignTo(list[0], target); ok {
		return true
	}
	if i, ok := list[0].(*ast.IfStmt); ok {
		return isChain(i, target)
	}
	return false
}

func isChain(s *ast.IfStmt, target string) bool {
	if s.Init != nil || s.Else == nil || !isChainBlock(s.Body.List, target) {
		return false
	}
	switch ev := s.Else.(type) {
	case *ast.BlockStmt:
		return isChainBlock(ev.List, target)
	case *ast.IfStmt:
		return isChain(ev, target)
	}
	return false
}

// findChains returns the maximal assignment chains to `target` in source order.
func findChains(body *ast.BlockStmt, target string) []*ast.IfStmt {
	var out []*ast.IfStmt
	var walk func(n ast.Node) bool
	walk = func(n ast.Node) bool {
		if i, ok := n.(*ast.IfStmt); ok && isChain(i, target) {
			out = append(out, i)
			return false // maximal: do not descend
		}
		return true
	}
	ast.Inspect(body, walk)
	return out
}

func (k *ktr) chainBlock(list []ast.Stmt, indent string) (string, string, error) {
	if rhs, ok := isAssignTo(list[0], k.spec.Target); ok {
		return k.expr(rhs)
	}
	return k.chain(list[0].(*ast.IfStmt), indent)
}

func (k *ktr) chain(s *ast.IfStmt, indent string) (string, string, error) {
	c, err := k.cond(s.Cond)
	if err != nil {
		return "", "", err
	}
	th, t1, err := k.chainBlock(s.Body.List, indent+"  ")
	if err != nil {
		return "", "", err
	}
	var el, t2 string
	switch ev := s.Else.(type) {
	case *ast.BlockStmt:
		el, t2, err = k.chainBlock(ev.List, indent+"  ")
	case *ast.IfStmt:
		el, t2, err = k.chain(ev, indent+"  ")
	}
	if err != nil {
		return "", "", err
	}
	if t1 == "Lit" && t2 == "Int" {
		th, t1 = "("+th+" : Int)", "Int"
	}
	if t2 == "Lit" && t1 == "Int" {
		el, t2 = "("+el+" : Int)", "Int"
	}
	if t1 != t2 {
		return "", "", k.errf(s, "branches assign values of different types (%s, %s)", t1, t2)
	}
	return "if " + c + " then\n" + indent + "  " + th + "\n" + indent + "else\n" + indent + "  " + el, t1, nil
}

func extractFragment(k *ktr, fd *ast.FuncDecl) (string, error) {
	chains := findChains(fd.Body, k.spec.Target)
	if k.spec.Occ >= len(chains) {
		return "", fmt.Errorf("kernel %s: %s.%s contains %d assignment chain(s) to %s, expected at least %d",
			k.spec.Name, k.spec.Recv, k.spec.Func, len(chains), k.spec.Target, k.spec.Occ+1)
	}
	body, ty, err := k.chain(chains[k.spec.Occ], "  ")
	if err != nil {
		return "", err
	}
	if leanParamType(ty) != k.spec.Ret {
		return "", fmt.Errorf("kernel %s: fragment has type %s, expected %s", k.spec.Name, ty, k.spec.Ret)
	}
	return body, nil
}

// fragmentCount: how many chains to `target` exist per function — emitted as a fact so that a NEW copy of the formula
// (a sixth place computing a deadline) is noticed.
func fragmentCount(p *pkgInfo, recv, fn, target string) int {
	fd := findFunc(p, recv, fn)
	if fd == nil {
		return -1
	}
	return len(findChains(fd.Body, target))
}

// extractAssign: the Occ-th assignment (`=` or `:=`) to Target anywhere in the function, translated as the assigned value.
// The number of such assignments is checked too (exactly Occ+1 … unless more are declared by further specs): a new
// assignment to the same lvalue elsewhere in the function changes the count and is reported.
func extractAssign(k *ktr, fd *ast.FuncDecl) (string, error) {
	var found []ast.Expr
	ast.Inspect(fd.Body, func(n ast.Node) bool {
		if a, ok := n.(*ast.AssignStmt); ok && (a.Tok == token.ASSIGN || a.Tok == token.DEFINE) && len(a.Lhs) == 1 && len(a.Rhs) == 1 {
			if kNormExpr(a.Lhs[0]) == k.spec.Target {
				found = append(found, a.Rhs[0])
			}
		}
		return true
	})
	want := k.spec.Total
	if want == 0 {
		want = k.spec.Occ + 1
	}
	if len(found) != want {
		return "", fmt.Errorf("kernel %s: %s.%s contains %d assignment(s) to %s, expected exactly %d",
			k.spec.Name, k.spec.Recv, k.spec.Func, len(found), k.spec.Target, want)
	}
	t, ty, err := k.expr(found[k.spec.Occ])
	if err != nil {
		return "", err
	}
	if ty == "Lit" && k.spec.Ret == "Int" {
		t, ty = "("+t+" : Int)", "Int"
	}
	if leanParamType(ty) != k.spec.Ret {
		return "", fmt.Errorf("kernel %s: assigned value has type %s, expected %s", k.spec.Name, ty, k.spec.Ret)
	}
	return t, nil
}

// extractGuard: the condition of the `if` whose body DIRECTLY contains the call statement Target (exactly one such `if`
// in the function); enclosing conditions are not part of the kernel (they are the caller's context).
func extractGuard(k *ktr, fd *ast.FuncDecl) (string, error) {
	var found []*ast.IfStmt
	ast.Inspect(fd.Body, func(n ast.Node) bool {
		if i, ok := n.(*ast.IfStmt); ok {
			for _, st := range i.Body.List {
				if es, ok := st.(*ast.ExprStmt); ok && kNormExpr(es.X) == k.spec.Target {
					found = append(found, i)
				}
			}
		}
		return true
	})
	if len(found) != 1 {
		return "", fmt.Errorf("kernel %s: %s.%s has %d `if` statements guarding %s, expected exactly 1", k.spec.Name, k.spec.Recv, k.spec.Func, len(found), k.spec.Target)
	}
	if found[0].Init != nil || found[0].Else != nil {
		return "", fmt.Errorf("kernel %s: the guard of %s has an init statement or an else branch", k.spec.Name, k.spec.Target)
	}
	return k.cond(found[0].Cond)
}


// extractCallArgs: every call `Target(args…)` in the function, in source order, each as the list of its normalised argument texts.
func extractCallArgs(k *ktr, fd *ast.FuncDecl) (string, error) {
	var calls []string
	ast.Inspect(fd.Body, func(n ast.Node) bool {
		if c, ok := n.(*ast.CallExpr); ok && kNormExpr(c.Fun) == k.spec.Target {
			var a []string
			for _, x := range c.Args {
				a = append(a, fmt.Sprintf("%q", kNormExpr(x)))
			}
			calls = append(calls, "["+strings.Join(a, ", ")+"]")
		}
		return true
	})
	return "[" + strings.Join(calls, ", ") + "]", nil
}
