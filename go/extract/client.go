package main

// G2 (client part): the parameter tuples with which the packaged client primitives (client/*.go) drive the one
// underlying `client.Lock`, and how `Lock`'s methods put those fields on the wire. Written to
// Slock/Gen/ClientParams.lean (namespace Slock.Gen.Client); the expectations are Lean theorems in
// Slock/Properties/C19.lean, so a source edit that changes a tuple breaks a proof obligation there.
//
// Everything is recognised structurally; whatever is outside the recognised subset is an EXTRACT-ERROR, never a guess.

import (
	"bytes"
	"fmt"
	"go/ast"
	"go/printer"
	"go/token"
	"os"
	"path/filepath"
	"regexp"
	"sort"
	"strings"
)

// CSrc: where one field of a `Lock{…}` literal (or one argument of doLock/doUnlock) comes from.
type CSrc struct {
	K    string `json:"k"`              // const | fresh | zero | field | param | or | condor
	V    int64  `json:"v,omitempty"`    // const value; or-ed bits for or/condor
	Name string `json:"name,omitempty"` // field / parameter name
	Base *CSrc  `json:"base,omitempty"` // or/condor: the word the bits are or-ed into (a field or a parameter)
	Cond string `json:"cond,omitempty"` // condor: the guarding condition, normalised source text
}

func (s CSrc) lean() string {
	switch s.K {
	case "const":
		return fmt.Sprintf(".const %d", s.V)
	case "fresh":
		return ".fresh"
	case "zero":
		return ".zero"
	case "field":
		return fmt.Sprintf(".field %s", leanStr(s.Name))
	case "param":
		return fmt.Sprintf(".param %s", leanStr(s.Name))
	case "or":
		return fmt.Sprintf(".or (%s) %d", s.Base.lean(), s.V)
	case "condor":
		return fmt.Sprintf(".condOr (%s) %d %s", s.Base.lean(), s.V, leanStr(s.Cond))
	}
	return ".unknown"
}

// ClientParam: one `Lock{db, lockId, lockKey, timeout, expried, count, rcount}` literal found in a primitive.
type ClientParam struct {
	Prim    string   `json:"prim"`
	Op      string   `json:"op"`   // function, "Type.Method" or "NewType"
	Mode    string   `json:"mode"` // Event only: "set" (EVENT_MODE_DEFAULT_SET branch) / "clear"; "" otherwise
	Index   int      `json:"index"`
	LockId  CSrc     `json:"lockId"`
	Key     CSrc     `json:"key"`
	Timeout CSrc     `json:"timeout"`
	Expried CSrc     `json:"expried"`
	Count   CSrc     `json:"count"`
	Rcount  CSrc     `json:"rcount"`
	Calls   []string `json:"calls"` // methods of Lock invoked in the same function/mode region, in source order
	Name    string   `json:"name"`  // Lean identifier
}

// ClientCtor: how a constructor / setter turns the user's count into the stored field.
type ClientCtor struct {
	Name  string `json:"name"`
	Param string `json:"param"`
	Xform string `json:"xform"` // id | decIfPos | decIfPosKeepFFFF
	Field string `json:"field"` // struct field (or receiver field) the value ends up in
	Lean  string `json:"lean"`
}

// ClientMethod: one method of `Lock` that issues a command: arguments of doLock/doUnlock and the results it treats as success.
type ClientMethod struct {
	Name    string  `json:"name"`
	Kind    string  `json:"kind"` // lock | unlock
	Flag    CSrc    `json:"flag"`
	LockId  CSrc    `json:"lockId"`
	Timeout CSrc    `json:"timeout"`
	Expried CSrc    `json:"expried"`
	Count   CSrc    `json:"count"`
	Rcount  CSrc    `json:"rcount"`
	Ok      []int64 `json:"ok"` // result codes for which the method returns a nil error
}

type clientOut struct {
	params  []ClientParam
	ctors   []ClientCtor
	methods []ClientMethod
	wire    map[string][][2]string // doLock / doUnlock: LockCommand literal, field → normalised expression
	texts   map[string]string      // small function bodies kept as normalised text
	consts  map[string]int64
}

func normExpr(fset *token.FileSet, n ast.Node) string {
	var b bytes.Buffer
	_ = printer.Fprint(&b, fset, n)
	return strings.Join(strings.Fields(b.String()), " ")
}

var lockFieldOrder = []string{"db", "lockId", "lockKey", "timeout", "expried", "count", "rcount"}

type cx struct {
	fset   *token.FileSet
	env    map[string]int64
	fail   func(error)
	where  string
	recv   string          // receiver name ("self") or ""
	params map[string]bool // parameter names of the current function
	locals map[string]CSrc // resolved local variables
}

func (c *cx) errf(n ast.Node, format string, a ...interface{}) error {
	pos := ""
	if n != nil {
		p := c.fset.Position(n.Pos())
		pos = fmt.Sprintf("%s:%d: ", filepath.Base(p.Filename), p.Line)
	}
	return fmt.Errorf("client %s: %s%s", c.where, pos, fmt.Sprintf(format, a...))
}

// constant expression over the protocol/client constants; `protocol.X` is looked up as X
func (c *cx) constVal(e ast.Expr) (int64, bool) {
	switch v := e.(type) {
	case *ast.SelectorExpr:
		if id, ok := v.X.(*ast.Ident); ok && id.Name == "protocol" {
			n, ok := c.env[v.Sel.Name]
			return n, ok
		}
		return 0, false
	case *ast.Ident:
		if c.params[v.Name] {
			return 0, false
		}
		if _, isLocal := c.locals[v.Name]; isLocal {
			return 0, false
		}
		n, ok := c.env[v.Name]
		return n, ok
	case *ast.ParenExpr:
		return c.constVal(v.X)
	case *ast.CallExpr:
		if id, ok := v.Fun.(*ast.Ident); ok && basicWidth(id.Name) > 0 && len(v.Args) == 1 {
			return c.constVal(v.Args[0])
		}
		return 0, false
	case *ast.BinaryExpr:
		a, ok1 := c.constVal(v.X)
		b, ok2 := c.constVal(v.Y)
		if !ok1 || !ok2 {
			return 0, false
		}
		switch v.Op {
		case token.OR:
			return a | b, true
		case token.AND:
			return a & b, true
		case token.SHL:
			return a << uint(b), true
		case token.SHR:
			return a >> uint(b), true
		case token.ADD:
			return a + b, true
		case token.SUB:
			return a - b, true
		}
		return 0, false
	case *ast.BasicLit:
		return evalConst(v, 0, nil)
	}
	return 0, false
}

func (c *cx) src(e ast.Expr) (CSrc, error) {
	if v, ok := c.constVal(e); ok {
		return CSrc{K: "const", V: v}, nil
	}
	switch v := e.(type) {
	case *ast.ParenExpr:
		return c.src(v.X)
	case *ast.CallExpr:
		if sel, ok := v.Fun.(*ast.SelectorExpr); ok && sel.Sel.Name == "GenLockId" && len(v.Args) == 0 {
			return CSrc{K: "fresh"}, nil
		}
	case *ast.CompositeLit:
		if at, ok := v.Type.(*ast.ArrayType); ok && len(v.Elts) == 0 {
			if id, ok := at.Elt.(*ast.Ident); ok && id.Name == "byte" {
				return CSrc{K: "zero"}, nil
			}
		}
	case *ast.SelectorExpr:
		if id, ok := v.X.(*ast.Ident); ok && c.recv != "" && id.Name == c.recv {
			return CSrc{K: "field", Name: v.Sel.Name}, nil
		}
	case *ast.Ident:
		if s, ok := c.locals[v.Name]; ok {
			return s, nil
		}
		if c.params[v.Name] {
			return CSrc{K: "param", Name: v.Name}, nil
		}
	case *ast.BinaryExpr:
		if v.Op == token.OR {
			if bits, ok := c.constVal(v.Y); ok {
				base, err := c.src(v.X)
				if err != nil {
					return CSrc{}, err
				}
				if base.K == "field" || base.K == "param" {
					return CSrc{K: "or", Base: &base, V: bits}, nil
				}
			}
		}
	}
	return CSrc{}, c.errf(e, "unrecognised expression %q", normExpr(c.fset, e))
}

func recvInfo(fd *ast.FuncDecl) (typ, name string) {
	if fd.Recv == nil || len(fd.Recv.List) != 1 {
		return "", ""
	}
	t := fd.Recv.List[0].Type
	if st, ok := t.(*ast.StarExpr); ok {
		t = st.X
	}
	if id, ok := t.(*ast.Ident); ok {
		typ = id.Name
	}
	if len(fd.Recv.List[0].Names) == 1 {
		name = fd.Recv.List[0].Names[0].Name
	}
	return
}

func funcParams(fd *ast.FuncDecl) map[string]bool {
	m := map[string]bool{}
	if fd.Type.Params != nil {
		for _, f := range fd.Type.Params.List {
			for _, n := range f.Names {
				m[n.Name] = true
			}
		}
	}
	return m
}

func isLockLit(e ast.Expr) *ast.CompositeLit {
	if u, ok := e.(*ast.UnaryExpr); ok && u.Op == token.AND {
		e = u.X
	}
	cl, ok := e.(*ast.CompositeLit)
	if !ok {
		return nil
	}
	if id, ok := cl.Type.(*ast.Ident); ok && id.Name == "Lock" {
		return cl
	}
	return nil
}

func fieldTypeName(st *ast.StructType, field string) string {
	for _, f := range st.Fields.List {
		for _, n := range f.Names {
			if n.Name == field {
				t := f.Type
				star := ""
				if at, ok := t.(*ast.ArrayType); ok && at.Len == nil {
					t = at.Elt
					star = "[]"
				}
				if s, ok := t.(*ast.StarExpr); ok {
					t = s.X
					star += "*"
				}
				switch v := t.(type) {
				case *ast.Ident:
					return star + v.Name
				case *ast.SelectorExpr:
					return star + exprString(v)
				}
				return "?"
			}
		}
	}
	return ""
}

// the primitives whose tuples C19 is about, and the file each lives in
var clientPrims = []struct{ Type, File string }{
	{"Lock", "lock.go"}, {"RLock", "rlock.go"}, {"RWLock", "rwlock.go"}, {"Semaphore", "semaphore.go"},
	{"MaxConcurrentFlow", "flow.go"}, {"Event", "event.go"}, {"PriorityLock", "prioritylock.go"},
}

func leanIdent(op string, rest ...string) string {
	var name string
	if i := strings.Index(op, "."); i >= 0 {
		name = strings.ToLower(op[:i]) + "_" + strings.ToLower(op[i+1:i+2]) + op[i+2:]
	} else {
		name = strings.ToLower(op[:1]) + op[1:]
	}
	for _, p := range rest {
		if p != "" {
			name += "_" + p
		}
	}
	return name
}

var countAssignRe = regexp.MustCompile(`(^|[^A-Za-z0-9_])(self\.)?count\s*(=[^=]|-=|\+=|--|\+\+|\|=)`)

// count-normalising statements at the head of a constructor / setter:
//
//	if count > 0 { count = count - 1 }        |  if count > 0 { count -= 1 }            → decIfPos
//	if count > 0 { if count == 0xffff { F = 0xffff } else { F = count - 1 } } else { F = 0 }   → decIfPosKeepFFFF
//	if count > 0 { F = count - 1 } else { F = 0 }                                         → decIfPos
func (c *cx) countXform(s ast.Stmt, param string) (xform, target string, ok bool) {
	is, isIf := s.(*ast.IfStmt)
	if !isIf || is.Init != nil {
		return "", "", false
	}
	if normExpr(c.fset, is.Cond) != param+" > 0" {
		return "", "", false
	}
	decOf := func(st ast.Stmt) (string, bool) { // returns the assigned target if st is `T = param - 1` / `T -= 1`
		as, ok := st.(*ast.AssignStmt)
		if !ok || len(as.Lhs) != 1 || len(as.Rhs) != 1 {
			return "", false
		}
		l := normExpr(c.fset, as.Lhs[0])
		r := normExpr(c.fset, as.Rhs[0])
		if as.Tok == token.ASSIGN && r == param+" - 1" {
			return l, true
		}
		if as.Tok == token.SUB_ASSIGN && l == param && r == "1" {
			return l, true
		}
		return "", false
	}
	constAssign := func(st ast.Stmt, val int64) (string, bool) {
		as, ok := st.(*ast.AssignStmt)
		if !ok || as.Tok != token.ASSIGN || len(as.Lhs) != 1 || len(as.Rhs) != 1 {
			return "", false
		}
		v, ok := c.constVal(as.Rhs[0])
		if !ok || v != val {
			return "", false
		}
		return normExpr(c.fset, as.Lhs[0]), true
	}
	if len(is.Body.List) != 1 {
		return "", "", false
	}
	if t, ok := decOf(is.Body.List[0]); ok {
		if is.Else == nil {
			if t == param {
				return "decIfPos", t, true
			}
			return "", "", false
		}
		eb, ok := is.Else.(*ast.BlockStmt)
		if !ok || len(eb.List) != 1 {
			return "", "", false
		}
		if t0, ok := constAssign(eb.List[0], 0); ok && t0 == t {
			return "decIfPos", t, true
		}
		return "", "", false
	}
	inner, ok2 := is.Body.List[0].(*ast.IfStmt)
	if !ok2 || inner.Init != nil || normExpr(c.fset, inner.Cond) != param+" == 0xffff" || len(inner.Body.List) != 1 || inner.Else == nil {
		return "", "", false
	}
	t1, ok3 := constAssign(inner.Body.List[0], 0xffff)
	ieb, ok4 := inner.Else.(*ast.BlockStmt)
	if !ok3 || !ok4 || len(ieb.List) != 1 {
		return "", "", false
	}
	t2, ok5 := decOf(ieb.List[0])
	eb, ok6 := is.Else.(*ast.BlockStmt)
	if !ok5 || !ok6 || len(eb.List) != 1 {
		return "", "", false
	}
	t3, ok7 := constAssign(eb.List[0], 0)
	if !ok7 || t1 != t2 || t2 != t3 {
		return "", "", false
	}
	return "decIfPosKeepFFFF", t1, true
}

// region walker: collects Lock literals and Lock-method calls per mode region of one function
type region struct {
	mode   string
	lits   []*ast.CompositeLit
	envs   []map[string]CSrc // the resolved locals as seen by each literal
	calls  []string
	litVar map[string]bool
}

func copyLocals(m map[string]CSrc) map[string]CSrc {
	o := map[string]CSrc{}
	for k, v := range m {
		o[k] = v
	}
	return o
}

func (c *cx) scanFunc(fd *ast.FuncDecl, st *ast.StructType, lockMethods map[string]bool, splitModes bool) ([]*region, error) {
	regs := []*region{}
	cur := &region{mode: "", litVar: map[string]bool{}}
	regs = append(regs, cur)

	var walkStmts func(list []ast.Stmt, r *region) error
	var walkNode func(n ast.Node, r *region) error
	walkNode = func(n ast.Node, r *region) error {
		var err error
		ast.Inspect(n, func(x ast.Node) bool {
			if err != nil {
				return false
			}
			switch v := x.(type) {
			case *ast.AssignStmt:
				// track locals assigned from a Lock literal, and simple local definitions
				if len(v.Lhs) == 1 && len(v.Rhs) == 1 {
					if cl := isLockLit(v.Rhs[0]); cl != nil {
						if id, ok := v.Lhs[0].(*ast.Ident); ok {
							r.litVar[id.Name] = true
						}
					} else if ix, ok := v.Rhs[0].(*ast.IndexExpr); ok && st != nil {
						if sx, ok := ix.X.(*ast.SelectorExpr); ok {
							if id, ok := sx.X.(*ast.Ident); ok && id.Name == c.recv && fieldTypeName(st, sx.Sel.Name) == "[]*Lock" {
								if lid, ok := v.Lhs[0].(*ast.Ident); ok {
									r.litVar[lid.Name] = true
								}
							}
						}
					} else if id, ok := v.Lhs[0].(*ast.Ident); ok && v.Tok == token.DEFINE {
						if s, e := c.src(v.Rhs[0]); e == nil {
							c.locals[id.Name] = s
						}
					}
				}
			case *ast.IfStmt:
				// `if COND { x |= CONST }` on a resolved local
				if v.Init == nil && v.Else == nil && len(v.Body.List) == 1 {
					if as, ok := v.Body.List[0].(*ast.AssignStmt); ok && as.Tok == token.OR_ASSIGN && len(as.Lhs) == 1 && len(as.Rhs) == 1 {
						if id, ok := as.Lhs[0].(*ast.Ident); ok {
							if base, ok := c.locals[id.Name]; ok {
								bits, okb := c.constVal(as.Rhs[0])
								if !okb || (base.K != "field" && base.K != "param") {
									err = c.errf(as, "unrecognised conditional update of %s", id.Name)
									return false
								}
								bcopy := base
								c.locals[id.Name] = CSrc{K: "condor", Base: &bcopy, V: bits, Cond: normExpr(c.fset, v.Cond)}
								return false
							}
						}
					}
				}
			case *ast.CompositeLit:
				if id, ok := v.Type.(*ast.Ident); ok && id.Name == "Lock" {
					r.lits = append(r.lits, v)
					r.envs = append(r.envs, copyLocals(c.locals))
				}
			case *ast.CallExpr:
				if sel, ok := v.Fun.(*ast.SelectorExpr); ok && lockMethods[sel.Sel.Name] {
					isLock := false
					switch rx := sel.X.(type) {
					case *ast.Ident:
						isLock = r.litVar[rx.Name]
					case *ast.SelectorExpr:
						if id, ok := rx.X.(*ast.Ident); ok && c.recv != "" && id.Name == c.recv && st != nil {
							isLock = fieldTypeName(st, rx.Sel.Name) == "*Lock"
						}
					}
					if isLock {
						r.calls = append(r.calls, sel.Sel.Name)
					}
				}
			}
			return true
		})
		return err
	}
	walkStmts = func(list []ast.Stmt, r *region) error {
		for i, s := range list {
			if splitModes {
				if is, ok := s.(*ast.IfStmt); ok && is.Init == nil && normExpr(c.fset, is.Cond) == c.recv+".setedMode == EVENT_MODE_DEFAULT_SET" {
					if is.Else != nil || len(is.Body.List) == 0 || !isReturn(is.Body.List[len(is.Body.List)-1]) {
						return c.errf(is, "mode branch does not end in return")
					}
					if len(r.lits) > 0 || len(r.calls) > 0 {
						return c.errf(is, "lock activity before the mode branch")
					}
					set := &region{mode: "set", litVar: map[string]bool{}}
					clr := &region{mode: "clear", litVar: map[string]bool{}}
					saved := c.locals
					c.locals = map[string]CSrc{}
					if err := walkStmts(is.Body.List, set); err != nil {
						return err
					}
					c.locals = map[string]CSrc{}
					if err := walkStmts(list[i+1:], clr); err != nil {
						return err
					}
					c.locals = saved
					regs = append(regs[:0], set, clr)
					return nil
				}
			}
			if err := walkNode(s, r); err != nil {
				return err
			}
		}
		return nil
	}
	if fd.Body == nil {
		return nil, nil
	}
	if err := walkStmts(fd.Body.List, cur); err != nil {
		return nil, err
	}
	return regs, nil
}

func (c *cx) tuple(cl *ast.CompositeLit) (ClientParam, error) {
	var p ClientParam
	vals := map[string]ast.Expr{}
	if len(cl.Elts) == 0 {
		return p, c.errf(cl, "empty Lock literal")
	}
	if _, keyed := cl.Elts[0].(*ast.KeyValueExpr); keyed {
		for _, e := range cl.Elts {
			kv, ok := e.(*ast.KeyValueExpr)
			if !ok {
				return p, c.errf(cl, "mixed Lock literal")
			}
			vals[normExpr(c.fset, kv.Key)] = kv.Value
		}
		for _, f := range lockFieldOrder {
			if _, ok := vals[f]; !ok && f != "db" {
				return p, c.errf(cl, "Lock literal without field %s", f)
			}
		}
	} else {
		if len(cl.Elts) != len(lockFieldOrder) {
			return p, c.errf(cl, "Lock literal with %d elements", len(cl.Elts))
		}
		for i, f := range lockFieldOrder {
			vals[f] = cl.Elts[i]
		}
	}
	var err error
	get := func(f string) CSrc {
		if err != nil {
			return CSrc{}
		}
		var s CSrc
		s, err = c.src(vals[f])
		return s
	}
	p.LockId, p.Key, p.Timeout, p.Expried, p.Count, p.Rcount = get("lockId"), get("lockKey"), get("timeout"), get("expried"), get("count"), get("rcount")
	return p, err
}

func extractClientParams(repo string, out *Output, fail func(error)) {
	pkg, err := loadPkg(filepath.Join(repo, "client"))
	if err != nil {
		fail(fmt.Errorf("client: %v", err))
		return
	}
	env := map[string]int64{}
	for k, v := range out.Consts { // protocol (and server) constants, already extracted
		env[k] = v
	}
	co := &Output{Consts: map[string]int64{}, StrTables: map[string][]string{}}
	extractConsts(pkg, co, "")
	for k, v := range co.Consts {
		env[k] = v
	}
	res := &clientOut{wire: map[string][][2]string{}, texts: map[string]string{}, consts: map[string]int64{}}
	for _, k := range []string{"EVENT_MODE_DEFAULT_SET", "EVENT_MODE_DEFAULT_CLEAR"} {
		if v, ok := co.Consts[k]; ok {
			res.consts[k] = v
		} else {
			fail(fmt.Errorf("client: constant %s not found", k))
		}
	}

	// 1. struct Lock has exactly the field order the positional literals rely on
	lockSt := pkg.sd["Lock"]
	if lockSt == nil {
		fail(fmt.Errorf("client: struct Lock not found"))
		return
	}
	var got []string
	for _, f := range lockSt.Fields.List {
		for _, n := range f.Names {
			got = append(got, n.Name)
		}
	}
	if strings.Join(got, ",") != strings.Join(lockFieldOrder, ",") {
		fail(fmt.Errorf("client: struct Lock fields are %v, expected %v", got, lockFieldOrder))
		return
	}

	// 2. methods of Lock
	lockMethods := map[string]bool{}
	fileOf := map[*ast.FuncDecl]string{}
	for i, f := range pkg.files {
		for _, d := range f.Decls {
			if fd, ok := d.(*ast.FuncDecl); ok {
				fileOf[fd] = pkg.names[i]
				if t, _ := recvInfo(fd); t == "Lock" {
					lockMethods[fd.Name.Name] = true
				}
			}
		}
	}
	extractLockMethods(pkg, env, res, fail)

	// 3. tuples per primitive
	for _, pr := range clientPrims {
		st := pkg.sd[pr.Type]
		if st == nil {
			fail(fmt.Errorf("client: struct %s not found", pr.Type))
			continue
		}
		found := 0
		for i, f := range pkg.files {
			if pkg.names[i] != pr.File {
				continue
			}
			for _, d := range f.Decls {
				fd, ok := d.(*ast.FuncDecl)
				if !ok || fd.Body == nil {
					continue
				}
				rt, rn := recvInfo(fd)
				var opName string
				switch {
				case rt == pr.Type && (pr.Type != "Lock" || fd.Name.Name == "SetCount"):
					opName = pr.Type + "." + fd.Name.Name
				case rt == "" && (fd.Name.Name == "New"+pr.Type || (pr.Type == "Event" && strings.HasPrefix(fd.Name.Name, "New") && strings.HasSuffix(fd.Name.Name, "Event") && !strings.Contains(fd.Name.Name, "Group"))):
					opName = fd.Name.Name
				default:
					continue
				}
				c := &cx{fset: pkg.fset, env: env, fail: fail, where: opName, recv: rn, params: funcParams(fd), locals: map[string]CSrc{}}
				// constructor / setter count normalisation
				if c.params["count"] && (rt == "" || fd.Name.Name == "SetCount") {
					xf, target, nrec := "id", "count", 0
					for _, s := range fd.Body.List {
						if x, t, ok := c.countXform(s, "count"); ok {
							xf, target = x, t
							nrec++
						} else if _, isRet := s.(*ast.ReturnStmt); !isRet && countAssignRe.MatchString(normExpr(pkg.fset, s)) {
							fail(c.errf(s, "unrecognised count normalisation %q", normExpr(pkg.fset, s)))
						}
					}
					if nrec > 1 {
						fail(c.errf(fd, "more than one count normalisation"))
					}
					field := strings.TrimPrefix(target, rn+".")
					if rt == "" {
						// which struct field receives the parameter in the returned literal?
						field = ""
						ast.Inspect(fd.Body, func(x ast.Node) bool {
							cl, ok := x.(*ast.CompositeLit)
							if !ok {
								return true
							}
							if id, ok := cl.Type.(*ast.Ident); ok && id.Name == pr.Type {
								idx := 0
								for _, sf := range st.Fields.List {
									for _, n := range sf.Names {
										if idx < len(cl.Elts) {
											if eid, ok := cl.Elts[idx].(*ast.Ident); ok && eid.Name == "count" {
												field = n.Name
											}
										}
										idx++
									}
								}
							}
							return true
						})
						if field == "" {
							fail(c.errf(fd, "parameter count does not reach a field of %s", pr.Type))
						}
					} else if nrec == 0 {
						fail(c.errf(fd, "setter without a recognised count normalisation"))
					}
					res.ctors = append(res.ctors, ClientCtor{Name: opName, Param: "count", Xform: xf, Field: field, Lean: leanIdent(opName, "count")})
				}
				regs, err := c.scanFunc(fd, st, lockMethods, pr.Type == "Event" && rt == "Event")
				if err != nil {
					fail(err)
					continue
				}
				for _, r := range regs {
					for i, cl := range r.lits {
						c.locals = r.envs[i]
						p, err := c.tuple(cl)
						if err != nil {
							fail(err)
							continue
						}
						p.Prim, p.Op, p.Mode, p.Index, p.Calls = pr.Type, opName, r.mode, i, r.calls
						idx := ""
						if len(r.lits) > 1 {
							idx = fmt.Sprintf("l%d", i)
						}
						p.Name = leanIdent(opName, r.mode, idx)
						res.params = append(res.params, p)
						found++
					}
					if len(r.lits) == 0 && len(r.calls) > 0 {
						// pure delegation (e.g. RLock.Lock → self.lock.Lock)
						res.params = append(res.params, ClientParam{Prim: pr.Type, Op: opName, Mode: r.mode, Index: -1, Calls: r.calls,
							LockId: CSrc{K: "field", Name: "lock.lockId"}, Key: CSrc{K: "field", Name: "lock.lockKey"}, Timeout: CSrc{K: "field", Name: "lock.timeout"},
							Expried: CSrc{K: "field", Name: "lock.expried"}, Count: CSrc{K: "field", Name: "lock.count"}, Rcount: CSrc{K: "field", Name: "lock.rcount"},
							Name: leanIdent(opName, r.mode)})
					}
				}
			}
		}
		if found == 0 {
			fail(fmt.Errorf("client: no Lock literal found for primitive %s in %s", pr.Type, pr.File))
		}
	}
	sort.SliceStable(res.params, func(i, j int) bool { return res.params[i].Name < res.params[j].Name })
	sort.SliceStable(res.ctors, func(i, j int) bool { return res.ctors[i].Lean < res.ctors[j].Lean })
	seen := map[string]bool{}
	for _, p := range res.params {
		if seen[p.Name] {
			fail(fmt.Errorf("client: duplicate tuple name %s", p.Name))
		}
		seen[p.Name] = true
	}
	out.ClientParams = res.params
	out.Facts["client_ctors"] = res.ctors
	out.Facts["client_methods"] = res.methods
	out.Facts["client_wire"] = res.wire
	if len(os.Args) > 2 {
		if err := writeIfChanged(filepath.Join(os.Args[2], "Slock/Gen/ClientParams.lean"), emitClient(res)); err != nil {
			fail(err)
		}
	}
}

func extractLockMethods(pkg *pkgInfo, env map[string]int64, res *clientOut, fail func(error)) {
	for _, f := range pkg.files {
		for _, d := range f.Decls {
			fd, ok := d.(*ast.FuncDecl)
			if !ok || fd.Body == nil {
				continue
			}
			rt, rn := recvInfo(fd)
			if rt != "Lock" {
				continue
			}
			c := &cx{fset: pkg.fset, env: env, fail: fail, where: "Lock." + fd.Name.Name, recv: rn, params: funcParams(fd), locals: map[string]CSrc{}}
			switch fd.Name.Name {
			case "doLock", "doUnlock":
				wantType := map[string]string{"doLock": "COMMAND_LOCK", "doUnlock": "COMMAND_UNLOCK"}[fd.Name.Name]
				okLit := false
				ast.Inspect(fd.Body, func(x ast.Node) bool {
					cl, ok := x.(*ast.CompositeLit)
					if !ok {
						return true
					}
					if normExpr(pkg.fset, cl.Type) != "protocol.LockCommand" {
						return true
					}
					var rows [][2]string
					for _, e := range cl.Elts {
						kv, ok := e.(*ast.KeyValueExpr)
						if !ok {
							fail(c.errf(cl, "positional LockCommand literal"))
							return false
						}
						k := normExpr(pkg.fset, kv.Key)
						if k == "Command" {
							if inner, ok := kv.Value.(*ast.CompositeLit); ok {
								for _, ie := range inner.Elts {
									if ikv, ok := ie.(*ast.KeyValueExpr); ok {
										rows = append(rows, [2]string{"Command." + normExpr(pkg.fset, ikv.Key), normExpr(pkg.fset, ikv.Value)})
									}
								}
								continue
							}
						}
						rows = append(rows, [2]string{k, normExpr(pkg.fset, kv.Value)})
					}
					for _, r := range rows {
						if r[0] == "Command.CommandType" && r[1] == "protocol."+wantType {
							okLit = true
						}
					}
					res.wire[fd.Name.Name] = rows
					return false
				})
				if !okLit {
					fail(c.errf(fd, "no LockCommand literal of type %s", wantType))
				}
				continue
			case "buildLockFlag", "buildUnlockFlag":
				res.texts[fd.Name.Name] = normExpr(pkg.fset, fd.Body)
				continue
			}
			// a command-issuing method: first statement `lockResultCommand, err := self.doLock(…7 args…)`
			if len(fd.Body.List) == 0 {
				continue
			}
			as, ok := fd.Body.List[0].(*ast.AssignStmt)
			if !ok || len(as.Rhs) != 1 {
				continue
			}
			call, ok := as.Rhs[0].(*ast.CallExpr)
			if !ok {
				continue
			}
			sel, ok := call.Fun.(*ast.SelectorExpr)
			if !ok || (sel.Sel.Name != "doLock" && sel.Sel.Name != "doUnlock") {
				continue
			}
			if len(call.Args) != 7 || len(as.Lhs) != 2 {
				fail(c.errf(call, "%s with %d arguments", sel.Sel.Name, len(call.Args)))
				continue
			}
			resName := normExpr(pkg.fset, as.Lhs[0])
			m := ClientMethod{Name: fd.Name.Name, Kind: map[string]string{"doLock": "lock", "doUnlock": "unlock"}[sel.Sel.Name]}
			var err error
			srcs := make([]CSrc, 6)
			for i := 0; i < 6 && err == nil; i++ {
				srcs[i], err = c.src(call.Args[i])
			}
			if err != nil {
				fail(err)
				continue
			}
			m.Flag, m.LockId, m.Timeout, m.Expried, m.Count, m.Rcount = srcs[0], srcs[1], srcs[2], srcs[3], srcs[4], srcs[5]
			// success results
			rest := fd.Body.List[1:]
			if len(rest) != 3 {
				fail(c.errf(fd, "unrecognised result handling (%d statements)", len(rest)))
				continue
			}
			if e, ok := rest[0].(*ast.IfStmt); !ok || normExpr(pkg.fset, e.Cond) != "err != nil" {
				fail(c.errf(rest[0], "expected `if err != nil`"))
				continue
			}
			is, ok1 := rest[1].(*ast.IfStmt)
			ret, ok2 := rest[2].(*ast.ReturnStmt)
			if !ok1 || !ok2 || is.Else != nil || len(is.Body.List) != 1 || len(ret.Results) != 2 {
				fail(c.errf(rest[1], "unrecognised result handling"))
				continue
			}
			iret, ok3 := is.Body.List[0].(*ast.ReturnStmt)
			if !ok3 || len(iret.Results) != 2 {
				fail(c.errf(is, "unrecognised result handling"))
				continue
			}
			innerNil := normExpr(pkg.fset, iret.Results[1]) == "nil"
			outerNil := normExpr(pkg.fset, ret.Results[1]) == "nil"
			cond := normExpr(pkg.fset, is.Cond)
			switch {
			case !innerNil && outerNil && cond == resName+".Result != 0":
				m.Ok = []int64{0}
			case innerNil && !outerNil:
				var walk func(e ast.Expr) bool
				walk = func(e ast.Expr) bool {
					be, ok := e.(*ast.BinaryExpr)
					if !ok {
						return false
					}
					if be.Op == token.LOR {
						return walk(be.X) && walk(be.Y)
					}
					if be.Op == token.EQL && normExpr(pkg.fset, be.X) == resName+".Result" {
						v, ok := c.constVal(be.Y)
						if ok {
							m.Ok = append(m.Ok, v)
						}
						return ok
					}
					return false
				}
				if !walk(is.Cond) {
					fail(c.errf(is, "unrecognised success condition %q", cond))
					continue
				}
			default:
				fail(c.errf(is, "unrecognised result handling %q", cond))
				continue
			}
			res.methods = append(res.methods, m)
		}
	}
	sort.Slice(res.methods, func(i, j int) bool { return res.methods[i].Name < res.methods[j].Name })
	if len(res.wire["doLock"]) == 0 || len(res.wire["doUnlock"]) == 0 {
		fail(fmt.Errorf("client: Lock.doLock / Lock.doUnlock not found"))
	}
	for _, n := range []string{"buildLockFlag", "buildUnlockFlag"} {
		if res.texts[n] == "" {
			fail(fmt.Errorf("client: Lock.%s not found", n))
		}
	}
}

func emitClient(r *clientOut) string {
	var b strings.Builder
	b.WriteString("/- GENERATED by /verif/go/extract (client.go) from /repo/client/*.go — do not edit. -/\nnamespace Slock.Gen.Client\n\n")
	b.WriteString(`/-- where one field of a client ` + "`Lock{db, lockId, lockKey, timeout, expried, count, rcount}`" + ` literal comes from -/
inductive Src
  | const (v : Nat)                                -- constant expression
  | fresh                                          -- db.GenLockId()
  | zero                                           -- [16]byte{}
  | field (name : String)                          -- self.<name>, unchanged
  | param (name : String)                          -- function parameter, unchanged
  | or (base : Src) (bits : Nat)                   -- base | bits   (32-bit word: low 16 = value, high 16 = flag bits)
  | condOr (base : Src) (bits : Nat) (cond : String)     -- base, or-ed with bits when cond holds
  deriving Repr, DecidableEq

structure Tuple where
  prim : String
  op : String
  mode : String
  lockId : Src
  key : Src
  timeout : Src
  expried : Src
  count : Src
  rcount : Src
  calls : List String
  deriving Repr, DecidableEq

/-- how a constructor / setter turns the user's count into the stored one -/
inductive Xform | id | decIfPos | decIfPosKeepFFFF
  deriving Repr, DecidableEq

def Xform.apply : Xform → Nat → Nat
  | .id, n => n
  | .decIfPos, n => if n > 0 then n - 1 else 0
  | .decIfPosKeepFFFF, n => if n > 0 then (if n = 0xffff then 0xffff else n - 1) else 0

structure Ctor where
  name : String
  param : String
  field : String
  xform : Xform
  deriving Repr, DecidableEq

/-- a command-issuing method of client.Lock: arguments handed to doLock/doUnlock, result codes returned with a nil error -/
structure Method where
  name : String
  isLock : Bool
  flag : Src
  lockId : Src
  timeout : Src
  expried : Src
  count : Src
  rcount : Src
  ok : List Nat
  deriving Repr, DecidableEq

`)
	for _, k := range []string{"EVENT_MODE_DEFAULT_SET", "EVENT_MODE_DEFAULT_CLEAR"} {
		fmt.Fprintf(&b, "def %s : Nat := %d\n", k, r.consts[k])
	}
	b.WriteString("\n")
	var names []string
	for _, p := range r.params {
		names = append(names, p.Name)
		fmt.Fprintf(&b, "def %s : Tuple where\n  prim := %s\n  op := %s\n  mode := %s\n  lockId := %s\n  key := %s\n  timeout := %s\n  expried := %s\n  count := %s\n  rcount := %s\n  calls := [",
			p.Name, leanStr(p.Prim), leanStr(p.Op), leanStr(p.Mode), p.LockId.lean(), p.Key.lean(), p.Timeout.lean(), p.Expried.lean(), p.Count.lean(), p.Rcount.lean())
		for i, c := range p.Calls {
			if i > 0 {
				b.WriteString(", ")
			}
			b.WriteString(leanStr(c))
		}
		b.WriteString("]\n\n")
	}
	b.WriteString("def tuples : List Tuple := [" + strings.Join(names, ", ") + "]\n\n")
	var cn []string
	for _, c := range r.ctors {
		cn = append(cn, c.Lean)
		fmt.Fprintf(&b, "def %s : Ctor := { name := %s, param := %s, field := %s, xform := .%s }\n", c.Lean, leanStr(c.Name), leanStr(c.Param), leanStr(c.Field), c.Xform)
	}
	b.WriteString("def ctors : List Ctor := [" + strings.Join(cn, ", ") + "]\n\n")
	var mn []string
	for _, m := range r.methods {
		n := "lock_" + strings.ToLower(m.Name[:1]) + m.Name[1:]
		mn = append(mn, n)
		isLock := "false"
		if m.Kind == "lock" {
			isLock = "true"
		}
		fmt.Fprintf(&b, "def %s : Method := { name := %s, isLock := %s, flag := %s, lockId := %s, timeout := %s, expried := %s, count := %s, rcount := %s, ok := [",
			n, leanStr(m.Name), isLock, m.Flag.lean(), m.LockId.lean(), m.Timeout.lean(), m.Expried.lean(), m.Count.lean(), m.Rcount.lean())
		for i, v := range m.Ok {
			if i > 0 {
				b.WriteString(", ")
			}
			fmt.Fprintf(&b, "%d", v)
		}
		b.WriteString("] }\n")
	}
	b.WriteString("def methods : List Method := [" + strings.Join(mn, ", ") + "]\n\n")
	for _, k := range []string{"doLock", "doUnlock"} {
		fmt.Fprintf(&b, "/-- the `protocol.LockCommand` literal built by `Lock.%s`: wire field ↦ source expression -/\ndef %s_wire : List (String × String) := [", k, k)
		for i, row := range r.wire[k] {
			if i > 0 {
				b.WriteString(",\n  ")
			}
			fmt.Fprintf(&b, "(%s, %s)", leanStr(row[0]), leanStr(row[1]))
		}
		b.WriteString("]\n\n")
	}
	for _, k := range []string{"buildLockFlag", "buildUnlockFlag"} {
		fmt.Fprintf(&b, "def %s_body : String := %s\n", k, leanStr(r.texts[k]))
	}
	b.WriteString("\nend Slock.Gen.Client\n")
	return b.String()
}
