package main

// Text command handlers (C13, text side): every read `args[e]` / `args[e:]` in the server-side text command handlers
// (server/protocol.go `TextServerProtocol.commandHandler*`, server/admin.go `Admin.commandHandle*`, and the local
// functions they hand `args` to), together with the facts about len(args) and the loop variable that DOMINATE the read:
//   * early returns            `if len(args) < n { return … }`            → len ≥ n afterwards
//   * branch conditions        `len(args) >= n && …`, `len(args) == n || …` (short-circuit order respected)
//   * loops                    `for i := a; i < len(args); i += s`, `for i := 0; i < (len(args)-c)/d; i++`
//   * in-loop guards           `if i+k >= len(args) { return … }`
// The table is emitted as lean/Slock/Gen/TextHandlers.lean; `Slock.C13T.handlers_no_oob` proves from it that every read
// is in range for ALL argument lists. A read in a shape this pass does not recognise is emitted WITHOUT facts, so the
// theorem stops checking (the tie breaks) instead of silently passing.
// Also extracted: the two handler registries (command name → function) and the option words the handlers compare
// arguments with (fed to the harness dictionary).

import (
	"fmt"
	"go/ast"
	"go/token"
	"path/filepath"
	"sort"
	"strconv"
	"strings"
)

type thFact struct {
	Kind string `json:"kind"` // lenGe n | lenNe n | iLtLen | iPlusLt k | iLtDiv c d | unknown
	A    int    `json:"a"`
	B    int    `json:"b"`
}

type thRead struct {
	Fn    string   `json:"fn"`
	Via   string   `json:"via"` // call chain from the registered handler
	Line  int      `json:"line"`
	Expr  string   `json:"expr"`
	A     int      `json:"a"` // index = A*i + B (A = 0: constant)
	B     int      `json:"b"`
	Slice bool     `json:"slice"` // `args[e:]`: e ≤ len is enough (emitted as index e-1)
	Facts []thFact `json:"facts"`
}

type thOut struct {
	Registry map[string]string `json:"registry"` // "text:SCAN" → function
	Reads    []thRead          `json:"reads"`
	Words    []string          `json:"words"`
	Delegate []string          `json:"delegates"` // calls that hand args to another package (the protocol converters)
}

type thCtx struct {
	fset   *token.FileSet
	funcs  map[string]*ast.FuncDecl // "Recv.Name"
	out    *thOut
	words  map[string]bool
	errs   []string
	active map[string]bool
}

func thIsLenArgs(e ast.Expr, arg string) bool {
	c, ok := e.(*ast.CallExpr)
	if !ok || len(c.Args) != 1 {
		return false
	}
	f, ok := c.Fun.(*ast.Ident)
	if !ok || f.Name != "len" {
		return false
	}
	id, ok := c.Args[0].(*ast.Ident)
	return ok && id.Name == arg
}

func thInt(e ast.Expr) (int, bool) {
	if p, ok := e.(*ast.ParenExpr); ok {
		return thInt(p.X)
	}
	if b, ok := e.(*ast.BasicLit); ok && b.Kind == token.INT {
		n, err := strconv.Atoi(b.Value)
		return n, err == nil
	}
	return 0, false
}

// affine form a*i + b of an index expression in the loop variable `iv` ("" = no loop variable in scope)
func thAffine(e ast.Expr, iv string) (a, b int, ok bool) {
	switch x := e.(type) {
	case *ast.ParenExpr:
		return thAffine(x.X, iv)
	case *ast.BasicLit:
		n, ok := thInt(x)
		return 0, n, ok
	case *ast.Ident:
		if iv != "" && x.Name == iv {
			return 1, 0, true
		}
		return 0, 0, false
	case *ast.BinaryExpr:
		la, lb, lok := thAffine(x.X, iv)
		ra, rb, rok := thAffine(x.Y, iv)
		if !lok || !rok {
			return 0, 0, false
		}
		switch x.Op {
		case token.ADD:
			return la + ra, lb + rb, true
		case token.SUB:
			return la - ra, lb - rb, true
		case token.MUL:
			if la == 0 {
				return lb * ra, lb * rb, true
			}
			if ra == 0 {
				return la * rb, lb * rb, true
			}
		}
	}
	return 0, 0, false
}

type thEnv struct {
	arg   string // the []string parameter's name in this function
	iv    string // loop variable in scope
	facts []thFact
}

func (e thEnv) with(fs ...thFact) thEnv {
	n := thEnv{e.arg, e.iv, append(append([]thFact{}, e.facts...), fs...)}
	return n
}

// facts of a condition when it is true / false
func (c *thCtx) condFacts(cond ast.Expr, env thEnv) (t, f []thFact) {
	switch x := cond.(type) {
	case *ast.ParenExpr:
		return c.condFacts(x.X, env)
	case *ast.BinaryExpr:
		switch x.Op {
		case token.LAND:
			lt, _ := c.condFacts(x.X, env)
			rt, _ := c.condFacts(x.Y, env)
			return append(lt, rt...), nil
		case token.LOR:
			_, lf := c.condFacts(x.X, env)
			_, rf := c.condFacts(x.Y, env)
			return nil, append(lf, rf...)
		case token.LSS, token.LEQ, token.GTR, token.GEQ, token.EQL, token.NEQ:
			op := x.Op
			l, r := x.X, x.Y
			if thIsLenArgs(r, env.arg) { // normalise to `<lhs> op len(args)` ↦ `len(args) op' <lhs>`
				if n, ok := thInt(l); ok {
					_ = n
					l, r = r, l
					op = map[token.Token]token.Token{token.LSS: token.GTR, token.LEQ: token.GEQ, token.GTR: token.LSS, token.GEQ: token.LEQ, token.EQL: token.EQL, token.NEQ: token.NEQ}[op]
				}
			}
			if thIsLenArgs(l, env.arg) {
				if n, ok := thInt(r); ok {
					switch op {
					case token.LSS:
						return nil, []thFact{{"lenGe", n, 0}}
					case token.LEQ:
						return nil, []thFact{{"lenGe", n + 1, 0}}
					case token.GEQ:
						return []thFact{{"lenGe", n, 0}}, nil
					case token.GTR:
						return []thFact{{"lenGe", n + 1, 0}}, nil
					case token.EQL:
						return []thFact{{"lenGe", n, 0}}, []thFact{{"lenNe", n, 0}}
					case token.NEQ:
						return []thFact{{"lenNe", n, 0}}, []thFact{{"lenGe", n, 0}}
					}
				}
				return nil, nil
			}
			// `i+k op len(args)`
			if env.iv != "" && thIsLenArgs(x.Y, env.arg) {
				if a, b, ok := thAffine(x.X, env.iv); ok && a == 1 {
					switch x.Op {
					case token.LSS:
						return []thFact{{"iPlusLt", b, 0}}, nil
					case token.GEQ:
						return nil, []thFact{{"iPlusLt", b, 0}}
					case token.LEQ: // i+b ≤ len ⇒ i+b-1 < len
						return []thFact{{"iPlusLt", b - 1, 0}}, nil
					case token.GTR:
						return nil, []thFact{{"iPlusLt", b - 1, 0}}
					}
				}
			}
		}
	}
	return nil, nil
}

func thTerminates(b *ast.BlockStmt) bool {
	if b == nil || len(b.List) == 0 {
		return false
	}
	switch s := b.List[len(b.List)-1].(type) {
	case *ast.ReturnStmt:
		return true
	case *ast.BranchStmt:
		return s.Tok == token.CONTINUE || s.Tok == token.BREAK
	case *ast.ExprStmt:
		if call, ok := s.X.(*ast.CallExpr); ok {
			if id, ok := call.Fun.(*ast.Ident); ok && id.Name == "panic" {
				return true
			}
		}
	}
	return false
}

func (c *thCtx) exprString(e ast.Expr) string {
	switch x := e.(type) {
	case *ast.BasicLit:
		return x.Value
	case *ast.Ident:
		return x.Name
	case *ast.ParenExpr:
		return "(" + c.exprString(x.X) + ")"
	case *ast.BinaryExpr:
		return c.exprString(x.X) + x.Op.String() + c.exprString(x.Y)
	}
	return "?"
}

func (c *thCtx) read(fn, via string, pos token.Pos, idx ast.Expr, slice bool, env thEnv) {
	r := thRead{Fn: fn, Via: via, Line: c.fset.Position(pos).Line, Expr: c.exprString(idx), Slice: slice}
	a, b, ok := thAffine(idx, env.iv)
	if !ok {
		r.Facts = []thFact{{"unknown", 0, 0}}
		c.out.Reads = append(c.out.Reads, r)
		return
	}
	if slice {
		if a == 0 && b == 0 {
			return // args[0:] is always fine
		}
		b-- // args[e:] needs e ≤ len, i.e. index e-1 in range
	}
	r.A, r.B = a, b
	r.Facts = append([]thFact{}, env.facts...)
	c.out.Reads = append(c.out.Reads, r)
}

// expression walk with short-circuit facts
func (c *thCtx) expr(fn, via string, e ast.Expr, env thEnv) {
	switch x := e.(type) {
	case nil:
		return
	case *ast.BinaryExpr:
		if x.Op == token.LAND {
			c.expr(fn, via, x.X, env)
			t, _ := c.condFacts(x.X, env)
			c.expr(fn, via, x.Y, env.with(t...))
			return
		}
		if x.Op == token.LOR {
			c.expr(fn, via, x.X, env)
			_, f := c.condFacts(x.X, env)
			c.expr(fn, via, x.Y, env.with(f...))
			return
		}
		c.noteWord(x)
		c.expr(fn, via, x.X, env)
		c.expr(fn, via, x.Y, env)
	case *ast.ParenExpr:
		c.expr(fn, via, x.X, env)
	case *ast.IndexExpr:
		if id, ok := x.X.(*ast.Ident); ok && id.Name == env.arg {
			c.read(fn, via, x.Pos(), x.Index, false, env)
		} else {
			c.expr(fn, via, x.X, env)
		}
		c.expr(fn, via, x.Index, env)
	case *ast.SliceExpr:
		if id, ok := x.X.(*ast.Ident); ok && id.Name == env.arg {
			if x.Low != nil {
				c.read(fn, via, x.Pos(), x.Low, true, env)
			}
			if x.High != nil {
				c.read(fn, via, x.Pos(), x.High, true, env)
			}
		} else {
			c.expr(fn, via, x.X, env)
		}
		c.expr(fn, via, x.Low, env)
		c.expr(fn, via, x.High, env)
	case *ast.CallExpr:
		c.call(fn, via, x, env)
	case *ast.UnaryExpr:
		c.expr(fn, via, x.X, env)
	case *ast.StarExpr:
		c.expr(fn, via, x.X, env)
	case *ast.SelectorExpr:
		c.expr(fn, via, x.X, env)
	case *ast.TypeAssertExpr:
		c.expr(fn, via, x.X, env)
	case *ast.KeyValueExpr:
		c.expr(fn, via, x.Key, env)
		c.expr(fn, via, x.Value, env)
	case *ast.CompositeLit:
		for _, el := range x.Elts {
			c.expr(fn, via, el, env)
		}
	case *ast.FuncLit:
		c.block(fn, via, x.Body, env)
	}
}

func (c *thCtx) noteWord(x *ast.BinaryExpr) {
	if x.Op != token.EQL && x.Op != token.NEQ {
		return
	}
	for _, s := range []ast.Expr{x.X, x.Y} {
		if b, ok := s.(*ast.BasicLit); ok && b.Kind == token.STRING {
			if w, err := strconv.Unquote(b.Value); err == nil && w != "" && len(w) < 40 {
				c.words[w] = true
			}
		}
	}
}

// a call: if `args` itself is handed to a local function/method, analyse the callee under the caller's facts
func (c *thCtx) call(fn, via string, x *ast.CallExpr, env thEnv) {
	passes := -1
	for i, a := range x.Args {
		if id, ok := a.(*ast.Ident); ok && id.Name == env.arg {
			passes = i
		}
	}
	for _, a := range x.Args {
		c.expr(fn, via, a, env)
	}
	c.expr(fn, via, x.Fun, env)
	if passes < 0 {
		return
	}
	name := ""
	local := false
	switch f := x.Fun.(type) {
	case *ast.Ident:
		name = f.Name
		local = true
	case *ast.SelectorExpr:
		name = f.Sel.Name
		if r, ok := f.X.(*ast.Ident); ok && (r.Name == "self" || r.Name == "serverProtocol") {
			local = true
		}
	}
	if name == "len" || name == "append" {
		return
	}
	var callee *ast.FuncDecl
	calleeKey := ""
	if local {
		for k, d := range c.funcs {
			if strings.HasSuffix(k, "."+name) || k == name {
				callee, calleeKey = d, k
			}
		}
	}
	if callee == nil {
		c.out.Delegate = append(c.out.Delegate, fmt.Sprintf("%s → %s (line %d)", fn, c.exprString2(x.Fun), c.fset.Position(x.Pos()).Line))
		return
	}
	// which parameter receives args?
	pi := 0
	pname := ""
	for _, fld := range callee.Type.Params.List {
		for _, n := range fld.Names {
			if pi == passes {
				pname = n.Name
			}
			pi++
		}
	}
	if pname == "" || pname == "_" {
		return // the callee ignores its argument list
	}
	if c.active[calleeKey] {
		return
	}
	c.active[calleeKey] = true
	var constFacts []thFact
	for _, f := range env.facts {
		if f.Kind == "lenGe" || f.Kind == "lenNe" {
			constFacts = append(constFacts, f)
		}
	}
	c.block(calleeKey, via+" → "+calleeKey, callee.Body, thEnv{arg: pname, facts: constFacts})
	delete(c.active, calleeKey)
}

func (c *thCtx) exprString2(e ast.Expr) string {
	if s, ok := e.(*ast.SelectorExpr); ok {
		return c.exprString2(s.X) + "." + s.Sel.Name
	}
	if id, ok := e.(*ast.Ident); ok {
		return id.Name
	}
	if call, ok := e.(*ast.CallExpr); ok {
		return c.exprString2(call.Fun) + "()"
	}
	return "?"
}

// statement list walk; returns the facts that hold after it
func (c *thCtx) block(fn, via string, b *ast.BlockStmt, env thEnv) thEnv {
	if b == nil {
		return env
	}
	for _, st := range b.List {
		env = c.stmt(fn, via, st, env)
	}
	return env
}

func (c *thCtx) stmt(fn, via string, st ast.Stmt, env thEnv) thEnv {
	switch s := st.(type) {
	case *ast.IfStmt:
		if s.Init != nil {
			env = c.stmt(fn, via, s.Init, env)
		}
		c.expr(fn, via, s.Cond, env)
		t, f := c.condFacts(s.Cond, env)
		c.block(fn, via, s.Body, env.with(t...))
		elseTerm := false
		switch e := s.Else.(type) {
		case *ast.BlockStmt:
			c.block(fn, via, e, env.with(f...))
			elseTerm = thTerminates(e)
		case *ast.IfStmt:
			c.stmt(fn, via, e, env.with(f...))
		}
		if thTerminates(s.Body) {
			env = env.with(f...)
		}
		if elseTerm {
			env = env.with(t...)
		}
	case *ast.ForStmt:
		inner := env
		if as, ok := s.Init.(*ast.AssignStmt); ok && len(as.Lhs) == 1 && as.Tok == token.DEFINE {
			if id, ok := as.Lhs[0].(*ast.Ident); ok {
				if _, ok := thInt(as.Rhs[0]); ok {
					inner.iv = id.Name
				}
			}
			for _, r := range as.Rhs {
				c.expr(fn, via, r, env)
			}
		}
		if inner.iv != "" {
			if be, ok := s.Cond.(*ast.BinaryExpr); ok && be.Op == token.LSS {
				if id, ok := be.X.(*ast.Ident); ok && id.Name == inner.iv {
					if thIsLenArgs(be.Y, env.arg) {
						inner = inner.with(thFact{"iLtLen", 0, 0})
					} else if d, ok := be.Y.(*ast.BinaryExpr); ok && d.Op == token.QUO {
						if dv, ok := thInt(d.Y); ok && dv > 0 {
							if p, ok := d.X.(*ast.ParenExpr); ok {
								if sub, ok := p.X.(*ast.BinaryExpr); ok && sub.Op == token.SUB && thIsLenArgs(sub.X, env.arg) {
									if cv, ok := thInt(sub.Y); ok {
										inner = inner.with(thFact{"iLtDiv", cv, dv})
									}
								}
							}
						}
					}
				}
			}
			// the loop variable must only change in the post statement
			ast.Inspect(s.Body, func(n ast.Node) bool {
				switch a := n.(type) {
				case *ast.AssignStmt:
					for _, l := range a.Lhs {
						if id, ok := l.(*ast.Ident); ok && id.Name == inner.iv {
							inner.facts = []thFact{{"unknown", 0, 0}}
						}
					}
				case *ast.IncDecStmt:
					if id, ok := a.X.(*ast.Ident); ok && id.Name == inner.iv {
						inner.facts = []thFact{{"unknown", 0, 0}}
					}
				}
				return true
			})
		}
		c.expr(fn, via, s.Cond, env)
		c.block(fn, via, s.Body, inner)
	case *ast.RangeStmt:
		c.expr(fn, via, s.X, env)
		c.block(fn, via, s.Body, env)
	case *ast.SwitchStmt:
		if s.Init != nil {
			env = c.stmt(fn, via, s.Init, env)
		}
		c.expr(fn, via, s.Tag, env)
		for _, cl := range s.Body.List {
			cc := cl.(*ast.CaseClause)
			for _, e := range cc.List {
				if b, ok := e.(*ast.BasicLit); ok && b.Kind == token.STRING {
					if w, err := strconv.Unquote(b.Value); err == nil && w != "" {
						c.words[w] = true
					}
				}
				c.expr(fn, via, e, env)
			}
			inner := env
			for _, st2 := range cc.Body {
				inner = c.stmt(fn, via, st2, inner)
			}
		}
	case *ast.TypeSwitchStmt:
		for _, cl := range s.Body.List {
			inner := env
			for _, st2 := range cl.(*ast.CaseClause).Body {
				inner = c.stmt(fn, via, st2, inner)
			}
		}
	case *ast.BlockStmt:
		c.block(fn, via, s, env)
	case *ast.AssignStmt:
		for _, l := range s.Lhs {
			if id, ok := l.(*ast.Ident); ok && id.Name == env.arg {
				c.errs = append(c.errs, fmt.Sprintf("texthandlers: %s reassigns %s (line %d): not in the recognised subset", fn, env.arg, c.fset.Position(s.Pos()).Line))
			}
			c.expr(fn, via, l, env)
		}
		for _, r := range s.Rhs {
			c.expr(fn, via, r, env)
		}
	case *ast.ExprStmt:
		c.expr(fn, via, s.X, env)
	case *ast.ReturnStmt:
		for _, r := range s.Results {
			c.expr(fn, via, r, env)
		}
	case *ast.DeclStmt:
		if g, ok := s.Decl.(*ast.GenDecl); ok {
			for _, sp := range g.Specs {
				if v, ok := sp.(*ast.ValueSpec); ok {
					for _, e := range v.Values {
						c.expr(fn, via, e, env)
					}
				}
			}
		}
	case *ast.GoStmt:
		c.expr(fn, via, s.Call, env)
	case *ast.DeferStmt:
		c.expr(fn, via, s.Call, env)
	case *ast.IncDecStmt:
		c.expr(fn, via, s.X, env)
	case *ast.SendStmt:
		c.expr(fn, via, s.Value, env)
	case *ast.SelectStmt:
		for _, cl := range s.Body.List {
			inner := env
			for _, st2 := range cl.(*ast.CommClause).Body {
				inner = c.stmt(fn, via, st2, inner)
			}
		}
	case *ast.LabeledStmt:
		env = c.stmt(fn, via, s.Stmt, env)
	}
	return env
}

func thRecv(d *ast.FuncDecl) string {
	if d.Recv == nil || len(d.Recv.List) == 0 {
		return ""
	}
	t := d.Recv.List[0].Type
	if s, ok := t.(*ast.StarExpr); ok {
		t = s.X
	}
	if id, ok := t.(*ast.Ident); ok {
		return id.Name
	}
	return ""
}

// registry: `X.handlers["NAME"] = self.method` / `handlers["NAME"] = self.method` inside the given function
func thRegistry(d *ast.FuncDecl, recv, prefix string, reg map[string]string) {
	ast.Inspect(d.Body, func(n ast.Node) bool {
		as, ok := n.(*ast.AssignStmt)
		if !ok || len(as.Lhs) != 1 || len(as.Rhs) != 1 {
			return true
		}
		ix, ok := as.Lhs[0].(*ast.IndexExpr)
		if !ok {
			return true
		}
		lit, ok := ix.Index.(*ast.BasicLit)
		if !ok || lit.Kind != token.STRING {
			return true
		}
		sel, ok := as.Rhs[0].(*ast.SelectorExpr)
		if !ok {
			return true
		}
		name, _ := strconv.Unquote(lit.Value)
		reg[prefix+name] = recv + "." + sel.Sel.Name
		return true
	})
}

func extractTextHandlers(server *pkgInfo, out *Output, leanDir string, fail func(error)) {
	if server == nil {
		return
	}
	c := &thCtx{fset: server.fset, funcs: map[string]*ast.FuncDecl{}, out: &thOut{Registry: map[string]string{}}, words: map[string]bool{}, active: map[string]bool{}}
	for _, f := range server.files {
		for _, d := range f.Decls {
			if fd, ok := d.(*ast.FuncDecl); ok && fd.Body != nil {
				key := fd.Name.Name
				if r := thRecv(fd); r != "" {
					key = r + "." + key
				}
				c.funcs[key] = fd
			}
		}
	}
	if d := c.funcs["TextServerProtocol.FindHandler"]; d != nil {
		thRegistry(d, "TextServerProtocol", "text:", c.out.Registry)
	} else {
		fail(fmt.Errorf("texthandlers: TextServerProtocol.FindHandler not found"))
	}
	if d := c.funcs["Admin.GetHandlers"]; d != nil {
		thRegistry(d, "Admin", "admin:", c.out.Registry)
	} else {
		fail(fmt.Errorf("texthandlers: Admin.GetHandlers not found"))
	}
	if len(c.out.Registry) < 20 {
		fail(fmt.Errorf("texthandlers: only %d registered handlers recognised", len(c.out.Registry)))
	}
	seen := map[string]bool{}
	var fns []string
	for _, fn := range c.out.Registry {
		if !seen[fn] {
			seen[fn] = true
			fns = append(fns, fn)
		}
	}
	fns = append(fns, "TextServerProtocol.commandHandlerUnknownCommand")
	sort.Strings(fns)
	for _, fn := range fns {
		d := c.funcs[fn]
		if d == nil {
			fail(fmt.Errorf("texthandlers: registered handler %s has no declaration", fn))
			continue
		}
		// the argument list is the parameter of type []string
		arg := ""
		for _, fld := range d.Type.Params.List {
			if at, ok := fld.Type.(*ast.ArrayType); ok && at.Len == nil {
				if id, ok := at.Elt.(*ast.Ident); ok && id.Name == "string" && len(fld.Names) == 1 {
					arg = fld.Names[0].Name
				}
			}
		}
		if arg == "" || arg == "_" {
			continue // ignores its arguments
		}
		c.active[fn] = true
		c.block(fn, fn, d.Body, thEnv{arg: arg})
		delete(c.active, fn)
	}
	for _, e := range c.errs {
		fail(fmt.Errorf("%s", e))
	}
	for w := range c.words {
		c.out.Words = append(c.out.Words, w)
	}
	sort.Strings(c.out.Words)
	sort.Strings(c.out.Delegate)
	out.Facts["texthandlers"] = c.out
	out.Facts["texthandler_words"] = c.out.Words

	// Lean
	var b strings.Builder
	b.WriteString("/- GENERATED by /verif/go/extract (texthandlers.go) from /repo/server — do not edit. -/\nimport Slock.Model.TextHandlers\nnamespace Slock.Gen\nopen Slock.TextH\n\n")
	b.WriteString("/-- every `args[e]` / `args[e:]` in the server-side text command handlers, with the facts that dominate it -/\ndef textHandlerReads : List Read := [\n")
	for i, r := range c.out.Reads {
		var fs []string
		for _, f := range r.Facts {
			switch f.Kind {
			case "lenGe":
				fs = append(fs, fmt.Sprintf(".lenGe %d", f.A))
			case "lenNe":
				fs = append(fs, fmt.Sprintf(".lenNe %d", f.A))
			case "iLtLen":
				fs = append(fs, ".iLtLen")
			case "iPlusLt":
				if f.A >= 0 {
					fs = append(fs, fmt.Sprintf(".iPlusLt %d", f.A))
				}
			case "iLtDiv":
				fs = append(fs, fmt.Sprintf(".iLtDiv %d %d", f.A, f.B))
			default:
				fs = append(fs, ".unknown")
			}
		}
		bb := r.B
		neg := ""
		if bb < 0 {
			neg = " -- negative offset: not representable"
			fs = []string{".unknown"}
			bb = 0
		}
		sep := ","
		if i == len(c.out.Reads)-1 {
			sep = ""
		}
		fmt.Fprintf(&b, "  { fn := %s, line := %d, expr := %s, a := %d, b := %d, facts := [%s] }%s%s\n", leanStr(r.Fn), r.Line, leanStr(r.Expr), r.A, bb, strings.Join(fs, ", "), sep, neg)
	}
	b.WriteString("]\n\n/-- command name → handler function, as registered in `TextServerProtocol.FindHandler` / `Admin.GetHandlers` -/\ndef textHandlerRegistry : List (String × String) := [\n")
	var keys []string
	for k := range c.out.Registry {
		keys = append(keys, k)
	}
	sort.Strings(keys)
	for i, k := range keys {
		sep := ","
		if i == len(keys)-1 {
			sep = ""
		}
		fmt.Fprintf(&b, "  (%s, %s)%s\n", leanStr(k), leanStr(c.out.Registry[k]), sep)
	}
	b.WriteString("]\n\nend Slock.Gen\n")
	if err := writeIfChanged(filepath.Join(leanDir, "Slock/Gen/TextHandlers.lean"), b.String()); err != nil {
		fail(err)
	}
}
