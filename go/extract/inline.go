package main

// Hand-inlined copies of the wire codecs in the server package (G1, inlined part):
//   * the LOCK / UNLOCK branches of BinaryServerProtocol.ProcessParse and TransparencyBinaryServerProtocol.ProcessParse
//     decode a 64-byte frame into a *protocol.LockCommand without calling LockCommand.Decode;
//   * BinaryServerProtocol.ProcessLockResultCommand writes the 64-byte result frame without LockResultCommand.Encode.
// The statement blocks are executed symbolically into tables keyed by FIELD NAME:
//   decoder:  field ↦ [(frame offset, byte position)]      (`uint16(buf[a])|uint16(buf[b])<<8` ↦ [(a,0),(b,1)])
//   encoder:  frame offset ↦ source (constant | named constant | byte i of field F | one of two constants)
// and emitted as lean/Slock/Gen/InlineLayouts.lean; `Slock.C14I.inline_decoders_eq` / `inline_result_encoder_eq` compare
// them with the tables of LockCommand.Decode / LockResultCommand.Encode. A statement outside the recognised shapes is an
// EXTRACT-ERROR (the tie breaks), never silently skipped when it assigns a wire field or a frame byte.

import (
	"fmt"
	"go/ast"
	"go/token"
	"path/filepath"
	"strconv"
	"strings"
)

// integer literal in any Go base (0x00 …)
func inlInt(e ast.Expr) (int, bool) {
	if p, ok := e.(*ast.ParenExpr); ok {
		return inlInt(p.X)
	}
	if b, ok := e.(*ast.BasicLit); ok && b.Kind == token.INT {
		n, err := strconv.ParseInt(b.Value, 0, 64)
		return int(n), err == nil
	}
	return 0, false
}

type inlDecField struct {
	Name string   `json:"name"`
	Offs [][2]int `json:"offs"` // (offset, byte position)
}

type inlDec struct {
	Name   string        `json:"name"`
	Fn     string        `json:"fn"`
	File   string        `json:"file"`
	Line   int           `json:"line"`
	Fields []inlDecField `json:"fields"`
}

type inlSrc struct {
	K    string `json:"k"` // const | named | field | either | undef
	Name string `json:"name"`
	I    int    `json:"i"`
	V    int    `json:"v"`
	W    int    `json:"w"`
}

type inlEnc struct {
	Name string   `json:"name"`
	Fn   string   `json:"fn"`
	File string   `json:"file"`
	Line int      `json:"line"`
	Enc  []inlSrc `json:"enc"`
}

type inlCtx struct {
	fset   *token.FileSet
	buf    string
	alias  map[string][][2]int // local identifiers defined from frame bytes (commandType := uint8(buf[2]))
	consts map[string]int64
}

func (c *inlCtx) bufOff(e ast.Expr) (int, bool) {
	if p, ok := e.(*ast.ParenExpr); ok {
		return c.bufOff(p.X)
	}
	if _, inner, ok := isConv(e); ok {
		return c.bufOff(inner)
	}
	ie, ok := e.(*ast.IndexExpr)
	if !ok {
		return 0, false
	}
	id, ok := ie.X.(*ast.Ident)
	if !ok || id.Name != c.buf {
		return 0, false
	}
	return thInt(ie.Index)
}

// decode source: buf[k] | uintN(buf[k]) | alias | t0 | t1<<8 | … ; returns (offset, byte position) pairs
func (c *inlCtx) decSrc(e ast.Expr) ([][2]int, bool) {
	if p, ok := e.(*ast.ParenExpr); ok {
		return c.decSrc(p.X)
	}
	if off, ok := c.bufOff(e); ok {
		return [][2]int{{off, 0}}, true
	}
	if id, ok := e.(*ast.Ident); ok {
		if a, ok := c.alias[id.Name]; ok {
			return a, true
		}
	}
	if be, ok := e.(*ast.BinaryExpr); ok {
		switch be.Op {
		case token.OR:
			a, ok1 := c.decSrc(be.X)
			b, ok2 := c.decSrc(be.Y)
			if ok1 && ok2 {
				return append(a, b...), true
			}
		case token.SHL:
			a, ok1 := c.decSrc(be.X)
			s, ok2 := thInt(be.Y)
			if ok1 && ok2 && s%8 == 0 && len(a) == 1 {
				return [][2]int{{a[0][0], a[0][1] + s/8}}, true
			}
		}
	}
	return nil, false
}

// recv.F or recv.F[i]
func inlField(e ast.Expr, recv string) (name string, idx int, ok bool) {
	idx = -1
	if ie, isIdx := e.(*ast.IndexExpr); isIdx {
		n, ok2 := thInt(ie.Index)
		if !ok2 {
			return "", 0, false
		}
		idx = n
		e = ie.X
	}
	se, isSel := e.(*ast.SelectorExpr)
	if !isSel {
		return "", 0, false
	}
	id, isId := se.X.(*ast.Ident)
	if !isId || id.Name != recv {
		return "", 0, false
	}
	return se.Sel.Name, idx, true
}

func inlMentions(e ast.Node, name string) bool {
	found := false
	ast.Inspect(e, func(n ast.Node) bool {
		if id, ok := n.(*ast.Ident); ok && id.Name == name {
			found = true
		}
		return !found
	})
	return found
}

func (c *inlCtx) decodeBlock(stmts []ast.Stmt, recv string, wire map[string]bool, d *inlDec, fail func(error)) {
	byName := map[string]int{}
	for _, st := range stmts {
		as, ok := st.(*ast.AssignStmt)
		if !ok || len(as.Lhs) != len(as.Rhs) {
			continue
		}
		for i := range as.Lhs {
			name, idx, ok := inlField(as.Lhs[i], recv)
			if !ok || !wire[name] {
				continue
			}
			src, ok := c.decSrc(as.Rhs[i])
			if !ok {
				if inlMentions(as.Rhs[i], c.buf) {
					fail(fmt.Errorf("inline %s: %s: unrecognised decode source for %s.%s", d.Name, c.fset.Position(as.Pos()), recv, name))
				}
				continue // assigned from something else than the frame (not part of the decoder)
			}
			if idx >= 0 {
				if len(src) != 1 || src[0][1] != 0 {
					fail(fmt.Errorf("inline %s: %s: indexed field byte from a composite source", d.Name, c.fset.Position(as.Pos())))
					continue
				}
				src = [][2]int{{src[0][0], idx}}
			}
			k, seen := byName[name]
			if !seen {
				k = len(d.Fields)
				byName[name] = k
				d.Fields = append(d.Fields, inlDecField{Name: name})
			}
			if idx < 0 {
				d.Fields[k].Offs = src
			} else {
				d.Fields[k].Offs = append(d.Fields[k].Offs, src...)
			}
		}
	}
}

func inlFindFunc(p *pkgInfo, recvType, name string) (*ast.FuncDecl, string) {
	for i, f := range p.files {
		for _, dd := range f.Decls {
			fd, ok := dd.(*ast.FuncDecl)
			if ok && fd.Body != nil && fd.Name.Name == name && thRecv(fd) == recvType {
				return fd, p.names[i]
			}
		}
	}
	return nil, ""
}

func (c *inlCtx) encSrc(e ast.Expr, recv string, params map[string]string) (inlSrc, bool) {
	if p, ok := e.(*ast.ParenExpr); ok {
		return c.encSrc(p.X, recv, params)
	}
	if n, ok := inlInt(e); ok {
		return inlSrc{K: "const", V: n & 255}, true
	}
	if se, ok := e.(*ast.SelectorExpr); ok {
		if id, ok := se.X.(*ast.Ident); ok && id.Name == "protocol" {
			if v, ok := c.consts[se.Sel.Name]; ok {
				return inlSrc{K: "named", Name: se.Sel.Name, V: int(v)}, true
			}
		}
	}
	if _, inner, ok := isConv(e); ok {
		if pe, ok := inner.(*ast.ParenExpr); ok {
			inner = pe.X
		}
		if be, ok := inner.(*ast.BinaryExpr); ok && be.Op == token.SHR {
			s, ok2 := thInt(be.Y)
			base, ok1 := c.encSrc(be.X, recv, params)
			if ok1 && ok2 && s%8 == 0 && base.K == "field" && base.I == 0 {
				base.I = s / 8
				return base, true
			}
			return inlSrc{}, false
		}
		return c.encSrc(inner, recv, params)
	}
	if id, ok := e.(*ast.Ident); ok {
		if f, ok := params[id.Name]; ok {
			return inlSrc{K: "field", Name: f}, true
		}
	}
	if name, idx, ok := inlField(e, recv); ok {
		if idx < 0 {
			idx = 0
		}
		return inlSrc{K: "field", Name: name, I: idx}, true
	}
	return inlSrc{}, false
}

func (c *inlCtx) encAssign(as *ast.AssignStmt, recv string, params map[string]string, table []inlSrc, what string, fail func(error)) bool {
	if len(as.Lhs) != len(as.Rhs) {
		return false
	}
	any := false
	for i := range as.Lhs {
		ie, ok := as.Lhs[i].(*ast.IndexExpr)
		if !ok {
			continue
		}
		id, ok := ie.X.(*ast.Ident)
		if !ok || id.Name != c.buf {
			continue
		}
		off, ok := thInt(ie.Index)
		if !ok || off < 0 || off >= 64 {
			fail(fmt.Errorf("inline %s: %s: frame byte with a non-constant or out-of-frame index", what, c.fset.Position(as.Pos())))
			continue
		}
		src, ok := c.encSrc(as.Rhs[i], recv, params)
		if !ok {
			fail(fmt.Errorf("inline %s: %s: unrecognised source for frame byte %d", what, c.fset.Position(as.Pos()), off))
			src = inlSrc{K: "undef"}
		}
		table[off] = src
		any = true
	}
	return any
}

func extractInlineCodecs(proto, server *pkgInfo, out *Output, leanDir string, fail func(error)) {
	if proto == nil || server == nil {
		return
	}
	var lcFields []FieldInfo
	proto.sd.flatten("LockCommand", "", &lcFields)
	wire := map[string]bool{}
	for _, f := range lcFields {
		wire[f.Name] = true
	}
	var decs []inlDec
	for _, site := range [][2]string{{"BinaryServerProtocol", "ProcessParse"}, {"TransparencyBinaryServerProtocol", "ProcessParse"}} {
		fd, file := inlFindFunc(server, site[0], site[1])
		if fd == nil {
			fail(fmt.Errorf("inline: %s.%s not found", site[0], site[1]))
			continue
		}
		c := &inlCtx{fset: server.fset, buf: "buf", alias: map[string][][2]int{}, consts: out.Consts}
		found := map[string]bool{}
		ast.Inspect(fd.Body, func(n ast.Node) bool {
			switch v := n.(type) {
			case *ast.AssignStmt:
				if v.Tok == token.DEFINE && len(v.Lhs) == 1 && len(v.Rhs) == 1 {
					if id, ok := v.Lhs[0].(*ast.Ident); ok {
						if src, ok := c.decSrc(v.Rhs[0]); ok {
							c.alias[id.Name] = src
						}
					}
				}
			case *ast.CaseClause:
				for _, e := range v.List {
					se, ok := e.(*ast.SelectorExpr)
					if !ok || (se.Sel.Name != "COMMAND_LOCK" && se.Sel.Name != "COMMAND_UNLOCK") {
						continue
					}
					// only the branches that decode by hand (the others call lockCommand.Decode)
					byHand := false
					for _, st := range v.Body {
						if as, ok := st.(*ast.AssignStmt); ok {
							for _, l := range as.Lhs {
								if name, _, ok := inlField(l, "lockCommand"); ok && name == "RequestId" {
									byHand = true
								}
							}
						}
					}
					if !byHand {
						continue
					}
					d := inlDec{Name: site[0] + "." + site[1] + ":" + se.Sel.Name, Fn: site[0] + "." + site[1], File: "server/" + file, Line: server.fset.Position(v.Pos()).Line}
					c.decodeBlock(v.Body, "lockCommand", wire, &d, fail)
					decs = append(decs, d)
					found[se.Sel.Name] = true
				}
			}
			return true
		})
		if !found["COMMAND_LOCK"] || !found["COMMAND_UNLOCK"] {
			fail(fmt.Errorf("inline: %s.%s: hand-inlined LOCK / UNLOCK decoder branches not found (%v)", site[0], site[1], found))
		}
	}
	// the inlined result encoder
	var encs []inlEnc
	if fd, file := inlFindFunc(server, "BinaryServerProtocol", "ProcessLockResultCommand"); fd != nil {
		c := &inlCtx{fset: server.fset, buf: "buf", alias: map[string][][2]int{}, consts: out.Consts}
		params := map[string]string{"result": "Result", "lcount": "Lcount", "lrcount": "Lrcount"}
		e := inlEnc{Name: "BinaryServerProtocol.ProcessLockResultCommand", Fn: "BinaryServerProtocol.ProcessLockResultCommand", File: "server/" + file, Line: server.fset.Position(fd.Pos()).Line}
		e.Enc = make([]inlSrc, 64)
		for i := range e.Enc {
			e.Enc[i] = inlSrc{K: "undef"}
		}
		for _, st := range fd.Body.List {
			switch v := st.(type) {
			case *ast.AssignStmt:
				c.encAssign(v, "command", params, e.Enc, e.Name, fail)
			case *ast.IfStmt:
				eb, ok := v.Else.(*ast.BlockStmt)
				if !ok || len(v.Body.List) != 1 || len(eb.List) != 1 {
					continue
				}
				a1, ok1 := v.Body.List[0].(*ast.AssignStmt)
				a2, ok2 := eb.List[0].(*ast.AssignStmt)
				if !ok1 || !ok2 {
					continue
				}
				t1, t2 := make([]inlSrc, 64), make([]inlSrc, 64)
				for i := range t1 {
					t1[i], t2[i] = inlSrc{K: "undef"}, inlSrc{K: "undef"}
				}
				if !c.encAssign(a1, "command", params, t1, e.Name, fail) || !c.encAssign(a2, "command", params, t2, e.Name, fail) {
					continue
				}
				for i := range t1 {
					if t1[i].K == "undef" && t2[i].K == "undef" {
						continue
					}
					switch {
					case t1[i] == t2[i]:
						e.Enc[i] = t1[i]
					case (t1[i].K == "const" || t1[i].K == "named") && (t2[i].K == "const" || t2[i].K == "named"):
						e.Enc[i] = inlSrc{K: "either", V: t1[i].V, W: t2[i].V}
					default:
						fail(fmt.Errorf("inline %s: %s: the two branches write frame byte %d from different non-constant sources", e.Name, server.fset.Position(v.Pos()), i))
					}
				}
			}
		}
		encs = append(encs, e)
	} else {
		fail(fmt.Errorf("inline: BinaryServerProtocol.ProcessLockResultCommand not found"))
	}
	out.Facts["inline_codecs"] = map[string]interface{}{"decoders": decs, "encoders": encs}

	var b strings.Builder
	b.WriteString("/- GENERATED by /verif/go/extract (inline.go) from /repo/server — do not edit. -/\nimport Slock.Model.LayoutInline\nnamespace Slock.Gen\nopen Slock.Layout\n\n")
	b.WriteString("/-- the hand-inlined LOCK / UNLOCK frame decoders of the server package: field ↦ [(frame offset, byte position)] -/\ndef inlineDecoders : List InlineDec := [\n")
	for i, d := range decs {
		var fs []string
		for _, f := range d.Fields {
			var os []string
			for _, o := range f.Offs {
				os = append(os, fmt.Sprintf("(%d, %d)", o[0], o[1]))
			}
			fs = append(fs, fmt.Sprintf("(%s, [%s])", leanStr(f.Name), strings.Join(os, ", ")))
		}
		sep := ","
		if i == len(decs)-1 {
			sep = ""
		}
		fmt.Fprintf(&b, "  { name := %s, file := %s, line := %d,\n    fields := [%s] }%s\n", leanStr(d.Name), leanStr(d.File), d.Line, strings.Join(fs, ", "), sep)
	}
	b.WriteString("]\n\n/-- the hand-inlined result-frame encoders: frame offset ↦ source -/\ndef inlineEncoders : List InlineEnc := [\n")
	for i, e := range encs {
		var ss []string
		for _, s := range e.Enc {
			switch s.K {
			case "const":
				ss = append(ss, fmt.Sprintf(".const %d", s.V))
			case "named":
				ss = append(ss, fmt.Sprintf(".named %s %d", leanStr(s.Name), s.V))
			case "field":
				ss = append(ss, fmt.Sprintf(".field %s %d", leanStr(s.Name), s.I))
			case "either":
				ss = append(ss, fmt.Sprintf(".either %d %d", s.V, s.W))
			default:
				ss = append(ss, ".undef")
			}
		}
		sep := ","
		if i == len(encs)-1 {
			sep = ""
		}
		fmt.Fprintf(&b, "  { name := %s, file := %s, line := %d,\n    enc := [%s] }%s\n", leanStr(e.Name), leanStr(e.File), e.Line, strings.Join(ss, ", "), sep)
	}
	b.WriteString("]\n\nend Slock.Gen\n")
	if err := writeIfChanged(filepath.Join(leanDir, "Slock/Gen/InlineLayouts.lean"), b.String()); err != nil {
		fail(err)
	}
}
