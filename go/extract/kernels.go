package main

// G3: decision kernels (pure integer/boolean Go functions → Lean defs). See kernels_impl.go.

type KernelOut struct {
	Name string `json:"name"`
	Src  string `json:"src"`
	Lean string `json:"lean"`
}
