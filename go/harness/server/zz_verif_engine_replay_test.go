package server

// Replays engine op lines (from a replay file or the regression corpus) on the REAL engine: mode "engine-replay".
// VERIF_REPLAY = path of a file with one `engine <now0> op;op;…` line per case.

import (
	"bufio"
	"fmt"
	"os"
	"strconv"
	"strings"
	"testing"
	"time"
)

func vParseOp(s string) (vOp, bool) {
	f := strings.Fields(s)
	if len(f) == 0 {
		return vOp{}, false
	}
	n := make([]int, len(f))
	for i := 1; i < len(f); i++ {
		v, err := strconv.Atoi(f[i])
		if err != nil {
			return vOp{}, false
		}
		n[i] = v
	}
	switch f[0] {
	case "L", "U":
		if len(f) < 12 {
			return vOp{}, false
		}
		o := vOp{kind: f[0][0], req: n[1], conn: n[2], flag: n[3], lockId: n[4], key: n[5], tflag: n[6], timeout: n[7], eflag: n[8], expried: n[9], count: n[10], rcount: n[11]}
		return o, true
	case "T", "S":
		return vOp{kind: f[0][0]}, true
	case "R":
		if len(f) < 2 {
			return vOp{}, false
		}
		return vOp{kind: 'R', arg: n[1]}, true
	}
	return vOp{}, false
}

func init() {
	vModes["engine-replay"] = func(t *testing.T) {
		out := vOpen("engine-replay")
		defer out.close()
		vFastPark = os.Getenv("VERIF_FASTPARK") == "1"
		fh, err := os.Open(os.Getenv("VERIF_REPLAY"))
		if err != nil {
			t.Fatal(err)
		}
		defer fh.Close()
		sc := bufio.NewScanner(fh)
		sc.Buffer(make([]byte, 1<<20), 1<<26)
		for sc.Scan() {
			line := strings.TrimSpace(sc.Text())
			if !strings.HasPrefix(line, "engine ") {
				continue
			}
			parts := strings.SplitN(line, " ", 3)
			now0, _ := strconv.ParseInt(parts[1], 10, 64)
			v := vNewSeq(3, 0xff)
			v.setClock(now0)
			g := &vGen{nextReq: 1 << 30, nconn: 3}
			x := &vRun{v: v, g: g}
			seen := map[int]bool{}
			var ops []vOp
			for _, s := range strings.Split(parts[2], ";") {
				if o, ok := vParseOp(s); ok {
					ops = append(ops, o)
					if (o.kind == 'L' || o.kind == 'U') && !seen[o.key] {
						seen[o.key] = true
						x.keys = append(x.keys, o.key)
					}
				}
			}
			x.mon = vNewMonitor(out, x)
			keyCount0 := v.counters().KeyCount
			v.base = v.counters()
			v.onReply = x.mon.onReply
			bad := ""
			done := make(chan struct{})
			go func() {
				defer func() {
					if e := recover(); e != nil {
						bad = fmt.Sprintf("panic: %v", e)
					}
					close(done)
				}()
				for _, o := range ops {
					x.do(o)
				}
				// end-of-history monitors (exactly one terminal reply per request …) apply when nothing is held or queued any more
				live := 0
				for _, key := range x.keys {
					ks := v.keySnap(key)
					live += len(ks.holds) + len(ks.waits)
				}
				if live == 0 {
					x.mon.drained(x)
				}
			}()
			select {
			case <-done:
			case <-time.After(30 * time.Second):
				bad = "hang"
			}
			strs := make([]string, len(x.ops))
			for i, o := range x.ops {
				strs[i] = o.String()
			}
			rl := fmt.Sprintf("engine %d %s", now0, strings.Join(strs, ";"))
			x.mon.line = rl
			obs := strings.Join(x.obs, ";")
			if bad != "" {
				obs += ";" + bad
				out.monitor("C13:engine-"+strings.Fields(bad)[0], "the real engine "+bad+" while replaying", map[string]string{"ops": rl})
			}
			out.emit(rl, obs)
			x.mon.flush()
			if bad == "" {
				// as in the generated runs: after the recorded drain, 18 s later every key record must be gone again
				v.onReply = nil
				for i := 0; i < 18; i++ {
					v.tick()
				}
				live := 0
				for _, key := range x.keys {
					ks := v.keySnap(key)
					live += len(ks.holds) + len(ks.waits)
				}
				if kc := v.counters().KeyCount; live == 0 && kc != keyCount0 {
					out.monitor("C17:keycount-after-drain", fmt.Sprintf("KeyCount is %d (baseline %d) after every hold was released, every waiter answered and 18 s passed", kc, keyCount0), map[string]string{"ops": rl})
				}
			}
		}
	}
}
