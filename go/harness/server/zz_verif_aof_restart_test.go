package server

// E-fs "restart": a seeded history through a REAL SLock with a REAL Aof (real AofChannel goroutines, real writer, real
// rotation / compaction) on a scratch data dir, then a FRESH SLock on a COPY of that directory.  (C07 journal/replay part, and
// C16 "a live persisted hold survives compaction".)
//
// Clocks.  Both nodes run on a VIRTUAL clock (the four background loops of every LockDB exit at once because the database
// is created while slock.state == STATE_CLOSE; the harness owns currentTime / check*Time and calls the sweep functions per
// elapsed second, as zz_verif_engine_test.go does).  LoadAndInit and loadRewriteAofFiles filter expired records against the
// REAL time.Now(); production has one clock, so the history is laid out in the virtual PAST such that the virtual clock of
// the restarted node (and of a compaction) EQUALS the real clock at that moment:  base := realNow − outage − duration.
//
// Line format (one case per line; designed so that a Lean `recover : List Rec → holds` can be diffed later):
//
//   op    restart <base> <nowRel> <cfgBuf> <journal>
//         <journal> = the records of the directory the restarted node loads, in load order (rewrite.aof, append.aof.N…),
//                     one token per record, ','-separated ('-' if none):
//                     <L|U>.<db>.<key>.<lockId>.<flag>.<aofFlag>.<eflag>.<stored>.<ctRel>.<count>.<rcount>.<valuehex|n>
//                     (L = LOCK record, U = UNLOCK record; flag/aofFlag/eflag hex; stored = remaining lifetime field;
//                      ctRel = record command time − base; times relative to <base> so that cases are reproducible)
//         <nowRel>  = second of the restart − base
//   obs   the restored snapshot: ';'-separated holds sorted by (db,key,lockId)
//                     <db>.<key>.<lockId>.<depth>.<count>.<rcount>.<eflag>.<tflag&0x1010>.<deadlineRel|inf>   then '|' and the key values
//                     <db>.<key>=<valuehex|n>
//   The original node's snapshot (same syntax, plus .A/.N = journalled or not) is part of the monitor replay objects.
//
// Monitors (property statement on the real code), signatures keyed by CAUSE (the effect is in the text):
//   journal side — the journal the server wrote, read through the reference replay vRRecover (= Slock.Aof.recover), must describe
//   exactly the journalled holds (isAof) of the database at the moment it stopped (id, depth, Count, Rcount, deadline, value):
//     C07:journal:partial-unlock-journalled-as-full      an UNLOCK record with the UPDATED flag (one level) carries Rcount 0 (= all levels)
//     C07:journal:levels-journalled-with-update-flag     deferred journalling wrote the levels of a re-entrant hold as update records
//     C07:journal:other   C07:journal:value-mismatch
//   replay side — the holds after the restart must be what the journal means, minus the holds that expired during the outage,
//   deadline within one unit + 1 s and never later:
//     C07:replay:multi-record-history    the key's history spans several records; LoadAofFile / the engine judge each on its own
//     C07:replay:single-record           (no such excuse)
//     C07:deadline-renewed:milliseconds  recorded finding F5
//     C07:restart-fails
//   two generations (a quarter of the cases, corpus lines with an "R" token): after the first restart the history CONTINUES on the
//   restarted instance at virtual clock = real clock (client UNLOCKs of restored holds — all levels / one level —, re-locks and
//   updates of restored holds, new holds, some expiring while the harness waits in real time), then drain, snapshot, second restart
//   on a copy. Judged exactly like generation 1 (journal side against the database of generation 2, replay side against the journal
//   of BOTH generations as it is on disk), on the keys where the journal on disk described the database when generation 2 began:
//     C07:journal:unlock-of-restored-hold-not-journalled   a successful client UNLOCK of a journalled, restored hold wrote no record
//   compaction — the meaning of the journal (and the real recovery) before and after a REAL compaction:
//     C16:compaction:live-record-dropped               a dropped LOCK record carried the hold's CURRENT terms (a live hold is lost/changed)
//     C16:compaction:priority-update-record-dropped    … and it is the update record of a hold taken with Rcount-is-priority
//     C16:compaction:expired-level-record-dropped      a record of a live hold's history was dropped by the compaction's expiry filter
//     C16:compaction:superseded-level-record-dropped   a record that accounts for a level was dropped as stale by the keep-rule
//     C16:compaction:value-record-dropped              the key's value was carried by a record of a hold that is gone
//     C16:compaction:no-record-dropped   C16:compaction-startup-fails

import (
	"fmt"
	"io"
	"math/rand"
	"os"
	"path/filepath"
	"sort"
	"strings"
	"sync/atomic"
	"testing"
	"time"

	"github.com/jessevdk/go-flags"
	"github.com/snower/slock/protocol"
)

func vRId(n int) [16]byte {
	var b [16]byte
	b[0], b[1], b[2], b[3] = byte(n), byte(n>>8), byte(n>>16), byte(n>>24)
	return b
}

func vRInt(b [16]byte) int {
	return int(b[0]) | int(b[1])<<8 | int(b[2])<<16 | int(b[3])<<24
}

type vRHold struct {
	db, key, lockId      int
	depth, count, rcount int
	eflag, expried       int
	tflag                int // TimeoutFlag & 0x1010 (Rcount-is-priority, require-ack)
	deadline             int64
	isAof                bool
}

func (h vRHold) id() [3]int { return [3]int{h.db, h.key, h.lockId} }

type vRKey struct {
	db, key  int
	value    []byte
	valueAof bool
}

type vRSnap struct {
	holds []vRHold
	keys  []vRKey
}

func vRUnit(eflag int) (int64, string) {
	switch {
	case eflag&protocol.EXPRIED_FLAG_UNLIMITED_EXPRIED_TIME != 0:
		return 0, "unlimited"
	case eflag&protocol.EXPRIED_FLAG_MILLISECOND_TIME != 0:
		return 0, "milliseconds"
	case eflag&protocol.EXPRIED_FLAG_MINUTE_TIME != 0:
		return 60, "minutes"
	}
	return 1, "seconds"
}

func (s *vRSnap) String(base int64, withAof bool) string {
	hs := make([]string, len(s.holds))
	for i, h := range s.holds {
		d := "inf"
		if h.deadline != 0x7fffffffffffffff {
			d = fmt.Sprint(h.deadline - base)
		}
		hs[i] = fmt.Sprintf("%d.%d.%d.%d.%d.%d.%x.%x.%s", h.db, h.key, h.lockId, h.depth, h.count, h.rcount, h.eflag, h.tflag, d)
		if withAof {
			if h.isAof {
				hs[i] += ".A"
			} else {
				hs[i] += ".N"
			}
		}
	}
	ks := make([]string, len(s.keys))
	for i, k := range s.keys {
		v := "n"
		if k.value != nil {
			v = vHex(k.value)
		}
		ks[i] = fmt.Sprintf("%d.%d=%s", k.db, k.key, v)
	}
	a, b := strings.Join(hs, ";"), strings.Join(ks, ";")
	if a == "" {
		a = "-"
	}
	if b == "" {
		b = "-"
	}
	return a + "|" + b
}

type vRNode struct {
	s      *SLock
	dbs    []*LockDB
	dir    string
	conn   *MemWaiterServerProtocol
	tq, eq []*LockQueue
	nreq   int
	result map[int]int
	now    int64
}

var vRLogSeq int

// vRStart: a real SLock over `dir` with `ndb` databases on a virtual clock at `now`; initLeader() = the real start-up
// (FindAofFiles, LoadAofFiles → LoadLock → AofChannel → HandleLoad → LockDB.Lock/UnLock, open the append file, compaction).
func vRStart(dir string, now int64, ndb int, bufSize, rewriteSize, aofTime uint) (*vRNode, error) {
	cfg := &ServerConfig{}
	parse := flags.NewParser(cfg, flags.Default)
	vRLogSeq++
	logf := filepath.Join(filepath.Dir(dir), "restart.log")
	if _, err := parse.ParseArgs([]string{"--data_dir", dir, "--db_concurrent", "1", "--db_fast_key_count", "64", "--log_level", "ERROR", "--log", logf,
		"--aof_file_buffer_size", fmt.Sprint(bufSize), "--aof_file_rewrite_size", fmt.Sprint(rewriteSize), "--db_lock_aof_time", fmt.Sprint(aofTime)}); err != nil {
		panic(err)
	}
	logger, _ := InitLogger(cfg)
	s := NewSLock(cfg, logger)
	s.state = STATE_CLOSE // the background loops of the databases created now exit immediately
	n := &vRNode{s: s, dir: dir, result: map[int]int{}, now: now}
	for i := 0; i < ndb; i++ {
		db := NewLockDB(s, uint8(i))
		s.dbs[i] = db
		n.dbs = append(n.dbs, db)
	}
	time.Sleep(40 * time.Millisecond)
	n.setClock(now)
	if err := s.initLeader(); err != nil {
		return n, err
	}
	// LoadAndInit waits with WaitFlushAofChannel, whose waiter is closed as soon as the count of ACTIVE channels touches zero —
	// which can happen while another database's channel has records queued but its goroutine has not woken up yet. The server
	// then finishes the replay a moment later; the harness must not look before that.
	n.settleLoad()
	n.setClock(now)
	n.waitRewrite()
	n.conn = NewMemWaiterServerProtocol(s)
	_ = n.conn.SetResultCallback(func(p *MemWaiterServerProtocol, cmd *protocol.LockCommand, result uint8, lcount uint16, lrcount uint8, data []byte) error {
		n.result[vRInt(cmd.RequestId)] = int(result)
		return nil
	})
	n.tq = make([]*LockQueue, 5)
	n.eq = make([]*LockQueue, 5)
	for j := 0; j < 5; j++ {
		n.tq[j] = NewLockQueue(4, 16, 1024)
		n.eq[j] = NewLockQueue(4, 16, 1024)
	}
	return n, nil
}

func (n *vRNode) setClock(now int64) {
	n.now = now
	for _, db := range n.dbs {
		db.currentTime = now
		db.checkTimeoutTime = now + 1
		db.checkExpriedTime = now + 1
	}
}

// clockOK: the harness still owns the clock (a background loop that escaped the parking would have overwritten it).
func (n *vRNode) clockOK() bool {
	for _, db := range n.dbs {
		if db.currentTime != n.now {
			return false
		}
	}
	return true
}

func (n *vRNode) tick() {
	n.now++
	for _, db := range n.dbs {
		now := db.currentTime + 1
		db.currentTime = now
		c := db.checkTimeoutTime
		db.checkTimeoutTime = now + 1
		for ; c <= now; c++ {
			db.checkTimeTimeOut(c, now, 0, n.tq)
		}
		c = db.checkExpriedTime
		db.checkExpriedTime = now + 1
		for ; c <= now; c++ {
			db.checkTimeExpried(c, now, 0, n.eq)
		}
	}
}

func (n *vRNode) waitRewrite() {
	time.Sleep(2 * time.Millisecond)
	for i := 0; i < 2000; i++ {
		n.s.aof.glock.Lock()
		r := n.s.aof.isRewriting
		n.s.aof.glock.Unlock()
		if !r {
			return
		}
		time.Sleep(time.Millisecond)
	}
}

// drain: every journal record pushed so far has been written and flushed; no compaction is running.
func (n *vRNode) drain() {
	aof := n.s.aof
	for i := 0; i < 400; i++ {
		done := make(chan struct{})
		go func() { _ = aof.WaitFlushAofChannel(); close(done) }()
		select {
		case <-done:
		case <-time.After(500 * time.Millisecond):
		}
		q := 0
		for _, ch := range aof.channels {
			ch.queueGlock.Lock()
			q += ch.queueCount
			ch.queueGlock.Unlock()
		}
		if q == 0 && atomic.LoadUint32(&aof.channelActiveCount) == 0 {
			break
		}
		time.Sleep(time.Millisecond)
	}
	aof.FlushWithLocked()
	n.waitRewrite()
	aof.FlushWithLocked()
}

func (n *vRNode) stop() {
	defer func() { _ = recover() }()
	n.drain()
	for _, db := range n.dbs {
		for _, ch := range db.aofChannels {
			if ch != nil {
				n.s.aof.CloseAofChannel(ch)
			}
		}
	}
	n.s.aof.aofGlock.Lock()
	if n.s.aof.aofFile != nil {
		_ = n.s.aof.aofFile.Close()
		n.s.aof.aofFile = nil
	}
	n.s.aof.aofGlock.Unlock()
}

type vRCmd struct {
	kind                                  byte // L U
	db, key, lockId                       int
	flag                                  int
	tflag, timeout, eflag, expried, count int
	rcount                                int
	data                                  *protocol.LockCommandData
}

func (n *vRNode) do(c vRCmd) int {
	cmd := n.conn.GetLockCommand()
	n.nreq++
	req := n.nreq
	cmd.RequestId = vRId(req)
	cmd.DbId = uint8(c.db)
	cmd.LockId = vRId(c.lockId)
	cmd.LockKey = vRId(c.key)
	cmd.Flag = uint8(c.flag)
	cmd.TimeoutFlag = uint16(c.tflag)
	cmd.Timeout = uint16(c.timeout)
	cmd.ExpriedFlag = uint16(c.eflag)
	cmd.Expried = uint16(c.expried)
	cmd.Count = uint16(c.count)
	cmd.Rcount = uint8(c.rcount)
	cmd.Data = nil
	if c.data != nil {
		cmd.Data = c.data
		cmd.Flag |= protocol.LOCK_FLAG_CONTAINS_DATA // same bit for UNLOCK_FLAG_CONTAINS_DATA
	}
	n.result[req] = -1
	if c.kind == 'L' {
		cmd.CommandType = protocol.COMMAND_LOCK
		_ = n.dbs[c.db].Lock(n.conn, cmd, 0)
	} else {
		cmd.CommandType = protocol.COMMAND_UNLOCK
		_ = n.dbs[c.db].UnLock(n.conn, cmd, 0)
	}
	return n.result[req]
}

func (n *vRNode) snapshot(keys [][2]int) *vRSnap {
	out := &vRSnap{}
	for _, dk := range keys {
		db := n.dbs[dk[0]]
		m := db.GetLockManager(&protocol.LockCommand{LockKey: vRId(dk[1])})
		if m == nil {
			continue
		}
		m.glock.Lock()
		if m.lockKey != vRId(dk[1]) {
			m.glock.Unlock()
			continue
		}
		seen := map[*Lock]bool{}
		add := func(l *Lock) {
			if l != nil && l.locked > 0 && l.command != nil && !seen[l] {
				seen[l] = true
				out.holds = append(out.holds, vRHold{db: dk[0], key: dk[1], lockId: vRInt(l.command.LockId), depth: int(l.locked), count: int(l.command.Count),
					rcount: int(l.command.Rcount), eflag: int(l.command.ExpriedFlag) & 0x4440, expried: int(l.command.Expried), tflag: int(l.command.TimeoutFlag) & 0x1010, deadline: l.expriedTime, isAof: l.isAof})
			}
		}
		add(m.currentLock)
		if m.locks != nil {
			for _, node := range m.locks.IterNodes() {
				for _, l := range node {
					add(l)
				}
			}
		}
		k := vRKey{db: dk[0], key: dk[1]}
		if m.currentData != nil {
			if d := m.currentData.GetData(); d != nil {
				k.value = append([]byte{}, d...)
			}
			k.valueAof = m.currentData.isAof
		}
		if m.locked > 0 || k.value != nil {
			out.keys = append(out.keys, k)
		}
		m.glock.Unlock()
	}
	sort.Slice(out.holds, func(i, j int) bool {
		a, b := out.holds[i].id(), out.holds[j].id()
		if a[0] != b[0] {
			return a[0] < b[0]
		}
		if a[1] != b[1] {
			return a[1] < b[1]
		}
		return a[2] < b[2]
	})
	return out
}

func vRCopyDir(src, dst string) {
	if err := os.MkdirAll(dst, 0755); err != nil {
		panic(err)
	}
	ents, err := os.ReadDir(src)
	if err != nil {
		panic(err)
	}
	for _, e := range ents {
		nm := e.Name()
		if e.IsDir() || !(strings.HasPrefix(nm, "append.aof.") || strings.HasPrefix(nm, "rewrite.aof")) {
			continue
		}
		in, err := os.Open(filepath.Join(src, nm))
		if err != nil {
			panic(err)
		}
		o, err := os.Create(filepath.Join(dst, nm))
		if err != nil {
			panic(err)
		}
		_, _ = io.Copy(o, in)
		_ = in.Close()
		_ = o.Close()
	}
}

// journal: the records of a directory in load order, decoded by the real reader (nothing filtered: expriedTime 0).
func (n *vRNode) journal(dir string, base int64) (string, int, int) {
	aof := n.s.aof
	save := aof.dataDir
	defer func() { aof.dataDir = save }()
	aof.dataDir = dir
	appendFiles, rewriteFile, err := aof.FindAofFiles()
	if err != nil {
		return "finderr", 0, 0
	}
	names := []string{}
	if rewriteFile != "" {
		names = append(names, rewriteFile)
	}
	names = append(names, appendFiles...)
	var toks []string
	nUpd := 0
	lerr, _ := aof.LoadAofFiles(names, 0, func(fn string, f *AofFile, l *AofLock, first bool) (bool, error) {
		k := "U"
		if l.CommandType == protocol.COMMAND_LOCK {
			k = "L"
		}
		v := "n"
		if l.data != nil {
			v = vHex(l.data)
		}
		if l.CommandType == protocol.COMMAND_LOCK && l.Flag&protocol.LOCK_FLAG_UPDATE_WHEN_LOCKED != 0 {
			nUpd++
		}
		toks = append(toks, fmt.Sprintf("%s.%d.%d.%d.%x.%x.%x.%d.%d.%d.%d.%s", k, l.DbId, vRInt(l.LockKey), vRInt(l.LockId), l.Flag, l.AofFlag, l.ExpriedFlag,
			l.ExpriedTime, int64(l.CommandTime)-base, l.Count, l.Rcount, v))
		return true, nil
	})
	if lerr != nil {
		toks = append(toks, "loaderr")
	}
	if len(toks) == 0 {
		return "-", 0, 0
	}
	return strings.Join(toks, ","), len(toks), nUpd
}

// ---- history generation ----------------------------------------------------------------------------------------------------

type vROp struct {
	cmd  *vRCmd
	tick int
}

type vRCase struct {
	name                       string
	rotate                     uint // > 0: aof_file_rewrite_size for the whole history (size-triggered rotation + background compaction IN the history)
	ndb                        int
	keys                       [][2]int
	ops                        []vROp
	duration                   int
	outage                     int
	bufSize, rewriteSize, aofT uint
	compact                    bool
	// two generations: after the first restart the history CONTINUES on the restarted instance (gen2, or generated from what the
	// restart restored when twoGen is set and gen2 is nil), then a second restart
	twoGen   bool
	gen2     []vROp
	gen2seed int64
	gen2wait bool
}

func vRGenData(r *rand.Rand) *protocol.LockCommandData {
	switch r.Intn(4) {
	case 0:
		return protocol.NewLockCommandDataSetString(fmt.Sprintf("v%d", r.Intn(100)))
	case 1:
		return protocol.NewLockCommandDataIncrData(int64(r.Intn(9) + 1))
	case 2:
		return protocol.NewLockCommandDataAppendString(fmt.Sprintf("a%d", r.Intn(10)))
	}
	return protocol.NewLockCommandDataSetString("s")
}

func vRGenCase(r *rand.Rand, it int) *vRCase {
	c := &vRCase{ndb: 2 + r.Intn(2)}
	c.bufSize = []uint{64, 128, 4096}[r.Intn(3)]
	// no size-triggered rotation during the history: a rotation starts a compaction, and loadRewriteAofFiles filters expired
	// records against the REAL time.Now(), which is far ahead of the virtual clock while the history is being replayed in the
	// virtual past. Compactions are run explicitly at the end of the history, where both clocks agree.
	c.rewriteSize = 67174400
	c.aofT = uint(r.Intn(3))
	c.compact = it%2 == 0
	if !c.compact {
		c.outage = []int{0, 1, 2, 5, 20, 59, 61, 90}[r.Intn(8)]
	}
	for d := 0; d < c.ndb; d++ {
		nk := 1 + r.Intn(2)
		for k := 0; k < nk; k++ {
			c.keys = append(c.keys, [2]int{d, 100*(d+1) + k})
		}
	}
	type held struct {
		eflag, expried, count, rcount, tflag int
	}
	heldBy := map[[3]int]*held{}
	nops := 12 + r.Intn(25)
	for i := 0; i < nops; i++ {
		dk := c.keys[r.Intn(len(c.keys))]
		id := 1 + r.Intn(3)
		hk := [3]int{dk[0], dk[1], id}
		h := heldBy[hk]
		pick := r.Intn(100)
		genTerms := func() (int, int) {
			eflag, e := 0, 0
			switch r.Intn(10) {
			case 0, 1, 2, 3:
				e = 3 + r.Intn(40)
			case 4:
				e = 200 + r.Intn(200)
			case 5, 6:
				eflag, e = protocol.EXPRIED_FLAG_MINUTE_TIME, 1+r.Intn(3)
			case 7, 8:
				eflag, e = protocol.EXPRIED_FLAG_UNLIMITED_EXPRIED_TIME, []int{0xffff, 5, 100}[r.Intn(3)]
			case 9:
				eflag, e = protocol.EXPRIED_FLAG_MILLISECOND_TIME, []int{9000, 30000, 60000}[r.Intn(3)]
			}
			switch r.Intn(20) {
			case 0, 1, 2, 3, 4, 5, 6, 7, 8:
				eflag |= protocol.EXPRIED_FLAG_ZEOR_AOF_TIME
			case 9, 10:
				eflag |= protocol.EXPRIED_FLAG_UNLIMITED_AOF_TIME
			case 11:
				eflag |= protocol.EXPRIED_FLAG_AOF_TIME_OF_EXPRIED_PARCENT
			}
			return eflag, e
		}
		switch {
		case pick < 25 || (h == nil && pick < 60):
			// new lock (or re-entrant re-lock of the same terms when already held)
			cmd := &vRCmd{kind: 'L', db: dk[0], key: dk[1], lockId: id}
			if h != nil {
				cmd.eflag, cmd.expried, cmd.count, cmd.rcount, cmd.tflag = h.eflag, h.expried, h.count, h.rcount, h.tflag
			} else {
				cmd.eflag, cmd.expried = genTerms()
				cmd.count = r.Intn(3)
				cmd.rcount = r.Intn(4)
				if r.Intn(5) == 0 {
					cmd.timeout = 1 + r.Intn(3)
				}
				if r.Intn(6) == 0 {
					// Rcount is a PRIORITY (no re-entrancy): journalled with AOF_FLAG_RCOUNT_IS_PRIORITY, restored by HandleLoad;
					// with a timeout it may wait (ordered by priority) and be granted — and journalled — later
					cmd.tflag = protocol.TIMEOUT_FLAG_RCOUNT_IS_PRIORITY
					if r.Intn(2) == 0 {
						cmd.timeout = 2 + r.Intn(6)
					}
				}
				heldBy[hk] = &held{cmd.eflag, cmd.expried, cmd.count, cmd.rcount, cmd.tflag}
			}
			if r.Intn(3) == 0 {
				cmd.data = vRGenData(r)
			}
			c.ops = append(c.ops, vROp{cmd: cmd})
		case pick < 45 && h != nil:
			// update when locked (flag 0x02): new expiry terms and/or count
			cmd := &vRCmd{kind: 'L', db: dk[0], key: dk[1], lockId: id, flag: protocol.LOCK_FLAG_UPDATE_WHEN_LOCKED}
			cmd.eflag, cmd.expried = genTerms()
			// not generated (engine semantics outside the journal's business): an update that switches a hold between the millisecond
			// wheel and the second wheel, and the "unlimited, Expried = 0xffff" update (= keep the current deadline)
			if (cmd.eflag^h.eflag)&protocol.EXPRIED_FLAG_MILLISECOND_TIME != 0 {
				cmd.eflag, cmd.expried = h.eflag, h.expried
			}
			if r.Intn(2) == 0 {
				// keep the unit, change the duration only
				cmd.eflag = h.eflag
				if h.eflag&0x4440 == 0 {
					cmd.expried = 5 + r.Intn(60)
				} else {
					cmd.expried = h.expried
				}
			}
			if cmd.eflag&protocol.EXPRIED_FLAG_UNLIMITED_EXPRIED_TIME != 0 && cmd.expried == 0xffff {
				cmd.expried = 100
			}
			cmd.count, cmd.rcount = h.count, h.rcount
			if r.Intn(3) == 0 {
				cmd.count = r.Intn(3)
			}
			if r.Intn(3) == 0 {
				cmd.data = vRGenData(r)
			}
			cmd.tflag = h.tflag
			*h = held{cmd.eflag, cmd.expried, cmd.count, cmd.rcount, cmd.tflag}
			c.ops = append(c.ops, vROp{cmd: cmd})
		case pick < 60 && h != nil:
			cmd := &vRCmd{kind: 'U', db: dk[0], key: dk[1], lockId: id, rcount: r.Intn(3)}
			if r.Intn(4) == 0 {
				cmd.data = vRGenData(r)
			}
			if cmd.rcount == 0 {
				delete(heldBy, hk)
			}
			c.ops = append(c.ops, vROp{cmd: cmd})
		default:
			t := 1 + r.Intn(4)
			if r.Intn(8) == 0 {
				t = 8 + r.Intn(40)
			}
			c.duration += t
			c.ops = append(c.ops, vROp{tick: t})
		}
	}
	// let the journalling back-off visit the young holds; age the last records
	t := 2 + r.Intn(6)
	c.duration += t
	c.ops = append(c.ops, vROp{tick: t})
	if it%4 == 1 {
		// (never a compaction case: it is odd) the history goes on after the restart — see runGen2
		c.twoGen = true
		c.gen2seed = r.Int63()
		c.gen2wait = r.Intn(5) == 0
		if c.outage > 5 {
			c.outage = []int{0, 1, 2, 5}[r.Intn(4)] // keep enough restored holds to work on
		}
		c.keys = append(c.keys, [2]int{0, 900}) // a key of generation 2 only
		sort.Slice(c.keys, func(i, j int) bool {
			return c.keys[i][0] < c.keys[j][0] || (c.keys[i][0] == c.keys[j][0] && c.keys[i][1] < c.keys[j][1])
		})
	}
	return c
}

func (o vROp) String() string {
	if o.cmd == nil {
		return fmt.Sprintf("T%d", o.tick)
	}
	c := o.cmd
	d := "n"
	if c.data != nil {
		d = vHex(c.data.Data)
	}
	return fmt.Sprintf("%c.%d.%d.%d.%x.%x.%d.%x.%d.%d.%d.%s", c.kind, c.db, c.key, c.lockId, c.flag, c.tflag, c.timeout, c.eflag, c.expried, c.count, c.rcount, d)
}

// ---- comparison ------------------------------------------------------------------------------------------------------------

type vRDiff struct {
	sig, what string
	id        [3]int
}

// compare: `want` = holds that must be there (already filtered), `forbidden` explains holds that must not be there.
func vRCompareHolds(prefix string, want []vRHold, got []vRHold, why func(h vRHold) string, maybe func(h vRHold) bool, checkDeadline bool) []vRDiff {
	var out []vRDiff
	gm := map[[3]int]vRHold{}
	for _, g := range got {
		gm[g.id()] = g
	}
	wm := map[[3]int]bool{}
	for _, w := range want {
		wm[w.id()] = true
		unit, ucls := vRUnit(w.eflag)
		g, ok := gm[w.id()]
		if !ok {
			if maybe != nil && maybe(w) {
				continue
			}
			out = append(out, vRDiff{prefix + ":restored-missing:" + ucls, fmt.Sprintf("hold db %d key %d LockId %d (depth %d, deadline %d) is not restored", w.db, w.key, w.lockId, w.depth, w.deadline), w.id()})
			continue
		}
		if g.depth != w.depth {
			out = append(out, vRDiff{prefix + ":depth-mismatch", fmt.Sprintf("hold db %d key %d LockId %d has depth %d after the restart, %d before", w.db, w.key, w.lockId, g.depth, w.depth), w.id()})
		}
		if g.count != w.count || g.rcount != w.rcount || g.tflag != w.tflag {
			out = append(out, vRDiff{prefix + ":count-mismatch", fmt.Sprintf("hold db %d key %d LockId %d has Count/Rcount/TimeoutFlag %d/%d/%x after the restart, %d/%d/%x before", w.db, w.key, w.lockId, g.count, g.rcount, g.tflag, w.count, w.rcount, w.tflag), w.id()})
		}
		if checkDeadline {
			if g.deadline == 0x7fffffffffffffff && w.deadline == 0x7fffffffffffffff {
				// both unlimited
			} else if (g.deadline == 0x7fffffffffffffff) != (w.deadline == 0x7fffffffffffffff) {
				out = append(out, vRDiff{prefix + ":deadline-renewed:" + ucls, fmt.Sprintf("hold db %d key %d LockId %d: limited/unlimited deadline changed (%d → %d)", w.db, w.key, w.lockId, w.deadline, g.deadline), w.id()})
			} else if g.deadline > w.deadline+unit+1 {
				out = append(out, vRDiff{prefix + ":deadline-renewed:" + ucls, fmt.Sprintf("hold db %d key %d LockId %d: deadline %d is restored as %d (%d s later)", w.db, w.key, w.lockId, w.deadline, g.deadline, g.deadline-w.deadline), w.id()})
			} else if g.deadline < w.deadline-unit-1 {
				out = append(out, vRDiff{prefix + ":deadline-early:" + ucls, fmt.Sprintf("hold db %d key %d LockId %d: deadline %d is restored as %d (%d s earlier)", w.db, w.key, w.lockId, w.deadline, g.deadline, w.deadline-g.deadline), w.id()})
			}
		}
	}
	for _, g := range got {
		if !wm[g.id()] {
			if maybe != nil && maybe(g) {
				continue
			}
			out = append(out, vRDiff{prefix + ":restored-extra:" + why(g), fmt.Sprintf("hold db %d key %d LockId %d (depth %d, deadline %d) exists after the restart but must not", g.db, g.key, g.lockId, g.depth, g.deadline), g.id()})
		}
	}
	return out
}

type vREnv struct {
	out, jout, rout *vOut
	root            string
	stats           map[string]int
	nmon            map[string]int
	rseq            int
	curName         string
}

func (e *vREnv) monitor(sig, what string, replay interface{}) {
	if strings.HasPrefix(e.curName, "pass-") && sig != "C07:replay:?" {
		// a must-pass corpus line (a repaired finding, or a scenario that has to work): whatever fires here is a regression,
		// even if the same signature is a recorded finding elsewhere
		parts := strings.SplitN(sig, ":", 2)
		sig = parts[0] + ":regression:" + e.curName + ":" + parts[1]
	}
	e.nmon[sig]++
	limit := 3
	if sig == "C07:replay:?" {
		limit = 60 // classified afterwards (by the model's first-differing-record class); keep enough of them
	}
	if e.nmon[sig] <= limit {
		e.out.monitor(sig, what, replay)
	}
}

// restartPinned: a FRESH SLock on a FRESH copy of src (a start-up compacts the directory it loads), with the load pinned to ONE
// real second: LoadAndInit / loadRewriteAofFiles read time.Now() themselves, so a load during which the wall second changed is
// thrown away and repeated. Returns the snapshot, the second, and "ok" | "err" | "clock".
func (e *vREnv) restartPinned(src string, c *vRCase) (*vRSnap, int64, string) {
	for attempt := 0; attempt < 6; attempt++ {
		e.rseq++
		d := filepath.Join(filepath.Dir(src), fmt.Sprintf("r%d", e.rseq))
		vRCopyDir(src, d)
		now := time.Now().Unix()
		m, err := vRStart(d, now, c.ndb, c.bufSize, 67174400, c.aofT)
		same := time.Now().Unix() == now
		if err != nil {
			m.stop()
			if !same {
				continue
			}
			return nil, now, "err"
		}
		sn := m.snapshot(c.keys)
		ok := m.clockOK()
		m.stop()
		_ = os.RemoveAll(d)
		if !ok {
			return nil, now, "clock"
		}
		if !same {
			e.stats["second-boundary-retries"]++
			continue
		}
		return sn, now, "ok"
	}
	return nil, 0, "clock"
}

// replayCheck: the holds a restart built (sn, at second now) against what the journal means, minus the holds that expired during
// the outage; true deadlines are taken from the database that wrote the journal where it still had the hold. Differences are
// reported as "C07:replay:?" — the check script replaces "?" by the model's class of the first record of that key that the
// restart treats differently (reload vs recover), or "other".
func (e *vREnv) replayCheck(recs []vRRec, sn *vRSnap, now, base int64, line int, origBy map[[3]int]vRHold, skipKeys map[[2]int]bool, replay map[string]interface{}) map[[2]int]bool {
	ideal := vRRecover(recs, base)
	var want []vRHold
	for _, h := range ideal.list() {
		if o, ok := origBy[h.id()]; ok && o.isAof && o.eflag == h.eflag && o.depth == h.depth {
			h.deadline = o.deadline // the journal's deadline is an upper estimate for minute / millisecond holds
		}
		if h.deadline == 0x7fffffffffffffff || h.deadline > now {
			want = append(want, h)
		}
	}
	wantBy := map[[3]int]vRHold{}
	for _, h := range want {
		wantBy[h.id()] = h
	}
	near := func(h vRHold) bool {
		// a hold with at most one unit + 2 s to live at the restart may legitimately be restored or not
		o, ok := wantBy[h.id()]
		if !ok {
			if x, ok2 := ideal.holds[h.id()]; ok2 {
				o = *x
			} else {
				return false
			}
		}
		unit, _ := vRUnit(o.eflag)
		return o.deadline != 0x7fffffffffffffff && o.deadline >= now-unit-2 && o.deadline <= now+unit+2
	}
	bad := map[[2]int]bool{}
	for _, d := range vRCompareHolds("R", want, sn.holds, func(vRHold) string { return "x" }, near, true) {
		if skipKeys[[2]int{d.id[0], d.id[1]}] {
			continue // the journal itself does not describe this key (reported on the journal side)
		}
		what := strings.Split(d.sig, ":")[1]
		eflag := 0
		if o, ok := ideal.holds[d.id]; ok {
			eflag = o.eflag
		} else {
			for _, g := range sn.holds {
				if g.id() == d.id {
					eflag = g.eflag
				}
			}
		}
		_, ucls := vRUnit(eflag)
		bad[[2]int{d.id[0], d.id[1]}] = true
		sig := "C07:replay:?"
		if ucls == "milliseconds" && (what == "deadline-renewed" || what == "restored-extra") {
			sig = "C07:deadline-renewed:milliseconds" // recorded finding F5: the record keeps the original duration
		}
		rp := map[string]interface{}{"reloadLine": line, "db": d.id[0], "key": d.id[1], "effect": what}
		for k, v := range replay {
			rp[k] = v
		}
		e.monitor(sig, "journal vs restart ("+what+"): "+d.what, rp)
	}
	vals := map[[2]int]string{}
	for _, k := range sn.keys {
		if k.value != nil {
			vals[[2]int{k.db, k.key}] = vHex(k.value)
		}
	}
	for k, iv := range ideal.values {
		keep := false
		for _, h := range want {
			if h.db == k[0] && h.key == k[1] && !near(h) {
				keep = true
			}
		}
		if keep && !bad[k] && !skipKeys[k] && vals[k] != iv {
			bad[k] = true
			rp := map[string]interface{}{"reloadLine": line, "db": k[0], "key": k[1], "effect": "value-mismatch"}
			for kk, v := range replay {
				rp[kk] = v
			}
			e.monitor("C07:replay:?", fmt.Sprintf("journal vs restart (value-mismatch): db %d key %d: the journal describes value %s, the restart restores %q", k[0], k[1], iv, vals[k]), rp)
		}
	}
	return bad
}

func (e *vREnv) runCase(it int, c *vRCase) {
	stats := e.stats
	e.curName = c.name
	dir := filepath.Join(e.root, fmt.Sprintf("c%d", it))
	_ = os.Mkdir(dir, 0755)
	defer func() {
		if os.Getenv("VERIF_KEEP_DIRS") == "" {
			_ = os.RemoveAll(dir)
		}
	}()
	odir := filepath.Join(dir, "orig")
	_ = os.Mkdir(odir, 0755)
	base := time.Now().Unix() - int64(c.outage) - int64(c.duration) - 1
	n, err := vRStart(odir, base, c.ndb, c.bufSize, c.rewriteSize, c.aofT)
	if err != nil {
		panic(err)
	}
	opstr := make([]string, len(c.ops))
	for i, o := range c.ops {
		opstr[i] = o.String()
		if c.rotate > 0 {
			// rotation cases run entirely at virtual clock = real clock (no ticks of their own): the background compaction a rotation
			// starts filters expired records against time.Now()
			for n.now < time.Now().Unix() {
				n.tick()
			}
		}
		if o.cmd != nil {
			n.do(*o.cmd)
			if o.cmd.eflag&protocol.EXPRIED_FLAG_MILLISECOND_TIME != 0 {
				time.Sleep(3 * time.Millisecond) // the millisecond wheel hands the hold to the second wheel from its own goroutine
			}
		} else {
			for k := 0; k < o.tick; k++ {
				n.tick()
			}
		}
		if c.rotate > 0 {
			n.drainQuick() // the record is written, a rotation has happened, its compaction goroutine has finished
		}
	}
	history := strings.Join(opstr, " ")
	// the original node stops at  real now − outage; for a compaction (outage 0) the snapshot, the journal copy and the compaction
	// itself must fall into ONE real second (the compaction filters expired records against time.Now())
	var orig *vRSnap
	var tEnd int64
	var dirA, jA, dirB, jB, keepDbg string
	compactOK := false
	for attempt := 0; attempt < 5; attempt++ {
		for n.now < time.Now().Unix()-int64(c.outage) {
			n.tick()
		}
		n.drain()
		orig = n.snapshot(c.keys)
		tEnd = n.now
		dirA = filepath.Join(dir, fmt.Sprintf("a%d", attempt))
		vRCopyDir(odir, dirA)
		var nrec, nupd int
		jA, nrec, nupd = n.journal(dirA, base)
		if !c.compact {
			stats["records"] += nrec
			stats["update-flag-records"] += nupd
			break
		}
		if time.Now().Unix() != n.now {
			continue
		}
		keepDbg = n.debugKeep(dirA, base)
		// a REAL compaction on the live node (rotate, read the older files, keep-rule against the live database, write
		// rewrite.aof.tmp, clear, rename)
		n.s.aof.aofGlock.Lock()
		_ = n.s.aof.RewriteAofFile(false)
		n.s.aof.aofGlock.Unlock()
		n.s.aof.rewriteAofFiles()
		compactOK = time.Now().Unix() == n.now
		n.drain()
		dirB = filepath.Join(dir, "b")
		vRCopyDir(odir, dirB)
		jB, _, _ = n.journal(dirB, base)
		stats["records"] += nrec
		stats["update-flag-records"] += nupd
		stats["compactions"]++
		if !compactOK {
			stats["compaction-crossed-a-second"]++
		}
		break
	}
	if !n.clockOK() {
		stats["clock-escaped"]++
		n.stop()
		return
	}
	n.stop()
	if c.compact && dirB == "" {
		stats["compaction-never-in-one-second"]++
	}

	snA, nowA, stA := e.restartPinned(dirA, c)
	if stA == "clock" {
		stats["clock-escaped"]++
		return
	}
	op := fmt.Sprintf("restart %d %d %d %s", base, nowA-base, c.bufSize, jA)
	replay := map[string]interface{}{"history": history, "base": base, "end": tEnd - base, "restartAt": nowA - base, "journal": jA,
		"original": orig.String(base, true), "cfg": fmt.Sprintf("buf=%d aofTime=%d dbs=%d outage=%d compact=%v", c.bufSize, c.aofT, c.ndb, c.outage, c.compact), "corpus": c.name}
	if stA == "err" {
		e.out.emit(op, "err")
		e.monitor("C07:restart-fails", "the start-up on an un-cut directory written by the server itself fails", replay)
		return
	}
	e.out.emit(op, snA.String(base, false))
	if c.rotate > 0 {
		stats["rotation-cases"]++
		if ents, err := os.ReadDir(dirA); err == nil {
			for _, en := range ents {
				var idx int
				if _, err := fmt.Sscanf(en.Name(), "append.aof.%d", &idx); err == nil && !strings.HasSuffix(en.Name(), ".dat") && idx > 1 {
					if idx-1 > stats["max-rotations-in-a-case"] {
						stats["max-rotations-in-a-case"] = idx - 1
					}
				}
			}
		}
	}
	// byte level: every record with the has-value flag has its frame in the .dat of ITS OWN file, and nothing else is there
	if bad := vRCheckPairing(dirA); bad != "" {
		e.monitor("C16:rotation:record-and-value-in-different-files", "a record file and its value file do not pair: "+bad,
			map[string]interface{}{"history": history, "cfg": fmt.Sprintf("buf=%d aofTime=%d rotate=%d", c.bufSize, c.aofT, c.rotate), "corpus": c.name, "journal": jA})
	}
	lineA := e.rout.n
	e.rout.emit(fmt.Sprintf("aofreload %d %s", nowA-base, jA), snA.String(base, false))
	replay["restored"] = snA.String(base, false)
	stats["cases"]++
	if c.name != "" {
		stats["corpus-cases"]++
	}
	stats["holds-original"] += len(orig.holds)
	stats["holds-restored"] += len(snA.holds)
	// ---- the journal, read as a specification (vRRecover)
	recsA := vRParseJournal(jA)
	for _, rc := range recsA {
		if rc.aofFlag&AOF_FLAG_RCOUNT_IS_PRIORITY != 0 {
			stats["priority-records"]++
		}
	}
	ideal := vRRecover(recsA, base)
	e.jout.emit("aofjournal "+jA, ideal.String(base))
	replay["journalMeans"] = ideal.String(base)
	origBy := map[[3]int]vRHold{}
	var origAof []vRHold
	for _, h := range orig.holds {
		origBy[h.id()] = h
		if h.isAof {
			origAof = append(origAof, h)
		}
	}
	// ---- C07 (journal side): the journal describes exactly the journalled holds of the database at the moment it stopped
	nearEnd := func(h vRHold) bool {
		unit, _ := vRUnit(h.eflag)
		return h.deadline != 0x7fffffffffffffff && h.deadline <= tEnd+unit+2
	}
	badJ := map[[2]int]bool{}
	for _, d := range vRCompareHolds("J", origAof, ideal.list(), func(vRHold) string { return "x" }, nearEnd, true) {
		what := strings.Split(d.sig, ":")[1]
		o := origBy[d.id]
		_, ucls := vRUnit(o.eflag)
		switch what {
		case "restored-missing":
			what = "hold-missing"
		case "restored-extra":
			what = "hold-extra"
		case "deadline-renewed", "deadline-early":
			if ucls == "milliseconds" {
				continue // the record of a millisecond hold does not determine its deadline (it stores the duration)
			}
			what = "deadline-mismatch:" + ucls
		}
		if c.rotate > 0 {
			// the histories of the rotation cases cannot meet the recorded journal / compaction classes (one live hold per key, no
			// expiring or superseded level records): a journal that does not describe the database is the rotation's doing
			e.monitor("C16:rotation:journal-differs", "journal (rotated and compacted in the history) vs database at stop ("+what+"): "+d.what, replay)
		} else {
			e.monitor("C07:journal:"+vRJournalCause(recsA, d.id), "journal vs database at stop ("+what+"): "+d.what, replay)
		}
		badJ[[2]int{d.id[0], d.id[1]}] = true
	}
	for _, k := range orig.keys {
		has := false
		for _, h := range origAof {
			if h.db == k.db && h.key == k.key {
				has = true
			}
		}
		if iv, ok := ideal.values[[2]int{k.db, k.key}]; has && !badJ[[2]int{k.db, k.key}] && k.valueAof && (!ok || iv != vHex(k.value)) {
			if c.rotate > 0 {
				e.monitor("C16:rotation:journal-differs", fmt.Sprintf("(value) db %d key %d: the database holds value %s, the rotated journal describes %q", k.db, k.key, vHex(k.value), iv), replay)
			} else {
				e.monitor("C07:journal:value-mismatch", fmt.Sprintf("db %d key %d: the database holds value %s, the journal describes %q", k.db, k.key, vHex(k.value), iv), replay)
			}
		}
	}
	// ---- C07 (replay side)
	bad := e.replayCheck(recsA, snA, nowA, base, lineA, origBy, badJ, replay)

	// ---- generation 2
	if c.twoGen {
		skip := map[[2]int]bool{}
		for k := range bad {
			skip[k] = true
		}
		for k := range badJ {
			skip[k] = true
		}
		e.runGen2(dir, dirA, base, c, history, skip)
	}

	// ---- C16
	if dirB == "" {
		return
	}
	recsB := vRParseJournal(jB)
	idealB := vRRecover(recsB, base)
	// both recoveries in the SAME real second
	var snB *vRSnap
	var nowB int64
	stB := "clock"
	for attempt := 0; attempt < 4; attempt++ {
		snB, nowB, stB = e.restartPinned(dirB, c)
		if stB != "ok" || nowB == nowA {
			break
		}
		var st string
		snA, nowA, st = e.restartPinned(dirA, c)
		if st != "ok" {
			stB = "clock"
			break
		}
		if nowA == nowB {
			break
		}
		stB = "clock"
	}
	if stB == "clock" {
		stats["clock-escaped"]++
		return
	}
	replay2 := map[string]interface{}{"history": history, "base": base, "end": tEnd - base, "journalBefore": jA, "journalAfter": jB,
		"original": orig.String(base, true), "recoveredBefore": snA.String(base, false), "restartAt": nowB - base, "keepDecisionsBeforeCompaction": keepDbg, "corpus": c.name}
	if stB == "err" {
		e.monitor("C16:compaction-startup-fails", "the start-up on the directory a complete compaction left fails", replay2)
		return
	}
	replay2["recoveredAfter"] = snB.String(base, false)
	lineB := e.rout.n
	e.rout.emit(fmt.Sprintf("aofreload %d %s", nowB-base, jB), snB.String(base, false))
	rpB := map[string]interface{}{"history": history, "base": base, "restartAt": nowB - base, "journal": jB, "restored": snB.String(base, false), "afterCompaction": true, "corpus": c.name}
	// (the journal after the compaction is judged on its own — see below, after the keys whose MEANING the compaction changed are known)
	nearB := func(h vRHold) bool {
		unit, _ := vRUnit(h.eflag)
		return h.deadline != 0x7fffffffffffffff && h.deadline <= nowB+unit+2
	}
	// which records of a hold did the compaction drop, and did one of them carry the hold's LIVE terms?
	type rk struct {
		kind            byte
		ct              int64
		stored, fl, afl int
	}
	dropCause := func(id [3]int) string {
		after := map[rk]int{}
		for _, r := range recsB {
			if [3]int{r.db, r.key, r.id} == id {
				after[rk{r.kind, r.ct, r.stored, r.flag, r.aofFlag &^ 1}]++
			}
		}
		dropped, expired, live, prio := 0, 0, false, false
		o, okO := origBy[id]
		for _, r := range recsA {
			if [3]int{r.db, r.key, r.id} != id {
				continue
			}
			k := rk{r.kind, r.ct, r.stored, r.flag, r.aofFlag &^ 1}
			if after[k] > 0 {
				after[k]--
				continue
			}
			dropped++
			if r.dead(tEnd - base) {
				expired++
				continue
			}
			if r.kind == 'L' && okO && r.count == o.count && r.rcount == o.rcount && r.eflag&0x4440 == o.eflag {
				unit, _ := vRUnit(o.eflag)
				rd := r.deadline()
				if rd != 0x7fffffffffffffff {
					rd += base
				}
				if rd == o.deadline || (rd != 0x7fffffffffffffff && o.deadline != 0x7fffffffffffffff && rd-o.deadline <= unit+1 && o.deadline-rd <= unit+1) {
					live = true
					if r.flag&protocol.LOCK_FLAG_UPDATE_WHEN_LOCKED != 0 && r.aofFlag&AOF_FLAG_RCOUNT_IS_PRIORITY != 0 {
						prio = true
					}
				}
			}
		}
		switch {
		case prio:
			// the command the compaction compares with carries no TimeoutFlag: checkLockedCountEqual sees "priority flag differs"
			return "priority-update-record-dropped"
		case live:
			return "live-record-dropped"
		case expired > 0:
			return "expired-level-record-dropped"
		case dropped > 0:
			return "superseded-level-record-dropped"
		}
		return "no-record-dropped"
	}
	badB := map[[2]int]bool{}
	// (1) the MEANING of the journal (vRRecover) before and after the compaction, holds alive now. A compaction during which the
	// wall second changed is not judged (its own expired-record filter may have used either second).
	alive := func(st *vRIdeal) []vRHold {
		var o []vRHold
		for _, h := range st.list() {
			if h.deadline == 0x7fffffffffffffff || h.deadline > nowB {
				o = append(o, h)
			}
		}
		return o
	}
	replay2["journalMeansBefore"], replay2["journalMeansAfter"] = ideal.String(base), idealB.String(base)
	for _, d := range vRCompareHolds("C16", alive(ideal), alive(idealB), func(vRHold) string { return "x" }, nearB, true) {
		badB[[2]int{d.id[0], d.id[1]}] = true
	}
	if compactOK {
		for _, d := range vRCompareHolds("C16", alive(ideal), alive(idealB), func(vRHold) string { return "x" }, nearB, true) {
			what := strings.Split(d.sig, ":")[1]
			switch what {
			case "restored-missing":
				what = "drops-live-hold"
			case "restored-extra":
				what = "resurrects-hold"
			default:
				what = "changes-hold:" + what
			}
			badB[[2]int{d.id[0], d.id[1]}] = true
			e.monitor("C16:compaction:"+dropCause(d.id), "meaning of the journal before vs after the compaction ("+what+"): "+d.what, replay2)
		}
		for k, v := range ideal.values {
			held := false
			for _, h := range alive(idealB) {
				if h.db == k[0] && h.key == k[1] && !nearB(h) {
					held = true
				}
			}
			if held && !badB[k] && idealB.values[k] != v {
				badB[k] = true
				e.monitor("C16:compaction:value-record-dropped", fmt.Sprintf("(value) db %d key %d: the journal describes value %s before the compaction, %q after", k[0], k[1], v, idealB.values[k]), replay2)
			}
		}
	}
	// the journal after the compaction, judged on its own (the database's deadlines belong to the journal before it) — on the keys
	// whose meaning the compaction kept: where it dropped a record of a hold's history (reported above, by cause) what is left is a
	// journal no engine writes (e.g. the levels of an earlier incarnation of a LockId without the UNLOCK between them and the next
	// LOCK), and how a restart reads THAT is not a question about the replay
	skipB := map[[2]int]bool{}
	for k := range badJ {
		skipB[k] = true
	}
	for k := range badB {
		skipB[k] = true
	}
	_ = e.replayCheck(recsB, snB, nowB, base, lineB, map[[3]int]vRHold{}, skipB, rpB)
	// (2) the real recovery of both directories (same real second), on the keys where the recovery of the ORIGINAL files is what
	// the journal means. A difference is reported only when a second pair of fresh recoveries shows it again.
	abDiffs := func(a, b *vRSnap) map[string]vRDiff {
		m := map[string]vRDiff{}
		for _, d := range vRCompareHolds("C16", a.holds, b.holds, func(vRHold) string { return "x" }, nearB, true) {
			if bad[[2]int{d.id[0], d.id[1]}] || badB[[2]int{d.id[0], d.id[1]}] {
				continue
			}
			m[fmt.Sprint(d.sig, d.id)] = d
		}
		valsB := map[[2]int]string{}
		for _, k := range b.keys {
			if k.value != nil {
				valsB[[2]int{k.db, k.key}] = vHex(k.value)
			}
		}
		for _, k := range a.keys {
			kk := [2]int{k.db, k.key}
			held := false
			for _, h := range b.holds {
				if h.db == k.db && h.key == k.key && !nearB(h) {
					held = true
				}
			}
			if held && !badB[kk] && !bad[kk] && k.value != nil && valsB[kk] != vHex(k.value) {
				m[fmt.Sprint("value", kk)] = vRDiff{"C16:value", fmt.Sprintf("(value) db %d key %d: value %s recovered before the compaction, %q after", k.db, k.key, vHex(k.value), valsB[kk]), [3]int{k.db, k.key, 0}}
			}
		}
		return m
	}
	d1 := abDiffs(snA, snB)
	if len(d1) > 0 {
		a2, na2, s1 := e.restartPinned(dirA, c)
		b2, nb2, s2 := e.restartPinned(dirB, c)
		if s1 == "ok" && s2 == "ok" && na2 == nb2 {
			d2 := abDiffs(a2, b2)
			for k, d := range d1 {
				if _, again := d2[k]; !again {
					stats["ab-difference-not-reproduced"]++
					continue
				}
				what := strings.Split(d.sig, ":")[1]
				cause := dropCause(d.id)
				if cause == "no-record-dropped" {
					// the hold's own records were kept: a dropped record of ANOTHER hold of the key (e.g. the update that raised the
					// holder's Count) changes the admission of this one
					for id := range ideal.nrec {
						if id[0] == d.id[0] && id[1] == d.id[1] && id != d.id {
							if c2 := dropCause(id); c2 != "no-record-dropped" {
								cause = c2
							}
						}
					}
				}
				if what == "value" {
					cause = "value-record-dropped"
				}
				e.monitor("C16:compaction:"+cause, "recover(before compaction) vs recover(after), twice ("+what+"): "+d.what, replay2)
			}
		} else {
			stats["ab-difference-not-rechecked"]++
		}
	}
}

func init() {
	vModes["restart"] = func(t *testing.T) {
		r := rand.New(rand.NewSource(int64(vEnvInt("VERIF_SEED", 1))))
		ncase := vEnvInt("VERIF_N", 20)
		out := vOpen("restart")
		defer out.close()
		jout := vOpen("aofjournal")
		defer jout.close()
		rout := vOpen("aofreload")
		defer rout.close()
		base0 := os.Getenv("VERIF_DATA")
		if base0 == "" {
			panic("VERIF_DATA must be set (scratch dir)")
		}
		root, err := os.MkdirTemp(base0, "restart")
		if err != nil {
			panic(err)
		}
		if os.Getenv("VERIF_KEEP_DIRS") == "" {
			defer os.RemoveAll(root)
		}
		e := &vREnv{out: out, jout: jout, rout: rout, root: root, stats: map[string]int{}, nmon: map[string]int{}}
		corpus := vRLoadCorpus(os.Getenv("VERIF_CORPUS"))
		for it, c := range corpus {
			e.runCase(it, c)
		}
		for it := 0; it < ncase; it++ {
			if it%4 == 3 {
				e.runCase(len(corpus)+it, vRGenRotateCase(r))
			} else {
				e.runCase(len(corpus)+it, vRGenCase(r, it))
			}
		}
		ks := []string{}
		for k := range e.stats {
			ks = append(ks, k)
		}
		sort.Strings(ks)
		parts := []string{}
		for _, k := range ks {
			parts = append(parts, fmt.Sprintf("%s=%d", k, e.stats[k]))
		}
		_ = os.WriteFile(filepath.Join(os.Getenv("VERIF_OUT"), "restart.stats"), []byte(strings.Join(parts, " ")+"\n"), 0644)
	}
}

// ---- corpus: hand-minimised histories, one per line:   <name> ndb=<n> buf=<b> aoft=<t> outage=<s> compact=<0|1> | <op> <op> …
// ops in the syntax of vROp.String():  T<seconds>   or   <L|U>.<db>.<key>.<lockId>.<flag>.<tflag>.<timeout>.<eflag>.<expried>.<count>.<rcount>.<datahex|n>

func vRParseOp(tok string) (vROp, bool) {
	if strings.HasPrefix(tok, "T") {
		var t int
		if _, err := fmt.Sscanf(tok[1:], "%d", &t); err != nil {
			return vROp{}, false
		}
		return vROp{tick: t}, true
	}
	f := strings.Split(tok, ".")
	if len(f) != 12 || (f[0] != "L" && f[0] != "U") {
		return vROp{}, false
	}
	c := &vRCmd{kind: f[0][0]}
	fmt.Sscanf(f[1], "%d", &c.db)
	fmt.Sscanf(f[2], "%d", &c.key)
	fmt.Sscanf(f[3], "%d", &c.lockId)
	fmt.Sscanf(f[4], "%x", &c.flag)
	fmt.Sscanf(f[5], "%x", &c.tflag)
	fmt.Sscanf(f[6], "%d", &c.timeout)
	fmt.Sscanf(f[7], "%x", &c.eflag)
	fmt.Sscanf(f[8], "%d", &c.expried)
	fmt.Sscanf(f[9], "%d", &c.count)
	fmt.Sscanf(f[10], "%d", &c.rcount)
	if f[11] != "n" {
		var b []byte
		fmt.Sscanf(f[11], "%x", &b)
		c.data = protocol.NewLockCommandDataFromOriginBytes(b)
	}
	return vROp{cmd: c}, true
}

func vRLoadCorpus(path string) []*vRCase {
	if path == "" {
		return nil
	}
	raw, err := os.ReadFile(path)
	if err != nil {
		panic(err)
	}
	var out []*vRCase
	for _, line := range strings.Split(string(raw), "\n") {
		line = strings.TrimSpace(line)
		if line == "" || strings.HasPrefix(line, "#") {
			continue
		}
		hd := strings.SplitN(line, "|", 2)
		if len(hd) != 2 {
			panic("corpus line without '|': " + line)
		}
		c := &vRCase{rewriteSize: 67174400, bufSize: 4096, ndb: 1}
		for i, tok := range strings.Fields(hd[0]) {
			if i == 0 {
				c.name = tok
				continue
			}
			kv := strings.SplitN(tok, "=", 2)
			var v int
			fmt.Sscanf(kv[1], "%d", &v)
			switch kv[0] {
			case "ndb":
				c.ndb = v
			case "buf":
				c.bufSize = uint(v)
			case "aoft":
				c.aofT = uint(v)
			case "outage":
				c.outage = v
			case "compact":
				c.compact = v != 0
			case "rotate":
				c.rotate = uint(v)
				c.rewriteSize = uint(v)
			}
		}
		seen := map[[2]int]bool{}
		for _, tok := range strings.Fields(hd[1]) {
			if tok == "R" {
				// generation boundary: restart here, the remaining operations run on the restarted instance (T<n> = wait n REAL seconds)
				c.twoGen = true
				c.gen2 = []vROp{}
				continue
			}
			o, ok := vRParseOp(tok)
			if !ok {
				panic("corpus: bad op " + tok)
			}
			if o.cmd == nil {
				if !c.twoGen {
					c.duration += o.tick
				}
			} else {
				if o.cmd.db >= c.ndb {
					c.ndb = o.cmd.db + 1
				}
				if k := [2]int{o.cmd.db, o.cmd.key}; !seen[k] {
					seen[k] = true
					c.keys = append(c.keys, k)
				}
			}
			if c.twoGen {
				c.gen2 = append(c.gen2, o)
			} else {
				c.ops = append(c.ops, o)
			}
		}
		sort.Slice(c.keys, func(i, j int) bool {
			return c.keys[i][0] < c.keys[j][0] || (c.keys[i][0] == c.keys[j][0] && c.keys[i][1] < c.keys[j][1])
		})
		out = append(out, c)
	}
	return out
}

// waitRewriteIfRotated: a rotation during the history starts a compaction goroutine; let it finish before the next operation so
// that histories are reproducible.
func (n *vRNode) waitRewriteIfRotated() {
	aof := n.s.aof
	aof.aofGlock.Lock()
	idx := aof.aofFileIndex
	aof.aofGlock.Unlock()
	if idx > 1 {
		n.drainQuick()
	}
}

// settleLoad: every AofChannel queue is empty and no channel is active, observed twice in a row.
func (n *vRNode) settleLoad() {
	aof := n.s.aof
	quiet := 0
	for i := 0; i < 4000 && quiet < 2; i++ {
		q := 0
		for _, ch := range aof.channels {
			ch.queueGlock.Lock()
			q += ch.queueCount
			ch.queueGlock.Unlock()
		}
		if q == 0 && atomic.LoadUint32(&aof.channelActiveCount) == 0 {
			quiet++
		} else {
			quiet = 0
		}
		time.Sleep(300 * time.Microsecond)
	}
}

func (n *vRNode) drainQuick() {
	aof := n.s.aof
	for i := 0; i < 200; i++ {
		q := 0
		for _, ch := range aof.channels {
			ch.queueGlock.Lock()
			q += ch.queueCount
			ch.queueGlock.Unlock()
		}
		if q == 0 && atomic.LoadUint32(&aof.channelActiveCount) == 0 {
			break
		}
		time.Sleep(200 * time.Microsecond)
	}
	n.waitRewrite()
}

// journalVia: decode a directory with this (stopped) node's reader — only the reader functions are used.
func (n *vRNode) journalVia(dir string, base int64) (string, int, int) {
	return n.journal(dir, base)
}

// vRPartiallyFiltered: the holds (db,key,LockId) whose journal records are only PARTLY dropped by LoadAofFile's expired-record
// filter at second nowRel (some records of the hold's history are replayed, others are not).
func vRPartiallyFiltered(journal string, nowRel int64) map[[3]int]bool {
	type cnt struct{ skipped, kept int }
	m := map[[3]int]*cnt{}
	if journal == "-" {
		return nil
	}
	for _, tok := range strings.Split(journal, ",") {
		f := strings.Split(tok, ".")
		if len(f) < 12 {
			continue
		}
		var db, key, id, eflag, stored int
		var ct int64
		fmt.Sscanf(f[1], "%d", &db)
		fmt.Sscanf(f[2], "%d", &key)
		fmt.Sscanf(f[3], "%d", &id)
		fmt.Sscanf(f[6], "%x", &eflag)
		fmt.Sscanf(f[7], "%d", &stored)
		fmt.Sscanf(f[8], "%d", &ct)
		sk := false
		switch {
		case eflag&protocol.EXPRIED_FLAG_MILLISECOND_TIME != 0:
			sk = ct+int64(stored)/1000 <= nowRel
		case eflag&protocol.EXPRIED_FLAG_MINUTE_TIME != 0:
			sk = ct+int64(stored)*60 <= nowRel
		case eflag&protocol.EXPRIED_FLAG_UNLIMITED_EXPRIED_TIME == 0:
			sk = stored > 0 && ct+int64(stored) <= nowRel
		}
		c := m[[3]int{db, key, id}]
		if c == nil {
			c = &cnt{}
			m[[3]int{db, key, id}] = c
		}
		if sk {
			c.skipped++
		} else {
			c.kept++
		}
	}
	out := map[[3]int]bool{}
	for k, c := range m {
		if c.skipped > 0 && c.kept > 0 {
			out[k] = true
		}
	}
	return out
}

// debugKeep: the keep decision of the compaction callback (same calls, real HasLock) for every record of dir — goes into the
// replay object of the C16 monitors so that a dropped record can be explained.
func (n *vRNode) debugKeep(dir string, base int64) string {
	var outp []string
	aof := n.s.aof
	save := aof.dataDir
	defer func() { aof.dataDir = save }()
	aof.dataDir = dir
	appendFiles, rewriteFile, _ := aof.FindAofFiles()
	names := []string{}
	if rewriteFile != "" {
		names = append(names, rewriteFile)
	}
	names = append(names, appendFiles...)
	lockCommand := &protocol.LockCommand{}
	_, _ = aof.LoadAofFiles(names, time.Now().Unix(), func(fn string, f *AofFile, aofLock *AofLock, first bool) (bool, error) {
		db := n.s.GetDB(aofLock.DbId)
		lockCommand.CommandType = aofLock.CommandType
		lockCommand.Flag = aofLock.Flag
		lockCommand.DbId = aofLock.DbId
		lockCommand.LockId = aofLock.LockId
		lockCommand.LockKey = aofLock.LockKey
		lockCommand.ExpriedFlag = aofLock.ExpriedFlag
		lockCommand.Expried = aof.GetLockCommandExpriedTime(db, aofLock)
		lockCommand.Count = aofLock.Count
		lockCommand.Rcount = aofLock.Rcount
		outp = append(outp, fmt.Sprintf("%v:t%d.%d.%d.%d.f%x.a%x.ct%d.st%d.e%d.now%d", db.HasLock(lockCommand, aofLock.data), aofLock.CommandType, aofLock.DbId,
			vRInt(aofLock.LockKey), vRInt(aofLock.LockId), aofLock.Flag, aofLock.AofFlag, int64(aofLock.CommandTime)-base, aofLock.ExpriedTime, lockCommand.Expried, db.currentTime-base))
		return true, nil
	})
	return strings.Join(outp, " ")
}

// ---- the journal as data, and the REFERENCE replay ------------------------------------------------------------------------
//
// vRRecover is the specification of "what a journal means" (mirrored by Slock.Aof.recover in Model/Aof.lean; the two are
// diffed line by line through the `aofjournal` driver command):
//   LOCK record,  id not held          → new hold, depth 1, terms of the record
//   LOCK record,  id held, flag 0x02   → terms of the record replace the hold's terms (depth unchanged)
//   LOCK record,  id held, no 0x02     → depth + 1, terms of the record
//   UNLOCK record, Rcount = 0          → the hold is removed (all levels)
//   UNLOCK record, Rcount > 0          → one level less; the hold is removed when that was the last one
//   a record with a value frame sets the key's value; the value goes away with the key's last hold
// Every record is applied — there is no per-record expiry test: a journal is a list of things that happened.

type vRRec struct {
	kind                                        byte
	db, key, id                                 int
	flag, aofFlag, eflag, stored, count, rcount int
	ct                                          int64
	data                                        string
}

func vRParseJournal(journal string) []vRRec {
	var out []vRRec
	if journal == "-" || journal == "" {
		return out
	}
	for _, tok := range strings.Split(journal, ",") {
		f := strings.Split(tok, ".")
		if len(f) < 12 {
			continue
		}
		r := vRRec{kind: f[0][0], data: f[11]}
		fmt.Sscanf(f[1], "%d", &r.db)
		fmt.Sscanf(f[2], "%d", &r.key)
		fmt.Sscanf(f[3], "%d", &r.id)
		fmt.Sscanf(f[4], "%x", &r.flag)
		fmt.Sscanf(f[5], "%x", &r.aofFlag)
		fmt.Sscanf(f[6], "%x", &r.eflag)
		fmt.Sscanf(f[7], "%d", &r.stored)
		fmt.Sscanf(f[8], "%d", &r.ct)
		fmt.Sscanf(f[9], "%d", &r.count)
		fmt.Sscanf(f[10], "%d", &r.rcount)
		out = append(out, r)
	}
	return out
}

// deadline a record describes (relative to base), as an upper estimate: seconds exact; minutes rounded up by < 60 s;
// milliseconds: command time + duration + 1 (the grant was at or before the command time); unlimited: max.
func (r vRRec) deadline() int64 {
	switch {
	case r.eflag&protocol.EXPRIED_FLAG_UNLIMITED_EXPRIED_TIME != 0:
		return 0x7fffffffffffffff
	case r.eflag&protocol.EXPRIED_FLAG_MILLISECOND_TIME != 0:
		return r.ct + int64(r.stored)/1000 + 1
	case r.eflag&protocol.EXPRIED_FLAG_MINUTE_TIME != 0:
		return r.ct + int64(r.stored)*60
	}
	return r.ct + int64(r.stored)
}

// dead: LoadAofFile would filter the record at nowRel, or replay it with Expried = 0 (no hold).
func (r vRRec) dead(nowRel int64) bool {
	switch {
	case r.eflag&protocol.EXPRIED_FLAG_MILLISECOND_TIME != 0:
		return r.ct+int64(r.stored)/1000 <= nowRel
	case r.eflag&protocol.EXPRIED_FLAG_MINUTE_TIME != 0:
		el := nowRel - r.ct
		mins := el / 60
		if el < 60 || el%60 != 0 {
			mins++
		}
		return r.ct+int64(r.stored)*60 <= nowRel || (el >= 0 && int64(r.stored) <= mins)
	case r.eflag&protocol.EXPRIED_FLAG_UNLIMITED_EXPRIED_TIME == 0:
		return r.stored > 0 && r.ct+int64(r.stored) <= nowRel
	}
	return false
}

type vRIdeal struct {
	holds  map[[3]int]*vRHold
	values map[[2]int]string
	nrec   map[[3]int]int
}

func vRRecover(recs []vRRec, base int64) *vRIdeal {
	st := &vRIdeal{holds: map[[3]int]*vRHold{}, values: map[[2]int]string{}, nrec: map[[3]int]int{}}
	for _, r := range recs {
		id := [3]int{r.db, r.key, r.id}
		st.nrec[id]++
		h := st.holds[id]
		remove := func() {
			delete(st.holds, id)
			for k := range st.holds {
				if k[0] == r.db && k[1] == r.key {
					return
				}
			}
			delete(st.values, [2]int{r.db, r.key})
		}
		if r.kind == 'L' {
			d := r.deadline()
			if d != 0x7fffffffffffffff {
				d += base
			}
			tf := 0
			if r.aofFlag&AOF_FLAG_REQUIRE_ACKED != 0 {
				tf |= protocol.TIMEOUT_FLAG_REQUIRE_ACKED
			}
			if r.aofFlag&AOF_FLAG_RCOUNT_IS_PRIORITY != 0 {
				tf |= protocol.TIMEOUT_FLAG_RCOUNT_IS_PRIORITY
			}
			terms := vRHold{db: r.db, key: r.key, lockId: r.id, depth: 1, count: r.count, rcount: r.rcount, eflag: r.eflag & 0x4440, expried: r.stored, tflag: tf, deadline: d, isAof: true}
			switch {
			case h == nil:
				st.holds[id] = &terms
			case r.flag&protocol.LOCK_FLAG_UPDATE_WHEN_LOCKED != 0:
				terms.depth = h.depth
				*h = terms
			default:
				terms.depth = h.depth + 1
				*h = terms
			}
			if r.data != "n" {
				st.values[[2]int{r.db, r.key}] = r.data
			}
		} else {
			if r.data != "n" && h != nil {
				st.values[[2]int{r.db, r.key}] = r.data
			}
			if h == nil {
				continue
			}
			if r.rcount == 0 || h.depth <= 1 {
				remove()
			} else {
				h.depth--
			}
		}
	}
	return st
}

func (st *vRIdeal) list() []vRHold {
	var out []vRHold
	for _, h := range st.holds {
		out = append(out, *h)
	}
	sort.Slice(out, func(i, j int) bool {
		a, b := out[i].id(), out[j].id()
		if a[0] != b[0] {
			return a[0] < b[0]
		}
		if a[1] != b[1] {
			return a[1] < b[1]
		}
		return a[2] < b[2]
	})
	return out
}

func (st *vRIdeal) String(base int64) string {
	sn := &vRSnap{holds: st.list()}
	var ks [][2]int
	for k := range st.values {
		ks = append(ks, k)
	}
	sort.Slice(ks, func(i, j int) bool { return ks[i][0] < ks[j][0] || (ks[i][0] == ks[j][0] && ks[i][1] < ks[j][1]) })
	vs := make([]string, len(ks))
	for i, k := range ks {
		vs[i] = fmt.Sprintf("%d.%d=%s", k[0], k[1], st.values[k])
	}
	hs := strings.SplitN(sn.String(base, false), "|", 2)[0]
	v := strings.Join(vs, ";")
	if v == "" {
		v = "-"
	}
	return hs + "|" + v
}

// vRJournalCause: why the journal of a hold does not describe the hold (cause-keyed monitor signatures).
func vRJournalCause(recs []vRRec, id [3]int) string {
	updLevels := map[int64]int{}
	for _, r := range recs {
		if [3]int{r.db, r.key, r.id} != id {
			continue
		}
		if r.kind == 'U' && r.aofFlag&AOF_FLAG_UPDATED != 0 && r.rcount == 0 {
			return "partial-unlock-journalled-as-full" // the UPDATED flag marks a one-level unlock; Rcount 0 replays as "all levels"
		}
		if r.kind == 'L' && r.flag&protocol.LOCK_FLAG_UPDATE_WHEN_LOCKED != 0 {
			updLevels[r.ct]++
		}
	}
	for _, n := range updLevels {
		if n >= 2 {
			return "levels-journalled-with-update-flag" // deferred journalling writes one record per level, all carrying the current (update) command
		}
	}
	// a re-lock of a hold that was not journalled yet: AddExpried journals one record per level (the new one included), then the
	// re-lock branch adds its own UPDATED record: depth + 1 records for depth levels
	plain, upd := map[int64]int{}, map[int64]int{}
	for _, r := range recs {
		if [3]int{r.db, r.key, r.id} == id && r.kind == 'L' && r.flag&protocol.LOCK_FLAG_UPDATE_WHEN_LOCKED == 0 {
			if r.aofFlag&AOF_FLAG_UPDATED != 0 {
				upd[r.ct]++
			} else {
				plain[r.ct]++
			}
		}
	}
	for ct, n := range plain {
		if n >= 2 && upd[ct] >= 1 {
			return "relock-of-unjournalled-hold-journalled-twice"
		}
	}
	return "other"
}

// vRGenRotateCase: a history WITHOUT ticks (it runs at virtual clock = real clock) whose journal rotates every 2-6 records: one
// persist-now hold per key, with and without a value, some re-locked, some released — value-carrying and value-free records land
// on and next to every size boundary.
func vRGenRotateCase(r *rand.Rand) *vRCase {
	c := &vRCase{ndb: 1 + r.Intn(2), aofT: 0}
	c.bufSize = []uint{64, 128, 4096}[r.Intn(3)]
	c.rotate = uint(12 + 64*(2+r.Intn(5)))
	c.rewriteSize = c.rotate
	nh := 6 + r.Intn(12)
	type hh struct{ db, key, depth int }
	var live []hh
	val := func(i int) *protocol.LockCommandData {
		if r.Intn(2) == 0 {
			return nil
		}
		return protocol.NewLockCommandDataSetString(fmt.Sprintf("v%d.%d", i, r.Intn(100)))
	}
	for i := 0; i < nh; i++ {
		switch {
		case len(live) > 0 && r.Intn(6) == 0:
			j := r.Intn(len(live))
			h := live[j]
			live = append(live[:j], live[j+1:]...)
			c.ops = append(c.ops, vROp{cmd: &vRCmd{kind: 'U', db: h.db, key: h.key, lockId: 1, data: val(i)}})
		case len(live) > 0 && r.Intn(5) == 0:
			j := r.Intn(len(live))
			if live[j].depth < 3 {
				live[j].depth++
				c.ops = append(c.ops, vROp{cmd: &vRCmd{kind: 'L', db: live[j].db, key: live[j].key, lockId: 1, eflag: 0x4100, expried: 100, rcount: 3, data: val(i)}})
			}
		default:
			h := hh{db: r.Intn(c.ndb), key: 500 + i, depth: 1}
			live = append(live, h)
			c.keys = append(c.keys, [2]int{h.db, h.key})
			cmd := &vRCmd{kind: 'L', db: h.db, key: h.key, lockId: 1, eflag: 0x4100, expried: 100, rcount: 3, data: val(i)}
			if r.Intn(3) == 0 {
				cmd.eflag, cmd.expried = 0x100, 300+r.Intn(300)
				for k := range live {
					if live[k].key == h.key {
						live[k].depth = 3 // (terms of a re-lock above are the unlimited ones: keep these holds single-level)
					}
				}
			}
			c.ops = append(c.ops, vROp{cmd: cmd})
		}
	}
	sort.Slice(c.keys, func(i, j int) bool {
		return c.keys[i][0] < c.keys[j][0] || (c.keys[i][0] == c.keys[j][0] && c.keys[i][1] < c.keys[j][1])
	})
	return c
}

// vRCheckPairing: for every log file of dir, the number of records with the has-value flag equals the number of frames in its
// .dat, and the .dat has no bytes left over. "" = fine.
func vRCheckPairing(dir string) string {
	ents, err := os.ReadDir(dir)
	if err != nil {
		return ""
	}
	for _, en := range ents {
		nm := en.Name()
		if en.IsDir() || strings.HasSuffix(nm, ".dat") || !(strings.HasPrefix(nm, "append.aof.") || nm == "rewrite.aof") {
			continue
		}
		rec, _ := os.ReadFile(filepath.Join(dir, nm))
		dat, _ := os.ReadFile(filepath.Join(dir, nm+".dat"))
		want := 0
		for o := 12; o+64 <= len(rec); o += 64 {
			if (uint16(rec[o+55])|uint16(rec[o+56])<<8)&AOF_FLAG_CONTAINS_DATA != 0 {
				want++
			}
		}
		have, p := 0, 0
		for p+4 <= len(dat) {
			l := int(dat[p]) | int(dat[p+1])<<8 | int(dat[p+2])<<16 | int(dat[p+3])<<24
			if p+4+l > len(dat) {
				break
			}
			p += 4 + l
			have++
		}
		if want != have || p != len(dat) {
			return fmt.Sprintf("%s has %d records with a value, %s.dat has %d frames (%d of %d bytes)", nm, want, nm, have, p, len(dat))
		}
	}
	return ""
}

// ---- two generations -----------------------------------------------------------------------------------------------------------

// restartLive: as restartPinned, but the restarted node is handed back alive (its directory is a fresh copy of src).
func (e *vREnv) restartLive(src string, c *vRCase) (*vRNode, string, int64, string) {
	for attempt := 0; attempt < 6; attempt++ {
		e.rseq++
		d := filepath.Join(filepath.Dir(src), fmt.Sprintf("g%d", e.rseq))
		vRCopyDir(src, d)
		now := time.Now().Unix()
		m, err := vRStart(d, now, c.ndb, c.bufSize, 67174400, c.aofT)
		same := time.Now().Unix() == now
		if err != nil {
			m.stop()
			if !same {
				continue
			}
			return nil, d, now, "err"
		}
		if !same || !m.clockOK() {
			m.stop()
			_ = os.RemoveAll(d)
			e.stats["second-boundary-retries"]++
			continue
		}
		return m, d, now, "ok"
	}
	return nil, "", 0, "clock"
}

// follow: the virtual clock catches up with the real one (sweeps run per elapsed second).
func (n *vRNode) follow() {
	for n.now < time.Now().Unix() {
		n.tick()
	}
}

// vRGen2Ops: what clients do after the restart, generated from what the restart restored.
func vRGen2Ops(r *rand.Rand, sn *vRSnap, c *vRCase, wait bool, stats map[string]int) []vROp {
	var ops []vROp
	for _, h := range sn.holds {
		mk := func(kind byte) *vRCmd { return &vRCmd{kind: kind, db: h.db, key: h.key, lockId: h.lockId} }
		terms := func(cmd *vRCmd) {
			cmd.eflag, cmd.expried, cmd.count, cmd.rcount, cmd.tflag = h.eflag, h.expried, h.count, h.rcount, h.tflag&protocol.TIMEOUT_FLAG_RCOUNT_IS_PRIORITY
		}
		switch p := r.Intn(100); {
		case p < 30:
			stats["gen2-op-unlock-restored"]++
			ops = append(ops, vROp{cmd: mk('U')})
		case p < 45:
			stats["gen2-op-unlock-one-level-of-restored"]++
			cmd := mk('U')
			cmd.rcount = 1
			ops = append(ops, vROp{cmd: cmd})
		case p < 60:
			stats["gen2-op-relock-restored"]++
			cmd := mk('L')
			terms(cmd)
			if cmd.rcount < h.depth {
				cmd.rcount = h.depth
			}
			ops = append(ops, vROp{cmd: cmd})
		case p < 75:
			stats["gen2-op-update-restored"]++
			cmd := mk('L')
			terms(cmd)
			cmd.flag = protocol.LOCK_FLAG_UPDATE_WHEN_LOCKED
			if h.eflag&0x4440 == 0 {
				cmd.expried = 5 + r.Intn(60)
			}
			if cmd.eflag&protocol.EXPRIED_FLAG_UNLIMITED_EXPRIED_TIME != 0 && cmd.expried == 0xffff {
				cmd.expried = 100
			}
			if r.Intn(3) == 0 {
				cmd.data = vRGenData(r)
			}
			ops = append(ops, vROp{cmd: cmd})
			if r.Intn(3) == 0 {
				stats["gen2-op-unlock-restored-after-update"]++
				ops = append(ops, vROp{cmd: mk('U')})
			}
		default:
			stats["gen2-restored-left-alone"]++
		}
	}
	r.Shuffle(len(ops), func(i, j int) { ops[i], ops[j] = ops[j], ops[i] })
	nnew := 1 + r.Intn(3)
	var fresh []*vRCmd
	for i := 0; i < nnew; i++ {
		dk := c.keys[r.Intn(len(c.keys))]
		cmd := &vRCmd{kind: 'L', db: dk[0], key: dk[1], lockId: 4 + i, count: r.Intn(3), rcount: r.Intn(3)}
		switch r.Intn(4) {
		case 0:
			cmd.eflag, cmd.expried = protocol.EXPRIED_FLAG_UNLIMITED_EXPRIED_TIME, 100
		case 1:
			cmd.eflag, cmd.expried = protocol.EXPRIED_FLAG_MINUTE_TIME, 1+r.Intn(3)
		default:
			cmd.expried = 20 + r.Intn(200)
		}
		cmd.eflag |= protocol.EXPRIED_FLAG_ZEOR_AOF_TIME
		if wait && i == 0 {
			cmd.eflag, cmd.expried = protocol.EXPRIED_FLAG_ZEOR_AOF_TIME, 1 // expires while the harness waits
		}
		if r.Intn(3) == 0 {
			cmd.data = vRGenData(r)
		}
		stats["gen2-op-new-hold"]++
		fresh = append(fresh, cmd)
		ops = append(ops, vROp{cmd: cmd})
	}
	if wait {
		ops = append(ops, vROp{tick: 2})
	}
	if r.Intn(2) == 0 {
		f := fresh[r.Intn(len(fresh))]
		stats["gen2-op-unlock-new-hold"]++
		ops = append(ops, vROp{cmd: &vRCmd{kind: 'U', db: f.db, key: f.key, lockId: f.lockId}})
	}
	if len(sn.holds) > 0 && r.Intn(2) == 0 {
		h := sn.holds[r.Intn(len(sn.holds))]
		stats["gen2-op-unlock-restored"]++
		ops = append(ops, vROp{cmd: &vRCmd{kind: 'U', db: h.db, key: h.key, lockId: h.lockId}})
	}
	return ops
}

func (e *vREnv) runGen2(dir, dirA string, base int64, c *vRCase, history string, skip map[[2]int]bool) {
	stats := e.stats
	m, d2, now1, st := e.restartLive(dirA, c)
	if st != "ok" {
		stats["gen2-restart-"+st]++
		return
	}
	sn1 := m.snapshot(c.keys)
	// the journal on disk when generation 2 begins (the start-up has compacted the directory): keys where it does not describe the
	// database are the business of generation 1 / of the compaction checks
	dS := filepath.Join(dir, "s")
	vRCopyDir(d2, dS)
	j1, _, _ := m.journal(dS, base)
	recs1 := vRParseJournal(j1)
	ideal1 := vRRecover(recs1, base)
	near1 := func(h vRHold) bool {
		unit, _ := vRUnit(h.eflag)
		return h.deadline != 0x7fffffffffffffff && h.deadline <= now1+unit+2
	}
	for _, d := range vRCompareHolds("S", sn1.holds, ideal1.list(), func(vRHold) string { return "x" }, near1, true) {
		skip[[2]int{d.id[0], d.id[1]}] = true
	}
	for _, k := range sn1.keys {
		if iv, ok := ideal1.values[[2]int{k.db, k.key}]; k.value != nil && (!ok || iv != vHex(k.value)) {
			skip[[2]int{k.db, k.key}] = true
		}
	}
	restored := map[[3]int]bool{}
	for _, h := range sn1.holds {
		restored[h.id()] = true
	}
	ops := c.gen2
	if ops == nil {
		ops = vRGen2Ops(rand.New(rand.NewSource(c.gen2seed)), sn1, c, c.gen2wait, stats)
	}
	// successful client UNLOCKs of holds that were journalled at that moment
	unl := map[[3]int]int{}
	opstr := make([]string, len(ops))
	for i, o := range ops {
		opstr[i] = o.String()
		m.follow()
		if o.cmd == nil {
			target := m.now + int64(o.tick)
			for time.Now().Unix() < target {
				time.Sleep(20 * time.Millisecond)
			}
			m.follow()
			continue
		}
		wasAof := false
		if o.cmd.kind == 'U' {
			for _, h := range m.snapshot([][2]int{{o.cmd.db, o.cmd.key}}).holds {
				if h.lockId == o.cmd.lockId && h.isAof {
					wasAof = true
				}
			}
		}
		res := m.do(*o.cmd)
		if o.cmd.kind == 'U' && res == int(protocol.RESULT_SUCCED) {
			stats["gen2-unlocks-succeeded"]++
			if wasAof {
				unl[[3]int{o.cmd.db, o.cmd.key, o.cmd.lockId}]++
				if restored[[3]int{o.cmd.db, o.cmd.key, o.cmd.lockId}] {
					stats["gen2-unlocks-of-restored-holds-succeeded"]++
				}
			}
		}
		if o.cmd.eflag&protocol.EXPRIED_FLAG_MILLISECOND_TIME != 0 {
			time.Sleep(3 * time.Millisecond)
		}
	}
	gen2 := strings.Join(opstr, " ")
	m.follow()
	m.drain()
	orig2 := m.snapshot(c.keys)
	tEnd2 := m.now
	dirA2 := filepath.Join(dir, "a2")
	vRCopyDir(d2, dirA2)
	j2, nrec2, _ := m.journal(dirA2, base)
	okClock := m.clockOK()
	m.stop()
	if !okClock {
		stats["clock-escaped"]++
		return
	}
	sn2, now2, st2 := e.restartPinned(dirA2, c)
	if st2 == "clock" {
		stats["clock-escaped"]++
		return
	}
	op := fmt.Sprintf("restart %d %d %d %s", base, now2-base, c.bufSize, j2)
	replay := map[string]interface{}{"history": history + " R " + gen2, "base": base, "restart1At": now1 - base, "restoredByRestart1": sn1.String(base, true),
		"journalAtStartOfGeneration2": j1, "generation2": gen2, "end": tEnd2 - base, "restartAt": now2 - base, "journal": j2, "original": orig2.String(base, true),
		"cfg": fmt.Sprintf("buf=%d aofTime=%d dbs=%d outage=%d twoGenerations", c.bufSize, c.aofT, c.ndb, c.outage), "corpus": c.name}
	if st2 == "err" {
		e.out.emit(op, "err")
		e.monitor("C07:restart-fails", "the second start-up on an un-cut directory written by the server itself fails", replay)
		return
	}
	e.out.emit(op, sn2.String(base, false))
	if bad := vRCheckPairing(dirA2); bad != "" {
		e.monitor("C16:rotation:record-and-value-in-different-files", "a record file and its value file do not pair (generation 2): "+bad, replay)
	}
	line2 := e.rout.n
	e.rout.emit(fmt.Sprintf("aofreload %d %s", now2-base, j2), sn2.String(base, false))
	replay["restored"] = sn2.String(base, false)
	stats["gen2-cases"]++
	stats["gen2-ops"] += len(ops)
	stats["gen2-holds-restored-by-restart-1"] += len(sn1.holds)
	stats["gen2-holds-at-stop"] += len(orig2.holds)
	stats["gen2-holds-restored-by-restart-2"] += len(sn2.holds)
	stats["gen2-records"] += nrec2
	stats["gen2-keys-not-judged"] += len(skip)
	stats["gen2-keys"] += len(c.keys)
	recs2 := vRParseJournal(j2)
	for i, r := range recs2 {
		if i >= len(recs1) && r.kind == 'U' && r.aofFlag&AOF_FLAG_EXPRIED != 0 {
			stats["gen2-expiry-records-written-in-generation-2"]++
		}
	}
	ideal2 := vRRecover(recs2, base)
	e.jout.emit("aofjournal "+j2, ideal2.String(base))
	replay["journalMeans"] = ideal2.String(base)
	countU := func(recs []vRRec, id [3]int) int {
		n := 0
		for _, r := range recs {
			if [3]int{r.db, r.key, r.id} == id && r.kind == 'U' && r.aofFlag&(AOF_FLAG_EXPRIED|AOF_FLAG_TIMEOUTED) == 0 {
				n++
			}
		}
		return n
	}
	cause := func(id [3]int) string {
		if unl[id] > 0 && countU(recs2, id)-countU(recs1, id) < unl[id] {
			if restored[id] {
				return "unlock-of-restored-hold-not-journalled"
			}
			return "unlock-not-journalled"
		}
		return vRJournalCause(recs2, id)
	}
	origBy := map[[3]int]vRHold{}
	var origAof []vRHold
	for _, h := range orig2.holds {
		origBy[h.id()] = h
		if h.isAof {
			origAof = append(origAof, h)
		}
	}
	nearEnd := func(h vRHold) bool {
		unit, _ := vRUnit(h.eflag)
		return h.deadline != 0x7fffffffffffffff && h.deadline <= tEnd2+unit+2
	}
	badJ := map[[2]int]bool{}
	for k := range skip {
		badJ[k] = true
	}
	for _, d := range vRCompareHolds("J", origAof, ideal2.list(), func(vRHold) string { return "x" }, nearEnd, true) {
		if skip[[2]int{d.id[0], d.id[1]}] {
			continue
		}
		what := strings.Split(d.sig, ":")[1]
		o := origBy[d.id]
		_, ucls := vRUnit(o.eflag)
		switch what {
		case "restored-missing":
			what = "hold-missing"
		case "restored-extra":
			what = "hold-extra"
		case "deadline-renewed", "deadline-early":
			if ucls == "milliseconds" {
				continue
			}
			what = "deadline-mismatch:" + ucls
		}
		e.monitor("C07:journal:"+cause(d.id), "generation 2: journal vs database at stop ("+what+"): "+d.what, replay)
		badJ[[2]int{d.id[0], d.id[1]}] = true
	}
	for _, k := range orig2.keys {
		has := false
		for _, h := range origAof {
			if h.db == k.db && h.key == k.key {
				has = true
			}
		}
		if iv, ok := ideal2.values[[2]int{k.db, k.key}]; has && !badJ[[2]int{k.db, k.key}] && k.valueAof && (!ok || iv != vHex(k.value)) {
			e.monitor("C07:journal:value-mismatch", fmt.Sprintf("generation 2: db %d key %d: the database holds value %s, the journal describes %q", k.db, k.key, vHex(k.value), iv), replay)
		}
	}
	_ = e.replayCheck(recs2, sn2, now2, base, line2, origBy, badJ, replay)
}
