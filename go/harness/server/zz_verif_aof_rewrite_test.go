package server

// aofrewrite: the compaction's keep-rule and its file-system mutations, against a REAL LockDB on a virtual clock.
//
// Per case: real holds (seconds / minutes / unlimited / millisecond expiry, with and without a value) are taken and updated
// (flag 0x02) at chosen seconds in the PAST through the real LockDB.Lock; journal records of those holds are produced by the real
// AofChannel.Push at chosen later seconds (so every record has an AGE 0‥300 s, 0‥600 s for the minute unit, relative to the
// compaction), with and without the update-when-locked flag, without value / with the current value / with a stale value; plus
// UNLOCK records and records of unknown keys and LockIds. The records are written by the real writer into rewrite.aof +
// append files; the virtual clock is set to the real clock (loadRewriteAofFiles filters expired records against time.Now())
// and the real findRewriteAofFiles / loadRewriteAofFiles / clearRewriteAofFiles run.
//
// Differential lines:
//   aofkeep <now> <view> <hex64>/<blob|n>                       → 1|0      the callback's keep decision (real HasLock) per record
//   aofcompact <cfg> <cur> <now> <view> <name>=<hex> …           → directory after the write phase and after every later mutation
//   aofrecover <cfg> <now> <name>=<hex> …                        → records a start-up hands to the engine
//   <view> = what HasLock looks at: ';'-separated keys  <db>,<keyhex>,<valuehex|n>,<lockIdhex>:<deadline|inf>:<count>:<rcount>:<tflag>+…
// Monitors: C16:compaction-drops-live-record (a record written from a hold's CURRENT terms, however old, must be kept),
//   C16:content, C16:crash-loses-records, C16:crash-startup-fails, C16:harness-steps-differ.

import (
	"fmt"
	"math/rand"
	"os"
	"path/filepath"
	"sort"
	"strconv"
	"strings"
	"testing"
	"time"

	"github.com/snower/slock/protocol"
)

type vRwHold struct {
	key, lockId       int
	eflag, expried    int
	count, rcount     int
	start, lastChange int64
	hasValue          bool
	unitName          string
}

type vRwEvent struct {
	t    int64
	kind int // 0 create, 1 update, 2 journal
	h    int
	seq  int
}

type vRwRecord struct {
	rec     vAofRec
	current bool // written from the hold's terms as they are at the compaction (no later update), value none or current
	aged    int64
	updFlag bool
	unit    string
}

func vRwView(db *LockDB, keys []int) string {
	var parts []string
	for _, key := range keys {
		m := db.GetLockManager(&protocol.LockCommand{LockKey: vRId(key)})
		if m == nil || m.lockKey != vRId(key) || m.locked == 0 {
			continue
		}
		var hs []string
		seen := map[*Lock]bool{}
		add := func(l *Lock) {
			if l != nil && l.locked > 0 && l.command != nil && !seen[l] {
				seen[l] = true
				d := "inf"
				if l.expriedTime != 0x7fffffffffffffff {
					d = fmt.Sprint(l.expriedTime)
				}
				hs = append(hs, fmt.Sprintf("%s:%s:%d:%d:%d", vHex(l.command.LockId[:]), d, l.command.Count, l.command.Rcount, l.command.TimeoutFlag))
			}
		}
		add(m.currentLock)
		if m.locks != nil {
			for _, node := range m.locks.IterNodes() {
				for _, l := range node {
					add(l)
				}
			}
		}
		v := "n"
		if m.currentData != nil && m.currentData.data != nil {
			v = vHex(m.currentData.data)
		}
		k := vRId(key)
		parts = append(parts, fmt.Sprintf("0,%s,%s,%s", vHex(k[:]), v, strings.Join(hs, "+")))
	}
	if len(parts) == 0 {
		return "-"
	}
	return strings.Join(parts, ";")
}

// vRwKeep: the keep decision exactly as the callback of loadRewriteAofFiles computes it (same calls, real HasLock).
func vRwKeep(aof *Aof, rec vAofRec, lockCommand *protocol.LockCommand) bool {
	aofLock := NewAofLock()
	copy(aofLock.buf, rec.buf)
	_ = aofLock.Decode()
	aofLock.data = rec.data
	db := aof.slock.GetDB(aofLock.DbId)
	if db == nil {
		return false
	}
	lockCommand.CommandType = aofLock.CommandType
	lockCommand.Flag = aofLock.Flag
	lockCommand.DbId = aofLock.DbId
	lockCommand.LockId = aofLock.LockId
	lockCommand.LockKey = aofLock.LockKey
	lockCommand.ExpriedFlag = aofLock.ExpriedFlag
	lockCommand.Expried = aof.GetLockCommandExpriedTime(db, aofLock)
	lockCommand.Count = aofLock.Count
	lockCommand.Rcount = aofLock.Rcount
	return db.HasLock(lockCommand, aofLock.data)
}

func vRwRecId(buf []byte) string { return vHex(buf[3:19]) }

func vRwFilterKept(recs []vAofRec, kept map[string]bool) string {
	var out []vAofRec
	for _, r := range recs {
		if kept[vRwRecId(r.buf)] {
			b := append([]byte{}, r.buf...)
			b[55] &^= 1
			out = append(out, vAofRec{b, r.data})
		}
	}
	return vAofRecsString(out)
}

func (e *vAofEnv) recoverRecs(snap []vAofFileImg, cfgBuf uint, now int64) ([]vAofRec, string) {
	d := e.freshDir()
	defer os.RemoveAll(d)
	for _, f := range snap {
		if err := os.WriteFile(filepath.Join(d, f.name), f.rec, 0644); err != nil {
			panic(err)
		}
	}
	save := e.aof.dataDir
	defer func() { e.aof.dataDir = save }()
	e.aof.dataDir = d
	appendFiles, rewriteFile, err := e.aof.FindAofFiles()
	if err != nil {
		return nil, "err"
	}
	names := []string{}
	if rewriteFile != "" {
		names = append(names, rewriteFile)
	}
	names = append(names, appendFiles...)
	got, status := e.load(d, names, cfgBuf, now)
	if status != "ok" {
		return got, "err"
	}
	return got, "ok"
}

func init() {
	vModes["aofrewrite"] = func(t *testing.T) {
		r := rand.New(rand.NewSource(int64(vEnvInt("VERIF_SEED", 1))))
		n := vEnvInt("VERIF_N", 20)
		out := vOpen("aofrewrite")
		defer out.close()
		e := vNewAofEnv(out)
		defer os.RemoveAll(e.root)
		e.aof.inited = true // a compaction runs on an initialised Aof (the start-up-only repair of torn tails is off)
		// a real LockDB whose background loops exit at once (created while the server state is CLOSE): the harness owns its clock
		e.slock.state = STATE_CLOSE
		db := NewLockDB(e.slock, 0)
		e.slock.dbs[0] = db
		time.Sleep(40 * time.Millisecond)
		db.status = STATE_LEADER
		e.slock.state = STATE_LEADER
		conn := NewMemWaiterServerProtocol(e.slock)
		lastResult := -1
		_ = conn.SetResultCallback(func(p *MemWaiterServerProtocol, cmd *protocol.LockCommand, result uint8, lcount uint16, lrcount uint8, data []byte) error {
			lastResult = int(result)
			return nil
		})
		// record factory: the real AofChannel.Push on a channel of its own (nothing is written by the server itself: the holds
		// carry the never-persist flag)
		jdb := &LockDB{}
		ch := NewAofChannel(e.aof, jdb, 0, NewPriorityMutex())
		stats := map[string]int{}
		keyBase := 5000
		recSeq := uint32(0)
		for it := 0; it < n; it++ {
			T := time.Now().Unix()
			cfg := []uint{64, 128, 4096}[r.Intn(3)]
			Config.AofFileBufferSize = cfg
			nkeys := 1 + r.Intn(2)
			keys := []int{}
			for k := 0; k < nkeys; k++ {
				keyBase++
				keys = append(keys, keyBase)
			}
			// ---- the holds and their timeline
			var holds []*vRwHold
			var evs []vRwEvent
			seq := 0
			addEv := func(t int64, kind, h int) {
				seq++
				evs = append(evs, vRwEvent{t, kind, h, seq})
			}
			nh := 2 + r.Intn(4)
			for i := 0; i < nh; i++ {
				h := &vRwHold{key: keys[r.Intn(len(keys))], lockId: 7000 + i, count: 8, rcount: r.Intn(3), hasValue: r.Intn(3) == 0}
				maxAge := 300
				switch r.Intn(8) {
				case 0, 1, 2, 3:
					h.unitName = "seconds"
				case 4, 5:
					h.eflag, h.unitName, maxAge = protocol.EXPRIED_FLAG_MINUTE_TIME, "minutes", 600
				case 6:
					h.eflag, h.unitName = protocol.EXPRIED_FLAG_UNLIMITED_EXPRIED_TIME, "unlimited"
				case 7:
					h.eflag, h.unitName, maxAge = protocol.EXPRIED_FLAG_MILLISECOND_TIME, "milliseconds", 50
				}
				age := int64(r.Intn(maxAge + 1))
				if r.Intn(4) == 0 {
					age = int64(r.Intn(4))
				}
				h.start = T - age
				life := func(since int64) int {
					// an Expried that keeps the hold alive at T (mostly with a margin, sometimes barely)
					need := T - since + 2
					switch h.unitName {
					case "minutes":
						return int(need/60) + 1 + r.Intn(4)
					case "unlimited":
						return []int{5, 100, 0xffff}[r.Intn(3)]
					case "milliseconds":
						return 60000
					}
					return int(need) + r.Intn(300)
				}
				h.expried = life(h.start)
				holds = append(holds, h)
				addEv(h.start, 0, i)
				last := h.start
				if age > 2 && r.Intn(2) == 0 {
					u := h.start + 1 + int64(r.Intn(int(age)))
					addEv(u, 1, i)
					last = u
				}
				// journal events: before and after the last change, up to T
				nj := 1 + r.Intn(3)
				for j := 0; j < nj; j++ {
					from := h.start
					if r.Intn(3) != 0 {
						from = last
					}
					addEv(from+int64(r.Intn(int(T-from)+1)), 2, i)
				}
			}
			sort.SliceStable(evs, func(i, j int) bool {
				if evs[i].t != evs[j].t {
					return evs[i].t < evs[j].t
				}
				if evs[i].h == evs[j].h && evs[i].kind != evs[j].kind {
					return evs[i].kind < evs[j].kind // create < update < journal within one second of one hold
				}
				return evs[i].seq < evs[j].seq
			})
			var records []*vRwRecord
			lastChangeOf := map[int]int64{}
			okCase := true
			for _, ev := range evs {
				h := holds[ev.h]
				db.currentTime = ev.t
				db.checkTimeoutTime = ev.t + 1
				db.checkExpriedTime = ev.t + 1
				switch ev.kind {
				case 0, 1:
					cmd := conn.GetLockCommand()
					cmd.CommandType = protocol.COMMAND_LOCK
					cmd.RequestId = vRId(int(recSeq) + 900000)
					cmd.DbId = 0
					cmd.LockId = vRId(h.lockId)
					cmd.LockKey = vRId(h.key)
					cmd.Flag = 0
					cmd.Timeout = 0
					// timeout-flag bits that mean nothing to a request granted at once (minute unit of a zero timeout, log-on-timeout, keep the
					// re-check count): the journal does not store them and the compaction's keep-rule must not be impressed by them
					cmd.TimeoutFlag = []uint16{0, 0, 0, 0x0040, 0x0800, 0x2000, 0x0840}[(h.lockId+h.key)%7]
					if ev.kind == 1 {
						cmd.Flag = protocol.LOCK_FLAG_UPDATE_WHEN_LOCKED
						need := T - ev.t + 2
						switch h.unitName {
						case "minutes":
							h.expried = int(need/60) + 1 + r.Intn(5)
						case "seconds":
							h.expried = int(need) + r.Intn(400)
						case "unlimited":
							h.expried = []int{5, 100}[r.Intn(2)]
						}
						if r.Intn(3) == 0 {
							h.count = 8 + r.Intn(3)
						}
					}
					cmd.ExpriedFlag = uint16(h.eflag) | protocol.EXPRIED_FLAG_UNLIMITED_AOF_TIME
					cmd.Expried = uint16(h.expried)
					cmd.Count = uint16(h.count)
					cmd.Rcount = uint8(h.rcount)
					cmd.Data = nil
					if h.hasValue && (ev.kind == 0 || r.Intn(2) == 0) {
						cmd.Data = protocol.NewLockCommandDataSetString(fmt.Sprintf("v%d.%d", h.lockId, r.Intn(100)))
						cmd.Flag |= protocol.LOCK_FLAG_CONTAINS_DATA
					}
					lastResult = -1
					_ = db.Lock(conn, cmd, 0)
					if h.unitName == "milliseconds" {
						time.Sleep(3 * time.Millisecond)
					}
					if lastResult != protocol.RESULT_SUCCED && !(ev.kind == 1 && lastResult == protocol.RESULT_LOCKED_ERROR) {
						okCase = false
					}
					// a successful update also answers LOCKED_ERROR: the hold changed iff it now carries this command
					if m := db.GetLockManager(&protocol.LockCommand{LockKey: vRId(h.key)}); m != nil {
						if l := m.GetLockedLock(&protocol.LockCommand{LockId: vRId(h.lockId)}); l != nil && l.command == cmd {
							lastChangeOf[ev.h] = ev.t
						}
					}
					recSeq++
				case 2:
					m := db.GetLockManager(&protocol.LockCommand{LockKey: vRId(h.key)})
					if m == nil {
						continue
					}
					lock := m.GetLockedLock(&protocol.LockCommand{LockId: vRId(h.lockId)})
					if lock == nil {
						continue
					}
					lc := *lock.command
					upd := false
					switch r.Intn(3) {
					case 0:
						lc.Flag |= protocol.LOCK_FLAG_UPDATE_WHEN_LOCKED
					case 1:
						lc.Flag &^= protocol.LOCK_FLAG_UPDATE_WHEN_LOCKED
					}
					upd = lc.Flag&protocol.LOCK_FLAG_UPDATE_WHEN_LOCKED != 0
					var data []byte
					valKind := r.Intn(3) // 0 none, 1 current, 2 stale
					switch valKind {
					case 1:
						if d := m.GetLockData(); d != nil {
							data = append([]byte{}, d...)
						}
					case 2:
						data = protocol.NewLockCommandDataSetString("stale").Data
					}
					jdb.currentTime = ev.t
					aofFlag := uint16(0)
					if r.Intn(2) == 0 {
						aofFlag = AOF_FLAG_UPDATED
					}
					ctype := uint8(protocol.COMMAND_LOCK)
					var ulc *protocol.LockCommand
					if r.Intn(8) == 0 {
						ctype = protocol.COMMAND_UNLOCK
						ulc = &protocol.LockCommand{}
						*ulc = lc
						ulc.Rcount = uint8(1 + r.Intn(2))
					}
					if err := ch.Push(0, lock, ctype, &lc, ulc, aofFlag, data); err != nil {
						panic(err)
					}
					al := ch.pullAofLock()
					recSeq++
					al.AofIndex, al.AofOffset = 1, recSeq
					_ = al.Encode()
					al.buf[0], al.buf[1] = 62, 0
					rec := vAofRec{buf: append([]byte{}, al.buf...)}
					if al.data != nil {
						rec.data = append([]byte{}, al.data...)
					}
					records = append(records, &vRwRecord{rec: rec, aged: T - ev.t, updFlag: upd && ctype == protocol.COMMAND_LOCK, unit: h.unitName,
						current: ctype == protocol.COMMAND_LOCK && valKind != 2})
					// `current` is finalised below (no later change of the hold)
					recordsHold = append(recordsHold, ev.h)
					recordsTime = append(recordsTime, ev.t)
					recordsVal = append(recordsVal, valKind)
				}
			}
			if !okCase {
				stats["skipped-cases"]++
				recordsHold, recordsTime, recordsVal = nil, nil, nil
				continue
			}
			// a record is "current" when no change of its hold happened after it was written, and its value (if any) is the key's
			for i, rc := range records {
				lc, ok := lastChangeOf[recordsHold[i]]
				rc.current = rc.current && ok && recordsTime[i] >= lc
				if recordsVal[i] == 1 && rc.rec.data != nil {
					m := db.GetLockManager(&protocol.LockCommand{LockKey: vRId(holds[recordsHold[i]].key)})
					if m == nil || string(m.GetLockData()) != string(rc.rec.data) {
						rc.current = false
					}
				}
			}
			recordsHold, recordsTime, recordsVal = nil, nil, nil
			// junk: unknown key, unknown LockId on a known key
			for j := 0; j < 1+r.Intn(2); j++ {
				rec := vAofGenRec(r, T, j, false)
				rec.buf[2] = protocol.COMMAND_LOCK
				rec.buf[19], rec.buf[20] = 0, 0
				rec.buf[57], rec.buf[58], rec.buf[59], rec.buf[60] = 5, 0, 0, 0x40
				if r.Intn(2) == 0 {
					k := vRId(keys[0])
					copy(rec.buf[37:53], k[:])
				}
				recSeq++
				rec.buf[3], rec.buf[4], rec.buf[5], rec.buf[6] = byte(recSeq), byte(recSeq>>8), byte(recSeq>>16), byte(recSeq>>24)
				records = append(records, &vRwRecord{rec: rec, unit: "junk"})
			}
			// ---- the directory before the compaction
			dir := e.freshDir()
			first := []int{1, 2, 3, 1, 2, 3, 8, 9, 98, 999}[r.Intn(10)] // incl. indices whose decimal names change length inside the directory
			nfiles := 1 + r.Intn(3)
			pos := 0
			take := func(k int) []vAofRec {
				var o []vAofRec
				for ; k > 0 && pos < len(records); k-- {
					o = append(o, records[pos].rec)
					pos++
				}
				return o
			}
			if r.Intn(2) == 0 {
				e.write(dir, "rewrite.aof", cfg, take(r.Intn(3)), nil)
			}
			for i := 0; i < nfiles; i++ {
				k := (len(records) - pos) / (nfiles - i)
				if i == nfiles-1 {
					k = len(records) - pos
				}
				e.write(dir, fmt.Sprintf("append.aof.%d", first+i), cfg, take(k), nil)
			}
			cur := first + nfiles
			e.write(dir, fmt.Sprintf("append.aof.%d", cur), cfg, nil, nil)
			e.aof.dataDir = dir
			e.aof.aofFileIndex = uint32(cur)
			// ---- the compaction, at virtual now = real now
			T = time.Now().Unix()
			db.currentTime = T
			db.checkTimeoutTime = T + 1
			db.checkExpriedTime = T + 1
			view := vRwView(db, keys)
			before := vDirSnapshot(dir)
			inputs, err := e.aof.findRewriteAofFiles()
			if err != nil {
				panic(err)
			}
			_, _, lerr := e.aof.loadRewriteAofFiles(inputs)
			if lerr != nil {
				panic(lerr)
			}
			if time.Now().Unix() != T {
				// the real clock moved on during the compaction: its expired-record filter may have seen another second
				stats["second-boundary-retries"]++
				_ = os.RemoveAll(dir)
				continue
			}
			lockCommand := &protocol.LockCommand{}
			kept := map[string]bool{}
			if tmp, err := os.ReadFile(filepath.Join(dir, "rewrite.aof.tmp")); err == nil {
				for o := 12; o+64 <= len(tmp); o += 64 {
					kept[vRwRecId(tmp[o:o+64])] = true
				}
			}
			for _, rc := range records {
				// the REAL compaction's decision: is the record in rewrite.aof.tmp?  (cross-checked against the callback's steps replayed
				// here with the real HasLock)
				k := kept[vRwRecId(rc.rec.buf)]
				if k2 := vRwKeep(e.aof, rc.rec, lockCommand) && !vAofSkipped(rc.rec, T); k2 != k {
					e.monitor("C16:keep-rule-differs-from-HasLock", "the compaction kept/dropped a record against GetLockCommandExpriedTime + HasLock as the callback is written", map[string]interface{}{"now": T, "view": view, "record": rc.rec.String(), "compaction": k, "hasLock": k2})
				}
				obs := "0"
				if k {
					obs = "1"
				}
				out.emit(fmt.Sprintf("aofkeep %d %s %s", T, view, rc.rec.String()), obs)
				stats["records"]++
				if rc.aged >= 2 {
					stats["aged-2s-or-more"]++
				}
				if rc.updFlag {
					stats["update-flag"]++
					if rc.aged >= 2 {
						stats["update-flag-and-aged"]++
					}
				}
				stats["unit:"+rc.unit]++
				if rc.current {
					stats["current-terms"]++
					// the property: a record that describes the hold as it is now survives the compaction, whatever its age
					if !k {
						e.monitor("C16:compaction-drops-live-record", fmt.Sprintf("a %s-unit record written %d s ago from the current terms of a live hold (update flag %v) is dropped by the compaction's keep-rule", rc.unit, rc.aged, rc.updFlag),
							map[string]interface{}{"now": T, "view": view, "record": rc.rec.String(), "age": rc.aged})
					}
				}
			}
			snaps := [][]vAofFileImg{vDirSnapshot(dir)}
			for _, fn := range inputs {
				if err := os.Remove(filepath.Join(dir, fn)); err != nil {
					continue
				}
				snaps = append(snaps, vDirSnapshot(dir))
				_ = os.Remove(filepath.Join(dir, fn+".dat"))
				snaps = append(snaps, vDirSnapshot(dir))
			}
			_ = os.Rename(filepath.Join(dir, "rewrite.aof.tmp"), filepath.Join(dir, "rewrite.aof"))
			snaps = append(snaps, vDirSnapshot(dir))
			_ = os.Rename(filepath.Join(dir, "rewrite.aof.tmp.dat"), filepath.Join(dir, "rewrite.aof.dat"))
			snaps = append(snaps, vDirSnapshot(dir))
			{
				d2 := e.freshDir()
				for _, f := range snaps[0] {
					_ = os.WriteFile(filepath.Join(d2, f.name), f.rec, 0644)
				}
				e.aof.dataDir = d2
				e.aof.clearRewriteAofFiles(inputs)
				end := vDirString(vDirSnapshot(d2))
				_ = os.RemoveAll(d2)
				e.aof.dataDir = dir
				if end != vDirString(snaps[len(snaps)-1]) {
					e.monitor("C16:harness-steps-differ", "the step-by-step replay of clearRewriteAofFiles ends in a different directory than the real function", map[string]string{"real": end, "steps": vDirString(snaps[len(snaps)-1])})
				}
			}
			op := fmt.Sprintf("aofcompact %d %d %d %s %s", cfg, cur, T, view, vDirString(before))
			obs := make([]string, len(snaps))
			for i, s := range snaps {
				obs[i] = vDirString(s)
			}
			out.emit(op, strings.Join(obs, " | "))
			showRecover := func(recs []vAofRec, st string) string {
				if st != "ok" {
					return "err"
				}
				return vAofRecsString(recs) + ";ok"
			}
			baseRecs, baseSt := e.recoverRecs(before, cfg, T)
			out.emit(fmt.Sprintf("aofrecover %d %d %s", cfg, T, vDirString(before)), showRecover(baseRecs, baseSt))
			want := vRwFilterKept(baseRecs, kept)
			for i, s := range snaps {
				got, st := e.recoverRecs(s, cfg, T)
				out.emit(fmt.Sprintf("aofrecover %d %d %s", cfg, T, vDirString(s)), showRecover(got, st))
				have := vRwFilterKept(got, kept)
				if st == "ok" && have == want {
					continue
				}
				replay := map[string]interface{}{"before": vDirString(before), "image": vDirString(s), "recoveredLiveRecords": have, "expectedLiveRecords": want, "step": i, "steps": len(snaps) - 1, "status": st, "view": view, "now": T}
				switch {
				case i == len(snaps)-1:
					e.monitor("C16:content", "recovering from the compacted files does not give the kept records of the files they replaced", replay)
				case st != "ok":
					e.monitor("C16:crash-startup-fails", fmt.Sprintf("a crash after file-system mutation %d of %d of a compaction leaves a directory on which start-up fails", i, len(snaps)-1), replay)
				default:
					e.monitor("C16:crash-loses-records", fmt.Sprintf("a crash after file-system mutation %d of %d of a compaction (inputs removed, rewrite.aof.tmp not yet renamed) leaves a directory that recovers fewer live records", i, len(snaps)-1), replay)
				}
			}
			_ = os.RemoveAll(dir)
			stats["cases"]++
		}
		ks := []string{}
		for k := range stats {
			ks = append(ks, k)
		}
		sort.Strings(ks)
		parts := []string{}
		for _, k := range ks {
			parts = append(parts, fmt.Sprintf("%s=%d", k, stats[k]))
		}
		_ = os.WriteFile(filepath.Join(os.Getenv("VERIF_OUT"), "aofrewrite.stats"), []byte(strings.Join(parts, " ")+"\n"), 0644)
	}
}

// per-case scratch of the aofrewrite mode (which hold / second / value kind each generated record came from)
var recordsHold []int
var recordsTime []int64
var recordsVal []int

// mode aoforder (C07): what a restart replays is the journal IN THE ORDER IT WAS WRITTEN. A data dir holds several append files (a
// compaction was still running when the node stopped: rotations during a compaction do not start another one); their indices straddle
// a power of ten (…9, …10, …11), run up to 2^16 and beyond; every file holds one or two records whose order matters. The real
// FindAofFiles + LoadAofFiles must hand the records to the engine file by file in ascending index; the model line is `aofrecover`.
func vAofOrderRun(t *testing.T) {
	r := rand.New(rand.NewSource(int64(vEnvInt("VERIF_SEED", 1))))
	n := vEnvInt("VERIF_N", 12)
	out := vOpen("aoforder")
	defer out.close()
	e := vNewAofEnv(out)
	defer os.RemoveAll(e.root)
	firsts := []int{1, 7, 8, 9, 10, 97, 98, 99, 998, 999, 9999, 65534, 99998}
	T := int64(1700000000 + r.Intn(1000000))
	for it := 0; it < n; it++ {
		first := firsts[it%len(firsts)]
		if it >= len(firsts) {
			first = 1 + r.Intn(120)
		}
		nfiles := 2 + r.Intn(4)
		cfg := []uint{64, 128, 4096}[r.Intn(3)]
		dir := e.freshDir()
		var want []vAofRec
		seq := 0
		if r.Intn(3) == 0 {
			rec := vAofGenRec(r, T, seq, false)
			rec.buf[57], rec.buf[58], rec.buf[59], rec.buf[60] = 0, 0, 0, 0 // never expired
			seq++
			e.write(dir, "rewrite.aof", cfg, []vAofRec{rec}, nil)
			want = append(want, rec)
		}
		// every fourth directory: records with LARGE values, so that a file's value file is longer than the reader's buffer (cfg * 64 bytes)
		// and value frames lie across the buffer's end (the continuation read of a partly buffered frame)
		bigValues := it%4 == 3
		if bigValues {
			cfg = []uint{64, 64, 128}[r.Intn(3)]
		}
		for i := 0; i < nfiles; i++ {
			var recs []vAofRec
			nrec := 1 + r.Intn(2)
			if bigValues {
				nrec = 3 + r.Intn(4)
			}
			for j := 0; j < nrec; j++ {
				rec := vAofGenRec(r, T, seq, bigValues)
				rec.buf[57], rec.buf[58], rec.buf[59], rec.buf[60] = 0, 0, 0, 0
				if bigValues {
					n := 700 + r.Intn(1500)
					b := make([]byte, 4+n)
					b[0], b[1] = byte(n), byte(n>>8)
					for k := 0; k < n; k++ {
						b[4+k] = byte(k*7 + seq)
					}
					rec.data = b
				}
				seq++
				recs = append(recs, rec)
			}
			e.write(dir, fmt.Sprintf("append.aof.%d", first+i), cfg, recs, nil)
			want = append(want, recs...)
		}
		snap := vDirSnapshot(dir)
		_ = os.RemoveAll(dir)
		got, st := e.recoverRecs(snap, cfg, T)
		obs := "err"
		if st == "ok" {
			obs = vAofRecsString(got) + ";ok"
		}
		out.emit(fmt.Sprintf("aofrecover %d %d %s", cfg, T, vDirString(snap)), obs)
		out.stat(fmt.Sprintf("first-index-digits=%d", len(strconv.Itoa(first))))
		if st != "ok" {
			e.monitor("C07:replay:startup-fails:several-append-files", fmt.Sprintf("a data dir with append files %d..%d (each complete) cannot be loaded", first, first+nfiles-1),
				map[string]interface{}{"dir": vDirString(snap)})
			continue
		}
		same := len(got) == len(want)
		for i := 0; same && i < len(want); i++ {
			same = vAofRecEq(got[i], want[i])
		}
		if !same {
			e.monitor("C07:replay:files-out-of-order", fmt.Sprintf("append files %d..%d: the records are not replayed in the order they were written (ascending file index)", first, first+nfiles-1),
				map[string]interface{}{"dir": vDirString(snap), "written": vAofRecsString(want), "replayed": vAofRecsString(got)})
		}
	}
}

func init() {
	vModes["aoforder"] = vAofOrderRun
}
