package server

// Harness mode "parked" (C01 / C17, monitors only): ONE forced schedule at the shard mutex that no sequential harness produces. A
// request looks the key's record up, then waits for the shard mutex; while it waits, the holder of the mutex (as the expiry sweep
// does) drops the last released lock object of the key and RECYCLES the idle key record; then the request proceeds. The code guards
// against this by re-checking, under the mutex, that the record it holds still belongs to its key.
//   C01:granted-beyond-count:record-recycled-while-parked   after that schedule more holds are granted on the key than Count + 1 allows
//   C01:hold-on-unregistered-record                         a granted hold sits on a key record that is not the one registered for the key
// Build: with the engine harness files.

import (
	"fmt"
	"math/rand"
	"testing"
	"time"

	"github.com/snower/slock/protocol"
)

func vParkedCmd(kind uint8, req, lockId, key int, tflag, timeout, eflag, expried uint16) *protocol.LockCommand {
	return &protocol.LockCommand{Command: protocol.Command{Magic: protocol.MAGIC, Version: protocol.VERSION, CommandType: kind, RequestId: vId16(req)},
		LockId: vId16(lockId), LockKey: vId16(key), TimeoutFlag: tflag, Timeout: timeout, ExpriedFlag: eflag, Expried: expried}
}

func vParkedRun(t *testing.T) {
	vFastPark = true
	out := vOpen("parked")
	defer out.close()
	seed := int64(vEnvInt("VERIF_SEED", 1))
	r := rand.New(rand.NewSource(seed + 5))
	n := vEnvInt("VERIF_N", 12)
	v := vNewSeq(4, 0xff)
	results := map[int]int{}
	v.onReply = func(rp vReply) { results[rp.req] = int(rp.result) }
	req := 1000
	for it := 0; it < n; it++ {
		key := 40000 + it
		count := []int{0, 0, 1, 2}[r.Intn(4)]
		replay := map[string]interface{}{"mode": "parked", "seed": seed, "case": it, "count": count}
		lock := func(conn, lockId int) int {
			req++
			c := vParkedCmd(protocol.COMMAND_LOCK, req, lockId, key, 0, 0, 0x4000, 30)
			c.Count = uint16(count)
			_ = v.conns[conn].ProcessLockCommand(c)
			return req
		}
		// somebody took the key and gave it back: the key record stays registered (idle) until the sweep drops the released lock object
		first := lock(0, 1)
		req++
		_ = v.conns[0].ProcessLockCommand(vParkedCmd(protocol.COMMAND_UNLOCK, req, 1, key, 0, 0, 0, 0))
		probe := &protocol.LockCommand{LockKey: vId16(key)}
		if results[first] != 0 || v.db.GetLockManager(probe) == nil {
			out.stat("parked-not-established")
			continue
		}
		// the shard mutex is busy; the next LOCK arrives, finds the idle record and queues on the mutex …
		v.db.managerGlocks[0].Lock()
		done := make(chan int, 1)
		go func() { done <- lock(1, 2) }()
		time.Sleep(time.Duration(30+r.Intn(60)) * time.Millisecond)
		// … while the holder of the mutex drops the released lock object and recycles the idle record
		v.db.flushExpried(0, false)
		recycled := v.db.GetLockManager(probe) == nil
		v.db.managerGlocks[0].Unlock()
		var parked int
		select {
		case parked = <-done:
		case <-time.After(5 * time.Second):
			out.monitor("C01:parked-request-never-returned", "a LOCK that waited for the shard mutex while the key's idle record was recycled did not return within 5 s", replay)
			return
		}
		if !recycled {
			out.stat("parked-record-not-recycled")
		} else {
			out.stat("parked-record-recycled")
		}
		// more requests, each under its own LockId: at most Count + 1 holds in all
		granted := 0
		if results[parked] == 0 {
			granted++
		}
		for k := 0; k < count+2; k++ {
			q := lock(2+k%2, 3+k)
			if results[q] == 0 {
				granted++
			}
		}
		if granted > count+1 {
			out.monitor("C01:granted-beyond-count:record-recycled-while-parked", fmt.Sprintf("key %d, Count %d: a LOCK waited for the shard mutex while the key's idle record was recycled (recycled: %v); afterwards %d requests with different LockIds were granted and hold the key at the same time", key, count, recycled, granted), replay)
		}
		// every hold sits on the record registered for the key
		if m := v.db.GetLockManager(probe); m != nil {
			held := 0
			for _, h := range v.keySnap(key).holds {
				held += h.depth
			}
			if held != granted {
				out.monitor("C01:hold-on-unregistered-record", fmt.Sprintf("key %d: %d requests were granted, the record registered for the key shows holds of total depth %d", key, granted, held), replay)
			}
		} else if granted > 0 {
			out.monitor("C01:hold-on-unregistered-record", fmt.Sprintf("key %d: %d requests were granted but no record is registered for the key", key, granted), replay)
		}
		out.stat("parked-case")
		// release
		for id := 2; id < 3+count+2; id++ {
			req++
			_ = v.conns[0].ProcessLockCommand(vParkedCmd(protocol.COMMAND_UNLOCK, req, id, key, 0, 0, 0, 0))
		}
	}
}

func init() {
	vModes["parked"] = vParkedRun
}
