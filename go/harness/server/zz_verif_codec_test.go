package server

import (
	"math/rand"
	"testing"
)

// AOF record codec: the real AofLock.Encode/Decode against the regenerated table.
func init() {
	vModes["codec"] = func(t *testing.T) {
		facts := vLoadFacts()
		r := rand.New(rand.NewSource(int64(vEnvInt("VERIF_SEED", 1))))
		n := vEnvInt("VERIF_N", 200)
		out := vOpen("codec")
		defer out.close()
		for i := range facts.Layouts {
			L := &facts.Layouts[i]
			if L.Name != "AofLock" {
				continue
			}
			for it := 0; it < n*4; it++ {
				vCodecCase(r, out, L, func() *vCodec {
					a := NewAofLock()
					return &vCodec{obj: a, buf: func(old []byte) []byte { copy(a.buf, old); return a.buf },
						enc: func(b []byte) error { return a.Encode() }, dec: func(b []byte) error { return a.Decode() }}
				})
			}
		}
	}
}
