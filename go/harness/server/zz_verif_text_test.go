package server

// Harness mode "text" (package server): the result writers of the real TextServerProtocol
// (WriteCommand and ProcessBuild, which index protocol.ERROR_MSG[result]) against the model's `renderServerResult`.

import (
	"fmt"
	"math/rand"
	"net"
	"strings"
	"testing"
	"time"

	"github.com/snower/slock/protocol"
)

type vTextConn struct{ buf []byte }

func (c *vTextConn) Read(b []byte) (int, error)         { return 0, fmt.Errorf("no input") }
func (c *vTextConn) Write(b []byte) (int, error)        { c.buf = append(c.buf, b...); return len(b), nil }
func (c *vTextConn) Close() error                       { return nil }
func (c *vTextConn) LocalAddr() net.Addr                { return &net.TCPAddr{} }
func (c *vTextConn) RemoteAddr() net.Addr               { return &net.TCPAddr{} }
func (c *vTextConn) SetDeadline(t time.Time) error      { return nil }
func (c *vTextConn) SetReadDeadline(t time.Time) error  { return nil }
func (c *vTextConn) SetWriteDeadline(t time.Time) error { return nil }

func vTextPanicClass(r interface{}) string {
	s := fmt.Sprint(r)
	switch {
	case strings.Contains(s, "index out of range"):
		return "index-out-of-range"
	case strings.Contains(s, "nil pointer"):
		return "nil-pointer"
	}
	return "other"
}

func init() {
	vModes["text"] = func(t *testing.T) {
		r := rand.New(rand.NewSource(int64(vEnvInt("VERIF_SEED", 1)) + 11))
		n := vEnvInt("VERIF_N", 200)
		out := vOpen("text")
		defer out.close()
		reported := map[string]int{}
		for rep := 0; rep < 3+n/40; rep++ {
			for code := 0; code <= 15; code++ {
				for dv := 0; dv < 3; dv++ {
					for site := 0; site < 3; site++ {
						res := &protocol.LockResultCommand{}
						res.Magic, res.Version = protocol.MAGIC, protocol.VERSION
						res.CommandType = protocol.COMMAND_LOCK
						if site == 2 {
							res.CommandType = protocol.COMMAND_UNLOCK
						}
						res.Result = uint8(code)
						copy(res.LockId[:], vRandBytes(r, 16))
						res.Lcount, res.Count, res.Lrcount, res.Rcount = uint16(r.Intn(65536)), uint16(r.Intn(65536)), uint8(r.Intn(256)), uint8(r.Intn(256))
						if rep == 0 {
							res.Count, res.Rcount = 65535, 255
						}
						dataTok := "nil"
						switch dv {
						case 1:
							res.Flag = protocol.LOCK_FLAG_CONTAINS_DATA
							s := make([]byte, r.Intn(40))
							for i := range s {
								s[i] = "\r\n\x00$*ab01 \xff"[r.Intn(11)]
							}
							res.Data = protocol.NewLockResultCommandDataFromBytes(s, 0, protocol.LOCK_DATA_COMMAND_TYPE_SET, 0)
							dataTok = vHex(s)
						case 2:
							res.Flag = uint8(r.Intn(256)) &^ protocol.LOCK_FLAG_CONTAINS_DATA
						}
						op := fmt.Sprintf("textsresult %d %d %s %d %d %d %d %s", code, res.Flag, vHex(res.LockId[:]), res.Lcount, res.Count, res.Lrcount, res.Rcount, dataTok)
						obs := ""
						func() {
							defer func() {
								if rec := recover(); rec != nil {
									obs = "panic"
									sig := fmt.Sprintf("C14:result-rendering:%d", code)
									if code <= 12 && reported[sig] < 3 {
										reported[sig]++
										out.monitor(sig, "TextServerProtocol result writer panics for a defined result code ("+vTextPanicClass(rec)+")",
											map[string]interface{}{"result": code, "site": []string{"WriteCommand", "ProcessBuild(LOCK)", "ProcessBuild(UNLOCK)"}[site], "op": op})
									}
								}
							}()
							conn := &vTextConn{}
							sp := &TextServerProtocol{stream: &Stream{conn: conn}, parser: protocol.NewTextParser(make([]byte, 1024), make([]byte, 1024))}
							var err error
							if site == 0 {
								err = sp.WriteCommand(res)
							} else {
								err = sp.ProcessBuild(res)
							}
							if err != nil {
								obs = "err"
								return
							}
							obs = vHex(conn.buf)
						}()
						out.emit(op, obs)
					}
				}
			}
		}
		vTextResultObject(r, out, 40+n)
	}
}

// The result object a text connection hands to its waiting handler (TextServerProtocol.ProcessLockResultCommand): on one
// connection the object is REUSED from reply to reply (freeCommandResult), so every field must be written anew — it must equal,
// field by field, what the binary protocol answers for the same command (protocol.NewLockResultCommand of the same arguments).
//   C14:text-result-field:<field>
func vTextResultObject(r *rand.Rand, out *vOut, n int) {
	reported := map[string]int{}
	for it := 0; it < n; it++ {
		sp := &TextServerProtocol{stream: &Stream{conn: &vTextConn{}}, lockWaiter: make(chan *protocol.LockResultCommand, 1)}
		var hist []string
		for k := 0; k < 2+r.Intn(5); k++ {
			cmd := &protocol.LockCommand{}
			cmd.Magic, cmd.Version = protocol.MAGIC, protocol.VERSION
			cmd.CommandType = uint8(protocol.COMMAND_LOCK)
			if r.Intn(2) == 0 {
				cmd.CommandType = uint8(protocol.COMMAND_UNLOCK)
			}
			copy(cmd.RequestId[:], vRandBytes(r, 16))
			copy(cmd.LockId[:], vRandBytes(r, 16))
			copy(cmd.LockKey[:], vRandBytes(r, 16))
			cmd.DbId = uint8(r.Intn(256))
			cmd.Flag = uint8(r.Intn(256))
			cmd.Count, cmd.Rcount = uint16(r.Intn(65536)), uint8(r.Intn(256))
			if r.Intn(3) == 0 {
				cmd.Count, cmd.Rcount = uint16(r.Intn(3)), uint8(r.Intn(3))
			}
			result, lcount, lrcount := uint8(r.Intn(13)), uint16(r.Intn(65536)), uint8(r.Intn(256))
			var data []byte
			if r.Intn(3) == 0 {
				data = protocol.NewLockCommandDataSetData(vRandBytes(r, r.Intn(12))).Data
			}
			hist = append(hist, fmt.Sprintf("type=%d result=%d lcount=%d count=%d lrcount=%d rcount=%d data=%s", cmd.CommandType, result, lcount, cmd.Count, lrcount, cmd.Rcount, vHex(data)))
			want := protocol.NewLockResultCommand(cmd, result, 0, lcount, cmd.Count, lrcount, cmd.Rcount, data)
			if err := sp.ProcessLockResultCommand(cmd, result, lcount, lrcount, data); err != nil {
				break
			}
			got := <-sp.lockWaiter
			bad := []string{}
			add := func(ok bool, f string) {
				if !ok {
					bad = append(bad, f)
				}
			}
			add(got.CommandType == want.CommandType, "CommandType")
			add(got.RequestId == want.RequestId, "RequestId")
			add(got.Result == want.Result, "Result")
			add(got.Flag == want.Flag, "Flag")
			add(got.DbId == want.DbId, "DbId")
			add(got.LockId == want.LockId, "LockId")
			add(got.LockKey == want.LockKey, "LockKey")
			add(got.Lcount == want.Lcount, "Lcount")
			add(got.Count == want.Count, "Count")
			add(got.Lrcount == want.Lrcount, "Lrcount")
			add(got.Rcount == want.Rcount, "Rcount")
			add((got.Data == nil) == (want.Data == nil) && (got.Data == nil || vHex(got.Data.Data) == vHex(want.Data.Data)), "Data")
			for _, f := range bad {
				sig := "C14:text-result-field:" + f
				if reported[sig] < 3 {
					reported[sig]++
					out.monitor(sig, fmt.Sprintf("reply %d of one text connection: the result object's %s differs from what the binary protocol answers for the same command (the object is reused from the previous reply)", k+1, f),
						map[string]interface{}{"replies_on_this_connection": hist})
				}
			}
			out.stat("text-result-object")
			// the waiting handler gives the object back for the next reply (commandHandlerLock / commandHandlerUnlock)
			sp.freeCommandResult, got.Data = got, nil
		}
	}
}
