package server

// Harness mode "text" (package server): the result writers of the real TextServerProtocol
// (WriteCommand and ProcessBuild, which index protocol.ERROR_MSG[result]) against the model's `renderServerResult`.

import (
	"fmt"
	"math/rand"
	"net"
	"strings"
	"testing"
	"time"

	"github.com/snower/slock/protocol"
)

type vTextConn struct{ buf []byte }

func (c *vTextConn) Read(b []byte) (int, error)         { return 0, fmt.Errorf("no input") }
func (c *vTextConn) Write(b []byte) (int, error)        { c.buf = append(c.buf, b...); return len(b), nil }
func (c *vTextConn) Close() error                       { return nil }
func (c *vTextConn) LocalAddr() net.Addr                { return &net.TCPAddr{} }
func (c *vTextConn) RemoteAddr() net.Addr               { return &net.TCPAddr{} }
func (c *vTextConn) SetDeadline(t time.Time) error      { return nil }
func (c *vTextConn) SetReadDeadline(t time.Time) error  { return nil }
func (c *vTextConn) SetWriteDeadline(t time.Time) error { return nil }

func vTextPanicClass(r interface{}) string {
	s := fmt.Sprint(r)
	switch {
	case strings.Contains(s, "index out of range"):
		return "index-out-of-range"
	case strings.Contains(s, "nil pointer"):
		return "nil-pointer"
	}
	return "other"
}

func init() {
	vModes["text"] = func(t *testing.T) {
		r := rand.New(rand.NewSource(int64(vEnvInt("VERIF_SEED", 1)) + 11))
		n := vEnvInt("VERIF_N", 200)
		out := vOpen("text")
		defer out.close()
		reported := map[string]int{}
		for rep := 0; rep < 3+n/40; rep++ {
			for code := 0; code <= 15; code++ {
				for dv := 0; dv < 3; dv++ {
					for site := 0; site < 3; site++ {
						res := &protocol.LockResultCommand{}
						res.Magic, res.Version = protocol.MAGIC, protocol.VERSION
						res.CommandType = protocol.COMMAND_LOCK
						if site == 2 {
							res.CommandType = protocol.COMMAND_UNLOCK
						}
						res.Result = uint8(code)
						copy(res.LockId[:], vRandBytes(r, 16))
						res.Lcount, res.Count, res.Lrcount, res.Rcount = uint16(r.Intn(65536)), uint16(r.Intn(65536)), uint8(r.Intn(256)), uint8(r.Intn(256))
						if rep == 0 {
							res.Count, res.Rcount = 65535, 255
						}
						dataTok := "nil"
						switch dv {
						case 1:
							res.Flag = protocol.LOCK_FLAG_CONTAINS_DATA
							s := make([]byte, r.Intn(40))
							for i := range s {
								s[i] = "\r\n\x00$*ab01 \xff"[r.Intn(11)]
							}
							res.Data = protocol.NewLockResultCommandDataFromBytes(s, 0, protocol.LOCK_DATA_COMMAND_TYPE_SET, 0)
							dataTok = vHex(s)
						case 2:
							res.Flag = uint8(r.Intn(256)) &^ protocol.LOCK_FLAG_CONTAINS_DATA
						}
						op := fmt.Sprintf("textsresult %d %d %s %d %d %d %d %s", code, res.Flag, vHex(res.LockId[:]), res.Lcount, res.Count, res.Lrcount, res.Rcount, dataTok)
						obs := ""
						func() {
							defer func() {
								if rec := recover(); rec != nil {
									obs = "panic"
									sig := fmt.Sprintf("C14:result-rendering:%d", code)
									if code <= 12 && reported[sig] < 3 {
										reported[sig]++
										out.monitor(sig, "TextServerProtocol result writer panics for a defined result code ("+vTextPanicClass(rec)+")",
											map[string]interface{}{"result": code, "site": []string{"WriteCommand", "ProcessBuild(LOCK)", "ProcessBuild(UNLOCK)"}[site], "op": op})
									}
								}
							}()
							conn := &vTextConn{}
							sp := &TextServerProtocol{stream: &Stream{conn: conn}, parser: protocol.NewTextParser(make([]byte, 1024), make([]byte, 1024))}
							var err error
							if site == 0 {
								err = sp.WriteCommand(res)
							} else {
								err = sp.ProcessBuild(res)
							}
							if err != nil {
								obs = "err"
								return
							}
							obs = vHex(conn.buf)
						}()
						out.emit(op, obs)
					}
				}
			}
		}
	}
}
