package server

// Harness mode "ackflush" (C11, monitors only): the journal half of "logged before SUCCED". The ack harness (mode `ack`) decides
// itself what the local flush reports (event `A id r`); here the REAL AofFile.WriteLock / Flush / Close report it: require-ack LOCK
// records (with and without a value blob) are written to a real append file whose record file or value file fails at write time (the
// handle is closed under it: a dead disk), and what Aof.lockAcked delivers to the database's journal channel is read back.
//   C11:journal-flush:ok-reported-after-write-error   a record of a batch whose write failed (record file or value file) is reported as logged
//   C11:journal-flush:answered-twice / :never-answered the flush result of a require-ack record is delivered other than exactly once
//   C11:journal-flush:ok-not-reported                 a record of a batch that was written completely is reported as failed
// Build: with the ack harness files.

import (
	"fmt"
	"math/rand"
	"os"
	"path/filepath"
	"testing"

	"github.com/snower/slock/protocol"
)

func vAckFlushRun(t *testing.T) {
	out := vOpen("ackflush")
	defer out.close()
	seed := int64(vEnvInt("VERIF_SEED", 1))
	r := rand.New(rand.NewSource(seed + 77))
	n := vEnvInt("VERIF_N", 60)
	in := vAckNewInst()
	aof := in.v.slock.aof
	seen := map[string]int{}
	report := func(sig, what string, replay interface{}) {
		seen[sig]++
		if seen[sig] <= 3 {
			out.monitor(sig, what, replay)
		}
	}
	for it := 0; it < n; it++ {
		dir, err := os.MkdirTemp(in.v.dir, "flush")
		if err != nil {
			panic(err)
		}
		f := NewAofFile(aof, filepath.Join(dir, "append.aof.1"), os.O_WRONLY, 64*(4+r.Intn(30)))
		if err := f.Open(); err != nil {
			panic(err)
		}
		_ = f.WriteHeader()
		_ = f.Flush()
		fault := []string{"none", "none", "record-file", "value-file", "value-file"}[r.Intn(5)]
		nrec := 1 + r.Intn(3)
		withData := 0
		type rec struct {
			id   int
			ack  bool
			data bool
		}
		var recs []rec
		for k := 0; k < nrec; k++ {
			a := NewAofLock()
			a.CommandType = protocol.COMMAND_LOCK
			a.AofIndex, a.AofOffset = 1, uint32(k+1)
			a.DbId = 0
			a.LockId, a.LockKey = vId16(9000+it*8+k), vId16(500+k)
			a.ExpriedTime = 60
			rc := rec{id: 9000 + it*8 + k, ack: r.Intn(4) != 0, data: r.Intn(2) == 0 || (fault == "value-file" && k == 0)}
			if rc.ack {
				a.AofFlag |= AOF_FLAG_REQUIRE_ACKED
			}
			if rc.data {
				a.AofFlag |= AOF_FLAG_CONTAINS_DATA
				a.data = protocol.NewLockCommandDataSetData(vRandBytes(r, 1+r.Intn(20))).Data
				withData++
			}
			_ = a.Encode()
			if rc.data {
				_ = f.WriteLockData(a)
			}
			_ = f.WriteLock(a)
			recs = append(recs, rc)
		}
		replay := map[string]interface{}{"mode": "ackflush", "seed": seed, "case": it, "fault": fault, "records": fmt.Sprint(recs)}
		// the fault: the handle is gone when the buffered bytes are written
		switch fault {
		case "record-file":
			_ = f.file.Close()
		case "value-file":
			if f.dataFile != nil {
				_ = f.dataFile.Close()
			}
		}
		failed := false
		if err := f.Flush(); err != nil {
			failed = true
		}
		_ = f.Flush() // the sync timer runs Aof.Flush again
		_ = f.Close()
		if fault != "none" && !failed {
			out.stat("ackflush-fault-not-hit(" + fault + ")")
		}
		// what reached the journal channel
		answers := map[int][]bool{}
		for {
			a := in.ch.pullAny()
			if a == nil {
				break
			}
			if a.HandleType == AOF_LOCK_TYPE_ACK_FILE {
				var lid [16]byte
				copy(lid[:], a.buf[21:37]) // AofAcked copies the record's bytes, it does not decode them
				answers[vInt16(lid)] = append(answers[vInt16(lid)], a.Result == protocol.RESULT_SUCCED)
			}
			in.ch.freeAofLock(a)
		}
		for _, rc := range recs {
			got := answers[rc.id]
			switch {
			case !rc.ack:
				if len(got) != 0 {
					report("C11:journal-flush:answered-unasked", fmt.Sprintf("a record without the require-ack flag drew a flush result %v", got), replay)
				}
			case len(got) == 0:
				report("C11:journal-flush:never-answered", fmt.Sprintf("the require-ack record of LockId %d was written (fault: %s) and the file flushed twice and closed, but no flush result was delivered", rc.id, fault), replay)
			case len(got) > 1:
				report("C11:journal-flush:answered-twice", fmt.Sprintf("the require-ack record of LockId %d drew %d flush results %v (fault: %s)", rc.id, len(got), got, fault), replay)
			case failed && got[0]:
				report("C11:journal-flush:ok-reported-after-write-error", fmt.Sprintf("the write of the %s failed at flush time, yet the require-ack record of LockId %d (value blob: %v) is reported as logged: its LOCK will be answered SUCCED although the log does not hold it", fault, rc.id, rc.data), replay)
			case !failed && !got[0]:
				report("C11:journal-flush:ok-not-reported", fmt.Sprintf("every write succeeded, yet the require-ack record of LockId %d is reported as failed", rc.id), replay)
			}
		}
		out.stat("ackflush-case(" + fault + ")")
		_ = os.RemoveAll(dir)
	}
}

// pullAny: the oldest entry of the channel's queue (the channel is never Run())
func (self *AofChannel) pullAny() *AofLock {
	self.queueGlock.Lock()
	defer self.queueGlock.Unlock()
	return self.pullAofLock()
}

func init() {
	vModes["ackflush"] = vAckFlushRun
}
