package server

// Harness mode "callhandlers" (C13, binary CALL layer): every method registered in BinaryServerProtocol.callMethods
// (enumerated in-package: LIST_LOCK / LIST_LOCKED / LIST_WAIT, the replication manager's SYNC, the arbiter manager's
// REPL_* when one exists) — plain and with the Transparency* wrappers installed — is called with CallCommand bodies:
// empty, garbage, truncated protobuf, valid protobuf with boundary field values; and whole CALL frames (+ bodies) are
// fed through the real BinaryServerProtocol.Process() on net.Pipe. Any panic / hang is reported:
//   C13:call-handler-panic:<METHOD>:<kind>      (<METHOD> = FRAME for the frame layer)
// Build: only=[this file, zz_verif_texthandlers_test.go (environment), the zz_verif_engine*_test.go files].

import (
	"fmt"
	"math/rand"
	"net"
	"sort"
	"strings"
	"sync"
	"testing"
	"time"

	"github.com/snower/slock/protocol"
	"github.com/snower/slock/protocol/protobuf"
	"google.golang.org/protobuf/proto"
)

type vChConn struct {
	bp  *BinaryServerProtocol
	cli net.Conn
	mu  sync.Mutex
	got int
}

func vChNewConn(s *SLock, transparency bool) *vChConn {
	sc, cc := net.Pipe()
	c := &vChConn{cli: cc}
	c.bp = NewBinaryServerProtocol(s, NewStream(sc))
	if transparency && s.replicationManager != nil {
		_ = NewTransparencyBinaryServerProtocol(s, c.bp.stream, c.bp) // installs its LIST_* wrappers into bp.callMethods
	}
	go func() {
		buf := make([]byte, 65536)
		for {
			_ = cc.SetReadDeadline(time.Now().Add(60 * time.Second))
			n, err := cc.Read(buf)
			c.mu.Lock()
			c.got += n
			c.mu.Unlock()
			if err != nil {
				return
			}
		}
	}()
	return c
}

// varint / length-delimited protobuf pieces, written by hand so that out-of-range values can be expressed
func vChVarint(v uint64) []byte {
	var b []byte
	for v >= 0x80 {
		b = append(b, byte(v)|0x80)
		v >>= 7
	}
	return append(b, byte(v))
}

func vChField(num int, wire int, payload []byte) []byte {
	return append(vChVarint(uint64(num<<3|wire)), payload...)
}

func vChBytesField(num int, b []byte) []byte {
	return vChField(num, 2, append(vChVarint(uint64(len(b))), b...))
}

type vChBody struct {
	what string
	data []byte
}

func vChBodies(r *rand.Rand, big bool) []vChBody {
	out := []vChBody{{"empty", nil}, {"empty-nonnil", []byte{}}}
	for _, db := range []uint64{0, 1, 127, 128, 254, 255, 256, 257, 65535, 65536, 0x7fffffff, 0xffffffff, 0x100000000, 0xffffffffffffffff} {
		out = append(out, vChBody{fmt.Sprintf("dbid=%d", db), vChField(1, 0, vChVarint(db))})
		for _, kl := range []int{0, 1, 15, 16, 17, 32, 64} {
			key := make([]byte, kl)
			for i := range key {
				key[i] = byte(r.Intn(256))
			}
			if kl == 16 {
				copy(key, "list-key-0123456")
			}
			out = append(out, vChBody{fmt.Sprintf("dbid=%d key=%d bytes", db, kl), append(vChField(1, 0, vChVarint(db)), vChBytesField(2, key)...)})
		}
	}
	// through the real marshaller as well
	for _, db := range []uint32{0, 255, 256, 0xffffffff} {
		b1, _ := proto.Marshal(&protobuf.LockDBListLockRequest{DbId: db})
		b2, _ := proto.Marshal(&protobuf.LockDBListLockedRequest{DbId: db, LockKey: []byte("0123456789abcdef")})
		b3, _ := proto.Marshal(&protobuf.LockDBListWaitRequest{DbId: db, LockKey: []byte("k")})
		out = append(out, vChBody{fmt.Sprintf("ListLockRequest{%d}", db), b1}, vChBody{fmt.Sprintf("ListLockedRequest{%d}", db), b2}, vChBody{fmt.Sprintf("ListWaitRequest{%d}", db), b3})
	}
	for _, id := range []string{"", "x", strings.Repeat("0", 32), strings.Repeat("f", 32), strings.Repeat("g", 32), strings.Repeat("0", 31), strings.Repeat("0", 33), "00000000000000010000000000000001", strings.Repeat("ab", 600)} {
		b, _ := proto.Marshal(&protobuf.SyncRequest{AofId: id})
		out = append(out, vChBody{fmt.Sprintf("SyncRequest{%q}", id), b})
	}
	// truncated / malformed protobuf
	full := append(vChField(1, 0, vChVarint(300)), vChBytesField(2, []byte("0123456789abcdef"))...)
	for i := 1; i < len(full); i++ {
		out = append(out, vChBody{fmt.Sprintf("truncated at %d", i), full[:i]})
	}
	out = append(out,
		vChBody{"length prefix beyond the body", vChField(2, 2, vChVarint(1<<20))},
		vChBody{"length prefix 2^63", vChField(2, 2, vChVarint(1<<63))},
		vChBody{"unterminated varint", []byte{0x08, 0xff, 0xff, 0xff, 0xff, 0xff, 0xff, 0xff, 0xff, 0xff, 0xff, 0xff}},
		vChBody{"field number 0", []byte{0x00, 0x00}},
		vChBody{"group wire type", []byte{0x0b, 0x0c}},
		vChBody{"wire type 7", []byte{0x0f, 0x01}},
		vChBody{"fixed64 for db_id", vChField(1, 1, []byte{0, 1, 0, 0, 0, 0, 0, 0})},
		vChBody{"repeated db_id", append(vChField(1, 0, vChVarint(1)), vChField(1, 0, vChVarint(1<<40))...)},
		vChBody{"unknown fields", append(vChField(99, 0, vChVarint(7)), vChBytesField(100, []byte("zz"))...)})
	rep := 2000
	if big {
		rep = 200000
	}
	var many []byte
	for i := 0; i < rep; i++ {
		many = append(many, vChField(1, 0, vChVarint(uint64(i)))...)
	}
	out = append(out, vChBody{fmt.Sprintf("db_id repeated %d times", rep), many})
	out = append(out, vChBody{"1 MiB key", append(vChField(1, 0, vChVarint(0)), vChBytesField(2, make([]byte, 1<<20))...)})
	for i := 0; i < 40; i++ {
		out = append(out, vChBody{"garbage", vRandBytes(r, 1+r.Intn(40))})
	}
	return out
}

type vChRun struct {
	env   *vThEnv
	out   *vOut
	seen  map[string]int
	calls int
}

func (x *vChRun) report(sig, what string, replay interface{}) {
	x.seen[sig]++
	if x.seen[sig] <= 3 {
		x.out.monitor(sig, what, replay)
	}
}

// populate: a few keys with holders, waiters and values, so that the LIST_* handlers have something to render
func (x *vChRun) populate() {
	e := x.env
	for _, a := range [][]string{{"SET", "list-key-0123456", "value"}, {"LOCK", "k", "TIMEOUT", "0", "EXPRIED", "1000", "COUNT", "3", "PUSH", "e1"}, {"INCR", "n"}} {
		_ = e.call(a[0], a)
	}
	// a waiter on k (never answered inside this harness: the connection is simply left behind)
	w := vThNewWaiter(e, []string{"LOCK", "list-key-0123456", "TIMEOUT", "1000", "LOCK_ID", "waiter-1"})
	_ = w
}

// vThNewWaiter: a second text connection whose LOCK stays queued
func vThNewWaiter(e *vThEnv, args []string) *TextServerProtocol {
	sc, cc := net.Pipe()
	sp := NewTextServerProtocol(e.v.slock, NewStream(sc))
	go func() {
		buf := make([]byte, 4096)
		for {
			_ = cc.SetReadDeadline(time.Now().Add(60 * time.Second))
			if _, err := cc.Read(buf); err != nil {
				return
			}
		}
	}()
	go func() {
		defer func() { _ = recover() }()
		if h, err := sp.FindHandler(strings.ToUpper(args[0])); err == nil {
			_ = h(sp, args)
		}
	}()
	time.Sleep(5 * time.Millisecond)
	return sp
}

// one direct handler call under recover with a watchdog
func (x *vChRun) callMethod(c *vChConn, method string, body vChBody, variant string) {
	x.calls++
	h, err := c.bp.FindCallMethod(method)
	if err != nil {
		return
	}
	cmd := &protocol.CallCommand{Command: protocol.Command{Magic: protocol.MAGIC, Version: protocol.VERSION, CommandType: protocol.COMMAND_CALL, RequestId: vId16(x.calls)},
		Encoding: protocol.CALL_COMMAND_ENCODING_PROTOBUF, Charset: protocol.CALL_COMMAND_CHARSET_UTF8, ContentLen: uint32(len(body.data)), MethodName: method, Data: body.data}
	done := make(chan string, 1)
	go func() {
		defer func() {
			if rec := recover(); rec != nil {
				done <- "panic:" + vThPanicKind(rec) + ":" + fmt.Sprint(rec) + " @ " + vThWhere()
			}
		}()
		res, _ := h(c.bp, cmd)
		if res != nil {
			_ = c.bp.Write(res)
		}
		done <- "ok"
	}()
	res := ""
	start := time.Now()
	closed := false
	for res == "" {
		select {
		case res = <-done:
		case <-time.After(20 * time.Millisecond):
			if method == "SYNC" && !closed && time.Since(start) > 55*time.Millisecond {
				// a started synchronisation legitimately owns the connection until it is closed
				_ = c.cli.Close()
				_ = c.bp.stream.Close()
				closed = true
			}
			if time.Since(start) > 3*time.Second {
				res = "hang"
			}
		}
	}
	d := body.data
	if len(d) > 48 {
		d = d[:48]
	}
	rec := fmt.Sprintf("# callhandlers %s %s %s %q %s(%d bytes)", strings.SplitN(res, ":", 3)[0], variant, method, body.what, vHex(d), len(body.data))
	x.out.emit(rec, rec)
	if strings.HasPrefix(res, "panic:") {
		p := strings.SplitN(res, ":", 3)
		x.report("C13:call-handler-panic:"+method+":"+p[1], "a binary CALL handler panics on a client-supplied body ("+p[2]+"); the connection goroutine has no recover, the server process dies",
			map[string]interface{}{"method": method, "protocol": variant, "body": body.what, "body_hex": vHex(body.data[:vChMin(len(body.data), 256)]), "body_len": len(body.data)})
	} else if res == "hang" {
		x.report("C13:call-handler-panic:"+method+":hang", "a binary CALL handler did not return within 3 s", map[string]interface{}{"method": method, "protocol": variant, "body": body.what})
	}
	if closed || res != "ok" {
		// rebuild the connection (and, after a panic, the node: a panic may have left engine locks held)
		if res != "ok" {
			x.env = vThNewEnv()
			x.populate()
		}
	}
}

func vChMin(a, b int) int {
	if a < b {
		return a
	}
	return b
}

func vChFrame(method []byte, contentLen uint32, magic, version, ctype byte) []byte {
	f := make([]byte, 64)
	f[0], f[1], f[2] = magic, version, ctype
	for i := 3; i < 19; i++ {
		f[i] = byte(i)
	}
	f[19], f[20], f[21] = 0, protocol.CALL_COMMAND_ENCODING_PROTOBUF, protocol.CALL_COMMAND_CHARSET_UTF8
	f[22], f[23], f[24], f[25] = byte(contentLen), byte(contentLen>>8), byte(contentLen>>16), byte(contentLen>>24)
	copy(f[26:], method)
	return f
}

// whole frames (+ body bytes) through the real Process()
func (x *vChRun) frames(r *rand.Rand, n int) {
	type fcase struct {
		what   string
		stream []byte
	}
	body := vChField(1, 0, vChVarint(0))
	body256 := vChField(1, 0, vChVarint(256))
	var cases []fcase
	add := func(what string, method []byte, clen uint32, b []byte) {
		cases = append(cases, fcase{what, append(vChFrame(method, clen, protocol.MAGIC, protocol.VERSION, protocol.COMMAND_CALL), b...)})
	}
	add("LIST_LOCK ContentLen 0", []byte("LIST_LOCK"), 0, nil)
	add("LIST_LOCK body db 0", []byte("LIST_LOCK"), uint32(len(body)), body)
	add("LIST_LOCK body db 256", []byte("LIST_LOCK"), uint32(len(body256)), body256)
	add("LIST_LOCKED body db 256", []byte("LIST_LOCKED"), uint32(len(body256)), body256)
	add("LIST_WAIT body db 256", []byte("LIST_WAIT"), uint32(len(body256)), body256)
	add("ContentLen larger than what follows", []byte("LIST_LOCK"), 100, body)
	add("ContentLen smaller than what follows", []byte("LIST_LOCK"), 1, append(append([]byte{}, body...), make([]byte, 70)...))
	add("ContentLen = CONTENT_DATA_MAX_LENGTH, no body", []byte("LIST_LOCK"), CONTENT_DATA_MAX_LENGTH, nil)
	add("ContentLen = CONTENT_DATA_MAX_LENGTH, full body", []byte("LIST_LOCK"), CONTENT_DATA_MAX_LENGTH, make([]byte, CONTENT_DATA_MAX_LENGTH))
	add("ContentLen = CONTENT_DATA_MAX_LENGTH+1", []byte("LIST_LOCK"), CONTENT_DATA_MAX_LENGTH+1, nil)
	add("ContentLen = 0xffffffff", []byte("LIST_LOCK"), 0xffffffff, nil)
	add("method name empty", nil, 0, nil)
	add("method name 37 bytes", []byte(strings.Repeat("M", 37)), 0, nil)
	add("method name 38 bytes (no NUL)", []byte(strings.Repeat("M", 38)), 0, nil)
	add("method name NUL LIST_LOCK NUL", append([]byte{0, 0}, []byte("LIST_LOCK")...), uint32(len(body256)), body256)
	add("method name with inner NUL", []byte("LIST\x00LOCK"), 0, nil)
	add("method name lower case", []byte("list_lock"), uint32(len(body)), body)
	add("unknown method", []byte("NO_SUCH_METHOD"), uint32(len(body)), body)
	add("method name 0xff bytes", []byte("\xff\xfe\x80"), 0, nil)
	cases = append(cases, fcase{"bad magic", vChFrame([]byte("LIST_LOCK"), 0, 0, protocol.VERSION, protocol.COMMAND_CALL)})
	cases = append(cases, fcase{"bad version", vChFrame([]byte("LIST_LOCK"), 0, protocol.MAGIC, 99, protocol.COMMAND_CALL)})
	cases = append(cases, fcase{"two CALL frames back to back", append(append(vChFrame([]byte("LIST_LOCK"), uint32(len(body)), protocol.MAGIC, protocol.VERSION, protocol.COMMAND_CALL), body...),
		append(vChFrame([]byte("LIST_WAIT"), uint32(len(body256)), protocol.MAGIC, protocol.VERSION, protocol.COMMAND_CALL), body256...)...)})
	for i := 0; i < 20+n; i++ {
		methods := []string{"LIST_LOCK", "LIST_LOCKED", "LIST_WAIT", "X"}
		bodies := vChBodies(r, false)
		b := bodies[r.Intn(len(bodies))].data
		if len(b) > 4096 {
			b = b[:4096]
		}
		clen := uint32(len(b))
		if r.Intn(5) == 0 {
			clen = uint32(r.Intn(200))
		}
		add("random", []byte(methods[r.Intn(len(methods))]), clen, b)
	}
	for _, transparency := range []bool{false, true} {
		for _, fc := range cases {
			x.calls++
			c := vChNewConn(x.env.v.slock, transparency)
			done := make(chan string, 1)
			go func() {
				defer func() {
					if rec := recover(); rec != nil {
						done <- "panic:" + vThPanicKind(rec) + ":" + fmt.Sprint(rec) + " @ " + vThWhere()
					}
				}()
				_ = c.bp.Process()
				done <- "ok"
			}()
			stream := fc.stream
			go func() {
				for len(stream) > 0 {
					k := 1 + r.Intn(len(stream))
					if k > 60000 {
						k = 60000
					}
					_ = c.cli.SetWriteDeadline(time.Now().Add(2 * time.Second))
					if _, err := c.cli.Write(stream[:k]); err != nil {
						return
					}
					stream = stream[k:]
				}
				time.Sleep(15 * time.Millisecond)
				_ = c.cli.Close()
			}()
			res := ""
			select {
			case res = <-done:
			case <-time.After(4 * time.Second):
				res = "hang"
			}
			variant := "binary"
			if transparency {
				variant = "transparency"
			}
			rec := fmt.Sprintf("# callframes %s %s %q", strings.SplitN(res, ":", 3)[0], variant, fc.what)
			x.out.emit(rec, rec)
			if strings.HasPrefix(res, "panic:") {
				p := strings.SplitN(res, ":", 3)
				x.report("C13:call-handler-panic:FRAME:"+p[1], "BinaryServerProtocol.Process() panics on a client CALL frame ("+p[2]+")",
					map[string]interface{}{"case": fc.what, "protocol": variant, "stream_hex": vHex(fc.stream[:vChMin(len(fc.stream), 200)]), "stream_len": len(fc.stream)})
				x.env = vThNewEnv()
				x.populate()
			} else if res == "hang" {
				x.report("C13:call-handler-panic:FRAME:hang", "BinaryServerProtocol.Process() did not return within 4 s after its connection was closed", map[string]interface{}{"case": fc.what, "protocol": variant})
				x.env = vThNewEnv()
				x.populate()
			}
		}
	}
}

func init() {
	vModes["callhandlers"] = func(t *testing.T) {
		seed := int64(vEnvInt("VERIF_SEED", 1))
		n := vEnvInt("VERIF_N", 10)
		out := vOpen("callhandlers")
		defer out.close()
		r := rand.New(rand.NewSource(seed))
		x := &vChRun{env: vThNewEnv(), out: out, seen: map[string]int{}}
		x.populate()
		t0 := time.Now()
		for _, transparency := range []bool{false, true} {
			variant := "binary"
			if transparency {
				variant = "transparency"
			}
			c := vChNewConn(x.env.v.slock, transparency)
			_, _ = c.bp.FindCallMethod("")
			var methods []string
			for m := range c.bp.callMethods {
				methods = append(methods, m)
			}
			sort.Strings(methods)
			for _, m := range methods {
				for _, b := range vChBodies(r, n >= 100) {
					if m == "SYNC" && !strings.HasPrefix(b.what, "SyncRequest") && b.what != "empty" && r.Intn(n/4+12) != 0 {
						continue // SYNC reads field 1 as a string and, without one, starts a full synchronisation (≥ 60 ms each here): a sample of the other bodies is enough
					}
					if c.bp.stream.closed {
						c = vChNewConn(x.env.v.slock, transparency)
					}
					env := x.env
					x.callMethod(c, m, b, variant)
					if x.env != env {
						c = vChNewConn(x.env.v.slock, transparency)
					}
				}
			}
			fmt.Printf("callhandlers: %s methods %v done after %.1fs, %d calls\n", variant, methods, time.Since(t0).Seconds(), x.calls)
		}
		x.frames(r, n)
		fmt.Printf("callhandlers: frames done after %.1fs, %d calls, signatures %v\n", time.Since(t0).Seconds(), x.calls, x.seen)
	}
}
