package server

import (
	"bufio"
	"bytes"
	"encoding/hex"
	"fmt"
	"os"
	"math/rand"
	"strings"
	"testing"

	"github.com/snower/slock/protocol"
)

// Mode "value": the REAL LockManager.ProcessLockData on a bare LockManager, driven by seeded random
// sequences of value frames. One line per sequence:
//   value <locked> <waited01> <lock|unlock> <updOrZero01> <fromAof01> <recover01> <frame hex>;<frame hex>;...
// observation per frame (joined by ';'):  nil | <data hex> <commandType> <isAof01> <data[len:cap] hex> | refused | panic
//   (refused = NewLockCommandDataFromOriginBytes returned nil: the stream parser answers with an error)
// Monitors (evaluated on the real code only, independent of the Lean model):
//   value-mismatch:<OP>…  a plain sequential interpreter (bytes / int64 / array) disagrees with the real cell
//   len-prefix:<OP>        the cell's 4-byte length prefix is not len-4 (the cell is sent to clients as a frame)
//   refused-changed        a frame the stage / first-or-last gate refuses changed the cell
//   panic:<OP>-<cause>     ProcessLockData (or NewLockCommandDataFromOriginBytes) panicked

type vvVal struct {
	kind int // 0 none, 1 bytes, 2 array
	b    []byte
	xs   [][]byte
}

func (v vvVal) String() string {
	switch v.kind {
	case 0:
		return "none"
	case 1:
		return "bytes:" + vHex(v.b)
	}
	s := make([]string, len(v.xs))
	for i, x := range v.xs {
		s[i] = vHex(x)
	}
	return "array:[" + strings.Join(s, ",") + "]"
}

func (v vvVal) equal(w vvVal) bool {
	if v.kind != w.kind {
		return false
	}
	if v.kind == 1 {
		return bytes.Equal(v.b, w.b)
	}
	if v.kind == 2 {
		if len(v.xs) != len(w.xs) {
			return false
		}
		for i := range v.xs {
			if !bytes.Equal(v.xs[i], w.xs[i]) {
				return false
			}
		}
	}
	return true
}

type vvOp struct {
	kind  string // SET UNSET INCR APPEND SHIFT PUSH POP PIPELINE
	b     []byte
	arr   [][]byte
	isArr bool
	isNum bool
	n     uint32
	props []*protocol.LockCommandDataProperty
	fl    bool // first-or-last flag
	subs  []*vvOp
}

func vvLE(b []byte) int64 {
	var n uint64
	for i := 0; i < 8 && i < len(b); i++ {
		n |= uint64(b[i]) << (8 * uint(i))
	}
	return int64(n)
}

func vvLE64(n int64) []byte {
	b := make([]byte, 8)
	for i := range b {
		b[i] = byte(uint64(n) >> (8 * uint(i)))
	}
	return b
}

func vvLE32(n uint32) []byte {
	return []byte{byte(n), byte(n >> 8), byte(n >> 16), byte(n >> 24)}
}

// the specification: a sequential register
func vvApply(v vvVal, o *vvOp) vvVal {
	switch o.kind {
	case "SET":
		if o.isArr {
			return vvVal{kind: 2, xs: append([][]byte{}, o.arr...)}
		}
		return vvVal{kind: 1, b: append([]byte{}, o.b...)}
	case "UNSET":
		return vvVal{}
	case "INCR":
		var old int64
		if v.kind == 1 {
			old = vvLE(v.b)
		}
		return vvVal{kind: 1, b: vvLE64(old + vvLE(o.b))}
	case "APPEND":
		var old []byte
		if v.kind == 1 {
			old = v.b
		}
		return vvVal{kind: 1, b: append(append([]byte{}, old...), o.b...)}
	case "SHIFT":
		if v.kind == 1 {
			n := int(o.n)
			if n > len(v.b) {
				n = len(v.b)
			}
			return vvVal{kind: 1, b: append([]byte{}, v.b[n:]...)}
		}
		return v
	case "PUSH":
		var xs [][]byte
		if v.kind == 2 {
			xs = append(xs, v.xs...)
		}
		return vvVal{kind: 2, xs: append(xs, append([]byte{}, o.b...))}
	case "POP":
		if v.kind == 2 {
			n := int(o.n)
			if n > len(v.xs) {
				n = len(v.xs)
			}
			return vvVal{kind: 2, xs: append([][]byte{}, v.xs[n:]...)}
		}
		return v
	case "PIPELINE":
		for _, s := range o.subs {
			v = vvApply(v, s)
		}
		return v
	}
	return v
}

func vvClone(b []byte) []byte {
	c := make([]byte, len(b))
	copy(c, b)
	return c
}

// frame of a well-formed operation, built with the real constructors
func vvFrame(o *vvOp) []byte {
	var d *protocol.LockCommandData
	switch o.kind {
	case "SET":
		switch {
		case o.isArr:
			d = protocol.NewLockCommandDataSetArray(o.arr)
		case o.isNum:
			d = protocol.NewLockCommandDataFromBytes(o.b, protocol.LOCK_DATA_STAGE_CURRENT, protocol.LOCK_DATA_COMMAND_TYPE_SET, protocol.LOCK_DATA_FLAG_VALUE_TYPE_NUMBER, o.props)
		case o.props != nil:
			d = protocol.NewLockCommandDataSetDataWithProperty(o.b, o.props)
		default:
			d = protocol.NewLockCommandDataSetData(o.b)
		}
	case "UNSET":
		d = protocol.NewLockCommandDataUnsetData()
	case "INCR":
		if len(o.b) == 8 && o.props == nil {
			d = protocol.NewLockCommandDataIncrData(vvLE(o.b))
		} else if len(o.b) == 8 {
			d = protocol.NewLockCommandDataIncrDataWithProperty(vvLE(o.b), o.props)
		} else {
			d = protocol.NewLockCommandDataFromBytes(o.b, protocol.LOCK_DATA_STAGE_CURRENT, protocol.LOCK_DATA_COMMAND_TYPE_INCR, protocol.LOCK_DATA_FLAG_VALUE_TYPE_NUMBER, o.props)
		}
	case "APPEND":
		if o.props != nil {
			d = protocol.NewLockCommandDataAppendDataWithProperty(o.b, o.props)
		} else {
			d = protocol.NewLockCommandDataAppendData(o.b)
		}
	case "SHIFT":
		if o.props != nil {
			d = protocol.NewLockCommandDataFromBytes(vvLE32(o.n), protocol.LOCK_DATA_STAGE_CURRENT, protocol.LOCK_DATA_COMMAND_TYPE_SHIFT, protocol.LOCK_DATA_FLAG_VALUE_TYPE_NUMBER, o.props)
		} else {
			d = protocol.NewLockCommandDataShiftData(o.n)
		}
	case "PUSH":
		if o.props != nil {
			d = protocol.NewLockCommandDataPushDataWithProperty(o.b, o.props)
		} else {
			d = protocol.NewLockCommandDataPushData(o.b)
		}
	case "POP":
		if o.props != nil {
			d = protocol.NewLockCommandDataFromBytes(vvLE32(o.n), protocol.LOCK_DATA_STAGE_CURRENT, protocol.LOCK_DATA_COMMAND_TYPE_POP, protocol.LOCK_DATA_FLAG_VALUE_TYPE_NUMBER, o.props)
		} else {
			d = protocol.NewLockCommandDataPopData(o.n)
		}
	case "PIPELINE":
		subs := make([]*protocol.LockCommandData, len(o.subs))
		for i, s := range o.subs {
			subs[i] = &protocol.LockCommandData{Data: vvFrame(s)}
		}
		d = protocol.NewLockCommandDataPipelineData(subs)
	}
	f := vvClone(d.Data)
	if o.fl {
		f[5] |= protocol.LOCK_DATA_FLAG_PROCESS_FIRST_OR_LAST
	}
	return f
}

var vvEdgeNums = []int64{0, 1, -1, 2, -2, 255, 256, 1<<31 - 1, 1 << 31, 1<<32 - 1, 1 << 32, 1<<63 - 1, -1 << 63, -1<<63 + 1, 1 << 62, -1 << 62}

func vvSmallBytes(r *rand.Rand, min int) []byte {
	n := min
	switch r.Intn(8) {
	case 0:
		n += r.Intn(40)
	default:
		n += r.Intn(6)
	}
	return vRandBytes(r, n)
}

func vvProps(r *rand.Rand) []*protocol.LockCommandDataProperty {
	if r.Intn(3) != 0 {
		return nil
	}
	ps := make([]*protocol.LockCommandDataProperty, r.Intn(3)) // possibly an EMPTY property list (header with length 0)
	for i := range ps {
		var v []byte
		if r.Intn(3) != 0 {
			v = vvSmallBytes(r, 1)
		}
		ps[i] = protocol.NewLockCommandDataProperty(uint8(1+r.Intn(3)), v)
	}
	return ps
}

func vvCount(r *rand.Rand, have int) uint32 {
	switch r.Intn(8) {
	case 0:
		return 0
	case 1:
		return uint32(have)
	case 2:
		return uint32(have + 1)
	case 3:
		return uint32(have + 2 + r.Intn(30)) // beyond the length, possibly still within the frame length
	case 4:
		return []uint32{1 << 16, 1<<31 - 1, 1 << 31, 1<<32 - 1}[r.Intn(4)]
	}
	if have > 0 {
		return uint32(1 + r.Intn(have))
	}
	return uint32(1 + r.Intn(3))
}

// a random operation that is type-correct for the current spec value
func vvGenOp(r *rand.Rand, v vvVal, depth int) *vvOp {
	o := &vvOp{}
	for {
		k := r.Intn(16)
		switch {
		case k == 0:
			o.kind = "SET"
			o.b = vvSmallBytes(r, 0)
			o.props = vvProps(r)
		case k == 1:
			o.kind, o.isNum = "SET", true
			o.b = vvLE64(vvEdgeNums[r.Intn(len(vvEdgeNums))])
			o.props = vvProps(r)
		case k == 2:
			o.kind, o.isArr = "SET", true
			o.arr = make([][]byte, r.Intn(4))
			for i := range o.arr {
				o.arr[i] = vvSmallBytes(r, 1)
				if r.Intn(10) == 0 {
					o.arr[i] = []byte{} // zero-length elements are ordinary elements
				}
			}
		case k == 3:
			o.kind = "UNSET"
		case k <= 5 && v.kind != 2:
			o.kind = "INCR"
			if r.Intn(3) == 0 {
				o.b = vvLE64(r.Int63() - r.Int63())
			} else {
				o.b = vvLE64(vvEdgeNums[r.Intn(len(vvEdgeNums))])
			}
			if r.Intn(6) == 0 { // short / long operand: GetIncrValue reads up to 8 bytes, zero-extended
				o.b = vRandBytes(r, []int{1, 2, 4, 7, 9, 12}[r.Intn(6)])
			}
			o.props = vvProps(r)
		case k <= 7 && v.kind != 2:
			o.kind = "APPEND"
			o.b = vvSmallBytes(r, 0)
			o.props = vvProps(r)
		case k <= 9 && v.kind != 2:
			o.kind = "SHIFT"
			o.n = vvCount(r, len(v.b))
			if r.Intn(6) == 0 {
				o.props = vvProps(r)
			}
		case k <= 11:
			o.kind = "PUSH"
			o.b = vvSmallBytes(r, 1)
			if r.Intn(12) == 0 {
				o.b = []byte{} // zero-length element
			}
			o.props = vvProps(r)
		case k <= 13:
			o.kind = "POP"
			o.n = vvCount(r, len(v.xs))
			if r.Intn(6) == 0 {
				o.props = vvProps(r)
			}
		case k == 14 && depth < 2:
			o.kind = "PIPELINE"
			w := v
			for i, n := 0, r.Intn(4); i < n; i++ {
				s := vvGenOp(r, w, depth+1)
				o.subs = append(o.subs, s)
				w = vvApply(w, s)
			}
		default:
			continue
		}
		return o
	}
}

// ---- raw / damaged frames -------------------------------------------------------------------------

func vvRawFrame(r *rand.Rand, v vvVal, depth int) []byte {
	switch r.Intn(10) {
	case 0: // very short frames
		return vRandBytes(r, r.Intn(8))
	case 1: // random bytes, correct length prefix
		n := 2 + r.Intn(30)
		f := append(vvLE32(uint32(n)), vRandBytes(r, n)...)
		f[4] = byte(r.Intn(10)) | byte(r.Intn(4)&r.Intn(4))<<6
		return f
	case 2: // header only, any op / stage / flags
		return []byte{2, 0, 0, 0, byte(r.Intn(10)) | byte(r.Intn(4)&r.Intn(4))<<6, byte(r.Intn(256))}
	case 3: // array SET with damaged element lengths
		arr := make([][]byte, 1+r.Intn(3))
		for i := range arr {
			arr[i] = vvSmallBytes(r, 0)
		}
		f := vvClone(protocol.NewLockCommandDataSetArray(arr).Data)
		if len(f) > 6 && r.Intn(2) == 0 {
			f[6+r.Intn(len(f)-6)] ^= byte(1 << uint(r.Intn(8)))
		}
		if r.Intn(3) == 0 {
			f = f[:len(f)-r.Intn(3)]
		}
		return vvClone(f)
	case 4: // pipeline of raw frames (+ trailing garbage)
		if depth < 2 {
			var body []byte
			for i, n := 0, r.Intn(4); i < n; i++ {
				body = append(body, vvRawFrame(r, v, depth+1)...)
			}
			if r.Intn(3) == 0 {
				body = append(body, vRandBytes(r, r.Intn(6))...)
			}
			f := append(vvLE32(uint32(len(body)+2)), protocol.LOCK_DATA_COMMAND_TYPE_PIPELINE, 0)
			if r.Intn(6) == 0 {
				f[5] = byte(r.Intn(256))
			}
			return append(f, body...)
		}
	case 5: // EXECUTE with a non-current stage (queued, never decoded here) — outside the core subset
		n := r.Intn(70)
		f := append(vvLE32(uint32(n+2)), protocol.LOCK_DATA_COMMAND_TYPE_EXECUTE|byte(1+r.Intn(3))<<6, byte(r.Intn(2))*0x20)
		return append(f, vRandBytes(r, n)...)
	}
	// a well-formed frame, damaged
	f := vvFrame(vvGenOp(r, v, depth))
	switch r.Intn(8) {
	case 0:
		if len(f) > 0 {
			f = f[:r.Intn(len(f))]
		}
	case 1:
		f = append(f, vRandBytes(r, 1+r.Intn(5))...)
	case 2:
		f[r.Intn(len(f))] ^= byte(1 << uint(r.Intn(8)))
	case 3:
		f[5] ^= protocol.LOCK_DATA_FLAG_CONTAINS_PROPERTY
	case 4:
		f[5] = byte(r.Intn(256))
	case 5:
		f[4] = f[4]&0x3f | byte(r.Intn(4))<<6
	case 6:
		f[4] = f[4]&0xc0 | byte(r.Intn(12))
	case 7:
		if len(f) >= 8 {
			f[6], f[7] = byte(r.Intn(40)), byte(r.Intn(2)*r.Intn(2))
			f[5] |= protocol.LOCK_DATA_FLAG_CONTAINS_PROPERTY
		}
	}
	return vvClone(f)
}

// would this frame reach `lock.protocol.GetLockCommand()` (EXECUTE, current stage, no undo record)?
// That path needs a connected protocol + LockDB and is outside the core subset.
func vvHasLiveExecute(f []byte) bool {
	if len(f) < 6 {
		return false
	}
	op, stage := f[4]&0x3f, f[4]>>6
	if op == protocol.LOCK_DATA_COMMAND_TYPE_EXECUTE {
		return stage == 0
	}
	if op != protocol.LOCK_DATA_COMMAND_TYPE_PIPELINE || stage != 0 {
		return false
	}
	off := 6
	if f[5]&protocol.LOCK_DATA_FLAG_CONTAINS_PROPERTY != 0 {
		if len(f) < 8 {
			return false
		}
		off = 8 + int(f[6]) + int(f[7])<<8
	}
	if off > len(f) {
		return false
	}
	buf := f[off:]
	for i := 0; i+4 <= len(buf); {
		n := int(uint32(buf[i]) | uint32(buf[i+1])<<8 | uint32(buf[i+2])<<16 | uint32(buf[i+3])<<24)
		if i+4+n > len(buf) {
			break
		}
		if vvHasLiveExecute(buf[i : i+4+n]) {
			return true
		}
		if n < 2 {
			break
		}
		i += 4 + n
	}
	return false
}

// ---- reading the real cell (monitor side) ---------------------------------------------------------

func vvCellOffset(d []byte) (int, bool) {
	if len(d) < 6 {
		return 0, false
	}
	if d[5]&protocol.LOCK_DATA_FLAG_CONTAINS_PROPERTY == 0 {
		return 6, true
	}
	if len(d) < 8 {
		return 0, false
	}
	off := 8 + int(d[6]) + int(d[7])<<8
	return off, off <= len(d)
}

func vvDecode(d []byte) (vvVal, bool) {
	if d == nil {
		return vvVal{}, true
	}
	off, ok := vvCellOffset(d)
	if !ok {
		return vvVal{}, false
	}
	p := d[off:]
	if d[5]&protocol.LOCK_DATA_FLAG_VALUE_TYPE_ARRAY == 0 {
		return vvVal{kind: 1, b: p}, true
	}
	v := vvVal{kind: 2}
	for len(p) > 0 {
		if len(p) < 4 {
			return v, false
		}
		n := int(uint32(p[0]) | uint32(p[1])<<8 | uint32(p[2])<<16 | uint32(p[3])<<24)
		if 4+n > len(p) {
			return v, false
		}
		v.xs = append(v.xs, p[4:4+n])
		p = p[4+n:]
	}
	return v, true
}

var vvOpNames = []string{"SET", "UNSET", "INCR", "APPEND", "SHIFT", "EXECUTE", "PIPELINE", "PUSH", "POP"}

func vvOpName(f []byte) string {
	if len(f) < 5 {
		return "short"
	}
	if op := int(f[4] & 0x3f); op < len(vvOpNames) {
		return vvOpNames[op]
	}
	return "OP" + fmt.Sprint(f[4]&0x3f)
}

// cause class of a panic, from the frame (as sent), the request context and the cell before the call.
// Inside a PIPELINE the cause of the first sub-frame that explains a panic is reported (every sub-frame is
// applied to the pre-pipeline cell).
func vvClassify(f []byte, pre *LockManagerData, rec bool) string {
	if len(f) < 6 {
		return "frame-shorter-than-6"
	}
	op, stage := vvOpName(f), f[4]>>6
	if stage != 0 && op != "EXECUTE" {
		return op + "-other"
	}
	usesOffset := op == "INCR" || op == "APPEND" || op == "SHIFT" || op == "PUSH" || op == "POP" || op == "PIPELINE" || (op == "EXECUTE" && stage == 0 && !rec)
	off := 6
	if f[5]&protocol.LOCK_DATA_FLAG_CONTAINS_PROPERTY != 0 && usesOffset {
		if len(f) < 8 {
			return "property-flag-on-frame-shorter-than-8"
		}
		off = 8 + int(f[6]) + int(f[7])<<8
	}
	hasData := pre != nil && pre.GetData() != nil
	cellVal := 0
	if hasData {
		cellVal = len(pre.data) - pre.GetValueOffset()
	}
	switch op {
	case "INCR":
		if len(f)-off != 8 && pre == nil {
			return "INCR-non-8-byte-operand-on-key-without-cell"
		}
	case "SHIFT":
		n := uint32(0)
		for i := 0; i < 4 && off+i < len(f); i++ {
			n |= uint32(f[off+i]) << (8 * uint(i))
		}
		if hasData && int64(n) > int64(cellVal) {
			return "SHIFT-beyond-length"
		}
	case "APPEND":
		if off > len(f) && hasData {
			return "APPEND-property-length-beyond-frame"
		}
	case "PUSH":
		if off > len(f) {
			return "PUSH-property-length-beyond-frame"
		}
	case "POP":
		if hasData && pre.IsArrayValue() {
			if _, ok := vvDecode(pre.data); !ok {
				return "POP-on-malformed-array-cell"
			}
		}
	case "PIPELINE":
		if off > len(f) {
			return "PIPELINE-property-length-beyond-frame"
		}
		buf := f[off:]
		for i := 0; i < len(buf); {
			if len(buf)-i < 4 {
				return "PIPELINE-truncated-subframe-length"
			}
			n := int(uint32(buf[i]) | uint32(buf[i+1])<<8 | uint32(buf[i+2])<<16 | uint32(buf[i+3])<<24)
			if i+4+n > len(buf) {
				break
			}
			if n < 2 {
				return "PIPELINE-subframe-shorter-than-6"
			}
			if s := vvClassify(buf[i:i+4+n], pre, rec); !strings.HasSuffix(s, "-other") {
				return s
			}
			i += 4 + n
		}
	}
	return op + "-other"
}

func vvGateRefuses(f []byte, locked uint32, waited bool, unlock bool) bool {
	stage, op := f[4]>>6, f[4]&0x3f
	if stage == protocol.LOCK_DATA_STAGE_CURRENT {
		if f[5]&protocol.LOCK_DATA_FLAG_PROCESS_FIRST_OR_LAST != 0 {
			if unlock {
				return locked != 0 || waited
			}
			return locked != 1
		}
		return false
	}
	return op != protocol.LOCK_DATA_COMMAND_TYPE_EXECUTE
}

func vvShowCell(c *LockManagerData) string {
	if c == nil {
		return "nil"
	}
	aof := 0
	if c.isAof {
		aof = 1
	}
	return fmt.Sprintf("%s %d %d %s", vHex(c.data), c.commandType, aof, vHex(c.data[len(c.data):cap(c.data)]))
}

func vv01(b bool) string {
	if b {
		return "1"
	}
	return "0"
}

// Replay: VERIF_VALUE_REPLAY=<file of op lines> runs exactly those lines on the real code (observation + panic monitor only).
func vvReplay(out *vOut, path string) {
	fh, err := os.Open(path)
	if err != nil {
		panic(err)
	}
	defer fh.Close()
	sc := bufio.NewScanner(fh)
	sc.Buffer(make([]byte, 1<<20), 1<<26)
	for sc.Scan() {
		line := strings.TrimSpace(sc.Text())
		t := strings.Split(line, " ")
		if len(t) != 8 || t[0] != "value" {
			continue
		}
		var locked uint32
		fmt.Sscan(t[1], &locked)
		waited, unlock, upd, aof, rec := t[2] == "1", t[3] == "unlock", t[4] == "1", t[5] == "1", t[6] == "1"
		lm := &LockManager{locked: locked, waited: waited}
		var obs []string
		for i, fx := range strings.Split(t[7], ";") {
			var f []byte
			if fx != "-" {
				f, _ = hex.DecodeString(fx)
			}
			f = vvClone(f)
			sent, pre, panicked, refusedByParser := vvClone(f), lm.currentData, false, false
			func() {
				defer func() {
					if e := recover(); e != nil {
						panicked = true
					}
				}()
				c := &protocol.LockCommand{}
				c.CommandType = protocol.COMMAND_LOCK
				if unlock {
					c.CommandType = protocol.COMMAND_UNLOCK
				}
				if upd {
					c.Flag |= protocol.LOCK_FLAG_UPDATE_WHEN_LOCKED
				} else {
					c.Expried = 10
				}
				if aof {
					c.Flag |= protocol.LOCK_FLAG_FROM_AOF
				}
				c.Data = protocol.NewLockCommandDataFromOriginBytes(f)
				if c.Data == nil {
					refusedByParser = true
					return
				}
				lm.ProcessLockData(c, &Lock{manager: lm, command: c}, rec)
			}()
			if refusedByParser {
				obs = append(obs, "refused")
				continue
			}
			if panicked {
				obs = append(obs, "panic")
				cls := vvClassify(sent, pre, rec)
				out.monitor("panic:"+cls, "ProcessLockData panics on a client-supplied value frame ("+cls+")", map[string]interface{}{"op": line, "frame_index": i})
				lm = &LockManager{locked: locked, waited: waited}
				continue
			}
			obs = append(obs, vvShowCell(lm.currentData))
		}
		out.emit(line, strings.Join(obs, ";"))
	}
}

func init() {
	vModes["value"] = func(t *testing.T) {
		if p := os.Getenv("VERIF_VALUE_REPLAY"); p != "" {
			out := vOpen("value")
			defer out.close()
			vvReplay(out, p)
			return
		}
		r := rand.New(rand.NewSource(int64(vEnvInt("VERIF_SEED", 1))))
		n := vEnvInt("VERIF_N", 2000)
		out := vOpen("value")
		defer out.close()
		for it := 0; it < n; it++ {
			wf := r.Intn(5) < 3
			locked := uint32(1)
			waited, unlock := false, false
			if r.Intn(4) == 0 {
				locked, waited = uint32(r.Intn(3)), r.Intn(3) == 0
			}
			if r.Intn(3) == 0 {
				unlock = true
				if r.Intn(2) == 0 {
					locked, waited = 0, false
				}
			}
			upd, aof, rec := r.Intn(3) == 0, r.Intn(4) == 0, r.Intn(3) == 0
			cmdName := "lock"
			if unlock {
				cmdName = "unlock"
			}
			newCommand := func() *protocol.LockCommand {
				c := &protocol.LockCommand{}
				c.CommandType = protocol.COMMAND_LOCK
				if unlock {
					c.CommandType = protocol.COMMAND_UNLOCK
				}
				if upd {
					if r.Intn(2) == 0 {
						c.Flag |= protocol.LOCK_FLAG_UPDATE_WHEN_LOCKED
						c.Expried = uint16(r.Intn(3))
					} else {
						c.Expried, c.ExpriedFlag = 0, []uint16{0, protocol.EXPRIED_FLAG_ZEOR_AOF_TIME, protocol.EXPRIED_FLAG_KEEPLIVED | 0x0008}[r.Intn(3)] // no bit of 0x4440
					}
				} else if r.Intn(2) == 0 {
					c.Expried = uint16(1 + r.Intn(100))
				} else {
					c.Expried, c.ExpriedFlag = 0, []uint16{0x4000, 0x0400 | 0x0040, 0x0040}[r.Intn(3)]
				}
				if aof {
					c.Flag |= protocol.LOCK_FLAG_FROM_AOF
				}
				return c
			}
			lm := &LockManager{locked: locked, waited: waited}
			spec := vvVal{}
			var frames, obs []string
			steps := 1 + r.Intn(7)
			for s := 0; s < steps; s++ {
				var f []byte
				var op *vvOp
				for try := 0; ; try++ {
					if wf {
						op = vvGenOp(r, spec, 0)
						if r.Intn(10) == 0 {
							op.fl = true
						}
						f = vvFrame(op)
					} else {
						f = vvRawFrame(r, spec, 0)
					}
					if rec || !vvHasLiveExecute(f) {
						break
					}
					if try > 20 {
						f, op = []byte{2, 0, 0, 0, protocol.LOCK_DATA_COMMAND_TYPE_UNSET, 0}, &vvOp{kind: "UNSET"}
						break
					}
				}
				f = vvClone(f)     // cap == len, as after Stream.ReadBytesFrame's make([]byte, n)
				sent := vvClone(f) // INCR / APPEND rewrite the request frame in place
				pre := lm.currentData
				var preData []byte
				if pre != nil {
					preData = vvClone(pre.data)
				}
				lineSoFar := fmt.Sprintf("value %d %s %s %s %s %s %s", locked, vv01(waited), cmdName, vv01(upd), vv01(aof), vv01(rec), strings.Join(append(frames, vHex(sent)), ";"))
				replay := map[string]interface{}{"op": lineSoFar, "frame_index": s, "cell_before": vvShowCell(pre)}
				panicked, refusedByParser := false, false
				func() {
					defer func() {
						if e := recover(); e != nil {
							panicked = true
							replay["panic"] = fmt.Sprint(e)
						}
					}()
					command := newCommand()
					command.Data = protocol.NewLockCommandDataFromOriginBytes(f)
					if command.Data == nil { // refused by the parser: ProcessParseLockData answers with an error
						refusedByParser = true
						return
					}
					lock := &Lock{manager: lm, command: command}
					lm.ProcessLockData(command, lock, rec)
				}()
				frames = append(frames, vHex(sent))
				if refusedByParser {
					obs = append(obs, "refused")
					if wf {
						out.monitor("refused-well-formed:"+op.kind, "a well-formed value frame is refused by NewLockCommandDataFromOriginBytes", replay)
					}
					continue
				}
				if panicked {
					obs = append(obs, "panic")
					cls := vvClassify(sent, pre, rec)
					out.monitor("panic:"+cls, "ProcessLockData panics on a client-supplied value frame ("+cls+")", replay)
					lm = &LockManager{locked: locked, waited: waited}
					spec = vvVal{}
					continue
				}
				obs = append(obs, vvShowCell(lm.currentData))
				refused := vvGateRefuses(sent, locked, waited, unlock)
				if refused {
					if lm.currentData != pre || (pre != nil && !bytes.Equal(pre.data, preData)) {
						out.monitor("refused-changed", "a frame refused by the stage / first-or-last gate changed the value cell", replay)
					}
				}
				real, ok := vvDecode(lm.GetLockData())
				if wf {
					specBefore := spec
					if !refused {
						spec = vvApply(spec, op)
					}
					sig := ""
					if !ok && op.kind != "PIPELINE" {
						sig = "value-mismatch:" + op.kind + "-cell-malformed"
					} else if !ok {
						sig = "value-mismatch:PIPELINE"
					} else if !real.equal(spec) {
						sig = "value-mismatch:" + op.kind
						zl := op.kind == "PUSH" && len(op.b) == 0
						for _, x := range specBefore.xs {
							zl = zl || len(x) == 0
						}
						if zl && (op.kind == "POP" || op.kind == "PUSH") {
							sig += "-zero-length-element"
						}
						if op.kind == "INCR" && len(op.b) != 8 {
							sig += "-non-8-byte-operand"
						}
					}
					if sig != "" {
						replay["spec"], replay["real"] = spec.String(), real.String()
						out.monitor(sig, "the real cell differs from the sequential interpreter after "+op.kind, replay)
						spec = real // resynchronise so that one defect is reported once
						if !ok {
							wf = false // the cell no longer decodes: the rest of the line is exercised without the interpreter
						}
					}
					eff := op // the sub-operation of a pipeline that produced the cell is its last one
					for eff.kind == "PIPELINE" && len(eff.subs) > 0 {
						eff = eff.subs[len(eff.subs)-1]
					}
					if d := lm.GetLockData(); d != nil && ok && len(d) >= 4 && lm.currentData != pre {
						if pl := int(uint32(d[0]) | uint32(d[1])<<8 | uint32(d[2])<<16 | uint32(d[3])<<24); pl != len(d)-4 {
							replay["prefix"], replay["len"] = pl, len(d)
							q := ""
							if eff.kind == "INCR" && len(eff.b) != 8 {
								q = "-non-8-byte-operand"
							}
							out.monitor("len-prefix:"+eff.kind+q, "the cell's length prefix is not len-4: a reply carrying it desynchronises the client stream", replay)
						}
					}
				}
			}
			out.emit(fmt.Sprintf("value %d %s %s %s %s %s %s", locked, vv01(waited), cmdName, vv01(upd), vv01(aof), vv01(rec), strings.Join(frames, ";")), strings.Join(obs, ";"))
		}
	}
}
