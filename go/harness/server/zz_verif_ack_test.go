package server

// E-seq for C11 (require-ack locks): a REAL SLock + LockDB + ReplicationManager + ReplicationAckDB in-process as leader, under the
// VIRTUAL clock of the engine harness (vNewSeq / tick). The journal path is intercepted so that the harness decides when a record is
// delivered and when the acknowledgements arrive:
//   * db.aofChannels[0] is a real AofChannel that is never Run(): LockManager.PushLockAof / PushUnLockAof call its real Push (which
//     builds the real AofLock, lock pointer and AOF_FLAG_REQUIRE_ACKED included); after every event the harness pulls what was pushed
//     and files it per key (FIFO per key, as one channel goroutine would deliver it);
//   * `P key`   delivers the oldest record of that key the way Aof.PushLock does: Encode, UpdateAofId(1, n) with n = 1, 2, 3, …, then the
//               REAL ReplicationManager.PushLock (→ ProcessLeaderPushLock / ProcessLeaderPushUnLock + ring buffer);
//   * `PW key`  the same followed by what AofChannel.HandleLock does when Aof.PushLock reports a write error: LockDB.DoAckLock(lock, false);
//   * `A id r`  the local flush result of record id: the REAL AofChannel.AofAcked(buf, ok) (what Aof.lockAcked calls) + HandleAofAcked;
//   * `K id f r` a follower's answer: the REAL AofChannel.Acked(result command) (what the replication server's reader calls) + HandleAcked;
//   * `R 0|1`   slock.state / db.status := FOLLOWER | LEADER (the two assignments of SLock.updateState);
//   * `D` / `F` the REAL ReplicationAckDB.SwitchToFollower() / FlushDB();
//   * `X 0|1`   the journal channel refuses pushes (channel.closed, PushLockAof returns io.EOF);
//   * `L` / `U` / `T` / `S` as in the engine harness (value frame as the last field).
// One line per history:  ack <followers> <mode> <now0> <ev>;<ev>;…      (see lean/Driver/Ack.lean); db.aofTime is 200 s throughout.

import (
	"bufio"
	"fmt"
	"math/rand"
	"os"
	"runtime/debug"
	"sort"
	"strconv"
	"strings"
	"sync/atomic"
	"testing"
	"time"

	"github.com/snower/slock/protocol"
)

const vAckFlag = 0x1000

type vAckEv struct {
	kind  string // L U T P PW A K R D F X S
	op    vOp
	frame []byte
	fhex  string
	key   int
	id    int
	fol   int
	ok    bool
	code  int // K: the result byte of a follower's NEGATIVE answer (0 = RESULT_ERROR); what a failed replay on the follower's own table sends (TIMEOUT, LOCKED_ERROR, ...) fails the record just the same
	order []int
}

func (e vAckEv) String() string {
	switch e.kind {
	case "L", "U":
		d := "-"
		if e.frame != nil {
			d = e.fhex
		}
		o := e.op
		return fmt.Sprintf("%s %d %d %d %d %d %d %d %d %d %d %d %s", e.kind, o.req, o.conn, o.flag, o.lockId, o.key, o.tflag, o.timeout, o.eflag, o.expried, o.count, o.rcount, d)
	case "P", "PW":
		return fmt.Sprintf("%s %d", e.kind, e.key)
	case "A":
		return fmt.Sprintf("A %d %s", e.id, vv01a(e.ok))
	case "K":
		if !e.ok && e.code != 0 {
			return fmt.Sprintf("K %d %d %d", e.id, e.fol, e.code) // the model reads anything but "1" as a negative answer
		}
		return fmt.Sprintf("K %d %d %s", e.id, e.fol, vv01a(e.ok))
	case "R", "X":
		return fmt.Sprintf("%s %s", e.kind, vv01a(e.ok))
	case "D", "F":
		if len(e.order) == 0 {
			return e.kind + " -"
		}
		s := make([]string, len(e.order))
		for i, x := range e.order {
			s[i] = strconv.Itoa(x)
		}
		return e.kind + " " + strings.Join(s, ",")
	}
	return e.kind
}

func vv01a(b bool) string {
	if b {
		return "1"
	}
	return "0"
}

type vAckJRec struct {
	a    *AofLock
	key  int
	req  int // RequestId of lock.command at push time (0 when the record carries no lock pointer)
	lock bool
	ord  int // global push order
}

type vAckHold struct {
	lockId, depth, req, ack int
	isAof                   bool
}

type vAckKey struct {
	key, locked int
	waited      bool
	exists      bool
	holds       []vAckHold
	waits       []string // lockId.req
	waitCount   []int
	unset       bool // the cell exists and is UNSET
	freedHold   bool // a live hold whose lock object was already handed back to the free pool
	data        []byte
}

type vAckRun struct {
	v                        *vSeq
	ch                       *AofChannel
	rm                       *ReplicationManager
	adb                      *ReplicationAckDB
	out                      *vOut
	r                        *rand.Rand
	keys                     []int
	followers, mode, aofTime int
	evs                      []vAckEv
	obs                      []string
	journal                  map[int][]*vAckJRec
	nextId                   int
	idBuf                    map[int][]byte   // id → encoded 64-byte record (what lockAcked is handed)
	idAof                    map[int][16]byte // id → 16-byte aof id (what a follower echoes as RequestId)
	idReq                    map[int]int      // id → RequestId of the lock command registered under it (0: not an ack LOCK record)
	idKey                    map[int]int
	replies                  []vReply
	leader                   bool
	closed                   bool
	mon                      *vAckMon
	nextReq                  int
	pinned                   []*LockManager
	jord                     int
	probe                    bool // the history uses value frames outside M-ACK's subset (SHIFT / PUSH / POP): run for the monitors only, not compared
	tainted                  bool // a lock object's reference count was left wrong by the real code (re-entrant require-ack LOCK, PW): the instance is not reused
	abort                    bool // the real state left what the model can follow (a freed lock object is still referenced): stop the history
}

func (x *vAckRun) keySnap(key int) vAckKey {
	ks := vAckKey{key: key}
	m := x.v.db.GetLockManager(&protocol.LockCommand{LockKey: vId16(key)})
	if m == nil {
		return ks
	}
	m.glock.Lock()
	defer m.glock.Unlock()
	if m.lockKey != vId16(key) {
		return ks
	}
	ks.exists = true
	ks.locked = int(m.locked)
	ks.waited = m.waited
	if d := m.GetLockData(); d != nil {
		ks.data = append([]byte{}, d...)
	}
	ks.unset = m.currentData != nil && m.currentData.commandType == protocol.LOCK_DATA_COMMAND_TYPE_UNSET
	add := func(l *Lock) {
		if l != nil && l.locked > 0 && l.command != nil {
			ks.holds = append(ks.holds, vAckHold{vInt16(l.command.LockId), int(l.locked), vInt16(l.command.RequestId), int(l.ackCount), l.isAof})
		}
		if l != nil && l.locked > 0 && (l.command == nil || l.manager == nil) {
			ks.freedHold = true
		}
	}
	add(m.currentLock)
	if m.locks != nil {
		for _, node := range m.locks.IterNodes() {
			for _, l := range node {
				add(l)
			}
		}
	}
	if m.waitLocks != nil {
		for _, node := range m.waitLocks.IterNodes() {
			for _, l := range node {
				if l != nil && !l.timeouted && l.ackCount == 0xff && l.locked == 0 && l.command != nil {
					ks.waits = append(ks.waits, fmt.Sprintf("%d.%d", vInt16(l.command.LockId), vInt16(l.command.RequestId)))
					ks.waitCount = append(ks.waitCount, int(l.command.Count))
				}
			}
		}
	}
	return ks
}

func (x *vAckRun) tables() (int, int) {
	a, b := 0, 0
	for i := range x.adb.commandAofs {
		x.adb.ackGlocks[i].Lock()
		a += len(x.adb.commandAofs[i])
		b += len(x.adb.aofLocks[i])
		x.adb.ackGlocks[i].Unlock()
	}
	return a, b
}

// freedRegistered: table entries whose lock object was already freed (lock.manager == nil): returns their RequestIds (0: command gone too)
func (x *vAckRun) freedRegistered(remove bool) []int {
	var out []int
	for i := range x.adb.aofLocks {
		x.adb.ackGlocks[i].Lock()
		for aid, l := range x.adb.aofLocks[i] {
			if l.manager == nil {
				rq := 0
				if l.command != nil {
					rq = vInt16(l.command.RequestId)
				}
				out = append(out, rq)
				if remove {
					delete(x.adb.aofLocks[i], aid)
				}
			}
		}
		if remove && len(out) > 0 {
			x.adb.commandAofs[i] = map[[16]byte][16]byte{}
		}
		x.adb.ackGlocks[i].Unlock()
	}
	return out
}

func (x *vAckRun) snapshot() string {
	var parts []string
	keys := append([]int{}, x.keys...)
	sort.Ints(keys)
	for _, key := range keys {
		ks := x.keySnap(key)
		if !ks.exists || (ks.locked == 0 && !ks.waited && len(ks.holds) == 0 && len(ks.waits) == 0 && ks.data == nil) {
			continue
		}
		hs := make([]string, len(ks.holds))
		for i, h := range ks.holds {
			hs[i] = fmt.Sprintf("%d.%d.%d.%s.%d", h.lockId, h.depth, h.ack, vv01a(h.isAof), h.req)
		}
		parts = append(parts, fmt.Sprintf("k%d=%d/%s/[%s]/[%s]/%s", key, ks.locked, vv01a(ks.waited), strings.Join(hs, " "), strings.Join(ks.waits, " "), vHex(ks.data)))
	}
	ca, al := x.tables()
	js := []string{}
	for _, key := range keys {
		if n := len(x.journal[key]); n > 0 {
			js = append(js, fmt.Sprintf("%d:%d", key, n))
		}
	}
	st := x.v.counters()
	b := x.v.base
	return strings.Join(parts, "|") + "|" + fmt.Sprintf("T=%d/%d J=[%s] lc=%d uc=%d ld=%d wc=%d to=%d ex=%d ue=%d", ca, al, strings.Join(js, " "),
		st.LockCount-b.LockCount, st.UnLockCount-b.UnLockCount, st.LockedCount-b.LockedCount, st.WaitCount-b.WaitCount,
		st.TimeoutedCount-b.TimeoutedCount, st.ExpriedCount-b.ExpriedCount, st.UnlockErrorCount-b.UnlockErrorCount)
}

// pull what the engine handed to the journal channel since the last call, file it per key
func (x *vAckRun) pullJournal() {
	ch := x.ch
	ch.queueGlock.Lock()
	for a := ch.pullAofLock(); a != nil; a = ch.pullAofLock() {
		x.jord++
		jr := &vAckJRec{a: a, key: vInt16(a.LockKey), ord: x.jord}
		if a.lock != nil && a.lock.command != nil {
			jr.lock = true
			jr.req = vInt16(a.lock.command.RequestId)
		}
		x.journal[jr.key] = append(x.journal[jr.key], jr)
		x.out.stat(fmt.Sprintf("journal-record(type=%d,ack=%v,flag=%#x)", a.CommandType, jr.lock, a.AofFlag&^0x1000))
	}
	ch.queueGlock.Unlock()
}

func (x *vAckRun) takeReplies() string {
	if len(x.replies) == 0 {
		return "-"
	}
	s := make([]string, len(x.replies))
	for i, r := range x.replies {
		s[i] = fmt.Sprintf("%d:%d:%d:%d:%d:%s", r.conn, r.req, r.result, r.lcount, r.lrcount, vHex(r.data))
	}
	x.replies = x.replies[:0]
	return strings.Join(s, ",")
}

func (x *vAckRun) deliver(key int, writeErr bool) {
	q := x.journal[key]
	if len(q) == 0 {
		return
	}
	jr := q[0]
	x.journal[key] = q[1:]
	a := jr.a
	_ = a.Encode()
	x.nextId++
	id := x.nextId
	_ = a.UpdateAofId(1, uint32(id))
	x.idBuf[id] = append([]byte{}, a.buf...)
	x.idAof[id] = a.GetAofId()
	x.idKey[id] = key
	if jr.lock && a.CommandType == protocol.COMMAND_LOCK {
		x.idReq[id] = jr.req
	}
	lock := a.lock
	isAckLock := a.AofFlag&AOF_FLAG_REQUIRE_ACKED != 0 && a.CommandType == protocol.COMMAND_LOCK && lock != nil
	_ = x.rm.PushLock(0, a)
	if writeErr && isAckLock {
		// AofChannel.HandleLock: err from Aof.PushLock (file write failed after the replication manager was handed the record)
		lock.manager.lockDb.DoAckLock(lock, false)
	}
	x.ch.freeAofLock(a)
}

func (x *vAckRun) oldestKey() (int, bool) {
	best, bk := -1, 0
	for k, q := range x.journal {
		if len(q) > 0 && (best < 0 || q[0].ord < best) {
			best, bk = q[0].ord, k
		}
	}
	return bk, best >= 0
}

func (x *vAckRun) pullOne() *AofLock {
	x.ch.queueGlock.Lock()
	defer x.ch.queueGlock.Unlock()
	return x.ch.pullAofLock()
}

func vAckFrame(kind string, payload []byte) []byte {
	switch kind {
	case "set":
		n := len(payload) + 2
		return append([]byte{byte(n), byte(n >> 8), 0, 0, protocol.LOCK_DATA_COMMAND_TYPE_SET, 0}, payload...)
	case "incr":
		b := []byte{10, 0, 0, 0, protocol.LOCK_DATA_COMMAND_TYPE_INCR, 0, 0, 0, 0, 0, 0, 0, 0, 0}
		copy(b[6:], payload)
		return b
	case "append":
		n := len(payload) + 2
		return append([]byte{byte(n), byte(n >> 8), 0, 0, protocol.LOCK_DATA_COMMAND_TYPE_APPEND, 0}, payload...)
	case "shift":
		return protocol.NewLockCommandDataShiftData(uint32(payload[0])).Data
	case "push":
		return protocol.NewLockCommandDataPushData(payload).Data
	case "pop":
		return protocol.NewLockCommandDataPopData(uint32(payload[0])).Data
	case "setarray":
		return protocol.NewLockCommandDataSetArray([][]byte{payload, {'q'}}).Data
	}
	return nil
}

// vAckPipeline: a PIPELINE frame holding the given sub-frames
func vAckPipeline(subs ...[]byte) []byte {
	var ds []*protocol.LockCommandData
	for _, f := range subs {
		ds = append(ds, protocol.NewLockCommandDataFromOriginBytes(f))
	}
	return protocol.NewLockCommandDataPipelineData(ds).Data
}

// vAckSimpleFrame: is f a frame M-ACK models on its own (SET / INCR with 8-byte operand / APPEND, stage 0, no property, no first-or-last)
func vAckSimpleFrame(f []byte) bool {
	if len(f) < 6 || f[4]>>6 != 0 || f[5]&0x30 != 0 {
		return false
	}
	switch f[4] & 0x3f {
	case protocol.LOCK_DATA_COMMAND_TYPE_SET, protocol.LOCK_DATA_COMMAND_TYPE_APPEND:
		return true
	case protocol.LOCK_DATA_COMMAND_TYPE_INCR:
		return len(f) == 14
	}
	return false
}

// vAckInSubset: SET / INCR / APPEND, or a PIPELINE that is exactly the concatenation of 1 or more of them
func vAckInSubset(f []byte) bool {
	if len(f) >= 6 && f[4] == protocol.LOCK_DATA_COMMAND_TYPE_PIPELINE && f[5] == 0 {
		buf, n := f[6:], 0
		for len(buf) > 0 {
			if len(buf) < 4 {
				return false
			}
			l := int(buf[0]) | int(buf[1])<<8 | int(buf[2])<<16 | int(buf[3])<<24
			if 4+l > len(buf) || !vAckSimpleFrame(buf[:4+l]) {
				return false
			}
			buf, n = buf[4+l:], n+1
		}
		return n >= 1
	}
	return vAckSimpleFrame(f)
}

func (x *vAckRun) apply(e *vAckEv) string {
	v := x.v
	switch e.kind {
	case "L", "U":
		o := e.op
		p := v.conns[o.conn-1]
		cmd := &protocol.LockCommand{Command: protocol.Command{Magic: protocol.MAGIC, Version: protocol.VERSION, CommandType: protocol.COMMAND_LOCK, RequestId: vId16(o.req)},
			Flag: uint8(o.flag), DbId: 0, LockId: vId16(o.lockId), LockKey: vId16(o.key), TimeoutFlag: uint16(o.tflag), Timeout: uint16(o.timeout),
			ExpriedFlag: uint16(o.eflag), Expried: uint16(o.expried), Count: uint16(o.count), Rcount: uint8(o.rcount)}
		if e.kind == "U" {
			cmd.CommandType = protocol.COMMAND_UNLOCK
		}
		if e.frame != nil && o.flag&0x20 != 0 {
			cmd.Data = protocol.NewLockCommandDataFromOriginBytes(append([]byte{}, e.frame...))
		}
		_ = p.ProcessLockCommand(cmd)
	case "T":
		v.tick()
	case "P":
		x.deliver(e.key, false)
	case "PW":
		x.deliver(e.key, true)
	case "A":
		buf, ok := x.idBuf[e.id]
		if !ok {
			// an id the leader never assigned: a well-formed record buffer carrying that id
			al := NewAofLock()
			al.CommandType = protocol.COMMAND_LOCK
			_ = al.Encode()
			_ = al.UpdateAofId(1, uint32(e.id))
			buf = al.buf
		}
		_ = x.ch.AofAcked(buf, e.ok)
		if a := x.pullOne(); a != nil {
			x.ch.HandleAofAcked(a)
			x.ch.freeAofLock(a)
		}
	case "K":
		aofId, ok := x.idAof[e.id]
		if !ok {
			al := NewAofLock()
			al.AofIndex, al.AofOffset = 1, uint32(e.id)
			aofId = al.GetAofId()
		}
		res := &protocol.LockResultCommand{}
		res.CommandType = protocol.COMMAND_LOCK
		res.RequestId = aofId
		res.DbId = 0
		if e.ok {
			res.Result = protocol.RESULT_SUCCED
		} else if e.code != 0 {
			res.Result = uint8(e.code)
		} else {
			res.Result = protocol.RESULT_ERROR
		}
		_ = x.ch.Acked(res)
		if a := x.pullOne(); a != nil {
			x.ch.HandleAcked(a)
			x.ch.freeAofLock(a)
		}
	case "R":
		x.leader = e.ok
		st := uint8(STATE_FOLLOWER)
		if e.ok {
			st = STATE_LEADER
			x.rm.UpdateDBAckCount()
		}
		v.slock.state = st
		v.db.status = st
	case "D", "F":
		// which registered records will answer: live pending ones (ERROR) and resurrected dead ones (LOCKED_ERROR)
		regReq := map[int]int{}
		for i := range x.adb.aofLocks {
			for aid, l := range x.adb.aofLocks[i] {
				for id, a := range x.idAof {
					if a == aid && l.command != nil {
						regReq[vInt16(l.command.RequestId)] = id
					}
				}
			}
		}
		n0 := len(x.replies)
		if e.kind == "D" {
			_ = x.adb.SwitchToFollower()
		} else {
			_ = x.adb.FlushDB()
		}
		e.order = nil
		seen := map[int]bool{}
		for _, r := range x.replies[n0:] {
			if id, ok := regReq[r.req]; ok && !seen[id] && (r.result == protocol.RESULT_ERROR || r.result == protocol.RESULT_LOCKED_ERROR) {
				seen[id] = true
				e.order = append(e.order, id)
			}
		}
	case "X":
		x.closed = e.ok
		x.ch.closed = e.ok
	case "S":
		x.pullJournal()
		return x.snapshot()
	}
	x.pullJournal()
	return x.takeReplies()
}

func (x *vAckRun) do(e vAckEv) string {
	if x.abort && os.Getenv("VERIF_ACK_NOABORT") == "" {
		return "-" // the history ended at the event that left the model's reach (reported by the monitor)
	}
	if e.frame != nil {
		e.fhex = vHex(e.frame)
	}
	x.mon.before(&e)
	x.evs = append(x.evs, e) // recorded first: a panic inside the event is that event's observation
	ob := x.apply(&e)
	x.evs[len(x.evs)-1] = e // (D / F learn their order while they run)
	x.out.stat("ev-" + e.kind)
	x.obs = append(x.obs, ob)
	x.mon.after(&e, ob)
	if os.Getenv("VERIF_ACK_DEBUG") != "" {
		fmt.Fprintf(os.Stderr, "DBG %-60s -> %s\n", e.String(), ob)
		for i := range x.adb.aofLocks {
			for aid, l := range x.adb.aofLocks[i] {
				rq := -1
				if l.command != nil {
					rq = vInt16(l.command.RequestId)
				}
				fmt.Fprintf(os.Stderr, "      entry off=%d req=%d ref=%d locked=%d ack=%d timeouted=%v expried=%v mgrnil=%v\n", aid[0], rq, l.refCount, l.locked, l.ackCount, l.timeouted, l.expried, l.manager == nil)
			}
		}
	}
	return ob
}

func (x *vAckRun) line(now0 int64) string {
	s := make([]string, len(x.evs))
	for i, e := range x.evs {
		s[i] = e.String()
	}
	return fmt.Sprintf("ack %d %d %d %s", x.followers, x.mode, now0, strings.Join(s, ";"))
}

// ---------------------------------------------------------------------------------------------
// instance

type vAckInst struct {
	v   *vSeq
	ch  *AofChannel
	rm  *ReplicationManager
	adb *ReplicationAckDB

	nconf int
}

func vAckNewInst() *vAckInst {
	v := vNewSeq(4, 0xff)
	ch := NewAofChannel(v.slock.aof, v.db, 0, v.db.managerGlocks[0])
	v.db.aofChannels[0] = ch
	rm := v.slock.replicationManager
	adb := rm.GetOrNewAckDB(0)
	return &vAckInst{v: v, ch: ch, rm: rm, adb: adb}
}

// configure: followers / ack mode. The followers LEAVE and JOIN through the real ReplicationManager.removeServerChannel /
// addServerChannel while the database's ack table already exists (as when a follower re-joins a leader that has served require-ack
// requests before): the required count every later request is judged by is the one those two functions leave behind.
func (in *vAckInst) configure(followers, mode, aofTime int) {
	if mode == 1 {
		Config.AofAckMode = 1
	} else {
		Config.AofAckMode = 0
	}
	for len(in.rm.serverChannels) > 0 {
		_ = in.rm.removeServerChannel(in.rm.serverChannels[0])
	}
	if followers == 0 {
		in.rm.UpdateDBAckCount() // nobody joins: only the mode may have changed
	}
	for i := 0; i < followers; i++ {
		_ = in.rm.addServerChannel(&ReplicationServer{bufferCursor: NewReplicationBufferQueueCursor(make([]byte, 64))})
	}
	// every other configuration: the database's ack table is created AFTER the followers have joined (the first require-ack request of a
	// database arrives when the follower set is already complete): a new table must start with the required count of the current set
	in.nconf++
	if in.nconf%2 == 0 {
		in.rm.glock.Lock()
		in.rm.ackDbs[0] = nil
		in.rm.glock.Unlock()
		in.adb = in.rm.GetOrNewAckDB(0)
	}
	in.v.db.aofTime = uint8(aofTime)
	in.v.slock.state = STATE_LEADER
	in.v.db.status = STATE_LEADER
	in.ch.closed = false
}

func (in *vAckInst) newRun(out *vOut, r *rand.Rand, keys []int, followers, mode, aofTime int, nextReq int) *vAckRun {
	in.configure(followers, mode, aofTime)
	x := &vAckRun{v: in.v, ch: in.ch, rm: in.rm, adb: in.adb, out: out, r: r, keys: keys, followers: followers, mode: mode, aofTime: aofTime,
		journal: map[int][]*vAckJRec{}, idBuf: map[int][]byte{}, idAof: map[int][16]byte{}, idReq: map[int]int{}, idKey: map[int]int{}, leader: true, nextReq: nextReq}
	x.mon = vAckNewMon(x)
	for _, k := range keys { // pin the key records: the value cell is not recycled during the history
		m := in.v.db.GetOrNewLockManager(&protocol.LockCommand{LockKey: vId16(k)})
		atomic.AddUint32(&m.refCount, 1)
		x.pinned = append(x.pinned, m)
	}
	in.v.base = in.v.counters()
	in.v.onReply = func(rp vReply) {
		if rp.data != nil {
			rp.data = append([]byte{}, rp.data...)
		}
		x.replies = append(x.replies, rp)
		x.mon.onReply(rp)
	}
	in.v.replies = in.v.replies[:0]
	return x
}

// after a history: nothing of it may influence the next one (tables cleared, journal dropped, holds released, dead wheel entries swept)
func (in *vAckInst) scrub(x *vAckRun) {
	in.v.onReply = nil
	in.v.slock.state = STATE_LEADER
	in.v.db.status = STATE_LEADER
	in.ch.closed = false
	// release everything: settled holds by an unlock-first UNLOCK; ack-pending ones are failed by FlushDB when registered and by their
	// timeout otherwise (an unlock-first UNLOCK does not take them any more, 804e6dc); every release can grant queued requests: repeat
	// until no key has a hold or a queued request left
	for round := 0; round < 120; round++ {
		x.pullJournal()
		x.freedRegistered(true)
		_ = in.adb.FlushDB()
		busy := false
		for _, key := range x.keys {
			for i := 0; i < 64; i++ {
				ks := x.keySnap(key)
				if len(ks.holds) == 0 {
					break
				}
				p := in.v.conns[0]
				cmd := &protocol.LockCommand{Command: protocol.Command{Magic: protocol.MAGIC, Version: protocol.VERSION, CommandType: protocol.COMMAND_UNLOCK, RequestId: vId16(900000000 + i)},
					Flag: 1, LockId: vId16(99999), LockKey: vId16(key)}
				_ = p.ProcessLockCommand(cmd)
				if after := x.keySnap(key); len(after.holds) >= len(ks.holds) && after.locked >= ks.locked {
					break // currentLock is ack-pending: wait for FlushDB / its timeout
				}
			}
			if ks := x.keySnap(key); len(ks.holds) > 0 || len(ks.waits) > 0 {
				busy = true
			}
		}
		if !busy {
			break
		}
		in.v.tick()
	}
	for i := 0; i < 24; i++ {
		in.v.tick()
	}
	x.pullJournal()
	x.freedRegistered(true)
	_ = in.adb.FlushDB()
	for _, m := range x.pinned {
		m.glock.Lock()
		if atomic.AddUint32(&m.refCount, 0xffffffff) == 0 {
			in.v.db.RemoveLockManager(m)
		}
		m.glock.Unlock()
	}
	x.pinned = nil
	in.v.replies = in.v.replies[:0]
}

// ---------------------------------------------------------------------------------------------
// parsing of recorded lines (replay / corpus)

func vAckParseEv(s string) (vAckEv, bool) {
	f := strings.Fields(s)
	if len(f) == 0 {
		return vAckEv{}, false
	}
	atoi := func(t string) int { n, _ := strconv.Atoi(t); return n }
	e := vAckEv{kind: f[0]}
	switch f[0] {
	case "L", "U":
		if len(f) != 13 {
			return e, false
		}
		e.op = vOp{kind: f[0][0], req: atoi(f[1]), conn: atoi(f[2]), flag: atoi(f[3]), lockId: atoi(f[4]), key: atoi(f[5]), tflag: atoi(f[6]), timeout: atoi(f[7]),
			eflag: atoi(f[8]), expried: atoi(f[9]), count: atoi(f[10]), rcount: atoi(f[11])}
		if f[12] != "-" {
			b := make([]byte, len(f[12])/2)
			for i := range b {
				n, _ := strconv.ParseUint(f[12][2*i:2*i+2], 16, 8)
				b[i] = byte(n)
			}
			e.frame = b
		}
	case "P", "PW":
		e.key = atoi(f[1])
	case "A":
		e.id, e.ok = atoi(f[1]), f[2] == "1"
	case "K":
		e.id, e.fol, e.ok = atoi(f[1]), atoi(f[2]), f[3] == "1"
		if !e.ok && f[3] != "0" {
			e.code = atoi(f[3])
		}
	case "R", "X":
		e.ok = f[1] == "1"
	case "T", "S", "D", "F":
	default:
		return e, false
	}
	return e, true
}

// ---------------------------------------------------------------------------------------------
// generator

type vAckGen struct {
	probe     bool
	x         *vAckRun
	r         *rand.Rand
	nconn     int
	nids      int
	profile   int
	maxT      int
	aofedSent map[int]bool
	ackedSent map[[2]int]bool
}

func (g *vAckGen) lockEv() vAckEv {
	r, x := g.r, g.x
	o := vOp{kind: 'L', req: x.nextReq, conn: 1 + r.Intn(g.nconn), lockId: 1 + r.Intn(g.nids), key: x.keys[r.Intn(len(x.keys))]}
	x.nextReq++
	if r.Intn(100) < 72 {
		o.tflag = vAckFlag
	}
	o.timeout = vPick(r, []int{0, 1, 2, 3, 5, 9}, []int{18, 14, 20, 18, 20, 10})
	o.expried = vPick(r, []int{1, 2, 3, 5, 8, 20}, []int{10, 15, 20, 20, 20, 15})
	o.count = vPick(r, []int{0, 1, 2}, []int{55, 30, 15})
	o.rcount = vPick(r, []int{0, 1, 2}, []int{60, 25, 15})

	if g.profile == 1 { // queue-heavy: exclusive, long waits
		o.count = 0
		o.timeout = vPick(r, []int{3, 5, 9}, []int{30, 40, 30})
		o.lockId = 1 + r.Intn(g.nids*3)
	}
	if g.profile == 2 { // capacity: several holders at once
		o.count = vPick(r, []int{1, 2, 3}, []int{40, 40, 20})
		o.lockId = 1 + r.Intn(g.nids*2)
	}
	if o.timeout > g.maxT {
		g.maxT = o.timeout
	}
	e := vAckEv{kind: "L", op: o}
	if r.Intn(100) < 40 {
		e.op.flag |= 0x20
		simple := func() []byte {
			switch r.Intn(3) {
			case 0:
				return vAckFrame("set", vRandBytes(r, 1+r.Intn(9)))
			case 1:
				return vAckFrame("incr", []byte{byte(1 + r.Intn(250)), byte(r.Intn(3))})
			}
			return vAckFrame("append", vRandBytes(r, 1+r.Intn(5)))
		}
		extended := func() []byte { // outside M-ACK's subset: probe histories only
			switch r.Intn(5) {
			case 0:
				return vAckFrame("shift", []byte{byte(1 + r.Intn(3))})
			case 1:
				return vAckFrame("push", vRandBytes(r, 1+r.Intn(4)))
			case 2:
				return vAckFrame("pop", []byte{byte(1 + r.Intn(2))})
			case 3:
				return vAckFrame("setarray", vRandBytes(r, 1+r.Intn(4)))
			}
			return simple()
		}
		e.frame = simple()
		if r.Intn(100) < 30 { // PIPELINE of 2..3 sub-operations
			var subs [][]byte
			for i, k := 0, 2+r.Intn(2); i < k; i++ {
				if g.probe {
					subs = append(subs, extended())
				} else {
					subs = append(subs, simple())
				}
			}
			e.frame = vAckPipeline(subs...)
		} else if g.probe && r.Intn(100) < 30 {
			e.frame = extended()
		}
	}
	return e
}

// doLock: one generated LOCK. (Before /repo e4ad793 a re-entrant require-ack LOCK on a journalled hold left a journal record pointing at
// the lock object without a reference; the detectors C11:table-entry-of-freed-lock / C11:live-hold-object-freed stay in place.)
func (g *vAckGen) doLock() {
	x := g.x
	e := g.lockEv()
	ob := x.do(e)
	if e.op.tflag&vAckFlag != 0 && strings.Contains(ob, fmt.Sprintf(":%d:0:", e.op.req)) {
		x.out.stat("reentrant-ack-lock")
	}
}

func (g *vAckGen) unlockEv() vAckEv {
	r, x := g.r, g.x
	o := vOp{kind: 'U', req: x.nextReq, conn: 1 + r.Intn(g.nconn), lockId: 1 + r.Intn(g.nids), key: x.keys[r.Intn(len(x.keys))]}
	x.nextReq++
	ks := x.keySnap(o.key)
	if len(ks.holds) > 0 && r.Intn(100) < 75 {
		o.lockId = ks.holds[r.Intn(len(ks.holds))].lockId
	}
	o.flag = vPick(r, []int{0, 1}, []int{88, 12})
	o.rcount = vPick(r, []int{0, 1}, []int{60, 40})
	return vAckEv{kind: "U", op: o}
}

// registered ids (still in aofLocks) and all assigned ids
func (x *vAckRun) regIds() []int {
	var ids []int
	for i := range x.adb.aofLocks {
		for aid := range x.adb.aofLocks[i] {
			for id, a := range x.idAof {
				if a == aid {
					ids = append(ids, id)
				}
			}
		}
	}
	sort.Ints(ids)
	return ids
}

func (g *vAckGen) step() {
	r, x := g.r, g.x
	// one journal channel serves the whole shard: records are delivered in the order they were pushed
	var jkeys []int
	if k, ok := x.oldestKey(); ok {
		jkeys = append(jkeys, k)
	}
	reg := x.regIds()
	c := r.Intn(100)
	switch {
	case c < 24:
		g.doLock()
	case c < 34:
		x.do(g.unlockEv())
	case c < 44:
		if r.Intn(100) < 70 { // the journal is usually faster than the clock
			for !x.abort {
				k, ok := x.oldestKey()
				if !ok {
					break
				}
				x.do(vAckEv{kind: "P", key: k})
			}
		}
		k := vPick(r, []int{1, 2, 4}, []int{60, 30, 10})
		for i := 0; i < k; i++ {
			x.do(vAckEv{kind: "T"})
		}
	case c < 62:
		if len(jkeys) > 0 {
			kind := "P"
			if r.Intn(100) < 6 && os.Getenv("VERIF_ACK_PW") != "" {
				kind = "PW" // leaves the lock record's reference count one too low (see FINISH): not part of the default walk
			}
			x.do(vAckEv{kind: kind, key: jkeys[r.Intn(len(jkeys))]})
		} else if r.Intn(10) == 0 {
			x.do(vAckEv{kind: "P", key: x.keys[r.Intn(len(x.keys))]})
		} else {
			g.doLock()
		}
	case c < 74:
		id := 0
		if len(reg) > 0 && r.Intn(100) < 90 {
			id = reg[r.Intn(len(reg))]
		} else if x.nextId > 0 && r.Intn(2) == 0 {
			id = 1 + r.Intn(x.nextId) // possibly settled / never an ack record
		} else {
			id = x.nextId + 1 + r.Intn(3) // unknown
		}
		if g.aofedSent == nil {
			g.aofedSent = map[int]bool{}
		}
		if g.aofedSent[id] {
			return // the leader's own flush is reported once per record
		}
		g.aofedSent[id] = true
		x.do(vAckEv{kind: "A", id: id, ok: r.Intn(100) < 85})
	case c < 90:
		id := 0
		if len(reg) > 0 && r.Intn(100) < 90 {
			id = reg[r.Intn(len(reg))]
		} else if x.nextId > 0 && r.Intn(2) == 0 {
			id = 1 + r.Intn(x.nextId)
		} else {
			id = x.nextId + 1 + r.Intn(3)
		}
		if x.followers == 0 {
			g.doLock() // nobody can answer
			return
		}
		fol := 1 + r.Intn(x.followers)
		if os.Getenv("VERIF_ACK_DUP") == "" {
			// a follower answers a record once (duplicated answers are outside the property's fault model: opt-in with VERIF_ACK_DUP=1)
			if g.ackedSent == nil {
				g.ackedSent = map[[2]int]bool{}
			}
			if g.ackedSent[[2]int{id, fol}] {
				return
			}
			g.ackedSent[[2]int{id, fol}] = true
		}
		ev := vAckEv{kind: "K", id: id, fol: fol, ok: r.Intn(100) < 85}
		if !ev.ok && r.Intn(2) == 0 {
			// the follower's own engine refused the replayed record: its result byte travels back unchanged
			ev.code = []int{protocol.RESULT_TIMEOUT, protocol.RESULT_LOCKED_ERROR, protocol.RESULT_STATE_ERROR, protocol.RESULT_UNLOCK_ERROR, protocol.RESULT_UNOWN_ERROR}[r.Intn(5)]
		}
		x.do(ev)
	case c < 93:
		x.do(vAckEv{kind: "S"})
	case c < 96:
		if x.leader {
			x.do(vAckEv{kind: "R", ok: false})
			for i := r.Intn(3); i > 0; i-- {
				if k, ok := x.oldestKey(); ok {
					x.do(vAckEv{kind: "P", key: k})
				}
			}
			x.do(vAckEv{kind: "D"})
		} else {
			x.do(vAckEv{kind: "R", ok: true})
		}
	case c < 97:
		x.do(vAckEv{kind: "F"})
	case c < 99:
		x.do(vAckEv{kind: "X", ok: !x.closed})
	default:
		x.do(vAckEv{kind: "D"})
	}
}

// drain: back to leader, journal open, every record delivered, no acknowledgement any more: pending holds time out, queued requests
// time out or are granted; settled holds are released by LockId. Everything is recorded (the model sees the same events).
func (x *vAckRun) drain(maxT int) {
	if !x.leader {
		x.do(vAckEv{kind: "R", ok: true})
	}
	if x.closed {
		x.do(vAckEv{kind: "X", ok: false})
	}
	for round := 0; round < 40 && !x.abort; round++ {
		progress := false
		for !x.abort {
			k, ok := x.oldestKey()
			if !ok {
				break
			}
			x.do(vAckEv{kind: "P", key: k})
			progress = true
		}
		busy := false
		for _, k := range x.keys {
			ks := x.keySnap(k)
			for _, h := range ks.holds {
				if h.ack == 0xff {
					x.do(vAckEv{kind: "U", op: vOp{kind: 'U', req: x.nextReq, conn: 1, lockId: h.lockId, key: k}})
					x.nextReq++
					progress = true
					break
				}
				busy = true
			}
			if len(ks.waits) > 0 {
				busy = true
			}
		}
		if !progress {
			if !busy {
				break
			}
			x.do(vAckEv{kind: "T"})
		}
	}
	x.do(vAckEv{kind: "S"})
	if !x.abort {
		x.mon.drained()
	}
}

func vAckRunOne(in *vAckInst, x *vAckRun, body func()) string {
	bad := ""
	done := make(chan struct{})
	go func() {
		defer func() {
			if e := recover(); e != nil {
				bad = fmt.Sprintf("panic: %v", e)
				if st := string(debug.Stack()); strings.Contains(st, "ProcessRecoverLockData") {
					where := ""
					if i := strings.Index(st, "ProcessRecoverLockData"); i >= 0 {
						if ls := strings.SplitN(st[i:], "\n", 3); len(ls) >= 2 {
							f := strings.Fields(strings.TrimSpace(ls[1]))
							if len(f) > 0 {
								where = " " + f[0][strings.LastIndex(f[0], "/")+1:]
							}
						}
					}
					bad += " [in ProcessRecoverLockData" + where + "]"
				}
			}
			close(done)
		}()
		body()
	}()
	select {
	case <-done:
	case <-time.After(30 * time.Second):
		bad = "hang"
	}
	return bad
}

func vAckMain(t *testing.T) {
	seed := int64(vEnvInt("VERIF_SEED", 1))
	r := rand.New(rand.NewSource(seed))
	n := vEnvInt("VERIF_N", 100)
	out := vOpen("ack")
	defer out.close()
	in := vAckNewInst()
	nextReq := 1
	keyBase := 0
	finish := func(x *vAckRun, now0 int64, bad string) {
		line := x.line(now0)
		x.mon.line = line
		for _, e := range x.evs {
			if e.frame != nil && !vAckInSubset(e.frame) {
				x.probe = true
			}
		}
		if x.probe {
			out.stat("probe-history(frames-outside-the-model-subset:monitors-only)")
		}
		if bad != "" {
			if !x.probe {
				out.emit(line, strings.Join(x.obs, ";")+";"+bad)
			}
			if strings.Contains(bad, "ProcessRecoverLockData") {
				// the undo of a failed ack lock (DoAckLock failure exit / doTimeOut) panicked: in the server this goroutine has no recover()
				out.monitor("C13:ack-recover-panic", "ProcessRecoverLockData panicked while undoing the value operation of a failed require-ack LOCK: "+strings.SplitN(bad, "\n", 2)[0], map[string]interface{}{"ops": line})
			} else {
				out.monitor("C11:engine-"+strings.Fields(bad)[0], "the real engine "+bad+" during an ack history", map[string]interface{}{"ops": line})
			}
			x.mon.flush()
			in = vAckNewInst() // the old instance may hold a mutex
			return
		}
		if !x.probe {
			out.emit(line, strings.Join(x.obs, ";"))
		}
		x.mon.flush()
		for i, e := range x.evs {
			if e.kind == "PW" {
				x.tainted = true
			}
			_ = i
		}
		ok := true
		func() {
			defer func() {
				if e := recover(); e != nil {
					ok = false
				}
			}()
			in.scrub(x)
			if x.tainted || x.abort {
				// lock objects whose reference count the real code left wrong may sit in the shard's free pool: empty it
				for l := in.v.db.freeLocks[0].PopRight(); l != nil; l = in.v.db.freeLocks[0].PopRight() {
				}
				out.stat("pool-emptied-after-refcount-anomaly")
			}
		}()
		if !ok {
			out.stat("instance-replaced-after-scrub-panic")
			in.v.onReply = nil
			in = vAckNewInst()
		}
	}
	// scripted histories first (corpus / replay): VERIF_ACK_SCRIPT = file with `ack …` lines
	if p := os.Getenv("VERIF_ACK_SCRIPT"); p != "" {
		f, err := os.Open(p)
		if err != nil {
			t.Fatal(err)
		}
		sc := bufio.NewScanner(f)
		sc.Buffer(make([]byte, 1<<20), 1<<24)
		for sc.Scan() {
			ln := strings.TrimSpace(sc.Text())
			if !strings.HasPrefix(ln, "ack ") {
				continue
			}
			fs := strings.SplitN(ln, " ", 5)
			if len(fs) < 5 {
				continue
			}
			fo, _ := strconv.Atoi(fs[1])
			mo, _ := strconv.Atoi(fs[2])
			at := 200
			keyset := map[int]bool{}
			var evs []vAckEv
			for _, s := range strings.Split(fs[4], ";") {
				if e, ok := vAckParseEv(s); ok {
					evs = append(evs, e)
					if e.kind == "L" || e.kind == "U" {
						keyset[e.op.key] = true
					}
				}
			}
			var keys []int
			for k := range keyset {
				keys = append(keys, k)
			}
			sort.Ints(keys)
			x := in.newRun(out, r, keys, fo, mo, at, 1)
			now0 := in.v.db.currentTime
			bad := vAckRunOne(in, x, func() {
				for _, e := range evs {
					x.do(e)
				}
				x.mon.drained()
			})
			finish(x, now0, bad)
		}
		f.Close()
		if os.Getenv("VERIF_ACK_SCRIPT_ONLY") != "" {
			return
		}
	}
	for it := 0; it < n; it++ {
		keyBase += 10
		nkeys := 1 + r.Intn(3)
		var keys []int
		for k := 0; k < nkeys; k++ {
			keys = append(keys, keyBase+k)
		}
		followers := r.Intn(3)
		mode := r.Intn(2)
		aofTime := 200
		x := in.newRun(out, r, keys, followers, mode, aofTime, nextReq)
		g := &vAckGen{x: x, r: r, nconn: 2 + r.Intn(3), nids: 2 + r.Intn(2), profile: []int{0, 0, 1, 2}[it%4], probe: it%9 == 8 && os.Getenv("VERIF_ACK_NOPROBE") == ""}
		now0 := in.v.db.currentTime
		steps := 12 + r.Intn(vEnvInt("VERIF_OPS", 40))
		bad := vAckRunOne(in, x, func() {
			for s := 0; s < steps && !x.abort; s++ {
				g.step()
			}
			if !x.abort {
				x.drain(g.maxT)
			}
		})
		nextReq = x.nextReq
		out.stat(fmt.Sprintf("config(followers=%d,mode=%d)", followers, mode))
		finish(x, now0, bad)
	}
}

func init() {
	vModes["ack"] = vAckMain
}

// ---------------------------------------------------------------------------------------------
// monitors: the statement of C11 evaluated on what the REAL code did. Signatures are "C11:<clause>:<cause>".

type vAckReq struct {
	ev       vAckEv
	isAck    bool
	terminal []vReply
	pendEv   int // index of the event in which the request became an ack-pending hold (-1: never)
	fresh    bool
	preVal   []byte
	applied  bool // it carried a value frame the engine applied at the grant
	dirty    bool // another operation changed the key's value while it was pending
	id       int  // journal id its LOCK record was delivered under (0: not delivered)
	settled  bool
	byFirst  bool // its pending hold was removed by an unlock-first request
	preUnset bool // the key had an UNSET cell (present, no data) before the grant
	touched  bool // another request carried a value frame to the same key while this one was pending (even if it left the bytes alone)
}

type vAckMon struct {
	x        *vAckRun
	reqs     map[int]*vAckReq
	aofedOk  map[int]bool
	ackedBy  map[int]map[int]bool
	ackedN   map[int]int
	pre      map[int]vAckKey
	preTab   string
	lastVal  map[int][]byte
	replied  map[int]int // per key: replies seen in the current event
	failedOn map[int]bool
	firings  int // replies TIMEOUT / EXPRIED / ERROR seen in the current event
	cur      *vAckEv
	seen     map[string]bool
	pend     []func(line string)
	line     string
}

func vAckNewMon(x *vAckRun) *vAckMon {
	return &vAckMon{x: x, reqs: map[int]*vAckReq{}, aofedOk: map[int]bool{}, ackedBy: map[int]map[int]bool{}, ackedN: map[int]int{}, seen: map[string]bool{}}
}

func (m *vAckMon) report(sig, what string) {
	m.x.out.stat("monitor-" + sig)
	if m.seen[sig] {
		return
	}
	m.seen[sig] = true
	idx := len(m.x.evs)
	m.pend = append(m.pend, func(line string) {
		m.x.out.monitor(sig, what, map[string]interface{}{"ops": line, "at_event_index": idx})
	})
}

func (m *vAckMon) flush() {
	for _, f := range m.pend {
		f(m.line)
	}
	m.pend = nil
}

func (m *vAckMon) required() int {
	if m.x.mode == 1 {
		return (m.x.followers+1)/2 + 1
	}
	return m.x.followers + 1
}

func vAckKeyStr(ks vAckKey) string {
	return fmt.Sprintf("%d/%v/%v/%v/%x", ks.locked, ks.waited, ks.holds, ks.waits, ks.data)
}

func (m *vAckMon) before(e *vAckEv) {
	x := m.x
	m.cur = e
	m.pre = map[int]vAckKey{}
	m.lastVal = map[int][]byte{}
	m.replied = map[int]int{}
	m.failedOn = map[int]bool{}
	m.firings = 0
	for _, k := range x.keys {
		ks := x.keySnap(k)
		m.pre[k] = ks
		m.lastVal[k] = ks.data
	}
	ca, al := x.tables()
	m.preTab = fmt.Sprintf("%d/%d", ca, al)
	switch e.kind {
	case "L", "U":
		m.reqs[e.op.req] = &vAckReq{ev: *e, isAck: e.kind == "L" && e.op.tflag&vAckFlag != 0, pendEv: -1}
	case "A":
		if e.ok && x.leader {
			m.aofedOk[e.id] = true
		}
	case "K":
		if e.ok {
			if m.ackedBy[e.id] == nil {
				m.ackedBy[e.id] = map[int]bool{}
			}
			m.ackedBy[e.id][e.fol] = true
			m.ackedN[e.id]++
		}
	}
}

func vAckFailure(result int) bool {
	return result == protocol.RESULT_ERROR || result == protocol.RESULT_TIMEOUT || result == protocol.RESULT_LOCKED_ERROR || result == protocol.RESULT_STATE_ERROR
}

func (m *vAckMon) onReply(rp vReply) {
	x := m.x
	ri := m.reqs[rp.req]
	ks := x.keySnap(rp.key)
	defer func() {
		m.lastVal[rp.key] = ks.data
		m.replied[rp.key]++
	}()
	if rp.result == protocol.RESULT_TIMEOUT || rp.result == protocol.RESULT_EXPRIED || rp.result == protocol.RESULT_ERROR {
		m.firings++
	}
	if ri == nil {
		return
	}
	if rp.result != protocol.RESULT_EXPRIED {
		ri.terminal = append(ri.terminal, rp)
	}
	if !ri.isAck {
		return
	}
	if rp.result == protocol.RESULT_LOCKED_ERROR && rp.lrcount > 0 && len(ri.terminal) > 1 && ri.terminal[0].result == protocol.RESULT_SUCCED {
		// DoAckLock's "update" exit on a live hold (re-entrant require-ack LOCK): it drops a reference nobody took; from here on the
		// lock object can be freed while the hold / its wheel entry still exist. The history ends after this event.
		x.abort = true
		x.tainted = true
		ri.settled = true
		m.report("C11:reply-count:duplicate:0+5", fmt.Sprintf("require-ack LOCK request %d (key %d) was answered SUCCED inside the call and now LOCKED_ERROR by DoAckLock (second terminal reply)", rp.req, rp.key))
		return
	}
	cfg := fmt.Sprintf("followers=%d mode=%s required=%d", x.followers, []string{"all", "majority"}[x.mode], m.required())
	if rp.result == protocol.RESULT_SUCCED {
		if ri.pendEv < 0 && len(ri.terminal) == 1 {
			// answered SUCCED inside its own LOCK call: no record of it was written or acknowledged before
			cause := "immediate"
			for _, h := range m.pre[rp.key].holds {
				if h.lockId == ri.ev.op.lockId {
					cause = "reentrant"
				}
			}
			if cause == "duplicate-follower-ack-counted-as-own-flush" && os.Getenv("VERIF_ACK_DUP") == "" {
				x.out.stat("observation:duplicated-follower-answer-counted") // outside the property's fault model
			} else {
				m.report("C11:succed-before-aofed:"+cause, fmt.Sprintf("require-ack LOCK request %d (key %d LockId %d) was answered SUCCED inside the call, before any record of it was flushed or acknowledged (%s)", rp.req, rp.key, ri.ev.op.lockId, cfg))
			}
			return
		}
		if ri.settled {
			return
		}
		ri.settled = true
		x.out.stat("ack-outcome-SUCCED")
		if ri.id == 0 || !m.aofedOk[ri.id] {
			cause := "follower-acks-counted-as-own-flush"
			if len(m.ackedBy[ri.id]) < m.required() {
				cause = "duplicate-follower-ack-counted-as-own-flush"
			}
			m.report("C11:succed-before-aofed:"+cause, fmt.Sprintf("require-ack LOCK request %d was answered SUCCED although the leader's own flush of its record (id %d) had not been reported ok (%s, positive follower answers so far %d from %d distinct followers)", rp.req, ri.id, cfg, m.ackedN[ri.id], len(m.ackedBy[ri.id])))
		}
		if len(m.ackedBy[ri.id]) < m.required()-1 {
			cause := "own-flush-counted-as-follower"
			if m.ackedN[ri.id] > len(m.ackedBy[ri.id]) {
				cause = "duplicate-ack-counted"
			}
			nrep := m.ackedN[ri.id]
			if m.aofedOk[ri.id] {
				nrep++
			}
			if nrep < m.required() {
				cause = "fewer-positive-reports-than-required"
			}
			if cause == "duplicate-ack-counted" && os.Getenv("VERIF_ACK_DUP") == "" {
				x.out.stat("observation:duplicated-follower-answer-counted")
			} else {
				m.report("C11:succed-before-quorum:"+cause, fmt.Sprintf("require-ack LOCK request %d was answered SUCCED after positive answers from %d distinct follower(s) (%d answers counted), configured: %s", rp.req, len(m.ackedBy[ri.id]), m.ackedN[ri.id], cfg))
			}
		}
		return
	}
	if ri.pendEv >= 0 && !ri.settled && vAckFailure(rp.result) {
		ri.settled = true
		x.out.stat(fmt.Sprintf("ack-outcome-failure(result=%d,event=%s)", rp.result, m.cur.kind))
		m.failedOn[rp.key] = true
		for _, h := range ks.holds {
			if h.req == rp.req {
				m.report("C11:hold-survives-failure", fmt.Sprintf("require-ack LOCK request %d was answered with error %d but its hold is still there: %v", rp.req, rp.result, ks.holds))
			}
		}
		if ri.applied && !ri.dirty && ri.fresh && m.replied[rp.key] == 0 {
			if string(ks.data) != string(ri.preVal) || (ks.data == nil) != (ri.preVal == nil) {
				cause := "other"
				switch {
				case ri.byFirst:
					cause = "hold-removed-by-unlock-first"
				case ri.touched:
					cause = "another-holders-operation-in-between"
				case ri.preVal == nil && ri.preUnset:
					cause = "cell-was-unset"
				case vAckOpName(ri.ev.frame) == "incr" && !(len(ri.preVal) == 14 && ri.preVal[0] == 10 && ri.preVal[4] == 0 && ri.preVal[5] == 1):
					cause = "operand-not-a-number-cell"
				case (vAckOpName(ri.ev.frame) == "push" || vAckOpName(ri.ev.frame) == "pop") && !(len(ri.preVal) >= 6 && ri.preVal[5]&protocol.LOCK_DATA_FLAG_VALUE_TYPE_ARRAY != 0):
					cause = "cell-was-not-an-array" // probe histories only (PUSH / POP are outside M-ACK's subset)
				}
				m.report(fmt.Sprintf("C11:value-not-restored:%s:%s", vAckOpName(ri.ev.frame), cause), fmt.Sprintf("require-ack LOCK request %d failed with result %d; the key's value before its grant was %x, after the failure it is %x (frame %s, no other operation changed the value in between)", rp.req, rp.result, ri.preVal, ks.data, ri.ev.fhex))
			}
		}
	}
}

func vAckOpName(f []byte) string {
	if len(f) < 5 {
		return "?"
	}
	switch f[4] & 0x3f {
	case 0:
		return "set"
	case 2:
		return "incr"
	case 3:
		return "append"
	case 4:
		return "shift"
	case 6:
		return "pipeline"
	case 7:
		return "push"
	case 8:
		return "pop"
	}
	return fmt.Sprint(f[4] & 0x3f)
}

func vAckAdmissible(ks vAckKey, count int, holdCount func(req int) int) bool {
	if ks.locked == 0 {
		return true
	}
	if len(ks.holds) == 0 {
		return false
	}
	return ks.locked <= count && ks.locked <= holdCount(ks.holds[0].req)
}

func (m *vAckMon) after(e *vAckEv, ob string) {
	x := m.x
	idx := len(x.evs) - 1
	post := map[int]vAckKey{}
	for _, k := range x.keys {
		post[k] = x.keySnap(k)
	}
	// registration bookkeeping
	if e.kind == "P" || e.kind == "PW" {
		for id, rq := range x.idReq {
			if ri := m.reqs[rq]; ri != nil && ri.id == 0 {
				ri.id = id
			}
		}
	}
	// ---- while pending: LOCK / UNLOCK for that LockId is answered LOCK_ACK_WAITING and changes nothing
	if e.kind == "L" || e.kind == "U" {
		pk := m.pre[e.op.key]
		target, cause := -1, ""
		for i, h := range pk.holds {
			if h.lockId == e.op.lockId {
				target = i
				break
			}
		}
		if target < 0 && e.kind == "U" && e.op.flag&1 != 0 && len(pk.holds) > 0 {
			target, cause = 0, ":unlock-first"
		}
		if target >= 0 && pk.holds[target].ack != 0xff && x.leader {
			ri := m.reqs[e.op.req]
			okReply := len(ri.terminal) == 1 && ri.terminal[0].result == protocol.RESULT_LOCK_ACK_WAITING
			same := vAckKeyStr(pk) == vAckKeyStr(post[e.op.key])
			if !okReply || !same {
				m.report("C11:no-ack-waiting-answer"+cause, fmt.Sprintf("%s request %d for key %d met the ack-pending hold of request %d (LockId %d): replies %v, key state before %s after %s", e.kind, e.op.req, e.op.key, pk.holds[target].req, pk.holds[target].lockId, ri.terminal, vAckKeyStr(pk), vAckKeyStr(post[e.op.key])))
				if cause != "" && !same {
					if rj := m.reqs[pk.holds[target].req]; rj != nil {
						rj.byFirst = true
					}
				}
			}
			x.out.stat("request-met-pending-hold(" + e.kind + cause + ")")
		}
		if ri := m.reqs[e.op.req]; ri != nil && e.kind == "L" && e.frame != nil && e.op.flag&0x20 != 0 {
			ri.applied = true
			for _, h := range m.pre[e.op.key].holds {
				if rj := m.reqs[h.req]; rj != nil && h.ack != 0xff {
					rj.touched = true
				}
			}
		}
	}
	// ---- newly pending holds; value changes under a pending hold
	for _, k := range x.keys {
		changed := string(m.pre[k].data) != string(post[k].data)
		for _, h := range post[k].holds {
			ri := m.reqs[h.req]
			if ri == nil || h.ack == 0xff {
				continue
			}
			if ri.pendEv < 0 {
				ri.pendEv = idx
				ri.fresh = (e.kind == "L" && e.op.req == h.req)
				if ri.fresh {
					ri.preUnset = m.pre[k].unset
					ri.preVal = m.pre[k].data
					x.out.stat("ack-grant-fresh")
				} else {
					ri.preVal = m.lastVal[k]
					x.out.stat("ack-grant-from-queue")
				}
				// a grant from the queue inside an event that changed the value after the last reply cannot be observed precisely
			} else if changed {
				ri.dirty = true
			}
		}
		// census
		sum := 0
		for _, h := range post[k].holds {
			sum += h.depth
		}
		if sum != post[k].locked {
			m.report("C11:census:locked-ne-sum", fmt.Sprintf("key %d: hand-kept locked=%d but live holds sum to %d after event %s", k, post[k].locked, sum, e.String()))
		}
		// ---- after a failure on this key an admissible queued request must have been served
		// (in a tick several records fire one after the other; the clause is about the state right after ONE failure's wake pass)
		if m.failedOn[k] && len(post[k].waits) > 0 && (e.kind != "T" || m.firings == 1) {
			cnt := post[k].waitCount[0]
			if vAckAdmissible(post[k], cnt, func(req int) int {
				if ri := m.reqs[req]; ri != nil {
					return ri.ev.op.count
				}
				return 0
			}) {
				m.report("C11:waiter-not-served-after-failure", fmt.Sprintf("key %d: an ack-pending hold failed in event %s, afterwards the head queued request %s is admissible (locked=%d) but still queued", k, e.String(), post[k].waits[0], post[k].locked))
			}
		}
	}
	for _, k := range x.keys {
		if post[k].freedHold && !x.abort {
			x.abort = true
			m.report("C11:live-hold-object-freed", fmt.Sprintf("after event %s key %d still has a live hold (locked=%d) whose lock object was already freed (command nil): the next grant from the shard's pool reuses it", e.String(), k, post[k].locked))
		}
	}
	if fr := x.freedRegistered(false); len(fr) > 0 && !x.abort {
		x.abort = true
		m.report("C11:table-entry-of-freed-lock", fmt.Sprintf("after event %s the ack table still points at a lock object that was already freed (RequestIds %v): the next acknowledgement, SwitchToFollower or FlushDB dereferences its nil manager / command", e.String(), fr))
	}
	st := x.v.counters()
	b := x.v.base
	tl, tw := 0, 0
	for _, k := range x.keys {
		tl += post[k].locked
		tw += len(post[k].waits)
	}
	if int(st.LockedCount-b.LockedCount) != tl {
		m.report("C11:census:lockedcount", fmt.Sprintf("STATE LockedCount is %d, outstanding depth is %d after event %s", int32(st.LockedCount-b.LockedCount), tl, e.String()))
	}
	if int(st.WaitCount-b.WaitCount) != tw {
		m.report("C11:census:waitcount", fmt.Sprintf("STATE WaitCount is %d, queued requests %d after event %s", int32(st.WaitCount-b.WaitCount), tw, e.String()))
	}
}

// end of history (after drain in generated histories)
func (m *vAckMon) drained() {
	x := m.x
	pending, queued := map[int]bool{}, map[int]bool{}
	anyPending := false
	for _, k := range x.keys {
		ks := x.keySnap(k)
		for _, h := range ks.holds {
			if h.ack != 0xff {
				pending[h.req] = true
				anyPending = true
			}
		}
		for _, w := range ks.waits {
			var id, rq int
			fmt.Sscanf(strings.ReplaceAll(w, ".", " "), "%d %d", &id, &rq)
			queued[rq] = true
		}
	}
	var reqs []int
	for rq := range m.reqs {
		reqs = append(reqs, rq)
	}
	sort.Ints(reqs)
	for _, rq := range reqs {
		ri := m.reqs[rq]
		if !ri.isAck || pending[rq] || queued[rq] {
			continue
		}
		if len(ri.terminal) == 0 {
			cause := "lost"
			if ri.byFirst {
				cause = "lost:hold-removed-by-unlock-first"
			}
			m.report("C11:reply-count:"+cause, fmt.Sprintf("require-ack LOCK request %d (key %d) never got a terminal reply although it is neither pending nor queued any more", rq, ri.ev.op.key))
		} else if len(ri.terminal) > 1 {
			rs := make([]string, len(ri.terminal))
			for i, r := range ri.terminal {
				rs[i] = strconv.Itoa(r.result)
			}
			m.report("C11:reply-count:duplicate:"+strings.Join(rs, "+"), fmt.Sprintf("require-ack LOCK request %d (key %d) got %d terminal replies (results %s)", rq, ri.ev.op.key, len(ri.terminal), strings.Join(rs, ", ")))
		}
	}
	jn := 0
	for _, k := range x.keys {
		jn += len(x.journal[k])
	}
	ca, al := x.tables()
	if !anyPending && jn == 0 && (ca != 0 || al != 0) {
		cause := "other"
		for _, e := range x.evs {
			if e.kind == "X" || e.kind == "R" {
				cause = "unlock-record-not-journalled(channel-closed-or-not-leader)"
			}
			if e.kind == "PW" {
				cause = "write-error"
			}
		}
		// an observation about the ack tables, not a clause of C11 (model facts: C11_tables_drain_partial / _violated)
		x.out.stat("observation:pending-table-leak:" + cause)
		_ = fmt.Sprintf("%d %d", ca, al)
	}
}
