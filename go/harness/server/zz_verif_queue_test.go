package server

import (
	"fmt"
	"math/rand"
	"reflect"
	"sort"
	"strconv"
	"strings"
	"testing"

	"github.com/snower/slock/protocol"
)

// C20 — the internal queues against (a) the Lean model (differential: every observation is re-computed by
// `slockmodel`) and (b) a plain slice-based reference deque (monitor: the property itself on the real code).
//
// One line per case:  queue <kind> <baseNodeSize> <nodeSize> <queueSize> <op>;<op>;…   (syntax: lean/Driver/Queue.lean)

type vDeque[T comparable] interface {
	Push(T) error
	PushLeft(T) error
	Pop() T
	PopRight() T
	Head() T
	Tail() T
	Shrink(int32) int32
	Reset() error
	Rellac() error
	Resize() error
	Restructuring() error
	Len() int32
	IterNodes() [][]T
	IterNodeQueues(int32) []T
	freeQueue()
}

// vQDrv executes one op on a real queue and returns the canonical observation. May panic.
type vQDrv interface {
	do(op string, arg int) string
}

type vQImpl[T comparable] struct {
	drift bool
	q     vDeque[T]
	objs  []T
	ids   map[T]int
	mk    func() T
	rv    reflect.Value
}

func vNewQImpl[T comparable](q vDeque[T], mk func() T) *vQImpl[T] {
	var zero T
	return &vQImpl[T]{q: q, objs: []T{zero}, ids: map[T]int{}, mk: mk, rv: reflect.ValueOf(q).Elem()}
}

func (v *vQImpl[T]) drifted() bool { return v.drift }

func (v *vQImpl[T]) obj(id int) T {
	var zero T
	if id == 0 {
		return zero
	}
	for len(v.objs) <= id {
		o := v.mk()
		v.ids[o] = len(v.objs)
		v.objs = append(v.objs, o)
	}
	return v.objs[id]
}

func (v *vQImpl[T]) name(x T, nilName string) string {
	var zero T
	if x == zero {
		return nilName
	}
	id, ok := v.ids[x]
	if !ok {
		return "?"
	}
	return strconv.Itoa(id)
}

func (v *vQImpl[T]) iter() string {
	var sb strings.Builder
	for i := range v.q.IterNodes() {
		nq := v.q.IterNodeQueues(int32(i))
		sb.WriteByte('[')
		for j, x := range nq {
			if j > 0 {
				sb.WriteByte(',')
			}
			sb.WriteString(v.name(x, "-"))
		}
		sb.WriteByte(']')
	}
	return sb.String()
}

// hole: nodeQueues := q.IterNodeQueues(i); nodeQueues[p] = nil — the way db.go punches holes.
func (v *vQImpl[T]) hole(pos int) string {
	var zero T
	for i := range v.q.IterNodes() {
		nq := v.q.IterNodeQueues(int32(i))
		if pos < len(nq) {
			nq[pos] = zero
			return "ok"
		}
		pos -= len(nq)
	}
	return "miss"
}

func vQErr(err error) string {
	if err == nil {
		return "ok"
	}
	return err.Error()
}

func (v *vQImpl[T]) do(op string, arg int) string {
	switch op {
	case "push":
		return vQErr(v.q.Push(v.obj(arg)))
	case "pushl":
		return vQErr(v.q.PushLeft(v.obj(arg)))
	case "pop":
		return v.name(v.q.Pop(), "nil")
	case "popr":
		return v.name(v.q.PopRight(), "nil")
	case "head":
		return v.name(v.q.Head(), "nil")
	case "tail":
		return v.name(v.q.Tail(), "nil")
	case "len":
		return strconv.Itoa(int(v.q.Len()))
	case "shrink":
		return strconv.Itoa(int(v.q.Shrink(int32(arg))))
	case "reset":
		return vQErr(v.q.Reset())
	case "rellac":
		return vQErr(v.q.Rellac())
	case "resize":
		return vQErr(v.q.Resize())
	case "restr":
		err := v.q.Restructuring()
		queues, ni := v.rv.FieldByName("queues"), int(v.rv.FieldByName("nodeIndex").Int())
		for i := 0; i < queues.Len(); i++ {
			if queues.Index(i).IsNil() != (i > ni) {
				v.drift = true // Restructuring was called with spare nodes behind the tail node: nodes 0..nodeIndex are no longer exactly the allocated ones
			}
		}
		if ni >= queues.Len() {
			v.drift = true
		}
		return vQErr(err)
	case "free":
		v.q.freeQueue()
		return "ok"
	case "iter":
		return v.iter()
	case "hole":
		return v.hole(arg)
	case "st":
		return vQState(v.rv)
	}
	panic("vQImpl: unknown op " + op)
}

// vQState prints the unexported fields (read through reflect; the three queue types have the same field names).
func vQState(rv reflect.Value) string {
	f := func(n string) string { return strconv.FormatInt(rv.FieldByName(n).Int(), 10) }
	fields := []string{f("headNodeIndex"), f("headQueueIndex"), f("headQueueSize"), f("tailNodeIndex"), f("tailQueueIndex"),
		f("tailQueueSize"), f("nodeIndex"), f("nodeSize"), f("shrinkNodeSize"), f("queueSize"), f("rellacTailNodeIndex")}
	sizes := rv.FieldByName("nodeQueueSizes")
	ss := make([]string, sizes.Len())
	for i := range ss {
		ss[i] = strconv.FormatInt(sizes.Index(i).Int(), 10)
	}
	queues := rv.FieldByName("queues")
	var nl strings.Builder
	for i := 0; i < queues.Len(); i++ {
		if queues.Index(i).IsNil() {
			nl.WriteByte('0')
		} else {
			nl.WriteByte('1')
		}
	}
	alias := func(name string) (string, uintptr) {
		s := rv.FieldByName(name)
		if s.IsNil() {
			return "nil", 0
		}
		if s.Len() == 0 {
			return "z", 0
		}
		p := s.Pointer()
		for j := 0; j < queues.Len(); j++ {
			n := queues.Index(j)
			if !n.IsNil() && n.Len() > 0 && n.Pointer() == p {
				return "n" + strconv.Itoa(j), p
			}
		}
		return "d", p
	}
	h, hp := alias("headQueue")
	t, tp := alias("tailQueue")
	share := ""
	if h == "d" && t == "d" {
		if hp == tp {
			share = "s"
		} else {
			share = "x"
		}
	}
	return strings.Join(fields, ".") + "/" + strings.Join(ss, ".") + "/" + nl.String() + "/" + h + "/" + t + share
}

// ---- LongWaitLockQueue + restructuringLong{TimeOut,Expried}Queue (db.go)

type vLongDrv struct {
	drift   bool
	lq      *LongWaitLockQueue
	db      *LockDB
	objs    []*Lock
	ids     map[*Lock]int
	expried bool
}

func vNewLongDrv(b, n, s int, expried bool) *vLongDrv {
	free := &LongWaitLockFreeQueue{queues: make([]*LongWaitLockQueue, 4), freeIndex: -1, maxFreeCount: 3}
	db := &LockDB{longTimeoutLocks: []map[int64]*LongWaitLockQueue{{}}, longExpriedLocks: []map[int64]*LongWaitLockQueue{{}},
		freeLongWaitQueues: []*LongWaitLockFreeQueue{free}}
	return &vLongDrv{lq: NewLongWaitLockQueue(int32(b), int32(n), int32(s), 0, 7), db: db, objs: []*Lock{nil}, ids: map[*Lock]int{}, expried: expried}
}

func (v *vLongDrv) drifted() bool { return v.drift }

func (v *vLongDrv) obj(id int) *Lock {
	for len(v.objs) <= id {
		o := &Lock{}
		v.ids[o] = len(v.objs)
		v.objs = append(v.objs, o)
	}
	return v.objs[id]
}

func (v *vLongDrv) name(x *Lock, nilName string) string {
	if x == nil {
		return nilName
	}
	return strconv.Itoa(v.ids[x])
}

func (v *vLongDrv) do(op string, arg int) string {
	switch op {
	case "push":
		return vQErr(v.lq.Push(v.obj(arg)))
	case "pop":
		return v.name(v.lq.Pop(), "nil")
	case "remove":
		v.lq.Remove(v.obj(arg))
		return "ok"
	case "restr":
		if v.expried {
			v.db.restructuringLongExpriedQueue(v.lq)
		} else {
			v.db.restructuringLongTimeOutQueue(v.lq)
		}
		fq := v.db.freeLongWaitQueues[0]
		fq.freeIndex = -1 // keep room in the free list: an emptied queue is always Reset
		for i, n := range v.lq.locks.queues {
			if (n == nil) != (i > int(v.lq.locks.nodeIndex)) {
				v.drift = true // nodes 0..nodeIndex are no longer exactly the allocated ones
			}
		}
		if int(v.lq.locks.nodeIndex) >= len(v.lq.locks.queues) {
			v.drift = true
		}
		return "ok"
	case "len":
		return strconv.Itoa(int(v.lq.Len()))
	case "iter":
		var sb strings.Builder
		for i := range v.lq.locks.IterNodes() {
			sb.WriteByte('[')
			for j, x := range v.lq.locks.IterNodeQueues(int32(i)) {
				if j > 0 {
					sb.WriteByte(',')
				}
				sb.WriteString(v.name(x, "-"))
			}
			sb.WriteByte(']')
		}
		return sb.String()
	case "st":
		return vQState(reflect.ValueOf(&v.lq.locks).Elem()) + "/" + strconv.Itoa(int(v.lq.lockCount)) + "/" + strconv.Itoa(int(v.lq.freeCount))
	}
	panic("vLongDrv: unknown op " + op)
}

// ---- reference deque (the property's right-hand side) -------------------------------------------------------

type vRefDeque struct {
	e []int // 0 = hole
}

func vRefName(id int, nilName string) string {
	if id == 0 {
		return nilName
	}
	return strconv.Itoa(id)
}

// expect applies op to the reference and returns what a plain deque answers ("" = anything goes).
// `real` is only consulted for PushLeft's reported refusal.
func (r *vRefDeque) expect(op string, arg int, real string) string {
	switch op {
	case "push":
		r.e = append(r.e, arg)
		return "ok"
	case "pushl":
		if real == "full" {
			// the queue REPORTS that it did not take the element (head cursor at cell 0 of node 0): not inserted
			return "full"
		}
		r.e = append([]int{arg}, r.e...)
		return "ok"
	case "pop":
		if len(r.e) == 0 {
			return "nil"
		}
		x := r.e[0]
		r.e = r.e[1:]
		return vRefName(x, "nil")
	case "popr":
		if len(r.e) == 0 {
			return "nil"
		}
		x := r.e[len(r.e)-1]
		r.e = r.e[:len(r.e)-1]
		return vRefName(x, "nil")
	case "head":
		if len(r.e) == 0 {
			return "nil"
		}
		return vRefName(r.e[0], "nil")
	case "tail":
		if len(r.e) == 0 {
			return "nil"
		}
		return vRefName(r.e[len(r.e)-1], "nil")
	case "len":
		return strconv.Itoa(len(r.e))
	case "reset", "rellac":
		r.e = r.e[:0]
		return "ok"
	case "resize", "free":
		return "ok"
	case "restr":
		k := 0
		for _, x := range r.e {
			if x != 0 {
				r.e[k] = x
				k++
			}
		}
		r.e = r.e[:k]
		return "ok"
	case "hole":
		if arg < len(r.e) {
			r.e[arg] = 0
			return "ok"
		}
		return "miss"
	case "remove":
		for i, x := range r.e {
			if x == arg {
				r.e[i] = 0
			}
		}
		return "ok"
	case "iter":
		return "" // compared after flattening, see vIterFlat
	}
	return ""
}

func vIterFlat(obs string) string {
	s := strings.ReplaceAll(obs, "][", ",")
	s = strings.ReplaceAll(s, "[]", "")
	s = strings.Trim(s, "[]")
	s = strings.ReplaceAll(s, ",,", ",")
	return strings.Trim(s, ",")
}

func (r *vRefDeque) flat() string {
	ss := make([]string, len(r.e))
	for i, x := range r.e {
		ss[i] = vRefName(x, "-")
	}
	return strings.Join(ss, ",")
}

// ---- generation ----------------------------------------------------------------------------------------------

type vQCase struct {
	kind    string
	b, n, s int
	ops     []string
	obs     []string
}

func (c *vQCase) line(upto int) string {
	return fmt.Sprintf("queue %s %d %d %d %s", c.kind, c.b, c.n, c.s, strings.Join(c.ops[:upto], ";"))
}

var vQMaint = map[string]bool{"reset": true, "rellac": true, "resize": true, "restr": true, "free": true, "shrink": true}
var vQStats = map[string]int{}

func vQSafeState(drv vQDrv) (st string) {
	defer func() {
		if e := recover(); e != nil {
			st = "panic//"
		}
	}()
	return drv.do("st", 0)
}

// vQRunCase drives one instance. `shrinkOK`: the case may use an effective Shrink / a Restructuring with spare
// nodes (after which only the differential continues: the property gives no reference for them, see C20.lean).
func vQRunCase(r *rand.Rand, out *vOut, kind string, b, n, s, steps int, shrinkOK bool) {
	var drv vQDrv
	func() {
		defer func() { recover() }()
		switch kind {
		case "lmq":
			drv = vNewQImpl[*LockManager](NewLockManagerQueue(int32(b), int32(n), int32(s)), func() *LockManager { return &LockManager{} })
		case "lq":
			drv = vNewQImpl[*Lock](NewLockQueue(int32(b), int32(n), int32(s)), func() *Lock { return &Lock{} })
		case "lcq":
			drv = vNewQImpl[*protocol.LockCommand](NewLockCommandQueue(int32(b), int32(n), int32(s)), func() *protocol.LockCommand { return &protocol.LockCommand{} })
		case "long":
			drv = vNewLongDrv(b, n, s, r.Intn(2) == 0)
		}
	}()
	c := &vQCase{kind: kind, b: b, n: n, s: s}
	if drv == nil {
		out.emit(c.line(0), "panic")
		return
	}
	ref := &vRefDeque{}
	monitored := true
	nextID := 1
	bytes := 0
	// phases bias the mix so that the queue grows over several nodes, drains from either end, and idles
	phase, phaseLeft := 0, 0
	for step := 0; step < steps && bytes < 50000; step++ {
		if phaseLeft == 0 {
			phase = r.Intn(5)
			phaseLeft = 1 + r.Intn(3*s+40)
		}
		phaseLeft--
		op, arg := "", 0
		k := r.Intn(100)
		if kind == "long" {
			switch {
			case k < 3:
				op = "len"
			case k < 5 && len(ref.e) < 300:
				op = "iter"
			case k < 6:
				op = "st"
			case k < 9:
				op = "restr"
			case k < 30+10*phase && len(ref.e) > 0:
				// Remove(lock) is only legal for a lock that is in the queue (longWaitIndex != 0)
				live := []int{}
				for _, x := range ref.e {
					if x != 0 {
						live = append(live, x)
					}
				}
				if len(live) == 0 {
					op = "pop"
				} else {
					op, arg = "remove", live[r.Intn(len(live))]
				}
			case k < 40+10*phase:
				op = "pop"
			default:
				op, arg = "push", nextID
				nextID++
			}
		} else {
			pushW, popW, poprW := 40, 20, 20
			switch phase {
			case 0:
				pushW, popW, poprW = 70, 8, 8
			case 1:
				pushW, popW, poprW = 15, 60, 10
			case 2:
				pushW, popW, poprW = 15, 10, 60
			case 3:
				pushW, popW, poprW = 30, 30, 5
			}
			switch {
			case k < 2:
				op = "len"
			case k < 3:
				op = "head"
			case k < 4:
				op = "tail"
			case k < 5:
				if len(ref.e) < 300 {
					op = "iter"
				} else {
					op = "len"
				}
			case k < 6:
				op = "st"
			case k < 7:
				op = []string{"reset", "rellac", "resize", "restr", "free", "free", "resize"}[r.Intn(7)]
			case k < 8:
				if shrinkOK && r.Intn(3) == 0 {
					op, arg = "shrink", []int{0, 1, s, 2 * s, 5 * s}[r.Intn(5)]
				} else {
					op = "free"
				}
			case k < 11:
				op, arg = "hole", r.Intn(len(ref.e)+2)
			case k < 13:
				op, arg = "pushl", nextID
				nextID++
			default:
				w := r.Intn(pushW + popW + poprW)
				switch {
				case w < pushW:
					op, arg = "push", nextID
					nextID++
					if r.Intn(60) == 0 {
						arg = 0 // Push(nil)
						nextID--
					}
				case w < pushW+popW:
					op = "pop"
					if r.Intn(6) == 0 {
						op, arg = "pushl", nextID
						nextID++
					}
				default:
					op = "popr"
				}
			}
		}
		opTxt := op
		if op == "push" || op == "pushl" || op == "shrink" || op == "hole" || op == "remove" {
			opTxt = op + ":" + strconv.Itoa(arg)
		}
		// distribution: how often each op ran, and how often a maintenance op ran in a state where it had something
		// to do (internal fields differ afterwards) / on a multi-node queue
		maint := vQMaint[op]
		before := ""
		if maint {
			before = vQSafeState(drv)
		}
		obs := "panic"
		func() {
			defer func() {
				if e := recover(); e != nil {
					obs = "panic"
				}
			}()
			obs = drv.do(op, arg)
		}()
		vQStats[kind+":"+op]++
		if maint && obs != "panic" {
			if after := vQSafeState(drv); after != before {
				vQStats[kind+":"+op+":effective"]++
			}
			if len(ref.e) > 0 {
				vQStats[kind+":"+op+":nonempty"]++
			}
			if strings.Count(strings.SplitN(before, "/", 3)[1], ".") > 0 && !strings.HasPrefix(before, "0.") {
				vQStats[kind+":"+op+":head-past-node0"]++
			}
		}
		if (op == "hole" || op == "remove") && obs == "ok" {
			vQStats[kind+":"+op+":effective"]++ // a cell inside the content was nil-ed in place
		}
		if obs == "panic" {
			vQStats[kind+":"+op+":panic"]++
		}
		c.ops = append(c.ops, opTxt)
		c.obs = append(c.obs, obs)
		bytes += len(opTxt) + len(obs) + 2
		// ---- monitor: the property itself
		if monitored {
			if op == "shrink" {
				if obs != "0" {
					monitored = false // an effective Shrink frees the head node: outside every refinement precondition
				}
			} else if d, ok := drv.(interface{ drifted() bool }); ok && kind != "long" && op == "restr" && obs == "ok" && d.drifted() {
				// queue.go's Restructuring (no production caller) with spare nodes behind the tail node leaves
				// queueSize = 0: outside its refinement precondition `nodeIndex = tailNodeIndex` (C20.lean)
				monitored = false
			} else if op == "st" {
				// internal fields: no property-level expectation
			} else {
				want := ref.expect(op, arg, obs)
				got := obs
				if op == "iter" && obs != "panic" {
					want, got = ref.flat(), vIterFlat(obs)
				}
				if got != want {
					sig := "deque:" + op
					if obs == "panic" {
						sig = "deque:panic:" + op
					}
					if d, ok := drv.(interface{ drifted() bool }); ok && d.drifted() {
						// db.go's restructuringLong*Queue left `nodeIndex` inconsistent with the allocated nodes (repaired in
						// /repo f18505b); everything that goes wrong afterwards is that one defect
						sig = "long:restructure-keeps-nodeIndex"
					}
					out.monitor(sig, fmt.Sprintf("%s queue(%d,%d,%d): %s returned %s, a plain deque returns %s (step %d)", kind, b, n, s, opTxt, got, want, step),
						map[string]interface{}{"op": c.line(len(c.ops)), "impl": strings.Join(c.obs, ";")})
					monitored = false
				}
			}
		}
		if obs == "panic" {
			break // instance discarded
		}
	}
	out.emit(c.line(len(c.ops)), strings.Join(c.obs, ";"))
}

// vQRunFixed replays a fixed sequence (the witnesses proved in Slock/Properties/C20.lean) on the real code, so that
// the differential confirms that the real queues do what the Lean witnesses say. Not monitored.
func vQRunFixed(out *vOut, kind string, b, n, s int, ops string) {
	var drv vQDrv
	switch kind {
	case "lq":
		drv = vNewQImpl[*Lock](NewLockQueue(int32(b), int32(n), int32(s)), func() *Lock { return &Lock{} })
	case "long":
		drv = vNewLongDrv(b, n, s, false)
	}
	c := &vQCase{kind: kind, b: b, n: n, s: s}
	for _, o := range strings.Split(ops, ";") {
		op, arg := o, 0
		if i := strings.IndexByte(o, ':'); i >= 0 {
			op = o[:i]
			arg, _ = strconv.Atoi(o[i+1:])
		}
		obs := "panic"
		func() {
			defer func() {
				if e := recover(); e != nil {
					obs = "panic"
				}
			}()
			obs = drv.do(op, arg)
		}()
		c.ops = append(c.ops, o)
		c.obs = append(c.obs, obs)
		if obs == "panic" {
			break
		}
	}
	out.emit(c.line(len(c.ops)), strings.Join(c.obs, ";"))
}

func init() {
	vModes["queue"] = func(t *testing.T) {
		r := rand.New(rand.NewSource(int64(vEnvInt("VERIF_SEED", 1))))
		n := vEnvInt("VERIF_N", 100)
		out := vOpen("queue")
		defer out.close()
		vQRunFixed(out, "lq", 1, 3, 4, "pushl:1;len")
		vQRunFixed(out, "lq", 1, 1, 4, "push:1;push:2;push:3;push:4;push:5;len;shrink:0;len;st;pop;pop;pop;pop;pop;iter")
		vQRunFixed(out, "lq", 1, 1, 1, "push:1;push:2;push:3;push:4;push:5;push:6;push:7;push:8;popr;popr;pop;pop;pop;pop;pop;pop;st;restr;st;push:9;push:10;push:11;push:12")
		vQRunFixed(out, "long", 3, 3, 1, "push:1;push:2;push:3;push:4;remove:1;remove:2;remove:3;remove:4;st;restr;st;push:5;push:6;push:7;push:8")
		vQRunFixed(out, "long", 4, 1, 1, "push:1;push:2;push:3;push:4;push:5;push:6;push:7;push:8;remove:1;remove:2;restr;st;iter;remove:3;remove:4;remove:5;remove:6;remove:7;remove:8;restr;st;iter;push:9;push:10;push:11;push:12;push:13;push:14;push:15;push:16;iter;len")
		vQRunFixed(out, "lq", 1, 1, 1, "push:1;push:2;push:3;push:4;push:5;push:6;push:7;push:8;popr;popr;pop;pop;pop;st;resize;st;iter")
		vQRunFixed(out, "lq", 2, 2, 1, "push:1;push:2;push:3;push:4;push:5;push:6;push:7;push:8;push:9;pop;pop;pop;pop;hole:1;iter;resize;iter;free;iter;restr;iter;push:10;iter;reset;iter;push:11;push:12;push:13;rellac;iter;st")
		prod := [][3]int{{4, 16, 4}, {2, 4, 8}, {2, 16, 4}, {4, 64, 2}, {16, 64, 3}, {1, 8, 256}, {2, 2, 1}, {1, 3, 4}, {2, 6, 4}}
		for it := 0; it < n; it++ {
			for _, kind := range []string{"lmq", "lq", "lcq", "long"} {
				var b, nn, s int
				switch r.Intn(4) {
				case 0: // the shapes production code and the repo's own tests use (small initial size so that nodes are crossed)
					p := prod[r.Intn(len(prod))]
					b, nn, s = p[0], p[1], p[2]
				case 1:
					b, nn, s = 1+r.Intn(3), 1+r.Intn(3), 1+r.Intn(3)
				default:
					b, nn, s = 1+r.Intn(6), 1+r.Intn(10), 1+r.Intn(9)
				}
				steps := 50 + r.Intn(400)
				if r.Intn(8) == 0 {
					steps = 1000 + r.Intn(2500)
				}
				vQRunCase(r, out, kind, b, nn, s, steps, r.Intn(8) == 0)
			}
		}
		// the lock.go containers (ring, priority ring, holder queue, wait queue): zz_verif_queue2_test.go
		vQueue2Run(r, out, (n+3)/4)
		// per-op counts of this run (a `#` line is echoed verbatim by the model driver); read by tools/props/c20.py
		keys := make([]string, 0, len(vQStats))
		for k := range vQStats {
			keys = append(keys, k)
		}
		sort.Strings(keys)
		var sb strings.Builder
		sb.WriteString("# stats")
		for _, k := range keys {
			sb.WriteString(" " + k + "=" + strconv.Itoa(vQStats[k]))
		}
		out.emit(sb.String(), sb.String())
	}
}
