package server

// E-io/E-net harness for C10 (forwarding half): a REAL leader (SLock + Server on a loopback port, connections served by
// the real Server.handle / checkProtocol) and a REAL second SLock in a non-leader role whose TransparencyManager points at
// the leader THROUGH a recording byte proxy (so that every frame the follower forwards and every frame the leader sends
// back is seen exactly as it is on the wire, and a link can be cut at will). Client connections (binary / text) reach the
// follower over loopback TCP and are served by the follower's real Server.handle, i.e. by the real
// Transparency{Binary,Text}ServerProtocol objects, AGAIN re-dispatch included. One more connection goes DIRECTLY to the
// leader: the oracle for "same outcome from any node".
//
// One case = one generated script, recorded AS EXECUTED in the language of the Lean driver (`trans <event>;…`); the
// observation of each event is what the CLIENT received and what was FORWARDED, canonicalised like the driver prints.
// "The leader answered" (`r …`) events carry the leader's real frame as the proxy saw it.
//
// The follower does not run the replication client (no StartSync): its LockDB must therefore stay exactly as it is
// whatever clients send while it is not the leader (monitor C10:follower-state-changed-by-client).

import (
	"encoding/hex"
	"fmt"
	"math/rand"
	"net"
	"os"
	"runtime"
	"sort"
	"strconv"
	"strings"
	"sync"
	"sync/atomic"
	"testing"
	"time"

	"github.com/jessevdk/go-flags"
	"github.com/snower/slock/protocol"
)

// ---------------------------------------------------------------------------------------------
// ids: a small number n <-> a 16-byte id (first four bytes little endian, then a fixed tail so that no id is all-zero)

func vTransId(n int) [16]byte {
	var b [16]byte
	b[0], b[1], b[2], b[3] = byte(n), byte(n>>8), byte(n>>16), byte(n>>24)
	b[12], b[13], b[14], b[15] = 0x54, 0x52, 0x4e, 0x53
	return b
}

func vTransNum(b []byte) string {
	if len(b) == 16 {
		z := true
		for _, x := range b {
			if x != 0 {
				z = false
			}
		}
		if z {
			return "z"
		}
		var a [16]byte
		copy(a[:], b)
		n := int(b[0]) | int(b[1])<<8 | int(b[2])<<16 | int(b[3])<<24
		if a == vTransId(n) {
			return strconv.Itoa(n)
		}
	}
	return "x" + hex.EncodeToString(b)
}

func vTransHexId(n int) string {
	b := vTransId(n)
	return hex.EncodeToString(b[:])
}

// ---------------------------------------------------------------------------------------------
// nodes

type vTransNode struct {
	s    *SLock
	srv  *Server
	ln   net.Listener
	addr string
	wg   sync.WaitGroup
}

func vTransCfg(dir string) *ServerConfig {
	cfg := &ServerConfig{}
	parse := flags.NewParser(cfg, flags.Default)
	level := "ERROR"
	if os.Getenv("VERIF_TRANS_DEBUG") != "" {
		level = "INFO"
	}
	if _, err := parse.ParseArgs([]string{"--data_dir", dir, "--db_concurrent", "2", "--db_fast_key_count", "4096", "--log_level", level, "--log", dir + "/slock.log"}); err != nil {
		panic(err)
	}
	return cfg
}

func (n *vTransNode) listen() {
	ln, err := net.Listen("tcp", "127.0.0.1:0")
	if err != nil {
		panic(err)
	}
	n.ln = ln
	n.addr = ln.Addr().String()
	n.srv.server = ln
	go func() {
		for {
			conn, err := ln.Accept()
			if err != nil {
				return
			}
			// what Server.Serve does for each accepted connection
			stream := NewStream(conn)
			_ = n.srv.addStream(stream)
			n.wg.Add(1)
			go func() {
				defer n.wg.Done()
				defer func() { _ = recover() }()
				n.srv.handle(stream)
			}()
		}
	}()
}

// vTransStartFollower: main.go's sequence for `--slaveof` up to (not including) StartSync.
func vTransStartFollower(dir, leaderAddr string) *vTransNode {
	cfg := vTransCfg(dir)
	logger, _ := InitLogger(cfg)
	s := NewSLock(cfg, logger)
	srv := NewServer(s)
	s.server = srv
	s.aof.dataDir = dir
	if err := s.initFollower(leaderAddr); err != nil {
		panic(err)
	}
	n := &vTransNode{s: s, srv: srv}
	n.listen()
	return n
}

// vTransStartLeader: main.go's sequence (NewSLock, NewServer, Init, Listen, Serve) with an ephemeral port.
func vTransStartLeader(dir string) *vTransNode {
	cfg := vTransCfg(dir)
	logger, _ := InitLogger(cfg)
	s := NewSLock(cfg, logger)
	srv := NewServer(s)
	s.aof.dataDir = dir
	if err := s.Init(srv); err != nil {
		panic(err)
	}
	n := &vTransNode{s: s, srv: srv}
	n.listen()
	go s.Start()
	return n
}

func (n *vTransNode) stop() {
	done := make(chan struct{})
	go func() {
		defer close(done)
		defer func() { _ = recover() }()
		n.srv.Close()
	}()
	select {
	case <-done:
	case <-time.After(8 * time.Second):
	}
	w := make(chan struct{})
	go func() { n.wg.Wait(); close(w) }()
	select {
	case <-w:
	case <-time.After(3 * time.Second):
	}
}

// engine digest of a node: every counter of every database (C10:follower-state-changed-by-client)
func (n *vTransNode) digest() string {
	var parts []string
	for i, db := range n.s.dbs {
		if db == nil {
			continue
		}
		var st protocol.LockDBState
		for _, s := range db.states {
			if s == nil {
				continue
			}
			st.LockCount += s.LockCount
			st.UnLockCount += s.UnLockCount
			st.LockedCount += s.LockedCount
			st.WaitCount += s.WaitCount
			st.TimeoutedCount += s.TimeoutedCount
			st.ExpriedCount += s.ExpriedCount
			st.UnlockErrorCount += s.UnlockErrorCount
		}
		if st == (protocol.LockDBState{}) {
			continue // an empty database object (GetOrNewDB) is not lock state
		}
		// (KeyCount is left out: key records are reclaimed lazily by the engine's own housekeeping)
		parts = append(parts, fmt.Sprintf("db%d:%d/%d/%d/%d/%d/%d/%d", i, st.LockCount, st.UnLockCount, st.LockedCount, st.WaitCount, st.TimeoutedCount, st.ExpriedCount, st.UnlockErrorCount))
	}
	return strings.Join(parts, " ")
}

// ---------------------------------------------------------------------------------------------
// wire frames

type vTransFrame struct {
	raw  []byte // 64 bytes
	data []byte // lock data frame (with its 4-byte length) or call content
}

// vTransSplit parses complete frames off the front of buf. up = commands (client -> server), else results.
func vTransSplit(buf []byte, up bool) ([]*vTransFrame, []byte) {
	var out []*vTransFrame
	for len(buf) >= 64 {
		f := buf[:64]
		extra := -1 // -1: none; else number of bytes after a 4-byte length, or plain content length
		need := 64
		ct := f[2]
		switch ct {
		case protocol.COMMAND_LOCK, protocol.COMMAND_UNLOCK, protocol.COMMAND_WILL_LOCK, protocol.COMMAND_WILL_UNLOCK, protocol.COMMAND_PUBLISH:
			flag := f[19]
			if !up {
				flag = f[20]
			}
			if flag&protocol.LOCK_FLAG_CONTAINS_DATA != 0 {
				if len(buf) < 68 {
					return out, buf
				}
				extra = int(uint32(buf[64]) | uint32(buf[65])<<8 | uint32(buf[66])<<16 | uint32(buf[67])<<24)
				need = 68 + extra
			}
		case protocol.COMMAND_CALL:
			if up {
				extra = int(uint32(f[22]) | uint32(f[23])<<8 | uint32(f[24])<<16 | uint32(f[25])<<24)
			} else {
				extra = int(uint32(f[23]) | uint32(f[24])<<8 | uint32(f[25])<<16 | uint32(f[26])<<24)
			}
			need = 64 + extra
		}
		if len(buf) < need {
			return out, buf
		}
		fr := &vTransFrame{raw: append([]byte{}, f...)}
		if need > 64 {
			fr.data = append([]byte{}, buf[64:need]...)
		}
		out = append(out, fr)
		buf = buf[need:]
	}
	return out, buf
}

func vTransLE16(b []byte) int { return int(b[0]) | int(b[1])<<8 }

func vTransDataStr(d []byte) string {
	if len(d) == 0 {
		return "-"
	}
	return hex.EncodeToString(d)
}

// canonical text of a COMMAND frame (what is forwarded): tokOf maps a RequestId to the script's token
func vTransCmdStr(f *vTransFrame, tokOf func([]byte) string) string {
	b := f.raw
	switch b[2] {
	case protocol.COMMAND_LOCK, protocol.COMMAND_UNLOCK:
		k := "L"
		if b[2] == protocol.COMMAND_UNLOCK {
			k = "U"
		}
		return fmt.Sprintf("%s:%s,%d,%d,%s,%s,%d,%d,%d,%d,%d,%d,%s", k, tokOf(b[3:19]), b[19], b[20], vTransNum(b[21:37]), vTransNum(b[37:53]),
			vTransLE16(b[55:57]), vTransLE16(b[53:55]), vTransLE16(b[59:61]), vTransLE16(b[57:59]), vTransLE16(b[61:63]), b[63], vTransDataStr(f.data))
	case protocol.COMMAND_INIT:
		return fmt.Sprintf("I:%s,%s", tokOf(b[3:19]), vTransNum(b[19:35]))
	case protocol.COMMAND_CALL:
		return fmt.Sprintf("C:%s", tokOf(b[3:19]))
	}
	return fmt.Sprintf("X:%d", b[2])
}

// canonical text of a RESULT frame as a binary client sees it
func vTransResStr(f *vTransFrame, tokOf func([]byte) string) string {
	b := f.raw
	switch b[2] {
	case protocol.COMMAND_INIT:
		// (the rollback fabricates a LockResultCommand of type INIT: every byte after the result is zero, it prints the same way)
		return fmt.Sprintf("I:%s,%d,%d", tokOf(b[3:19]), b[19], b[20])
	case protocol.COMMAND_LOCK, protocol.COMMAND_UNLOCK:
		k := "L"
		if b[2] == protocol.COMMAND_UNLOCK {
			k = "U"
		}
		return fmt.Sprintf("R:%s,%s,%d,%d,%d,%s,%s,%d,%d,%d,%d,%s", k, tokOf(b[3:19]), b[19], b[20], b[21], vTransNum(b[22:38]), vTransNum(b[38:54]),
			vTransLE16(b[54:56]), vTransLE16(b[56:58]), b[58], b[59], vTransDataStr(f.data))
	case protocol.COMMAND_CALL:
		return fmt.Sprintf("C:%s,%d,%s", tokOf(b[3:19]), b[19], vTransDataStr(f.data))
	}
	return fmt.Sprintf("X:%d,%s,%d", b[2], tokOf(b[3:19]), b[19])
}

// ---------------------------------------------------------------------------------------------
// recording proxy between the follower's TransparencyBinaryClientProtocol objects and the leader

type vTransPLink struct {
	id       int
	fc, lc   net.Conn
	fAddr    string // the follower-side socket's address = TransparencyBinaryClientProtocol.localAddress
	mu       sync.Mutex
	upTail   []byte
	downTail []byte
	up, down []*vTransFrame
	upUsed   int
	downUsed int
	dead     bool
	px       *vTransProxy
	downEnd  []int64  // stream offset at which each parsed frame of `down` ends
	downOff  int64    // bytes parsed into frames so far
	downSent int64    // bytes handed to the follower's socket so far (after the hold-back)
	why      []string // debug: how each direction ended
}

type vTransProxy struct {
	ln     net.Listener
	addr   string
	target string
	mu     sync.Mutex
	links  []*vTransPLink
	delay  int64 // nanoseconds every chunk from the leader is held back (atomic)
}

func vTransNewProxy() *vTransProxy {
	ln, err := net.Listen("tcp", "127.0.0.1:0")
	if err != nil {
		panic(err)
	}
	p := &vTransProxy{ln: ln, addr: ln.Addr().String()}
	go func() {
		for {
			fc, err := ln.Accept()
			if err != nil {
				return
			}
			lc, err := net.DialTimeout("tcp", p.target, 2*time.Second)
			if err != nil {
				_ = fc.Close()
				continue
			}
			p.mu.Lock()
			l := &vTransPLink{id: len(p.links), fc: fc, lc: lc, fAddr: fc.RemoteAddr().String(), px: p}
			p.links = append(p.links, l)
			p.mu.Unlock()
			go l.pump(true)
			go l.pump(false)
		}
	}()
	return p
}

// One direction of a proxied link. The two directions end independently, as they do on a real TCP connection: when the
// follower closes its socket right after writing (Close writes the will commands and closes), everything it wrote must still
// reach the leader even though the leader's answers can no longer be delivered to it.
func (l *vTransPLink) pump(up bool) {
	src, dst := l.fc, l.lc
	if !up {
		src, dst = l.lc, l.fc
	}
	tmp := make([]byte, 8192)
	dstGone := false
	for {
		n, err := src.Read(tmp)
		if n > 0 {
			l.mu.Lock()
			if up {
				var fs []*vTransFrame
				fs, l.upTail = vTransSplit(append(l.upTail, tmp[:n]...), true)
				l.up = append(l.up, fs...)
			} else {
				var fs []*vTransFrame
				fs, l.downTail = vTransSplit(append(l.downTail, tmp[:n]...), false)
				l.down = append(l.down, fs...)
				for _, f := range fs {
					l.downOff += int64(64 + len(f.data))
					l.downEnd = append(l.downEnd, l.downOff)
				}
			}
			l.mu.Unlock()
			if !up && l.px != nil && !dstGone {
				if d := atomic.LoadInt64(&l.px.delay); d > 0 {
					time.Sleep(time.Duration(d))
				}
			}
			if !dstGone {
				if _, werr := dst.Write(tmp[:n]); werr != nil {
					dstGone = true
					if up {
						break // the leader is gone: nothing to proxy any more
					}
					// the follower's socket is gone: its answers are undeliverable (recorded, discarded); the other direction
					// goes on until it has carried everything the follower wrote
					l.mu.Lock()
					l.dead = true
					l.mu.Unlock()
				} else if !up {
					l.mu.Lock()
					l.downSent += int64(n)
					l.mu.Unlock()
				}
			}
		}
		if err != nil {
			l.mu.Lock()
			l.why = append(l.why, fmt.Sprintf("up=%v read: %v at %s", up, err, time.Now().Format("15:04:05.000")))
			l.mu.Unlock()
			break
		}
	}
	l.mu.Lock()
	l.dead = true
	l.mu.Unlock()
	if up && !dstGone {
		// the follower's side has ended: tell the leader (FIN after the last byte); the leader closes, which ends the other direction
		if tc, ok := l.lc.(*net.TCPConn); ok {
			_ = tc.CloseWrite()
			time.AfterFunc(2*time.Second, func() { _ = l.lc.Close(); _ = l.fc.Close() })
			return
		}
	}
	_ = l.fc.Close()
	_ = l.lc.Close()
}

// has the i-th frame the leader sent been handed to the follower's socket (or will it never be)?
func (l *vTransPLink) delivered(i int) bool {
	l.mu.Lock()
	defer l.mu.Unlock()
	return l.dead || (i < len(l.downEnd) && l.downSent >= l.downEnd[i])
}

func (l *vTransPLink) cut() {
	_ = l.fc.Close()
	_ = l.lc.Close()
}

func (l *vTransPLink) isDead() bool {
	l.mu.Lock()
	defer l.mu.Unlock()
	return l.dead
}

func (p *vTransProxy) snapshot() []*vTransPLink {
	p.mu.Lock()
	defer p.mu.Unlock()
	return append([]*vTransPLink{}, p.links...)
}

func (p *vTransProxy) close() {
	_ = p.ln.Close()
	for _, l := range p.snapshot() {
		l.cut()
	}
}

// ---------------------------------------------------------------------------------------------
// a client connection (to the follower, or directly to the leader)

type vTransCli struct {
	idx    int
	kind   byte // 'b' | 't'
	conn   net.Conn
	mu     sync.Mutex
	tail   []byte
	bin    []*vTransFrame
	taken  []bool // binary: consumed by the script (by match: independent streams may interleave in any order)
	txt    [][]string
	used   int
	eof    bool
	done   chan struct{}
	closed bool
}

func vTransDial(addr string, kind byte, idx int) *vTransCli {
	conn, err := net.DialTimeout("tcp", addr, 2*time.Second)
	if err != nil {
		panic(err)
	}
	if tc, ok := conn.(*net.TCPConn); ok {
		_ = tc.SetNoDelay(true)
	}
	c := &vTransCli{idx: idx, kind: kind, conn: conn, done: make(chan struct{})}
	go c.loop()
	return c
}

func (c *vTransCli) loop() {
	defer close(c.done)
	tmp := make([]byte, 8192)
	for {
		n, err := c.conn.Read(tmp)
		c.mu.Lock()
		if n > 0 {
			c.tail = append(c.tail, tmp[:n]...)
			if c.kind == 'b' {
				var fs []*vTransFrame
				fs, c.tail = vTransSplit(c.tail, false)
				c.bin = append(c.bin, fs...)
				c.taken = append(c.taken, make([]bool, len(fs))...)
			} else {
				for {
					vals, k := vTransRESP(c.tail)
					if k == 0 {
						break
					}
					c.tail = c.tail[k:]
					c.txt = append(c.txt, vals)
				}
			}
		}
		if err != nil {
			c.eof = true
			c.mu.Unlock()
			return
		}
		c.mu.Unlock()
	}
}

func (c *vTransCli) write(b []byte) error {
	_ = c.conn.SetWriteDeadline(time.Now().Add(2 * time.Second))
	_, err := c.conn.Write(b)
	return err
}

func (c *vTransCli) close() {
	if c.closed {
		return
	}
	c.closed = true
	_ = c.conn.Close()
	select {
	case <-c.done:
	case <-time.After(2 * time.Second):
	}
}

func (c *vTransCli) count() int {
	c.mu.Lock()
	defer c.mu.Unlock()
	if c.kind == 'b' {
		return len(c.bin)
	}
	return len(c.txt)
}

// one complete RESP value at the start of b: its strings (simple strings / errors keep their sigil) and bytes consumed
func vTransRESP(b []byte) ([]string, int) {
	line := func(off int) (string, int) {
		for i := off; i+1 < len(b); i++ {
			if b[i] == '\r' && b[i+1] == '\n' {
				return string(b[off:i]), i + 2
			}
		}
		return "", 0
	}
	var one func(off int) ([]string, int)
	one = func(off int) ([]string, int) {
		if off >= len(b) {
			return nil, 0
		}
		l, nx := line(off)
		if nx == 0 {
			return nil, 0
		}
		switch b[off] {
		case '+', '-', ':':
			return []string{l}, nx
		case '$':
			n, _ := strconv.Atoi(l[1:])
			if n < 0 {
				return []string{""}, nx
			}
			if nx+n+2 > len(b) {
				return nil, 0
			}
			return []string{string(b[nx : nx+n])}, nx + n + 2
		case '*':
			n, _ := strconv.Atoi(l[1:])
			out := []string{}
			for i := 0; i < n; i++ {
				v, e := one(nx)
				if e == 0 {
					return nil, 0
				}
				out = append(out, v...)
				nx = e
			}
			return out, nx
		}
		return []string{l}, nx
	}
	return one(0)
}

func vTransRESPCmd(args ...string) []byte {
	s := fmt.Sprintf("*%d\r\n", len(args))
	for _, a := range args {
		s += fmt.Sprintf("$%d\r\n%s\r\n", len(a), a)
	}
	return []byte(s)
}

func vTransWait(cond func() bool, d time.Duration) bool {
	for i := 0; i < 200; i++ {
		if cond() {
			return true
		}
		runtime.Gosched()
	}
	end := time.Now().Add(d)
	for {
		if cond() {
			return true
		}
		if time.Now().After(end) {
			return false
		}
		time.Sleep(200 * time.Microsecond)
	}
}

// ---------------------------------------------------------------------------------------------
// the fixture: follower F --(proxy)--> leader L, plus a dead address

type vTransWorld struct {
	L, F     *vTransNode
	px       *vTransProxy
	deadAddr string
	oracle   *vTransCli
	nextTok  int
	nextKey  int
	textRid  map[[16]byte]int // RequestIds the text protocol generated -> the script's token
	mu       sync.Mutex
}

const vTransStrictDelay = 20 * time.Millisecond

const vTransTwin = 1 << 20 // the oracle replays every forwarded command on key+vTransTwin with RequestId tok+vTransTwin

func vTransNewWorld(base string) *vTransWorld {
	w := &vTransWorld{textRid: map[[16]byte]int{}, nextTok: 1, nextKey: 1}
	dl, err := net.Listen("tcp", "127.0.0.1:0")
	if err != nil {
		panic(err)
	}
	w.deadAddr = dl.Addr().String()
	_ = dl.Close()
	w.px = vTransNewProxy()
	fdir, ldir := base+"/follower", base+"/leader"
	_ = os.MkdirAll(fdir, 0o755)
	_ = os.MkdirAll(ldir, 0o755)
	// the follower first: NewSLock overwrites the package globals Config / defaultServerProtocol; they must end up the leader's
	w.F = vTransStartFollower(fdir, w.px.addr)
	w.L = vTransStartLeader(ldir)
	w.px.target = w.L.addr
	w.oracle = vTransDial(w.L.addr, 'b', -1)
	return w
}

func (w *vTransWorld) stop() {
	w.oracle.close()
	w.px.close()
	w.F.stop()
	w.L.stop()
}

func (w *vTransWorld) tokOf(b []byte) string {
	s := vTransNum(b)
	if s[0] != 'x' {
		return s
	}
	var a [16]byte
	copy(a[:], b)
	w.mu.Lock()
	t, ok := w.textRid[a]
	w.mu.Unlock()
	if ok {
		return strconv.Itoa(t)
	}
	return s
}

func (w *vTransWorld) manager() *TransparencyManager {
	return w.F.s.replicationManager.transparencyManager
}

// ---------------------------------------------------------------------------------------------
// one case

type vTransReq struct {
	typ                                                                       byte // L U I C O
	mode                                                                      byte // w p v (text)
	tok, flag, db, lockid, key, tflag, timeout, eflag, expried, count, rcount int
	data                                                                      []byte // data frame (with its length prefix) or nil
	value                                                                     string // text SET value
	will                                                                      bool   // a will command (WILL_LOCK / WILL_UNLOCK frame; text: … WILL 1), typ says what it runs as
	implicitId                                                                bool   // text UNLOCK without LOCK_ID: the server fills in the LockId of the connection's last successful LOCK (= lockid, set by the script)
	shortForm                                                                 bool   // text: `LOCK <16 raw key bytes> TIMEOUT 0` (fits the first 64-byte read)
	cid                                                                       int
	fw                                                                        bool
}

type vTransConn struct {
	cli      *vTransCli
	idx      int
	kind     byte
	link     *vTransPLink
	linkInit int // the INIT token the link was opened with (-1: none)
	initTok  int
	initCid  int
	awaiting int
	awaitReq *vTransReq
	closed   bool
	inflight map[int]*vTransReq // forwarded on the current link, not answered yet (harness view)
	latest   int                // token of the last command forwarded on the current link (-1: answered / none)
	stale    bool               // the latest command was answered before Write recorded it: the link still holds it as in flight
	half     bool               // text: the client went away while the handler is blocked
	nreq     int                // requests sent so far
	wrapped  bool               // has handled a request while the node was not the leader (so: has a transparency wrapper)
	wills    []*vTransReq
}

type vTransRun struct {
	w          *vTransWorld
	r          *rand.Rand
	out        *vOut
	conns      []*vTransConn
	ops, obs   []string
	role       uint8
	addr       int
	owner      map[int]*vTransConn
	reqs       map[int]*vTransReq
	twinGot    map[int][]*vTransFrame // oracle answers by token (tok, not tok+twin)
	twinSent   map[int]bool
	fwdFrames  map[int]*vTransFrame // the forwarded frame by token
	lost       map[int]bool
	results    map[int][]string // every lock/unlock result a client received, by token
	anomalies  []string
	seenLinks  int
	caseNo     int
	signatures map[string]bool
	current    *vTransConn
	script     int
	seed       int64
	strict     bool          // the proxy holds the leader's frames back 20 ms: no answer can overtake Write's bookkeeping
	heldL      map[int][]int // key -> LockIds holding it at the leader (as far as the relayed results say)
}

func (x *vTransRun) line() string { return "trans " + strings.Join(x.ops, ";") }

func (x *vTransRun) ev(op, ob string) {
	x.ops = append(x.ops, op)
	x.obs = append(x.obs, ob)
}

func (x *vTransRun) report(sig, what string) {
	if x.signatures[sig] {
		return
	}
	x.signatures[sig] = true
	x.out.monitor(sig, what, map[string]interface{}{"line": x.line(), "impl": strings.Join(x.obs, ";"), "event": len(x.ops) - 1, "case": x.caseNo, "script": x.script,
		"seed": x.seed, "rerun": fmt.Sprintf("VERIF_SEED=%d VERIF_TRANS_FIRST=%d VERIF_TRANS_SCRIPT=%d VERIF_N=1 (mode trans)", x.seed, x.caseNo, x.script)})
}

func (x *vTransRun) nonLeader() bool { return x.role != STATE_LEADER }

// while the manager knows no leader address, CheckClient parks every request on `arbiterWaiter` for up to 2 s (the
// manager's timer); Wakeup() makes the manager's loop do at once what the timer would do
func (x *vTransRun) pump() {
	if x.addr == 0 && x.nonLeader() {
		x.w.manager().Wakeup()
	}
}

func (x *vTransRun) waitFor(cond func() bool, d time.Duration) bool {
	end := time.Now().Add(d)
	n := 0
	for {
		if vTransWait(cond, 2*time.Millisecond) {
			return true
		}
		if time.Now().After(end) {
			return false
		}
		n++
		x.pump()
	}
}

// ---- frames

func (x *vTransRun) lockFrame(q *vTransReq, twin bool) []byte {
	ct := uint8(protocol.COMMAND_LOCK)
	if q.typ == 'U' {
		ct = protocol.COMMAND_UNLOCK
	}
	if q.will {
		ct += protocol.COMMAND_WILL_LOCK - protocol.COMMAND_LOCK
	}
	tok, key := q.tok, q.key
	if twin {
		tok += vTransTwin
		key += vTransTwin
	}
	c := &protocol.LockCommand{Command: protocol.Command{Magic: protocol.MAGIC, Version: protocol.VERSION, CommandType: ct, RequestId: vTransId(tok)},
		Flag: uint8(q.flag), DbId: uint8(q.db), LockId: vTransId(q.lockid), LockKey: vTransId(key), TimeoutFlag: uint16(q.tflag), Timeout: uint16(q.timeout),
		ExpriedFlag: uint16(q.eflag), Expried: uint16(q.expried), Count: uint16(q.count), Rcount: uint8(q.rcount)}
	b := make([]byte, 64)
	_ = c.Encode(b)
	if q.flag&protocol.LOCK_FLAG_CONTAINS_DATA != 0 {
		b = append(b, q.data...)
	}
	return b
}

func (x *vTransRun) textCmd(q *vTransReq) []byte {
	name := "LOCK"
	switch {
	case q.mode == 'p':
		name = "PUSH"
	case q.mode == 'v':
		return vTransRESPCmd("SET", vTransHexId(q.key), q.value)
	case q.typ == 'U':
		name = "UNLOCK"
	}
	if q.shortForm {
		k := vTransId(q.key)
		return vTransRESPCmd(name, string(k[:]), "TIMEOUT", "0")
	}
	args := []string{name, vTransHexId(q.key), "LOCK_ID", vTransHexId(q.lockid), "TIMEOUT", strconv.Itoa(q.timeout | q.tflag<<16), "EXPRIED", strconv.Itoa(q.expried | q.eflag<<16)}
	if q.implicitId {
		args = []string{name, vTransHexId(q.key), "TIMEOUT", strconv.Itoa(q.timeout | q.tflag<<16), "EXPRIED", strconv.Itoa(q.expried | q.eflag<<16)}
	}
	if q.flag != 0 {
		args = append(args, "FLAG", strconv.Itoa(q.flag))
	}
	if q.count != 0 {
		args = append(args, "COUNT", strconv.Itoa(q.count+1))
	}
	if q.rcount != 0 {
		args = append(args, "RCOUNT", strconv.Itoa(q.rcount+1))
	}
	if q.will {
		args = append(args, "WILL", "1")
	}
	return vTransRESPCmd(args...)
}

func (x *vTransRun) reqOp(c *vTransConn, q *vTransReq, replica string, short bool) string {
	s := x.reqOp1(c, q, replica)
	if short {
		return "Q" + s[1:]
	}
	return s
}

func (x *vTransRun) reqOp1(c *vTransConn, q *vTransReq, replica string) string {
	if q.will {
		return fmt.Sprintf("q %d W%c %d %d %d %d %d %d %d %d %d %d %d %s", c.idx, q.typ, q.tok, q.flag, q.db, q.lockid, q.key, q.tflag, q.timeout, q.eflag, q.expried,
			q.count, q.rcount, vTransDataStr(q.data))
	}
	switch q.typ {
	case 'L', 'U':
		return fmt.Sprintf("q %d %c %c %d %d %d %d %d %d %d %d %d %d %d %s %s", c.idx, q.typ, q.mode, q.tok, q.flag, q.db, q.lockid, q.key, q.tflag, q.timeout, q.eflag, q.expried,
			q.count, q.rcount, vTransDataStr(q.data), replica)
	case 'I':
		return fmt.Sprintf("q %d I %d %d", c.idx, q.tok, q.cid)
	case 'C':
		fw := 0
		if q.fw {
			fw = 1
		}
		return fmt.Sprintf("q %d C %d %d", c.idx, q.tok, fw)
	}
	return fmt.Sprintf("q %d O", c.idx)
}

// what the follower's own lock table says about the key (the input of CheckProbableLock)
func (x *vTransRun) replica(q *vTransReq) string {
	if q.typ != 'L' || q.db == 0xff {
		return "n"
	}
	db := x.w.F.s.dbs[q.db]
	if db == nil {
		return "n"
	}
	m := db.GetLockManager(&protocol.LockCommand{LockKey: vTransId(q.key)})
	if m == nil {
		return "m"
	}
	m.glock.Lock()
	defer m.glock.Unlock()
	if m.lockKey != vTransId(q.key) {
		return "m"
	}
	d := m.GetLockData()
	if d == nil {
		return strconv.Itoa(int(m.locked))
	}
	return fmt.Sprintf("%d:%s", m.locked, hex.EncodeToString(d))
}

// ---- collecting what happened

// binary: has the client an unconsumed frame carrying this token as RequestId?
func (x *vTransRun) hasTok(c *vTransConn, tok int) bool {
	c.cli.mu.Lock()
	defer c.cli.mu.Unlock()
	for i, g := range c.cli.bin {
		if !c.cli.taken[i] && x.w.tokOf(g.raw[3:19]) == strconv.Itoa(tok) {
			return true
		}
	}
	return false
}

// has the client received an answer to whatever it is the script waits for? binary: a frame with the token; text: any frame
func (x *vTransRun) answeredTok(c *vTransConn, tok int) bool {
	if c.kind == 'b' {
		return x.hasTok(c, tok)
	}
	c.cli.mu.Lock()
	defer c.cli.mu.Unlock()
	return c.cli.used < len(c.cli.txt)
}

// does the client hold an unconsumed frame answering the leader's frame f? (binary: same type and RequestId; text: any)
func (x *vTransRun) peekMatch(c *vTransConn, f *vTransFrame) bool {
	c.cli.mu.Lock()
	defer c.cli.mu.Unlock()
	if c.kind == 't' {
		return c.cli.used < len(c.cli.txt)
	}
	for i, g := range c.cli.bin {
		if !c.cli.taken[i] && g.raw[2] == f.raw[2] && string(g.raw[3:19]) == string(f.raw[3:19]) {
			return true
		}
	}
	return false
}

// binary: consume (in arrival order) up to max unconsumed frames satisfying pred; canonical texts and the frames
func (x *vTransRun) takeBin(c *vTransConn, pred func(*vTransFrame) bool, max int) ([]string, []*vTransFrame) {
	var out []string
	var fs []*vTransFrame
	c.cli.mu.Lock()
	defer c.cli.mu.Unlock()
	for i, f := range c.cli.bin {
		if c.cli.taken[i] || len(out) >= max || !pred(f) {
			continue
		}
		c.cli.taken[i] = true
		s := vTransResStr(f, x.w.tokOf)
		out = append(out, fmt.Sprintf("%d>%s", c.idx, s))
		fs = append(fs, f)
		if f.raw[2] == protocol.COMMAND_LOCK || f.raw[2] == protocol.COMMAND_UNLOCK {
			if t, err := strconv.Atoi(x.w.tokOf(f.raw[3:19])); err == nil {
				x.results[t] = append(x.results[t], s)
			}
		}
	}
	return out, fs
}

// the frames answering token `tok` (binary) / the next frames (text)
func (x *vTransRun) takeTok(c *vTransConn, tok int) ([]string, *vTransFrame) {
	if c.kind == 't' {
		return x.takeText(c, 1<<30), nil
	}
	out, fs := x.takeBin(c, func(f *vTransFrame) bool { return x.w.tokOf(f.raw[3:19]) == strconv.Itoa(tok) }, 1<<30)
	if len(fs) > 0 {
		return out, fs[0]
	}
	return out, nil
}

// the frame answering the leader's frame f
func (x *vTransRun) takeMatch(c *vTransConn, f *vTransFrame) ([]string, *vTransFrame) {
	if c.kind == 't' {
		return x.takeText(c, 1), nil
	}
	out, fs := x.takeBin(c, func(g *vTransFrame) bool { return g.raw[2] == f.raw[2] && string(g.raw[3:19]) == string(f.raw[3:19]) }, 1)
	if len(fs) > 0 {
		return out, fs[0]
	}
	return out, nil
}

// binary frames nobody consumed (there should be none: everything a client receives is attributed to an event)
func (x *vTransRun) leftovers(c *vTransConn) []string {
	if c.kind != 'b' {
		return nil
	}
	out, _ := x.takeBin(c, func(*vTransFrame) bool { return true }, 1<<30)
	return out
}

// text: the next frames of the connection, canonical
func (x *vTransRun) takeText(c *vTransConn, max int) []string {
	var out []string
	c.cli.mu.Lock()
	defer c.cli.mu.Unlock()
	for ; c.cli.used < len(c.cli.txt) && len(out) < max; c.cli.used++ {
		v := c.cli.txt[c.cli.used]
		s := "?" + strings.Join(v, " ")
		switch {
		case len(v) >= 12 && v[2] == "LOCK_ID":
			id, _ := hex.DecodeString(v[3])
			s = fmt.Sprintf("T:%s,%s,%s,%s,%s,%s", v[0], vTransNum(id), v[5], v[7], v[9], v[11])
			if c.awaiting >= 0 {
				x.results[c.awaiting] = append(x.results[c.awaiting], s)
			}
		case len(v) == 1 && v[0] == "+OK":
			s = "K"
			if c.awaitReq != nil && c.awaitReq.mode == 'v' {
				s = "V:ok"
			}
		case len(v) == 1 && v[0] == "" && c.awaitReq != nil && c.awaitReq.mode == 'v':
			s = "V:nil"
		case len(v) == 1 && v[0] == "-ERR Leader Server Error":
			s = "E:leader"
		case len(v) == 1 && v[0] == "-ERR Uknown DB Error":
			s = "E:db"
		case len(v) == 1 && strings.HasPrefix(v[0], "-ERR ") && c.awaitReq != nil && c.awaitReq.mode == 'v':
			s = "V:err" + v[0][5:]
		}
		out = append(out, fmt.Sprintf("%d>%s", c.idx, s))
	}
	return out
}

// the connection a forwarded frame belongs to: by the token's owner; a RequestId that is not a script id was generated
// by the text protocol for the request being sent right now (the harness sends one request at a time)
func (x *vTransRun) frameOwner(f *vTransFrame) *vTransConn {
	b := f.raw
	if t, err := strconv.Atoi(x.w.tokOf(b[3:19])); err == nil {
		return x.owner[t]
	}
	if c := x.current; c != nil && c.kind == 't' && c.awaitReq != nil && (b[2] == protocol.COMMAND_LOCK || b[2] == protocol.COMMAND_UNLOCK) {
		var rid [16]byte
		copy(rid[:], b[3:19])
		x.w.mu.Lock()
		x.w.textRid[rid] = c.awaitReq.tok
		x.w.mu.Unlock()
		return c
	}
	if b[2] == protocol.COMMAND_LOCK || b[2] == protocol.COMMAND_UNLOCK {
		for _, c := range x.conns {
			for _, q := range c.wills {
				if c.kind == 't' && vTransNum(b[21:37]) == strconv.Itoa(q.lockid) && vTransNum(b[37:53]) == strconv.Itoa(q.key) {
					var rid [16]byte
					copy(rid[:], b[3:19])
					x.w.mu.Lock()
					x.w.textRid[rid] = q.tok
					x.w.mu.Unlock()
					return c
				}
			}
		}
	}
	return nil
}

// forwarded frames not consumed yet (on every proxy link), canonical and attributed. `adopt`: the connection whose
// request is being processed — a link instance carrying its frames becomes its current link. (Frames that show up on
// other instances are re-sends by detached link objects that reconnected.)
func (x *vTransRun) takeForwarded(adopt *vTransConn) []string { return x.takeForwardedUpTo(adopt, -1) }

// … on the link that carries token `stop` only up to (and including) that frame: the forwards of later pipelined requests stay
func (x *vTransRun) takeForwardedUpTo(adopt *vTransConn, stop int) []string {
	var out []string
	for _, l := range x.w.px.snapshot() {
		l.mu.Lock()
		for stopped := false; l.upUsed < len(l.up) && !stopped; l.upUsed++ {
			f := l.up[l.upUsed]
			if stop >= 0 && x.w.tokOf(f.raw[3:19]) == strconv.Itoa(stop) {
				stopped = true
			}
			c := x.frameOwner(f)
			if c == nil {
				out = append(out, "?<"+vTransCmdStr(f, x.w.tokOf))
				continue
			}
			out = append(out, fmt.Sprintf("%d<%s", c.idx, vTransCmdStr(f, x.w.tokOf)))
			if c == adopt && c.link != l {
				c.link = l
				c.linkInit = -1
				c.latest = -1
				c.inflight = map[int]*vTransReq{}
				if f.raw[2] == protocol.COMMAND_INIT {
					if t, err := strconv.Atoi(x.w.tokOf(f.raw[3:19])); err == nil {
						c.linkInit = t
					}
				}
			}
			if c == adopt && c.link == l {
				if t, err := strconv.Atoi(x.w.tokOf(f.raw[3:19])); err == nil {
					c.stale = false
					c.latest = t
					c.inflight[t] = x.reqs[t]
					x.fwdFrames[t] = f
				}
			}
		}
		l.mu.Unlock()
	}
	sort.SliceStable(out, func(i, j int) bool { return out[i][0] < out[j][0] })
	return out
}

func vTransJoin(parts []string) string {
	if len(parts) == 0 {
		return "-"
	}
	return strings.Join(parts, "+")
}

// has a frame carrying the token (as RequestId, or — text — as LockId / key) reached the proxy, not consumed yet?
func (x *vTransRun) forwardSeen(tok int) bool {
	ts := strconv.Itoa(tok)
	for _, l := range x.w.px.snapshot() {
		l.mu.Lock()
		for i := l.upUsed; i < len(l.up); i++ {
			b := l.up[i].raw
			if vTransNum(b[3:19]) == ts || (x.current != nil && x.current.kind == 't' && vTransNum(b[3:19])[0] == 'x') {
				l.mu.Unlock()
				return true
			}
		}
		l.mu.Unlock()
	}
	return false
}

// has the will command q (forwarded at its connection's close) reached the proxy, not consumed yet?
func (x *vTransRun) willSeen(q *vTransReq) bool {
	for _, l := range x.w.px.snapshot() {
		l.mu.Lock()
		for i := l.upUsed; i < len(l.up); i++ {
			b := l.up[i].raw
			if (b[2] == protocol.COMMAND_LOCK || b[2] == protocol.COMMAND_UNLOCK) && vTransNum(b[21:37]) == strconv.Itoa(q.lockid) && vTransNum(b[37:53]) == strconv.Itoa(q.key) {
				l.mu.Unlock()
				return true
			}
		}
		l.mu.Unlock()
	}
	return false
}

func (x *vTransRun) linkAlive(c *vTransConn) bool { return c.link != nil && !c.link.isDead() }

// ---- events

func (x *vTransRun) evAccept(kind byte) *vTransConn {
	n0 := len(x.w.F.srv.GetStreams())
	c := &vTransConn{idx: len(x.conns), kind: kind, linkInit: -1, initTok: -1, awaiting: -1, latest: -1, inflight: map[int]*vTransReq{}}
	c.cli = vTransDial(x.w.F.addr, kind, c.idx)
	x.conns = append(x.conns, c)
	x.waitFor(func() bool { return len(x.w.F.srv.GetStreams()) > n0 }, 2*time.Second)
	x.ev(fmt.Sprintf("a %c", kind), "ok")
	return c
}

func (x *vTransRun) evClose(c *vTransConn) {
	if c.closed {
		return
	}
	x.settle()
	if c.kind == 't' && c.awaiting >= 0 {
		// the handler is blocked in <-lockWaiter: the close is noticed only when the answer is written
		c.cli.close()
		c.closed, c.half = true, true
		x.ev(fmt.Sprintf("x %d", c.idx), "defer")
		return
	}
	n0 := len(x.w.F.srv.GetStreams())
	before := x.w.F.digest()
	// the wrapper's Close writes the will commands to the leader when CheckClient yields a link
	hadLink := x.linkAlive(c)
	expectFwd := len(c.wills) > 0 && c.wrapped && (hadLink || ((x.role == STATE_FOLLOWER || x.role == STATE_SYNC) && x.addr == 1))
	c.cli.close()
	c.closed = true
	x.waitFor(func() bool { return len(x.w.F.srv.GetStreams()) < n0 }, 2*time.Second)
	if expectFwd {
		last := c.wills[len(c.wills)-1]
		if !x.waitFor(func() bool { return x.willSeen(last) }, 3*time.Second) && os.Getenv("VERIF_TRANS_DEBUG") != "" {
			fmt.Fprintf(os.Stderr, "DEBUG case %d: last will %d of conn %d not seen; proxy links:\n", x.caseNo, last.tok, c.idx)
			for _, l := range x.w.px.snapshot() {
				l.mu.Lock()
				var ups []string
				for _, f := range l.up {
					ups = append(ups, vTransCmdStr(f, x.w.tokOf))
				}
				if l.id+3 >= len(x.w.px.links) {
					fmt.Fprintf(os.Stderr, "DEBUG   link %d dead=%v upTail=%d nup=%d first=%v last=%v down=%d sent=%d why=%v\n", l.id, l.dead, len(l.upTail), len(ups), ups[:1], ups[len(ups)-1:], len(l.down), l.downSent, l.why)
				}
				l.mu.Unlock()
			}
			if lg, err := os.ReadFile(x.w.F.s.aof.dataDir + "/slock.log"); err == nil {
				lines := strings.Split(string(lg), "\n")
				if len(lines) > 25 {
					lines = lines[len(lines)-25:]
				}
				fmt.Fprintf(os.Stderr, "DEBUG follower log tail:\n%s\n", strings.Join(lines, "\n"))
			}
		}
	}
	if c.kind == 'b' && c.link != nil {
		l := c.link
		x.waitFor(func() bool { return l.isDead() }, 2*time.Second)
	}
	time.Sleep(time.Millisecond)
	// how many frames Close has to write: the will commands, and first the INIT when the link has to be opened for them
	want := len(c.wills)
	if expectFwd && !hadLink && c.kind == 'b' && c.initTok >= 0 {
		want++
	}
	fw := x.takeForwarded(c)
	c.link = nil
	if expectFwd && len(fw) < want {
		// Close was cut short: the link's reader, relaying the leader's first answers to the client that has gone, hit a write
		// error and closed the link under Close's feet; the remaining will commands were never written (a race of the real code,
		// an input of the model: `x c k`)
		x.out.stat("observed:C10:wills-cut-short-at-close")
		{ // a registered will that never reaches the leader: a violation of the statement seen through a non-leader (recorded finding)
			x.report("C10:will-not-forwarded-at-close", fmt.Sprintf("connection %d registered %d will command(s); when it closed only %d of the %d frames Close had to write reached the leader: %s", c.idx, len(c.wills), len(fw), want, vTransJoin(fw)))
		}
		ob := "ok"
		if len(fw) > 0 {
			ob = "-|" + vTransJoin(fw)
		}
		x.ev(fmt.Sprintf("x %d %d", c.idx, len(fw)), ob)
	} else if len(fw) == 0 {
		x.ev(fmt.Sprintf("x %d", c.idx), "ok")
	} else {
		x.ev(fmt.Sprintf("x %d", c.idx), "-|"+vTransJoin(fw))
		x.out.stat("closes-forwarding-wills")
		for _, q := range c.wills {
			if q.typ == 'L' {
				x.heldL[q.key] = append(x.heldL[q.key], q.lockid) // released by the case's clean-up
			}
		}
	}
	if after := x.w.F.digest(); x.nonLeader() && c.wrapped && after != before {
		x.report("C10:follower-state-changed-by-client", fmt.Sprintf("the node is not the leader, yet its own lock tables changed while connection %d closed (its will commands ran on the node's own engine?): %s -> %s", c.idx, before, after))
	}
}

func (x *vTransRun) evRole(state uint8) {
	x.settle()
	letters := map[uint8]string{STATE_INIT: "i", STATE_LEADER: "l", STATE_FOLLOWER: "f", STATE_SYNC: "s", STATE_CONFIG: "c", STATE_VOTE: "v", STATE_CLOSE: "x"}
	// the node serves more than database 0, and not contiguous ids (a client command with DbId 5 creates database 5 the same way)
	if x.w.F.s.dbs[5] == nil {
		x.w.F.s.GetOrNewDB(5)
	}
	x.w.F.s.updateState(state)
	x.role = state
	// C10: every database of the node follows the node's role — a database that still believes it is the leader's grants, releases and
	// ends holds on its own clock
	for id, db := range x.w.F.s.dbs {
		if db != nil && (db.status == STATE_LEADER) != (state == STATE_LEADER) {
			x.report("C10:database-kept-its-role", fmt.Sprintf("the node changed to state %s, but its database %d still has status %d: it %s decide client requests and end replicated holds on its own",
				letters[state], id, db.status, map[bool]string{true: "will", false: "will refuse to"}[db.status == STATE_LEADER]))
			break
		}
	}
	x.ev("s "+letters[state], "ok")
}

// is the answer to the connection's latest forwarded command still outstanding (so that a link loss fabricates one)?
func (x *vTransRun) expectsRollback(c *vTransConn) bool {
	if !x.linkAlive(c) || c.latest < 0 {
		return false
	}
	if c.stale && c.kind == 'b' {
		return true
	}
	if _, ok := c.inflight[c.latest]; !ok {
		return false
	}
	if c.kind == 't' {
		return c.awaiting == c.latest
	}
	return true
}

// after a link loss: requests forwarded on it that never got any answer
func (x *vTransRun) afterLinkLoss(c *vTransConn) {
	for t, q := range c.inflight {
		if q == nil || len(x.results[t]) > 0 || (q.typ != 'L' && q.typ != 'U') || q.mode == 'p' {
			continue
		}
		x.out.stat("observed:C10:no-reply-after-link-loss")
		x.lost[t] = true
		if os.Getenv("VERIF_TRANS_STRICT") != "" {
			// classified: genuine (the request was forwarded and is queued / held at the leader; its client is never told anything)
			x.report("C10:no-reply-after-link-loss", fmt.Sprintf("request %d of connection %d was forwarded; its link lost its socket; only the latest in-flight request of the link is answered (RESULT_ERROR) — this one gets no answer at all", t, c.idx))
		}
	}
	c.link = nil
	c.linkInit = -1
	c.latest = -1
	c.stale = false
	c.inflight = map[int]*vTransReq{}
}

func (x *vTransRun) settleText(c *vTransConn) {
	if c.kind == 't' && c.awaiting >= 0 && len(x.results[c.awaiting]) > 0 {
		c.awaiting = -1
		c.awaitReq = nil
	}
}

func (x *vTransRun) evLinkDown(c *vTransConn) {
	if !x.linkAlive(c) {
		return
	}
	x.settle()
	if !x.linkAlive(c) {
		return
	}
	expect := x.expectsRollback(c)
	hadInit := c.linkInit >= 0
	latest := c.latest
	nl := len(x.w.px.snapshot())
	c.link.cut()
	if expect {
		x.waitFor(func() bool { return x.answeredTok(c, latest) }, 4*time.Second)
	}
	if x.nonLeader() && x.addr == 1 {
		// the detached link object reconnects (and re-sends its INIT)
		x.waitFor(func() bool { return len(x.w.px.snapshot()) > nl }, 3*time.Second)
		if hadInit {
			x.waitFor(func() bool { return x.forwardSeen(c.linkInit) }, 3*time.Second)
		}
	}
	time.Sleep(3 * time.Millisecond)
	cl, _ := x.takeTok(c, latest)
	if c.kind == 't' && len(cl) > 0 {
		c.awaiting, c.awaitReq = -1, nil
	}
	fw := x.takeForwarded(nil)
	x.ev(fmt.Sprintf("d %d", c.idx), vTransJoin(cl)+"|"+vTransJoin(fw))
	x.afterLinkLoss(c)
}

func (x *vTransRun) evLeader(a int) {
	addrs := []string{"", x.w.px.addr, x.w.deadAddr}
	x.settle()
	old := x.addr
	var waitOn []*vTransConn
	latest := map[*vTransConn]int{}
	if a != old || a == 0 {
		for _, c := range x.conns {
			latest[c] = c.latest
			if x.expectsRollback(c) {
				waitOn = append(waitOn, c)
			}
		}
	}
	x.w.F.s.replicationManager.leaderAddress = addrs[a]
	_ = x.w.manager().ChangeLeader(addrs[a])
	x.addr = a
	for _, c := range waitOn {
		cc := c
		x.waitFor(func() bool { return x.answeredTok(cc, latest[cc]) }, 4*time.Second)
	}
	var cl []string
	if a != old || a == 0 {
		for _, c := range x.conns {
			if c.link != nil {
				l := c.link
				x.waitFor(func() bool { return l.isDead() }, 2*time.Second)
			}
		}
		time.Sleep(3 * time.Millisecond)
		for _, c := range x.conns {
			if c.link == nil {
				continue
			}
			got, _ := x.takeTok(c, latest[c])
			if c.kind == 't' && len(got) > 0 {
				c.awaiting, c.awaitReq = -1, nil
			}
			cl = append(cl, got...)
			x.afterLinkLoss(c)
		}
		fw := x.takeForwarded(nil)
		x.ev(fmt.Sprintf("l %d", a), vTransJoin(cl)+"|"+vTransJoin(fw))
		return
	}
	x.ev(fmt.Sprintf("l %d", a), "ok")
}

// the twin of a forwarded LOCK / UNLOCK frame for the oracle: same bytes, RequestId and key moved
func (x *vTransRun) sendTwin(tok int) {
	f := x.fwdFrames[tok]
	q := x.reqs[tok]
	if f == nil || q == nil || (f.raw[2] != protocol.COMMAND_LOCK && f.raw[2] != protocol.COMMAND_UNLOCK) {
		return
	}
	b := append([]byte{}, f.raw...)
	rid, key := vTransId(tok+vTransTwin), vTransId(q.key+vTransTwin)
	copy(b[3:19], rid[:])
	copy(b[37:53], key[:])
	b = append(b, f.data...)
	_ = x.w.oracle.write(b)
	x.twinSent[tok] = true
}

func (x *vTransRun) pollOracle() {
	o := x.w.oracle
	o.mu.Lock()
	defer o.mu.Unlock()
	for ; o.used < len(o.bin); o.used++ {
		f := o.bin[o.used]
		if t, err := strconv.Atoi(vTransNum(f.raw[3:19])); err == nil && t >= vTransTwin {
			x.twinGot[t-vTransTwin] = append(x.twinGot[t-vTransTwin], f)
		}
	}
}

func (x *vTransRun) twinAnswered(tok int) bool {
	x.pollOracle()
	return len(x.twinGot[tok]) > 0
}

// field-by-field comparison of what the client got through the follower with what the oracle got directly
func (x *vTransRun) compareTwin(tok int, via *vTransFrame) {
	x.pollOracle()
	tw := x.twinGot[tok]
	if len(tw) == 0 {
		return
	}
	d := tw[0]
	a, b := via.raw, d.raw
	same := a[2] == b[2] && a[19] == b[19] && a[20] == b[20] && a[21] == b[21] && string(a[22:38]) == string(b[22:38]) && string(a[54:60]) == string(b[54:60]) && string(via.data) == string(d.data)
	x.out.stat("twin-compared")
	if !same {
		x.report("C10:outcome-differs-via-follower", fmt.Sprintf("token %d: through the follower %s, sent directly to the leader (same command on the twin key) %s",
			tok, vTransResStr(via, x.w.tokOf), vTransResStr(d, func(b []byte) string { return vTransNum(b) })))
	}
}

// new frames the leader sent on the connection's link: one `r` event each
func (x *vTransRun) evLeaderFrames(c *vTransConn) {
	for c.link != nil {
		l := c.link
		l.mu.Lock()
		if l.downUsed >= len(l.down) {
			l.mu.Unlock()
			return
		}
		f := l.down[l.downUsed]
		fidx := l.downUsed
		l.downUsed++
		l.mu.Unlock()
		x.waitFor(func() bool { return l.delivered(fidx) }, 3*time.Second)
		b := f.raw
		toks := x.w.tokOf(b[3:19])
		tok, terr := strconv.Atoi(toks)
		var op string
		expect, fresh := false, false
		switch b[2] {
		case protocol.COMMAND_LOCK, protocol.COMMAND_UNLOCK:
			k := "L"
			if b[2] == protocol.COMMAND_UNLOCK {
				k = "U"
			}
			op = fmt.Sprintf("r %d R %s %s %d %d %d %s %s %d %d %d %d %s", c.idx, k, toks, b[19], b[20], b[21], vTransNum(b[22:38]), vTransNum(b[38:54]),
				vTransLE16(b[54:56]), vTransLE16(b[56:58]), b[58], b[59], vTransDataStr(f.data))
			expect = c.kind == 'b' || (terr == nil && c.awaiting == tok && !c.half)
		case protocol.COMMAND_INIT:
			op = fmt.Sprintf("r %d I %s %d %d", c.idx, toks, b[19], b[20])
			expect = c.kind == 'b' && terr == nil && c.linkInit == tok
			l.mu.Lock()
			fresh = expect && l.downUsed == 1 // the answer to the INIT that Open itself sent on this link instance
			l.mu.Unlock()
		case protocol.COMMAND_CALL:
			op = fmt.Sprintf("r %d C %s %d %s", c.idx, toks, b[19], vTransDataStr(f.data))
			expect = c.kind == 'b'
		default:
			op = fmt.Sprintf("r %d X", c.idx)
		}
		if expect && fresh {
			// the reader goroutine of a fresh link may have read this frame before CheckClient attached the link object to the
			// connection (`serverProtocol == nil`): then it was dropped unseen and will never be relayed. The reader handles the
			// frames of a link in order: once the relay of a LATER frame of this link has reached the client, this one is settled.
			// (Only when there is no later frame the verdict "dropped" rests on a 3 s silence.)
			laterRelayed := func() bool {
				l.mu.Lock()
				later := append([]*vTransFrame{}, l.down[l.downUsed:]...)
				l.mu.Unlock()
				for _, g := range later {
					if x.peekMatch(c, g) {
						return true
					}
				}
				return false
			}
			x.waitFor(func() bool { return x.peekMatch(c, f) || laterRelayed() }, 3*time.Second)
		} else if expect {
			x.waitFor(func() bool { return x.peekMatch(c, f) }, 4*time.Second)
		} else {
			time.Sleep(2 * time.Millisecond)
		}
		var got *vTransFrame
		var cl []string
		if (expect || c.kind == 'b') && x.peekMatch(c, f) {
			cl, got = x.takeMatch(c, f)
		}
		if fresh && len(cl) == 0 {
			op = "rx" + op[1:]
			x.out.stat("observed:C10:frame-read-before-link-attached")
			x.ev(op, "-|"+vTransJoin(x.takeForwarded(nil)))
			continue
		}
		// did the answer overtake Write's bookkeeping? (the link object still has the command as its latest in-flight one)
		if terr == nil && c.latest == tok && x.stillLatest(c, f, len(cl) > 0) {
			// Write records the command as the link's latest one BEFORE its bytes leave (repaired): whichever goroutine runs first,
			// the answer finds it and clears it. Every case is strict about this now; the model's `re` input is no longer produced.
			x.report("C10:answer-did-not-clear-latest", fmt.Sprintf("the leader's answer %s has been handled, yet the link still has the command as its latest in-flight one (the next link loss will \"roll back\" an answered request)", op))
		}
		x.ev(op, vTransJoin(cl)+"|"+vTransJoin(x.takeForwarded(nil)))
		if c.half && terr == nil && c.awaiting == tok {
			// the write to the departed client fails; handle() closes the connection
			c.awaiting, c.awaitReq, c.half, c.link = -1, nil, false, nil
			return
		}
		if terr == nil {
			delete(c.inflight, tok)
			if c.latest == tok && !c.stale {
				c.latest = -1
			}
			if q := x.reqs[tok]; q != nil && b[19] == protocol.RESULT_SUCCED {
				if b[2] == protocol.COMMAND_LOCK && q.mode == 'w' {
					x.heldL[q.key] = append(x.heldL[q.key], q.lockid)
				} else if b[2] == protocol.COMMAND_UNLOCK && q.mode == 'w' {
					hs := x.heldL[q.key]
					for i, id := range hs {
						if id == q.lockid {
							x.heldL[q.key] = append(append([]int{}, hs[:i]...), hs[i+1:]...)
							break
						}
					}
				}
			}
		}
		// the relay must not alter the leader's frame (INIT: only the InitType byte is rewritten)
		if got != nil && len(cl) == 1 {
			same := string(got.raw[:60]) == string(f.raw[:60]) && string(got.data) == string(f.data)
			if b[2] == protocol.COMMAND_INIT {
				same = string(got.raw[:20]) == string(f.raw[:20]) && string(got.raw[21:60]) == string(f.raw[21:60])
			}
			x.out.stat("relay-compared")
			if !same {
				x.report("C10:relay-altered", fmt.Sprintf("the leader sent %s %x, the client received %s %x", vTransResStr(f, x.w.tokOf), f.raw, vTransResStr(got, x.w.tokOf), got.raw))
			}
			if (b[2] == protocol.COMMAND_LOCK || b[2] == protocol.COMMAND_UNLOCK) && terr == nil && x.twinSent[tok] {
				x.waitFor(func() bool { return x.twinAnswered(tok) }, 2*time.Second)
				x.compareTwin(tok, got)
			}
		}
		if c.kind == 't' && len(cl) > 0 && terr == nil && c.awaiting == tok {
			if (b[2] == protocol.COMMAND_LOCK || b[2] == protocol.COMMAND_UNLOCK) && x.twinSent[tok] && c.awaitReq != nil && c.awaitReq.mode == 'w' {
				x.waitFor(func() bool { return x.twinAnswered(tok) }, 2*time.Second)
				x.compareTwinText(tok, cl[0])
			}
			c.awaiting, c.awaitReq = -1, nil
		}
	}
}

func (x *vTransRun) compareTwinText(tok int, got string) {
	x.pollOracle()
	tw := x.twinGot[tok]
	if len(tw) == 0 {
		return
	}
	b := tw[0].raw
	want := fmt.Sprintf("%d>T:%d,%s,%d,%d,%d,%d", x.owner[tok].idx, b[19], vTransNum(b[22:38]), vTransLE16(b[54:56]), (vTransLE16(b[56:58])+1)%65536, b[58], (int(b[59])+1)%256)
	x.out.stat("twin-compared")
	if got != want {
		x.report("C10:outcome-differs-via-follower", fmt.Sprintf("token %d (text): through the follower %s, the same command sent directly to the leader gives %s", tok, got, want))
	}
}

// the follower's link object behind the connection's current proxy link
func (x *vTransRun) linkObj(c *vTransConn) *TransparencyBinaryClientProtocol {
	if c.link == nil {
		return nil
	}
	m := x.w.manager()
	m.glock.Lock()
	defer m.glock.Unlock()
	for _, head := range []*TransparencyBinaryClientProtocol{m.clients, m.idleClients} {
		for cur := head; cur != nil; cur = cur.nextClient {
			if cur.localAddress == c.link.fAddr {
				return cur
			}
		}
	}
	return nil
}

func (x *vTransRun) stillLatest(c *vTransConn, f *vTransFrame, relayed bool) bool {
	o := x.linkObj(c)
	if o == nil {
		return false
	}
	var rid [16]byte
	copy(rid[:], f.raw[3:19])
	// Write records (type, then RequestId) right after the bytes left; the relay the client already holds was written AFTER the
	// reader's comparison with latestRequestId. So once latestRequestId shows this command, both sides are done and the type tells
	// which came first: still set = the answer overtook the bookkeeping.
	end := time.Now().Add(2 * time.Second)
	for o.latestRequestId != rid && time.Now().Before(end) {
		time.Sleep(50 * time.Microsecond)
	}
	if !relayed {
		// nothing tells when the reader is through with a frame it drops: the frame is in the follower's socket; give the reader
		// 300 ms to clear the entry — if it is still there then, the reader did see the frame and did not clear it
		end = time.Now().Add(300 * time.Millisecond)
		for o.latestRequestId == rid && o.latestCommandType != 0xff && time.Now().Before(end) {
			time.Sleep(100 * time.Microsecond)
		}
	}
	if os.Getenv("VERIF_TRANS_DEBUG") != "" && o.latestRequestId == rid && o.latestCommandType != 0xff {
		fmt.Fprintf(os.Stderr, "DEBUG stillLatest case %d strict=%v conn %d rid=%s type=%d obj=%p attached=%v\n", x.caseNo, x.strict, c.idx, x.w.tokOf(rid[:]), o.latestCommandType, o, o.serverProtocol != nil)
	}
	return o.latestRequestId == rid && o.latestCommandType != 0xff
}

// the first command of a text connection was executed by the node's own (plain) handlers although a link to the leader
// could have been opened: what would the leader have said?
func (x *vTransRun) plainFirst(c *vTransConn, q *vTransReq, got string) {
	if !(x.nonLeader() && x.addr == 1 && (x.role == STATE_FOLLOWER || x.role == STATE_SYNC)) || q.mode != 'w' || (q.typ != 'L' && q.typ != 'U') {
		return
	}
	d := x.oracleSame(q)
	if d == nil {
		return
	}
	b := d.raw
	want := fmt.Sprintf("%d>T:%d,%s,%d,%d,%d,%d", c.idx, b[19], vTransNum(b[22:38]), vTransLE16(b[54:56]), (vTransLE16(b[56:58])+1)%65536, b[58], (int(b[59])+1)%256)
	if strings.HasPrefix(got, fmt.Sprintf("%d>T:%d,", c.idx, protocol.RESULT_STATE_ERROR)) {
		// refused with STATE_ERROR (by the node's own engine): the statement allows a non-leader to refuse instead of forwarding
		x.out.stat("observed:C10:refused-first-text-command")
	} else if !strings.HasPrefix(got, fmt.Sprintf("%d>T:%d,", c.idx, b[19])) {
		x.report("C10:outcome-differs-via-follower:first-text-command", fmt.Sprintf("the first command of a text connection (it fits the first 64-byte read) `%s` was answered %s by the follower's own handlers, never forwarded; the same command sent to the leader: %s",
			x.reqOp1(c, q, "n"), got, want))
	}
	if q.typ == 'L' && b[19] == protocol.RESULT_SUCCED {
		x.oracleUnlockOnly(q.key, q.lockid)
	}
}

func (x *vTransRun) oracleUnlockOnly(key, lockid int) {
	c := &protocol.LockCommand{Command: protocol.Command{Magic: protocol.MAGIC, Version: protocol.VERSION, CommandType: protocol.COMMAND_UNLOCK, RequestId: vTransId(x.w.fresh())},
		LockId: vTransId(lockid), LockKey: vTransId(key)}
	b := make([]byte, 64)
	_ = c.Encode(b)
	_ = x.w.oracle.write(b)
}

// before an event: whatever the leader has answered meanwhile is recorded first (a queued request whose twin has been
// answered on the oracle has been answered on its link too)
func (x *vTransRun) settle() {
	x.wakeWaiters()
	x.drain()
}

// every connection: leader frames that arrived meanwhile (grants of queued requests, time-outs)
func (x *vTransRun) drain() {
	for _, c := range x.conns {
		if !c.closed || c.half {
			x.evLeaderFrames(c)
		}
	}
}

// wait until the leader has answered the in-flight token (its twin was answered on the oracle), then record it
func (x *vTransRun) awaitGrant(c *vTransConn, tok int) {
	if c.link == nil {
		return
	}
	if _, pending := c.inflight[tok]; !pending {
		x.evLeaderFrames(c) // already recorded (with the answers of an earlier request of the same write)
		return
	}
	l := c.link
	x.waitFor(func() bool {
		l.mu.Lock()
		defer l.mu.Unlock()
		for i := l.downUsed; i < len(l.down); i++ {
			if x.w.tokOf(l.down[i].raw[3:19]) == strconv.Itoa(tok) {
				return true
			}
		}
		return l.dead
	}, 4*time.Second)
	x.evLeaderFrames(c)
}

// evRequest sends one command on a follower connection and records what came of it; `immediate` = the harness expects
// the leader to answer at once when the command is forwarded (else it is meant to queue at the leader)
func (x *vTransRun) evRequest(c *vTransConn, q *vTransReq) {
	if c.closed || (c.kind == 't' && c.awaiting >= 0) {
		return
	}
	x.settle()
	x.current = c
	defer func() { x.current = nil }()
	rep := x.replica(q)
	before := x.w.F.digest()
	wire := x.wireOf(c, q)
	_ = c.cli.write(wire)
	x.observe(c, q, wire, rep, before, -1)
	x.wakeWaiters()
	x.drain()
}

// several requests of a binary connection written with ONE write (they reach the server in one read: the buffered loop
// of Process), observed one after the other
func (x *vTransRun) evPipeline(c *vTransConn, qs []*vTransReq) {
	if c.closed || c.kind != 'b' {
		return
	}
	x.settle()
	x.current = c
	defer func() { x.current = nil }()
	var wires [][]byte
	var reps []string
	var all []byte
	for _, q := range qs {
		reps = append(reps, x.replica(q))
		w := x.wireOf(c, q)
		wires = append(wires, w)
		all = append(all, w...)
	}
	before := x.w.F.digest()
	_ = c.cli.write(all)
	x.out.stat("pipelined-writes")
	// first what became of each request (in the order they were written), then the leader's answers
	var fwd []*vTransReq
	for i, q := range qs {
		var f bool
		before, f = x.observe1(c, q, wires[i], reps[i], before, q.tok)
		if f {
			fwd = append(fwd, q)
		}
	}
	for _, q := range fwd {
		x.answers(c, q)
	}
	x.wakeWaiters()
	x.drain()
}

func (x *vTransRun) wireOf(c *vTransConn, q *vTransReq) []byte {
	x.owner[q.tok] = c
	x.reqs[q.tok] = q
	if q.typ == 'I' {
		c.initTok, c.initCid = q.tok, q.cid
	}
	var wire []byte
	switch {
	case c.kind == 't' && q.typ == 'O':
		wire = vTransRESPCmd("SELECT", "0")
	case c.kind == 't':
		wire = x.textCmd(q)
		c.awaiting, c.awaitReq = q.tok, q
	case q.typ == 'L' || q.typ == 'U':
		wire = x.lockFrame(q, false)
	case q.typ == 'I':
		ic := &protocol.InitCommand{Command: protocol.Command{Magic: protocol.MAGIC, Version: protocol.VERSION, CommandType: protocol.COMMAND_INIT, RequestId: vTransId(q.tok)}, ClientId: vTransId(q.cid)}
		wire = make([]byte, 64)
		_ = ic.Encode(wire)
	case q.typ == 'C':
		name := "LIST_LOCK"
		if !q.fw {
			name = "NO_SUCH_METHOD"
		}
		cc := protocol.NewCallCommand(name, nil)
		cc.RequestId = vTransId(q.tok)
		wire = make([]byte, 64)
		_ = cc.Encode(wire)
	default:
		pc := &protocol.PingCommand{Command: protocol.Command{Magic: protocol.MAGIC, Version: protocol.VERSION, CommandType: protocol.COMMAND_PING, RequestId: vTransId(q.tok)}}
		wire = make([]byte, 64)
		_ = pc.Encode(wire)
	}
	return wire
}

// observe: what came of request q (already written); returns the node's engine digest afterwards
func (x *vTransRun) observe(c *vTransConn, q *vTransReq, wire []byte, rep string, before string, stop int) string {
	after, fwd := x.observe1(c, q, wire, rep, before, stop)
	if fwd {
		x.answers(c, q)
	}
	return after
}

// the leader's answer to a forwarded request: the same command goes to the leader directly (twin key); when that is answered
// at once, so is the forwarded one
func (x *vTransRun) answers(c *vTransConn, q *vTransReq) {
	if q.typ == 'L' || q.typ == 'U' {
		x.sendTwin(q.tok)
		// a request with a time-out on a key the leader is known to hold is meant to queue: a short look suffices (its answer is
		// picked up by settle() whenever it comes); everything else is answered at once, however loaded the machine is
		patience := 2 * time.Second
		if q.timeout > 0 && len(x.heldL[q.key]) > 0 {
			patience = 100 * time.Millisecond
		}
		if x.waitFor(func() bool { return x.twinAnswered(q.tok) }, patience) {
			x.awaitGrant(c, q.tok)
		}
		return
	}
	x.awaitGrant(c, q.tok) // INIT / CALL: the leader answers at once
}

func (x *vTransRun) observe1(c *vTransConn, q *vTransReq, wire []byte, rep string, before string, stop int) (string, bool) {
	if c.kind == 't' {
		rep = "n"
	}
	if x.nonLeader() {
		c.wrapped = true
	}
	if q.will {
		c.wills = append(c.wills, q)
	}
	if !(q.will && c.kind == 'b') { // a binary will command is answered by nothing: the next command of the script fences it
		x.waitFor(func() bool { return x.answeredTok(c, q.tok) || x.forwardSeen(q.tok) }, 5*time.Second)
	}
	fw := x.takeForwardedUpTo(c, stop)
	if len(fw) == 0 && !q.will {
		time.Sleep(time.Millisecond)
		fw = x.takeForwardedUpTo(c, stop)
	}
	var first *vTransFrame
	var cl []string
	if len(fw) == 0 {
		cl, first = x.takeTok(c, q.tok)
	} else if c.kind == 't' && q.mode == 'p' {
		x.waitFor(func() bool { return x.answeredTok(c, q.tok) }, 4*time.Second) // the +OK of PUSH
		cl = x.takeText(c, 1)
	} // else: whatever the client receives from now on is the relay of a leader frame (`r` events)
	after := x.w.F.digest()
	if f := x.fwdFrames[q.tok]; c.kind == 't' && f != nil && q.mode == 'v' {
		// the command the text converter built for SET (an input of the model): read off the wire
		b := f.raw
		q.typ = 'L'
		if b[2] == protocol.COMMAND_UNLOCK {
			q.typ = 'U'
		}
		q.flag, q.db, q.tflag, q.timeout, q.eflag, q.expried, q.count, q.rcount = int(b[19]), int(b[20]), vTransLE16(b[55:57]), vTransLE16(b[53:55]), vTransLE16(b[59:61]), vTransLE16(b[57:59]), vTransLE16(b[61:63]), int(b[63])
		q.lockid = q.key
		q.data = f.data
	}
	// the first read of a connection takes at most 64 bytes: a text command that fits is parsed by checkProtocol itself
	short := c.kind == 't' && c.nreq == 0 && len(wire) <= 64
	c.nreq++
	op := x.reqOp(c, q, rep, short)
	obs := vTransJoin(cl) + "|" + vTransJoin(fw)
	// evidence that the node's own engine / plain protocol object produced the answer
	if len(fw) == 0 && len(cl) == 1 && !q.will {
		switch {
		case x.role == STATE_LEADER && !(first != nil && first.raw[19] == protocol.RESULT_STATE_ERROR) && !strings.Contains(cl[0], ">E:leader"):
			obs = "loc" // the node is the leader: its own engine's answer (a transparency refusal would carry STATE_ERROR)
		case c.kind == 't' && !strings.Contains(cl[0], ">E:"):
			// the text transparency handlers fabricate nothing but -ERR lines: a lock result / value result without any
			// forwarding comes from the plain handlers, i.e. from the node's own engine
			obs = "loc"
			if short {
				x.out.stat("observed:C10:first-text-command-handled-by-plain-protocol")
				x.plainFirst(c, q, cl[0])
			}
		case (q.typ == 'L' || q.typ == 'U') && after != before:
			obs = "loc"
		case q.typ == 'I' && first != nil && first.raw[2] == protocol.COMMAND_INIT && first.raw[20]&2 == 0:
			obs = "loc"
		case q.typ == 'C' && first != nil && first.raw[2] == protocol.COMMAND_CALL && first.raw[19] != protocol.RESULT_STATE_ERROR && first.raw[19] != protocol.RESULT_ERROR:
			obs = "loc"
		case q.typ == 'O':
			obs = "loc"
		}
	}
	if os.Getenv("VERIF_TRANS_DEBUG") != "" && obs == "loc" {
		fmt.Fprintf(os.Stderr, "DEBUG case %d `%s` loc <- %s (digest %q -> %q)\n", x.caseNo, op, vTransJoin(cl), before, after)
	}
	x.ev(op, obs)
	x.out.stat("req:" + string(q.typ) + string(c.kind))
	if c.kind == 't' && (len(fw) == 0 || q.mode == 'p' || q.typ == 'O') {
		c.awaiting, c.awaitReq = -1, nil
	}
	if x.nonLeader() {
		if after != before {
			x.report("C10:follower-state-changed-by-client", fmt.Sprintf("the node is not the leader, yet its own lock tables changed while it handled `%s`: %s -> %s", op, before, after))
		}
		if len(fw) == 0 && (q.typ == 'L' || q.typ == 'U') && q.mode != 'p' && !q.will {
			// a result without any forwarding: anything but a refusal is a decision of this node
			refusal := false
			if first != nil {
				r := first.raw[19]
				refusal = r == protocol.RESULT_STATE_ERROR || r == protocol.RESULT_ERROR || r == protocol.RESULT_UNKNOWN_DB
			} else if len(cl) == 1 {
				refusal = strings.HasSuffix(cl[0], ">E:leader") || strings.HasSuffix(cl[0], ">E:db") || strings.Contains(cl[0], ">T:10,") || strings.Contains(cl[0], ">T:11,") || strings.Contains(cl[0], ">T:3,") ||
					strings.HasSuffix(cl[0], ">V:err10") || strings.HasSuffix(cl[0], ">V:err11")
			}
			if !refusal {
				sig := "C10:decided-locally"
				if q.typ == 'L' && q.flag&protocol.LOCK_FLAG_CONCURRENT_CHECK != 0 && q.timeout == 0 {
					sig += ":concurrent-check"
				}
				x.report(sig, fmt.Sprintf("the node is not the leader and forwarded nothing, yet the client received %s for `%s`", vTransJoin(cl), op))
			}
		}
	}
	// forwarded unchanged? (binary: the very bytes; text: the fields the script put into the command)
	if len(fw) > 0 && (q.typ == 'L' || q.typ == 'U') && !q.will {
		f := x.fwdFrames[q.tok]
		if f != nil {
			x.out.stat("forward-compared")
			if c.kind == 'b' {
				if string(f.raw) != string(wire[:64]) || string(f.data) != string(wire[64:]) {
					x.report("C10:forward-altered", fmt.Sprintf("the client sent %x, the follower forwarded %x %x", wire, f.raw, f.data))
				}
			} else if q.mode != 'v' {
				b := f.raw
				ok := vTransNum(b[21:37]) == strconv.Itoa(q.lockid) && vTransNum(b[37:53]) == strconv.Itoa(q.key) && int(b[19]) == q.flag && vTransLE16(b[53:55]) == q.timeout && vTransLE16(b[55:57]) == q.tflag &&
					vTransLE16(b[57:59]) == q.expried && vTransLE16(b[59:61]) == q.eflag && vTransLE16(b[61:63]) == q.count && int(b[63]) == q.rcount
				if !ok {
					x.report("C10:forward-altered", fmt.Sprintf("text request `%s` was forwarded as %s", op, vTransCmdStr(f, x.w.tokOf)))
				}
			}
		}
	}
	return after, len(fw) > 0 && !q.will
}

// queued requests whose twin has been answered on the oracle: the leader has answered them too
func (x *vTransRun) wakeWaiters() {
	for _, c := range x.conns {
		if (c.closed && !c.half) || c.link == nil {
			continue
		}
		var toks []int
		for t := range c.inflight {
			toks = append(toks, t)
		}
		sort.Ints(toks)
		for _, t := range toks {
			if x.twinSent[t] && x.twinAnswered(t) {
				x.awaitGrant(c, t)
			}
		}
	}
}

// ---------------------------------------------------------------------------------------------
// scripts

func (w *vTransWorld) fresh() int {
	w.nextTok++
	return w.nextTok
}

func (x *vTransRun) lockReq(typ byte, key, lockid, timeout, expried int) *vTransReq {
	return &vTransReq{typ: typ, mode: 'w', tok: x.w.fresh(), key: key, lockid: lockid, timeout: timeout, expried: expried}
}

func (x *vTransRun) pick(v ...int) int { return v[x.r.Intn(len(v))] }

var vTransNonLeader = []uint8{STATE_FOLLOWER, STATE_SYNC, STATE_INIT, STATE_CONFIG, STATE_VOTE, STATE_CLOSE}

// a value frame "SET <s>" as a binary client sends it
func vTransSetData(s string) []byte { return protocol.NewLockCommandDataSetString(s).Data }

// basic forwarding on a binary connection: grant, re-entrant refusal / depth, release, release again
func vTransScriptBinary(x *vTransRun) {
	c := x.evAccept('b')
	k, id := x.w.fresh(), x.w.fresh()
	q := x.lockReq('L', k, id, 0, 60)
	q.count, q.rcount = x.pick(0, 0, 1, 2), x.pick(0, 0, 1, 3)
	if x.r.Intn(3) == 0 {
		q.flag |= protocol.LOCK_FLAG_CONTAINS_DATA
		q.data = vTransSetData(fmt.Sprintf("v%d", x.r.Intn(1000)))
	}
	x.evRequest(c, q)
	q2 := x.lockReq('L', k, id, 0, 60)
	q2.count, q2.rcount = q.count, q.rcount
	x.evRequest(c, q2)
	other := x.lockReq('L', k, x.w.fresh(), 0, 60)
	other.count = q.count
	other.flag = x.pick(0, protocol.LOCK_FLAG_SHOW_WHEN_LOCKED)
	x.evRequest(c, other)
	x.evRequest(c, &vTransReq{typ: 'O', tok: x.w.fresh()})
	x.evRequest(c, x.lockReq('U', k, id, 0, 0))
	x.evRequest(c, x.lockReq('U', k, id, 0, 0))
	x.evRequest(c, x.lockReq('U', k, id, 0, 0))
	if x.r.Intn(2) == 0 {
		bad := x.lockReq('L', x.w.fresh(), id, 0, 60)
		bad.db = 0xff
		x.evRequest(c, bad)
	}
	x.evClose(c)
}

// the same through the text protocol, plus PUSH and SET
func vTransScriptText(x *vTransRun) {
	c := x.evAccept('t')
	k, id := x.w.fresh(), x.w.fresh()
	q := x.lockReq('L', k, id, 0, 60)
	q.count, q.rcount = x.pick(0, 0, 1), x.pick(0, 0, 2)
	x.evRequest(c, q)
	q2 := x.lockReq('L', k, id, 0, 60)
	q2.count, q2.rcount = q.count, q.rcount
	x.evRequest(c, q2)
	x.evRequest(c, &vTransReq{typ: 'O', tok: x.w.fresh()})
	p := x.lockReq('L', x.w.fresh(), x.w.fresh(), 0, 60)
	p.mode = 'p'
	x.evRequest(c, p)
	x.evRequest(c, x.lockReq('U', k, id, 0, 0))
	x.evRequest(c, x.lockReq('U', k, id, 0, 0))
	v := &vTransReq{typ: 'L', mode: 'v', tok: x.w.fresh(), key: x.w.fresh(), value: fmt.Sprintf("val%d", x.r.Intn(100))}
	x.evRequest(c, v)
	x.evRequest(c, x.lockReq('U', k, id, 0, 0))
	// UNLOCK without LOCK_ID: the connection's last successful LOCK names the hold (TextServerProtocol.lockId, kept by the text handlers of
	// both the plain and the forwarding protocol); the model is given the resolved id, the wire carries none
	k3, id3 := x.w.fresh(), x.w.fresh()
	x.evRequest(c, x.lockReq('L', k3, id3, 0, 60))
	u := x.lockReq('U', k3, id3, 0, 0)
	u.implicitId = true
	x.evRequest(c, u)
	x.evRequest(c, x.lockReq('U', k3, id3, 0, 0))
	x.evClose(c)
}

// every way of having no leader link: the refusals, and the node's own lock tables stay as they are
func vTransScriptNoLink(x *vTransRun) {
	b, t := x.evAccept('b'), x.evAccept('t')
	switch x.r.Intn(3) {
	case 0: // a state in which no link is opened
		x.evRole(vTransNonLeader[2+x.r.Intn(4)])
	case 1: // no leader address known
		x.evRole(vTransNonLeader[x.r.Intn(len(vTransNonLeader))])
		x.evLeader(0)
	default: // the leader's address is dead
		x.evRole(vTransNonLeader[x.r.Intn(2)])
		x.evLeader(2)
	}
	k, id := x.w.fresh(), x.w.fresh()
	x.evRequest(b, x.lockReq('L', k, id, x.pick(0, 5), 60))
	x.evRequest(b, x.lockReq('U', k, id, 0, 0))
	x.evRequest(b, &vTransReq{typ: 'I', tok: x.w.fresh(), cid: x.w.fresh()})
	x.evRequest(b, &vTransReq{typ: 'C', tok: x.w.fresh(), fw: true})
	x.evRequest(b, &vTransReq{typ: 'C', tok: x.w.fresh(), fw: false})
	x.evRequest(b, &vTransReq{typ: 'O', tok: x.w.fresh()})
	x.evRequest(t, x.lockReq('L', k, id, x.pick(0, 5), 60))
	x.evRequest(t, x.lockReq('U', k, id, 0, 0))
	p := x.lockReq('L', k, id, 0, 60)
	p.mode = 'p'
	x.evRequest(t, p)
	x.evRequest(t, &vTransReq{typ: 'L', mode: 'v', tok: x.w.fresh(), key: x.w.fresh(), value: "v"})
	x.evRequest(t, &vTransReq{typ: 'O', tok: x.w.fresh()})
	// back to a forwarding state: the very same connections now get through
	x.evRole(vTransNonLeader[x.r.Intn(2)])
	x.evLeader(1)
	x.evRequest(b, x.lockReq('L', k, id, 0, 60))
	x.evRequest(t, x.lockReq('U', k, id, 0, 0))
	x.evClose(b)
	x.evClose(t)
}

// a link is cut with n requests in flight (queued at the leader behind a holder)
func vTransScriptCut(x *vTransRun) {
	holder := x.evAccept('b')
	kind := byte('b')
	if x.r.Intn(3) == 0 {
		kind = 't'
	}
	c := x.evAccept(kind)
	n := x.r.Intn(4)
	if kind == 't' && n > 1 {
		n = 1
	}
	hid := x.w.fresh()
	var keys []int
	for i := 0; i < n; i++ {
		k := x.w.fresh()
		keys = append(keys, k)
		x.evRequest(holder, x.lockReq('L', k, hid, 0, 60))
	}
	if n == 0 || x.r.Intn(2) == 0 {
		// something answered first, so that the link exists and nothing is in flight
		k := x.w.fresh()
		id := x.w.fresh()
		x.evRequest(c, x.lockReq('L', k, id, 0, 60))
		x.evRequest(c, x.lockReq('U', k, id, 0, 0))
	}
	for _, k := range keys {
		x.evRequest(c, x.lockReq('L', k, x.w.fresh(), 30, 60))
	}
	x.evLinkDown(c)
	// the holder releases: the leader grants the queued requests — to nobody the client can hear from
	for _, k := range keys {
		x.evRequest(holder, x.lockReq('U', k, hid, 0, 0))
	}
	// the connection goes on over a new link
	k2, id2 := x.w.fresh(), x.w.fresh()
	x.evRequest(c, x.lockReq('L', k2, id2, 0, 60))
	x.evRequest(c, x.lockReq('U', k2, id2, 0, 0))
	x.evClose(c)
	x.evClose(holder)
}

// queued requests of several connections, granted in turn when the holder releases
func vTransScriptWaiters(x *vTransRun) {
	a, b := x.evAccept('b'), x.evAccept(byte(x.pick('b', 't')))
	k, ida, idb := x.w.fresh(), x.w.fresh(), x.w.fresh()
	x.evRequest(a, x.lockReq('L', k, ida, 0, 60))
	x.evRequest(b, x.lockReq('L', k, idb, 30, 60))
	if b.kind == 'b' {
		x.evRequest(b, &vTransReq{typ: 'O', tok: x.w.fresh()})
		k2 := x.w.fresh()
		x.evRequest(b, x.lockReq('L', k2, idb, 0, 60))
		x.evRequest(b, x.lockReq('U', k2, idb, 0, 0))
	}
	x.evRequest(a, x.lockReq('U', k, ida, 0, 0))
	x.evRequest(b, x.lockReq('U', k, idb, 0, 0))
	x.evClose(a)
	x.evClose(b)
}

// the role changes between two requests of one connection: follower -> leader -> follower, and a connection accepted
// while the node is the leader
func vTransScriptRole(x *vTransRun) {
	kind := byte(x.pick('b', 't'))
	c := x.evAccept(kind)
	k, id := x.w.fresh(), x.w.fresh()
	first := x.r.Intn(2) == 0
	if first {
		x.evRequest(c, x.lockReq('L', k, id, 0, 60))
		x.evRequest(c, x.lockReq('U', k, id, 0, 0))
	}
	// promoted: SwitchToLeader, then ChangeLeader("")
	x.evRole(STATE_LEADER)
	x.evLeader(0)
	d := x.evAccept(byte(x.pick('b', 't')))
	kl, idl := x.w.fresh(), x.w.fresh()
	x.evRequest(c, x.lockReq('L', kl, idl, 0, 60))
	x.evRequest(d, x.lockReq('L', kl, x.w.fresh(), 0, 60))
	x.evRequest(c, x.lockReq('U', kl, idl, 0, 0))
	if kind == 'b' {
		x.evRequest(c, &vTransReq{typ: 'I', tok: x.w.fresh(), cid: x.w.fresh()})
	}
	// demoted: ChangeLeader(host), SwitchToFollower(host)
	x.evLeader(1)
	x.evRole(uint8(x.pick(STATE_SYNC, STATE_FOLLOWER)))
	k3, id3 := x.w.fresh(), x.w.fresh()
	x.evRequest(c, x.lockReq('L', k3, id3, 0, 60))
	x.evRequest(d, x.lockReq('L', k3, x.w.fresh(), 0, 60))
	x.evRequest(c, x.lockReq('U', k3, id3, 0, 0))
	x.evClose(c)
	x.evClose(d)
}

// INIT forwarding: first command / after another command / re-sent when the link is re-opened
func vTransScriptInit(x *vTransRun) {
	c := x.evAccept('b')
	k, id := x.w.fresh(), x.w.fresh()
	late := x.r.Intn(3) == 0
	if late {
		x.evRequest(c, x.lockReq('L', k, id, 0, 60))
	}
	x.evRequest(c, &vTransReq{typ: 'I', tok: x.w.fresh(), cid: x.w.fresh()})
	if !late {
		x.evRequest(c, x.lockReq('L', k, id, 0, 60))
	}
	x.evRequest(c, &vTransReq{typ: 'C', tok: x.w.fresh(), fw: true})
	x.evRequest(c, &vTransReq{typ: 'C', tok: x.w.fresh(), fw: false})
	if x.r.Intn(2) == 0 {
		x.evRequest(c, &vTransReq{typ: 'I', tok: x.w.fresh(), cid: c.initCid})
	}
	x.evLinkDown(c)
	x.evRequest(c, x.lockReq('U', k, id, 0, 0))
	x.evRequest(c, &vTransReq{typ: 'I', tok: x.w.fresh(), cid: x.w.fresh()})
	x.evLinkDown(c)
	x.evClose(c)
}

// the node's own lock table holds a key the leader does not know (here: left over from a spell as leader; in
// production: replication lag), and a client asks with the concurrent-check flag and Timeout 0
func vTransScriptProbe(x *vTransRun) {
	c := x.evAccept('b')
	k, id := x.w.fresh(), x.w.fresh()
	x.evRole(STATE_LEADER)
	x.evLeader(0)
	x.evRequest(c, x.lockReq('L', k, id, 0, 120))
	x.evLeader(1)
	x.evRole(STATE_FOLLOWER)
	// the node is NOT the leader and its own table holds key k: administrative text commands that would end holds (FLUSHALL, FLUSHDB) sent by
	// a client to this node must be refused and leave its tables alone. Not an event of the model (a refusal changes nothing): a raw
	// text connection of the harness's own, closed again at once.
	x.adminProbe("FLUSHALL")
	x.adminProbe("FLUSHDB", "0")
	q := x.lockReq('L', k, x.w.fresh(), 0, 60)
	q.flag = protocol.LOCK_FLAG_CONCURRENT_CHECK
	x.evRequest(c, q)
	if rs := x.results[q.tok]; len(rs) == 1 && len(x.fwdFrames) == 0 {
		if d := x.oracleSame(q); d != nil && !strings.Contains(rs[0], fmt.Sprintf("R:L,%d,%d,", q.tok, d.raw[19])) {
			x.report("C10:outcome-differs-via-follower:concurrent-check", fmt.Sprintf("the follower answered %s; the very same command (same key) sent to the leader itself: %s",
				rs[0], vTransResStr(d, func(b []byte) string { return vTransNum(b) })))
		}
		x.oracleUnlock(k, q.lockid)
	}
	q2 := x.lockReq('L', x.w.fresh(), x.w.fresh(), 0, 60)
	q2.flag = protocol.LOCK_FLAG_CONCURRENT_CHECK
	q2.tflag = x.pick(0, protocol.TIMEOUT_FLAG_LOCK_WAIT_WHEN_UNLOCK)
	x.evRequest(c, q2)
	q3 := x.lockReq('L', k, x.w.fresh(), 0, 60)
	q3.flag = protocol.LOCK_FLAG_CONCURRENT_CHECK
	q3.count = x.pick(1, 0xffff)
	x.evRequest(c, q3)
	x.evClose(c)
}

// a session that announced a client id: link loss, a new link re-announces the id, and the leader re-routes the answer
// of the request that was in flight
func vTransScriptResume(x *vTransRun) {
	holder, c := x.evAccept('b'), x.evAccept('b')
	k, hid, id := x.w.fresh(), x.w.fresh(), x.w.fresh()
	x.evRequest(c, &vTransReq{typ: 'I', tok: x.w.fresh(), cid: x.w.fresh()})
	x.evRequest(holder, x.lockReq('L', k, hid, 0, 60))
	x.evRequest(c, x.lockReq('L', k, id, 30, 60))
	x.evLinkDown(c)
	k2 := x.w.fresh()
	x.evRequest(c, x.lockReq('L', k2, id, 0, 60))
	x.evRequest(holder, x.lockReq('U', k, hid, 0, 0))
	time.Sleep(20 * time.Millisecond)
	x.drain()
	x.evRequest(c, x.lockReq('U', k, id, 0, 0))
	x.evClose(c)
	x.evClose(holder)
}

// adminProbe: one administrative text command on a fresh raw connection to the node that is not the leader. C10: the node's holds
// change only by applying the leader's stream — whatever a client sends.
func (x *vTransRun) adminProbe(args ...string) {
	if !x.nonLeader() {
		return
	}
	before := x.w.F.digest()
	n0 := len(x.w.F.srv.GetStreams())
	conn, err := net.DialTimeout("tcp", x.w.F.addr, 2*time.Second)
	if err != nil {
		return
	}
	x.waitFor(func() bool { return len(x.w.F.srv.GetStreams()) > n0 }, 2*time.Second)
	_ = conn.SetDeadline(time.Now().Add(2 * time.Second))
	_, _ = conn.Write(vTransRESPCmd(args...))
	buf := make([]byte, 256)
	n, _ := conn.Read(buf)
	reply := string(buf[:n])
	_ = conn.Close()
	x.waitFor(func() bool { return len(x.w.F.srv.GetStreams()) <= n0 }, 2*time.Second)
	x.out.stat("admin-probe:" + args[0])
	if after := x.w.F.digest(); after != before {
		x.report("C10:follower-state-changed-by-client", fmt.Sprintf("the node is not the leader, yet its own lock tables changed when a client sent `%s` (answered %q): %s -> %s", strings.Join(args, " "), reply, before, after))
	}
}

// the oracle releases a hold at the leader directly (and the twin's): queued requests get granted, wherever they came from
func (x *vTransRun) oracleUnlock(key, lockid int) {
	for _, k := range []int{key, key + vTransTwin} {
		c := &protocol.LockCommand{Command: protocol.Command{Magic: protocol.MAGIC, Version: protocol.VERSION, CommandType: protocol.COMMAND_UNLOCK, RequestId: vTransId(x.w.fresh())},
			LockId: vTransId(lockid), LockKey: vTransId(k)}
		b := make([]byte, 64)
		_ = c.Encode(b)
		_ = x.w.oracle.write(b)
	}
	hs := x.heldL[key]
	for i, id := range hs {
		if id == lockid {
			x.heldL[key] = append(append([]int{}, hs[:i]...), hs[i+1:]...)
			break
		}
	}
	time.Sleep(2 * time.Millisecond)
	x.wakeWaiters()
	x.drain()
}

// the same command sent to the leader itself on the SAME key (used when the node answered without forwarding)
func (x *vTransRun) oracleSame(q *vTransReq) *vTransFrame {
	d := *q
	d.tok = x.w.fresh()
	o := x.w.oracle
	n0 := o.count()
	_ = o.write(x.lockFrame(&d, false))
	vTransWait(func() bool { return o.count() > n0 }, 2*time.Second)
	o.mu.Lock()
	defer o.mu.Unlock()
	for i := len(o.bin) - 1; i >= 0; i-- {
		if vTransNum(o.bin[i].raw[3:19]) == strconv.Itoa(d.tok) {
			return o.bin[i]
		}
	}
	return nil
}

// a random walk over everything the other scripts do
func vTransScriptWalk(x *vTransRun) {
	steps := 12 + x.r.Intn(25)
	type hold struct{ key, lockid int }
	own := map[*vTransConn][]hold{}
	for i := 0; i < steps; i++ {
		var open []*vTransConn
		for _, c := range x.conns {
			if !c.closed && !(c.kind == 't' && c.awaiting >= 0) {
				open = append(open, c)
			}
		}
		if len(open) == 0 || (len(x.conns) < 3 && x.r.Intn(6) == 0) {
			x.evAccept(byte(x.pick('b', 'b', 't')))
			continue
		}
		c := open[x.r.Intn(len(open))]
		switch k := x.r.Intn(100); {
		case k < 22: // lock a fresh key
			q := x.lockReq('L', x.w.fresh(), x.w.fresh(), x.pick(0, 0, 5), x.pick(60, 120))
			q.count, q.rcount = x.pick(0, 0, 0, 1), x.pick(0, 0, 0, 2)
			if c.kind == 'b' && x.r.Intn(5) == 0 {
				q.flag |= protocol.LOCK_FLAG_CONTAINS_DATA
				q.data = vTransSetData(fmt.Sprintf("w%d", x.r.Intn(100)))
			}
			if c.kind == 'b' && x.r.Intn(8) == 0 {
				q.flag |= protocol.LOCK_FLAG_CONCURRENT_CHECK
				q.tflag = x.pick(0, protocol.TIMEOUT_FLAG_LOCK_WAIT_WHEN_UNLOCK)
				q.timeout = 0
			}
			x.evRequest(c, q)
			own[c] = append(own[c], hold{q.key, q.lockid})
		case k < 32: // queue behind a hold at the leader
			var keys []int
			for key, hs := range x.heldL {
				if len(hs) > 0 {
					keys = append(keys, key)
				}
			}
			sort.Ints(keys)
			if len(keys) == 0 || !x.nonLeader() {
				continue
			}
			q := x.lockReq('L', keys[x.r.Intn(len(keys))], x.w.fresh(), x.pick(30, 30, 0), 60)
			x.evRequest(c, q)
			own[c] = append(own[c], hold{q.key, q.lockid})
		case k < 40: // lock an own key again
			if len(own[c]) == 0 {
				continue
			}
			h := own[c][x.r.Intn(len(own[c]))]
			q := x.lockReq('L', h.key, h.lockid, 0, 60)
			q.rcount = x.pick(0, 2)
			q.flag = x.pick(0, protocol.LOCK_FLAG_SHOW_WHEN_LOCKED, protocol.LOCK_FLAG_UPDATE_WHEN_LOCKED)
			x.evRequest(c, q)
		case k < 55: // unlock
			if len(own[c]) == 0 {
				x.evRequest(c, x.lockReq('U', x.w.fresh(), x.w.fresh(), 0, 0))
				continue
			}
			j := x.r.Intn(len(own[c]))
			h := own[c][j]
			x.evRequest(c, x.lockReq('U', h.key, h.lockid, 0, 0))
			if x.r.Intn(2) == 0 {
				own[c] = append(append([]hold{}, own[c][:j]...), own[c][j+1:]...)
			}
		case k < 60:
			if c.kind == 'b' {
				cid := x.w.fresh()
				if c.initCid > 0 && x.r.Intn(2) == 0 {
					cid = c.initCid
				}
				x.evRequest(c, &vTransReq{typ: 'I', tok: x.w.fresh(), cid: cid})
			} else {
				p := x.lockReq('L', x.w.fresh(), x.w.fresh(), 0, 60)
				p.mode = 'p'
				x.evRequest(c, p)
			}
		case k < 64:
			if c.kind == 'b' {
				x.evRequest(c, &vTransReq{typ: 'C', tok: x.w.fresh(), fw: x.r.Intn(3) != 0})
			} else {
				x.evRequest(c, &vTransReq{typ: 'L', mode: 'v', tok: x.w.fresh(), key: x.w.fresh(), value: fmt.Sprintf("s%d", x.r.Intn(50))})
			}
		case k < 68:
			x.evRequest(c, &vTransReq{typ: 'O', tok: x.w.fresh()})
		case k < 76: // a link loses its socket
			var linked []*vTransConn
			for _, d := range x.conns {
				if !d.closed && x.linkAlive(d) {
					linked = append(linked, d)
				}
			}
			if len(linked) > 0 {
				x.evLinkDown(linked[x.r.Intn(len(linked))])
			}
		case k < 84:
			x.evRole([]uint8{STATE_LEADER, STATE_FOLLOWER, STATE_SYNC, STATE_FOLLOWER, STATE_SYNC, STATE_INIT, STATE_CONFIG, STATE_VOTE, STATE_CLOSE}[x.r.Intn(9)])
		case k < 90:
			x.evLeader(x.pick(0, 1, 1, 1, 2))
		case k < 95: // the leader releases a hold on its own (the holder went through it directly)
			var keys []int
			for key, hs := range x.heldL {
				if len(hs) > 0 {
					keys = append(keys, key)
				}
			}
			sort.Ints(keys)
			if len(keys) > 0 {
				key := keys[x.r.Intn(len(keys))]
				x.oracleUnlock(key, x.heldL[key][0])
			}
		default:
			if len(x.conns) > 1 {
				x.evClose(c)
			}
		}
	}
	for _, c := range x.conns {
		x.evClose(c)
	}
}

// the first command of a text connection fits the first 64-byte read: checkProtocol hands it to the plain handlers
func vTransScriptFirstText(x *vTransRun) {
	c := x.evAccept('t')
	k := x.w.fresh()
	q := x.lockReq('L', k, 0, 0, 120)
	q.shortForm = true
	x.evRequest(c, q)
	// the second command of the same connection goes to the leader
	q2 := x.lockReq('L', k, x.w.fresh(), 0, 60)
	x.evRequest(c, q2)
	x.evRequest(c, x.lockReq('U', k, q2.lockid, 0, 0))
	x.evClose(c)
}

// will commands: queued on the connection, written to the leader when it closes (over the link it has, or one opened for
// them — INIT first), dropped when there is no link
func vTransScriptWills(x *vTransRun) {
	// (kind, variant) cycles deterministically with the case number, so that a quick run holds every combination that matters
	combos := [][2]int{{'b', 0}, {'t', 0}, {'b', 2}, {'t', 2}, {'b', 1}, {'b', 3}, {'t', 1}, {'t', 3}}
	cb := combos[(x.caseNo/vTransNScripts)%len(combos)]
	if f := vEnvInt("VERIF_TRANS_COMBO", -1); f >= 0 {
		cb = combos[f%len(combos)]
	}
	kind, variant := byte(cb[0]), cb[1]
	c := x.evAccept(kind)
	k0, k1, id := x.w.fresh(), x.w.fresh(), x.w.fresh()
	if kind == 'b' && (x.r.Intn(2) == 0 || vEnvInt("VERIF_TRANS_COMBO", -1) >= 0) {
		x.evRequest(c, &vTransReq{typ: 'I', tok: x.w.fresh(), cid: x.w.fresh()})
	}
	x.evRequest(c, x.lockReq('L', k0, id, 0, 60))
	wu := x.lockReq('U', k0, id, 0, 0)
	wu.will = true
	x.evRequest(c, wu)
	wl := x.lockReq('L', k1, x.w.fresh(), 0, 5)
	wl.will = true
	x.evRequest(c, wl)
	for i := 0; i < vEnvInt("VERIF_TRANS_WILLS", 0); i++ { // stress: many wills widen the window of the write loop in Close
		w := x.lockReq('L', x.w.fresh(), x.w.fresh(), 0, 5)
		w.will = true
		x.evRequest(c, w)
	}
	x.evRequest(c, &vTransReq{typ: 'O', tok: x.w.fresh()})
	switch variant {
	case 1: // the link is gone when the connection closes: a new one is opened for the wills
		x.evLinkDown(c)
	case 2: // no leader address: the wills are dropped — and must not run on this node's own engine
		x.evLeader(0)
	case 3: // the node has become the leader meanwhile
		x.evRole(STATE_LEADER)
		x.evLeader(0)
	}
	x.evClose(c)
	if variant >= 2 {
		x.oracleUnlock(k0, id)
	}
}

// several requests in one write (one read on the server: the buffered loop of Process)
func vTransScriptPipeline(x *vTransRun) {
	c := x.evAccept('b')
	k1, k2, id := x.w.fresh(), x.w.fresh(), x.w.fresh()
	if x.r.Intn(2) == 0 {
		x.evRequest(c, x.lockReq('L', x.w.fresh(), id, 0, 60))
	}
	x.evPipeline(c, []*vTransReq{x.lockReq('L', k1, id, 0, 60), x.lockReq('L', k2, id, 0, 60), x.lockReq('U', k1, id, 0, 0), {typ: 'O', tok: x.w.fresh()}})
	x.evRequest(c, x.lockReq('U', k2, id, 0, 0))
	if x.r.Intn(2) == 0 {
		x.evRole(STATE_INIT) // refusals, pipelined
		x.evLinkDown(c)
		x.evPipeline(c, []*vTransReq{x.lockReq('L', k1, id, 0, 60), x.lockReq('U', k1, id, 0, 0)})
		x.evRole(STATE_FOLLOWER)
	}
	x.evPipeline(c, []*vTransReq{x.lockReq('L', k1, id, 0, 60), x.lockReq('U', k1, id, 0, 0)})
	x.evClose(c)
}

// text connections come and go while others stay: links move through the manager's idle pool
func vTransScriptPool(x *vTransRun) {
	a, b := x.evAccept('t'), x.evAccept('t')
	ka, kb, ida, idb := x.w.fresh(), x.w.fresh(), x.w.fresh(), x.w.fresh()
	x.evRequest(a, x.lockReq('L', ka, ida, 0, 60))
	x.evRequest(b, x.lockReq('L', kb, idb, 0, 60))
	x.evRequest(b, x.lockReq('U', kb, idb, 0, 0))
	x.evClose(b)
	for i := 0; i < 2; i++ {
		d := x.evAccept('t')
		kd, idd := x.w.fresh(), x.w.fresh()
		x.evRequest(d, x.lockReq('L', kd, idd, 0, 60))
		x.evRequest(a, x.lockReq('L', ka, ida, 0, 60))
		x.evRequest(d, x.lockReq('U', kd, idd, 0, 0))
		if i == 0 && x.r.Intn(2) == 0 {
			x.evClose(d)
		}
	}
	x.evRequest(a, x.lockReq('U', ka, ida, 0, 0))
	for _, c := range x.conns {
		x.evClose(c)
	}
}

const vTransNScripts = 17 // = len(vTransScripts) (checked in init)

var vTransScripts = []func(x *vTransRun){vTransScriptBinary, vTransScriptText, vTransScriptNoLink, vTransScriptCut, vTransScriptWaiters, vTransScriptRole,
	vTransScriptInit, vTransScriptProbe, vTransScriptResume, vTransScriptCut, vTransScriptWalk, vTransScriptWalk, vTransScriptWalk, vTransScriptFirstText, vTransScriptWills, vTransScriptPipeline, vTransScriptPool}

func vTransCase(w *vTransWorld, out *vOut, seed int64, idx int, script int) {
	x := &vTransRun{w: w, r: rand.New(rand.NewSource(seed*1000003 + int64(idx))), out: out, role: STATE_SYNC, addr: 1, owner: map[int]*vTransConn{}, reqs: map[int]*vTransReq{},
		twinGot: map[int][]*vTransFrame{}, twinSent: map[int]bool{}, fwdFrames: map[int]*vTransFrame{}, lost: map[int]bool{}, heldL: map[int][]int{}, results: map[int][]string{}, signatures: map[string]bool{}, caseNo: idx, script: script, seed: seed}
	// baseline: state SYNC, the live leader address, no links left over from the case before
	w.F.s.updateState(STATE_SYNC)
	w.F.s.replicationManager.leaderAddress = ""
	_ = w.manager().ChangeLeader("")
	w.F.s.replicationManager.leaderAddress = w.px.addr
	_ = w.manager().ChangeLeader(w.px.addr)
	time.Sleep(2 * time.Millisecond)
	x.takeForwarded(nil)
	x.strict = true
	// every eighth case additionally has the leader's frames held back 20 ms (answers that arrive late rather than early)
	if idx%8 == 1 {
		atomic.StoreInt64(&w.px.delay, int64(vTransStrictDelay))
	} else {
		atomic.StoreInt64(&w.px.delay, 0)
	}
	func() {
		defer func() {
			if e := recover(); e != nil {
				x.ev("panic", fmt.Sprint(e))
				x.report("C10:harness-panic", fmt.Sprint(e))
			}
		}()
		vTransScripts[script](x)
	}()
	for _, c := range x.conns {
		if !c.closed {
			c.cli.close()
		}
	}
	func() {
		defer func() { _ = recover() }()
		var keys []int
		for key := range x.heldL {
			keys = append(keys, key)
		}
		sort.Ints(keys)
		for _, key := range keys {
			for _, id := range append([]int{}, x.heldL[key]...) {
				x.oracleUnlock(key, id)
			}
		}
	}()
	for _, c := range x.conns {
		if left := x.leftovers(c); len(left) > 0 {
			x.report("C10:harness-unattributed-frame", fmt.Sprintf("connection %d received %s, which no event of the script accounts for", c.idx, strings.Join(left, " ")))
			x.obs = append(x.obs, "unattributed:"+strings.Join(left, "+"))
			x.ops = append(x.ops, "?")
		}
	}
	var toks []int
	for t := range x.results {
		toks = append(toks, t)
	}
	sort.Ints(toks)
	for _, t := range toks {
		rs := x.results[t]
		if len(rs) > 1 {
			isErr := func(s string) bool {
				return strings.Contains(s, fmt.Sprintf(",%d,11,", t)) || strings.HasPrefix(s, "T:11,")
			}
			cause := "other"
			if isErr(rs[0]) && !isErr(rs[1]) {
				cause = "rerouted-after-rollback" // ERROR fabricated at the link loss, then the leader's real answer over the new link
			} else if !isErr(rs[0]) && isErr(rs[1]) {
				cause = "rollback-after-answer" // the answer overtook Write's bookkeeping; the link loss "rolls back" an answered request
			}
			x.report("C10:two-results-for-one-request:"+cause, fmt.Sprintf("request %d was answered %d times: %s", t, len(rs), strings.Join(rs, " ; ")))
		}
	}
	out.emit(x.line(), strings.Join(x.obs, ";"))
}

func init() {
	vModes["trans"] = func(t *testing.T) {
		if len(vTransScripts) != vTransNScripts {
			t.Fatalf("vTransNScripts = %d, but there are %d scripts", vTransNScripts, len(vTransScripts))
		}
		out := vOpen("trans")
		defer out.close()
		seed := int64(vEnvInt("VERIF_SEED", 1))
		n := vEnvInt("VERIF_N", 20)
		base, err := os.MkdirTemp(os.Getenv("VERIF_DATA"), "trans")
		if err != nil {
			t.Fatal(err)
		}
		w := vTransNewWorld(base)
		defer w.stop()
		only := vEnvInt("VERIF_TRANS_SCRIPT", -1)
		first := vEnvInt("VERIF_TRANS_FIRST", 0)
		for i := first; i < first+n; i++ {
			sc := i % len(vTransScripts)
			if only >= 0 {
				sc = only
			}
			// a case takes well under a second; one that does not come back within 90 s has hung the node (a handler blocked for
			// good, the manager's lock never released): report it and give up, the process cannot be recovered
			done := make(chan struct{})
			go func() { defer close(done); vTransCase(w, out, seed, i, sc) }()
			select {
			case <-done:
			case <-time.After(90 * time.Second):
				out.monitor("C10:case-hung", fmt.Sprintf("case %d (script family %d) did not finish within 90 s: the follower node is stuck", i, sc),
					map[string]interface{}{"case": i, "script": sc, "seed": seed, "rerun": fmt.Sprintf("VERIF_SEED=%d VERIF_TRANS_FIRST=%d VERIF_TRANS_SCRIPT=%d VERIF_N=1 (mode trans)", seed, i, sc)})
				out.close()
				os.Exit(3)
			}
		}
	}
}
