package server

// Harness mode "inline" (C14): the hand-inlined LOCK / UNLOCK frame decoder of BinaryServerProtocol.ProcessParse and the
// hand-inlined result-frame writer of BinaryServerProtocol.ProcessLockResultCommand, exercised through the REAL
// BinaryServerProtocol.Process() over net.Pipe on a leader node, against protocol.LockCommand.Decode /
// protocol.LockResultCommand of the same bytes:
//   * decode: after a granted LOCK the hold's stored command (in-package snapshot of lockManager.currentLock.command) must
//     equal LockCommand.Decode(frame) field by field; for LOCK and UNLOCK the fields echoed in the reply must, too;
//   * encode: the reply frame must be a fixed point of LockResultCommand.Decode ∘ Encode and carry MAGIC / VERSION / zero padding.
//   C14:inline-decode:<field>   C14:inline-encode:<field>
// Build: only=[this file, zz_verif_texthandlers_test.go (environment), the zz_verif_engine*_test.go files].

import (
	"fmt"
	"io"
	"math/rand"
	"net"
	"testing"
	"time"

	"github.com/snower/slock/protocol"
)

var vInlU16 = []uint16{0, 1, 0x00ff, 0x0100, 0x0101, 0x7fff, 0x8000, 0xff00, 0xfffe, 0xffff, 0x1234}
var vInlU8 = []uint8{0, 1, 0x7f, 0x80, 0xfe, 0xff}

type vInlRun struct {
	out   *vOut
	seen  map[string]int
	cases int
}

func (x *vInlRun) report(sig, what string, replay interface{}) {
	x.seen[sig]++
	if x.seen[sig] <= 3 {
		x.out.monitor(sig, what, replay)
	}
}

func vInlCompare(ref, got *protocol.LockCommand) []string {
	var bad []string
	add := func(ok bool, f string) {
		if !ok {
			bad = append(bad, f)
		}
	}
	add(ref.CommandType == got.CommandType, "CommandType")
	add(ref.RequestId == got.RequestId, "RequestId")
	add(ref.Flag == got.Flag, "Flag")
	add(ref.DbId == got.DbId, "DbId")
	add(ref.LockId == got.LockId, "LockId")
	add(ref.LockKey == got.LockKey, "LockKey")
	add(ref.TimeoutFlag == got.TimeoutFlag, "TimeoutFlag")
	add(ref.Timeout == got.Timeout, "Timeout")
	add(ref.ExpriedFlag == got.ExpriedFlag, "ExpriedFlag")
	add(ref.Expried == got.Expried, "Expried")
	add(ref.Count == got.Count, "Count")
	add(ref.Rcount == got.Rcount, "Rcount")
	return bad
}

func init() {
	vModes["inline"] = func(t *testing.T) {
		seed := int64(vEnvInt("VERIF_SEED", 1))
		n := vEnvInt("VERIF_N", 10)
		out := vOpen("inline")
		defer out.close()
		r := rand.New(rand.NewSource(seed))
		x := &vInlRun{out: out, seen: map[string]int{}}
		env := vThNewEnv()
		var cli net.Conn
		var bp *BinaryServerProtocol
		connect := func() {
			if cli != nil {
				_ = cli.Close()
			}
			sc, cc := net.Pipe()
			cli = cc
			bp = NewBinaryServerProtocol(env.v.slock, NewStream(sc))
			go func(p *BinaryServerProtocol) {
				defer func() { _ = recover() }()
				_ = p.Process()
			}(bp)
		}
		connect()
		// one frame in, one 64-byte reply out (nil = no reply within the deadline)
		exchange := func(frame []byte) []byte {
			_ = cli.SetWriteDeadline(time.Now().Add(time.Second))
			if _, err := cli.Write(frame); err != nil {
				connect()
				return nil
			}
			reply := make([]byte, 64)
			_ = cli.SetReadDeadline(time.Now().Add(400 * time.Millisecond))
			if _, err := io.ReadFull(cli, reply); err != nil {
				connect()
				return nil
			}
			return reply
		}
		checkReply := func(kind string, frame, reply []byte, ref *protocol.LockCommand, snapOK bool) {
			res := &protocol.LockResultCommand{}
			if err := res.Decode(reply); err != nil {
				x.report("C14:inline-encode:frame", "the reply frame is refused by LockResultCommand.Decode", map[string]interface{}{"request": vHex(frame), "reply": vHex(reply)})
				return
			}
			back := make([]byte, 64)
			_ = res.Encode(back)
			for i := range back {
				if back[i] != reply[i] {
					x.report(fmt.Sprintf("C14:inline-encode:byte%d", i), "the reply frame written by the server is not what LockResultCommand.Encode writes for the same fields",
						map[string]interface{}{"request": vHex(frame), "reply": vHex(reply), "encode_of_decoded_reply": vHex(back)})
					break
				}
			}
			if res.Magic != protocol.MAGIC || res.Version != protocol.VERSION {
				x.report("C14:inline-encode:Magic", "reply without MAGIC / VERSION", map[string]interface{}{"request": vHex(frame), "reply": vHex(reply)})
			}
			echo := map[string]bool{"CommandType": res.CommandType == ref.CommandType, "RequestId": res.RequestId == ref.RequestId, "DbId": res.DbId == ref.DbId,
				"LockId": res.LockId == ref.LockId, "LockKey": res.LockKey == ref.LockKey, "Count": res.Count == ref.Count, "Rcount": res.Rcount == ref.Rcount}
			for _, f := range []string{"CommandType", "RequestId", "DbId", "LockId", "LockKey", "Count", "Rcount"} {
				if !echo[f] {
					side := "decode"
					if snapOK { // the stored command had the right value: the writer lost it
						side = "encode"
					}
					x.report("C14:inline-"+side+":"+f, "the "+kind+" reply does not echo the field that LockCommand.Decode reads from the request frame",
						map[string]interface{}{"request": vHex(frame), "reply": vHex(reply), "field": f})
				}
			}
		}
		total := 60 + 12*n
		for it := 0; it < total; it++ {
			cmd := &protocol.LockCommand{}
			cmd.Magic, cmd.Version, cmd.CommandType = protocol.MAGIC, protocol.VERSION, protocol.COMMAND_LOCK
			copy(cmd.RequestId[:], vRandBytes(r, 16))
			copy(cmd.LockId[:], vRandBytes(r, 16))
			copy(cmd.LockKey[:], vRandBytes(r, 16))
			cmd.LockKey[0], cmd.LockKey[1], cmd.LockKey[2] = byte(it), byte(it>>8), 0xa5 // a fresh key per case
			cmd.DbId = []uint8{0, 0, 0, 1, 7, 254}[r.Intn(6)]
			cmd.Timeout, cmd.Expried = vInlU16[r.Intn(len(vInlU16))], vInlU16[r.Intn(len(vInlU16))]
			if cmd.Expried == 0 {
				cmd.Expried = 0x0100
			}
			cmd.TimeoutFlag = []uint16{0, 0x0100, 0x0800, 0x2000, 0x0040, 0x0400}[r.Intn(6)]
			cmd.ExpriedFlag = []uint16{0, 0x0100, 0x0200, 0x0800, 0x2000, 0x0040, 0x4000, 0x4100}[r.Intn(8)]
			cmd.Count, cmd.Rcount = vInlU16[r.Intn(len(vInlU16))], vInlU8[r.Intn(len(vInlU8))]
			cmd.Flag = []uint8{0, 0, 0x01, 0x02, 0x08, 0x40, 0x80}[r.Intn(7)]
			if it < len(vInlU16)*2 { // every 16-bit boundary value in Count / Timeout / Expried once, everything else plain
				cmd.Flag, cmd.TimeoutFlag, cmd.ExpriedFlag, cmd.DbId = 0, 0, 0, 0
				cmd.Count = vInlU16[it%len(vInlU16)]
				cmd.Timeout = vInlU16[(it+3)%len(vInlU16)]
				cmd.Expried = vInlU16[(it+5)%len(vInlU16)] | 1
				cmd.Rcount = vInlU8[it%len(vInlU8)]
			}
			frame := make([]byte, 64)
			_ = cmd.Encode(frame)
			ref := &protocol.LockCommand{}
			_ = ref.Decode(frame) // the reference: the protocol package's own decoder on the same bytes
			x.cases++
			reply := exchange(frame)
			if reply == nil {
				rec := "# inline noreply LOCK " + vHex(frame)
				out.emit(rec, rec)
				continue
			}
			// snapshot of the hold the engine stored
			snapOK := false
			if db := env.v.slock.dbs[ref.DbId]; db != nil && reply[19] == protocol.RESULT_SUCCED {
				if m := db.GetLockManager(ref); m != nil {
					m.glock.LowPriorityLock()
					if m.currentLock != nil && m.currentLock.command != nil && m.currentLock.command.RequestId == ref.RequestId {
						got := *m.currentLock.command
						m.glock.LowPriorityUnlock()
						bad := vInlCompare(ref, &got)
						snapOK = len(bad) == 0
						for _, f := range bad {
							x.report("C14:inline-decode:"+f, "the command the server decoded from a LOCK frame (and holds) differs from LockCommand.Decode of the same frame",
								map[string]interface{}{"request": vHex(frame), "field": f, "decode": fmt.Sprintf("%+v", *ref), "held": fmt.Sprintf("%+v", got)})
						}
					} else {
						m.glock.LowPriorityUnlock()
					}
				}
			}
			checkReply("LOCK", frame, reply, ref, snapOK)
			rec := fmt.Sprintf("# inline LOCK result=%d snapshot=%v %s", reply[19], snapOK, vHex(frame))
			out.emit(rec, rec)
			// the matching UNLOCK with its own boundary values in the fields an UNLOCK echoes
			u := *cmd
			u.CommandType = protocol.COMMAND_UNLOCK
			copy(u.RequestId[:], vRandBytes(r, 16))
			u.Count, u.Rcount = vInlU16[r.Intn(len(vInlU16))], vInlU8[r.Intn(len(vInlU8))]
			u.Flag = 0
			uframe := make([]byte, 64)
			_ = u.Encode(uframe)
			uref := &protocol.LockCommand{}
			_ = uref.Decode(uframe)
			x.cases++
			if ureply := exchange(uframe); ureply != nil {
				checkReply("UNLOCK", uframe, ureply, uref, false)
				rec := fmt.Sprintf("# inline UNLOCK result=%d %s", ureply[19], vHex(uframe))
				out.emit(rec, rec)
			}
		}
		fmt.Printf("inline: %d frames, signatures %v\n", x.cases, x.seen)
	}
}

// mode replybuf (C13 / C14): several value-carrying replies batched into the connection's 4096-byte writer buffer. One case = one
// connection (net.Pipe, the real BinaryServerProtocol.Process): a LOCK stores a value whose frame is F bytes long, then k
// show-when-locked LOCKs arrive in ONE write, so their replies (64-byte result + the F-byte value frame each) are queued back to back.
// F is swept through the windows in which the j-th reply just fits / just does not fit behind the ones queued before it.
// Monitors: the connection goroutine must not panic (C13), every reply must carry the whole value, the connection must still answer (C14).
func vReplyBufRun(t *testing.T) {
	out := vOpen("replybuf")
	defer out.close()
	env := vThNewEnv()
	x := &vInlRun{out: out, seen: map[string]int{}}
	thorough := vEnvInt("VERIF_N", 10) > 50
	type cs struct{ k, f int }
	var cases []cs
	add := func(k, lo, hi, step int) {
		for f := lo; f <= hi; f += step {
			cases = append(cases, cs{k, f})
		}
	}
	step := 3
	if thorough {
		step = 1
	}
	add(2, 1976, 2024, step)
	add(3, 1296, 1330, step)
	add(4, 952, 984, step)
	add(5, 742, 770, step)
	add(2, 3900, 4040, 7) // a single reply close to the buffer size (the direct-write rule: value + 128 >= buffer)
	keyNo := 0
	for _, c := range cases {
		keyNo++
		sc, cc := net.Pipe()
		bp := NewBinaryServerProtocol(env.v.slock, NewStream(sc))
		panicked := make(chan string, 1)
		go func(p *BinaryServerProtocol) {
			defer func() {
				if r := recover(); r != nil {
					panicked <- fmt.Sprint(r)
				}
			}()
			_ = p.Process()
		}(bp)
		payload := make([]byte, c.f-6)
		for i := range payload {
			payload[i] = byte('a' + (i+keyNo)%26)
		}
		data := protocol.NewLockCommandDataSetData(payload)
		mk := func(req int, flag uint8) *protocol.LockCommand {
			cmd := &protocol.LockCommand{}
			cmd.Magic, cmd.Version, cmd.CommandType = protocol.MAGIC, protocol.VERSION, protocol.COMMAND_LOCK
			cmd.RequestId = vId16(900000 + keyNo*16 + req)
			cmd.LockId = vId16(900000 + keyNo*16 + req)
			cmd.LockKey = vId16(7000000 + keyNo)
			cmd.Flag, cmd.Timeout, cmd.Expried = flag, 0, 600
			return cmd
		}
		replay := map[string]interface{}{"mode": "replybuf", "pipelined": c.k, "value_frame_bytes": c.f}
		readReply := func() (*protocol.LockResultCommand, []byte, error) {
			b := make([]byte, 64)
			_ = cc.SetReadDeadline(time.Now().Add(1500 * time.Millisecond))
			if _, err := io.ReadFull(cc, b); err != nil {
				return nil, nil, err
			}
			res := &protocol.LockResultCommand{}
			if err := res.Decode(b); err != nil {
				return nil, nil, err
			}
			if res.Flag&protocol.UNLOCK_FLAG_CONTAINS_DATA == 0 {
				return res, nil, nil
			}
			h := make([]byte, 4)
			if _, err := io.ReadFull(cc, h); err != nil {
				return res, nil, err
			}
			n := int(h[0]) | int(h[1])<<8 | int(h[2])<<16 | int(h[3])<<24
			if n < 0 || n > 1<<20 {
				return res, nil, fmt.Errorf("value frame length %d", n)
			}
			rest := make([]byte, n)
			if _, err := io.ReadFull(cc, rest); err != nil {
				return res, nil, err
			}
			return res, append(h, rest...), nil
		}
		fail := func(sig, what string) {
			select {
			case p := <-panicked:
				x.report("C13:reply-writer-panics", fmt.Sprintf("the connection goroutine panics while queueing %d pipelined replies with a %d-byte value frame each: %s", c.k, c.f, p), replay)
			default:
				x.report(sig, what, replay)
			}
		}
		// 1. store the value
		first := mk(0, protocol.LOCK_FLAG_CONTAINS_DATA)
		first.Data = data
		fb := make([]byte, 64)
		_ = first.Encode(fb)
		_ = cc.SetWriteDeadline(time.Now().Add(2 * time.Second))
		if _, err := cc.Write(append(fb, data.Data...)); err != nil {
			fail("C14:replybuf-no-answer", "the LOCK that stores the value is not taken")
			_ = cc.Close()
			continue
		}
		if res, _, err := readReply(); err != nil || res.Result != 0 {
			fail("C14:replybuf-no-answer", fmt.Sprintf("the LOCK that stores the value is not answered with SUCCED (%v)", err))
			_ = cc.Close()
			continue
		}
		// 2. k show requests in one write
		var wire []byte
		for j := 1; j <= c.k; j++ {
			b := make([]byte, 64)
			_ = mk(j, protocol.LOCK_FLAG_SHOW_WHEN_LOCKED).Encode(b)
			wire = append(wire, b...)
		}
		_ = cc.SetWriteDeadline(time.Now().Add(2 * time.Second))
		_, _ = cc.Write(wire)
		okAll := true
		for j := 1; j <= c.k && okAll; j++ {
			res, val, err := readReply()
			switch {
			case err != nil:
				okAll = false
				fail("C14:replybuf-reply-lost", fmt.Sprintf("reply %d of %d pipelined show requests does not arrive intact (%v)", j, c.k, err))
			case val == nil || len(val) != len(data.Data) || string(val[6:]) != string(payload):
				okAll = false
				fail("C14:replybuf-value-corrupted", fmt.Sprintf("reply %d of %d (result %d) carries a value frame of %d bytes, stored were %d", j, c.k, res.Result, len(val), len(data.Data)))
			}
		}
		// 3. still served?
		if okAll {
			u := mk(0, 0)
			u.CommandType = protocol.COMMAND_UNLOCK
			ub := make([]byte, 64)
			_ = u.Encode(ub)
			_ = cc.SetWriteDeadline(time.Now().Add(2 * time.Second))
			_, _ = cc.Write(ub)
			if _, _, err := readReply(); err != nil {
				fail("C14:replybuf-no-answer", fmt.Sprintf("after the pipelined replies the connection does not answer an UNLOCK (%v)", err))
			}
		}
		x.cases++
		rec := fmt.Sprintf("# replybuf k=%d f=%d ok=%v", c.k, c.f, okAll)
		out.emit(rec, rec)
		out.stat(fmt.Sprintf("pipelined=%d", c.k))
		_ = cc.Close()
	}
	fmt.Printf("replybuf: %d cases, signatures %v\n", x.cases, x.seen)
}

func init() {
	vModes["replybuf"] = vReplyBufRun
}
