package server

import (
	"fmt"
	"math/rand"
	"sort"
	"strconv"
	"strings"

	"github.com/snower/slock/protocol"
)

// C20 (part 2): the four containers of server/lock.go — LockManagerRingQueue, LockManagerPriorityRingQueue,
// LockManagerLockQueue (holder queue) and LockManagerWaitQueue — driven with seeded random operation
// sequences.  Every case is ONE line `queue <kind> <p1> 0 0 <op>;<op>;…` for the Lean driver
// (Driver/Queue2.lean documents the op syntax); the observation is what the real code did.
// A plain slice-based reference (FIFO / stable priority queue, tombstone drops allowed exactly where the
// property allows them) runs alongside as the property monitor.
//
// Called from mode "queue" (zz_verif_queue_test.go): vQueue2Run(r, out, n).

type vq2Item struct {
	id      int
	l       *Lock
	prio    int
	dead    bool // tombstoned (kill op)
	mayDrop bool // was tombstoned at the time of a Push that is allowed to drop tombstoned entries
}

// vq2Ref is the reference container of the property statement.
type vq2Ref struct {
	prio  bool // stable priority order (higher first, FIFO among equals); else FIFO
	drops bool // Push may drop tombstoned entries (holder queue; wait queue before the priority switch)
	items []*vq2Item
	off   bool // monitoring switched off for this case (a nil lock was pushed)
}

func (f *vq2Ref) push(it *vq2Item) {
	if f.drops {
		for _, x := range f.items {
			if x.dead {
				x.mayDrop = true
			}
		}
	}
	if !f.prio {
		f.items = append(f.items, it)
		return
	}
	pos := 0
	for i, x := range f.items {
		if x.prio >= it.prio {
			pos = i + 1
		}
	}
	f.items = append(f.items, nil)
	copy(f.items[pos+1:], f.items[pos:])
	f.items[pos] = it
}

// locate: the element the container hands out must be the first reference element that was not
// (legitimately) dropped; returns its position or -1.  nil must mean "nothing left but droppable entries".
func (f *vq2Ref) locate(l *Lock) (int, bool) {
	for i, x := range f.items {
		if x.l == l {
			return i, true
		}
		if !x.mayDrop {
			return -1, false
		}
	}
	return -1, l == nil
}

func (f *vq2Ref) sortPrio() {
	sort.SliceStable(f.items, func(i, j int) bool { return f.items[i].prio > f.items[j].prio })
	f.prio = true
	f.drops = false
}

// vq2Inst wraps one real container.
type vq2Inst struct {
	kind    string
	ring    *LockManagerRingQueue
	prio    *LockManagerPriorityRingQueue
	holder  *LockManagerLockQueue
	wait    *LockManagerWaitQueue
	manager *LockManager
	locks   []*vq2Item // every lock ever created in this case, by id-1
	ids     map[*Lock]int
}

func vq2RingState(q *LockManagerRingQueue) string {
	return fmt.Sprintf("%d.%d.%d", q.index, len(q.queue), cap(q.queue))
}

func vq2PrioState(q *LockManagerPriorityRingQueue) string {
	s := "-"
	if len(q.priorityNodes) > 0 {
		parts := make([]string, len(q.priorityNodes))
		for i, n := range q.priorityNodes {
			parts[i] = fmt.Sprintf("p%d:%s", n.priority, vq2RingState(n.ringQueue))
		}
		s = strings.Join(parts, ",")
	}
	return s + fmt.Sprintf("/c%d", cap(q.priorityNodes))
}

func vq2FastState(q []*Lock) string {
	if q == nil {
		return "nil"
	}
	return fmt.Sprintf("%d.%d", len(q), cap(q))
}

func (in *vq2Inst) state() string {
	switch in.kind {
	case "ring":
		return vq2RingState(in.ring)
	case "prio":
		return vq2PrioState(in.prio)
	case "holder":
		s := "nil"
		if in.holder.scaleQueue != nil {
			s = strconv.Itoa(int(in.holder.scaleQueue.Len()))
		}
		return fmt.Sprintf("f%s.i%d/s%s", vq2FastState(in.holder.fastQueue), in.holder.fastIndex, s)
	default:
		w := "n"
		switch rq := in.wait.ringQueue.(type) {
		case *LockManagerRingQueue:
			w = "r" + vq2RingState(rq)
		case *LockManagerPriorityRingQueue:
			w = "p" + vq2PrioState(rq)
		}
		return fmt.Sprintf("f%s.i%d/%s", vq2FastState(in.wait.fastQueue), in.wait.fastIndex, w)
	}
}

func (in *vq2Inst) slot(l *Lock) string {
	if l == nil {
		return "_"
	}
	if id, ok := in.ids[l]; ok {
		return strconv.Itoa(id)
	}
	return "?"
}

func (in *vq2Inst) nodes(ns [][]*Lock) string {
	if len(ns) == 0 {
		return "-"
	}
	var sb strings.Builder
	for _, n := range ns {
		sb.WriteByte('[')
		for i, l := range n {
			if i > 0 {
				sb.WriteByte(',')
			}
			sb.WriteString(in.slot(l))
		}
		sb.WriteByte(']')
	}
	return sb.String()
}

func (in *vq2Inst) newLock(prio, key, rc int, r *rand.Rand) *vq2Item {
	cmd := &protocol.LockCommand{}
	cmd.Rcount = uint8(prio)
	if prio != 0 || r.Intn(2) == 0 {
		cmd.TimeoutFlag |= protocol.TIMEOUT_FLAG_RCOUNT_IS_PRIORITY
	}
	if prio == 0 && cmd.TimeoutFlag&protocol.TIMEOUT_FLAG_RCOUNT_IS_PRIORITY == 0 {
		cmd.Rcount = uint8(r.Intn(256)) // Rcount is a plain reentrancy count then: priority 0
	}
	cmd.TimeoutFlag |= uint16(r.Intn(0x10000)) &^ protocol.TIMEOUT_FLAG_RCOUNT_IS_PRIORITY
	for i := 0; i < 8; i++ {
		cmd.LockId[i] = byte(key >> (8 * uint(i)))
	}
	cmd.LockKey = in.manager.lockKey
	l := &Lock{manager: in.manager, command: cmd, locked: 1, ackCount: 0xff, timeouted: false, refCount: uint8(rc),
		timeoutCheckedCount: 1, expriedCheckedCount: 1, expried: true}
	it := &vq2Item{id: len(in.locks) + 1, l: l, prio: prio}
	in.locks = append(in.locks, it)
	in.ids[l] = it.id
	return it
}

// pushObs runs a Push-like call and reports which locks it dropped (refCount changed) / freed.
func (in *vq2Inst) pushObs(pushed *Lock, call func()) string {
	before := make([]uint8, len(in.locks))
	mgr := make([]bool, len(in.locks))
	for i, it := range in.locks {
		before[i] = it.l.refCount
		mgr[i] = it.l.manager != nil
	}
	call()
	var drop, free []string
	for i, it := range in.locks {
		if i >= len(before) {
			break
		}
		if it.l == pushed {
			continue // AddWaitLock's own refCount++ on the pushed lock
		}
		if it.l.refCount != before[i] {
			drop = append(drop, fmt.Sprintf("%d:%d", it.id, it.l.refCount))
		}
		if mgr[i] && it.l.manager == nil {
			free = append(free, strconv.Itoa(it.id))
		}
	}
	d, f := "-", "-"
	if len(drop) > 0 {
		d = strings.Join(drop, ",")
	}
	if len(free) > 0 {
		f = strings.Join(free, ",")
	}
	return "drop=" + d + "/free=" + f
}

// phases: {n, wPush, wPop, wKill, wOther}
func vq2Profiles(kind string, r *rand.Rand) [][5]int {
	switch kind {
	case "ring", "prio":
		switch r.Intn(4) {
		case 0: // sawtooth: fill, drain most, fill again (compaction when full and index > len/2)
			a := 5 + r.Intn(80)
			return [][5]int{{a, 20, 1, 1, 2}, {a, 2, 20, 1, 2}, {a * 2, 20, 6, 1, 2}, {a, 4, 20, 1, 2}, {a * 2, 20, 10, 1, 2}, {a * 3, 3, 20, 0, 2}}
		case 1:
			return [][5]int{{30 + r.Intn(300), 10, 9, 1, 3}}
		case 2:
			return [][5]int{{20 + r.Intn(200), 12, 6, 1, 2}, {20 + r.Intn(300), 6, 12, 1, 2}}
		default:
			return [][5]int{{10 + r.Intn(60), 10, 10, 2, 10}}
		}
	case "holder":
		switch r.Intn(5) {
		case 0: // straight growth 6→12→24→48→111→223 then the scale queue
			return [][5]int{{240 + r.Intn(60), 40, 0, 0, 1}, {100 + r.Intn(200), 10, 10, 2, 3}, {400, 3, 20, 1, 2}}
		case 1: // growth with head pops (no compaction gain → grows anyway) then scale, drain through both parts
			return [][5]int{{260 + r.Intn(100), 30, 2, 0, 1}, {80, 10, 2, 3, 2}, {500, 2, 20, 1, 2}, {40, 10, 10, 1, 3}}
		case 2: // churn with tombstones: compaction keeps the fast queue small
			return [][5]int{{100 + r.Intn(500), 12, 5, 8, 2}}
		case 3:
			return [][5]int{{20 + r.Intn(100), 10, 9, 3, 6}}
		default:
			return [][5]int{{30 + r.Intn(60), 20, 2, 6, 2}, {30 + r.Intn(60), 4, 20, 2, 2}, {300, 30, 1, 2, 1}, {200, 5, 10, 2, 2}}
		}
	default: // wait
		switch r.Intn(6) {
		case 0: // 8→16→32→64→143→287 then a ring of 64, ring growth, repush somewhere
			return [][5]int{{300 + r.Intn(40), 40, 0, 0, 1}, {80 + r.Intn(200), 20, 4, 1, 1}, {200, 4, 20, 1, 2}, {100, 10, 10, 1, 4}}
		case 1:
			return [][5]int{{310 + r.Intn(100), 30, 2, 0, 1}, {150, 12, 10, 2, 1}, {600, 2, 20, 1, 1}, {60, 10, 10, 1, 4}}
		case 2: // churn with tombstones
			return [][5]int{{100 + r.Intn(500), 12, 5, 8, 2}}
		case 3:
			return [][5]int{{20 + r.Intn(100), 10, 9, 3, 8}}
		case 4:
			return [][5]int{{30 + r.Intn(60), 20, 2, 6, 2}, {30 + r.Intn(60), 4, 20, 2, 2}, {330, 30, 1, 2, 1}, {300, 5, 10, 2, 2}}
		default:
			return [][5]int{{10 + r.Intn(40), 10, 6, 2, 6}, {10 + r.Intn(300), 10, 8, 2, 3}}
		}
	}
}

func vQueue2Case(r *rand.Rand, out *vOut, kind string) {
	in := &vq2Inst{kind: kind, ids: map[*Lock]int{}}
	mcmd := &protocol.LockCommand{}
	r.Read(mcmd.LockKey[:])
	in.manager = NewLockManager(nil, mcmd, nil, 0, NewLockQueue(2, 16, 64), nil)
	ref := &vq2Ref{}
	p1 := 0
	sizes := []int{0, 1, 1, 2, 2, 3, 4, 5, 6, 7, 8, 9, 11, 16, 17, 31, 64}
	switch kind {
	case "ring":
		p1 = sizes[r.Intn(len(sizes))]
		in.ring = NewLockManagerRingQueue(p1)
	case "prio":
		p1 = sizes[r.Intn(len(sizes))]
		in.prio = NewLockManagerPriorityRingQueue(p1)
		ref.prio = true
	case "holder":
		in.holder = NewLockManagerLockQueue()
		ref.drops = true
	case "wait":
		p1 = r.Intn(4) / 3 // mostly the FIFO start, as production (NewLockManagerWaitQueue(false))
		in.wait = NewLockManagerWaitQueue(p1 == 1)
		in.manager.waitLocks = in.wait
		ref.prio = p1 == 1
		ref.drops = p1 != 1
	}
	head := fmt.Sprintf("queue %s %d 0 0 ", kind, p1)
	// priorities: few distinct values (long runs per node) or many
	var prios []int
	switch r.Intn(5) {
	case 0:
		prios = []int{0}
	case 1:
		prios = []int{0, 0, 0, 1}
	case 2:
		prios = []int{0, 1, 2, 5, 255}
	case 3:
		prios = []int{0, 0, 0, 0, 0, 0, 0, 0, 0, 0, 0, 0, 0, 0, 0, 0, 0, 0, 0, 0, 0, 0, 0, 0, 0, 0, 0, 0, 0, 0, 0, 0, 0, 0, 0, 0, 0, 0, 0, 0, 0, 0, 0, 0, 0, 0, 0, 0, 0, 7}
	default:
		for i := 0; i < 12; i++ {
			prios = append(prios, r.Intn(256))
		}
	}
	nilPush := r.Intn(12) == 0
	var ops, obs []string
	size := 0
	monFail := func(sig, what string) {
		if ref.off {
			return
		}
		ref.off = true // one report per case
		out.monitor("queue2:"+kind+":"+sig, what, map[string]string{"op": head + strings.Join(ops, ";")})
	}
	panicked := false
	do := func(op string, f func() string) {
		ops = append(ops, op)
		o := "panic"
		func() {
			defer func() {
				if e := recover(); e != nil {
					panicked = true
				}
			}()
			o = f()
		}()
		if panicked {
			o = "panic"
		}
		obs = append(obs, o)
		size += len(op) + len(o) + 2
	}
	realPush := func(l *Lock) {
		switch kind {
		case "ring":
			in.ring.Push(l)
		case "prio":
			in.prio.Push(l)
		case "holder":
			in.holder.Push(l)
		default:
			in.wait.Push(l)
		}
	}
	realLen := func() int {
		switch kind {
		case "ring":
			return in.ring.Len()
		case "prio":
			return in.prio.Len()
		case "holder":
			return in.holder.Len()
		default:
			return in.wait.Len()
		}
	}
	checkLen := func(where string) {
		if ref.off || panicked {
			return
		}
		n := realLen()
		lo := 0
		for _, x := range ref.items {
			if !x.mayDrop {
				lo++
			}
		}
		if n < lo || n > len(ref.items) {
			monFail("len", fmt.Sprintf("%s: Len() = %d but the reference holds between %d and %d elements", where, n, lo, len(ref.items)))
		}
	}
	checkOut := func(what string, l *Lock, remove bool) {
		if ref.off || panicked {
			return
		}
		pos, ok := ref.locate(l)
		if !ok {
			want := "nil"
			for _, x := range ref.items {
				if !x.mayDrop {
					want = strconv.Itoa(x.id)
					break
				}
			}
			monFail(what, fmt.Sprintf("%s returned %s, the reference %s queue has %s next", what, in.slot(l), map[bool]string{true: "stable priority", false: "FIFO"}[ref.prio], want))
			return
		}
		if l == nil {
			ref.items = ref.items[:0]
			return
		}
		if remove {
			ref.items = ref.items[pos+1:]
		} else {
			ref.items = ref.items[pos:]
		}
	}
	for pi, ph := range vq2Profiles(kind, r) {
		if kind == "wait" && pi > 0 && !panicked && r.Intn(3) == 0 {
			// switch to priority order at a phase boundary (often out of the ring representation)
			do("repush", func() string { in.wait.RePushPriorityRingQueue(); return "ok/" + in.state() })
			if !panicked && !ref.prio {
				ref.sortPrio()
			}
			checkLen("after RePushPriorityRingQueue")
		}
		for k := 0; k < ph[0] && !panicked && size < 50000; k++ {
			w := r.Intn(ph[1] + ph[2] + ph[3] + ph[4])
			switch {
			case w < ph[1]: // push
				if nilPush && r.Intn(40) == 0 {
					ref.off = true
					do("pushnil", func() string {
						if kind == "holder" || kind == "wait" {
							return in.pushObs(nil, func() { realPush(nil) }) + "/" + in.state()
						}
						realPush(nil)
						return "ok/" + in.state()
					})
					continue
				}
				prio := prios[r.Intn(len(prios))]
				key := r.Intn(12)
				if r.Intn(3) == 0 {
					key = r.Intn(1 << 30)
				}
				rc := 1
				if r.Intn(4) == 0 {
					rc = r.Intn(4) // 0 wraps to 255 when dropped; 1 is freed; others survive
				}
				it := in.newLock(prio, key, rc, r)
				useAdd := kind == "wait" && r.Intn(3) != 0
				name := "push"
				if useAdd {
					name = "add"
				}
				do(fmt.Sprintf("%s:%d:%d:%d:%d", name, it.id, prio, key, rc), func() string {
					if useAdd {
						wasPrio := in.wait.fastIndex < 0
						s := in.pushObs(it.l, func() { in.manager.AddWaitLock(it.l) })
						if !wasPrio && in.wait.fastIndex < 0 && !ref.prio {
							ref.sortPrio() // the caller switched the queue to priority order before pushing
						}
						return s + "/" + in.state()
					}
					if kind == "holder" || kind == "wait" {
						return in.pushObs(it.l, func() { realPush(it.l) }) + "/" + in.state()
					}
					realPush(it.l)
					return "ok/" + in.state()
				})
				if !panicked {
					ref.push(it)
					checkLen("after Push")
				}
			case w < ph[1]+ph[2]: // pop
				var got *Lock
				do("pop", func() string {
					switch kind {
					case "ring":
						got = in.ring.Pop()
					case "prio":
						got = in.prio.Pop()
					case "holder":
						got = in.holder.Pop()
					default:
						got = in.wait.Pop()
					}
					return in.slot(got) + "/" + in.state()
				})
				checkOut("pop", got, true)
				checkLen("after Pop")
			case w < ph[1]+ph[2]+ph[3]: // tombstone a queued lock in place
				if len(ref.items) == 0 && len(in.locks) == 0 {
					continue
				}
				var it *vq2Item
				if len(ref.items) > 0 && r.Intn(8) != 0 {
					it = ref.items[r.Intn(len(ref.items))]
				} else {
					it = in.locks[r.Intn(len(in.locks))]
				}
				if it.l.manager == nil { // already freed: the object belongs to the free list now
					continue
				}
				locked, timeouted, ack := 1, 0, 255
				switch kind {
				case "holder":
					locked = 0
				case "wait":
					if r.Intn(2) == 0 {
						timeouted = 1
					} else {
						ack = r.Intn(255)
					}
				default:
					locked, timeouted = 0, 1
				}
				do(fmt.Sprintf("kill:%d:%d:%d:%d", it.id, locked, timeouted, ack), func() string {
					it.l.locked = uint8(locked)
					it.l.timeouted = timeouted != 0
					it.l.ackCount = uint8(ack)
					return "ok"
				})
				it.dead = true
			default:
				c := r.Intn(10)
				switch {
				case c < 2:
					var got *Lock
					do("head", func() string {
						switch kind {
						case "ring":
							got = in.ring.Head()
						case "prio":
							got = in.prio.Head()
						case "holder":
							got = in.holder.Head()
						default:
							got = in.wait.Head()
						}
						return in.slot(got)
					})
					checkOut("head", got, false)
				case c < 4:
					do("len", func() string { return strconv.Itoa(realLen()) })
					checkLen("Len")
				case c < 5:
					if realLen() > 64 && r.Intn(6) != 0 {
						continue
					}
					var flat []*Lock
					do("iter", func() string {
						var ns [][]*Lock
						s := ""
						switch kind {
						case "ring":
							ns = in.ring.IterNodes()
						case "prio":
							ns = in.prio.IterNodes()
						case "holder":
							all := in.holder.IterNodes()
							if in.holder.scaleQueue != nil {
								ns = all[:1]
								s = "+S" + strconv.Itoa(int(in.holder.scaleQueue.Len()))
								flat = nil
							} else {
								ns = all
							}
						default:
							ns = in.wait.IterNodes()
						}
						for _, n := range ns {
							flat = append(flat, n...)
						}
						return in.nodes(ns) + s
					})
					if !ref.off && !panicked && !(kind == "holder" && in.holder.scaleQueue != nil) {
						// the iterated content is the reference content minus droppable entries, in order
						j := 0
						var kept []*vq2Item
						bad := false
						for _, x := range ref.items {
							if j < len(flat) && flat[j] == x.l {
								kept = append(kept, x)
								j++
							} else if !x.mayDrop {
								bad = true
								break
							}
						}
						if bad || j != len(flat) {
							monFail("iter", "IterNodes content "+in.nodes([][]*Lock{flat})+" is not the reference content in reference order")
						} else {
							ref.items = kept
						}
					}
				case c < 6:
					if kind == "holder" {
						key := r.Intn(12)
						if r.Intn(2) == 0 {
							do(fmt.Sprintf("getlock:%d", key), func() string {
								cmd := &protocol.LockCommand{}
								for i := 0; i < 8; i++ {
									cmd.LockId[i] = byte(key >> (8 * uint(i)))
								}
								return in.slot(in.holder.GetLock(cmd))
							})
						} else {
							do(fmt.Sprintf("rmlock:%d", key), func() string {
								cmd := &protocol.LockCommand{}
								for i := 0; i < 8; i++ {
									cmd.LockId[i] = byte(key >> (8 * uint(i)))
								}
								in.holder.RemoveLock(cmd)
								return "ok"
							})
						}
						continue
					}
					var mp uint8
					do("maxprio", func() string {
						switch kind {
						case "ring":
							mp = in.ring.MaxPriority()
						case "prio":
							mp = in.prio.MaxPriority()
						default:
							mp = in.wait.MaxPriority()
						}
						return strconv.Itoa(int(mp))
					})
					if !ref.off && !panicked {
						// MaxPriority is the priority of the element Head would return (0 when none)
						ok := false
						all := true
						for _, x := range ref.items {
							if x.prio == int(mp) {
								ok = true
								break
							}
							if !x.mayDrop {
								all = false
								break
							}
						}
						if !ok && !(all && mp == 0) {
							monFail("maxprio", fmt.Sprintf("MaxPriority() = %d is not the priority of the reference head", mp))
						}
					}
				case c < 7:
					if kind == "holder" {
						do("resize", func() string { in.holder.Resize(); return "ok/" + in.state() })
						checkLen("after Resize")
					} else if kind == "wait" && r.Intn(3) == 0 {
						do("repush", func() string { in.wait.RePushPriorityRingQueue(); return "ok/" + in.state() })
						if !panicked && !ref.prio {
							ref.sortPrio()
						}
						checkLen("after RePushPriorityRingQueue")
					}
				case c < 8:
					if (kind == "holder" || kind == "wait") && r.Intn(12) == 0 {
						do("reset", func() string {
							if kind == "holder" {
								in.holder.Reset()
							} else {
								in.wait.Reset()
							}
							return "ok/" + in.state()
						})
						ref.items = ref.items[:0]
						if kind == "wait" {
							ref.prio, ref.drops = false, true
						}
						checkLen("after Reset")
					}
				default:
					do("len", func() string { return strconv.Itoa(realLen()) })
					checkLen("Len")
				}
			}
		}
	}
	if len(ops) == 0 {
		do("len", func() string { return strconv.Itoa(realLen()) })
	}
	out.emit(head+strings.Join(ops, ";"), strings.Join(obs, ";"))
}

// vQueue2HolderBig: a holder queue with more live entries than its inline array takes (the map-backed part appears around the 224th
// holder): both iteration interfaces — IterNodes() and IterNodeQueues(i) node by node, which is how the admin listings walk holders —
// must yield exactly the live entries in arrival order, also after releases from the left and from the middle. Monitor only.
func vQueue2HolderBig(r *rand.Rand, out *vOut) {
	for _, n := range []int{230, 300, 520} {
		q := NewLockManagerLockQueue()
		var ref []*Lock
		for i := 0; i < n; i++ {
			var id [16]byte
			id[0], id[1], id[2], id[3] = byte(i), byte(i>>8), 0x5a, 0xa5
			l := &Lock{locked: 1, command: &protocol.LockCommand{LockId: id}}
			q.Push(l)
			ref = append(ref, l)
		}
		check := func(when string) {
			nodes := q.IterNodes()
			var a, b []*Lock
			for i := range nodes {
				for _, l := range nodes[i] {
					if l != nil && l.locked > 0 {
						a = append(a, l)
					}
				}
				for _, l := range q.IterNodeQueues(int32(i)) {
					if l != nil && l.locked > 0 {
						b = append(b, l)
					}
				}
			}
			same := func(x []*Lock) bool {
				if len(x) != len(ref) {
					return false
				}
				for i := range x {
					if x[i] != ref[i] {
						return false
					}
				}
				return true
			}
			if !same(a) {
				out.monitor("queue2:holder:iter", fmt.Sprintf("%d holders, %s: IterNodes() yields %d live entries, %d are held (or in another order)", n, when, len(a), len(ref)), map[string]string{"op": fmt.Sprintf("holder-big %d", n)})
			}
			if !same(b) {
				out.monitor("queue2:holder:iter-node-queues", fmt.Sprintf("%d holders, %s: IterNodeQueues(i) over the %d nodes yields %d live entries, %d are held (or in another order)", n, when, len(nodes), len(b), len(ref)), map[string]string{"op": fmt.Sprintf("holder-big %d", n)})
			}
		}
		check("after the pushes")
		for k := 0; k < 40 && len(ref) > 0; k++ { // release the oldest ones
			if l := q.Pop(); l != nil {
				l.locked = 0
				ref = ref[1:]
			}
		}
		check("after 40 releases from the left")
		rec := fmt.Sprintf("# holder-big %d", n)
		out.emit(rec, rec)
	}
}

func vQueue2Run(r *rand.Rand, out *vOut, n int) {
	vQueue2HolderBig(r, out)
	for _, kind := range []string{"ring", "prio", "wait", "holder"} {
		for i := 0; i < n; i++ {
			vQueue2Case(r, out, kind)
		}
	}
}
