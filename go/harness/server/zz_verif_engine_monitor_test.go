package server

// Property monitors for the E-seq engine harness: each property's own observable statement evaluated on what
// the REAL code did (replies + in-package state snapshots taken at reply time and after each operation).
// Signatures are "<Cxx>:<clause>" so every property's check picks up its own.

import (
	"fmt"
	"strings"
)

type vReqInfo struct {
	op        vOp
	t0        int64 // virtual time the request was issued
	terminal  []vReply
	expried   []vReply
	grantT    int64 // start of the hold's current expiry period (time of the reply that (re)set its terms)
	effE      int64 // that period in seconds
	effUnlim  bool
	setsTerms bool
}

type vMonitor struct {
	cur         vOp // the operation being executed
	out         *vOut
	x           *vRun
	line        string
	reqs        map[int]*vReqInfo
	seen        map[string]bool
	pend        []func(line string)
	before_     string
	beforeHolds []vHoldSnap
	headAdm     map[int]bool        // per key: was an admissible head already queued at the previous quiescent moment
	opTimeouts  map[int]bool        // keys on which a waiter was answered TIMEOUT during the current op
	opExpiries  map[int]bool        // keys on which a hold ended with EXPRIED during the current op
	crashOnly   bool                // report C13 signatures only
	updatedKeys map[string]bool     // key/lockId pairs whose terms were changed by a re-lock or update (looser upper bound)
	ledger      map[int]map[int]int // per key: LockId → depth, kept from the REPLIES alone (not from the engine's records)
}

func vNewMonitor(out *vOut, x *vRun) *vMonitor {
	return &vMonitor{out: out, x: x, reqs: map[int]*vReqInfo{}, seen: map[string]bool{}, updatedKeys: map[string]bool{}, ledger: map[int]map[int]int{}, headAdm: map[int]bool{}, opTimeouts: map[int]bool{}, opExpiries: map[int]bool{}}
}

// report defers emission until the whole op line is known (it is the replay).
func (m *vMonitor) report(sig, what string) {
	if m.crashOnly && !strings.HasPrefix(sig, "C13:") {
		return // wild mode: flag combinations outside the modelled subset — only crashes and hangs are judged
	}
	if m.seen[sig] {
		return
	}
	m.seen[sig] = true
	idx := len(m.x.ops)
	m.pend = append(m.pend, func(line string) {
		m.out.monitor(sig, what, map[string]interface{}{"ops": line, "at_op_index": idx})
	})
}

func (m *vMonitor) flush() {
	for _, f := range m.pend {
		f(m.line)
	}
	m.pend = nil
}

func (m *vMonitor) before(x *vRun, o vOp) {
	if m.crashOnly {
		return // wild mode: replies may arrive on the executor goroutine; nothing but crashes is judged
	}
	m.cur = o
	if o.kind == 'L' || o.kind == 'U' {
		m.reqs[o.req] = &vReqInfo{op: o, t0: x.v.db.currentTime}
	}
	if o.kind == 'U' {
		m.before_ = m.keyState(o.key)
	}
	if o.kind == 'L' || o.kind == 'U' {
		m.beforeHolds = m.x.v.keySnap(o.key).holds
	}
	m.opTimeouts = map[int]bool{}
	m.opExpiries = map[int]bool{}
}

func (m *vMonitor) keyState(key int) string {
	ks := m.x.v.keySnap(key)
	return fmt.Sprintf("%d/%v/%v/%v/%x", ks.locked, ks.waited, ks.holds, ks.waits, ks.data)
}

func vAdmissible(ks vKeySnap, count int) bool {
	// the admission rule as the property states it: nothing held, or depth outstanding ≤ both Counts
	if ks.locked == 0 {
		return true
	}
	if len(ks.holds) == 0 {
		return false
	}
	return ks.locked <= count && ks.locked <= ks.holds[0].count
}

// onReply runs inside the result callback, i.e. at the moment the real code emits the reply.
func (m *vMonitor) onReply(r vReply) {
	if m.crashOnly {
		return // wild mode: replies may arrive on the executor goroutine; nothing but crashes is judged
	}
	x := m.x
	ri := m.reqs[r.req]
	now := x.v.db.currentTime
	if ri == nil {
		m.report("C03:unknown-request-id", fmt.Sprintf("reply %v carries a RequestId no connection sent in this run", r))
		return
	}
	if ri.op.conn != r.conn {
		m.report("C03:misrouted", fmt.Sprintf("reply for request %d issued on connection %d was delivered to connection %d", r.req, ri.op.conn, r.conn))
	}
	if r.result == protocol_RESULT_EXPRIED {
		ri.expried = append(ri.expried, r)
	} else {
		ri.terminal = append(ri.terminal, r)
	}
	ks := x.v.keySnap(r.key)
	sum := 0
	for _, h := range ks.holds {
		sum += h.depth
	}
	// ---- C17: LCount / hand-kept counter = true number of outstanding holds (16-bit wire field)
	if sum != ks.locked {
		m.report("C17:locked-ne-sum", fmt.Sprintf("key %d: hand-kept locked=%d but live holds sum to %d (at reply %v)", r.key, ks.locked, sum, r))
	}
	// ---- C06: an expiry frees the hold's WHOLE depth (twin of the two C17 clauses, at the EXPRIED notice)
	if r.result == protocol_RESULT_EXPRIED && (sum != ks.locked || r.lcount != sum%65536) {
		m.report("C06:expiry-did-not-free-capacity", fmt.Sprintf("EXPRIED notice %v: the key's counter shows %d (LCount %d) but the remaining live holds sum to %d — capacity of the expired hold is still counted", r, ks.locked, r.lcount, sum))
	}
	if r.lcount != sum%65536 && !(r.result == protocol_RESULT_TIMEOUT && ri.op.flag&8 != 0) {
		m.report("C17:lcount", fmt.Sprintf("reply %v reports LCount %d, true outstanding holds %d", r, r.lcount, sum))
	}
	// LRCount = depth of the hold with that LockId the request acted on (two live holds may share a LockId when a
	// client reuses it concurrently; then any of them is accepted). An unlock that released the hold reports 0.
	depthOK := false
	nWith := 0
	for _, h := range ks.holds {
		if h.lockId == r.lockId {
			nWith++
			if h.depth%256 == r.lrcount {
				depthOK = true
			}
		}
	}
	if nWith == 0 && r.lrcount == 0 {
		depthOK = true
	}
	if ri.op.kind == 'U' && r.lrcount == 0 {
		depthOK = true
	}
	if ri.op.kind == 'L' && ri.op.expried == 0 && r.lrcount == 0 {
		depthOK = true // a request with Expried 0 takes no hold of its own
	}
	if (r.result == 0 || r.result == protocol_RESULT_LOCKED_ERROR && ri.op.kind == 'L' || r.result == protocol_RESULT_UNOWN_ERROR && ri.op.kind == 'L' && ri.op.flag&1 != 0) && !depthOK {
		m.report("C17:lrcount", fmt.Sprintf("reply %v reports LRCount %d, but no outstanding hold of that LockId has that depth: %v", r, r.lrcount, ks.holds))
	}
	// ---- C01 from the replies alone: the engine's own records are not consulted, so a grant made through a second, disconnected
	// record of the same key (which the record-based check below cannot see) is still counted
	if x.v.db.status == STATE_LEADER && ri.op.flag&4 == 0 {
		lg := m.ledger[r.key]
		if lg == nil {
			lg = map[int]int{}
			m.ledger[r.key] = lg
		}
		switch {
		case r.result == 0 && ri.op.kind == 'L' && ri.op.expried > 0 && r.lrcount == 1:
			if _, dup := lg[r.lockId]; !dup {
				pre := 0
				for _, d := range lg {
					pre += d
				}
				if pre > ri.op.count && ri.op.count < 0xffff {
					m.report("C01:ledger-exceeds-request-count", fmt.Sprintf("by the replies alone: request %d (Count %d) was granted as a new holder of key %d while holds of total depth %d were outstanding (%v)", r.req, ri.op.count, r.key, pre, lg))
				}
			}
			lg[r.lockId] = 1
		case r.result == 0 && ri.op.kind == 'L' && ri.op.expried > 0 && r.lrcount > 1:
			lg[r.lockId] = r.lrcount
		case r.result == 0 && ri.op.kind == 'U':
			if r.lrcount == 0 {
				delete(lg, r.lockId)
			} else {
				lg[r.lockId] = r.lrcount
			}
		case r.result == protocol_RESULT_EXPRIED:
			delete(lg, r.lockId)
		}
	}
	// ---- C01: a grant as a NEW holder
	if r.result == 0 && ri.op.kind == 'L' && r.lrcount == 1 && ri.op.expried > 0 && len(ks.holds) > 0 && ks.holds[len(ks.holds)-1].req == r.req {
		pre := sum - 1
		oldest := ks.holds[0]
		if pre > ri.op.count {
			m.report("C01:exceeds-request-count", fmt.Sprintf("request %d (Count %d) was granted as a new holder of key %d with %d holds already outstanding", r.req, ri.op.count, r.key, pre))
		}
		if oldest.req != r.req && pre > oldest.count {
			m.report("C01:exceeds-oldest-count", fmt.Sprintf("request %d was granted as a new holder of key %d with %d holds outstanding, oldest holder's Count is %d", r.req, r.key, pre, oldest.count))
		}
	}
	// ---- C04: a NEWCOMER is granted past queued requests only with the priority flag and a priority strictly above all of them
	if r.result == 0 && ri.op.kind == 'L' && m.cur.kind == 'L' && m.cur.req == r.req && ri.op.expried > 0 && len(ks.waits) > 0 && x.v.db.status == STATE_LEADER && ri.op.flag&4 == 0 {
		wasHolder := false
		for _, h := range m.beforeHolds {
			if h.lockId == r.lockId {
				wasHolder = true
			}
		}
		if !wasHolder {
			maxp, nq := 0, 0
			for _, w := range ks.waits {
				var id, rq int
				var tt int64
				fmt.Sscanf(strings.ReplaceAll(w, ".", " "), "%d %d %d", &id, &rq, &tt)
				wi := m.reqs[rq]
				if wi == nil || wi.op.tflag&0x200 != 0 {
					continue // a request with the wait-when-unlocked flag queues on a FREE key by its own flag: it is not overtaken by a grant
				}
				nq++
				if wi.op.tflag&0x10 != 0 && wi.op.rcount > maxp {
					maxp = wi.op.rcount
				}
			}
			if nq > 0 && (ri.op.tflag&0x10 == 0 || ri.op.rcount <= maxp) {
				m.report("C04:overtook-queue", fmt.Sprintf("new request %d (priority flag %v, Rcount %d) was granted on key %d past %d queued request(s) whose highest priority is %d", r.req, ri.op.tflag&0x10 != 0, ri.op.rcount, r.key, len(ks.waits), maxp))
			}
		}
	}
	// ---- C04: a grant from the queue goes to the request that a stable priority queue would serve first
	if r.result == 0 && ri.op.kind == 'L' && !((m.cur.kind == 'L' || m.cur.kind == 'U') && m.cur.req == r.req) {
		prio := 0
		if ri.op.tflag&0x10 != 0 {
			prio = ri.op.rcount
		}
		for _, w := range ks.waits {
			var id, rq int
			var tt int64
			fmt.Sscanf(strings.ReplaceAll(w, ".", " "), "%d %d %d", &id, &rq, &tt)
			wi := m.reqs[rq]
			if wi == nil {
				continue
			}
			wp := 0
			if wi.op.tflag&0x10 != 0 {
				wp = wi.op.rcount
			}
			if wp > prio || (wp == prio && rq < r.req) {
				m.report("C04:order", fmt.Sprintf("queued request %d (priority %d) was granted while request %d (priority %d, queued earlier or higher) is still queued on key %d", r.req, prio, rq, wp, r.key))
			}
		}
	}
	// ---- bookkeeping for C05/C06
	if ri.op.kind == 'L' && (r.result == 0 && ri.op.expried > 0 || r.result == protocol_RESULT_LOCKED_ERROR && ri.op.flag&2 != 0) {
		unit := int64(1)
		if ri.op.eflag&0x40 != 0 {
			unit = 60
		}
		ri.grantT, ri.effE, ri.effUnlim = now, int64(ri.op.expried)*unit, ri.op.eflag&0x4000 != 0
		ri.setsTerms = true
		if r.lrcount > 1 || r.result == protocol_RESULT_LOCKED_ERROR {
			m.updatedKeys[fmt.Sprintf("%d/%d", r.key, r.lockId)] = true
			if ri.op.eflag&0x4000 != 0 && ri.op.expried == 0xffff {
				// (unlimited, 0xffff) on a re-lock / update means "leave the expiry as it is": the period is not restarted
				for _, h := range m.beforeHolds {
					if h.lockId == r.lockId {
						if prev := m.reqs[h.req]; prev != nil && prev.setsTerms {
							ri.grantT, ri.effE, ri.effUnlim = prev.grantT, prev.effE, prev.effUnlim
						}
						break
					}
				}
			}
		}
	}
	if r.result == protocol_RESULT_TIMEOUT && ri.op.kind == 'L' && now > ri.t0 {
		m.opTimeouts[r.key] = true
	}
	// ---- C05: a TIMEOUT for a request that was queued
	if r.result == protocol_RESULT_TIMEOUT && ri.op.kind == 'L' && now > ri.t0 {
		unit := int64(1)
		if ri.op.tflag&0x40 != 0 {
			unit = 60
		}
		T := int64(ri.op.timeout) * unit
		if now-ri.t0 < T {
			m.report("C05:early", fmt.Sprintf("request %d queued at %d with timeout %d s was answered TIMEOUT after %d s", r.req, ri.t0, T, now-ri.t0))
		}
		if now-ri.t0 > T+2 {
			m.report("C05:late", fmt.Sprintf("request %d queued at %d with timeout %d s was answered TIMEOUT only after %d s", r.req, ri.t0, T, now-ri.t0))
		}
	}
	if r.result == protocol_RESULT_TIMEOUT && ri.op.kind == 'L' && now == ri.t0 && ri.op.timeout > 0 && ri.op.flag&8 == 0 {
		m.report("C05:early", fmt.Sprintf("request %d with timeout %d was answered TIMEOUT at once", r.req, ri.op.timeout))
	}
	// ---- C06: an EXPRIED notice
	if r.result == protocol_RESULT_EXPRIED {
		if m.opExpiries != nil {
			m.opExpiries[r.key] = true
		}
		if !ri.setsTerms {
			m.report("C03:expried-wrong-request", fmt.Sprintf("EXPRIED notice %v under a RequestId that never set a hold's terms", r))
		} else {
			E := ri.effE
			if ri.effUnlim {
				m.report("C06:unlimited-expired", fmt.Sprintf("hold of request %d has the unlimited-expiry flag and was ended by time", r.req))
			} else {
				if now-ri.grantT < E {
					m.report("C06:early", fmt.Sprintf("hold whose terms were set by request %d at %d (expiry %d s) was ended after %d s", r.req, ri.grantT, E, now-ri.grantT))
				}
				slack := int64(2)
				if m.updatedKeys[fmt.Sprintf("%d/%d", r.key, r.lockId)] {
					slack = 10
				}
				if now-ri.grantT > E+slack {
					m.report("C06:late", fmt.Sprintf("hold whose terms were set by request %d at %d (expiry %d s) was ended only after %d s", r.req, ri.grantT, E, now-ri.grantT))
				}
			}
		}
		for _, h := range ks.holds {
			if h.req == r.req {
				m.report("C06:still-held", fmt.Sprintf("EXPRIED sent for request %d but its hold is still outstanding", r.req))
			}
		}
	}
}

const (
	protocol_RESULT_LOCKED_ERROR = 5
	protocol_RESULT_UNLOCK_ERROR = 6
	protocol_RESULT_UNOWN_ERROR  = 7
	protocol_RESULT_TIMEOUT      = 8
	protocol_RESULT_EXPRIED      = 9
	protocol_RESULT_STATE_ERROR  = 10
)

// after runs at a quiescent moment (the operation and every wake pass it triggered are complete).
func (m *vMonitor) after(x *vRun, o vOp, ob string) {
	if m.crashOnly {
		return // wild mode: replies may arrive on the executor goroutine; nothing but crashes is judged
	}
	now := x.v.db.currentTime
	// ---- C02: a refused unlock changes nothing
	if o.kind == 'U' {
		ri := m.reqs[o.req]
		if len(ri.terminal) == 1 {
			res := ri.terminal[0].result
			if res == protocol_RESULT_UNLOCK_ERROR || res == protocol_RESULT_UNOWN_ERROR || res == protocol_RESULT_STATE_ERROR {
				if st := m.keyState(o.key); st != m.before_ {
					m.report("C02:refused-unlock-changed-state", fmt.Sprintf("unlock %d was refused with result %d but the key changed: %s -> %s", o.req, res, m.before_, st))
				}
			}
			if (res == protocol_RESULT_UNLOCK_ERROR || res == protocol_RESULT_UNOWN_ERROR) && o.flag == 2 && x.v.db.status == STATE_LEADER {
				// cancel-wait: by the REPLIES alone (the engine's own enumeration of its wait queue is not consulted) exactly one request of
				// this LockId on this key is still unanswered, and no hold carries the id: the cancel names a queued request and must find it
				pending, holder := 0, false
				for rq, q := range m.reqs {
					if rq != o.req && q.op.kind == 'L' && q.op.key == o.key && q.op.lockId == o.lockId && len(q.terminal) == 0 && q.op.flag&4 == 0 {
						pending++
					}
				}
				for _, h := range m.beforeHolds {
					if h.lockId == o.lockId {
						holder = true
					}
				}
				if pending == 1 && !holder {
					m.report("C02:cancel-of-queued-request-refused", fmt.Sprintf("cancel-wait unlock %d names LockId %d, under which one request of key %d is queued (unanswered), and was refused with result %d", o.req, o.lockId, o.key, res))
				}
			}
			if res == protocol_RESULT_UNOWN_ERROR && o.flag == 0 && x.v.db.status == STATE_LEADER {
				// the owner CAN release: a plain unlock naming the LockId of exactly one outstanding hold of the key is not "unknown"
				n := 0
				for _, h := range m.beforeHolds {
					if h.lockId == o.lockId {
						n++
					}
				}
				if n == 1 {
					m.report("C02:owner-unlock-refused", fmt.Sprintf("unlock %d names LockId %d, which holds key %d (%s), and was refused with UNOWN_ERROR", o.req, o.lockId, o.key, m.before_))
				}
			}
			if res == 0 {
				// released exactly a hold of that LockId (or the oldest with unlock-first)
				if !strings.Contains(m.before_, fmt.Sprintf("{%d ", ri.terminal[0].lockId)) {
					m.report("C02:released-foreign", fmt.Sprintf("unlock %d succeeded for LockId %d although no such hold was outstanding: %s", o.req, ri.terminal[0].lockId, m.before_))
				}
				// levels: Rcount>0 removes one depth, Rcount=0 (or a priority-flagged request, which is not re-entrant) removes them all.
				// Evaluated when exactly one hold with that LockId was outstanding before (a reused LockId makes the target ambiguous).
				lid := ri.terminal[0].lockId
				var was []vHoldSnap
				for _, h := range m.beforeHolds {
					if h.lockId == lid {
						was = append(was, h)
					}
				}
				if len(was) == 1 && x.v.db.status == STATE_LEADER && o.flag&1 == 0 {
					left := 0
					for _, h := range x.v.keySnap(o.key).holds {
						if h.lockId == lid && h.req == was[0].req {
							left = h.depth
						}
					}
					want := 0
					if o.rcount > 0 && o.tflag&0x10 == 0 && was[0].depth > 1 {
						want = was[0].depth - 1
					}
					if left != want {
						m.report("C02:unlock-levels", fmt.Sprintf("unlock %d (Rcount %d) of LockId %d at depth %d left depth %d, expected %d", o.req, o.rcount, lid, was[0].depth, left, want))
					}
				}
			}
		}
	}
	// ---- C02: a re-lock never succeeds past depth 255 (the depth byte would wrap)
	if o.kind == 'L' && x.v.db.status == STATE_LEADER && o.flag&2 == 0 && o.expried > 0 {
		ri := m.reqs[o.req]
		var was []vHoldSnap
		for _, h := range m.beforeHolds {
			if h.lockId == o.lockId {
				was = append(was, h)
			}
		}
		if len(ri.terminal) == 1 && ri.terminal[0].result == 0 && len(was) == 1 && o.flag&1 == 0 {
			now := -1
			for _, h := range x.v.keySnap(o.key).holds {
				if h.lockId == o.lockId {
					now = h.depth
				}
			}
			// only the ceiling is judged here: below it a same-LockId request may legitimately be admitted as a NEW hold (the old one
			// lazily removed), which the correspondence with the model covers
			if was[0].depth >= 255 && ri.terminal[0].lrcount != 1 {
				m.report("C02:relock-past-255", fmt.Sprintf("re-lock %d (Rcount %d) of LockId %d at depth %d succeeded (reply LRCount %d, depth now %d): the depth byte cannot count past 255", o.req, o.rcount, o.lockId, was[0].depth, ri.terminal[0].lrcount, now))
			}
		}
	}
	// ---- C02: the re-entrancy limit is the Rcount of the REQUEST being served: at depth d a plain re-lock succeeds iff d <= Rcount
	if o.kind == 'L' && x.v.db.status == STATE_LEADER && o.flag == 0 && o.expried > 0 && o.tflag&0x10 == 0 {
		ri := m.reqs[o.req]
		var was []vHoldSnap
		for _, h := range m.beforeHolds {
			if h.lockId == o.lockId {
				was = append(was, h)
			}
		}
		if len(ri.terminal) == 1 && len(was) == 1 && was[0].depth < 255 {
			t := ri.terminal[0]
			if t.result == 0 && t.lrcount == (was[0].depth+1)%256 && t.lrcount > 1 && was[0].depth > o.rcount {
				m.report("C02:relock-beyond-request-rcount", fmt.Sprintf("re-lock %d (Rcount %d) of LockId %d at depth %d succeeded (reply LRCount %d): it allows at most %d more levels", o.req, o.rcount, o.lockId, was[0].depth, t.lrcount, o.rcount))
			}
			if t.result == protocol_RESULT_LOCKED_ERROR && t.lrcount == was[0].depth && was[0].depth <= o.rcount {
				m.report("C02:relock-refused-within-request-rcount", fmt.Sprintf("re-lock %d (Rcount %d) of LockId %d at depth %d was refused with LOCKED_ERROR although its Rcount allows depth %d", o.req, o.rcount, o.lockId, was[0].depth, o.rcount+1))
			}
		}
	}
	// ---- C05 / C06: a request just queued / a hold whose terms were just set must not be scheduled to end before T / E
	if o.kind == 'L' {
		ri := m.reqs[o.req]
		ks := x.v.keySnap(o.key)
		if len(ri.terminal) == 0 && o.tflag&0x400 == 0 {
			unit := int64(1)
			if o.tflag&0x40 != 0 {
				unit = 60
			}
			for _, w := range ks.waits {
				var id, rq int
				var tt int64
				fmt.Sscanf(strings.ReplaceAll(w, ".", " "), "%d %d %d", &id, &rq, &tt)
				if rq == o.req && tt < ri.t0+int64(o.timeout)*unit {
					m.report("C05:deadline-before-T", fmt.Sprintf("request %d queued at %d with timeout %d×%d s has the deadline %d: it will be answered TIMEOUT %d s after queuing", o.req, ri.t0, o.timeout, unit, tt, tt-ri.t0))
				}
			}
		}
		if ri.setsTerms && ri.grantT == now && !ri.effUnlim && o.eflag&0x400 == 0 && !(o.eflag&0x4000 != 0 && o.expried == 0xffff) {
			for _, h := range ks.holds {
				if h.req == o.req && h.expT < now+ri.effE {
					m.report("C06:deadline-before-E", fmt.Sprintf("hold whose terms were set by request %d at %d (expiry %d s) has the deadline %d: it will be ended after %d s", o.req, now, ri.effE, h.expT, h.expT-now))
				}
			}
		}
	}
	totalLocked, totalWait := 0, 0
	for _, key := range x.keys {
		ks := x.v.keySnap(key)
		if lg := m.ledger[key]; lg != nil { // re-base the ledger on what is really held (it only needs to be right between two operations)
			real := map[int]int{}
			for _, h := range ks.holds {
				real[h.lockId] += h.depth
			}
			for id := range lg {
				if _, ok := real[id]; !ok {
					if (o.kind == 'L' || o.kind == 'U') && o.key != key {
						// the replies say LockId `id` holds this key, no reply has ended that hold, and the operation just completed was
						// addressed to ANOTHER key: the key record has lost a holder (or the key record itself is no longer reachable) —
						// the next request for this key will be admitted as if the hold did not exist
						m.report("C01:holder-lost-from-key-record", fmt.Sprintf("by the replies LockId %d holds key %d (depth %d), but after `%s` (another key) the key shows %v", id, key, lg[id], o.String(), ks.holds))
					}
					delete(lg, id)
				}
			}
			for id, d := range real {
				lg[id] = d
			}
		}
		sum := 0
		for _, h := range ks.holds {
			sum += h.depth
			// C06 not-late: a live hold two or more seconds past its deadline
			if h.expT != 0x7fffffffffffffff && x.v.db.status == STATE_LEADER && now >= h.expT+2 && !m.updatedKeys[fmt.Sprintf("%d/%d", key, h.lockId)] {
				m.report("C06:late", fmt.Sprintf("hold of request %d on key %d is still outstanding at %d, deadline %d", h.req, key, now, h.expT))
			}
		}
		totalLocked += sum
		totalWait += len(ks.waits)
		if sum != ks.locked {
			m.report("C17:locked-ne-sum", fmt.Sprintf("key %d: hand-kept locked=%d but live holds sum to %d after op %s", key, ks.locked, sum, o.String()))
		}
		if (len(ks.holds) == 0) != (ks.locked == 0) {
			m.report("C17:locked-ne-sum", fmt.Sprintf("key %d: locked=%d with %d live holds", key, ks.locked, len(ks.holds)))
		}
		// ---- C04: at a quiescent moment the head live waiter must not be admissible
		if len(ks.waits) == 0 {
			m.headAdm[key] = false
		}
		if len(ks.waits) > 0 {
			var id, rq int
			var tt int64
			fmt.Sscanf(strings.ReplaceAll(ks.waits[0], ".", " "), "%d %d %d", &id, &rq, &tt)
			if ri := m.reqs[rq]; ri != nil {
				adm := vAdmissible(ks, ri.op.count)
				if ri.op.tflag&0x200 != 0 && ks.locked == 0 {
					adm = false // wait-when-unlocked: by its own flag not admissible on an unlocked key
				}
				if adm && !m.headAdm[key] {
					// what made it admissible in THIS operation?
					cause := "other"
					switch {
					case o.kind == 'T' && m.opExpiries[key]:
						cause = "hold-expired"
						// C06: when a hold ends by expiry its capacity is freed and queued requests are served exactly as after an unlock
						m.report("C06:queued-not-served-after-expiry", fmt.Sprintf("a hold of key %d ended with EXPRIED in this tick; the key is quiescent with locked=%d, holds=%v, and the head queued request %d (Count %d) is admissible but still queued", key, ks.locked, ks.holds, rq, ri.op.count))
					case o.kind == 'T' && m.opTimeouts[key]:
						cause = "waiter-timed-out"
					case o.kind == 'U' && o.key == key && o.flag&2 != 0 && len(m.reqs[o.req].terminal) == 1 && m.reqs[o.req].terminal[0].result == protocol_RESULT_LOCKED_ERROR:
						cause = "waiter-cancelled"
					case o.kind == 'L' && o.key == key && o.flag&2 != 0 && len(m.reqs[o.req].terminal) == 1 && m.reqs[o.req].terminal[0].result == protocol_RESULT_LOCKED_ERROR:
						cause = "count-raised-by-update"
					case o.kind == 'L' && o.key == key && len(m.reqs[o.req].terminal) == 1 && m.reqs[o.req].terminal[0].result == 0 && m.reqs[o.req].terminal[0].lrcount > 1:
						cause = "count-raised-by-relock"
					}
					m.report("C04:admissible-head-queued:"+cause, fmt.Sprintf("key %d is quiescent with locked=%d, holds=%v, and the head queued request %d (Count %d) is admissible but still queued after %s (cause: %s)", key, ks.locked, ks.holds, rq, ri.op.count, o.String(), cause))
				}
				m.headAdm[key] = adm
			}
			// C05 not-late
			for _, w := range ks.waits {
				fmt.Sscanf(strings.ReplaceAll(w, ".", " "), "%d %d %d", &id, &rq, &tt)
				if now >= tt+2 {
					m.report("C05:late", fmt.Sprintf("request %d is still queued at %d, its timeout deadline was %d", rq, now, tt))
				}
				if now >= tt+3 {
					// C03 reads the same fact from the requester's side: a request past its deadline that nobody will ever answer
					// (its timeout entry is gone) has no terminal reply; the drain would hide it by cancelling the request
					m.report("C03:unanswered-past-deadline", fmt.Sprintf("request %d has received no terminal reply at %d although its timeout deadline %d passed %d s ago and it is still queued", rq, now, tt, now-tt))
				}
			}
		}
	}
	// ---- C17: STATE counters equal the census
	st := x.v.counters()
	if int(st.LockedCount-x.v.base.LockedCount) != totalLocked {
		m.report("C17:lockedcount", fmt.Sprintf("LockedCount moved by %d during this run but %d holds are outstanding on its keys", int32(st.LockedCount-x.v.base.LockedCount), totalLocked))
	}
	if int(st.WaitCount-x.v.base.WaitCount) != totalWait {
		m.report("C17:waitcount", fmt.Sprintf("WaitCount moved by %d during this run but %d requests are queued on its keys", int32(st.WaitCount-x.v.base.WaitCount), totalWait))
	}
}

// drained: every hold released, every waiter answered.
func (m *vMonitor) drained(x *vRun) {
	if m.crashOnly {
		return // wild mode: replies may arrive on the executor goroutine; nothing but crashes is judged
	}
	for rq, ri := range m.reqs {
		if len(ri.terminal) != 1 {
			m.report("C03:terminal-reply-count", fmt.Sprintf("request %d (%s) has %d terminal replies after the drain: %v", rq, ri.op.String(), len(ri.terminal), ri.terminal))
		}
		if len(ri.expried) > 1 {
			m.report("C03:expried-twice", fmt.Sprintf("request %d drew %d EXPRIED notices", rq, len(ri.expried)))
		}
	}
	st := x.v.counters()
	if st.LockedCount != x.v.base.LockedCount || st.WaitCount != x.v.base.WaitCount {
		m.report("C17:not-zero-after-drain", fmt.Sprintf("after the drain LockedCount moved by %d and WaitCount by %d", int32(st.LockedCount-x.v.base.LockedCount), int32(st.WaitCount-x.v.base.WaitCount)))
	}
}
