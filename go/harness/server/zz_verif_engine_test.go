package server

// E-seq: a real SLock + LockDB in-process, MemWaiterServerProtocol clients with a result callback,
// VIRTUAL clock (background sweepers parked; the harness advances currentTime and calls the sweep
// functions itself). Every operation runs to completion before the next one starts.

import (
	"fmt"
	"math/rand"
	"os"
	"sort"
	"strings"
	"sync"
	"testing"
	"time"

	"github.com/jessevdk/go-flags"
	"github.com/snower/slock/protocol"
)

type vReply struct {
	conn, req, result, lcount, lrcount, lockId, count, rcount, key int
	data                                                           []byte
}

type vSeq struct {
	slock     *SLock
	db        *LockDB
	conns     []*MemWaiterServerProtocol
	connIdx   map[*MemWaiterServerProtocol]int
	replies   []vReply
	rmu       sync.Mutex // guards replies / onReply (the reply callback may run on the engine's executor goroutine)
	tq, eq    []*LockQueue
	base      protocol.LockDBState
	dir       string
	onReply   func(r vReply)
	expectNow int64
}

func vId16(n int) [16]byte {
	var b [16]byte
	b[0], b[1], b[2], b[3] = byte(n), byte(n>>8), byte(n>>16), byte(n>>24)
	return b
}

func vInt16(b [16]byte) int {
	return int(b[0]) | int(b[1])<<8 | int(b[2])<<16 | int(b[3])<<24
}

// vFastPark: create the LockDB while the node state is CLOSE, so that the four background loops see CLOSE at their first
// check and exit at once (used by replay / shrinking, where one instance per candidate is needed). The virtual-clock guard
// in tick() would notice a loop that survived.
var vFastPark = false

func vNewSeq(nconn int, aofTime uint8) *vSeq {
	dir, err := os.MkdirTemp(os.Getenv("VERIF_DATA"), "seq")
	if err != nil {
		panic(err)
	}
	cfg := &ServerConfig{}
	parse := flags.NewParser(cfg, flags.Default)
	if _, err := parse.ParseArgs([]string{"--data_dir", dir, "--db_concurrent", "1", "--db_fast_key_count", "64", "--log_level", "ERROR", "--log", dir + "/slock.log"}); err != nil {
		panic(err)
	}
	logger, _ := InitLogger(cfg)
	s := NewSLock(cfg, logger)
	s.aof.dataDir = dir
	var db *LockDB
	if vFastPark {
		s.state = STATE_CLOSE
		db = NewLockDB(s, 0)
		s.dbs[0] = db
		time.Sleep(40 * time.Millisecond)
		s.state = STATE_LEADER
	} else {
		s.state = STATE_LEADER
		db = NewLockDB(s, 0)
		s.dbs[0] = db
		// park the four background loops, then take over the clock
		db.status = STATE_CLOSE
		time.Sleep(1250 * time.Millisecond)
	}
	db.status = STATE_LEADER
	db.aofTime = aofTime
	v := &vSeq{slock: s, db: db, connIdx: map[*MemWaiterServerProtocol]int{}, dir: dir}
	for i := 0; i < nconn; i++ {
		c := NewMemWaiterServerProtocol(s)
		v.connIdx[c] = i + 1
		_ = c.SetResultCallback(func(p *MemWaiterServerProtocol, cmd *protocol.LockCommand, result uint8, lcount uint16, lrcount uint8, data []byte) error {
			rp := vReply{conn: v.connIdx[p], req: vInt16(cmd.RequestId), result: int(result), lcount: int(lcount), lrcount: int(lrcount), lockId: vInt16(cmd.LockId), count: int(cmd.Count), rcount: int(cmd.Rcount), key: vInt16(cmd.LockKey), data: data}
			v.rmu.Lock() // (flags of the excluded subset make the engine answer from its executor goroutine as well)
			v.replies = append(v.replies, rp)
			cb := v.onReply
			v.rmu.Unlock()
			if cb != nil {
				cb(rp)
			}
			return nil
		})
		v.conns = append(v.conns, c)
	}
	v.tq = make([]*LockQueue, 5)
	v.eq = make([]*LockQueue, 5)
	for j := 0; j < 5; j++ {
		v.tq[j] = NewLockQueue(4, 16, 1024)
		v.eq[j] = NewLockQueue(4, 16, 1024)
	}
	v.setClock(1000000)
	return v
}

func (v *vSeq) setClock(now int64) {
	v.expectNow = now
	v.db.currentTime = now
	v.db.checkTimeoutTime = now + 1
	v.db.checkExpriedTime = now + 1
}

// tick: one second of server time, exactly what updateCurrentTime/checkTimeOut/checkExpried do for it.
func (v *vSeq) tick() {
	db := v.db
	if v.expectNow != 0 && db.currentTime != v.expectNow {
		panic(fmt.Sprintf("harness: the virtual clock was overwritten (%d, expected %d): a background sweeper is still alive", db.currentTime, v.expectNow))
	}
	now := db.currentTime + 1
	v.expectNow = now
	db.currentTime = now
	c := db.checkTimeoutTime
	db.checkTimeoutTime = now + 1
	for ; c <= now; c++ {
		db.checkTimeTimeOut(c, now, 0, v.tq)
	}
	c = db.checkExpriedTime
	db.checkExpriedTime = now + 1
	for ; c <= now; c++ {
		db.checkTimeExpried(c, now, 0, v.eq)
	}
}

// vRoleOf: the role op's argument -> LockDB.status. 1 = leader; every other value is a node that is NOT the leader, in one of its states
// (the model only knows leader / not leader: C10 demands the same behaviour of all of them).
func vRoleOf(arg int) uint8 {
	switch arg {
	case 1:
		return STATE_LEADER
	case 2:
		return STATE_SYNC
	case 3:
		return STATE_CONFIG
	case 4:
		return STATE_VOTE
	case 5:
		return STATE_INIT
	}
	return STATE_FOLLOWER
}

func vNonLeaderArg(r *rand.Rand) int {
	return []int{0, 0, 0, 2, 2, 3, 4, 5}[r.Intn(8)]
}

type vOp struct {
	kind                                                                             byte // L U T R S
	req, conn, flag, lockId, key, tflag, timeout, eflag, expried, count, rcount, arg int
}

func (o vOp) String() string {
	switch o.kind {
	case 'U':
		return fmt.Sprintf("U %d %d %d %d %d %d %d %d %d %d %d %d", o.req, o.conn, o.flag, o.lockId, o.key, o.tflag, o.timeout, o.eflag, o.expried, o.count, o.rcount, o.arg)
	case 'L':
		return fmt.Sprintf("%c %d %d %d %d %d %d %d %d %d %d %d", o.kind, o.req, o.conn, o.flag, o.lockId, o.key, o.tflag, o.timeout, o.eflag, o.expried, o.count, o.rcount)
	case 'R':
		return fmt.Sprintf("R %d", o.arg)
	}
	return string(o.kind)
}

func (v *vSeq) takeReplies() string {
	v.rmu.Lock()
	defer v.rmu.Unlock()
	if len(v.replies) == 0 {
		return "-"
	}
	s := make([]string, len(v.replies))
	for i, r := range v.replies {
		s[i] = fmt.Sprintf("%d:%d:%d:%d:%d:%d:%d:%d", r.conn, r.req, r.result, r.lcount, r.lrcount, r.lockId, r.count, r.rcount)
	}
	v.replies = v.replies[:0]
	return strings.Join(s, ",")
}

func (v *vSeq) counters() protocol.LockDBState {
	var st protocol.LockDBState
	for _, s := range v.db.states {
		st.LockCount += s.LockCount
		st.UnLockCount += s.UnLockCount
		st.LockedCount += s.LockedCount
		st.WaitCount += s.WaitCount
		st.TimeoutedCount += s.TimeoutedCount
		st.ExpriedCount += s.ExpriedCount
		st.UnlockErrorCount += s.UnlockErrorCount
		st.KeyCount += s.KeyCount
	}
	return st
}

type vHoldSnap struct {
	lockId, depth, req, count int
	expT                      int64
	long                      bool
}

type vKeySnap struct {
	key, locked int
	waited      bool
	holds       []vHoldSnap
	waits       []string
	waitLong    []bool // per live waiter: its timeout entry sits in the long table
	data        []byte
	exists      bool
}

func (v *vSeq) keySnap(key int) vKeySnap {
	ks := vKeySnap{key: key}
	m := v.db.GetLockManager(&protocol.LockCommand{LockKey: vId16(key)})
	if m == nil {
		return ks
	}
	m.glock.Lock()
	defer m.glock.Unlock()
	if m.lockKey != vId16(key) {
		return ks
	}
	ks.exists = true
	ks.locked = int(m.locked)
	ks.waited = m.waited
	ks.data = m.GetLockData()
	add := func(l *Lock) {
		if l != nil && l.locked > 0 && l.command != nil {
			ks.holds = append(ks.holds, vHoldSnap{vInt16(l.command.LockId), int(l.locked), vInt16(l.command.RequestId), int(l.command.Count), l.expriedTime, l.longWaitIndex > 0})
		}
	}
	add(m.currentLock)
	if m.locks != nil {
		for _, node := range m.locks.IterNodes() {
			for _, l := range node {
				add(l)
			}
		}
	}
	if m.waitLocks != nil {
		for _, node := range m.waitLocks.IterNodes() {
			for _, l := range node {
				if l != nil && !l.timeouted && l.command != nil {
					ks.waits = append(ks.waits, fmt.Sprintf("%d.%d.%d", vInt16(l.command.LockId), vInt16(l.command.RequestId), l.timeoutTime))
					ks.waitLong = append(ks.waitLong, l.longWaitIndex > 0)
				}
			}
		}
	}
	return ks
}

func (v *vSeq) snapshot(keys []int) string {
	var parts []string
	sort.Ints(keys)
	for _, key := range keys {
		ks := v.keySnap(key)
		if !ks.exists || (ks.locked == 0 && !ks.waited && len(ks.holds) == 0 && len(ks.waits) == 0) {
			continue
		}
		hs := make([]string, len(ks.holds))
		for i, h := range ks.holds {
			e := fmt.Sprint(h.expT)
			if h.expT == 0x7fffffffffffffff {
				e = "inf"
			}
			hs[i] = fmt.Sprintf("%d.%d.%s.%d", h.lockId, h.depth, e, h.req)
		}
		w := 0
		if ks.waited {
			w = 1
		}
		parts = append(parts, fmt.Sprintf("k%d=%d/%d/[%s]/[%s]", key, ks.locked, w, strings.Join(hs, " "), strings.Join(ks.waits, " ")))
	}
	st := v.counters()
	b := v.base
	return strings.Join(parts, "|") + "|" + fmt.Sprintf("lc=%d uc=%d ld=%d wc=%d to=%d ex=%d ue=%d", st.LockCount-b.LockCount, st.UnLockCount-b.UnLockCount,
		st.LockedCount-b.LockedCount, st.WaitCount-b.WaitCount, st.TimeoutedCount-b.TimeoutedCount, st.ExpriedCount-b.ExpriedCount, st.UnlockErrorCount-b.UnlockErrorCount)
}

func (v *vSeq) apply(o vOp, keys []int) string {
	switch o.kind {
	case 'L', 'U':
		p := v.conns[o.conn-1]
		cmd := &protocol.LockCommand{Command: protocol.Command{Magic: protocol.MAGIC, Version: protocol.VERSION, CommandType: protocol.COMMAND_LOCK, RequestId: vId16(o.req)},
			Flag: uint8(o.flag), DbId: 0, LockId: vId16(o.lockId), LockKey: vId16(o.key), TimeoutFlag: uint16(o.tflag), Timeout: uint16(o.timeout),
			ExpriedFlag: uint16(o.eflag), Expried: uint16(o.expried), Count: uint16(o.count), Rcount: uint8(o.rcount)}
		if o.kind == 'U' {
			cmd.CommandType = protocol.COMMAND_UNLOCK
		}
		_ = p.ProcessLockCommand(cmd)
		return v.takeReplies()
	case 'T':
		v.tick()
		return v.takeReplies()
	case 'R':
		v.db.status = vRoleOf(o.arg)
		return "-"
	case 'S':
		return v.snapshot(keys)
	}
	return "?"
}

// ---------------------------------------------------------------------------------------------
// generator

func vPick(r *rand.Rand, vals []int, weights []int) int {
	t := 0
	for _, w := range weights {
		t += w
	}
	x := r.Intn(t)
	for i, w := range weights {
		if x < w {
			return vals[i]
		}
		x -= w
	}
	return vals[0]
}

type vGen struct {
	r       *rand.Rand
	nextReq int
	keyBase int
	keyStep int // distance between the keys of one sequence: 1, or the fast-table size (all keys of the sequence share one fast slot)
	nkeys   int
	nids    int
	nconn   int
	profile int
	hint    func(key int) (vHoldSnap, int64, bool) // a live hold of the key and the current time (long-lived profile)
	statf   func(string)
	whint   func(key int) (int, bool, bool) // LockId of a live queued request of the key, whether it is in the long table
}

func (g *vGen) step() int {
	if g.keyStep <= 0 {
		return 1
	}
	return g.keyStep
}

// vKeyStep: one sequence in three puts its keys into the SAME slot of the lock-free fast key table (GetOrNewLockManager's
// fastHash % fastKeyCount), so that the slow path (map under mGlock) and slot hand-over between keys are exercised.
func vKeyStep(r *rand.Rand, db *LockDB) int {
	if r.Intn(3) == 0 && db.fastKeyCount > 1 {
		return int(db.fastKeyCount)
	}
	return 1
}

func (g *vGen) lockOp() vOp {
	r := g.r
	o := vOp{kind: 'L', req: g.nextReq, conn: 1 + r.Intn(g.nconn), lockId: 1 + r.Intn(g.nids), key: g.keyBase + g.step()*r.Intn(g.nkeys)}
	g.nextReq++
	o.flag = vPick(r, []int{0, 1, 2, 3, 8, 34, 35}, []int{68, 6, 9, 4, 10, 2, 1}) // 34/35: update carrying the contains-data flag (no frame: stage 1 has no value cell)
	o.tflag = vPick(r, []int{0, 0x40, 0x10, 0x200, 0x210, 0x2000}, []int{62, 4, 16, 10, 4, 4})
	o.timeout = vPick(r, []int{0, 1, 2, 3, 5, 9, 12, 20, 65535}, []int{25, 12, 12, 10, 12, 10, 8, 9, 2})
	if o.tflag&0x40 != 0 {
		o.timeout = vPick(r, []int{0, 1, 2, 1092, 1093, 1100, 65535}, []int{2, 5, 3, 1, 1, 1, 1})
	}
	o.eflag = vPick(r, []int{0, 0x40, 0x4000, 0x2000}, []int{80, 4, 10, 6})
	o.expried = vPick(r, []int{0, 1, 2, 3, 5, 8, 10, 15, 30, 120, 65535}, []int{8, 10, 12, 12, 12, 10, 10, 10, 8, 6, 2})
	if o.eflag&0x40 != 0 {
		o.expried = vPick(r, []int{0, 1, 2, 1092, 1093, 1100, 65535}, []int{1, 6, 3, 1, 1, 1, 1})
	}
	o.count = vPick(r, []int{0, 1, 2, 3, 0xffff}, []int{40, 22, 18, 14, 6})
	o.rcount = vPick(r, []int{0, 1, 2, 3, 255}, []int{45, 20, 15, 12, 8})
	if o.tflag&0x10 != 0 && o.tflag&0x200 != 0 && o.rcount == 0 {
		o.rcount = 1 // see DESIGN: the real outcome for priority 0 here depends on allocation history of the recycled manager
	}
	if g.profile == 1 { // capacity-heavy: many holders
		o.count = vPick(r, []int{2, 3, 5, 0xffff}, []int{30, 30, 30, 10})
		o.lockId = 1 + r.Intn(g.nids*3)
	}
	if g.profile == 3 { // long-lived: holds and waits that migrate to the long tables (> 8 re-checks ≈ 44 s), then re-locks / updates
		o.flag = vPick(r, []int{0, 2, 3}, []int{60, 30, 10})
		o.tflag = vPick(r, []int{0, 0x10, 0x2000}, []int{80, 10, 10})
		o.eflag = vPick(r, []int{0, 0x2000, 0x4000}, []int{85, 10, 5})
		o.timeout = vPick(r, []int{0, 50, 60, 90, 200}, []int{30, 20, 20, 20, 10})
		o.expried = vPick(r, []int{50, 60, 100, 120, 300}, []int{20, 20, 25, 25, 10})
		o.count = vPick(r, []int{0, 1, 2}, []int{30, 40, 30})
		o.rcount = vPick(r, []int{0, 3, 255}, []int{20, 40, 40})
		o.lockId = 1 + r.Intn(3)
		if g.hint != nil && r.Intn(100) < 60 {
			// aim at an existing hold: same LockId, and an expiry that lands on (or next to) its current deadline second
			if h, now, ok := g.hint(o.key); ok {
				if g.statf != nil {
					g.statf(fmt.Sprintf("hint-used(long=%v)", h.long))
				}
				o.lockId = h.lockId
				if h.expT != 0x7fffffffffffffff && h.expT > now+1 {
					d := int(h.expT-now) - 1 + vPick(r, []int{0, 0, 1, -1, 7, -7}, []int{40, 20, 10, 10, 10, 10})
					if d > 0 && d < 65535 {
						o.expried = d
						o.eflag &^= 0x4040
					}
				}
			}
		}
	}
	if g.profile != 9 {
		// keep-alive bits: the harness' connections have no stream, so "the connection still lives" is never true — the request /
		// hold must behave exactly as without the bit (on a follower too: the replicated-hold rule comes first)
		if r.Intn(100) < 6 {
			o.tflag |= 0x8000
		}
		if r.Intn(100) < 6 {
			o.eflag |= 0x8000
		}
	}
	if g.profile == 9 { // wild: every flag bit (less-lock-version, reverse-key, keep-alive, tree lock, from-aof, …) except the millisecond
		// units (real time) and require-ack (needs the ack machinery); judged for crashes and hangs only
		// (also not the journal-at-once expiry flags 0x0100 / 0x1000: this instance's Aof is not initialised the way a server's is, and a
		// rotation + compaction goroutine started from here is not the engine under test)
		o.flag = r.Intn(256)
		o.tflag = r.Intn(65536) &^ (0x0400 | 0x1000)
		o.eflag = r.Intn(65536) &^ (0x0400 | 0x0100 | 0x1000)
		if r.Intn(2) == 0 { // few bits at a time as well
			o.tflag = 1 << uint(r.Intn(16)) &^ (0x0400 | 0x1000)
			o.eflag = 1 << uint(r.Intn(16)) &^ (0x0400 | 0x0100 | 0x1000)
			o.flag = []int{0, 0, 1, 2, 8, 16}[r.Intn(6)]
			if r.Intn(3) == 0 {
				o.tflag |= 0x0200
			}
		}
	}
	if g.profile == 2 { // queue-heavy: exclusive locks, long waits, priorities
		o.count = vPick(r, []int{0, 1}, []int{80, 20})
		o.timeout = vPick(r, []int{3, 5, 9, 20, 60}, []int{20, 20, 20, 20, 20})
		o.tflag = vPick(r, []int{0, 0x10}, []int{60, 40})
		o.flag = 0
		o.lockId = 1 + r.Intn(g.nids*4)
	}
	return o
}

func (g *vGen) unlockOp() vOp {
	r := g.r
	o := vOp{kind: 'U', req: g.nextReq, conn: 1 + r.Intn(g.nconn), lockId: 1 + r.Intn(g.nids), key: g.keyBase + g.step()*r.Intn(g.nkeys)}
	g.nextReq++
	o.flag = vPick(r, []int{0, 1, 2, 3}, []int{70, 12, 12, 6})
	o.rcount = vPick(r, []int{0, 1, 2}, []int{50, 40, 10})
	o.tflag = vPick(r, []int{0, 0x10}, []int{92, 8})
	if g.profile != 0 {
		o.lockId = 1 + r.Intn(g.nids*3)
	}
	if g.profile == 3 && g.whint != nil && r.Intn(100) < 55 {
		// long-lived profile: cancel a queued request (preferably one whose timeout entry has migrated to the long table)
		if id, long, ok := g.whint(o.key); ok {
			o.lockId = id
			o.flag = 2
			if g.statf != nil {
				g.statf(fmt.Sprintf("cancel-aimed-at-waiter(long=%v)", long))
			}
		}
	}
	return o
}

// vRun: one generated sequence executed adaptively (the ops are recorded as executed, so the model gets exactly them).
type vRun struct {
	v     *vSeq
	g     *vGen
	keys  []int
	ops   []vOp
	obs   []string
	times []int64 // virtual time at which op i ran
	mon   *vMonitor
}

func (x *vRun) do(o vOp) string {
	if o.kind == 'U' {
		// oracle bit: does the key record exist right now? (see Cmd.mgr in the model)
		if x.v.db.GetLockManager(&protocol.LockCommand{LockKey: vId16(o.key)}) != nil {
			o.arg = 1
		}
	}
	x.mon.before(x, o)
	if o.kind == 'L' || o.kind == 'U' {
		for _, h := range x.v.keySnap(o.key).holds {
			if h.lockId == o.lockId && h.long {
				x.mon.out.stat(fmt.Sprintf("%c-on-long-table-hold(flag=%d)", o.kind, o.flag&3))
			}
		}
	}
	ob := x.v.apply(o, append([]int{}, x.keys...))
	x.mon.out.stat("op-" + string(o.kind))
	if o.kind == 'T' {
		for _, key := range x.keys {
			for _, h := range x.v.keySnap(key).holds {
				if h.long {
					x.mon.out.stat(fmt.Sprintf("tick-with-long-table-hold(profile=%d)", x.g.profile))
				} else {
					x.mon.out.stat(fmt.Sprintf("tick-with-slot-hold(profile=%d)", x.g.profile))
				}
			}
		}
	}
	for _, rp := range strings.Split(ob, ",") {
		if f := strings.Split(rp, ":"); len(f) == 8 {
			x.mon.out.stat("reply-result-" + f[2])
		}
	}
	x.ops = append(x.ops, o)
	x.obs = append(x.obs, ob)
	x.times = append(x.times, x.v.db.currentTime)
	x.mon.after(x, o, ob)
	return ob
}

func (x *vRun) body(n int) {
	r := x.g.r
	leader := true
	for steps := 0; steps < n; steps++ { // a burst of ticks counts as one step
		c := r.Intn(100)
		if !leader && c < 40 {
			c = 99 // do not linger in a non-leader role
		}
		if x.g.profile == 3 && c < 97 {
			// long-lived profile: few unlocks, long stretches of time
			c = vPick(r, []int{10, 60, 80, 95}, []int{36, 12, 47, 5})
		}
		switch {
		case c < 48:
			x.do(x.g.lockOp())
		case c < 74:
			x.do(x.g.unlockOp())
		case c < 92:
			k := vPick(r, []int{1, 2, 3, 6, 11, 17}, []int{50, 20, 12, 8, 6, 4})
			if x.g.profile == 3 {
				k = vPick(r, []int{1, 5, 12, 25, 47, 61}, []int{20, 20, 20, 15, 15, 10})
			}
			for i := 0; i < k; i++ {
				x.do(vOp{kind: 'T'})
			}
		case c < 97:
			x.do(vOp{kind: 'S'})
		default:
			leader = !leader
			a := vNonLeaderArg(r)
			if leader {
				a = 1
			}
			x.do(vOp{kind: 'R', arg: a})
		}
	}
	if !leader {
		x.do(vOp{kind: 'R', arg: 1})
	}
	x.do(vOp{kind: 'S'})
}

// drain: release every hold, cancel every queued request (adaptively, from the real state), final snapshot.
func (x *vRun) drain() {
	for _, key := range x.keys {
		for i := 0; i < 400; i++ {
			ks := x.v.keySnap(key)
			if len(ks.holds) == 0 && len(ks.waits) == 0 {
				break
			}
			if len(ks.holds) > 0 {
				x.do(vOp{kind: 'U', req: x.g.nextReq, conn: 1, flag: 1, lockId: 99999, key: key})
				x.g.nextReq++
				continue
			}
			var id, rq int
			var tt int64
			fmt.Sscanf(strings.ReplaceAll(ks.waits[0], ".", " "), "%d %d %d", &id, &rq, &tt)
			x.do(vOp{kind: 'U', req: x.g.nextReq, conn: 1, flag: 2, lockId: id, key: key})
			x.g.nextReq++
		}
	}
	x.do(vOp{kind: 'S'})
	x.mon.drained(x)
}

func vEngineRun(t *testing.T, mode string, profileOf func(i int) int, opsPer int) {
	r := rand.New(rand.NewSource(int64(vEnvInt("VERIF_SEED", 1))))
	n := vEnvInt("VERIF_N", 100)
	out := vOpen(mode)
	defer out.close()
	v := vNewSeq(3, 0xff)
	g := &vGen{r: r, nextReq: 1, nconn: 3}
	keyCount0 := v.counters().KeyCount
	for it := 0; it < n; it++ {
		g.profile = profileOf(it)
		g.nkeys = 1 + r.Intn(2)
		g.nids = 2 + r.Intn(3)
		g.keyBase = 10 * (it + 1)
		g.keyStep = vKeyStep(r, v.db)
		if g.keyStep > 1 {
			g.nkeys = 2 + r.Intn(2)
			out.stat("keys-share-fast-slot")
		}
		x := &vRun{v: v, g: g}
		for k := 0; k < g.nkeys; k++ {
			x.keys = append(x.keys, g.keyBase+k*g.step())
		}
		x.mon = vNewMonitor(out, x)
		x.mon.crashOnly = g.profile == 9
		g.statf = out.stat
		g.whint = func(key int) (int, bool, bool) {
			ks := v.keySnap(key)
			if len(ks.waits) == 0 {
				return 0, false, false
			}
			pick := r.Intn(len(ks.waits))
			for i, l := range ks.waitLong {
				if l && r.Intn(3) != 0 {
					pick = i
					break
				}
			}
			var id, rq int
			var tt int64
			fmt.Sscanf(strings.ReplaceAll(ks.waits[pick], ".", " "), "%d %d %d", &id, &rq, &tt)
			return id, ks.waitLong[pick], true
		}
		g.hint = func(key int) (vHoldSnap, int64, bool) {
			ks := v.keySnap(key)
			if len(ks.holds) == 0 {
				return vHoldSnap{}, 0, false
			}
			for _, h := range ks.holds {
				if h.long && r.Intn(4) != 0 {
					return h, v.db.currentTime, true
				}
			}
			return ks.holds[r.Intn(len(ks.holds))], v.db.currentTime, true
		}
		v.base = v.counters()
		v.rmu.Lock()
		v.onReply = x.mon.onReply
		v.rmu.Unlock()
		now0 := v.db.currentTime
		bad := ""
		done := make(chan struct{})
		nops := opsPer/2 + r.Intn(opsPer)
		go func() {
			defer func() {
				if e := recover(); e != nil {
					bad = fmt.Sprintf("panic: %v", e)
				}
				close(done)
			}()
			x.body(nops)
			x.drain()
		}()
		select {
		case <-done:
		case <-time.After(30 * time.Second):
			bad = "hang"
		}
		strs := make([]string, len(x.ops))
		for i, o := range x.ops {
			strs[i] = o.String()
		}
		line := fmt.Sprintf("engine %d %s", now0, strings.Join(strs, ";"))
		x.mon.line = line
		if g.profile == 9 {
			line = "# wild " + line
		}
		if bad != "" {
			if g.profile == 9 {
				out.emit(line, line)
			} else {
				out.emit(line, strings.Join(x.obs, ";")+";"+bad)
			}
			out.monitor("C13:engine-"+strings.Fields(bad)[0], "the real engine "+bad+" during a sequential operation sequence", map[string]string{"ops": line})
			v = vNewSeq(3, 0xff) // the old instance may hold a shard mutex
			keyCount0 = v.counters().KeyCount
			continue
		}
		if g.profile == 9 {
			out.emit(line, line) // not a model line
		} else {
			out.emit(line, strings.Join(x.obs, ";"))
		}
		x.mon.flush()
		// let the dead wheel entries of this sequence be swept, then every key record must be gone again
		v.rmu.Lock()
		v.onReply = nil
		v.rmu.Unlock()
		for i := 0; i < 18; i++ {
			v.tick()
		}
		v.rmu.Lock()
		v.replies = v.replies[:0]
		v.rmu.Unlock()
		if kc := v.counters().KeyCount; kc != keyCount0 {
			out.monitor("C17:keycount-after-drain", fmt.Sprintf("KeyCount is %d (baseline %d) after every hold was released, every waiter answered and 18 s passed", kc, keyCount0), map[string]string{"ops": line})
			keyCount0 = kc
		}
	}
}

func init() {
	vModes["enginewild"] = func(t *testing.T) {
		vEngineRun(t, "enginewild", func(i int) int { return 9 }, vEnvInt("VERIF_OPS", 40))
	}
	vModes["engine"] = func(t *testing.T) {
		vEngineRun(t, "engine", func(i int) int { return []int{0, 0, 1, 2, 3}[i%5] }, vEnvInt("VERIF_OPS", 40))
	}
}
