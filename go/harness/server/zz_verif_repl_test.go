package server

import (
	"bufio"
	"fmt"
	"io"
	"math/rand"
	"os"
	"sort"
	"strconv"
	"strings"
	"testing"
	"unsafe"
)

// C09 — the replication ring buffer (ReplicationBufferQueue + cursor) against (a) the Lean model M-REPL (differential:
// every observation is recomputed by `slockmodel`) and (b) a plain reference (slice of pushed records + per-cursor
// index of the last record obtained) that evaluates the property itself on the real code (monitor).
//
// One line per case:  replq <initial size> <max size> <op>;<op>;…      (syntax: lean/Driver/Repl.lean)
// Mode "repl" generates seeded cases; mode "replreplay" runs the lines of the file $VERIF_REPLAY.

type vReplRec struct {
	id   int
	dlen int
}

type vReplCur struct {
	c     *ReplicationBufferQueueCursor
	pos   int  // ordinal of the last record this cursor obtained (Pop/Head/Search), -1 = none yet
	added bool // AddPoll done, RemovePoll not yet
}

type vRepl struct {
	out      *vOut
	head     string
	q        *ReplicationBufferQueue
	sids     map[*ReplicationBufferQueueItem]int
	pushed   []vReplRec
	curs     map[int]*vReplCur
	ops, obs []string
	panicked bool
	staleAdd bool // an AddPoll was applied to a cursor whose item was in the free list (root cause tag for the monitor)
}

func vReplBuf(id, ord int) []byte {
	b := make([]byte, 64)
	b[0], b[1], b[2] = 0xa5, 0x09, 0x5a
	for i := 0; i < 8; i++ {
		b[3+i] = byte(uint64(id) >> (8 * uint(i)))
		b[19+i] = byte(uint64(ord) >> (8 * uint(i)))
	}
	return b
}

func vReplLE(b []byte) int {
	n := uint64(0)
	for i := 7; i >= 0; i-- {
		n = n<<8 | uint64(b[i])
	}
	return int(n)
}

func vReplId(b []byte) int  { return vReplLE(b[3:11]) }
func vReplOrd(b []byte) int { return vReplLE(b[19:27]) }

func vReplAofId(id int) [16]byte {
	var a [16]byte
	for i := 0; i < 8; i++ {
		a[i] = byte(uint64(id) >> (8 * uint(i)))
	}
	return a
}

// assignSids gives every item not seen before the next identities, in allocation (address) order within a batch.
func (v *vRepl) assignSids() {
	var fresh []*ReplicationBufferQueueItem
	lim := len(v.sids) + 100000
	for it, n := v.q.freeTailItem, 0; it != nil && n < lim; it, n = it.nextItem, n+1 {
		if _, ok := v.sids[it]; !ok {
			fresh = append(fresh, it)
		}
	}
	for it, n := v.q.tailItem, 0; it != nil && n < lim; it, n = it.nextItem, n+1 {
		if _, ok := v.sids[it]; !ok {
			fresh = append(fresh, it)
		}
	}
	sort.Slice(fresh, func(i, j int) bool {
		return uintptr(unsafe.Pointer(fresh[i])) < uintptr(unsafe.Pointer(fresh[j]))
	})
	for _, it := range fresh {
		v.sids[it] = len(v.sids)
	}
}

func (v *vRepl) state() string {
	q := v.q
	var l, f []string
	lim := len(v.sids) + 10
	for it, n := q.tailItem, 0; it != nil && n < lim; it, n = it.nextItem, n+1 {
		l = append(l, fmt.Sprintf("%d,%d,%d,%d,%d", v.sids[it], it.seq, it.pollCount, it.pollIndex, len(it.data)))
	}
	for it, n := q.freeTailItem, 0; it != nil && n < lim; it, n = it.nextItem, n+1 {
		f = append(f, fmt.Sprintf("%d,%d,%d,%d", v.sids[it], it.seq, it.pollCount, it.pollIndex))
	}
	return fmt.Sprintf("%d.%d.%d.%d.%d/L%s/F%s", q.seq, q.usedBufferSize, q.bufferSize, q.pollCount, q.dupCount,
		strings.Join(l, "|"), strings.Join(f, "|"))
}

// bufOrds: ordinals of the records physically linked in the buffer, oldest first (decoded from the items' bytes).
func (v *vRepl) bufOrds() []int {
	var r []int
	lim := len(v.sids) + 10
	for it, n := v.q.tailItem, 0; it != nil && n < lim; it, n = it.nextItem, n+1 {
		r = append(r, vReplOrd(it.buf))
	}
	return r
}

func vReplShow(c *ReplicationBufferQueueCursor) string {
	return fmt.Sprintf("ok:%d:%d:%d:%d", vReplId(c.buf), vReplOrd(c.buf), len(c.data), c.seq)
}

func (v *vRepl) line() string { return v.head + strings.Join(v.ops, ";") }

func (v *vRepl) mon(sig, what string) {
	if v.staleAdd && strings.HasPrefix(sig, "C09:") {
		sig += ":stale-addpoll"
		what += " [earlier in this case AddPoll was applied to a cursor whose item had been recycled into the free list]"
	}
	v.out.monitor(sig, what, map[string]string{"ops": v.line(), "impl": strings.Join(v.obs, ";")})
}

func vNewRepl(out *vOut, bs, ms int) *vRepl {
	v := &vRepl{out: out, head: fmt.Sprintf("replq %d %d ", bs, ms), sids: map[*ReplicationBufferQueueItem]int{}, curs: map[int]*vReplCur{}}
	func() {
		defer func() {
			if e := recover(); e != nil {
				v.panicked = true
			}
		}()
		v.q = NewReplicationBufferQueue(nil, uint64(bs), uint64(ms))
	}()
	if !v.panicked {
		v.assignSids()
	}
	return v
}

func vReplErr(err error, c *ReplicationBufferQueueCursor, other string) string {
	switch {
	case err == nil:
		return vReplShow(c)
	case err == io.EOF:
		return "eof"
	}
	return other
}

// exec runs one op on the real queue (under recover), records the observation and evaluates the monitors.
func (v *vRepl) exec(op string) {
	t := strings.Split(op, ":")
	arg := func(i int) int {
		if i < len(t) {
			n, _ := strconv.Atoi(t[i])
			return n
		}
		return 0
	}
	var cu *vReplCur
	if t[0] != "push" && t[0] != "st" && t[0] != "cursor" {
		cu = v.curs[arg(1)]
		if cu == nil {
			v.ops, v.obs = append(v.ops, op), append(v.obs, "nocursor")
			return
		}
	}
	bo := v.bufOrds()
	tailOrd := len(v.pushed)
	bufd := map[int]bool{}
	for _, o := range bo {
		bufd[o] = true
	}
	if len(bo) > 0 {
		tailOrd = bo[0]
	}
	res := ""
	v.ops = append(v.ops, op)
	func() {
		defer func() {
			if e := recover(); e != nil {
				res = "panic"
				v.panicked = true
			}
		}()
		switch t[0] {
		case "push":
			var data []byte
			if arg(3) > 0 {
				data = make([]byte, arg(3))
			}
			if err := v.q.Push(vReplBuf(arg(1), arg(2)), data); err != nil {
				res = "err"
			} else {
				res = "ok"
			}
		case "cursor":
			v.curs[arg(1)] = &vReplCur{c: NewReplicationBufferQueueCursor(make([]byte, 64)), pos: -1}
			res = "ok"
		case "add":
			if cu.c.currentItem != nil {
				for it, k := v.q.freeTailItem, 0; it != nil && k < len(v.sids)+10; it, k = it.nextItem, k+1 {
					if it == cu.c.currentItem {
						v.staleAdd = true
					}
				}
			}
			v.q.AddPoll(cu.c)
			cu.added = true
			res = "ok"
		case "rm":
			v.q.RemovePoll(cu.c)
			cu.added = false
			res = "ok"
		case "ack": // SendProcess after writing the cursor's item
			if cu.c.writed {
				res = "noop"
			} else {
				cu.c.writed = true
				cu.c.currentItem.pollIndex++
				res = "ok"
			}
		case "pop":
			res = vReplErr(v.q.Pop(cu.c), cu.c, "oob")
		case "head":
			res = vReplErr(v.q.Head(cu.c), cu.c, "oob")
		case "search":
			res = vReplErr(v.q.Search(vReplAofId(arg(2)), cu.c), cu.c, "nf")
		case "st":
			res = v.state()
		default:
			res = "bad-op"
		}
	}()
	v.obs = append(v.obs, res)
	if v.panicked {
		v.mon("C09:panic:"+t[0], fmt.Sprintf("%s panics on the real ReplicationBufferQueue", op))
		return
	}
	n := arg(1)
	switch t[0] {
	case "push":
		v.pushed = append(v.pushed, vReplRec{arg(1), arg(3)})
		v.assignSids()
		nb := v.bufOrds()
		for i, o := range nb {
			if o != len(v.pushed)-len(nb)+i {
				v.mon("C09:buffer-not-contiguous", fmt.Sprintf("after push #%d the buffer links records %v", len(v.pushed)-1, nb))
				break
			}
		}
	case "pop":
		switch {
		case strings.HasPrefix(res, "ok:"):
			o := vReplOrd(cu.c.buf)
			good := o >= 0 && o < len(v.pushed) && bufd[o] && v.pushed[o].id == vReplId(cu.c.buf) && v.pushed[o].dlen == len(cu.c.data) && cu.c.seq == uint64(o)
			if !good {
				v.mon("C09:gap-or-dup", fmt.Sprintf("cursor %d (last obtained #%d) popped %s, which is not a record currently linked in the buffer with its seq (pushed so far: %d, oldest buffered #%d)", n, cu.pos, res, len(v.pushed), tailOrd))
			} else if cu.pos >= 0 && o != cu.pos+1 {
				if cu.pos+1 < tailOrd {
					v.mon("C09:skipped-silently", fmt.Sprintf("cursor %d had obtained record #%d; #%d has left the buffer (oldest buffered #%d) but Pop returned record #%d instead of an error", n, cu.pos, cu.pos+1, tailOrd, o))
				} else {
					v.mon("C09:gap-or-dup", fmt.Sprintf("cursor %d had obtained record #%d and popped record #%d (not its successor)", n, cu.pos, o))
				}
			}
			cu.pos = o
		case res == "eof":
			if len(bo) > 0 && ((cu.pos < 0) || (cu.pos+1 < len(v.pushed) && cu.pos+1 >= tailOrd)) {
				v.mon("C09:eof-with-pending", fmt.Sprintf("cursor %d (last obtained #%d) got EOF although record #%d is buffered (pushed %d, oldest buffered #%d)", n, cu.pos, cu.pos+1, len(v.pushed), tailOrd))
			} else if cu.pos >= 0 && cu.pos+1 < tailOrd {
				v.mon("C09:overtaken-no-error", fmt.Sprintf("cursor %d (last obtained #%d) was overtaken (oldest buffered #%d) and got EOF instead of an error", n, cu.pos, tailOrd))
			}
		case res == "oob":
			if cu.pos < 0 || cu.pos >= tailOrd {
				// not a violation of C09 (the follower is resynchronised needlessly); recorded for the report
				v.mon("INFO-C09:spurious-out-of-buf", fmt.Sprintf("cursor %d (last obtained #%d) got \"out of buf\" although that record is still in the buffer (oldest buffered #%d, pushed %d)", n, cu.pos, tailOrd, len(v.pushed)))
			}
		}
	case "head":
		if strings.HasPrefix(res, "ok:") {
			o := vReplOrd(cu.c.buf)
			if o != len(v.pushed)-1 || v.pushed[o].id != vReplId(cu.c.buf) || cu.c.seq != uint64(o) {
				v.mon("C09:head-wrong", fmt.Sprintf("Head returned %s but the newest record is #%d", res, len(v.pushed)-1))
			}
			cu.pos = o
		} else if len(v.pushed) > 0 {
			v.mon("C09:head-wrong", fmt.Sprintf("Head returned %s although %d records were pushed", res, len(v.pushed)))
		}
	case "search":
		id := arg(2)
		want := -1 // oldest buffered record with that id
		for _, o := range bo {
			if o >= 0 && o < len(v.pushed) && v.pushed[o].id == id {
				want = o
				break
			}
		}
		if strings.HasPrefix(res, "ok:") {
			o := vReplOrd(cu.c.buf)
			if o != want || vReplId(cu.c.buf) != id || cu.c.seq != uint64(o) || len(cu.c.data) != v.pushed[o].dlen {
				v.mon("C09:search-wrong", fmt.Sprintf("Search(%d) returned %s; the oldest buffered record with that id is #%d", id, res, want))
			}
			cu.pos = o
		} else if want >= 0 {
			v.mon("C09:search-wrong", fmt.Sprintf("Search(%d) returned %s although record #%d with that id is buffered", id, res, want))
		}
	}
}

// vReplCase generates and runs one case; returns the op line and the observation line.
func vReplCase(r *rand.Rand, out *vOut, nops int) (string, string) {
	sizes := []int{64, 128, 128, 192, 256, 256, 320, 640, 0, 100}
	bs := sizes[r.Intn(len(sizes))]
	ms := []int{bs, bs * 2, bs * 2, bs * 4, bs * 4, bs * 8, 64}[r.Intn(7)]
	v := vNewRepl(out, bs, ms)
	if v.panicked {
		return v.head, "panic"
	}
	profile := r.Intn(4) // 0 mixed, 1 push-heavy (overflow), 2 fast + slow cursors, 3 data-heavy (several records recycled by one push)
	nextId := 1
	dataP := []int{25, 10, 20, 60}[profile]
	pushW := []int{30, 55, 35, 35}[profile]
	pickCur := func() int {
		k := r.Intn(16) // skewed: cursor 0 is fast, higher numbers slower
		switch {
		case k < 8:
			return 0
		case k < 12:
			return 1
		case k < 15:
			return 2
		}
		return 3
	}
	for len(v.ops) < nops && !v.panicked {
		k := r.Intn(100)
		if len(v.curs) == 0 && k >= pushW {
			k = pushW
		}
		switch {
		case k < pushW:
			id := nextId
			if r.Intn(20) == 0 && nextId > 1 {
				id = 1 + r.Intn(nextId-1) // duplicate id
			} else {
				nextId++
			}
			dlen := 0
			if r.Intn(100) < dataP {
				dlen = 1 + r.Intn(200)
				if r.Intn(4) == 0 {
					dlen = 1 + r.Intn(3*bs+64)
				}
			}
			v.exec(fmt.Sprintf("push:%d:%d:%d", id, len(v.pushed), dlen))
		case k < pushW+4:
			n := pickCur()
			if len(v.curs) == 0 {
				n = 0
			}
			if old := v.curs[n]; old != nil && old.added {
				v.exec("rm:" + strconv.Itoa(n)) // a server channel is removed from the poll set before it is dropped
			}
			v.exec("cursor:" + strconv.Itoa(n))
			if r.Intn(3) != 0 && !v.panicked {
				v.exec("add:" + strconv.Itoa(n))
			}
		default:
			n := pickCur()
			cu := v.curs[n]
			if cu == nil {
				for _, c := range []int{0, 1, 2, 3} {
					if v.curs[c] != nil {
						n, cu = c, v.curs[c]
						break
					}
				}
			}
			if cu == nil {
				continue
			}
			ns := strconv.Itoa(n)
			bo := v.bufOrds()
			j := r.Intn(100)
			switch {
			case j < 55: // what SendProcess does: acknowledge the item in hand, then Pop
				if !cu.c.writed || r.Intn(10) == 0 {
					v.exec("ack:" + ns)
				}
				if !v.panicked {
					v.exec("pop:" + ns)
				}
			case j < 63:
				v.exec("pop:" + ns)
			case j < 70:
				v.exec("head:" + ns)
			case j < 85:
				id := 0 // present / evicted / never pushed
				switch r.Intn(4) {
				case 0:
					id = nextId + r.Intn(3)
				case 1:
					if len(bo) > 0 && bo[0] > 0 && bo[0] <= len(v.pushed) {
						id = v.pushed[r.Intn(bo[0])].id
					}
				default:
					if len(bo) > 0 {
						if o := bo[r.Intn(len(bo))]; o >= 0 && o < len(v.pushed) {
							id = v.pushed[o].id
						}
					} else {
						id = r.Intn(nextId + 1)
					}
				}
				v.exec(fmt.Sprintf("search:%s:%d", ns, id))
			case j < 92:
				if !cu.added {
					v.exec("add:" + ns)
				} else {
					v.exec("rm:" + ns)
				}
			default:
				v.exec("st")
			}
		}
	}
	if !v.panicked {
		v.exec("st")
	}
	return v.line(), strings.Join(v.obs, ";")
}

func init() {
	vModes["repl"] = func(t *testing.T) {
		out := vOpen("repl")
		defer out.close()
		r := rand.New(rand.NewSource(int64(vEnvInt("VERIF_SEED", 1))))
		n := vEnvInt("VERIF_N", 1000)
		nops := vEnvInt("VERIF_OPS", 70)
		for i := 0; i < n; i++ {
			k := nops
			if i%5 == 0 {
				k = nops * 3
			}
			op, obs := vReplCase(r, out, k)
			out.emit(op, obs)
		}
	}
	// replay of given lines (one `replq …` per line in $VERIF_REPLAY) on the real queue, same monitors
	vModes["replreplay"] = func(t *testing.T) {
		out := vOpen("replreplay")
		defer out.close()
		f, err := os.Open(os.Getenv("VERIF_REPLAY"))
		if err != nil {
			t.Fatal(err)
		}
		defer f.Close()
		sc := bufio.NewScanner(f)
		sc.Buffer(make([]byte, 1<<20), 1<<24)
		for sc.Scan() {
			tk := strings.Fields(sc.Text())
			if len(tk) < 3 || tk[0] != "replq" {
				continue
			}
			bs, _ := strconv.Atoi(tk[1])
			ms, _ := strconv.Atoi(tk[2])
			v := vNewRepl(out, bs, ms)
			if len(tk) > 3 && !v.panicked {
				for _, op := range strings.Split(tk[3], ";") {
					if op != "" && !v.panicked {
						v.exec(op)
					}
				}
			}
			if v.panicked && len(v.obs) == 0 {
				v.obs = []string{"panic"}
			}
			out.emit(v.line(), strings.Join(v.obs, ";"))
		}
	}
}
