package server

// E-pure for C12 (election safety): REAL ArbiterManager objects built in-package, one per member.
//
// What runs for real:
//   * acceptor side: commandHandleVoteCommand / commandHandleProposalCommand / commandHandleCommitCommand are called on the
//     target's manager with the (fake) ArbiterServer protocol object of the calling member as the caller;
//   * proposer side: ArbiterVoter.DoVote / DoProposal / DoCommit run unmodified in a goroutine (DoRequests spawns one
//     goroutine per member; the self member runs ArbiterMember.DoVote / DoSelfProposal / DoSelfCommit directly, the remote
//     members go through the real ArbiterClient.Request). The client's connection is a capturing net.Conn: the harness
//     picks the encoded CallCommand up there (= in flight), decides when it is delivered or lost, and completes the
//     Request by feeding the client's rchannel exactly like ArbiterClient.Run does (a result, or nil for a broken read);
//   * ArbiterStore.Save / Load on a scratch meta-<i>.pb; restart = new manager + store.Load + proposalId := commitId
//     (the one line of ArbiterManager.Load that follows store.Load; LoadMaxAofId needs a whole Aof and is replaced by
//     keeping the member's log position).
// What the harness replicates itself (a dozen lines of StartVote): the phase chaining DoVote → DoProposal → DoCommit and
// the head of the election loop ("wait for the announcement of the online host I am latched on", "no vote without an
// online majority"). Member tables may hold LEADER roles and offline entries (fixed for the execution).
// Not exercised: voteSucced / announcement handling (they need a complete SLock; the announcements a refusing acceptor
// fires are lost), status changes, manager.leaderMember, REPL_CONNECT.
//
// Scheduling is deterministic: GOMAXPROCS(1), and after every hand-over the harness yields until the woken goroutines are
// parked again. The self request of a phase therefore always runs first (the model allows any position; the op line
// says `q<c>.<c>` right after the event that started the phase).

// Monitor signatures (all evaluated on the real objects):
//   symptom:cause   C12:{two-commit-majorities,two-commit-numbers,two-leaders-elected}:{restart-forgot-commit (D1, recorded),
//                   failed-commit-cleared-latch (the candidate released the latch it had set ITSELF after a commit round
//                   whose replies were lost — recorded; seen for majorities / numbers only, never two leaders),
//                   failed-commit-cleared-foreign-latch (D3, repaired), doproposal-overwrote-number (D2, repaired), other};
//                   C12:regressed-across-restart:{commit-not-persisted, proposal-not-persisted (D1), other};
//                   C12:proposal-regressed:{doproposal-overwrote-number (D2, repaired), other};  C12:commit-regressed.
//                   The cause is read off the execution: every member that acknowledged both commits must have been
//                   restarted, had its latch cleared by its own failed DoCommit, or had its proposalId changed by the end
//                   of its own DoProposal other than by a promise the proposal handler would make (lowered, moved while
//                   latched, or to a number that was not proposed) BETWEEN its two acknowledgements (the latest such step
//                   names the cause); else other.
//   proposer contract: C12:docommit-sent-other-number (DoCommit sends a number its proposal round did not carry; D2, repaired).
//   handler contract (silent): C12:acceptor-acked-commit-for-other-number (number ≠ proposalId held or ≤ commitId held),
//                   C12:acceptor-acked-commit-for-other-host (latched on another host; suffix :doproposal-overwrote-number
//                   when D2 moved the latched member's number since its last ack), C12:acceptor-accepted-non-increasing-proposal,
//                   C12:acceptor-accepted-proposal-while-latched, C12:acceptor-accepted-proposal-while-leader-online,
//                   C12:acceptor-accepted-older-log — checked at every remote
//                   handler success and at DoSelfProposal / DoSelfCommit (seen through their effect on the voter).

import (
	"fmt"
	"math/rand"
	"net"
	"os"
	"path/filepath"
	"runtime"
	"sort"
	"strings"
	"sync"
	"testing"
	"time"

	"github.com/hhkbp2/go-logging"
	"github.com/snower/slock/client"
	"github.com/snower/slock/protocol"
	"github.com/snower/slock/protocol/protobuf"
	"google.golang.org/protobuf/proto"
)

func init() { vModes["elect"] = vElectMode }

type vElPost struct {
	node *vElNode
	to   int
	cmd  *protocol.CallCommand
}

type vElConn struct {
	node *vElNode
	to   int
	buf  []byte
	x    *vElRun
}

func (c *vElConn) Write(b []byte) (int, error) {
	c.buf = append(c.buf, b...)
	for len(c.buf) >= 64 {
		cmd := &protocol.CallCommand{}
		_ = cmd.Decode(c.buf[:64])
		total := 64 + int(cmd.ContentLen)
		if len(c.buf) < total {
			break
		}
		cmd.Data = append([]byte{}, c.buf[64:total]...)
		c.buf = c.buf[total:]
		if cmd.MethodName == "REPL_ANNOUNCEMENT" {
			// an acceptor that refuses a proposal because it knows a leader fires DoAnnouncement(): announcements are
			// outside the modelled window, every one of them is lost (the Request ends with a read error)
			c.node.clients[c.to].rchannel <- nil
			continue
		}
		c.x.posted <- &vElPost{node: c.node, to: c.to, cmd: cmd}
	}
	return len(b), nil
}
func (c *vElConn) Read(b []byte) (int, error)         { select {} }
func (c *vElConn) Close() error                       { return nil }
func (c *vElConn) LocalAddr() net.Addr                { return nil }
func (c *vElConn) RemoteAddr() net.Addr               { return nil }
func (c *vElConn) SetDeadline(t time.Time) error      { return nil }
func (c *vElConn) SetReadDeadline(t time.Time) error  { return nil }
func (c *vElConn) SetWriteDeadline(t time.Time) error { return nil }

type vElSpec struct {
	rank, weight, arbiter, own int
	pid, cid, saved            uint64
	roles, views, statuses     []int
}

type vElNode struct {
	idx         int
	mgr         *ArbiterManager
	clients     []*ArbiterClient
	phase       int // 0 idle 1 vote 2 prop 3 commit 4 won
	done        chan error
	outstanding int
	// monitor
	lastPid, lastCid uint64
	acks             []vElAck // every commit this member acknowledged (handler result, or DoSelfCommit seen through its effect)
	wins             []vElAck // every successful DoCommit of this member as candidate (number = proposalIndex it sent)
	savedTracked     uint64   // commitId at the last ArbiterStore.Save of this member
	pre              vElPre   // voter fields just before the event being executed completes one of its requests
	roundNum         uint64   // the number in the proposal requests of the running / last DoProposal round
}

type vElAck struct {
	at   int // index of the event
	num  uint64
	host string
}

type vElPre struct {
	pid, cid    uint64
	latch, from string
}

// a step of the execution that is one of the three recorded defects at work on `member`
type vElCause struct {
	at, member int
	kind       string // restart-forgot-commit | failed-commit-cleared-latch | doproposal-overwrote-number
}

type vElMsg struct {
	c, t, kind int
	req        bool
	cmd        *protocol.CallCommand
	res        *protocol.CallResultCommand
}

type vElRun struct {
	n           int
	dir         string
	palette     [][16]byte
	spec        []vElSpec
	hosts       []string
	hostIdx     map[string]int
	nodes       []*vElNode
	sps         [][]*BinaryServerProtocol
	inflight    []*vElMsg
	posted      chan *vElPost
	events      []string
	obs         []string
	restarts    int
	regress     []string
	logger      logging.Logger
	causes      []vElCause
	overwriteBy int // member whose successful DoProposal changed its proposalId in the event being emitted (-1: none)
}

func (x *vElRun) preOf(i int) vElPre {
	v := x.nodes[i].mgr.voter
	return vElPre{v.proposalId, v.commitId, v.proposalHost, v.proposalFromHost}
}

func (x *vElRun) violation(sig, what string) {
	x.regress = append(x.regress, fmt.Sprintf("%s|%s (event #%d)", sig, what, len(x.events)))
}

// handler contract, stated on the real objects at the moment a proposal is accepted (remote handler or DoSelfProposal)
func (x *vElRun) checkProposalAccept(t int, pre vElPre, k uint64, aof [16]byte, how string) {
	mgr := x.nodes[t].mgr
	if k <= pre.pid || k <= pre.cid {
		x.violation("C12:acceptor-accepted-non-increasing-proposal", fmt.Sprintf("member %d accepted proposal %d (%s) while holding proposalId %d, commitId %d", t, k, how, pre.pid, pre.cid))
	}
	for _, mb := range mgr.members {
		if mb.role == ARBITER_ROLE_LEADER && (mb.isSelf || mb.status == ARBITER_MEMBER_STATUS_ONLINE) {
			x.violation("C12:acceptor-accepted-proposal-while-leader-online", fmt.Sprintf("member %d accepted proposal %d (%s) although its table holds the online leader %s", t, k, how, mb.host))
			break
		}
	}
	if pre.latch != "" {
		x.violation("C12:acceptor-accepted-proposal-while-latched", fmt.Sprintf("member %d accepted proposal %d (%s) while latched on %s", t, k, how, pre.latch))
	}
	if mgr.ownMember.arbiter == 0 && mgr.CompareAofId(mgr.slock.replicationManager.GetCurrentAofID(), aof) > 0 {
		x.violation("C12:acceptor-accepted-older-log", fmt.Sprintf("member %d accepted proposal %d (%s) for log %s although its own log %s is newer", t, k, how,
			FormatAofId(aof), FormatAofId(mgr.slock.replicationManager.GetCurrentAofID())))
	}
}

// handler contract at the moment a commit is acknowledged (remote handler or DoSelfCommit); records the ack
func (x *vElRun) checkCommitAck(t int, pre vElPre, k uint64, host string, how string) {
	nd := x.nodes[t]
	if k != pre.pid || k <= pre.cid {
		x.violation("C12:acceptor-acked-commit-for-other-number", fmt.Sprintf("member %d acknowledged commit %d for %s (%s) while holding proposalId %d, commitId %d", t, k, host, how, pre.pid, pre.cid))
	}
	if pre.latch != "" && pre.latch != host {
		// on the unchanged code a latched member's proposalId moves only through DoProposal's assignment (D2)
		sig := "C12:acceptor-acked-commit-for-other-host"
		since := -1
		if len(nd.acks) > 0 {
			since = nd.acks[len(nd.acks)-1].at
		}
		for _, c := range x.causes {
			if c.member == t && c.at > since && c.kind == "doproposal-overwrote-number" {
				sig += ":doproposal-overwrote-number"
				break
			}
		}
		x.violation(sig, fmt.Sprintf("member %d acknowledged commit %d for %s (%s) while latched on %s", t, k, host, how, pre.latch))
	}
	nd.acks = append(nd.acks, vElAck{len(x.events), k, host})
}

func vElQuiesce() {
	for i := 0; i < 40; i++ {
		runtime.Gosched()
	}
}

func (x *vElRun) buildNode(i int, fromDisk bool) *vElNode {
	sp := x.spec[i]
	sl := &SLock{logger: x.logger, replicationManager: &ReplicationManager{currentAofId: x.palette[sp.own]}}
	mgr := NewArbiterManager(sl, "verif")
	mgr.store.filename = filepath.Join(x.dir, fmt.Sprintf("meta-%d.pb", i))
	if fromDisk {
		if err := mgr.store.Load(mgr); err != nil {
			panic(err)
		}
		mgr.voter.proposalId = mgr.voter.commitId // ArbiterManager.Load, after store.Load
	} else {
		mgr.gid = "verifgid"
		for j := 0; j < x.n; j++ {
			m := NewArbiterMember(mgr, x.hosts[j], uint32(x.spec[j].weight), uint32(x.spec[j].arbiter))
			m.role = uint8(sp.roles[j])
			m.aofId = x.palette[sp.views[j]]
			m.status = uint8(sp.statuses[j])
			if j == i {
				m.isSelf = true
				mgr.ownMember = m
			}
			mgr.members = append(mgr.members, m)
		}
		mgr.voter.commitId = sp.saved
		if err := mgr.store.Save(mgr); err != nil {
			panic(err)
		}
		mgr.voter.commitId = sp.cid
		mgr.voter.proposalId = sp.pid
	}
	nd := &vElNode{idx: i, mgr: mgr, clients: make([]*ArbiterClient, x.n), savedTracked: sp.saved}
	for j, m := range mgr.members {
		if fromDisk || j == i {
			m.status = ARBITER_MEMBER_STATUS_ONLINE // own entry: Open(); after a restart the harness reconnects every link
		}
		if j == i {
			continue
		}
		conn := &vElConn{node: nd, to: j, x: x}
		cl := &ArbiterClient{member: m, glock: &sync.Mutex{}, protocol: client.NewBinaryClientProtocol(client.NewStream(conn)),
			rchannel: make(chan protocol.CommandDecode, 8), closedWaiter: make(chan struct{})}
		m.client = cl
		nd.clients[j] = cl
		m.server = &ArbiterServer{member: m, protocol: x.sps[i][j], closedWaiter: make(chan struct{})}
	}
	nd.lastPid, nd.lastCid = mgr.voter.proposalId, mgr.voter.commitId
	return nd
}

func (x *vElRun) hostName(h string) string {
	if h == "" {
		return "-"
	}
	if i, ok := x.hostIdx[h]; ok {
		return fmt.Sprint(i)
	}
	return "?" + h
}

var vElPhase = []string{"I", "V", "P", "C", "W"}

func (x *vElRun) show(i int) string {
	v := x.nodes[i].mgr.voter
	return fmt.Sprintf("%d.%d.%s/%s%s", v.proposalId, v.commitId, x.hostName(v.proposalHost), vElPhase[x.nodes[i].phase], x.hostName(v.voteHost))
}

func (x *vElRun) emit(ev, res string, actor int) {
	x.events = append(x.events, ev)
	x.obs = append(x.obs, res+"/"+x.show(actor))
	x.check(ev, -1)
}

// monitor: numbers never decrease; every decrease is attributed to its cause in this execution
func (x *vElRun) check(ev string, restarted int) {
	for i, nd := range x.nodes {
		v := nd.mgr.voter
		at := len(x.events) - 1
		if i == restarted {
			if v.proposalId < nd.lastPid || v.commitId < nd.lastCid {
				kind := "other"
				if v.commitId == nd.savedTracked && v.proposalId == v.commitId {
					// exactly what Load does with what Save last wrote: the loss is the missing Save (D1)
					kind = "proposal-not-persisted"
					if v.commitId < nd.lastCid {
						kind = "commit-not-persisted"
					}
				}
				x.regress = append(x.regress, fmt.Sprintf("C12:regressed-across-restart:%s|member %d restarted from meta.pb (last saved commitId %d): proposalId %d -> %d, commitId %d -> %d (event #%d %s)",
					kind, i, nd.savedTracked, nd.lastPid, v.proposalId, nd.lastCid, v.commitId, at, ev))
			}
		} else {
			if v.proposalId < nd.lastPid {
				kind := "other"
				if x.overwriteBy == i {
					kind = "doproposal-overwrote-number"
				}
				x.regress = append(x.regress, fmt.Sprintf("C12:proposal-regressed:%s|member %d was not restarted, proposalId %d -> %d (event #%d %s)", kind, i, nd.lastPid, v.proposalId, at, ev))
			}
			if v.commitId < nd.lastCid {
				x.regress = append(x.regress, fmt.Sprintf("C12:commit-regressed|member %d was not restarted, commitId %d -> %d (event #%d %s)", i, nd.lastCid, v.commitId, at, ev))
			}
		}
		nd.lastPid, nd.lastCid = v.proposalId, v.commitId
	}
}

func (x *vElRun) launch(c, phase int) {
	nd := x.nodes[c]
	nd.phase = phase
	nd.done = make(chan error, 1)
	v := nd.mgr.voter
	go func() {
		var err error
		switch phase {
		case 1:
			err = v.DoVote()
		case 2:
			err = v.DoProposal()
		case 3:
			err = v.DoCommit()
		}
		nd.done <- err
	}()
	var ms []*vElMsg
	expect := 0
	for j, m := range nd.mgr.members {
		if j != c && m.status == ARBITER_MEMBER_STATUS_ONLINE {
			expect++ // the other entries fail at once ("not online"), nothing is sent
		}
	}
	for k := 0; k < expect; k++ {
		select {
		case p := <-x.posted:
			if p.node != nd {
				panic("post from a stale incarnation")
			}
			ms = append(ms, &vElMsg{c: c, t: p.to, kind: phase, req: true, cmd: p.cmd})
		case <-time.After(10 * time.Second):
			panic("requests of a phase did not appear")
		}
	}
	sort.Slice(ms, func(a, b int) bool { return ms[a].t < ms[b].t })
	x.inflight = append(x.inflight, ms...)
	nd.outstanding = expect
	vElQuiesce()
	for _, m := range ms {
		switch phase {
		case 2:
			rq := protobuf.ArbiterProposalRequest{}
			_ = proto.Unmarshal(m.cmd.Data, &rq)
			nd.roundNum = rq.ProposalId
			// the member proposed is a data-bearing member of non-zero weight (statement of C12, second sentence)
			for j, h := range x.hosts {
				if h == rq.Host && (x.spec[j].arbiter != 0 || x.spec[j].weight == 0) {
					x.violation("C12:proposed-ineligible-member", fmt.Sprintf("candidate %d proposes %s (member %d: weight %d, arbiter %d) as the new leader with number %d", c, rq.Host, j, x.spec[j].weight, x.spec[j].arbiter, rq.ProposalId))
					break
				}
			}
		case 3:
			rq := protobuf.ArbiterCommitRequest{}
			_ = proto.Unmarshal(m.cmd.Data, &rq)
			if rq.ProposalId != nd.roundNum {
				x.violation("C12:docommit-sent-other-number", fmt.Sprintf("candidate %d sends commit %d although its proposal round carried number %d", c, rq.ProposalId, nd.roundNum))
			}
		}
	}
}

// the candidate's phase function has returned: chain like the election loop does
func (x *vElRun) requestFinished(c int, ev string) {
	nd := x.nodes[c]
	vElQuiesce()
	nd.outstanding--
	if nd.outstanding > 0 {
		x.emit(ev, "-", c)
		return
	}
	var err error
	select {
	case err = <-nd.done:
	case <-time.After(10 * time.Second):
		panic("phase did not finish")
	}
	next := 0
	if err == nil {
		next = nd.phase + 1
	}
	v := nd.mgr.voter
	if nd.phase == 2 && err == nil && v.proposalId != nd.pre.pid &&
		!(nd.pre.pid < nd.roundNum && nd.pre.latch == "" && v.proposalId == nd.roundNum) {
		// the end of DoProposal changed the number the member held as acceptor other than by the promise the proposal
		// handler itself would have made (lowered it, moved it while latched, or to a number that was not proposed) (D2)
		x.causes = append(x.causes, vElCause{len(x.events), c, "doproposal-overwrote-number"})
		x.overwriteBy = c
	}
	if nd.phase == 3 && err != nil && nd.pre.latch != "" && v.proposalHost == "" {
		if nd.pre.from == nd.mgr.ownMember.host {
			// the candidate released the latch it had set itself; if replies were lost a majority may hold this commit
			x.causes = append(x.causes, vElCause{len(x.events), c, "failed-commit-cleared-latch"})
		} else {
			// a failed DoCommit cleared a latch another candidate's commit had set (D3, repaired: must not happen)
			x.causes = append(x.causes, vElCause{len(x.events), c, "failed-commit-cleared-foreign-latch"})
		}
	}
	nd.phase = next
	if next == 4 {
		nd.wins = append(nd.wins, vElAck{len(x.events), v.proposalIndex, v.proposalHost})
	}
	x.emit(ev, "-", c)
	x.overwriteBy = -1
	if next == 2 || next == 3 {
		x.launchWithSelf(c, next)
	}
}

func (x *vElRun) launchWithSelf(c, phase int) {
	pre := x.preOf(c)
	x.launch(c, phase)
	v := x.nodes[c].mgr.voter
	if phase == 2 && v.proposalId != pre.pid { // DoSelfProposal accepted
		x.checkProposalAccept(c, pre, v.proposalId, v.voteAofId, "DoSelfProposal")
	}
	if phase == 3 && v.commitId != pre.cid { // DoSelfCommit acknowledged
		x.checkCommitAck(c, pre, v.commitId, v.proposalHost, "DoSelfCommit")
	}
	x.emit(fmt.Sprintf("q%d.%d", c, c), "self", c)
}

func (x *vElRun) take(req bool, c, t int) *vElMsg {
	for i, m := range x.inflight {
		if m.req == req && m.c == c && m.t == t {
			x.inflight = append(x.inflight[:i], x.inflight[i+1:]...)
			return m
		}
	}
	return nil
}

func (x *vElRun) doStart(c int) {
	nd := x.nodes[c]
	ev := fmt.Sprintf("s%d", c)
	v := nd.mgr.voter
	// head of the StartVote loop: an online member I am latched on (not myself) => wait for its announcement;
	// fewer than a majority online => no vote
	online := 0
	for _, m := range nd.mgr.members {
		if m.status == ARBITER_MEMBER_STATUS_ONLINE {
			if m.host == v.proposalHost && nd.mgr.ownMember.host != v.proposalHost {
				x.emit(ev, "waiting", c)
				return
			}
			online++
		}
	}
	if online < len(nd.mgr.members)/2+1 {
		x.emit(ev, "waiting", c)
		return
	}
	x.launch(c, 1)
	x.emit(ev, "started", c)
	x.emit(fmt.Sprintf("q%d.%d", c, c), "self", c)
}

func (x *vElRun) doDeliverReq(m *vElMsg) {
	x.take(true, m.c, m.t)
	tn := x.nodes[m.t]
	sp := x.sps[m.t][m.c]
	var res *protocol.CallResultCommand
	out := "?"
	pre := x.preOf(m.t)
	func() {
		defer func() {
			if e := recover(); e != nil {
				out = "panic"
			}
		}()
		switch m.kind {
		case 1:
			res, _ = tn.mgr.commandHandleVoteCommand(sp, m.cmd)
			if res.ErrType != "" {
				out = res.ErrType
				return
			}
			r := protobuf.ArbiterVoteResponse{}
			_ = proto.Unmarshal(res.Data, &r)
			id := tn.mgr.DecodeAofId(r.AofId)
			out = fmt.Sprintf("v%s.%d.%d.%s.%d", x.hostName(r.Host), r.Weight, r.Arbiter, vHex(id[:]), r.Role)
		case 2:
			res, _ = tn.mgr.commandHandleProposalCommand(sp, m.cmd)
			r := protobuf.ArbiterProposalResponse{}
			_ = proto.Unmarshal(res.Data, &r)
			switch res.ErrType {
			case "":
				out = fmt.Sprintf("ok%d", r.ProposalId)
				rq := protobuf.ArbiterProposalRequest{}
				_ = proto.Unmarshal(m.cmd.Data, &rq)
				x.checkProposalAccept(m.t, pre, rq.ProposalId, tn.mgr.DecodeAofId(rq.AofId), "commandHandleProposalCommand")
			case "ERR_REJECT":
				out = "REJECT"
			case "ERR_AOFID":
				out = "AOFID"
			case "ERR_ROLE":
				out = "ROLE"
			case "ERR_STATUS":
				out = "STATUS"
			case "ERR_OFFLINE":
				out = "OFFLINE"
			case "ERR_HOST":
				out = "HOST"
			case "ERR_PROPOSALID":
				out = fmt.Sprintf("PID%d", r.ProposalId)
			default:
				out = res.ErrType
			}
		case 3:
			res, _ = tn.mgr.commandHandleCommitCommand(sp, m.cmd)
			switch res.ErrType {
			case "":
				out = "ok"
				rq := protobuf.ArbiterCommitRequest{}
				_ = proto.Unmarshal(m.cmd.Data, &rq)
				x.checkCommitAck(m.t, pre, rq.ProposalId, rq.Host, "commandHandleCommitCommand")
			case "ERR_HOST":
				out = "HOST"
			case "ERR_PROPOSALID":
				out = "PID"
			case "ERR_COMMITID":
				out = "CID"
			default:
				out = res.ErrType
			}
		}
	}()
	if res != nil {
		x.inflight = append(x.inflight, &vElMsg{c: m.c, t: m.t, kind: m.kind, req: false, res: res})
	}
	x.emit(fmt.Sprintf("q%d.%d", m.c, m.t), out, m.t)
	if res == nil { // the handler panicked: the request fails
		x.nodes[m.c].pre = x.preOf(m.c)
		x.nodes[m.c].clients[m.t].rchannel <- nil
		x.take(false, m.c, m.t)
		x.requestFinished(m.c, fmt.Sprintf("xr%d.%d", m.c, m.t))
	}
}

func (x *vElRun) doDeliverRep(m *vElMsg) {
	x.take(false, m.c, m.t)
	x.nodes[m.c].pre = x.preOf(m.c)
	x.nodes[m.c].clients[m.t].rchannel <- m.res
	x.requestFinished(m.c, fmt.Sprintf("r%d.%d", m.c, m.t))
}

func (x *vElRun) doDrop(m *vElMsg) {
	x.take(m.req, m.c, m.t)
	x.nodes[m.c].pre = x.preOf(m.c)
	x.nodes[m.c].clients[m.t].rchannel <- nil
	if m.req {
		x.requestFinished(m.c, fmt.Sprintf("xq%d.%d", m.c, m.t))
	} else {
		x.requestFinished(m.c, fmt.Sprintf("xr%d.%d", m.c, m.t))
	}
}

func (x *vElRun) doSave(i int) {
	if err := x.nodes[i].mgr.store.Save(x.nodes[i].mgr); err == nil {
		x.nodes[i].savedTracked = x.nodes[i].mgr.voter.commitId
	}
	x.emit(fmt.Sprintf("S%d", i), "-", i)
}

func (x *vElRun) doRestart(i int) {
	old := x.nodes[i]
	// the old process dies: its pending requests end, whatever it had in flight is gone
	if old.phase >= 1 && old.phase <= 3 {
		keep := x.inflight[:0]
		for _, m := range x.inflight {
			if m.c == i {
				old.clients[m.t].rchannel <- nil
			} else {
				keep = append(keep, m)
			}
		}
		x.inflight = keep
		vElQuiesce()
		select {
		case <-old.done:
		case <-time.After(10 * time.Second):
			panic("old incarnation did not finish")
		}
	}
	nd := x.buildNode(i, true)
	nd.lastPid, nd.lastCid = old.lastPid, old.lastCid
	nd.acks, nd.wins, nd.savedTracked = old.acks, old.wins, old.savedTracked
	x.causes = append(x.causes, vElCause{len(x.events), i, "restart-forgot-commit"})
	x.nodes[i] = nd
	x.restarts++
	ev := fmt.Sprintf("R%d", i)
	x.events = append(x.events, ev)
	x.obs = append(x.obs, "-/"+x.show(i))
	x.check(ev, i)
}

func (x *vElRun) savedCommitId(i int) uint64 {
	tmp := NewArbiterManager(x.nodes[i].mgr.slock, "verif")
	tmp.store.filename = x.nodes[i].mgr.store.filename
	if err := tmp.store.Load(tmp); err != nil {
		return 1 << 62
	}
	return tmp.voter.commitId
}

func (x *vElRun) snapshot() {
	var parts []string
	for i, nd := range x.nodes {
		v := nd.mgr.voter
		var rs, vs []string
		for _, m := range nd.mgr.members {
			rs = append(rs, fmt.Sprint(m.role))
			vs = append(vs, vHex(m.aofId[:]))
		}
		parts = append(parts, fmt.Sprintf("%d.%d.%s.%s.%d.%d.%s%s.%s[%s][%s]", v.proposalId, v.commitId, x.hostName(v.proposalHost), x.hostName(v.proposalFromHost),
			v.proposalIndex, x.savedCommitId(i), vElPhase[nd.phase], x.hostName(v.voteHost), vHex(v.voteAofId[:]), strings.Join(rs, "."), strings.Join(vs, ".")))
	}
	x.events = append(x.events, "Z")
	x.obs = append(x.obs, strings.Join(parts, "|"))
}

func (x *vElRun) specString() string {
	var ps []string
	for _, a := range x.palette {
		ps = append(ps, vHex(a[:]))
	}
	s := "A=" + strings.Join(ps, ",")
	for _, m := range x.spec {
		var rs, vs, ss []string
		for j := 0; j < x.n; j++ {
			rs = append(rs, fmt.Sprint(m.roles[j]))
			vs = append(vs, fmt.Sprint(m.views[j]))
			ss = append(ss, fmt.Sprint(m.statuses[j]))
		}
		s += fmt.Sprintf("/%d:%d:%d:%d:%d:%d:%d:%s:%s:%s", m.rank, m.weight, m.arbiter, m.own, m.pid, m.cid, m.saved, strings.Join(rs, "."), strings.Join(vs, "."), strings.Join(ss, "."))
	}
	return s
}

func vElAofId(index, offset uint32, t uint64) [16]byte {
	var b [16]byte
	for i := 0; i < 4; i++ {
		b[i] = byte(index >> (8 * uint(i)))
		b[4+i] = byte(offset >> (8 * uint(i)))
	}
	for i := 0; i < 8; i++ {
		b[8+i] = byte(t >> (8 * uint(i)))
	}
	return b
}

func vElRandAof(r *rand.Rand) [16]byte {
	idx := []uint32{0, 1, 2, 3, 0x7ffffffe, 0x7fffffff, 0x80000000, 0x80000001, 0xfffffffe, 0xffffffff}
	off := []uint32{0, 1, 64, 0xffffffff, 0x80000000}
	switch r.Intn(4) {
	case 0:
		return vElAofId(uint32(r.Intn(4)), uint32(r.Intn(3))*64, uint64(1700000000+r.Intn(3)))
	case 1:
		return vElAofId(idx[r.Intn(len(idx))], off[r.Intn(len(off))], uint64(r.Intn(3)))
	case 2:
		return vElAofId(r.Uint32(), r.Uint32(), r.Uint64())
	}
	var b [16]byte
	copy(b[:], vRandBytes(r, 16))
	return b
}

func vElNewRun(r *rand.Rand, dir string, logger logging.Logger) *vElRun {
	n := 3 + r.Intn(3)
	x := &vElRun{n: n, dir: dir, hostIdx: map[string]int{}, posted: make(chan *vElPost, 64), logger: logger, overwriteBy: -1}
	// palette: entry 0 is the zero id
	x.palette = append(x.palette, [16]byte{})
	np := 2 + r.Intn(4)
	sameLog := r.Intn(2) == 0
	for i := 1; i < np; i++ {
		if sameLog && i > 1 && r.Intn(3) != 0 {
			// close neighbours of entry 1 (same window)
			a := x.palette[1]
			a[4] += byte(i)
			x.palette = append(x.palette, a)
		} else {
			x.palette = append(x.palette, vElRandAof(r))
		}
	}
	ranks := r.Perm(n)
	allSame := r.Intn(3) == 0
	for i := 0; i < n; i++ {
		s := vElSpec{rank: ranks[i], weight: 1, own: 1 + r.Intn(np-1)}
		if allSame {
			s.own = 1
		}
		switch r.Intn(8) {
		case 0:
			s.weight = 0
		case 1:
			s.weight = 2
		case 2:
			s.arbiter = 1
		}
		base := uint64(r.Intn(3))
		s.cid = base
		s.saved = base
		if r.Intn(4) == 0 && base > 0 {
			s.saved = base - 1
		}
		s.pid = base
		if r.Intn(5) == 0 {
			s.pid = base + uint64(r.Intn(2)) + 1
		}
		x.spec = append(x.spec, s)
		h := fmt.Sprintf("h%d", ranks[i])
		x.hosts = append(x.hosts, h)
		x.hostIdx[h] = i
	}
	if r.Intn(4) != 0 { // keep at least two electable members most of the time
		x.spec[0].weight, x.spec[0].arbiter = 1, 0
		x.spec[1].weight, x.spec[1].arbiter = 1, 0
	}
	viewMode := r.Intn(3)
	for i := 0; i < n; i++ {
		s := &x.spec[i]
		for j := 0; j < n; j++ {
			role := ARBITER_ROLE_FOLLOWER
			if x.spec[j].arbiter != 0 {
				role = ARBITER_ROLE_ARBITER
			}
			if r.Intn(10) == 0 {
				role = ARBITER_ROLE_UNKNOWN
			}
			s.roles = append(s.roles, role)
			v := 0
			switch viewMode {
			case 1:
				if j != i {
					v = x.spec[j].own
				}
			case 2:
				if r.Intn(3) == 0 {
					v = r.Intn(np)
				}
			}
			if x.spec[j].arbiter != 0 && r.Intn(4) != 0 {
				v = 0
			}
			s.views = append(s.views, v)
			s.statuses = append(s.statuses, ARBITER_MEMBER_STATUS_ONLINE)
		}
	}
	// some members still know a leader (an entry with role LEADER), some links are down
	if r.Intn(5) == 0 {
		l := r.Intn(n)
		for i := 0; i < n; i++ {
			if r.Intn(3) == 0 {
				x.spec[i].roles[l] = ARBITER_ROLE_LEADER
				if i != l && r.Intn(3) == 0 {
					x.spec[i].statuses[l] = ARBITER_MEMBER_STATUS_OFFLINE // a leader that is known but not reachable does not block
				}
			}
		}
	}
	if r.Intn(5) == 0 {
		for k := 0; k < 1+r.Intn(3); k++ {
			i, j := r.Intn(n), r.Intn(n)
			if i != j {
				x.spec[i].statuses[j] = ARBITER_MEMBER_STATUS_OFFLINE
			}
		}
	}
	x.sps = make([][]*BinaryServerProtocol, n)
	for i := 0; i < n; i++ {
		x.sps[i] = make([]*BinaryServerProtocol, n)
		for j := 0; j < n; j++ {
			x.sps[i][j] = &BinaryServerProtocol{wbuf: make([]byte, 64)}
		}
	}
	for i := 0; i < n; i++ {
		x.nodes = append(x.nodes, x.buildNode(i, false))
	}
	return x
}

func (x *vElRun) idle() []int {
	var l []int
	for i, nd := range x.nodes {
		if nd.phase == 0 {
			l = append(l, i)
		}
	}
	return l
}

// message-level schedule: any enabled event at any time
func (x *vElRun) genMessageLevel(r *rand.Rand) {
	starts := 2 + r.Intn(3)
	restarts, saves := 0, r.Intn(2)
	if r.Intn(3) == 0 {
		restarts = 1 + r.Intn(2)
	}
	dropP := []int{0, 5, 15, 30}[r.Intn(4)]
	for steps := 0; steps < 140; steps++ {
		idle := x.idle()
		type choice struct {
			w int
			f func()
		}
		var cs []choice
		if starts > 0 && len(idle) > 0 {
			w := 2
			if len(x.inflight) == 0 {
				w = 50
			}
			cs = append(cs, choice{w, func() { starts--; x.doStart(idle[r.Intn(len(idle))]) }})
		}
		if len(x.inflight) > 0 {
			cs = append(cs, choice{100 - dropP, func() {
				m := x.inflight[r.Intn(len(x.inflight))]
				if m.req {
					x.doDeliverReq(m)
				} else {
					x.doDeliverRep(m)
				}
			}})
			if dropP > 0 {
				cs = append(cs, choice{dropP, func() { x.doDrop(x.inflight[r.Intn(len(x.inflight))]) }})
			}
		}
		if restarts > 0 {
			cs = append(cs, choice{3, func() { restarts--; x.doRestart(r.Intn(x.n)) }})
		}
		if saves > 0 {
			cs = append(cs, choice{2, func() { saves--; x.doSave(r.Intn(x.n)) }})
		}
		if len(cs) == 0 || (len(x.inflight) == 0 && starts == 0) {
			break
		}
		tot := 0
		for _, c := range cs {
			tot += c.w
		}
		k := r.Intn(tot)
		for _, c := range cs {
			if k < c.w {
				c.f()
				break
			}
			k -= c.w
		}
	}
}

// phase-level schedule: one candidate's current phase is driven to its end (some targets unreachable, some replies
// lost), then another candidate / a restart / a save gets its turn. Finds the overlapping-candidacy patterns quickly.
func (x *vElRun) genPhaseLevel(r *rand.Rand) {
	starts := 2 + r.Intn(3)
	restartP := []int{0, 0, 10, 25}[r.Intn(4)]
	for turns := 0; turns < 40; turns++ {
		var active []int
		for i, nd := range x.nodes {
			if nd.phase >= 1 && nd.phase <= 3 {
				active = append(active, i)
			}
		}
		idle := x.idle()
		k := r.Intn(100)
		switch {
		case k < restartP:
			x.doRestart(r.Intn(x.n))
		case k < restartP+4:
			x.doSave(r.Intn(x.n))
		case starts > 0 && len(idle) > 0 && (len(active) == 0 || k < restartP+4+30):
			starts--
			x.doStart(idle[r.Intn(len(idle))])
		case len(active) > 0:
			c := active[r.Intn(len(active))]
			// unreachable targets for this phase
			unreach := map[int]bool{}
			for t := 0; t < x.n; t++ {
				if t != c && r.Intn(100) < 30 {
					unreach[t] = true
				}
			}
			x.drivePhase(r, c, unreach, 10)
		default:
			if starts == 0 && len(active) == 0 {
				return
			}
		}
	}
}

// drivePhase: every message candidate c has in flight is delivered (request, then reply) or lost (unreachable target;
// a reply with probability 1/lossy), in random order.
func (x *vElRun) drivePhase(r *rand.Rand, c int, unreach map[int]bool, lossy int) {
	var ms []*vElMsg
	for _, m := range x.inflight {
		if m.c == c {
			ms = append(ms, m)
		}
	}
	r.Shuffle(len(ms), func(a, b int) { ms[a], ms[b] = ms[b], ms[a] })
	for _, m := range ms {
		if !m.req {
			if lossy > 0 && r.Intn(lossy) == 0 {
				x.doDrop(m)
			} else {
				x.doDeliverRep(m)
			}
			continue
		}
		if unreach[m.t] {
			x.doDrop(m)
			continue
		}
		x.doDeliverReq(m)
		rep := x.inflight[len(x.inflight)-1]
		if lossy > 0 && r.Intn(lossy+2) == 0 {
			x.doDrop(rep)
		} else {
			x.doDeliverRep(rep)
		}
	}
}

func (x *vElRun) startIfIdle(c int) {
	if x.nodes[c].phase == 0 {
		x.doStart(c)
	}
}

// overlap pattern: X's proposal round stays open (one request still in flight) while B runs a whole candidacy that
// X takes part in; then X's round completes, its commit round fails, and X runs again without B.
// Parameters random; steps that are not enabled are skipped.
func (x *vElRun) genOverlapPattern(r *rand.Rand) {
	p := r.Perm(x.n)
	X, B, C := p[0], p[1], p[2]
	x.startIfIdle(X)
	x.drivePhase(r, X, nil, 0) // vote: everybody answers
	if x.nodes[X].phase == 2 {
		// proposal: everything except the request to C is delivered
		for _, m := range append([]*vElMsg{}, x.inflight...) {
			if m.c == X && m.req && m.t != C {
				x.doDeliverReq(m)
				x.doDeliverRep(x.inflight[len(x.inflight)-1])
			}
		}
	}
	x.startIfIdle(B)
	for k := 0; k < 3 && x.nodes[B].phase >= 1 && x.nodes[B].phase <= 3; k++ {
		u := map[int]bool{C: true}
		if x.n > 3 && r.Intn(2) == 0 {
			u[p[3]] = true
		}
		x.drivePhase(r, B, u, 0)
	}
	if x.nodes[X].phase == 2 {
		x.drivePhase(r, X, nil, 0) // the outstanding request: X's proposal round ends
	}
	if x.nodes[X].phase == 3 {
		all := map[int]bool{}
		for t := 0; t < x.n; t++ {
			all[t] = r.Intn(5) != 0
		}
		x.drivePhase(r, X, all, 0) // commit round mostly lost
	}
	if r.Intn(4) == 0 {
		x.doSave(r.Intn(x.n))
	}
	x.startIfIdle(X)
	for k := 0; k < 3 && x.nodes[X].phase >= 1 && x.nodes[X].phase <= 3; k++ {
		x.drivePhase(r, X, map[int]bool{B: true}, 0)
	}
}

// restart pattern: X wins with a majority that contains M; M restarts from meta.pb; Y runs a candidacy without X.
func (x *vElRun) genRestartPattern(r *rand.Rand) {
	p := r.Perm(x.n)
	X, M, Y := p[0], p[1], p[2]
	x.startIfIdle(X)
	for k := 0; k < 3 && x.nodes[X].phase >= 1 && x.nodes[X].phase <= 3; k++ {
		u := map[int]bool{Y: r.Intn(3) != 0}
		x.drivePhase(r, X, u, 0)
	}
	if r.Intn(5) == 0 {
		x.doSave(M)
	}
	x.doRestart(M)
	if x.n > 3 && r.Intn(2) == 0 {
		x.doRestart(p[3])
	}
	x.startIfIdle(Y)
	for k := 0; k < 3 && x.nodes[Y].phase >= 1 && x.nodes[Y].phase <= 3; k++ {
		u := map[int]bool{X: true}
		x.drivePhase(r, Y, u, 0)
	}
}

// ---- replay of a given op line (canned witnesses of the Lean counterexample theorems, or VERIF_ELECT_REPLAY) ----

func vElAtoi(s string) int {
	n := 0
	fmt.Sscanf(s, "%d", &n)
	return n
}

func vElFromSpec(spec, dir string, logger logging.Logger) *vElRun {
	parts := strings.Split(spec, "/")
	x := &vElRun{n: len(parts) - 1, dir: dir, hostIdx: map[string]int{}, posted: make(chan *vElPost, 64), logger: logger, overwriteBy: -1}
	for _, h := range strings.Split(strings.TrimPrefix(parts[0], "A="), ",") {
		var id [16]byte
		for i := 0; i < 16; i++ {
			fmt.Sscanf(h[2*i:2*i+2], "%02x", &id[i])
		}
		x.palette = append(x.palette, id)
	}
	for i, ms := range parts[1:] {
		f := strings.Split(ms, ":")
		s := vElSpec{rank: vElAtoi(f[0]), weight: vElAtoi(f[1]), arbiter: vElAtoi(f[2]), own: vElAtoi(f[3]),
			pid: uint64(vElAtoi(f[4])), cid: uint64(vElAtoi(f[5])), saved: uint64(vElAtoi(f[6]))}
		for _, r := range strings.Split(f[7], ".") {
			s.roles = append(s.roles, vElAtoi(r))
		}
		for _, v := range strings.Split(f[8], ".") {
			s.views = append(s.views, vElAtoi(v))
		}
		for _, v := range strings.Split(f[9], ".") {
			s.statuses = append(s.statuses, vElAtoi(v))
		}
		x.spec = append(x.spec, s)
		h := fmt.Sprintf("h%d", s.rank)
		x.hosts = append(x.hosts, h)
		x.hostIdx[h] = i
	}
	x.sps = make([][]*BinaryServerProtocol, x.n)
	for i := 0; i < x.n; i++ {
		x.sps[i] = make([]*BinaryServerProtocol, x.n)
		for j := 0; j < x.n; j++ {
			x.sps[i][j] = &BinaryServerProtocol{wbuf: make([]byte, 64)}
		}
	}
	for i := 0; i < x.n; i++ {
		x.nodes = append(x.nodes, x.buildNode(i, false))
	}
	return x
}

// replay executes the events of an op line on the real objects. Self requests run on their own when a phase starts, so a
// `q<c>.<c>` token is only checked against what the harness emitted. Returns false if the line cannot be followed.
func (x *vElRun) replay(evs []string) bool {
	for _, ev := range evs {
		var a, b int
		switch {
		case ev == "Z":
			x.snapshot()
		case strings.HasPrefix(ev, "xq") || strings.HasPrefix(ev, "xr"):
			fmt.Sscanf(ev[2:], "%d.%d", &a, &b)
			m := x.find(ev[1] == 'q', a, b)
			if m == nil {
				return false
			}
			x.doDrop(m)
		case ev[0] == 'q':
			fmt.Sscanf(ev[1:], "%d.%d", &a, &b)
			if a == b {
				continue
			}
			m := x.find(true, a, b)
			if m == nil {
				return false
			}
			x.doDeliverReq(m)
		case ev[0] == 'r':
			fmt.Sscanf(ev[1:], "%d.%d", &a, &b)
			m := x.find(false, a, b)
			if m == nil {
				return false
			}
			x.doDeliverRep(m)
		case ev[0] == 's':
			a = vElAtoi(ev[1:])
			if x.nodes[a].phase != 0 {
				return false
			}
			x.doStart(a)
		case ev[0] == 'R':
			x.doRestart(vElAtoi(ev[1:]))
		case ev[0] == 'S':
			x.doSave(vElAtoi(ev[1:]))
		default:
			return false
		}
	}
	return true
}

func (x *vElRun) find(req bool, c, t int) *vElMsg {
	for _, m := range x.inflight {
		if m.req == req && m.c == c && m.t == t {
			return m
		}
	}
	return nil
}

// Fixed op lines replayed on the real code before the generated ones.
// MUST-PASS corpus (former witnesses of repaired defects; any monitor that fires on them is a regression):
//
//	0  Slock.C12.C12_monotone_corpus    — D2 (d-proposal overwrite): member 0 promises 2 while its own round 1 is open; its
//	                                       DoProposal then succeeds and proposalId must stay 2
//	2  Slock.C12.C12_one_winner_corpus  — D3 (foreign latch cleared): X's commit round fails after B's commit latched X;
//	                                       X must stay latched on B and must not start another candidacy (`s0` → waiting)
//
// WITNESSES of what is still recorded:
//
//	1  C12_one_winner_with_restart_counterexample / C12_monotone_with_restart_counterexample (D1)
//	3  C12_one_winner_counterexample — a candidate that loses the replies of its commit round releases its own latch
//	                                       although a majority holds the commit; a second majority forms (one leader only)
const vElLog = "A=00000000000000000000000000000000,030000004000000000f1536500000000"
const vElC3 = vElLog + "/0:1:0:1:0:0:0:2.2.2:0.0.0:5.5.5/1:1:0:1:0:0:0:2.2.2:0.0.0:5.5.5/2:1:0:1:0:0:0:2.2.2:0.0.0:5.5.5"
const vElC3r = vElLog + "/2:1:0:1:0:0:0:2.2.2:0.0.0:5.5.5/0:1:0:1:0:0:0:2.2.2:0.0.0:5.5.5/1:1:0:1:0:0:0:2.2.2:0.0.0:5.5.5"

func vElSolo(c, t, u int) string {
	s := fmt.Sprintf("s%d;q%d.%d;q%d.%d;r%d.%d;xq%d.%d", c, c, c, c, t, c, t, c, u)
	for k := 0; k < 2; k++ {
		s += fmt.Sprintf(";q%d.%d;q%d.%d;r%d.%d;xq%d.%d", c, c, c, t, c, t, c, u)
	}
	return s
}

var vElCanned = [][2]string{
	{vElC3, "s0;q0.0;q0.1;r0.1;q0.2;r0.2;q0.0;q0.2;r0.2;q0.1;s1;q1.1;q1.0;r1.0;q1.2;r1.2;q1.1;q1.0;r0.1;q0.0;Z"},
	{vElC3r, vElSolo(0, 1, 2) + ";R1;" + vElSolo(2, 1, 0) + ";Z"},
	{vElC3, "s0;q0.0;q0.1;r0.1;q0.2;r0.2;q0.0;q0.1;r0.1;" + vElSolo(1, 0, 2) + ";q0.2;r0.2;q0.0;xq0.1;xq0.2;s0;Z"},
	{vElC3, "s0;q0.0;q0.1;r0.1;xq0.2;q0.0;q0.1;r0.1;xq0.2;q0.0;q0.1;xr0.1;xq0.2;" +
		"s2;q2.2;q2.0;r2.0;xq2.1;q2.2;q2.0;r2.0;xq2.1;" + vElSolo(2, 0, 1) + ";Z"},
}

// end of a run: let every pending phase end (all remaining messages lost) so that no goroutine is left behind
func (x *vElRun) drain() {
	for guard := 0; len(x.inflight) > 0 && guard < 500; guard++ {
		x.doDrop(x.inflight[0])
	}
}

func vElFirstAck(l []vElAck, num uint64, host string) int {
	for _, a := range l {
		if a.num == num && a.host == host {
			return a.at
		}
	}
	return -1
}

// explain: WHY could both (number, host) pairs be acknowledged by majorities? Every member that acknowledged both must
// have gone, between its two acknowledgements, through one of the recorded defects; anything else is "other".
func (x *vElRun) explain(p, q vElAck) (map[string]bool, string) {
	kinds := map[string]bool{}
	var notes []string
	for i, nd := range x.nodes {
		t1, t2 := vElFirstAck(nd.acks, p.num, p.host), vElFirstAck(nd.acks, q.num, q.host)
		if t1 < 0 || t2 < 0 {
			continue
		}
		if t1 > t2 {
			t1, t2 = t2, t1
		}
		kind, at := "other", -1
		for _, c := range x.causes {
			if c.member == i && c.at > t1 && c.at < t2 && c.at > at {
				kind, at = c.kind, c.at
			}
		}
		kinds[kind] = true
		notes = append(notes, fmt.Sprintf("member %d acknowledged both (events #%d, #%d): %s", i, t1, t2, kind))
	}
	if len(kinds) == 0 {
		kinds["other"] = true
		notes = append(notes, "no member acknowledged both")
	}
	return kinds, strings.Join(notes, "; ")
}

func (x *vElRun) monitors(out *vOut, line string) {
	seen := map[string]bool{}
	report := func(sig, what string) {
		if !seen[sig] {
			seen[sig] = true
			out.monitor(sig, what, map[string]interface{}{"op": line})
		}
	}
	for _, s := range x.regress {
		p := strings.SplitN(s, "|", 2)
		report(p[0], p[1])
	}
	// (number, host) pairs acknowledged as committed leader by a majority of the members
	count := map[vElAck]int{}
	for _, nd := range x.nodes {
		mine := map[vElAck]bool{}
		for _, a := range nd.acks {
			k := vElAck{0, a.num, a.host}
			if !mine[k] {
				mine[k] = true
				count[k]++
			}
		}
	}
	var majors []vElAck
	for k, c := range count {
		if c >= x.n/2+1 {
			majors = append(majors, k)
		}
	}
	sort.Slice(majors, func(a, b int) bool {
		if majors[a].num != majors[b].num {
			return majors[a].num < majors[b].num
		}
		return majors[a].host < majors[b].host
	})
	for a := 0; a < len(majors); a++ {
		for b := a + 1; b < len(majors); b++ {
			p, q := majors[a], majors[b]
			kinds, notes := x.explain(p, q)
			for kind := range kinds {
				if p.host != q.host {
					report("C12:two-commit-majorities:"+kind, fmt.Sprintf("two different hosts were each acknowledged as committed leader by a majority of the %d members (%d/%s and %d/%s); %s", x.n, p.num, p.host, q.num, q.host, notes))
				} else {
					report("C12:two-commit-numbers:"+kind, fmt.Sprintf("two proposal numbers gathered commit majorities for the same host (%d/%s and %d/%s); %s", p.num, p.host, q.num, q.host, notes))
				}
			}
		}
	}
	// candidates whose DoCommit returned success
	type win struct {
		member int
		a      vElAck
	}
	var wins []win
	for i, nd := range x.nodes {
		for _, w := range nd.wins {
			wins = append(wins, win{i, w})
		}
	}
	// a candidacy that succeeded was acknowledged as committed by a majority of ALL members (arbiters and weight-0 members vote too):
	// that overlap is what makes a second winner impossible
	for _, w := range wins {
		if c := count[vElAck{0, w.a.num, w.a.host}]; c < x.n/2+1 {
			report("C12:won-without-commit-majority", fmt.Sprintf("member %d's DoCommit succeeded for %d/%s (event #%d) with the commit acknowledged by %d of %d members (majority %d)", w.member, w.a.num, w.a.host, w.a.at, c, x.n, x.n/2+1))
		}
	}
	for a := 0; a < len(wins); a++ {
		for b := a + 1; b < len(wins); b++ {
			p, q := wins[a], wins[b]
			if p.a.host == q.a.host {
				continue
			}
			kinds, notes := x.explain(p.a, q.a)
			for kind := range kinds {
				report("C12:two-leaders-elected:"+kind, fmt.Sprintf("DoCommit succeeded for two different hosts in one execution: member %d with %d/%s (event #%d), member %d with %d/%s (event #%d); %s",
					p.member, p.a.num, p.a.host, p.a.at, q.member, q.a.num, q.a.host, q.a.at, notes))
			}
		}
	}
}

func vElectMode(t *testing.T) {
	runtime.GOMAXPROCS(1)
	r := rand.New(rand.NewSource(int64(vEnvInt("VERIF_SEED", 1))))
	n := vEnvInt("VERIF_N", 100)
	out := vOpen("elect")
	defer out.close()
	logger := logging.GetLogger("verif-elect")
	_ = logger.SetLevel(logging.LevelCritical)
	base, err := os.MkdirTemp(os.Getenv("VERIF_DATA"), "elect")
	if err != nil {
		t.Fatal(err)
	}
	defer os.RemoveAll(base)
	canned := append([][2]string{}, vElCanned...)
	if rp := os.Getenv("VERIF_ELECT_REPLAY"); rp != "" {
		f := strings.Fields(rp)
		canned = [][2]string{{f[len(f)-2], f[len(f)-1]}}
		n = 0
	}
	for i, cs := range canned {
		dir := filepath.Join(base, fmt.Sprintf("canned%d", i))
		_ = os.Mkdir(dir, 0755)
		x := vElFromSpec(cs[0], dir, logger)
		ok := x.replay(strings.Split(cs[1], ";"))
		x.drainQuiet()
		line := "elect " + cs[0] + " " + strings.Join(x.events, ";")
		if !ok || strings.Join(x.events, ";") != cs[1] {
			// the real code no longer takes this path (e.g. after a fix): what was executed is still compared with the
			// model, which will disagree at the first event the code decides differently
			t.Logf("the real code does not follow the canned op line:\n want %s\n got  %s", cs[1], strings.Join(x.events, ";"))
		}
		out.emit(line, strings.Join(x.obs, ";"))
		x.monitors(out, line)
	}
	for i := 0; i < n; i++ {
		dir := filepath.Join(base, fmt.Sprint(i))
		_ = os.Mkdir(dir, 0755)
		x := vElNewRun(r, dir, logger)
		func() {
			defer func() {
				if e := recover(); e != nil {
					t.Fatalf("elect harness: %v (events so far: %s)", e, strings.Join(x.events, ";"))
				}
			}()
			switch i % 8 {
			case 0, 2, 4:
				x.genPhaseLevel(r)
			case 6:
				x.genOverlapPattern(r)
			case 7:
				x.genRestartPattern(r)
			default:
				x.genMessageLevel(r)
			}
			if r.Intn(2) == 0 {
				x.drain()
			}
			x.snapshot()
			x.drainQuiet()
		}()
		line := "elect " + x.specString() + " " + strings.Join(x.events, ";")
		out.emit(line, strings.Join(x.obs, ";"))
		x.monitors(out, line)
		_ = os.RemoveAll(dir)
	}
	if os.Getenv("VERIF_ELECT_REPLAY") != "" {
		return
	}
	// CompareAofId / GetMajorityMemberCount differential
	mgr := NewArbiterManager(&SLock{logger: logger}, "verif")
	for i := 0; i < n*4; i++ {
		a, b := vElRandAof(r), vElRandAof(r)
		switch r.Intn(6) {
		case 0:
			b = a
		case 1: // same position, different time
			b = a
			b[8+r.Intn(8)] ^= byte(1 << uint(r.Intn(8)))
		case 2: // window edge
			ai := uint64(a[0])<<32 | uint64(a[1])<<40 | uint64(a[2])<<48 | uint64(a[3])<<56 | uint64(a[4]) | uint64(a[5])<<8 | uint64(a[6])<<16 | uint64(a[7])<<24
			bi := ai + 0x7fffffff00000000 - 1 + uint64(r.Intn(3))
			b = vElAofId(uint32(bi>>32), uint32(bi), uint64(r.Intn(3)))
		}
		c := vElRandAof(r)
		for _, p := range [][2][16]byte{{a, b}, {b, c}, {a, c}} {
			out.emit("cmpaof "+vHex(p[0][:])+" "+vHex(p[1][:]), fmt.Sprint(mgr.CompareAofId(p[0], p[1])))
		}
	}
	for i := 0; i < 40; i++ {
		m2 := NewArbiterManager(&SLock{logger: logger}, "verif")
		k := r.Intn(7)
		var fl []string
		for j := 0; j < k; j++ {
			a := uint32(0)
			if r.Intn(3) == 0 {
				a = uint32(1 + r.Intn(2))
			}
			m2.members = append(m2.members, NewArbiterMember(m2, fmt.Sprintf("h%d", j), 1, a))
			fl = append(fl, fmt.Sprint(a))
		}
		arg := strings.Join(fl, ",")
		if k == 0 {
			arg = "-"
		}
		out.emit("majcount "+arg, fmt.Sprint(m2.GetMajorityMemberCount()))
	}
}

// after the snapshot: end whatever is still pending without recording it
func (x *vElRun) drainQuiet() {
	for _, m := range x.inflight {
		x.nodes[m.c].clients[m.t].rchannel <- nil
	}
	x.inflight = nil
	vElQuiesce()
}
