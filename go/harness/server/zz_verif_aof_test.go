package server

// E-fs for the append-only log (C08 / C16 / C07-arithmetic).
//
//  aofread     REAL writer (AofFile in O_WRONLY mode: WriteLock / WriteLockData / Flush / Close) produces REAL append
//              files on a scratch dir; every truncation offset of the newest record file × the value-file cuts that are
//              consistent with the writer's own syscall order is copied to a fresh dir and read back with the REAL reader
//              (Aof.LoadAofFiles → LoadAofFile → AofFile.Open/ReadHeader/ReadLock/ReadLockData) with a capturing callback.
//              Second restart: the torn image is reopened with the real AofFile.Open in append mode, more records are
//              written, and the result is loaded again.
//  aofdeadline random (unit, E, grant second, journal second, reload second) through the real AofChannel.Push (command time,
//              age, remaining lifetime), the real writer/reader (expired-record skip) and the real GetLockCommandExpriedTime.
//  aofrewrite  (zz_verif_aof_rewrite_test.go) the real loadRewriteAofFiles + the individual file-system mutations of
//              clearRewriteAofFiles, with a directory snapshot after each mutation, each snapshot recovered by the real
//              FindAofFiles + LoadAofFiles; records of varying AGE against a real LockDB on a virtual clock.
//  restart     (zz_verif_aof_restart_test.go) real journal → fresh SLock on a copy of the directory.
//
// Nothing here writes outside $VERIF_DATA.

import (
	"bytes"
	"fmt"
	"math/rand"
	"os"
	"path/filepath"
	"sort"
	"strings"
	"testing"

	"github.com/jessevdk/go-flags"
	"github.com/snower/slock/protocol"
)

type vAofRec struct {
	buf  []byte // 64 bytes
	data []byte // nil, or the value frame incl. its 4-byte length prefix
}

func (a vAofRec) String() string {
	if a.data == nil {
		return vHex(a.buf) + "/n"
	}
	return vHex(a.buf) + "/" + vHex(a.data)
}

func vAofRecsString(rs []vAofRec) string {
	if len(rs) == 0 {
		return "-"
	}
	s := make([]string, len(rs))
	for i, r := range rs {
		s[i] = r.String()
	}
	return strings.Join(s, ",")
}

func vAofRecEq(a, b vAofRec) bool {
	return bytes.Equal(a.buf, b.buf) && (a.data == nil) == (b.data == nil) && bytes.Equal(a.data, b.data)
}

type vAofEnv struct {
	slock *SLock
	aof   *Aof
	root  string
	seq   int
	out   *vOut
	nmon  map[string]int
}

func vNewAofEnv(out *vOut) *vAofEnv {
	base := os.Getenv("VERIF_DATA")
	if base == "" {
		panic("VERIF_DATA must be set (scratch dir)")
	}
	root, err := os.MkdirTemp(base, "aof")
	if err != nil {
		panic(err)
	}
	cfg := &ServerConfig{}
	parse := flags.NewParser(cfg, flags.Default)
	if _, err := parse.ParseArgs([]string{"--data_dir", root, "--db_concurrent", "1", "--log_level", "ERROR", "--log", root + "/slock.log"}); err != nil {
		panic(err)
	}
	logger, _ := InitLogger(cfg)
	s := NewSLock(cfg, logger)
	s.aof.dataDir = root
	s.state = STATE_LEADER
	return &vAofEnv{slock: s, aof: s.aof, root: root, out: out, nmon: map[string]int{}}
}

func (e *vAofEnv) monitor(sig, what string, replay interface{}) {
	e.nmon[sig]++
	if e.nmon[sig] <= 3 {
		e.out.monitor(sig, what, replay)
	}
}

func (e *vAofEnv) freshDir() string {
	e.seq++
	d := filepath.Join(e.root, fmt.Sprintf("d%d", e.seq))
	if err := os.Mkdir(d, 0755); err != nil {
		panic(err)
	}
	return d
}

type vAofFileImg struct {
	name string
	rec  []byte
	dat  []byte // nil = no .dat file
}

func (f vAofFileImg) String() string {
	d := "x"
	if f.dat != nil {
		d = vHex(f.dat)
	}
	return vHex(f.rec) + ":" + d
}

func vWriteImgs(dir string, files []vAofFileImg) {
	for _, f := range files {
		if err := os.WriteFile(filepath.Join(dir, f.name), f.rec, 0644); err != nil {
			panic(err)
		}
		if f.dat != nil {
			if err := os.WriteFile(filepath.Join(dir, f.name+".dat"), f.dat, 0644); err != nil {
				panic(err)
			}
		}
	}
}

func vReadImg(dir, name string) vAofFileImg {
	rec, err := os.ReadFile(filepath.Join(dir, name))
	if err != nil {
		panic(err)
	}
	dat, err := os.ReadFile(filepath.Join(dir, name+".dat"))
	if err != nil {
		dat = nil
	} else if dat == nil {
		dat = []byte{}
	}
	return vAofFileImg{name, rec, dat}
}

// load: the real reader over the named files of dir (in this order), exactly as LoadAndInit/Load call it.
func (e *vAofEnv) load(dir string, names []string, cfgBuf uint, now int64) (recs []vAofRec, status string) {
	Config.AofFileBufferSize = cfgBuf
	e.aof.dataDir = dir
	status = "ok"
	func() {
		defer func() {
			if p := recover(); p != nil {
				status = "panic"
			}
		}()
		err, _ := e.aof.LoadAofFiles(names, now, func(fn string, f *AofFile, l *AofLock, first bool) (bool, error) {
			r := vAofRec{buf: append([]byte{}, l.buf...)}
			if l.data != nil {
				r.data = append([]byte{}, l.data...)
			}
			recs = append(recs, r)
			return true, nil
		})
		if err != nil {
			status = "err"
		}
	}()
	return
}

func vAofLoadOp(files []vAofFileImg, cfgBuf uint, now int64) string {
	s := make([]string, len(files))
	for i, f := range files {
		s[i] = f.String()
	}
	return fmt.Sprintf("aofload %d %d %s", cfgBuf, now, strings.Join(s, " "))
}

// writer: the real AofFile in write (append) mode; returns the (recSize, dataSize) pair observed after every call, i.e. the
// order in which bytes reach the two files.
func (e *vAofEnv) write(dir, name string, cfgBuf uint, recs []vAofRec, snaps *[][2]int) {
	f := NewAofFile(e.aof, filepath.Join(dir, name), os.O_WRONLY, int(cfgBuf))
	if err := f.Open(); err != nil {
		panic(err)
	}
	snap := func() {
		if snaps == nil {
			return
		}
		a, _ := os.Stat(filepath.Join(dir, name))
		b, _ := os.Stat(filepath.Join(dir, name+".dat"))
		p := [2]int{int(a.Size()), int(b.Size())}
		if n := len(*snaps); n == 0 || (*snaps)[n-1] != p {
			*snaps = append(*snaps, p)
		}
	}
	snap()
	l := NewAofLock()
	for _, r := range recs {
		copy(l.buf, r.buf)
		_ = l.Decode()
		l.data = r.data
		if err := f.WriteLock(l); err != nil {
			panic(err)
		}
		snap()
		if l.AofFlag&AOF_FLAG_CONTAINS_DATA != 0 {
			if err := f.WriteLockData(l); err != nil {
				panic(err)
			}
			snap()
		}
	}
	if err := f.Flush(); err != nil {
		panic(err)
	}
	snap()
	_ = f.Close()
	snap()
}

// ---- generation -----------------------------------------------------------------------------------------------------------

func vAofGenBlob(r *rand.Rand, tag byte) []byte {
	n := r.Intn(12)
	if r.Intn(6) == 0 {
		n = 0
	}
	b := make([]byte, 4+n)
	b[0] = byte(n)
	for i := 0; i < n; i++ {
		// payload bytes stay tiny so that a misaligned length prefix (second restart over a torn value file) is a small number
		if i%4 == 0 {
			b[4+i] = tag
		}
	}
	return b
}

// one record through the real Encode; neighbours differ in (almost) every byte so that a record padded with its
// predecessor's bytes is visible at every residue.
func vAofGenRec(r *rand.Rand, now int64, idx int, withData bool) vAofRec {
	l := NewAofLock()
	l.CommandType = uint8(1 + r.Intn(2))
	l.AofIndex = uint32(1 + r.Intn(3))
	l.AofOffset = uint32(idx + 1 + 256*r.Intn(200))
	switch r.Intn(8) {
	case 0:
		l.CommandTime = r.Uint64()
	case 1:
		l.CommandTime = uint64(now - int64(r.Intn(70000)))
	default:
		l.CommandTime = uint64(now - int64(r.Intn(40)) + int64(r.Intn(3)))
	}
	l.Flag = uint8(r.Intn(256))
	l.DbId = uint8(r.Intn(256))
	copy(l.LockId[:], vRandBytes(r, 16))
	copy(l.LockKey[:], vRandBytes(r, 16))
	l.StartTime = uint16(r.Intn(65536))
	l.AofFlag = uint16(r.Intn(65536)) &^ (AOF_FLAG_CONTAINS_DATA | AOF_FLAG_REQUIRE_ACKED)
	if withData {
		l.AofFlag |= AOF_FLAG_CONTAINS_DATA
	}
	l.ExpriedFlag = uint16(r.Intn(65536))
	switch r.Intn(4) {
	case 0:
		l.ExpriedFlag &^= 0x4440
	case 1:
		l.ExpriedFlag = l.ExpriedFlag&^0x4400 | 0x0040
	case 2:
		l.ExpriedFlag = l.ExpriedFlag&^0x4040 | 0x0400
	}
	switch r.Intn(4) {
	case 0:
		l.ExpriedTime = 0
	case 1:
		l.ExpriedTime = uint16(r.Intn(65536))
	default:
		l.ExpriedTime = uint16(1 + r.Intn(100))
	}
	l.Count = uint16(r.Intn(65536))
	l.Rcount = uint8(r.Intn(256))
	_ = l.Encode()
	l.buf[0], l.buf[1] = 62, 0
	rec := vAofRec{buf: append([]byte{}, l.buf...)}
	if withData {
		rec.data = vAofGenBlob(r, byte(1+idx%3))
	}
	return rec
}

func vAofSkipped(rec vAofRec, now int64) bool {
	l := NewAofLock()
	copy(l.buf, rec.buf)
	_ = l.Decode()
	// the statement of C07/C08 about expired records: a record whose deadline has passed is not restored
	if l.ExpriedFlag&protocol.EXPRIED_FLAG_MILLISECOND_TIME != 0 {
		return int64(l.CommandTime+uint64(l.ExpriedTime)/1000) <= now
	} else if l.ExpriedFlag&protocol.EXPRIED_FLAG_MINUTE_TIME != 0 {
		return int64(l.CommandTime+uint64(l.ExpriedTime)*60) <= now
	} else if l.ExpriedFlag&protocol.EXPRIED_FLAG_UNLIMITED_EXPRIED_TIME == 0 {
		return l.ExpriedTime > 0 && int64(l.CommandTime+uint64(l.ExpriedTime)) <= now
	}
	return false
}

func vAofResidueClass(res int) string {
	switch {
	case res <= 2:
		return "r01-02.len"
	case res <= 18:
		return "r03-18.id"
	case res <= 20:
		return "r19-20.flagdb"
	case res <= 36:
		return "r21-36.lockid"
	case res <= 52:
		return "r37-52.key"
	}
	return "r53-63.tail"
}

// ---- aofread --------------------------------------------------------------------------------------------------------------

type vAofHistory struct {
	older    []vAofFileImg // complete older files, in load order
	newName  string
	recs     []vAofRec // records of the newest file
	wcfg     uint      // writer buffer size
	rcfg     uint      // reader buffer size
	now      int64
	firstCut int // first record-file cut offset that is explored
}

func (e *vAofEnv) aofReadHistory(r *rand.Rand, h *vAofHistory, secondEvery int) {
	// 1. the real writer produces the complete newest file; snaps = order in which bytes reached the two files
	wdir := e.freshDir()
	var snaps [][2]int
	e.write(wdir, h.newName, h.wcfg, h.recs, &snaps)
	full := vReadImg(wdir, h.newName)
	_ = os.RemoveAll(wdir)
	{
		ss := make([]string, len(snaps))
		for i, p := range snaps {
			ss[i] = fmt.Sprintf("%d:%d", p[0], p[1])
		}
		e.out.emit(fmt.Sprintf("aofwrites %d %s", h.wcfg, vAofRecsString(h.recs)), strings.Join(ss, ","))
	}
	if len(full.rec) != 12+64*len(h.recs) {
		panic(fmt.Sprintf("writer produced %d bytes for %d records", len(full.rec), len(h.recs)))
	}
	// expected: what a restart may hand to the engine = the non-expired written records, in order
	var olderExp []vAofRec
	{
		d := e.freshDir()
		vWriteImgs(d, h.older)
		names := []string{}
		for _, f := range h.older {
			names = append(names, f.name)
		}
		if len(names) > 0 {
			olderExp, _ = e.load(d, names, h.rcfg, h.now)
		}
		_ = os.RemoveAll(d)
	}
	// 2. every image (record cut, value cut) consistent with the writer's syscall order
	type cut struct{ rc, dc int }
	var cuts []cut
	seen := map[cut]bool{}
	add := func(c cut) {
		if !seen[c] && c.rc >= h.firstCut {
			seen[c] = true
			cuts = append(cuts, c)
		}
	}
	add(cut{0, 0})
	prev := [2]int{0, 0}
	for _, s := range snaps {
		for rc := prev[0]; rc <= s[0]; rc++ {
			add(cut{rc, prev[1]})
		}
		for dc := prev[1]; dc <= s[1]; dc++ {
			add(cut{s[0], dc})
		}
		prev = s
	}
	names := []string{}
	for _, f := range h.older {
		names = append(names, f.name)
	}
	names = append(names, h.newName)
	forced := 0
	for ci, c := range cuts {
		img := vAofFileImg{h.newName, full.rec[:c.rc], full.dat[:c.dc]}
		files := append(append([]vAofFileImg{}, h.older...), img)
		dir := e.freshDir()
		vWriteImgs(dir, files)
		got, status := e.load(dir, names, h.rcfg, h.now)
		op := vAofLoadOp(files, h.rcfg, h.now)
		e.out.emit(op, vAofRecsString(got)+";"+status)

		// ---- the property itself: delivered = prefix of (older files' records ++ complete, non-expired records of the cut file)
		complete := 0
		if c.rc >= 12 {
			complete = (c.rc - 12) / 64
		}
		res := 0
		if c.rc >= 12 {
			res = (c.rc - 12) % 64
		}
		exp := append([]vAofRec{}, olderExp...)
		dpos := 0
		valueMissing := false
		for i := 0; i < complete; i++ {
			rec := h.recs[i]
			if rec.data != nil {
				if dpos+len(rec.data) > c.dc {
					valueMissing = true
					break // its value never reached the disk: the record is not "complete"; nothing after it can be expected either
				}
				dpos += len(rec.data)
			}
			if !vAofSkipped(rec, h.now) {
				exp = append(exp, rec)
			}
		}
		replay := map[string]interface{}{"op": op, "cut": c.rc, "datacut": c.dc, "residue": res, "delivered": vAofRecsString(got), "status": status}
		okPrefix := len(got) <= len(exp)
		for i := 0; okPrefix && i < len(got); i++ {
			okPrefix = vAofRecEq(got[i], exp[i])
		}
		firstOK := false
		switch {
		case status == "panic":
			e.monitor("C08:restart-panics", "loading a truncated append file panics", replay)
		case status == "err" && c.rc < 12:
			e.monitor("C08:restart-fails:header", fmt.Sprintf("append file cut inside its 12-byte header (%d bytes left): start-up fails instead of recovering the older records", c.rc), replay)
		case status == "err" && res != 0:
			e.monitor("C08:restart-fails:torn-record", fmt.Sprintf("append file cut %d bytes into a record: start-up fails (Lock Len error) instead of recovering the complete records", res), replay)
		case status == "err":
			e.monitor("C08:restart-fails", "start-up fails on an image whose record file ends at a record boundary", replay)
		case !okPrefix && res != 0:
			e.monitor("C08:torn-record-replayed:"+vAofResidueClass(res), fmt.Sprintf("append file cut %d bytes into a record: the torn record is handed to the engine, completed with the previous record's bytes", res), replay)
		case !okPrefix:
			e.monitor("C08:not-a-prefix", "the records handed to the engine are not a prefix of the complete records written", replay)
		default:
			firstOK = true
		}

		// ---- second restart: reopen the torn newest file in append mode (real AofFile.Open), write more, load again
		// besides the sampled cuts: always where the value file is cut behind at least one complete value while the record that owns the
		// torn / missing value is complete — start-up then TRUNCATES the value file, and an off-by-some truncation only shows after more
		// values were appended (seed C08d); at most three such cuts per history
		forceSecond := secondEvery > 0 && valueMissing && dpos > 0 && forced < 3
		if forceSecond {
			forced++
			e.out.stat("second-restart-forced:value-file-truncated")
		}
		// ... and at every cut INSIDE THE 12-BYTE HEADER of the newest file: the append-mode reopen repairs the header, and a wrong repair
		// (e.g. of a file cut after the 8-byte magic) shows only when the file is read again (seed C08h)
		if secondEvery > 0 && c.rc < 12 && len(h.older) == 0 {
			forceSecond = true
			e.out.stat("second-restart-forced:header-cut")
		}
		if secondEvery > 0 && (ci%secondEvery == 0 || forceSecond) && status != "panic" {
			more := []vAofRec{vAofGenRec(r, h.now+100, 90, false), vAofGenRec(r, h.now+100, 91, true), vAofGenRec(r, h.now+100, 92, false)}
			for i := range more { // keep them unexpired
				more[i].buf[57], more[i].buf[58], more[i].buf[59], more[i].buf[60] = 0, 0, 0, 0
			}
			wcfg := h.wcfg
			apOp := fmt.Sprintf("aofappend %d %d %s %s", wcfg, h.rcfg, img.String(), vAofRecsString(more))
			apObs := ""
			func() {
				defer func() {
					if p := recover(); p != nil {
						apObs = "panic"
					}
				}()
				e.write(dir, h.newName, wcfg, more, nil)
				apObs = vReadImg(dir, h.newName).String()
			}()
			e.out.emit(apOp, apObs)
			if apObs != "panic" {
				img2 := vReadImg(dir, h.newName)
				files2 := append(append([]vAofFileImg{}, h.older...), img2)
				got2, status2 := e.load(dir, names, h.rcfg, h.now)
				op2 := vAofLoadOp(files2, h.rcfg, h.now)
				e.out.emit(op2, vAofRecsString(got2)+";"+status2)
				if firstOK {
					exp2 := append(append([]vAofRec{}, got...), more...)
					ok2 := status2 == "ok" && len(got2) == len(exp2)
					for i := 0; ok2 && i < len(exp2); i++ {
						ok2 = vAofRecEq(got2[i], exp2[i])
					}
					if !ok2 {
						cls := "aligned"
						// root cause first: a value file that does not pair with the complete records explains the failure whether or
						// not the record file is torn as well
						if c.rc < 12 {
							cls = "header"
						} else if dpos != c.dc {
							cls = "torn-value"
						} else if valueMissing {
							cls = "missing-value"
						} else if res != 0 {
							cls = "torn-record"
						}
						replay2 := map[string]interface{}{"first": op, "append": apOp, "second": op2, "delivered": vAofRecsString(got2), "status": status2}
						e.monitor("C08:second-restart:"+cls, "records persisted after a restart over a cut log are not recovered (or recovered wrongly) by the following restart", replay2)
					}
				}
			}
		}
		_ = os.RemoveAll(dir)
	}
}

// aofFailedFlush: a Flush whose write of the record buffer FAILS (the record file's descriptor is swapped for a read-only one
// for that single call) must drop the buffered records AND their buffered values (aof.go: windex = 0, dwindex = 0); the records
// written afterwards through the same AofFile must pair with their own values.
func (e *vAofEnv) aofFailedFlush(r *rand.Rand, it int) {
	now := int64(1700000000 + r.Intn(1000000))
	cfg := []uint{128, 192, 4096}[it%3]
	mk := func(n int, base int) []vAofRec {
		var o []vAofRec
		for i := 0; i < n; i++ {
			rec := vAofGenRec(r, now, base+i, i%2 == 0)
			rec.buf[57], rec.buf[58], rec.buf[59], rec.buf[60] = 0, 0, 0, 0 // never expired
			o = append(o, rec)
		}
		return o
	}
	recsA := mk(1, 0) // one record + value: stays in the buffers (buffer of two or more records)
	recsB := mk(2+r.Intn(3), 10)
	dir := e.freshDir()
	defer os.RemoveAll(dir)
	name := "append.aof.1"
	path := filepath.Join(dir, name)
	f := NewAofFile(e.aof, path, os.O_WRONLY, int(cfg))
	if err := f.Open(); err != nil {
		panic(err)
	}
	l := NewAofLock()
	put := func(recs []vAofRec) {
		for _, rc := range recs {
			copy(l.buf, rc.buf)
			_ = l.Decode()
			l.data = rc.data
			if err := f.WriteLock(l); err != nil {
				panic(err)
			}
			if l.AofFlag&AOF_FLAG_CONTAINS_DATA != 0 {
				if err := f.WriteLockData(l); err != nil {
					panic(err)
				}
			}
		}
	}
	put(recsA)
	realFile := f.file
	ro, err := os.Open(path)
	if err != nil {
		panic(err)
	}
	f.file = ro
	ferr := f.Flush()
	f.file = realFile
	_ = ro.Close()
	if ferr == nil {
		panic("aofFailedFlush: the sabotaged flush did not fail")
	}
	put(recsB)
	if err := f.Flush(); err != nil {
		panic(err)
	}
	_ = f.Close()
	img := vReadImg(dir, name)
	op := fmt.Sprintf("aofflusherr %d %s %s", cfg, vAofRecsString(recsA), vAofRecsString(recsB))
	e.out.emit(op, img.String())
	got, status := e.load(dir, []string{name}, cfg, now)
	e.out.emit(vAofLoadOp([]vAofFileImg{img}, cfg, now), vAofRecsString(got)+";"+status)
	ok := status == "ok" && len(got) == len(recsB)
	for i := 0; ok && i < len(recsB); i++ {
		ok = vAofRecEq(got[i], recsB[i])
	}
	if !ok {
		e.monitor("C08:failed-flush-mispairs-values", "after a Flush whose record write failed, the records written next through the same AofFile are not recovered with their own values",
			map[string]interface{}{"op": op, "files": img.String(), "delivered": vAofRecsString(got), "status": status})
	}
}

func vAofGenHistory(r *rand.Rand, e *vAofEnv, it int, long bool) *vAofHistory {
	h := &vAofHistory{now: 1700000000 + int64(r.Intn(1000000))}
	cfgs := []uint{64, 128, 192, 4096, 100}
	h.wcfg = []uint{64, 128, 4096}[r.Intn(3)]
	h.rcfg = cfgs[it%len(cfgs)]
	idx := 1 + r.Intn(3)
	if it%2 == 1 {
		// an older complete file (written by the real writer)
		n := r.Intn(3)
		recs := []vAofRec{}
		for i := 0; i < n; i++ {
			recs = append(recs, vAofGenRec(r, h.now, i, r.Intn(3) == 0))
		}
		d := e.freshDir()
		name := fmt.Sprintf("append.aof.%d", idx)
		e.write(d, name, h.wcfg, recs, nil)
		h.older = append(h.older, vReadImg(d, name))
		_ = os.RemoveAll(d)
		idx++
	}
	h.newName = fmt.Sprintf("append.aof.%d", idx)
	n := 2 + r.Intn(3)
	if long {
		n = 66
		h.rcfg = 4096
		h.wcfg = 4096
		h.firstCut = 12 + 64*62
	}
	for i := 0; i < n; i++ {
		wd := !long && r.Intn(3) == 0
		if it%3 == 0 {
			wd = false
		}
		if !long && it%3 == 1 && i < 3 {
			wd = true // several values in a row: a cut inside a later value leaves complete values before it in the value file
		}
		h.recs = append(h.recs, vAofGenRec(r, h.now, i, wd))
	}
	return h
}

func init() {
	vModes["aofread"] = func(t *testing.T) {
		r := rand.New(rand.NewSource(int64(vEnvInt("VERIF_SEED", 1))))
		n := vEnvInt("VERIF_N", 3)
		out := vOpen("aofread")
		defer out.close()
		e := vNewAofEnv(out)
		defer os.RemoveAll(e.root)
		second := vEnvInt("VERIF_SECOND", 5)
		for it := 0; it < n; it++ {
			h := vAofGenHistory(r, e, it, false)
			e.aofReadHistory(r, h, second)
		}
		for it := 0; it < vEnvInt("VERIF_LONG", 1); it++ {
			h := vAofGenHistory(r, e, 2*it, true)
			e.aofReadHistory(r, h, 0)
		}
		for it := 0; it < vEnvInt("VERIF_FLUSHERR", 6); it++ {
			e.aofFailedFlush(r, it)
		}
	}
}

// ---- aofdeadline ----------------------------------------------------------------------------------------------------------

func vEngineDeadline(eflag uint16, expried uint16, start int64) int64 {
	// lock.go AddLock / GetOrNewLock
	if eflag&protocol.EXPRIED_FLAG_UNLIMITED_EXPRIED_TIME != 0 {
		return 0x7fffffffffffffff
	} else if eflag&protocol.EXPRIED_FLAG_MILLISECOND_TIME == 0 {
		if eflag&protocol.EXPRIED_FLAG_MINUTE_TIME != 0 {
			return start + int64(expried)*60 + 1
		}
		return start + int64(expried) + 1
	}
	return start + int64(expried)/1000 + 1
}

func init() {
	vModes["aofdeadline"] = func(t *testing.T) {
		r := rand.New(rand.NewSource(int64(vEnvInt("VERIF_SEED", 1))))
		n := vEnvInt("VERIF_N", 2000)
		out := vOpen("aofdeadline")
		defer out.close()
		e := vNewAofEnv(out)
		defer os.RemoveAll(e.root)
		db := &LockDB{}
		ch := NewAofChannel(e.aof, db, 0, NewPriorityMutex())
		dir := e.freshDir()
		edge := []int{0, 1, 2, 59, 60, 61, 119, 120, 121, 999, 1000, 1001, 3000, 59999, 60000, 65534, 65535}
		pick := func(max int) int {
			if r.Intn(3) == 0 {
				return edge[r.Intn(len(edge))] % (max + 1)
			}
			if r.Intn(2) == 0 {
				return r.Intn(200) % (max + 1)
			}
			return r.Intn(max + 1)
		}
		for it := 0; it < n; it++ {
			eflag := uint16(0)
			switch r.Intn(8) {
			case 0, 1, 2:
				eflag = 0
			case 3, 4:
				eflag = protocol.EXPRIED_FLAG_MINUTE_TIME
			case 5, 6:
				eflag = protocol.EXPRIED_FLAG_MILLISECOND_TIME
			case 7:
				eflag = protocol.EXPRIED_FLAG_UNLIMITED_EXPRIED_TIME
			}
			if r.Intn(10) == 0 {
				eflag |= uint16(r.Intn(65536)) &^ 0x4440
			}
			E := uint16(pick(65535))
			if E == 0 {
				E = 1 // a hold exists only for Expried > 0
			}
			s := int64(1700000000 + r.Intn(100000))
			d := vEngineDeadline(eflag, E, s)
			life := d - s
			if eflag&protocol.EXPRIED_FLAG_UNLIMITED_EXPRIED_TIME != 0 {
				life = 100000
			}
			// journalled at c ∈ [s, deadline] (the sweeper journals a live hold), reloaded at nw ≥ c
			c := s + int64(pick(int(life)))
			nw := c + int64(pick(70000))
			if r.Intn(50) == 0 {
				nw = c - int64(r.Intn(3)) // clock stepped back
			}
			cmd := &protocol.LockCommand{}
			cmd.CommandType = protocol.COMMAND_LOCK
			cmd.ExpriedFlag = eflag
			cmd.Expried = E
			cmd.Count = 0
			lock := &Lock{command: cmd, startTime: s, expriedTime: d}
			db.currentTime = c
			if err := ch.Push(0, lock, protocol.COMMAND_LOCK, cmd, nil, 0, nil); err != nil {
				panic(err)
			}
			al := ch.pullAofLock()
			_ = al.Encode()
			al.buf[0], al.buf[1] = 62, 0
			ct, age, rem := al.CommandTime, al.StartTime, al.ExpriedTime
			// through the real writer and the real reader (expired-record skip at nw)
			name := "append.aof.1"
			_ = os.Remove(filepath.Join(dir, name))
			_ = os.Remove(filepath.Join(dir, name+".dat"))
			e.write(dir, name, 4096, []vAofRec{{buf: append([]byte{}, al.buf...)}}, nil)
			got, status := e.load(dir, []string{name}, 4096, nw)
			if status != "ok" || len(got) > 1 {
				panic("aofdeadline: unexpected load result " + status)
			}
			skipped := len(got) == 0
			restored := uint16(0)
			if !skipped {
				l2 := NewAofLock()
				copy(l2.buf, got[0].buf)
				_ = l2.Decode()
				db.currentTime = nw
				restored = e.aof.GetLockCommandExpriedTime(db, l2)
			}
			sk := 0
			if skipped {
				sk = 1
			}
			op := fmt.Sprintf("aofdl %d %d %d %d %d", eflag, E, s, c, nw)
			out.emit(op, fmt.Sprintf("%d %d %d %d %d", ct, age, rem, sk, restored))

			// ---- the property (C07, arithmetic part): the restored hold keeps its deadline to within one unit + 1 s
			if eflag&protocol.EXPRIED_FLAG_UNLIMITED_EXPRIED_TIME != 0 || nw < c {
				continue
			}
			unit := int64(1)
			ucls := "seconds"
			if eflag&protocol.EXPRIED_FLAG_MINUTE_TIME != 0 && eflag&protocol.EXPRIED_FLAG_MILLISECOND_TIME == 0 {
				unit, ucls = 60, "minutes"
			} else if eflag&protocol.EXPRIED_FLAG_MILLISECOND_TIME != 0 {
				unit, ucls = 0, "milliseconds"
			}
			replay := map[string]interface{}{"op": op, "deadline": d, "commandTime": ct, "stored": rem, "skipped": skipped, "restoredExpried": restored}
			hasHold := !skipped && restored > 0
			if hasHold {
				d2 := vEngineDeadline(eflag, restored, nw)
				replay["restoredDeadline"] = d2
				if d2 > d+unit+1 {
					e.monitor("C07:deadline-renewed:"+ucls, fmt.Sprintf("a %s-unit hold with deadline %d, journalled at %d and reloaded at %d, is restored with deadline %d (%d s later)", ucls, d, c, nw, d2, d2-d), replay)
				} else if d2 < d-unit-1 {
					e.monitor("C07:deadline-drift:"+ucls, fmt.Sprintf("a %s-unit hold with deadline %d is restored with deadline %d (%d s earlier)", ucls, d, d2, d-d2), replay)
				}
			} else if nw+unit+1 < d {
				// no hold restored although the original had more than one unit + 1 s to live
				e.monitor("C07:deadline-drift:"+ucls+":lost", fmt.Sprintf("a %s-unit hold with deadline %d, journalled at %d, is not restored by a reload at %d (%d s before its deadline)", ucls, d, c, nw, d-nw), replay)
			}
		}
	}
}

// ---- aofrewrite -----------------------------------------------------------------------------------------------------------

func vDirSnapshot(dir string) []vAofFileImg {
	ents, err := os.ReadDir(dir)
	if err != nil {
		panic(err)
	}
	var out []vAofFileImg
	for _, en := range ents {
		if en.IsDir() || strings.HasSuffix(en.Name(), ".log") {
			continue
		}
		b, _ := os.ReadFile(filepath.Join(dir, en.Name()))
		if b == nil {
			b = []byte{}
		}
		out = append(out, vAofFileImg{name: en.Name(), rec: b})
	}
	sort.Slice(out, func(i, j int) bool { return out[i].name < out[j].name })
	return out
}

func vDirString(fs []vAofFileImg) string {
	if len(fs) == 0 {
		return "-"
	}
	s := make([]string, len(fs))
	for i, f := range fs {
		s[i] = f.name + "=" + vHex(f.rec)
	}
	return strings.Join(s, " ")
}
