package server

import (
	"fmt"
	"math/rand"
	"runtime"
	"testing"

	"github.com/snower/slock/protocol"
)

// Mode "valueexec": the REAL LockCommandData.DecodeLockCommand (the 64-byte command embedded in an EXECUTE value
// frame plus that command's own data frame) on generated EXECUTE frames, and the same frames end to end through
// LockDB.Lock on a real SLock+LockDB (EXECUTE arm of ProcessLockData, current stage).
//   valuedecode <frame hex> <bytes between len and cap, hex>
//     -> refused | err <big01> | panic | ok <decoded command re-encoded, 64 bytes hex> <its data frame hex or -> <big01>
//        (big = at least 128 KiB were allocated during the call: make([]byte, dataLen+4) precedes the length check;
//         announced lengths between 16 KiB and 256 KiB are not generated, so allocator rounding cannot blur the bit)
//   valuedecode-e2e <frame hex> <extra hex>  -> nopanic | panic
// Monitor: panic:DecodeLockCommand:<cause class>

func vxCmd64(r *rand.Rand, withData bool, dbId uint8) []byte {
	c := &protocol.LockCommand{}
	c.Magic, c.Version = protocol.MAGIC, protocol.VERSION
	c.CommandType = protocol.COMMAND_LOCK
	if r.Intn(3) == 0 {
		c.CommandType = protocol.COMMAND_UNLOCK
	}
	copy(c.RequestId[:], vRandBytes(r, 16))
	copy(c.LockId[:], vRandBytes(r, 16))
	copy(c.LockKey[:], vRandBytes(r, 16))
	c.Flag = uint8(r.Intn(256)) &^ protocol.LOCK_FLAG_CONTAINS_DATA
	if withData {
		c.Flag |= protocol.LOCK_FLAG_CONTAINS_DATA
	}
	c.DbId = dbId
	c.Timeout, c.TimeoutFlag, c.Expried, c.ExpriedFlag = uint16(r.Intn(65536)), uint16(r.Intn(65536)), uint16(r.Intn(65536)), uint16(r.Intn(65536))
	c.Count, c.Rcount = uint16(r.Intn(65536)), uint8(r.Intn(256))
	buf := make([]byte, 64)
	if err := c.Encode(buf); err != nil {
		panic(err)
	}
	if r.Intn(10) == 0 { // or simply 64 arbitrary bytes
		keep := buf[19] & protocol.LOCK_FLAG_CONTAINS_DATA
		buf = vRandBytes(r, 64)
		buf[19] = buf[19]&^protocol.LOCK_FLAG_CONTAINS_DATA | keep
		buf[20] = dbId
	}
	return buf
}

var vxHuge = 0

// one generated EXECUTE frame (len bytes) and the spare capacity behind it
func vxFrame(r *rand.Rand, dbId uint8, e2e bool) (f []byte, extra []byte) {
	stage := byte(0)
	if !e2e && r.Intn(4) == 0 {
		stage = byte(r.Intn(4))
	}
	flag := byte(0)
	if !e2e && r.Intn(8) == 0 {
		flag = byte(r.Intn(256)) &^ protocol.LOCK_DATA_FLAG_CONTAINS_PROPERTY
	}
	var props []byte
	hasProps := r.Intn(3) == 0
	if hasProps {
		props = vRandBytes(r, r.Intn(12))
		flag |= protocol.LOCK_DATA_FLAG_CONTAINS_PROPERTY
	}
	withData := r.Intn(4) != 0
	cmd := vxCmd64(r, withData, dbId)
	// the embedded command's own data frame: mostly a well-formed value frame body
	var body []byte
	switch r.Intn(6) {
	case 0:
		body = vRandBytes(r, r.Intn(12))
	case 1:
		body = []byte{}
	default:
		body = vvFrame(vvGenOp(r, vvVal{}, 1))[4:]
	}
	declared := int64(len(body))
	present := body
	switch r.Intn(10) {
	case 0, 1, 2: // declared N, N-5..N+5 bytes present
		d := r.Intn(11) - 5
		if d < 0 && -d <= len(body) {
			present = body[:len(body)+d]
		} else if d > 0 {
			present = append(append([]byte{}, body...), vRandBytes(r, d)...)
		}
	case 3:
		declared = 0
	case 4: // large / huge announced lengths
		declared = int64(len(body)) + 1
		if r.Intn(4) == 0 {
			declared = []int64{1 << 18, 1 << 20, 1 << 22}[r.Intn(3)] + int64(r.Intn(3)) - 1
			if r.Intn(25) == 0 && vxHuge < 8 { // a few multi-GiB announcements per run (each really allocates that much)
				vxHuge++
				declared = []int64{1<<31 - 4, 1<<31 - 5, 1 << 31, 1<<32 - 1}[r.Intn(4)]
			}
		}
	case 5:
		declared = int64(len(body)) + int64(r.Intn(9)) - 4
		if declared < 0 {
			declared = 0
		}
	}
	b := []byte{0, 0, 0, 0, protocol.LOCK_DATA_COMMAND_TYPE_EXECUTE | stage<<6, flag}
	if hasProps {
		b = append(b, byte(len(props)), byte(len(props)>>8))
		b = append(b, props...)
	}
	b = append(b, cmd...)
	if withData || r.Intn(6) == 0 {
		b = append(b, byte(declared), byte(declared>>8), byte(declared>>16), byte(declared>>24))
		b = append(b, present...)
	}
	// truncated at every possible byte (the embedded command, the length field, the data)
	if r.Intn(4) == 0 {
		b = b[:r.Intn(len(b)+1)]
	}
	if r.Intn(30) == 0 && len(b) > 8 {
		b[6+r.Intn(2)] ^= byte(1 << uint(r.Intn(8))) // damaged property length
	}
	if len(b) >= 4 {
		n := len(b) - 4
		b[0], b[1], b[2], b[3] = byte(n), byte(n>>8), byte(n>>16), byte(n>>24)
	}
	k := 0
	if r.Intn(3) == 0 {
		k = 1 + r.Intn(8) // spare capacity: a slice that only the capacity check lets through reads these bytes
	}
	buf := make([]byte, len(b)+k)
	copy(buf, b)
	copy(buf[len(b):], vRandBytes(r, k))
	return buf[:len(b)], buf[len(b):]
}

// the data length the embedded command announces (-1: none readable)
func vxAnnounced(f []byte) int64 {
	off, ok := vvCellOffset(f)
	if !ok || len(f) < off+68 {
		return -1
	}
	return int64(uint32(f[off+64]) | uint32(f[off+65])<<8 | uint32(f[off+66])<<16 | uint32(f[off+67])<<24)
}

func vxCause(f []byte) string {
	if len(f) < 6 {
		return "frame-shorter-than-6"
	}
	off := 6
	if f[5]&protocol.LOCK_DATA_FLAG_CONTAINS_PROPERTY != 0 {
		if len(f) < 8 {
			return "property-flag-on-frame-shorter-than-8"
		}
		off = 8 + int(f[6]) + int(f[7])<<8
	}
	if len(f) < off+64 {
		return "embedded-command-truncated"
	}
	if len(f) < off+68 {
		return "data-length-field-truncated"
	}
	n := int(uint32(f[off+64]) | uint32(f[off+65])<<8 | uint32(f[off+66])<<16 | uint32(f[off+67])<<24)
	if len(f) < off+68+n {
		return "data-shorter-than-declared"
	}
	return "other"
}

func init() {
	vModes["valueexec"] = func(t *testing.T) {
		r := rand.New(rand.NewSource(int64(vEnvInt("VERIF_SEED", 1))))
		n := vEnvInt("VERIF_N", 2000)
		out := vOpen("valueexec")
		defer out.close()
		var m0, m1 runtime.MemStats
		for it := 0; it < n; it++ {
			f, extra := vxFrame(r, uint8(r.Intn(3)), false)
			if a := vxAnnounced(f); a >= 16384 && a < 262144 {
				continue
			}
			op := "valuedecode " + vHex(f) + " " + vHex(extra)
			obs := ""
			func() {
				defer func() {
					if e := recover(); e != nil {
						obs = "panic"
						cls := vxCause(f)
						out.monitor("panic:DecodeLockCommand:"+cls, "DecodeLockCommand panics on a client-supplied EXECUTE value frame ("+cls+")",
							map[string]interface{}{"op": op, "panic": fmt.Sprint(e)})
					}
				}()
				d := protocol.NewLockCommandDataFromOriginBytes(f)
				if d == nil {
					obs = "refused"
					return
				}
				lc := &protocol.LockCommand{}
				// ReadMemStats stops the world: measure every frame that announces a large length and a sample of the others
				measure := vxAnnounced(f) >= 16384 || it%8 == 0
				if measure {
					runtime.ReadMemStats(&m0)
				}
				err := d.DecodeLockCommand(lc)
				big := "0"
				if measure {
					runtime.ReadMemStats(&m1)
					if m1.TotalAlloc-m0.TotalAlloc >= 131072 {
						big = "1"
					}
				}
				if err != nil {
					obs = "err " + big
					return
				}
				enc := make([]byte, 64)
				_ = lc.Encode(enc)
				sub := "-"
				if lc.Data != nil {
					sub = vHex(lc.Data.Data)
				}
				obs = "ok " + vHex(enc) + " " + sub + " " + big
			}()
			out.emit(op, obs)
		}
		// ---- the same kind of frames end to end: LOCK carrying the EXECUTE frame through LockDB.Lock (grant ->
		// ProcessLockData, EXECUTE arm, current stage -> lock.protocol.GetLockCommand + DecodeLockCommand). The embedded
		// command names another db (7), so nothing is handed to an executor goroutine.
		ne := n / 20
		if ne > 1500 {
			ne = 1500
		}
		newSeq := func() *vSeq {
			v := vNewSeq(1, 0xff)
			_ = v.conns[0].SetResultCallback(func(p *MemWaiterServerProtocol, cmd *protocol.LockCommand, result uint8, lcount uint16, lrcount uint8, data []byte) error {
				return nil
			})
			return v
		}
		v := newSeq()
		panics := 0
		for it := 0; it < ne && panics < 3; it++ {
			f, extra := vxFrame(r, 7, true)
			if len(f) > 6 {
				off, ok := vvCellOffset(f)
				if ok && off+20 < len(f) {
					f[off+20] = 7
				}
			}
			d := protocol.NewLockCommandDataFromOriginBytes(f)
			if d == nil {
				continue
			}
			op := "valuedecode-e2e " + vHex(f) + " " + vHex(extra)
			obs := "nopanic"
			func() {
				defer func() {
					if e := recover(); e != nil {
						obs = "panic"
						cls := vxCause(f)
						out.monitor("panic:DecodeLockCommand:"+cls, "LockDB.Lock panics on a LOCK carrying an EXECUTE value frame ("+cls+")",
							map[string]interface{}{"op": op, "panic": fmt.Sprint(e), "path": "MemWaiterServerProtocol.ProcessLockCommand -> LockDB.Lock -> ProcessLockData"})
					}
				}()
				cmd := &protocol.LockCommand{Command: protocol.Command{Magic: protocol.MAGIC, Version: protocol.VERSION, CommandType: protocol.COMMAND_LOCK, RequestId: vId16(it + 1)},
					Flag: protocol.LOCK_FLAG_CONTAINS_DATA, DbId: 0, LockId: vId16(it + 1), LockKey: vId16(100000 + it), Timeout: 0, Expried: 30, Count: 0, Rcount: 0}
				cmd.Data = d
				_ = v.conns[0].ProcessLockCommand(cmd)
			}()
			out.emit(op, obs)
			if obs == "panic" {
				panics++
				v = newSeq() // the old instance holds a shard mutex
			}
		}
	}
}
