package server

// Millisecond-unit wait timeouts (C05) and hold expiries (C06).
//
// mode "msw"    — VIRTUAL server clock (sweepers parked, see zz_verif_engine_test.go), REAL wall clock for the millisecond stage:
//                 the park goroutine (checkMillisecondTimeOut / checkMillisecondExpried) sleeps in real time, then either fires or
//                 hands the record to the second wheel, which only moves when the harness ticks. One case = one request with the
//                 millisecond flag and value T on a fresh key. Observation for the differential with M-MSWHEEL (lean/Slock/Model/
//                 MsWheel.lean): `fire` | `second:<deadline>`; op line `msw <startSecond> <T>`.
// mode "msreal" — everything in real time (live sweepers, a second SLock instance): a handful of concurrent probes issued at a
//                 chosen fraction of a wall second; only monitors (the property's bounds measured with the wall clock).
//
// VERIF_MS_KIND = wait | hold | both (default both). Monitors are keyed C05:… for waits and C06:… for holds.

import (
	"fmt"
	"math/rand"
	"os"
	"sync"
	"testing"
	"time"

	"github.com/jessevdk/go-flags"
	"github.com/snower/slock/protocol"
)

type vMsReply struct {
	req, result int
	at          time.Time
}

type vMsRec struct {
	mu  sync.Mutex
	got map[int][]vMsReply
}

func (r *vMsRec) add(req, result int) {
	r.mu.Lock()
	r.got[req] = append(r.got[req], vMsReply{req, result, time.Now()})
	r.mu.Unlock()
}

func (r *vMsRec) get(req int) []vMsReply {
	r.mu.Lock()
	defer r.mu.Unlock()
	return append([]vMsReply{}, r.got[req]...)
}

func vMsCmd(kind uint8, req, lockId, key int, tflag, timeout, eflag, expried uint16) *protocol.LockCommand {
	return &protocol.LockCommand{Command: protocol.Command{Magic: protocol.MAGIC, Version: protocol.VERSION, CommandType: kind, RequestId: vId16(req)},
		LockId: vId16(lockId), LockKey: vId16(key), TimeoutFlag: tflag, Timeout: timeout, ExpriedFlag: eflag, Expried: expried}
}

func vMsPrefix(hold bool) string {
	if hold {
		return "C06"
	}
	return "C05"
}

// vMswFollower: a replicated (journalled) millisecond hold on a node that is NOT the leader must not be ended by the node's own
// clock (C10): after the park it is either re-armed 30 s ahead (value < 3000) or handed to the second wheel, where the sweep defers it too.
func vMswFollower(t *testing.T) {
	out := vOpen("mswf")
	defer out.close()
	seed := int64(vEnvInt("VERIF_SEED", 1))
	r := rand.New(rand.NewSource(seed))
	n := vEnvInt("VERIF_N", 12)
	vFastPark = true
	v := vNewSeq(1, 0xff)
	rec := &vMsRec{got: map[int][]vMsReply{}}
	v.onReply = func(rp vReply) { rec.add(rp.req, rp.result) }
	req, key := 100, 5000
	for i := 0; i < n; i++ {
		T := []int{3, 20, 60, 150, 3000, 3007, 6020}[r.Intn(7)]
		if ft := vEnvInt("VERIF_MS_T", -1); ft >= 0 {
			T = ft
		}
		key++
		req += 3
		start := v.db.currentTime
		replay := map[string]interface{}{"mode": "mswf", "kind": "follower", "T": T, "seed": seed, "case": i}
		_ = v.conns[0].ProcessLockCommand(vMsCmd(protocol.COMMAND_LOCK, req, req, key, 0, 0, 0x400, uint16(T)))
		// make it what a follower holds: a journalled hold, on a node that is not the leader
		m := v.db.GetLockManager(&protocol.LockCommand{LockKey: vId16(key)})
		ok := false
		if m != nil {
			m.glock.Lock()
			if m.currentLock != nil && m.currentLock.command != nil && vInt16(m.currentLock.command.RequestId) == req {
				m.currentLock.isAof = true
				ok = true
			}
			m.glock.Unlock()
		}
		if !ok {
			out.emit(fmt.Sprintf("# mswf %d %d", start, T), "# hold-not-found")
			continue
		}
		v.db.status = STATE_FOLLOWER
		time.Sleep(time.Duration(T%3000+70) * time.Millisecond)
		for w := 0; w < 300 && vMsPending(v.db); w++ {
			time.Sleep(10 * time.Millisecond)
		}
		ended := func() bool {
			for _, g := range rec.get(req) {
				if g.result == protocol_RESULT_EXPRIED {
					return true
				}
			}
			return false
		}
		holdExp := func() (int64, bool) {
			for _, h := range v.keySnap(key).holds {
				if h.req == req {
					return h.expT, true
				}
			}
			return 0, false
		}
		obs := ""
		e, live := holdExp()
		if T < 3000 {
			obs = "fire"
		} else {
			obs = fmt.Sprintf("second:%d", e)
			// the second wheel reaches the deadline: the sweep must defer as well
			d0 := e
			for k := 0; k < T/1000+3 && live && !ended() && e == d0; k++ {
				v.tick()
				e, live = holdExp()
			}
		}
		if ended() || !live {
			out.monitor("C10:follower-ended-replicated-hold:millisecond", fmt.Sprintf("a replicated hold with %d ms on a non-leader node was ended by the node's own clock (EXPRIED sent: %v, hold still present: %v)", T, ended(), live), replay)
			obs += " ended"
		} else {
			obs += fmt.Sprintf(" defer:%d", e-v.db.currentTime)
		}
		out.stat("follower")
		out.emit(fmt.Sprintf("mswf %d %d", start, T), obs)
		v.db.status = STATE_LEADER
		_ = v.conns[0].ProcessLockCommand(vMsCmd(protocol.COMMAND_UNLOCK, req+2, req, key, 0, 0, 0, 0))
	}
}

func vMsKinds() []bool {
	switch os.Getenv("VERIF_MS_KIND") {
	case "wait":
		return []bool{false}
	case "hold":
		return []bool{true}
	}
	return []bool{false, true}
}

// ---------------------------------------------------------------------------------------------------------------------
// mode msw

func vMswRun(t *testing.T) {
	out := vOpen("msw")
	defer out.close()
	seed := int64(vEnvInt("VERIF_SEED", 1))
	r := rand.New(rand.NewSource(seed))
	n := vEnvInt("VERIF_N", 40)
	slow := vEnvInt("VERIF_MS_SLOW", 0) != 0 // allow long parks (thorough tier)
	vFastPark = true
	v := vNewSeq(2, 0xff)
	rec := &vMsRec{got: map[int][]vMsReply{}}
	v.onReply = func(rp vReply) { rec.add(rp.req, rp.result) }
	kinds := vMsKinds()
	req, key := 100, 100
	kcMsw0 := v.counters().KeyCount
	for i := 0; i < n; i++ {
		hold := kinds[i%len(kinds)]
		px := vMsPrefix(hold)
		// value: sub-3-second values, and ≥ 3 s values whose park (T % 3000) is short
		var T int
		switch r.Intn(10) {
		case 0, 1, 2:
			T = []int{1, 2, 5, 17, 40, 99, 150}[r.Intn(7)]
		case 3:
			T = 3000
		case 4:
			T = 3000*(1+r.Intn(21)) + r.Intn(3)
		case 5:
			T = 3000*(1+r.Intn(21)) + r.Intn(60)
		case 6:
			T = []int{3001, 3999 - 3000 + 3000, 6000, 9000, 63000}[r.Intn(5)]
			if T == 3999 && !slow {
				T = 3040
			}
		case 7:
			if slow {
				T = []int{2999, 3999, 5999, 65535, 1500}[r.Intn(5)]
			} else {
				T = 200 + r.Intn(100)
			}
		default:
			T = 3000*(1+r.Intn(4)) + r.Intn(25)
		}
		if T > 65535 {
			T = 65535
		}
		if ft := vEnvInt("VERIF_MS_T", -1); ft >= 0 {
			T = ft // replay of one recorded case
		}
		key++
		req += 3
		start := v.db.currentTime
		what := map[bool]string{false: "wait", true: "hold"}[hold]
		replay := map[string]interface{}{"mode": "msw", "kind": what, "T": T, "seed": seed, "case": i}
		var probe int // the request whose TIMEOUT / EXPRIED we wait for
		var want int
		t0 := time.Now()
		if hold {
			probe, want = req, protocol_RESULT_EXPRIED
			_ = v.conns[0].ProcessLockCommand(vMsCmd(protocol.COMMAND_LOCK, req, req, key, 0, 0, 0x400, uint16(T)))
		} else {
			probe, want = req+1, protocol_RESULT_TIMEOUT
			_ = v.conns[0].ProcessLockCommand(vMsCmd(protocol.COMMAND_LOCK, req, req, key, 0, 0, 0x4000, 10))
			t0 = time.Now()
			_ = v.conns[1].ProcessLockCommand(vMsCmd(protocol.COMMAND_LOCK, req+1, req+1, key, 0x400, uint16(T), 0, 10))
		}
		final := func() (vMsReply, bool) {
			for _, g := range rec.get(probe) {
				if g.result == want {
					return g, true
				}
			}
			return vMsReply{}, false
		}
		obs := "?"
		park := T % 3000
		if T < 3000 {
			deadline := time.Now().Add(time.Duration(T+1500) * time.Millisecond)
			var g vMsReply
			ok := false
			for time.Now().Before(deadline) {
				if g, ok = final(); ok {
					break
				}
				time.Sleep(time.Millisecond / 2)
			}
			if !ok {
				obs = "none"
				out.monitor(px+":ms-never-fired", fmt.Sprintf("%s with %d ms: no %d reply within %d ms of wall time", what, T, want, T+1500), replay)
			} else {
				obs = "fire"
				el := g.at.Sub(t0)
				if el < time.Duration(T)*time.Millisecond-1500*time.Microsecond {
					out.monitor(px+":early:millisecond", fmt.Sprintf("%s with %d ms was ended after %v of wall time", what, T, el), replay)
				}
				out.stat("sub3s")
			}
		} else if !hold && i%4 == 3 {
			// GRANTED DURING THE PARK: the holder releases at once, the queued request is granted while its millisecond-table entry
			// is still parked; when the park ends (and later, when its former deadline passes on the second wheel) nothing more
			// may be sent under its RequestId and the hold must stay (C03: one terminal reply; C05: no TIMEOUT after a grant)
			_ = v.conns[0].ProcessLockCommand(vMsCmd(protocol.COMMAND_UNLOCK, req+2, req, key, 0, 0, 0, 0))
			time.Sleep(time.Duration(park+70) * time.Millisecond)
			for w := 0; w < 300 && vMsPending(v.db); w++ {
				time.Sleep(10 * time.Millisecond)
			}
			for k := 0; k < T/1000+3 && k < 8; k++ {
				v.tick()
			}
			got := rec.get(probe)
			granted, timedOut := false, false
			for _, g := range got {
				if g.result == 0 {
					granted = true
				}
				if g.result == protocol_RESULT_TIMEOUT {
					timedOut = true
				}
			}
			stillHeld := false
			for _, h := range v.keySnap(key).holds {
				if h.req == probe {
					stillHeld = true
				}
			}
			obs = "granted"
			for _, g := range got {
				if g.result == protocol_RESULT_EXPRIED {
					// C06: the hold was granted with an expiry of 10 SECONDS (only its wait timeout is in milliseconds) and fewer than 10 s of
					// server time have passed
					out.monitor("C06:early:granted-from-millisecond-wait", fmt.Sprintf("a request with a %d ms wait and a 10 s expiry was granted from the queue and ended with EXPRIED %v after the grant, in less than 10 s of server time", T, g.at.Sub(t0)), replay)
				}
			}
			if !granted {
				obs = "not-granted"
			} else if timedOut || len(got) != 1 || !stillHeld {
				obs = "granted-then-timeout"
				out.monitor("C05:timeout-after-grant:millisecond", fmt.Sprintf("request with a %d ms wait was granted while parked in the millisecond table and later received %v (hold still present: %v)", T, got, stillHeld), replay)
				out.monitor("C03:second-terminal-reply:millisecond", fmt.Sprintf("request with a %d ms wait received %d replies: %v", T, len(got), got), replay)
			}
			out.stat("granted-during-park")
			out.emit(fmt.Sprintf("# msw-grant %d %d", start, T), fmt.Sprintf("# msw-grant %d %d", start, T))
			_ = obs
			_ = v.conns[1].ProcessLockCommand(vMsCmd(protocol.COMMAND_UNLOCK, req+2, req+1, key, 0, 0, 0, 0))
			out.stat(what)
			continue
		} else {
			// A SECOND BOUNDARY PASSES DURING THE PARK (every third case): the request was queued late in its second, the server
			// clock moves on while the entry is still parked in the millisecond table; the deadline handed to the second wheel is
			// counted from the START of the request all the same
			j := 0
			if i%3 == 1 {
				v.tick()
				j = 1
				out.stat("second-boundary-during-park")
			}
			time.Sleep(time.Duration(park+70) * time.Millisecond)
			// on a loaded machine the park goroutine may wake late: wait until the millisecond tables are empty (≤ 3 s more)
			for w := 0; w < 300 && vMsPending(v.db); w++ {
				time.Sleep(10 * time.Millisecond)
			}
			if g, ok := final(); ok {
				obs = "fire"
				out.monitor(px+":early:millisecond", fmt.Sprintf("%s with %d ms was ended after %v of wall time and 0 s of server time", what, T, g.at.Sub(t0)), replay)
			} else {
				ks := v.keySnap(key)
				d := int64(-1)
				if hold {
					for _, h := range ks.holds {
						if h.req == req {
							d = h.expT
						}
					}
				} else {
					for _, w := range ks.waits {
						var id, rq int
						var tt int64
						fmt.Sscanf(strings_ReplaceDots(w), "%d %d %d", &id, &rq, &tt)
						if rq == probe {
							d = tt
						}
					}
				}
				obs = fmt.Sprintf("second:%d", d)
				if d > start+int64(T/1000)+1 {
					// queued during second `start`, ended by the sweep of second d: that is up to d+1-start seconds later, which must stay ≤ T + 2 s
					out.monitor(px+":late:handed-over-deadline", fmt.Sprintf("%s with %d ms queued in second %d was handed to the second wheel with deadline %d (%d s of server time passed during the park): later than start + T + 2 s", what, T, start, d, j), replay)
				}
				// now the second wheel: tick until answered
				k := j
				for ; k < T/1000+6; k++ {
					v.tick()
					if _, ok := final(); ok {
						k++
						break
					}
				}
				if _, ok := final(); !ok {
					out.monitor(px+":ms-never-fired", fmt.Sprintf("%s with %d ms: handed to the second wheel (deadline %d, start %d) but not ended after %d s of server time", what, T, d, start, k), replay)
				} else {
					lo := (T + 999) / 1000
					if k < lo {
						out.monitor(px+":early:millisecond", fmt.Sprintf("%s with %d ms was ended after %d s of server time", what, T, k), replay)
					}
					if k > T/1000+3 {
						out.monitor(px+":late:millisecond", fmt.Sprintf("%s with %d ms was ended only after %d s of server time", what, T, k), replay)
					}
				}
				out.stat("ge3s")
			}
		}
		out.stat(what)
		out.emit(fmt.Sprintf("msw %d %d", start, T), obs)
		// clean up the key: release the holder of a wait case; a hold case has expired (or is released now)
		if !hold {
			_ = v.conns[0].ProcessLockCommand(vMsCmd(protocol.COMMAND_UNLOCK, req+2, req, key, 0, 0, 0, 0))
		} else if _, ok := final(); !ok {
			_ = v.conns[0].ProcessLockCommand(vMsCmd(protocol.COMMAND_UNLOCK, req+2, req, key, 0, 0, 0, 0))
		}
		if _, ok := final(); ok {
			if n := len(rec.get(probe)); (hold && n != 2) || (!hold && n != 1) {
				out.monitor(px+":ms-reply-count", fmt.Sprintf("%s with %d ms: request %d received %d replies: %v", what, T, probe, n, rec.get(probe)), replay)
			}
		}
	}
	// C17: every wait was answered, every hold has ended or was released: once the parks are over (a request granted or cancelled while
	// parked leaves a dead entry that the park goroutine must drop) and 20 s of server time have passed, no key record may be left
	for w := 0; w < 400 && vMsPending(v.db); w++ {
		time.Sleep(10 * time.Millisecond)
	}
	for k := 0; k < 20; k++ {
		v.tick()
	}
	kc := v.counters().KeyCount
	for try := 0; try < 15; try++ {
		v.db.managerGlocks[0].Lock()
		v.db.flushWaitRemoveLockManagerQueue(0)
		v.db.managerGlocks[0].Unlock()
		if kc = v.counters().KeyCount; kc == kcMsw0 && !vMsPending(v.db) {
			break
		}
		time.Sleep(200 * time.Millisecond)
	}
	if kc != kcMsw0 {
		out.monitor("C17:keycount-after-drain:millisecond", fmt.Sprintf("KeyCount is %d (baseline %d) after every millisecond wait was answered, every hold ended and 20 s passed", kc, kcMsw0), map[string]interface{}{"mode": "msw", "seed": seed})
	}
}

// vMsPending: is any record still parked in a millisecond table of shard 0?
func vMsPending(db *LockDB) bool {
	db.managerGlocks[0].Lock()
	defer db.managerGlocks[0].Unlock()
	for _, q := range db.millisecondTimeoutLocks[0] {
		if q != nil {
			return true
		}
	}
	for _, q := range db.millisecondExpriedLocks[0] {
		if q != nil {
			return true
		}
	}
	return false
}

// vMsEntries: a census of the expiry ENTRIES of the hold record of `key` in shard 0: the slot of the millisecond expiry table it sits in (-1: none),
// and how often the record is found in the millisecond table, in the long table and in the second wheel
func vMsEntries(db *LockDB, key int) (slot, nMs, nLong, nWheel int) {
	slot = -1
	m := db.GetLockManager(&protocol.LockCommand{LockKey: vId16(key)})
	if m == nil {
		return
	}
	db.managerGlocks[0].Lock()
	defer db.managerGlocks[0].Unlock()
	l := m.currentLock
	if l == nil || m.lockKey != vId16(key) {
		return
	}
	count := func(q *LockQueue) int {
		n := 0
		for i := range q.IterNodes() {
			for _, x := range q.IterNodeQueues(int32(i)) {
				if x == l {
					n++
				}
			}
		}
		return n
	}
	for i, q := range db.millisecondExpriedLocks[0] {
		if q != nil {
			if c := count(&q.LockQueue); c > 0 {
				nMs += c
				if slot < 0 {
					slot = i
				}
			}
		}
	}
	for _, lq := range db.longExpriedLocks[0] {
		if lq != nil {
			nLong += count(&lq.locks)
		}
	}
	for _, qs := range db.expriedLocks {
		if len(qs) > 0 && qs[0] != nil {
			nWheel += count(qs[0])
		}
	}
	return
}

func vMsSlot(db *LockDB, key int) int {
	slot, _, _, _ := vMsEntries(db, key)
	return slot
}

// vMsReterm: the observation of the msupd differential from the real state after the update / re-lock: `before` = the hold before it
func vMsReterm(v *vSeq, key, req int, before vHoldSnap, slot0 int) string {
	hsA := v.keySnap(key).holds
	if len(hsA) != 1 {
		return "hold-gone"
	}
	slot1, nMs, nLong, nWheel := vMsEntries(v.db, key)
	if hsA[0].req == req && hsA[0].expT == before.expT {
		return "ignored"
	}
	cls := ""
	switch {
	case slot1 >= 0 && slot1 == slot0:
		cls = fmt.Sprintf("stale:%d", hsA[0].expT)
	case slot1 >= 0:
		cls = fmt.Sprintf("reparked:%d", hsA[0].expT)
	case hsA[0].long:
		cls = fmt.Sprintf("second:%d:long", hsA[0].expT)
	default:
		cls = fmt.Sprintf("second:%d", hsA[0].expT)
	}
	// exactly one entry, in the table the classification names (a second entry, or none, is not something the model can say)
	wMs, wLong, wWheel := 0, 0, 0
	switch {
	case slot1 >= 0:
		wMs = 1
	case hsA[0].long:
		wLong = 1
	default:
		wWheel = 1
	}
	if nMs != wMs || nLong != wLong || nWheel != wWheel {
		cls += fmt.Sprintf("!entries(ms=%d,long=%d,wheel=%d)", nMs, nLong, nWheel)
	}
	return cls
}

func vIndexOr(s string, c byte) int {
	for i := 0; i < len(s); i++ {
		if s[i] == c {
			return i
		}
	}
	return len(s)
}

func strings_ReplaceDots(s string) string {
	b := []byte(s)
	for i := range b {
		if b[i] == '.' {
			b[i] = ' '
		}
	}
	return string(b)
}

// ---------------------------------------------------------------------------------------------------------------------
// mode msreal

func vMsRealRun(t *testing.T) {
	out := vOpen("msreal")
	defer out.close()
	dir, err := os.MkdirTemp(os.Getenv("VERIF_DATA"), "msreal")
	if err != nil {
		panic(err)
	}
	cfg := &ServerConfig{}
	parse := flags.NewParser(cfg, flags.Default)
	if _, err := parse.ParseArgs([]string{"--data_dir", dir, "--db_concurrent", "1", "--db_fast_key_count", "64", "--log_level", "ERROR", "--log", dir + "/slock.log"}); err != nil {
		panic(err)
	}
	logger, _ := InitLogger(cfg)
	s := NewSLock(cfg, logger)
	s.aof.dataDir = dir
	s.state = STATE_LEADER
	db := NewLockDB(s, 0) // live sweepers
	s.dbs[0] = db
	db.aofTime = 0xff
	defer func() { db.status = STATE_CLOSE; s.state = STATE_CLOSE; time.Sleep(1100 * time.Millisecond) }()
	rec := &vMsRec{got: map[int][]vMsReply{}}
	c := NewMemWaiterServerProtocol(s)
	_ = c.SetResultCallback(func(p *MemWaiterServerProtocol, cmd *protocol.LockCommand, result uint8, lcount uint16, lrcount uint8, data []byte) error {
		rec.add(vInt16(cmd.RequestId), int(result))
		return nil
	})
	// probes: "T@fraction" — the fraction of the wall second (in ms) at which the request is issued
	type probe struct {
		T, frac int
		hold    bool
	}
	var probes []probe
	vals := []int{25, 3000, 3040, 3999}
	if vEnvInt("VERIF_MS_SLOW", 0) != 0 {
		vals = []int{1, 25, 400, 2999, 3000, 3001, 3040, 3999, 4500, 5999, 6000, 9400}
	}
	frac := vEnvInt("VERIF_MS_FRAC", 930)
	if ft := vEnvInt("VERIF_MS_T", -1); ft >= 0 {
		vals = []int{ft} // replay of one recorded probe
	}
	for _, hold := range vMsKinds() {
		for _, T := range vals {
			probes = append(probes, probe{T, frac, hold})
			if vEnvInt("VERIF_MS_SLOW", 0) != 0 && vEnvInt("VERIF_MS_T", -1) < 0 {
				probes = append(probes, probe{T, 100, hold})
			}
		}
	}
	var wg sync.WaitGroup
	var mu sync.Mutex
	for i, p := range probes {
		wg.Add(1)
		go func(i int, p probe) {
			defer wg.Done()
			defer func() {
				if e := recover(); e != nil {
					mu.Lock()
					out.monitor("C13:panic:msreal", fmt.Sprint(e), nil)
					mu.Unlock()
				}
			}()
			px := vMsPrefix(p.hold)
			what := map[bool]string{false: "wait", true: "hold"}[p.hold]
			req, key := 1000+10*i, 1000+i
			for {
				f := int(time.Now().UnixNano() % 1e9 / 1e6)
				if f >= p.frac && f < p.frac+25 {
					break
				}
				time.Sleep(time.Millisecond)
			}
			var pr, want int
			var t0 time.Time
			if p.hold {
				pr, want = req, protocol_RESULT_EXPRIED
				t0 = time.Now()
				_ = c.ProcessLockCommand(vMsCmd(protocol.COMMAND_LOCK, req, req, key, 0, 0, 0x400, uint16(p.T)))
			} else {
				pr, want = req+1, protocol_RESULT_TIMEOUT
				_ = c.ProcessLockCommand(vMsCmd(protocol.COMMAND_LOCK, req, req, key, 0, 0, 0x4000, 10))
				t0 = time.Now()
				_ = c.ProcessLockCommand(vMsCmd(protocol.COMMAND_LOCK, req+1, req+1, key, 0x400, uint16(p.T), 0, 10))
			}
			limit := time.Now().Add(time.Duration(p.T+4500) * time.Millisecond)
			var g vMsReply
			ok := false
			for time.Now().Before(limit) && !ok {
				for _, x := range rec.get(pr) {
					if x.result == want {
						g, ok = x, true
					}
				}
				time.Sleep(time.Millisecond)
			}
			replay := map[string]interface{}{"mode": "msreal", "kind": what, "T": p.T, "issued_at_ms_of_second": p.frac}
			mu.Lock()
			defer mu.Unlock()
			if !ok {
				out.monitor(px+":ms-never-fired", fmt.Sprintf("%s with %d ms: not ended within %d ms of wall time", what, p.T, p.T+4500), replay)
				out.emit(fmt.Sprintf("# msreal %s %d @%d", what, p.T, p.frac), "# none")
				return
			}
			el := g.at.Sub(t0)
			elms := int(el / time.Millisecond)
			out.emit(fmt.Sprintf("# msreal %s %d @%d", what, p.T, p.frac), fmt.Sprintf("# msreal %s %d @%d", what, p.T, p.frac))
			out.stat(fmt.Sprintf("%s-T%d-elapsed-ms-%d", what, p.T, elms/100*100))
			if el < time.Duration(p.T)*time.Millisecond-1500*time.Microsecond {
				sig := px + ":early:millisecond"
				if p.T >= 3000 && p.T%1000 != 0 && elms >= p.T-p.T%1000-2 {
					sig = px + ":early:millisecond-fraction"
				}
				out.monitor(sig, fmt.Sprintf("%s with %d ms requested at x.%03d s was ended after %v of wall time", what, p.T, p.frac, el), replay)
			}
			if p.T >= 3000 && el > time.Duration(p.T+2000+900)*time.Millisecond {
				out.monitor(px+":late:millisecond", fmt.Sprintf("%s with %d ms requested at x.%03d s was ended only after %v of wall time", what, p.T, p.frac, el), replay)
			}
			if !p.hold {
				_ = c.ProcessLockCommand(vMsCmd(protocol.COMMAND_UNLOCK, req+2, req, key, 0, 0, 0, 0))
			}
		}(i, p)
	}
	wg.Wait()
}

// ---------------------------------------------------------------------------------------------------------------------
// mode msupd — an UPDATE (flag 0x02) or a RE-LOCK (same LockId, Rcount) gives a hold new terms while the hold's expiry entry sits in
// one of the four places an entry can be: the second wheel, the long table, parked in the millisecond table, or handed over from the
// millisecond table to the second wheel. New terms in either unit. C06: the hold ends no earlier than the NEW terms say (measured from
// the update) and not later than the bound; C17: nothing is left behind once everything has ended. Virtual server clock, real wall clock for
// the millisecond stage, as in msw. Besides the monitors every case emits ONE line for the differential with M-MSWHEEL's re-term decision
// (lean/Slock/Model/MsWheel.lean, `reterm`), read off the real state right after the update / re-lock was answered:
//   op   `msupd <place wheel|long|parked|handed> <op u|r> <countsEq 0|1> <now> <expT> <unit s|ms> <val>`
//   obs  `ignored` | `second:<deadline>[:long]` | `reparked:<deadline>` | `stale:<deadline>:<fire|second:<d>>`
// (`stale`: the record carries the new command, its entry is still in the millisecond slot it was in before; the part after the second colon is
// what the park goroutine did with it when the OLD park ended).

type vMsTerm struct {
	ms  bool
	val int
}

func (t vMsTerm) String() string {
	if t.ms {
		return fmt.Sprintf("%dms", t.val)
	}
	return fmt.Sprintf("%ds", t.val)
}

func (t vMsTerm) eflag() uint16 {
	if t.ms {
		return 0x400
	}
	return 0
}

type vMsUpdCase struct {
	key         int
	place, what string
}

func vMsUpdRun(t *testing.T) {
	out := vOpen("msupd")
	defer out.close()
	seed := int64(vEnvInt("VERIF_SEED", 1))
	r := rand.New(rand.NewSource(seed))
	n := vEnvInt("VERIF_N", 24)
	vFastPark = true
	v := vNewSeq(2, 0xff)
	rec := &vMsRec{got: map[int][]vMsReply{}}
	v.onReply = func(rp vReply) { rec.add(rp.req, rp.result) }
	kc0 := v.counters().KeyCount
	var done []vMsUpdCase
	bases := []struct {
		name string
		term vMsTerm
		long bool
	}{{"second-wheel", vMsTerm{false, 6}, false}, {"long-table", vMsTerm{false, 400}, true}, {"ms-parked", vMsTerm{true, 400}, false}, {"ms-handed-over", vMsTerm{true, 6150}, false}}
	news := []vMsTerm{{true, 60}, {true, 900}, {true, 3200}, {true, 30000}, {false, 2}, {false, 5}, {false, 300}}
	req, key := 50000, 50000
	only := vEnvInt("VERIF_MSUPD_CASE", -1)
	for i := 0; i < n; i++ {
		ci := i
		if only >= 0 {
			ci = only
		}
		// 4 places x 2 ops x 7 new terms = 56 combinations, visited with a stride so that a short run already mixes them
		idx := (ci*11 + int(seed)) % (len(bases) * 2 * len(news))
		b := bases[idx%len(bases)]
		relock := (idx/len(bases))%2 == 1
		nw := news[idx/(2*len(bases))]
		key++
		req += 4
		opName := map[bool]string{false: "update", true: "re-lock"}[relock]
		replay := map[string]interface{}{"mode": "msupd", "case": ci, "seed": seed, "base": b.name + " " + b.term.String(), "op": opName, "new": nw.String()}
		tGrant := time.Now()
		_ = v.conns[0].ProcessLockCommand(&protocol.LockCommand{Command: protocol.Command{Magic: protocol.MAGIC, Version: protocol.VERSION, CommandType: protocol.COMMAND_LOCK, RequestId: vId16(req)},
			LockId: vId16(req), LockKey: vId16(key), ExpriedFlag: b.term.eflag(), Expried: uint16(b.term.val), Rcount: 3})
		ticks0 := 0
		switch b.name {
		case "long-table":
			for k := 0; k < 60; k++ {
				v.tick()
				ticks0++
				if hs := v.keySnap(key).holds; len(hs) == 1 && hs[0].long {
					break
				}
			}
		case "ms-parked":
			time.Sleep(time.Duration(40+r.Intn(60)) * time.Millisecond)
		case "ms-handed-over":
			time.Sleep(220 * time.Millisecond)
			for w := 0; w < 300 && vMsPending(v.db); w++ {
				time.Sleep(10 * time.Millisecond)
			}
			v.tick()
			ticks0++
		default:
			v.tick()
			ticks0++
		}
		hs := v.keySnap(key).holds
		if len(hs) != 1 {
			out.stat("base-hold-gone")
			continue
		}
		place := b.name
		if b.long != hs[0].long {
			place += "(not-as-intended)"
		}
		flag := uint8(0)
		if !relock {
			flag = protocol.LOCK_FLAG_UPDATE_WHEN_LOCKED
		}
		// every other update changes Rcount as well, so that the "same terms" shortcut cannot apply and the update really moves the entry
		rc2 := uint8(3)
		if !relock && r.Intn(2) == 0 {
			rc2 = 4
			opName = "update(+Rcount)"
			replay["op"] = opName
		}
		// the model's input, from the real state just before the op: where the expiry entry is, the server second, the hold's deadline
		slot0 := vMsSlot(v.db, key)
		mPlace := "wheel"
		switch {
		case slot0 >= 0:
			mPlace = "parked"
		case hs[0].long:
			mPlace = "long"
		case b.term.ms:
			mPlace = "handed"
		}
		opLine := fmt.Sprintf("msupd %s %s %d %d %d %s %d", mPlace, map[bool]string{false: "u", true: "r"}[relock], map[bool]int{false: 0, true: 1}[rc2 == 3],
			v.db.currentTime, hs[0].expT, map[bool]string{false: "s", true: "ms"}[nw.ms], nw.val)
		tOp := time.Now()
		_ = v.conns[0].ProcessLockCommand(&protocol.LockCommand{Command: protocol.Command{Magic: protocol.MAGIC, Version: protocol.VERSION, CommandType: protocol.COMMAND_LOCK, RequestId: vId16(req + 1)},
			Flag: flag, LockId: vId16(req), LockKey: vId16(key), ExpriedFlag: nw.eflag(), Expried: uint16(nw.val), Rcount: rc2})
		// ... and the observation, from the real state right after it was answered
		cls := vMsReterm(v, key, req, hs[0], slot0)
		stale := len(cls) > 6 && cls[:6] == "stale:"
		opReplies := rec.get(req + 1)
		if len(opReplies) != 1 || (opReplies[0].result != 0 && opReplies[0].result != int(protocol.RESULT_LOCKED_ERROR)) {
			out.emit(opLine, "refused:"+cls) // the model knows no refusal: an update / re-lock of an own, acknowledged hold is always accepted
			out.stat("op-refused")
			_ = v.conns[0].ProcessLockCommand(vMsCmd(protocol.COMMAND_UNLOCK, req+2, req, key, 0, 0, 0, 0))
			continue
		}
		if cls == "hold-gone" {
			// scheduling stall: the hold ended (a short re-park fired) before the state could be read — nothing to compare
			skip := "# msupd-skipped " + opLine
			out.emit(skip, skip)
			out.stat("reterm-unreadable")
			continue
		}
		if !stale {
			out.emit(opLine, cls)
		}
		out.stat("reterm:" + mPlace + ":" + cls[:vIndexOr(cls, ':')])
		what := fmt.Sprintf("hold whose expiry entry was in place `%s` (granted with %s) and was given %s by a %s", place, b.term, nw, opName)
		done = append(done, vMsUpdCase{key, b.name, what})
		release := func() {
			_ = v.conns[0].ProcessLockCommand(&protocol.LockCommand{Command: protocol.Command{Magic: protocol.MAGIC, Version: protocol.VERSION, CommandType: protocol.COMMAND_UNLOCK, RequestId: vId16(req + 2)},
				LockId: vId16(req), LockKey: vId16(key)})
		}
		// cause (a): the update was answered but nothing changed (the "same terms" shortcut). The statement lets an update be ignored when it
		// would move the deadline by at most one unit, and gives a shortened hold 10 s: anything else ignored is a violation.
		if hs2 := v.keySnap(key).holds; !relock && len(hs2) == 1 && hs2[0].req == req && hs2[0].expT == hs[0].expT {
			// what is left of the old terms, what the new terms give, in ms (second-unit deadlines carry the code's +1)
			oldRem := (hs[0].expT - v.db.currentTime - 1) * 1000
			slack := int64(1000)
			if b.name == "ms-parked" {
				oldRem = int64(b.term.val) - int64(tOp.Sub(tGrant)/time.Millisecond)
				slack = 5
			}
			newMs := int64(nw.val) * 1000
			if nw.ms {
				newMs = int64(nw.val)
			}
			detail := fmt.Sprintf("%s: answered %d, but the hold keeps its old command and deadline (≈%d ms left; the new terms give %d ms)", what, opReplies[0].result, oldRem, newMs)
			switch {
			case newMs > oldRem+slack && nw.ms:
				out.monitor("C06:update-ignored:millisecond-terms:lengthening", detail, replay)
			case oldRem > newMs+10000+slack && nw.ms:
				out.monitor("C06:update-ignored:millisecond-terms:shortening", detail, replay)
			case newMs > oldRem+2000 || oldRem > newMs+12000:
				out.monitor("C06:update-ignored", detail, replay)
			}
			out.stat("update-ignored:" + b.name)
			release()
			continue
		}
		ended := func() (vMsReply, bool) {
			for _, q := range []int{req, req + 1} {
				for _, g := range rec.get(q) {
					if g.result == protocol_RESULT_EXPRIED {
						return g, true
					}
				}
			}
			return vMsReply{}, false
		}
		// real-time phase: as long as any park (the old entry's or a new one) can still end, + margin
		wall := 150
		if b.term.ms {
			wall += b.term.val % 3000
		}
		if nw.ms {
			if p := nw.val%3000 + 150; p > wall {
				wall = p
			}
		}
		var g vMsReply
		ok := false
		for dl := tOp.Add(time.Duration(wall) * time.Millisecond); time.Now().Before(dl); time.Sleep(time.Millisecond / 2) {
			if g, ok = ended(); ok {
				break
			}
		}
		for w := 0; !ok && w < 300 && vMsPending(v.db); w++ {
			time.Sleep(10 * time.Millisecond)
			g, ok = ended()
		}
		if stale {
			// the OLD park is over (or the 3 s of patience are): what did the park goroutine do with the entry?
			after := "still-parked"
			if ok {
				after = "fire"
			} else if hsB := v.keySnap(key).holds; vMsSlot(v.db, key) < 0 && len(hsB) == 1 {
				after = fmt.Sprintf("second:%d", hsB[0].expT)
			} else if len(hsB) != 1 {
				after = "hold-gone"
			}
			if after == "still-parked" || after == "hold-gone" {
				skip := "# msupd-skipped " + opLine + " " + after // timing: the park goroutine is late / the hold is already gone
				out.emit(skip, skip)
				out.stat("reterm-unreadable")
			} else {
				out.emit(opLine, cls+":"+after)
			}
		}
		if os.Getenv("VERIF_MSUPD_DEBUG") != "" {
			df, _ := os.OpenFile(os.Getenv("VERIF_OUT")+"/msupd.debug", os.O_APPEND|os.O_CREATE|os.O_WRONLY, 0o644)
			fmt.Fprintf(df, "DEBUG case %d %s %s -> %s: after wall phase ended=%v pending=%v snap=%+v replies=%v %v\n", ci, b.name, opName, nw, ok, vMsPending(v.db), v.keySnap(key), rec.get(req), rec.get(req+1))
			df.Close()
		}
		// bounds from the NEW terms, in whole seconds of server time: never before E; by E + 2 s, or within 10 s of the new deadline when
		// the new terms shortened the hold
		newSec := nw.val
		if nw.ms {
			newSec = (nw.val + 999) / 1000
		}
		bound := newSec + 2
		if v.db.currentTime+int64(newSec)+1 < hs[0].expT {
			bound = newSec + 10
		}
		maxTicks := bound + 1
		if maxTicks > 14 {
			maxTicks = 7
		}
		ticks := 0
		for !ok && ticks < maxTicks {
			v.tick()
			ticks++
			g, ok = ended()
		}
		if ok {
			elMs := int(g.at.Sub(tOp) / time.Millisecond)
			early := false
			if nw.ms {
				// wall time only counts while no virtual second has passed; each tick is one second of server time
				early = ticks == 0 && elMs < nw.val-2 || ticks > 0 && ticks < nw.val/1000
			} else {
				early = ticks < nw.val
			}
			if early {
				out.monitor("C06:early:after-update:"+b.name, fmt.Sprintf("%s ended after %d ms of wall time and %d s of server time, before its new terms allow", what, elMs, ticks), replay)
			}
			if ticks > bound {
				out.monitor("C06:late:after-update:"+b.name, fmt.Sprintf("%s ended only after %d s of server time (bound %d)", what, ticks, bound), replay)
			}
			out.stat("ended:" + b.name)
		} else {
			if maxTicks > bound {
				out.monitor("C06:late:after-update:"+b.name, fmt.Sprintf("%s did not end within %d s of server time (bound %d)", what, ticks, bound), replay)
			}
			out.stat("outlived:" + b.name)
			release()
		}
		if n := len(rec.get(req)) + len(rec.get(req+1)); ok && n != 3 {
			out.monitor("C06:ms-reply-count:after-update", fmt.Sprintf("%s: %d replies under its two RequestIds (grant, update answer, one EXPRIED expected): %v %v", what, n, rec.get(req), rec.get(req+1)), replay)
		}
		out.stat(opName)
		out.stat("new:" + nw.String())
	}
	// three fixed extra cases for the differential (model line only): second-unit terms chosen RELATIVE to the deadline of a hold whose entry
	// is in the long table — a re-lock that leaves the deadline unchanged (the entry must stay in the long table), an update one second off
	// with unchanged counts (the second-unit shortcut: ignored), the same with a changed Rcount (moved to the second wheel)
	for x := 0; x < 3 && only < 0; x++ {
		key++
		req += 4
		_ = v.conns[0].ProcessLockCommand(&protocol.LockCommand{Command: protocol.Command{Magic: protocol.MAGIC, Version: protocol.VERSION, CommandType: protocol.COMMAND_LOCK, RequestId: vId16(req)},
			LockId: vId16(req), LockKey: vId16(key), Expried: 400, Rcount: 3})
		for k := 0; k < 60; k++ {
			v.tick()
			if hs := v.keySnap(key).holds; len(hs) == 1 && hs[0].long {
				break
			}
		}
		hs := v.keySnap(key).holds
		if len(hs) != 1 || !hs[0].long || vMsSlot(v.db, key) >= 0 {
			out.stat("extra-base-not-in-long-table")
			continue
		}
		rem := int(hs[0].expT - v.db.currentTime - 1) // the value that reproduces the current deadline
		flag, rc2, val, opc, ce := uint8(0), uint8(3), rem, "r", 1
		switch x {
		case 1:
			flag, val, opc = protocol.LOCK_FLAG_UPDATE_WHEN_LOCKED, rem-1, "u"
		case 2:
			flag, rc2, val, opc, ce = protocol.LOCK_FLAG_UPDATE_WHEN_LOCKED, 4, rem-1, "u", 0
		}
		opLine := fmt.Sprintf("msupd long %s %d %d %d s %d", opc, ce, v.db.currentTime, hs[0].expT, val)
		_ = v.conns[0].ProcessLockCommand(&protocol.LockCommand{Command: protocol.Command{Magic: protocol.MAGIC, Version: protocol.VERSION, CommandType: protocol.COMMAND_LOCK, RequestId: vId16(req + 1)},
			Flag: flag, LockId: vId16(req), LockKey: vId16(key), Expried: uint16(val), Rcount: rc2})
		cls := vMsReterm(v, key, req, hs[0], -1)
		out.emit(opLine, cls)
		out.stat("reterm:long(relative):" + cls[:vIndexOr(cls, ':')])
		done = append(done, vMsUpdCase{key, "long-table", fmt.Sprintf("hold in the long table given %d s (its deadline was %d s ahead) by `%s`", val, rem+1, opc)})
		_ = v.conns[0].ProcessLockCommand(&protocol.LockCommand{Command: protocol.Command{Magic: protocol.MAGIC, Version: protocol.VERSION, CommandType: protocol.COMMAND_UNLOCK, RequestId: vId16(req + 2)},
			LockId: vId16(req), LockKey: vId16(key)}) // Rcount 0: every level at once
	}
	// C17: everything has ended or was released: after the parks and 20 s of server time no key record may be left
	for w := 0; w < 400 && vMsPending(v.db); w++ {
		time.Sleep(10 * time.Millisecond)
	}
	for k := 0; k < 20; k++ {
		v.tick()
	}
	for w := 0; w < 400 && vMsPending(v.db); w++ {
		time.Sleep(10 * time.Millisecond)
	}
	// key records whose last reference was dropped by a park goroutine are removed by a deferred pass (checkWaitRemoveLockManager, one of
	// the parked background loops): run it the way Close does
	left := map[string][]string{}
	for try := 0; try < 15; try++ {
		// (a park goroutine that has just taken its queue off the table may still be on its way through doExpried: look again)
		v.db.managerGlocks[0].Lock()
		v.db.flushWaitRemoveLockManagerQueue(0)
		v.db.managerGlocks[0].Unlock()
		left = map[string][]string{}
		for _, c := range done {
			if v.keySnap(c.key).exists {
				left[c.place] = append(left[c.place], c.what)
			}
		}
		if len(left) == 0 && v.counters().KeyCount == kc0 {
			break
		}
		time.Sleep(200 * time.Millisecond)
	}
	for place, ws := range left {
		out.monitor("C17:key-record-left:after-update:"+place, fmt.Sprintf("%d key record(s) still exist after the hold has ended or was released, the parks are over and 20 s of server time passed; first: %s", len(ws), ws[0]), map[string]interface{}{"mode": "msupd", "seed": seed})
	}
	if kc := v.counters().KeyCount; kc != kc0 && len(left) == 0 {
		out.monitor("C17:keycount-after-drain:millisecond-update", fmt.Sprintf("KeyCount is %d (baseline %d) after every updated hold has ended or was released and 20 s passed", kc, kc0), map[string]interface{}{"mode": "msupd", "seed": seed})
	}
}

func init() {
	vModes["msw"] = vMswRun
	vModes["msreal"] = vMsRealRun
	vModes["mswf"] = vMswFollower
	vModes["msupd"] = vMsUpdRun
}

// ---------------------------------------------------------------------------------------------------------------------
// mode clockjump (C05 / C06) — the REAL per-second loops (LockDB.checkTimeOut / checkExpried), which the other modes replace by their own
// tick, driven through their wake-up channels with a virtual clock that sometimes JUMPS by several seconds (a stalled process, a
// suspended VM): every second that was skipped must still be swept, so a wait / a hold whose deadline fell into the gap is ended at the
// first tick after it. Monitors only.
func vClockJumpRun(t *testing.T) {
	out := vOpen("clockjump")
	defer out.close()
	seed := int64(vEnvInt("VERIF_SEED", 1))
	r := rand.New(rand.NewSource(seed))
	vFastPark = true
	v := vNewSeq(2, 0xff)
	rec := &vMsRec{got: map[int][]vMsReply{}}
	v.onReply = func(rp vReply) { rec.add(rp.req, rp.result) }
	tw, ew := make(chan struct{}), make(chan struct{})
	go v.db.checkTimeOut(tw)
	go v.db.checkExpried(ew)
	advance := func(k int64) {
		v.db.currentTime += k
		v.expectNow = v.db.currentTime
		tw <- struct{}{}
		ew <- struct{}{}
		time.Sleep(12 * time.Millisecond) // the loops start one sweep goroutine per skipped second and shard
	}
	advance(1)
	has := func(req, result int) bool {
		for w := 0; w < 120; w++ { // up to 600 ms for the sweep goroutines of this tick (a loaded machine)
			for _, g := range rec.get(req) {
				if g.result == result {
					return true
				}
			}
			time.Sleep(5 * time.Millisecond)
		}
		return false
	}
	req, key := 300000, 300000
	for _, jump := range []int64{1, 2, 3, 5, 2, 4} {
		for _, T := range []int{1, 2, 3, 4} {
			for _, hold := range []bool{false, true} {
				key++
				req += 4
				t0 := v.db.currentTime
				var probe, want int
				what := "wait"
				if hold {
					what = "hold"
					probe, want = req, protocol_RESULT_EXPRIED
					_ = v.conns[0].ProcessLockCommand(vMsCmd(protocol.COMMAND_LOCK, req, req, key, 0, 0, 0, uint16(T)))
				} else {
					probe, want = req+1, protocol_RESULT_TIMEOUT
					_ = v.conns[0].ProcessLockCommand(vMsCmd(protocol.COMMAND_LOCK, req, req, key, 0, 0, 0, 60))
					_ = v.conns[1].ProcessLockCommand(vMsCmd(protocol.COMMAND_LOCK, req+1, req+1, key, 0, uint16(T), 0, 10))
				}
				// the first step is the jump, then the clock ticks second by second
				deadline := t0 + int64(T) + 1
				answeredAt, firstDue := int64(-1), int64(-1)
				for step := 0; step < 40 && answeredAt < 0; step++ {
					if step == 0 {
						advance(jump + int64(r.Intn(2)))
					} else {
						advance(1)
					}
					if firstDue < 0 && v.db.currentTime >= deadline {
						firstDue = v.db.currentTime
					}
					if firstDue >= 0 && has(probe, want) {
						answeredAt = v.db.currentTime
					} else if firstDue < 0 {
						for _, g := range rec.get(probe) {
							if g.result == want {
								answeredAt = v.db.currentTime
							}
						}
					}
				}
				px := vMsPrefix(hold)
				replay := map[string]interface{}{"mode": "clockjump", "kind": what, "T": T, "jump": jump, "seed": seed}
				switch {
				case answeredAt < 0:
					out.monitor(px+":late:clock-jump", fmt.Sprintf("%s of %d s begun at %d: not ended 40 ticks after a clock jump of %d s (deadline %d)", what, T, t0, jump, deadline), replay)
				case firstDue < 0 || answeredAt < deadline:
					out.monitor(px+":early:clock-jump", fmt.Sprintf("%s of %d s begun at %d was ended at %d, before its deadline %d", what, T, t0, answeredAt, deadline), replay)
				case answeredAt > firstDue+1:
					out.monitor(px+":late:clock-jump", fmt.Sprintf("%s of %d s begun at %d (deadline %d) was ended at %d; the first tick at or after the deadline was %d (clock jump of %d s: the skipped seconds must be swept too)", what, T, t0, deadline, answeredAt, firstDue, jump), replay)
				}
				out.stat(fmt.Sprintf("jump%d", jump))
				rec2 := fmt.Sprintf("# clockjump %s T=%d jump=%d", what, T, jump)
				out.emit(rec2, rec2)
				if !hold {
					_ = v.conns[0].ProcessLockCommand(vMsCmd(protocol.COMMAND_UNLOCK, req+2, req, key, 0, 0, 0, 0))
				}
			}
		}
	}
	v.db.status = STATE_CLOSE
	close(tw)
	close(ew)
	time.Sleep(20 * time.Millisecond)
	v.db.status = STATE_LEADER
}

func init() {
	vModes["clockjump"] = vClockJumpRun
}

// ---------------------------------------------------------------------------------------------------------------------
// mode flushdb (C09) — LockDB.FlushDB is what a follower runs before a transfer from scratch (ReplicationManager.FlushDB in
// ReplicationClient.InitSync): afterwards the node holds NOTHING, whatever its tables looked like — long-expiry buckets with holes left by
// earlier unlocks, the second wheel, queued requests. Monitor only.
func vFlushDBRun(t *testing.T) {
	out := vOpen("flushdb")
	defer out.close()
	vFastPark = true
	v := vNewSeq(2, 0xff)
	rec := &vMsRec{got: map[int][]vMsReply{}}
	v.onReply = func(rp vReply) { rec.add(rp.req, rp.result) }
	req, key := 400000, 400000
	for round := 0; round < 6; round++ {
		var keys, ids []int
		n := 3 + round
		for i := 0; i < n; i++ {
			key++
			req += 2
			keys = append(keys, key)
			ids = append(ids, req)
			// one second, one expiry: the holds share a long-expiry bucket (journal-at-once flag 0x0100 with more than 5 s puts a hold there at once);
			// every third hold is a plain one in the second wheel
			eflag, exp := uint16(0x0100), uint16(170)
			if i%3 == 2 {
				eflag, exp = 0, 7
			}
			_ = v.conns[0].ProcessLockCommand(vMsCmd(protocol.COMMAND_LOCK, req, req, key, 0, 0, eflag, exp))
		}
		// holes: release some of the earlier ones (by the round: the first, the second, both, …)
		for i := 0; i < n-1; i++ {
			if (round+1)&(1<<uint(i%3)) != 0 {
				_ = v.conns[0].ProcessLockCommand(vMsCmd(protocol.COMMAND_UNLOCK, 3000000+req+i, ids[i], keys[i], 0, 0, 0, 0))
			}
		}
		// a queued request as well
		_ = v.conns[1].ProcessLockCommand(vMsCmd(protocol.COMMAND_LOCK, req+1, req+1, keys[n-1], 0, 30, 0, 10))
		_ = v.db.FlushDB()
		left := []string{}
		for _, k := range keys {
			if ks := v.keySnap(k); len(ks.holds) > 0 || len(ks.waits) > 0 {
				left = append(left, fmt.Sprintf("key %d: %v %v", k, ks.holds, ks.waits))
			}
		}
		st := v.counters()
		if len(left) > 0 || st.LockedCount != v.base.LockedCount {
			out.monitor("C09:flush-leaves-holds", fmt.Sprintf("after LockDB.FlushDB (round %d: %d holds, some released before) the node still holds: %v (LockedCount moved by %d)", round, n, left, int32(st.LockedCount-v.base.LockedCount)),
				map[string]interface{}{"mode": "flushdb", "round": round})
		}
		rec2 := fmt.Sprintf("# flushdb round %d", round)
		out.emit(rec2, rec2)
		v.base = v.counters()
	}
}

func init() {
	vModes["flushdb"] = vFlushDBRun
}
