package server

// E-io harness for C18 (disconnect semantics): REAL BinaryServerProtocol / TextServerProtocol objects bound to net.Pipe
// ends, served the way server.handle serves them (Process() until it returns, then Close()), on a real SLock + LockDB
// with the VIRTUAL clock of the engine harness (vNewSeq / tick / keySnap).
//
// One case = one generated lifetime script (random walk over: open, INIT, register will, LOCK, UNLOCK, tick, close by
// client EOF / protocol error / server-side stream.Close(), close again). The script is recorded AS EXECUTED in the
// language of the Lean driver (`conn <event>;…`); "the engine answered token t" (`d t`) events are derived from engine
// snapshots (keySnap before/after) and the observation of each is the connection whose pipe received the frame.
//
// Lifetimes that can hit the unbounded recursion in BinaryServerProtocol.Close (INIT + will + close while still
// registered) kill the process ("fatal error: stack overflow" is not recoverable), so they are only generated in
// designated cases, and those run in a child process (same binary, VERIF_CONN_CHILD=<case>).

import (
	"encoding/hex"
	"encoding/json"
	"fmt"
	"math/rand"
	"net"
	"os"
	"os/exec"
	"runtime"
	"runtime/debug"
	"sort"
	"strconv"
	"strings"
	"sync"
	"sync/atomic"
	"testing"
	"time"

	"github.com/snower/slock/protocol"
)

const vConnAux = 0x70000000 // request ids ≥ this are control frames of the harness (INIT, PING fence, garbage)

// ---------------------------------------------------------------------------------------------
// client side of one pipe

type vConnFrame struct {
	kind   byte // 'L' lock/unlock result, 'C' control (ping / init / unknown-magic result), 'K' +OK, 'E' -ERR
	tok    int
	result int
	itype  int
	used   bool
	bin    bool // a 64-byte binary frame (a connection in ADMIN mode receives both formats on one stream)
}

type vConnReader struct {
	mu     sync.Mutex
	conn   net.Conn
	text   bool
	mixed  bool // after ADMIN: RESP values, and binary frames (recognised by the magic byte) for the outer protocol
	buf    []byte
	nbytes int64
	frames []*vConnFrame
	stop   bool
	done   chan struct{}
}

func (r *vConnReader) loop() {
	defer close(r.done)
	tmp := make([]byte, 4096)
	for {
		_ = r.conn.SetReadDeadline(time.Now().Add(500 * time.Millisecond))
		n, err := r.conn.Read(tmp)
		r.mu.Lock()
		if n > 0 {
			r.buf = append(r.buf, tmp[:n]...)
			r.nbytes += int64(n)
			r.parse()
		}
		stop := r.stop
		r.mu.Unlock()
		if err != nil {
			if ne, ok := err.(net.Error); ok && ne.Timeout() && !stop {
				continue
			}
			return
		}
	}
}

func vConnTokOfHex(h string) int {
	b, err := hex.DecodeString(h)
	if err != nil || len(b) != 16 {
		return -1
	}
	var a [16]byte
	copy(a[:], b)
	return vInt16(a)
}

// parse: called with r.mu held
func (r *vConnReader) parse() {
	if r.mixed {
		for len(r.buf) > 0 {
			if r.buf[0] == protocol.MAGIC {
				if len(r.buf) < 64 {
					return
				}
				r.text = false
				r.parseOne()
				continue
			}
			r.text = true
			if !r.parseOne() {
				return
			}
		}
		return
	}
	for r.parseOne() {
	}
}

// parseOne: one frame / one RESP value off the front of the buffer (r.mu held); false = incomplete
func (r *vConnReader) parseOne() bool {
	if !r.text {
		for len(r.buf) >= 64 {
			f := r.buf[:64]
			var id, lid [16]byte
			copy(id[:], f[3:19])
			copy(lid[:], f[22:38])
			fr := &vConnFrame{kind: 'L', tok: vInt16(id), result: int(f[19]), itype: int(f[20] & 1)}
			if id != vId16(fr.tok) && (f[2] == protocol.COMMAND_LOCK || f[2] == protocol.COMMAND_UNLOCK) {
				// a RequestId the text protocol generated (random): the token is the LockId the script chose
				fr.tok = vInt16(lid)
			}
			if fr.tok >= vConnAux || (f[2] != protocol.COMMAND_LOCK && f[2] != protocol.COMMAND_UNLOCK) {
				fr.kind = 'C'
			}
			fr.bin = true
			r.frames = append(r.frames, fr)
			r.buf = r.buf[64:]
			return true
		}
		return false
	}
	for {
		vals, n := vConnRESP(r.buf)
		if n == 0 {
			return false
		}
		r.buf = r.buf[n:]
		fr := &vConnFrame{kind: 'E', tok: -1}
		if len(vals) == 1 && strings.HasPrefix(vals[0], "+") {
			fr.kind = 'K'
		} else if len(vals) >= 4 && vals[2] == "LOCK_ID" {
			fr.kind = 'L'
			fr.result, _ = strconv.Atoi(vals[0])
			fr.tok = vConnTokOfHex(vals[3])
		}
		r.frames = append(r.frames, fr)
		return true
	}
}

// vConnRESP parses one complete RESP value at the start of b: returns its strings (simple strings keep their sigil) and
// the number of bytes consumed (0 = incomplete).
func vConnRESP(b []byte) ([]string, int) {
	line := func(off int) (string, int) {
		for i := off; i+1 < len(b); i++ {
			if b[i] == '\r' && b[i+1] == '\n' {
				return string(b[off:i]), i + 2
			}
		}
		return "", 0
	}
	var one func(off int) ([]string, int)
	one = func(off int) ([]string, int) {
		if off >= len(b) {
			return nil, 0
		}
		l, nx := line(off)
		if nx == 0 {
			return nil, 0
		}
		switch b[off] {
		case '+', '-', ':':
			return []string{l}, nx
		case '$':
			n, _ := strconv.Atoi(l[1:])
			if n < 0 {
				return []string{""}, nx
			}
			if nx+n+2 > len(b) {
				return nil, 0
			}
			return []string{string(b[nx : nx+n])}, nx + n + 2
		case '*':
			n, _ := strconv.Atoi(l[1:])
			var out []string
			for i := 0; i < n; i++ {
				v, e := one(nx)
				if e == 0 {
					return nil, 0
				}
				out = append(out, v...)
				nx = e
			}
			if out == nil {
				out = []string{}
			}
			return out, nx
		}
		return []string{l}, nx
	}
	return one(0)
}

// ---------------------------------------------------------------------------------------------
// one connection

// will kinds (typ). Submitted to the engine: L0 lock a fresh key | Lw lock a pinned (held) key, waits | Uo unlock an own hold |
// Uw unlock the hold of an earlier L0 will | Ls lock a key the connection holds under the same LockId (LOCKED_ERROR) |
// Um unlock a key nobody holds (UNLOCK_ERROR) | Ln lock in a db that does not exist yet (created by the will) |
// Ld the frame of an earlier L0 will once more (same RequestId; LOCKED_ERROR).
// Answered by the protocol itself (UNKNOWN_DB, never reaches the engine): Lx / Ux lock / unlock with DbId 0xff |
// Un unlock in a db id that was never created.
type vConnWill struct {
	tok    int
	imm    bool
	self   bool
	typ    string
	key    int
	db     int
	target int // Uo / Uw / Ls: LockId
	pair   *vConnWill
	noPair bool
	cmd    *protocol.LockCommand // the command object the server queued (evidence of execution: attached to a lock, or freed)
}

const vConnDbMissing, vConnDbNew = 8, 9

type vConnC struct {
	idx       int
	kind      byte
	cli       net.Conn
	stream    *Stream
	bp        *BinaryServerProtocol
	tp        *TextServerProtocol
	rd        *vConnReader
	done      chan struct{}
	panicked  string
	srvClosed bool // Close() has run (harness view)
	cliGone   bool // the client end / the stream was closed by the script
	inited    bool
	cid       int
	announced []int
	wills     []*vConnWill
	blocked   int // text: token of the LOCK the handler is blocked on
	helper    bool
	written   *int64  // bytes the server wrote to this connection's stream
	nested    *vConnC // binary connection in ADMIN mode: its nested text protocol (same pipe, same goroutine)
	outer     *vConnC
}

func (c *vConnC) serve() {
	defer close(c.done)
	defer func() {
		if e := recover(); e != nil {
			c.panicked = fmt.Sprint(e)
		}
	}()
	if c.kind == 'b' {
		_ = c.bp.Process()
		_ = c.bp.Close()
	} else {
		_ = c.tp.Process()
		_ = c.tp.Close()
	}
}

func (c *vConnC) isDone() bool {
	select {
	case <-c.done:
		return true
	default:
		return false
	}
}

func (c *vConnC) write(b []byte) error {
	_ = c.cli.SetWriteDeadline(time.Now().Add(2 * time.Second))
	_, err := c.cli.Write(b)
	return err
}

func vConnWait(cond func() bool, d time.Duration) bool {
	for i := 0; i < 300; i++ {
		if cond() {
			return true
		}
		runtime.Gosched()
	}
	end := time.Now().Add(d)
	for {
		if cond() {
			return true
		}
		if time.Now().After(end) {
			return false
		}
		time.Sleep(100 * time.Microsecond)
	}
}

// take: an unused frame satisfying pred (marks it used)
func (c *vConnC) take(pred func(*vConnFrame) bool) *vConnFrame {
	c.rd.mu.Lock()
	defer c.rd.mu.Unlock()
	for _, f := range c.rd.frames {
		if c.rd.mixed && f.bin != (c.kind == 'b') {
			continue
		}
		if !f.used && pred(f) {
			f.used = true
			return f
		}
	}
	return nil
}

func (c *vConnC) waitFrame(pred func(*vConnFrame) bool, d time.Duration) *vConnFrame {
	var f *vConnFrame
	vConnWait(func() bool { f = c.take(pred); return f != nil }, d)
	return f
}

func vConnLockFrame(ct uint8, req, lockId, key, timeout, expried int) []byte {
	return vConnLockFrameDb(ct, req, lockId, key, timeout, expried, 0)
}

func vConnLockFrameDb(ct uint8, req, lockId, key, timeout, expried, db int) []byte {
	c := &protocol.LockCommand{Command: protocol.Command{Magic: protocol.MAGIC, Version: protocol.VERSION, CommandType: ct, RequestId: vId16(req)},
		DbId: uint8(db), LockId: vId16(lockId), LockKey: vId16(key), Timeout: uint16(timeout), Expried: uint16(expried)}
	b := make([]byte, 64)
	_ = c.Encode(b)
	return b
}

func vConnRESPCmd(args ...string) []byte {
	s := fmt.Sprintf("*%d\r\n", len(args))
	for _, a := range args {
		s += fmt.Sprintf("$%d\r\n%s\r\n", len(a), a)
	}
	return []byte(s)
}

func vConnHex16(n int) string {
	b := vId16(n)
	return hex.EncodeToString(b[:])
}

// ---------------------------------------------------------------------------------------------
// one case

type vConnTok struct {
	owner int
	key   int
	kind  byte // 'L' / 'U'
	will  bool
	long  bool // hold with the long expiry
	pin   bool // never released by the script (something waits on it by construction)
	wtgt  bool // targeted by an unlock will
}

type vConnScan struct {
	holds map[int]int
	waits map[int]int
}

type vConnRun struct {
	v         *vSeq
	out       *vOut
	r         *rand.Rand
	idx       int
	risky     bool
	conns     []*vConnC
	ops, obs  []string
	keys      []int
	nextKey   int
	nextTok   int
	nextAux   int
	nextCid   int
	toks      map[int]*vConnTok
	live      map[int]byte // tracked tokens: 'w' queued, 'h' held
	dead      string
	seen      map[string]bool
	pend      []func(line string)
	pendFile  string
	nticks    int
	ue0       int // UnlockErrorCount before the action in progress
	uc0       int // UnLockCount before the action in progress
	orderBad  bool
	usedNewDb bool
	chained   bool
	// reg: who a client id belongs to, by the script alone: the last connection that announced it, until that connection
	// closes or announces another id
	reg map[int]*vConnC
}

func (x *vConnRun) report(sig, what string) {
	if x.seen[sig] {
		return
	}
	x.seen[sig] = true
	at := len(x.ops)
	x.pend = append(x.pend, func(line string) {
		x.out.monitor(sig, what, map[string]interface{}{"ops": line, "at_event_index": at, "case": x.idx})
	})
	x.out.stat("monitor " + sig)
}

func (x *vConnRun) ev(op, ob string) {
	x.ops = append(x.ops, op)
	x.obs = append(x.obs, ob)
	x.out.stat("ev-" + strings.Fields(op)[0])
}

func (x *vConnRun) line() string { return "conn " + strings.Join(x.ops, ";") }

func (x *vConnRun) scan() vConnScan {
	s := vConnScan{map[int]int{}, map[int]int{}}
	for _, key := range x.keys {
		ks := x.v.keySnap(key)
		for _, h := range ks.holds {
			s.holds[h.lockId]++
		}
		for _, w := range ks.waits {
			var id, rq int
			var tt int64
			fmt.Sscanf(strings.ReplaceAll(w, ".", " "), "%d %d %d", &id, &rq, &tt)
			s.waits[id]++
		}
	}
	return s
}

// vConnCounted: the server end of a pipe, counting the bytes the server has written (net.Pipe: Write returns once the
// peer's Read calls have taken them)
type vConnCounted struct {
	net.Conn
	written *int64
}

func (c vConnCounted) Write(b []byte) (int, error) {
	n, err := c.Conn.Write(b)
	atomic.AddInt64(c.written, int64(n))
	return n, err
}

// settle: every byte the server has written so far is in its client's frame list
func (x *vConnRun) settle() {
	pending := func() bool {
		for _, c := range x.conns {
			c.rd.mu.Lock()
			got := c.rd.nbytes
			c.rd.mu.Unlock()
			if got < atomic.LoadInt64(c.written) {
				return true
			}
		}
		return false
	}
	for i := 0; i < 40; i++ {
		runtime.Gosched()
	}
	vConnWait(func() bool { return !pending() }, 2*time.Second)
}

func (x *vConnRun) newKey() int {
	k := x.nextKey
	x.nextKey++
	x.keys = append(x.keys, k)
	return k
}

func (x *vConnRun) newTok(owner, key int, kind byte) int {
	t := x.nextTok
	x.nextTok++
	x.toks[t] = &vConnTok{owner: owner, key: key, kind: kind}
	return t
}

func (x *vConnRun) aux() int {
	x.nextAux++
	return vConnAux + x.nextAux
}

// fence: a PING after the command; its reply means the command before it has been processed completely
func (x *vConnRun) fence(c *vConnC) bool {
	id := x.aux()
	p := &protocol.PingCommand{Command: protocol.Command{Magic: protocol.MAGIC, Version: protocol.VERSION, CommandType: protocol.COMMAND_PING, RequestId: vId16(id)}}
	b := make([]byte, 64)
	_ = p.Encode(b)
	if c.write(b) != nil {
		return false
	}
	return c.waitFrame(func(f *vConnFrame) bool { return f.kind == 'C' && f.tok == id }, 3*time.Second) != nil
}

func (x *vConnRun) open(kind byte, helper bool) *vConnC {
	cli, srv := net.Pipe()
	c := &vConnC{idx: len(x.conns), kind: kind, cli: cli, done: make(chan struct{}), helper: helper, written: new(int64)}
	c.stream = NewStream(vConnCounted{srv, c.written})
	if kind == 'b' {
		c.bp = NewBinaryServerProtocol(x.v.slock, c.stream)
	} else {
		c.tp = NewTextServerProtocol(x.v.slock, c.stream)
	}
	c.rd = &vConnReader{conn: cli, text: kind == 't', done: make(chan struct{})}
	go c.rd.loop()
	go c.serve()
	x.conns = append(x.conns, c)
	x.ev("o "+string(kind), "ok")
	return c
}

// admin: binary ADMIN command — a nested TextServerProtocol takes over the stream (a new record in the script)
func (x *vConnRun) admin(c *vConnC) *vConnC {
	id := x.aux()
	ac := &protocol.AdminCommand{Command: protocol.Command{Magic: protocol.MAGIC, Version: protocol.VERSION, CommandType: protocol.COMMAND_ADMIN, RequestId: vId16(id)}}
	b := make([]byte, 64)
	_ = ac.Encode(b)
	ob := "noreply"
	if c.write(b) == nil && c.waitFrame(func(f *vConnFrame) bool { return f.kind == 'C' && f.tok == id }, 3*time.Second) != nil {
		ob = "ok"
	}
	c.rd.mu.Lock()
	for _, f := range c.rd.frames {
		f.bin = true
	}
	c.rd.mixed = true
	c.rd.mu.Unlock()
	var tp *TextServerProtocol
	vConnWait(func() bool {
		tp, _ = c.stream.protocol.(*TextServerProtocol)
		return tp != nil
	}, 3*time.Second)
	n := &vConnC{idx: len(x.conns), kind: 't', cli: c.cli, stream: c.stream, tp: tp, rd: c.rd, done: c.done, outer: c, written: c.written}
	c.nested = n
	x.conns = append(x.conns, n)
	if tp == nil {
		ob = "no-nested-protocol"
	}
	x.ev(fmt.Sprintf("a %d", c.idx), ob)
	x.out.stat("admin")
	return n
}

func (x *vConnRun) registeredSelf(c *vConnC) bool {
	if c.kind != 'b' {
		return false
	}
	s := x.v.slock
	s.clientsGlock.Lock()
	defer s.clientsGlock.Unlock()
	sp, ok := s.clients[c.bp.proxys[0].clientId]
	return ok && sp == ServerProtocol(c.bp)
}

func (x *vConnRun) init(c *vConnC, cid int) {
	id := x.aux()
	ic := &protocol.InitCommand{Command: protocol.Command{Magic: protocol.MAGIC, Version: protocol.VERSION, CommandType: protocol.COMMAND_INIT, RequestId: vId16(id)}, ClientId: vId16(cid)}
	b := make([]byte, 64)
	_ = ic.Encode(b)
	ob := "noreply"
	if c.write(b) == nil {
		if f := c.waitFrame(func(f *vConnFrame) bool { return f.kind == 'C' && f.tok == id }, 3*time.Second); f != nil {
			ob = fmt.Sprintf("i%d", f.itype)
		}
	}
	if c.inited && x.reg[c.cid] == c {
		delete(x.reg, c.cid)
	}
	x.reg[cid] = c
	c.inited, c.cid = true, cid
	c.announced = append(c.announced, cid)
	x.ev(fmt.Sprintf("i %d %d", c.idx, cid), ob)
	x.check()
}

func (x *vConnRun) will(c *vConnC, w *vConnWill) {
	ct := uint8(protocol.COMMAND_WILL_LOCK)
	name, lockId, timeout, expried := "LOCK", w.tok, 0, 60
	if w.typ == "Lw" {
		timeout = []int{2, 4, 6}[x.r.Intn(3)]
	}
	if w.typ[0] == 'U' {
		ct, name, lockId = protocol.COMMAND_WILL_UNLOCK, "UNLOCK", w.target
	}
	if w.typ == "Ls" {
		lockId = w.target
	}
	ok := false
	if c.kind == 'b' {
		ok = c.write(vConnLockFrameDb(ct, w.tok, lockId, w.key, timeout, expried, w.db)) == nil && x.fence(c)
		if c.bp.willCommands != nil {
			w.cmd = c.bp.willCommands.Tail()
		}
	} else {
		sel := func(db int) bool {
			return c.write(vConnRESPCmd("SELECT", fmt.Sprint(db))) == nil && c.waitFrame(func(f *vConnFrame) bool { return f.kind == 'K' }, 3*time.Second) != nil
		}
		if w.db != 0 {
			sel(w.db)
		}
		args := []string{name, vConnHex16(w.key), "LOCK_ID", vConnHex16(lockId), "TIMEOUT", fmt.Sprint(timeout), "EXPRIED", fmt.Sprint(expried), "WILL", "1"}
		if c.write(vConnRESPCmd(args...)) == nil {
			ok = c.waitFrame(func(f *vConnFrame) bool { return f.kind == 'K' }, 3*time.Second) != nil
		}
		if c.tp.willCommands != nil {
			w.cmd = c.tp.willCommands.Tail()
		}
		if w.db != 0 {
			sel(0)
		}
	}
	c.wills = append(c.wills, w)
	ob := "ok"
	if !ok {
		ob = "noreply"
	}
	im := 0
	if w.imm {
		im = 1
	}
	sf := 0
	if w.self {
		sf = 1
	}
	x.ev(fmt.Sprintf("w %d %d %d %d %s k%d id%d db%d", c.idx, w.tok, im, sf, w.typ, w.key, lockId, w.db), ob)
	x.out.stat("will-" + string(c.kind) + "-" + w.typ)
	x.check()
}

// request: a LOCK (lockId = tok) or an UNLOCK (own RequestId tok, LockId = target) on open, unblocked connection c
func (x *vConnRun) request(c *vConnC, kind byte, key, target, timeout, expried int) int {
	tok := x.newTok(c.idx, key, kind)
	x.ue0, x.uc0 = int(x.v.counters().UnlockErrorCount), int(x.v.counters().UnLockCount)
	ct, name, lockId := uint8(protocol.COMMAND_LOCK), "LOCK", tok
	if kind == 'U' {
		ct, name, lockId = protocol.COMMAND_UNLOCK, "UNLOCK", target
	}
	if c.kind == 'b' {
		_ = c.write(vConnLockFrame(ct, tok, lockId, key, timeout, expried))
		x.fence(c)
	} else {
		args := []string{name, vConnHex16(key), "LOCK_ID", vConnHex16(lockId), "TIMEOUT", fmt.Sprint(timeout), "EXPRIED", fmt.Sprint(expried)}
		_ = c.write(vConnRESPCmd(args...))
		// either the reply arrives, or the request shows up in the key's wait queue (the handler then blocks)
		vConnWait(func() bool {
			c.rd.mu.Lock()
			got := false
			for _, f := range c.rd.frames {
				if !f.used && (f.kind == 'L' || f.kind == 'E') {
					got = true
				}
			}
			c.rd.mu.Unlock()
			return got || x.scan().waits[lockId] > 0
		}, 3*time.Second)
	}
	x.ev(fmt.Sprintf("q %d %d %c k%d id%d T%d E%d", c.idx, tok, kind, key, lockId, timeout, expried), "ok")
	x.out.stat("request-" + string(c.kind) + "-" + string(kind))
	x.follow('q', tok, c)
	return tok
}

// tokFrame: which connection received an (unused) reply frame for token tok. For an UNLOCK the text reply carries the
// LockId of the target, so text connections are matched on the handler's current token.
func (x *vConnRun) tokFrame(tok int) (int, bool) {
	for _, c := range x.conns {
		f := c.take(func(f *vConnFrame) bool {
			if f.kind != 'L' {
				return false
			}
			if c.kind == 't' {
				return c.blocked == tok || f.tok == tok
			}
			return f.tok == tok
		})
		if f != nil {
			x.out.stat(fmt.Sprintf("reply-result-%d", f.result))
			return c.idx, true
		}
	}
	return -1, false
}

// follow: after an action, find the tokens the engine answered (by engine snapshot), and where each reply went
func (x *vConnRun) follow(ctx byte, reqTok int, reqConn *vConnC) {
	if x.dead != "" {
		return
	}
	x.settle()
	sc := x.scan()
	if ctx == 'q' && x.toks[reqTok].kind == 'U' {
		// the UNLOCK's own effect on the counters is not a will's (a close may follow inside this very action)
		reqConn.rd.mu.Lock()
		for _, f := range reqConn.rd.frames {
			if !f.used && f.kind == 'L' {
				if f.result == 0 {
					x.uc0++
				} else {
					x.ue0++
				}
				break
			}
		}
		reqConn.rd.mu.Unlock()
	}
	// in the order a sweep produces them: timeouts first, then expiries, then the grants the expiries made possible
	var answered, expired, granted []int
	for tok, st := range x.live {
		nh, nw := sc.holds[tok] > 0, sc.waits[tok] > 0
		switch {
		case st == 'w' && nh:
			granted = append(granted, tok)
			x.live[tok] = 'h'
		case st == 'w' && !nw:
			answered = append(answered, tok)
			delete(x.live, tok)
		case st == 'h' && !nh:
			if ctx == 't' {
				expired = append(expired, tok) // expired: EXPRIED notice
			}
			delete(x.live, tok)
		}
	}
	sort.Ints(answered)
	sort.Ints(expired)
	sort.Ints(granted)
	answered = append(append(answered, expired...), granted...)
	if ctx == 'q' {
		ti := x.toks[reqTok]
		if ti.kind == 'L' && sc.waits[reqTok] > 0 {
			x.live[reqTok] = 'w'
			if reqConn.kind == 't' {
				reqConn.blocked = reqTok
			}
		} else {
			if reqConn.kind == 't' {
				reqConn.blocked = reqTok // until its reply frame is matched below
			}
			answered = append(answered, reqTok)
			if ti.kind == 'L' && sc.holds[reqTok] > 0 {
				x.live[reqTok] = 'h'
			}
		}
	}
	// replies that close a connection (blocked text handler, peer gone) last: the close runs on the handler's goroutine,
	// after the sweep that produced the other replies
	isLost := func(tok int) bool {
		o := x.conns[x.toks[tok].owner]
		return o.kind == 't' && o.blocked == tok && !o.srvClosed && o.cliGone
	}
	sort.SliceStable(answered, func(i, j int) bool { return !isLost(answered[i]) && isLost(answered[j]) })
	again := false
	for _, tok := range answered {
		owner := x.conns[x.toks[tok].owner]
		// a blocked text connection writes its reply from its own goroutine: give it time
		if owner.kind == 't' && owner.blocked == tok && !owner.srvClosed {
			if owner.cliGone {
				if !vConnWait(owner.isDone, 3*time.Second) {
					x.ev(fmt.Sprintf("d %d", tok), "lost+hang")
					x.closeHang(owner)
					return
				}
				owner.blocked = 0
				ob := x.streamEvidence(owner, vConnScan{}, nil)
				x.ev(fmt.Sprintf("d %d", tok), "lost+"+ob)
				if x.dead != "" {
					return
				}
				again = true
				continue
			}
			vConnWait(func() bool {
				owner.rd.mu.Lock()
				defer owner.rd.mu.Unlock()
				for _, f := range owner.rd.frames {
					if !f.used && f.kind == 'L' {
						return true
					}
				}
				return false
			}, 3*time.Second)
		}
		to, ok := x.tokFrame(tok)
		ob := "drop"
		if ok {
			ob = fmt.Sprintf(">%d", to)
			x.routed(tok, to)
			if x.conns[to].kind == 't' {
				x.conns[to].blocked = 0
			}
		} else if owner.kind == 't' && owner.blocked == tok {
			owner.blocked = 0
		}
		if !ok {
			x.droppedDespiteReconnect(tok, owner, "the reply the engine produced for a request")
		}
		x.ev(fmt.Sprintf("d %d", tok), ob)
	}
	if again {
		x.follow('x', 0, nil) // the wills of a connection that closed on a lost reply may have answered more tokens
		return
	}
	x.settle()
	x.unexpected()
	x.check()
}

// reconnected: the open connection that, by the script, holds the non-zero client id closed connection c announced last
// (nil if none, or if its client end is gone: a write to it fails)
func (x *vConnRun) reconnected(c *vConnC) *vConnC {
	if !c.srvClosed || !c.inited || c.cid == 0 {
		return nil
	}
	r := x.reg[c.cid]
	if r == nil || r == c || r.srvClosed || r.cliGone || r.isDone() {
		return nil
	}
	return r
}

func (x *vConnRun) droppedDespiteReconnect(tok int, c *vConnC, what string) {
	if r := x.reconnected(c); r != nil {
		// the same fact from the requester's side (C03): the request gets NO terminal reply although its client is connected
		x.report("C03:no-terminal-reply:dropped-despite-reconnect", fmt.Sprintf("%s (token %d): the request was issued on connection %d (client id %d); its terminal reply was dropped although open connection %d holds that id — the requester never hears of it", what, tok, c.idx, c.cid, r.idx))
		x.report("C18:reply-dropped-despite-reconnect", fmt.Sprintf("%s (token %d) of closed connection %d, which announced client id %d, was dropped although open connection %d announced the same id (and still holds it)", what, tok, c.idx, c.cid, r.idx))
	}
}

// routed: monitor for the routing clause — the receiver is the issuer, or announced the id the issuer announced
func (x *vConnRun) routed(tok, to int) {
	ti := x.toks[tok]
	if ti == nil || ti.owner == to {
		return
	}
	owner, rc := x.conns[ti.owner], x.conns[to]
	x.out.stat("reply-delivered-to-other-connection")
	for _, a := range owner.announced {
		for _, b := range rc.announced {
			if a == b {
				return
			}
		}
	}
	x.report("C03:reply-delivered-to-different-client", fmt.Sprintf("the reply for token %d issued on connection %d (announced client ids %v) was delivered to live connection %d (announced %v), which never sent that RequestId and shares no client id with the issuer",
		tok, ti.owner, owner.announced, to, rc.announced))
	x.report("C18:reply-to-unrelated-connection", fmt.Sprintf("the reply for token %d issued on connection %d (announced client ids %v, closed=%v) was delivered to connection %d (announced %v)",
		tok, ti.owner, owner.announced, owner.srvClosed, to, rc.announced))
}

// unexpected: every reply frame must be the answer to something the script knows about
func (x *vConnRun) unexpected() {
	for _, c := range x.conns {
		for {
			f := c.take(func(f *vConnFrame) bool { return f.kind == 'L' || f.kind == 'E' })
			if f == nil {
				break
			}
			x.obs[len(x.obs)-1] += fmt.Sprintf("!extra@%d:%d", c.idx, f.tok)
			ti := x.toks[f.tok]
			if f.kind == 'L' && ti != nil && ti.owner != c.idx {
				x.routed(f.tok, c.idx)
			}
			// C03: one terminal reply per request — a frame that answers no outstanding request is a reply too many (e.g. a late EXPRIED
			// notice taken for the answer of the connection's next command)
			x.report("C03:reply-answers-nothing-outstanding", fmt.Sprintf("connection %d received a frame (token %d, result %d) that answers no request it has outstanding", c.idx, f.tok, f.result))
			x.report("C18:unexpected-frame", fmt.Sprintf("connection %d received a frame (token %d, result %d) that answers nothing outstanding", c.idx, f.tok, f.result))
		}
	}
}

// check: will-before-close — no registered will of a connection that is still open may show an effect
func (x *vConnRun) check() {
	if x.dead != "" {
		return
	}
	// an open connection that announced an id nobody announced after it must be found under that id
	for cid, r := range x.reg {
		if r.srvClosed || r.cliGone || r.isDone() || r.bp == nil {
			continue
		}
		s := x.v.slock
		s.clientsGlock.Lock()
		sp, ok := s.clients[vId16(cid)]
		s.clientsGlock.Unlock()
		if !ok || sp != ServerProtocol(r.bp) {
			x.report("C18:registration-lost", fmt.Sprintf("open connection %d announced client id %d and no later connection announced it, but SLock.clients[%d] is %v", r.idx, cid, cid, map[bool]string{true: "another protocol", false: "empty"}[ok]))
		}
	}
	var sc *vConnScan
	for _, c := range x.conns {
		if c.srvClosed || len(c.wills) == 0 || c.isDone() {
			continue
		}
		if sc == nil {
			s := x.scan()
			sc = &s
		}
		for _, w := range c.wills {
			bad := ""
			switch w.typ {
			case "L0", "Lw":
				if sc.holds[w.tok] > 0 || sc.waits[w.tok] > 0 {
					bad = fmt.Sprintf("will LOCK %d already holds / waits on key %d", w.tok, w.key)
				}
			case "Uo":
				if sc.holds[w.target] == 0 {
					bad = fmt.Sprintf("the hold %d on key %d that will UNLOCK %d is to release is already gone", w.target, w.key, w.tok)
				}
			}
			if bad != "" {
				x.report("C18:will-before-close", fmt.Sprintf("connection %d is still open but %s", c.idx, bad))
			}
		}
	}
}

func (x *vConnRun) wouldCrash(c *vConnC) bool {
	if c.kind != 'b' || !c.bp.inited || !x.registeredSelf(c) {
		return false
	}
	for _, w := range c.wills {
		if w.imm || w.self {
			return true
		}
	}
	return false
}

// cmdAttached: the will's command object belongs to a live lock (hold or queued request) of its key
func (x *vConnRun) cmdAttached(w *vConnWill) bool {
	if w.cmd == nil || w.db == 0xff {
		return false
	}
	db := x.v.slock.dbs[w.db]
	if db == nil {
		return false
	}
	m := db.GetLockManager(&protocol.LockCommand{LockKey: vId16(w.key)})
	if m == nil {
		return false
	}
	m.glock.Lock()
	defer m.glock.Unlock()
	if m.lockKey != vId16(w.key) {
		return false
	}
	if m.currentLock != nil && m.currentLock.command == w.cmd {
		return true
	}
	if m.locks != nil {
		for _, node := range m.locks.IterNodes() {
			for _, l := range node {
				if l != nil && l.command == w.cmd {
					return true
				}
			}
		}
	}
	if m.waitLocks != nil {
		for _, node := range m.waitLocks.IterNodes() {
			for _, l := range node {
				if l != nil && l.command == w.cmd {
					return true
				}
			}
		}
	}
	return false
}

// cmdFreed: the will's command object was handed back to the server's free list (the engine / the protocol is done with it)
func (x *vConnRun) cmdFreed(w *vConnWill) bool {
	if w.cmd == nil {
		return false
	}
	s := x.v.slock
	s.freeLockCommandLock.Lock()
	for _, node := range s.freeLockCommandQueue.IterNodes() {
		for _, c := range node {
			if c == w.cmd {
				s.freeLockCommandLock.Unlock()
				return true
			}
		}
	}
	s.freeLockCommandLock.Unlock()
	// a protocol object created since (e.g. the AOF channel of a db a later will created) may have stocked up from that list
	in := func(cs []*protocol.LockCommand, n int, q *LockCommandQueue) bool {
		for i := 0; i < n && i < len(cs); i++ {
			if cs[i] == w.cmd {
				return true
			}
		}
		if q != nil {
			for _, node := range q.IterNodes() {
				for _, c := range node {
					if c == w.cmd {
						return true
					}
				}
			}
		}
		return false
	}
	s.protocolSessionsGlock.Lock()
	defer s.protocolSessionsGlock.Unlock()
	for _, se := range s.protocolSessions {
		switch p := se.serverProtocol.(type) {
		case *MemWaiterServerProtocol:
			if in(p.freeCommands, p.freeCommandIndex, p.lockedFreeCommands) {
				return true
			}
		case *BinaryServerProtocol:
			if in(p.freeCommands, p.freeCommandIndex, p.lockedFreeCommands) {
				return true
			}
		case *TextServerProtocol:
			if in(p.freeCommands, p.freeCommandIndex, p.lockedFreeCommands) {
				return true
			}
		}
	}
	return false
}

func (x *vConnRun) tick() {
	x.ue0, x.uc0 = int(x.v.counters().UnlockErrorCount), int(x.v.counters().UnLockCount)
	// one second of server time, as vSeq.tick does it, but in its two phases: a reply that reaches a blocked text handler
	// whose peer is gone makes that connection close on its own goroutine; let that finish before the expiry sweep runs
	db := x.v.db
	if x.v.expectNow != 0 && db.currentTime != x.v.expectNow {
		panic(fmt.Sprintf("harness: the virtual clock was overwritten (%d, expected %d): a background sweeper is still alive", db.currentTime, x.v.expectNow))
	}
	now := db.currentTime + 1
	x.v.expectNow = now
	db.currentTime = now
	c := db.checkTimeoutTime
	db.checkTimeoutTime = now + 1
	for ; c <= now; c++ {
		db.checkTimeTimeOut(c, now, 0, x.v.tq)
	}
	x.nticks++
	x.ev("t", "-")
	x.follow('t', 0, nil)
	if x.dead != "" {
		return
	}
	c = db.checkExpriedTime
	db.checkExpriedTime = now + 1
	for ; c <= now; c++ {
		db.checkTimeExpried(c, now, 0, x.v.eq)
	}
	x.follow('t', 0, nil)
}

// closeHang: Close() is blocked on the full lockWaiter of a text connection; record, then release it so that no
// goroutine outlives the case
func (x *vConnRun) closeHang(c *vConnC) {
	x.dead = "hang"
	x.report("C18:close-hang", fmt.Sprintf("Close() of %s connection %d (%d wills registered) did not return: blocked sending the fifth immediate will reply into lockWaiter (capacity 4, no reader)", vConnKindName(c.kind), c.idx, len(c.wills)))
	sc := x.scan()
	for _, w := range c.wills {
		if w.typ == "L0" && w.pair == nil && sc.holds[w.tok] == 0 {
			x.report("C18:will-not-executed", fmt.Sprintf("will %d (%s) of connection %d was never executed: Close() hangs before it", w.tok, w.typ, c.idx))
		}
	}
	if c.tp != nil {
		for i := 0; i < 64 && !c.isDone(); i++ {
			select {
			case <-c.tp.lockWaiter:
			case <-time.After(20 * time.Millisecond):
			}
		}
	}
	vConnWait(c.isDone, 2*time.Second)
	c.srvClosed = true
}

func vConnKindName(k byte) string {
	if k == 'b' {
		return "binary"
	}
	return "text"
}

// streamEvidence: the stream of c has ended and its goroutine has finished: a running nested text protocol ended first, then
// the connection itself
func (x *vConnRun) streamEvidence(c *vConnC, pre vConnScan, ph map[*vConnC]map[int]bool) string {
	o := c
	if c.outer != nil {
		o = c.outer
	}
	if n := o.nested; n != nil && !n.srvClosed {
		a := x.closeEvidence(n, pre, ph[n])
		if x.dead != "" {
			return a
		}
		b := x.closeEvidence(o, pre, ph[o])
		if x.dead != "" {
			return b
		}
		ord := strings.Contains(a, "!order") || strings.Contains(b, "!order")
		pa := strings.TrimSuffix(strings.TrimPrefix(strings.TrimSuffix(a, "!order"), "W["), "]")
		pb := strings.TrimSuffix(strings.TrimPrefix(strings.TrimSuffix(b, "!order"), "W["), "]")
		var parts []string
		for _, p := range []string{pa, pb} {
			if p != "" {
				parts = append(parts, p)
			}
		}
		r := "W[" + strings.Join(parts, ",") + "]"
		if ord {
			r += "!order"
		}
		return r
	}
	return x.closeEvidence(o, pre, ph[o])
}

func (x *vConnRun) holdsOf(c *vConnC) map[int]bool {
	m := map[int]bool{}
	for tok, st := range x.live {
		if st == 'h' && x.toks[tok].owner == c.idx {
			m[tok] = true
		}
	}
	return m
}

// close: the script ends the stream of connection c. cause: 'c' client closes its end, 'e' protocol error, 's' server closes
// the stream, 'q' binary QUIT. For a connection in ADMIN mode (c = the binary connection or its nested text protocol) the
// protocol reading the stream is the nested one.
func (x *vConnRun) close(c *vConnC, cause byte) {
	if x.dead != "" {
		return
	}
	op := fmt.Sprintf("x %d %c", c.idx, cause)
	o := c
	if c.outer != nil {
		o = c.outer
	}
	act := o // the protocol whose Process() loop reads the stream
	if o.nested != nil && !o.nested.srvClosed {
		act = o.nested
	}
	if o.srvClosed {
		// idempotence: Close() again, directly
		before := x.closeStateDigest(o)
		if o.kind == 'b' {
			_ = o.bp.Close()
		} else {
			_ = o.tp.Close()
		}
		ob := "noop"
		if after := x.closeStateDigest(o); after != before {
			ob = "changed"
			x.report("C18:close-not-idempotent", fmt.Sprintf("a second Close() of connection %d changed state: %s -> %s", o.idx, before, after))
		}
		x.ev(op, ob)
		x.follow('x', 0, nil)
		return
	}
	if o.kind == 'b' && x.wouldCrash(o) && x.pendFile != "" {
		// what is on record if the process dies in this Close()
		js, _ := json.Marshal(map[string]string{"ops": x.line() + ";" + op, "obs": strings.Join(x.obs, ";")})
		_ = os.WriteFile(x.pendFile, js, 0o644)
	}
	x.ue0, x.uc0 = int(x.v.counters().UnlockErrorCount), int(x.v.counters().UnLockCount)
	pre := x.scan()
	ph := map[*vConnC]map[int]bool{o: x.holdsOf(o)}
	if act != o {
		ph[act] = x.holdsOf(act)
	}
	switch cause {
	case 'c':
		_ = o.cli.Close()
	case 's':
		_ = o.stream.Close()
	case 'q':
		// binary QUIT: answered with a QuitResult, then Process() returns io.EOF
		id := x.aux()
		q := &protocol.QuitCommand{Command: protocol.Command{Magic: protocol.MAGIC, Version: protocol.VERSION, CommandType: protocol.COMMAND_QUIT, RequestId: vId16(id)}}
		b := make([]byte, 64)
		_ = q.Encode(b)
		_ = o.write(b)
	case 'e':
		if act.kind == 'b' {
			g := make([]byte, 64)
			for i := range g {
				g[i] = byte(0xa0 + i%7)
			}
			id := vId16(x.aux())
			copy(g[3:19], id[:])
			_ = o.write(g)
		} else {
			_ = o.write([]byte("!garbage\r\n"))
		}
	}
	o.cliGone, act.cliGone = true, true
	if act.kind == 't' && act.blocked != 0 {
		// the handler is blocked in <-lockWaiter: the server cannot notice before the reply
		x.settle()
		ob := "defer"
		if o.isDone() {
			ob = "closed-while-blocked"
		}
		x.ev(op, ob)
		x.out.stat("close-deferred")
		x.check()
		return
	}
	if !vConnWait(o.isDone, 3*time.Second) {
		x.ev(op, "hang")
		x.closeHang(act)
		return
	}
	ob := x.streamEvidence(o, pre, ph)
	x.ev(op, ob)
	x.out.stat(fmt.Sprintf("close-%s-%c-wills%d", vConnKindName(o.kind), cause, len(o.wills)))
	if act != o {
		x.out.stat(fmt.Sprintf("close-admin-%c-wills%d", cause, len(act.wills)))
	}
	if o.inited {
		x.out.stat("close-inited")
	}
	x.follow('x', 0, nil)
}

func (x *vConnRun) closeStateDigest(c *vConnC) string {
	st := x.v.counters()
	sc := x.scan()
	x.v.slock.clientsGlock.Lock()
	ncl := len(x.v.slock.clients)
	x.v.slock.clientsGlock.Unlock()
	x.v.slock.protocolSessionsGlock.Lock()
	nse := len(x.v.slock.protocolSessions)
	x.v.slock.protocolSessionsGlock.Unlock()
	return fmt.Sprintf("lc=%d uc=%d ld=%d wc=%d ue=%d holds=%v waits=%v clients=%d sessions=%d", st.LockCount, st.UnLockCount, st.LockedCount, st.WaitCount, st.UnlockErrorCount, sc.holds, sc.waits, ncl, nse)
}

// closeEvidence: Close() of c has returned. Evaluate what the wills did (engine snapshot + frames), run the monitors,
// return the canonical observation W[tok:res,…].
func (x *vConnRun) closeEvidence(c *vConnC, pre vConnScan, preHolds map[int]bool) string {
	c.srvClosed = true
	if c.inited && x.reg[c.cid] == c {
		delete(x.reg, c.cid)
	}
	if c.panicked != "" {
		x.dead = "panic"
		x.report("C18:close-panic", fmt.Sprintf("the connection goroutine of connection %d panicked: %s", c.idx, c.panicked))
		return "panic"
	}
	x.settle()
	sc := x.scan()
	var parts []string
	lastIdxAt := map[int]int{} // per receiving connection: index of the last will whose reply frame it got
	// lock/unlock will pairs on a private key leave nothing behind when both ran in order: count the successful unlocks
	uoGone, pairsAbsent := 0, 0
	for _, w := range c.wills {
		if w.typ == "Uo" && sc.holds[w.target] == 0 {
			uoGone++
		}
		if w.typ == "Uw" && sc.holds[w.target] == 0 {
			pairsAbsent++
		}
	}
	pairsRan := int(x.v.counters().UnLockCount) - x.uc0 - uoGone
	pairsMissing := pairsAbsent - pairsRan // that many pairs show neither a hold nor a successful unlock
	nUm := 0
	for _, w := range c.wills {
		if w.typ == "Um" {
			nUm++
		}
	}
	for i, w := range c.wills {
		executed, why := true, ""
		if w.cmd != nil && !x.cmdAttached(w) && !x.cmdFreed(w) {
			// ProcessCommad never saw it: every path through it either stores the command in a lock or frees it
			executed, why = false, "its command object is neither attached to a lock of its key nor back in the server's free list: ProcessCommad was not called for it"
		}
		if (w.typ == "Uw" || (w.typ == "L0" && w.pair != nil)) && pairsMissing > 0 {
			tgt := w.tok
			if w.typ == "Uw" {
				tgt = w.target
			}
			if sc.holds[tgt] == 0 {
				executed, why = false, fmt.Sprintf("key %d is free, but UnLockCount shows no successful unlock for the will LOCK/UNLOCK pair on it", w.key)
				if w.typ == "Uw" {
					pairsMissing--
				}
			}
		}
		switch {
		case !executed:
		case w.typ == "L0":
			if w.pair == nil {
				if sc.holds[w.tok] == 0 {
					executed, why = false, fmt.Sprintf("key %d is not held under LockId %d after the close", w.key, w.tok)
				}
			} else if sc.holds[w.tok] > 0 {
				// the partner unlock will did not release it: it ran first (order) or not at all — decided at the partner
			}
		case w.typ == "Lw":
			n := sc.waits[w.tok] + sc.holds[w.tok]
			if n == 0 {
				executed, why = false, fmt.Sprintf("no request with LockId %d waits on key %d after the close", w.tok, w.key)
			} else if n > 1 {
				x.report("C18:will-executed-twice", fmt.Sprintf("will LOCK %d of connection %d is queued %d times on key %d", w.tok, c.idx, n, w.key))
			}
		case w.typ == "Uo":
			if sc.holds[w.target] > 0 {
				executed, why = false, fmt.Sprintf("hold %d on key %d is still there after the close", w.target, w.key)
			} else {
				delete(x.live, w.target)
			}
		case w.typ == "Uw":
			if sc.holds[w.target] > 0 {
				// the hold of the earlier will LOCK is still there
				st := x.v.counters()
				if int(st.UnlockErrorCount) > x.ue0+nUm {
					x.orderBad = true
					x.report("C18:will-order", fmt.Sprintf("connection %d registered will LOCK %d before will UNLOCK %d, but the unlock failed and the hold remains: executed in the wrong order", c.idx, w.target, w.tok))
				} else {
					executed, why = false, fmt.Sprintf("hold %d (taken by an earlier will) on key %d is still there and no unlock failed", w.target, w.key)
				}
			} else if w.pair != nil {
				delete(x.live, w.target)
			}
		}
		if !executed {
			sig := "C18:will-not-executed"
			if c.kind == 't' {
				sig = "C18:will-not-executed-text" // the text protocol's wills are a separate code path (commandHandlerLock / TextServerProtocol.Close)
			}
			if c.outer != nil {
				sig = "C18:will-not-executed-admin" // the nested text protocol of a binary ADMIN command ends in ProcessCommad, not in server.handle
			}
			x.report(sig, fmt.Sprintf("will %d (%s) of %s connection %d (registered at position %d of %d) shows no effect after Close(): %s", w.tok, w.typ, vConnKindName(c.kind), c.idx, i+1, len(c.wills), why))
			continue
		}
		if x.toks[w.tok] == nil {
			x.toks[w.tok] = &vConnTok{owner: c.idx, key: w.key, kind: w.typ[0], will: true}
			if w.typ[0] == 'L' && sc.holds[w.tok] > 0 {
				x.live[w.tok] = 'h'
			} else if w.typ[0] == 'L' && sc.waits[w.tok] > 0 {
				x.live[w.tok] = 'w'
			}
		}
		res := "q"
		if w.imm || w.self {
			res = "drop"
			// one reply frame per will (a duplicated will frame has the same token twice)
			for _, rc := range x.conns {
				f := rc.take(func(f *vConnFrame) bool { return f.kind == 'L' && f.tok == w.tok && rc.kind == 'b' })
				if f == nil {
					continue
				}
				res = fmt.Sprintf(">%d", rc.idx)
				x.routed(w.tok, rc.idx)
				if last, ok := lastIdxAt[rc.idx]; ok && last > i {
					x.orderBad = true
					x.report("C18:will-order", fmt.Sprintf("connection %d received the reply of will %d before the reply of a will registered earlier: wills of connection %d were not executed in registration order", rc.idx, w.tok, c.idx))
				}
				lastIdxAt[rc.idx] = i
				break
			}
		} else if w.typ == "Lw" && sc.holds[w.tok] > 0 {
			res = "genbug-imm"
		}
		if res == "drop" && c.kind == 'b' {
			x.droppedDespiteReconnect(w.tok, c, "the reply of a will command")
		}
		if w.self {
			res = "s" + res
		}
		parts = append(parts, fmt.Sprintf("%d:%s", w.tok, res))
	}
	// a second reply frame for a will that answers at once = it ran twice
	for _, w := range c.wills {
		if !(w.imm || w.self) {
			continue
		}
		for _, rc := range x.conns {
			if f := rc.take(func(f *vConnFrame) bool { return f.kind == 'L' && f.tok == w.tok && rc.kind == 'b' }); f != nil {
				x.report("C18:will-executed-twice", fmt.Sprintf("connection %d received more reply frames for will %d of connection %d than wills were registered under that RequestId", rc.idx, w.tok, c.idx))
			}
		}
	}
	// order of the frames as they arrived (a will's reply frame position at its receiver)
	x.frameOrder(c)
	// holds of c that no will released must have survived the close
	for tok := range preHolds {
		willed := false
		for _, w := range c.wills {
			if w.typ[0] == 'U' && w.target == tok {
				willed = true
			}
		}
		if !willed && sc.holds[tok] == 0 {
			x.report("C18:hold-lost-on-close", fmt.Sprintf("hold %d on key %d taken by connection %d disappeared when the connection closed although no will released it", tok, x.toks[tok].key, c.idx))
		}
	}
	// the connection layer must have let go of it
	s := x.v.slock
	s.clientsGlock.Lock()
	for id, sp := range s.clients {
		if (c.bp != nil && sp == ServerProtocol(c.bp)) || (c.tp != nil && sp == ServerProtocol(c.tp)) {
			x.report("C18:leak-after-close", fmt.Sprintf("closed connection %d is still registered in SLock.clients under id %x", c.idx, id))
		}
	}
	s.clientsGlock.Unlock()
	s.protocolSessionsGlock.Lock()
	for _, se := range s.protocolSessions {
		if (c.bp != nil && se.serverProtocol == ServerProtocol(c.bp)) || (c.tp != nil && se.serverProtocol == ServerProtocol(c.tp)) {
			if c.outer != nil {
				x.report("C18:session-leak-admin", fmt.Sprintf("the nested text protocol (record %d) of binary connection %d ended with the stream, but its session %d is still in SLock.protocolSessions", c.idx, c.outer.idx, se.sessionId))
			} else {
				x.report("C18:leak-after-close", fmt.Sprintf("closed connection %d still has session %d in SLock.protocolSessions", c.idx, se.sessionId))
			}
		}
	}
	s.protocolSessionsGlock.Unlock()
	if !c.stream.closed {
		x.report("C18:leak-after-close", fmt.Sprintf("stream of closed connection %d is not closed", c.idx))
	}
	ob := "W[" + strings.Join(parts, ",") + "]"
	if x.orderBad {
		ob += "!order"
		x.orderBad = false
	}
	return ob
}

// frameOrder: reply frames triggered by the wills (grants of other connections' queued requests released by unlock
// wills) must arrive in will order
func (x *vConnRun) frameOrder(c *vConnC) {
	idxOfKey := map[int]int{}
	for i, w := range c.wills {
		if w.typ == "Uo" {
			idxOfKey[w.key] = i
		}
	}
	for _, rc := range x.conns {
		if rc.kind != 'b' {
			continue
		}
		last := -1
		rc.rd.mu.Lock()
		for _, f := range rc.rd.frames {
			if f.used || f.kind != 'L' {
				continue
			}
			ti := x.toks[f.tok]
			if ti == nil || ti.will {
				continue
			}
			if i, ok := idxOfKey[ti.key]; ok {
				if i < last {
					rc.rd.mu.Unlock()
					x.orderBad = true
					x.report("C18:will-order", fmt.Sprintf("connection %d was granted key %d (released by will #%d of connection %d) after a key released by a later will: wills not executed in registration order", rc.idx, ti.key, i+1, c.idx))
					return
				}
				last = i
			}
		}
		rc.rd.mu.Unlock()
	}
}

// ---------------------------------------------------------------------------------------------
// generator: a random walk over the script actions

func (x *vConnRun) openConns(pred func(*vConnC) bool) []*vConnC {
	var cs []*vConnC
	for _, c := range x.conns {
		if !c.srvClosed && !c.cliGone && !c.isDone() && (pred == nil || pred(c)) {
			cs = append(cs, c)
		}
	}
	return cs
}

func (x *vConnRun) ownHolds(c *vConnC, pred func(tok int, ti *vConnTok) bool) []int {
	var hs []int
	for tok, st := range x.live {
		ti := x.toks[tok]
		if st == 'h' && ti.owner == c.idx && !ti.will && pred(tok, ti) {
			hs = append(hs, tok)
		}
	}
	sort.Ints(hs)
	return hs
}

func (x *vConnRun) heldByOthers(c *vConnC) []int {
	var hs []int
	for tok, st := range x.live {
		ti := x.toks[tok]
		if st == 'h' && ti.owner != c.idx && ti.long {
			hs = append(hs, tok)
		}
	}
	sort.Ints(hs)
	return hs
}

func (x *vConnRun) safeClose(c *vConnC, cause byte) {
	o := c
	if c.outer != nil {
		o = c.outer
	}
	if x.wouldCrash(o) && !(x.risky && x.r.Intn(100) < 85) {
		// a same-id connection takes the registration over first (the crash needs clients[id] == the closing connection)
		h := x.open('b', true)
		x.init(h, o.cid)
		x.out.stat("takeover-before-risky-close")
	}
	if x.wouldCrash(o) {
		x.out.stat("risky-close-executed")
	}
	x.close(c, cause)
}

func (x *vConnRun) pickCause(c *vConnC) byte {
	if c.nested != nil && !c.nested.srvClosed {
		c = c.nested
	}
	if c.kind == 't' && c.blocked != 0 {
		return []byte{'c', 's'}[x.r.Intn(2)]
	}
	if c.kind == 'b' && x.r.Intn(6) == 0 {
		return 'q'
	}
	return []byte{'c', 'c', 'e', 's'}[x.r.Intn(4)]
}

// chain: one client id across 2..3 reconnects, with requests of the FIRST connection still queued across all of them: each
// later connection gets 0..2 of their replies (the first one makes it adopt the first connection's proxy) before it closes
// in turn; both orders of "old connection closes" / "new connection announces the id"; wills in the mix.
// hops / replies / order fixed = the corpus case; -1 = drawn.
func (x *vConnRun) chain(hops, replies, order int) {
	r := x.r
	x.chained = true
	x.nextCid++
	cid := 100 + x.nextCid
	o := x.open('b', false)
	first := x.open('b', false)
	x.init(first, cid)
	nreq := 3 + r.Intn(3)
	for i := 0; i < nreq && x.dead == ""; i++ {
		h := x.request(o, 'L', x.newKey(), 0, 0, 60)
		x.toks[h].long, x.toks[h].pin = true, true
		x.request(first, 'L', x.toks[h].key, 0, 2+2*i, 60) // replies (timeouts) arrive two seconds apart
	}
	if hops < 0 {
		hops = 2 + r.Intn(2)
	}
	prev := first
	for hop := 0; hop < hops && x.dead == ""; hop++ {
		ord := order
		if ord < 0 {
			ord = r.Intn(2)
		}
		// a will only on a connection that is taken over before it closes (a will answered at once on a connection that closes
		// while it is still registered was the stack-overflow defect: such lifetimes belong to the child-process cases)
		if ord == 1 && r.Intn(2) == 0 {
			w := &vConnWill{typ: []string{"L0", "Um"}[r.Intn(2)], imm: true, key: x.newKey(), target: 999999, tok: x.nextTok}
			x.nextTok++
			x.will(prev, w)
		}
		var next *vConnC
		if ord == 0 {
			// the old connection goes first, then the client comes back
			x.close(prev, x.pickCause(prev))
			next = x.open('b', false)
			x.init(next, cid)
		} else {
			// half-open: the client is back before the server has ended the old connection
			next = x.open('b', false)
			x.init(next, cid)
			x.close(prev, []byte{'s', 'c'}[r.Intn(2)])
		}
		k := replies
		if k < 0 {
			k = r.Intn(3)
		}
		for i := 0; i < 2*k && x.dead == ""; i++ {
			x.tick()
		}
		prev = next
	}
	for i := 0; i < 3 && x.dead == ""; i++ {
		x.tick()
	}
	x.out.stat(fmt.Sprintf("chain-hops%d", hops))
}

func (x *vConnRun) step() {
	r := x.r
	if r.Intn(40) == 0 {
		_ = x.v.slock.checkServerProtocolSession() // the periodic session sweep: not an event of the model (neutral on the unchanged code)
		x.out.stat("session-check")
	}
	if !x.chained && x.nticks < 12 && len(x.conns) < 5 && r.Intn(25) == 0 {
		x.chain(-1, -1, -1)
		return
	}
	free := x.openConns(func(c *vConnC) bool { return c.blocked == 0 && c.nested == nil })
	all := x.openConns(func(c *vConnC) bool { return c.nested == nil })
	n := r.Intn(100)
	switch {
	case n < 12 && len(all) > 0 && r.Intn(5) == 0 && len(x.conns) < 8:
		// ADMIN: a binary connection switches to the text protocol on the same stream
		for _, c := range free {
			if c.kind == 'b' && !c.helper {
				x.admin(c)
				break
			}
		}
	case len(all) == 0 || (n < 12 && len(x.conns) < 6):
		k := byte('b')
		if r.Intn(100) < 35 {
			k = 't'
		}
		x.open(k, false)
	case n < 24:
		var bs []*vConnC
		for _, c := range free {
			if c.kind == 'b' {
				bs = append(bs, c)
			}
		}
		if len(bs) == 0 {
			return
		}
		c := bs[r.Intn(len(bs))]
		var used []int
		for _, o := range x.conns {
			if o != c {
				used = append(used, o.announced...)
			}
		}
		cid := 0
		switch m := r.Intn(100); {
		case m < 50 && len(used) > 0:
			cid = used[r.Intn(len(used))]
		case m < 94:
			x.nextCid++
			cid = 100 + x.nextCid
		}
		if cid == 0 {
			x.out.stat("init-zero-id")
		}
		x.init(c, cid)
	case n < 42:
		// register a will
		if len(free) == 0 {
			return
		}
		c := free[r.Intn(len(free))]
		if len(c.wills) >= 5 && r.Intn(4) != 0 {
			return
		}
		if r.Intn(100) < 3 {
			// a long will list: crosses the node boundaries of the will queue (8, 24 entries)
			nb := 7 + r.Intn(22)
			for i := 0; i < nb && x.dead == ""; i++ {
				bw := &vConnWill{typ: "L0", imm: true, key: x.newKey()}
				switch r.Intn(4) {
				case 1:
					bw = &vConnWill{typ: "Um", imm: true, key: x.newKey(), target: 999999}
				case 2:
					bw = &vConnWill{typ: "Un", imm: true, self: true, key: x.newKey(), db: vConnDbMissing, target: 999999}
				}
				bw.tok = x.nextTok
				x.nextTok++
				x.will(c, bw)
			}
			x.out.stat("will-burst")
			return
		}
		var w *vConnWill
		m := r.Intn(136)
		switch {
		case m >= 100:
			// the kinds the protocol answers itself, the ones the engine refuses, a db created by the will, a repeated frame
			switch {
			case m < 106:
				if hs := x.ownHolds(c, func(tok int, ti *vConnTok) bool { return ti.long && !ti.wtgt && !ti.pin }); len(hs) > 0 {
					h := hs[r.Intn(len(hs))]
					x.toks[h].pin = true
					w = &vConnWill{typ: "Ls", imm: true, key: x.toks[h].key, target: h}
				}
			case m < 113:
				w = &vConnWill{typ: "Um", imm: true, key: x.newKey(), target: 999999}
			case m < 119 && c.kind == 'b':
				w = &vConnWill{typ: "Lx", imm: true, self: true, key: x.newKey(), db: 0xff}
			case m < 125 && c.kind == 'b':
				w = &vConnWill{typ: "Ux", imm: true, self: true, key: x.newKey(), db: 0xff, target: 999999}
			case m < 131:
				w = &vConnWill{typ: "Un", imm: true, self: true, key: x.newKey(), db: vConnDbMissing, target: 999999}
			case m < 133 && c.kind == 'b' && x.v.slock.dbs[vConnDbNew] == nil && !x.usedNewDb:
				x.usedNewDb = true
				w = &vConnWill{typ: "Ln", imm: true, key: x.newKey(), db: vConnDbNew}
			default:
				for _, p := range c.wills {
					if p.typ == "L0" && p.pair == nil && !p.noPair {
						w = &vConnWill{typ: "Ld", imm: true, key: p.key, tok: p.tok}
						p.noPair = true // no unlock will may pair with it any more
						break
					}
				}
			}
		case m < 30:
			w = &vConnWill{typ: "L0", imm: true, key: x.newKey()}
		case m < 50:
			// wait behind a long hold of another connection (pinned: the script never releases it)
			if hs := x.heldByOthers(c); len(hs) > 0 {
				h := hs[r.Intn(len(hs))]
				if !x.toks[h].wtgt {
					x.toks[h].pin = true
					w = &vConnWill{typ: "Lw", imm: false, key: x.toks[h].key}
				}
			}
		case m < 80:
			if hs := x.ownHolds(c, func(tok int, ti *vConnTok) bool { return ti.long && !ti.wtgt && !ti.pin }); len(hs) > 0 {
				h := hs[r.Intn(len(hs))]
				x.toks[h].wtgt = true
				w = &vConnWill{typ: "Uo", imm: true, key: x.toks[h].key, target: h}
			}
		default:
			for _, p := range c.wills {
				if p.typ == "L0" && p.pair == nil && !p.noPair {
					w = &vConnWill{typ: "Uw", imm: true, key: p.key, target: p.tok, pair: p}
					p.pair = w
					break
				}
			}
		}
		if w == nil {
			w = &vConnWill{typ: "L0", imm: true, key: x.newKey()}
		}
		if w.tok == 0 {
			w.tok = x.nextTok
			x.nextTok++
		}
		x.will(c, w)
	case n < 64:
		// LOCK
		if len(free) == 0 {
			return
		}
		c := free[r.Intn(len(free))]
		if hs := x.heldByOthers(c); len(hs) > 0 && r.Intn(100) < 45 {
			h := hs[r.Intn(len(hs))]
			if x.toks[h].wtgt || r.Intn(3) == 0 {
				// wait for a key another connection holds (released by its will, by its unlock, or never: timeout)
				t := []int{0, 2, 3, 5, 9}[r.Intn(5)]
				x.request(c, 'L', x.toks[h].key, 0, t, 60)
				return
			}
		}
		e := []int{2, 3, 5, 60, 60, 60}[r.Intn(6)]
		tok := x.request(c, 'L', x.newKey(), 0, 0, e)
		x.toks[tok].long = e == 60
	case n < 72:
		// UNLOCK an own hold
		if len(free) == 0 {
			return
		}
		c := free[r.Intn(len(free))]
		if hs := x.ownHolds(c, func(tok int, ti *vConnTok) bool { return !ti.wtgt && !ti.pin }); len(hs) > 0 {
			h := hs[r.Intn(len(hs))]
			x.request(c, 'U', x.toks[h].key, h, 0, 0)
		}
	case n < 84:
		k := []int{1, 1, 2, 3, 6}[r.Intn(5)]
		for i := 0; i < k && x.dead == "" && x.nticks < 30; i++ {
			x.tick()
		}
	case n < 96:
		if len(all) == 0 {
			return
		}
		c := all[r.Intn(len(all))]
		if c.helper && r.Intn(3) != 0 {
			return
		}
		x.safeClose(c, x.pickCause(c))
	default:
		var closed []*vConnC
		for _, c := range x.conns {
			if c.srvClosed {
				closed = append(closed, c)
			}
		}
		if len(closed) > 0 {
			x.close(closed[r.Intn(len(closed))], 's')
		}
	}
}

// finale: end every connection, let the queued requests time out (that also releases blocked text handlers)
func (x *vConnRun) finale() {
	for round := 0; round < 4; round++ {
		for _, c := range x.openConns(nil) {
			if x.dead != "" {
				return
			}
			x.safeClose(c, x.pickCause(c))
			if x.r.Intn(3) == 0 && x.dead == "" {
				x.tick()
			}
		}
	}
	for i := 0; i < 14 && x.dead == ""; i++ {
		w := false
		for _, st := range x.live {
			if st == 'w' {
				w = true
			}
		}
		blocked := false
		for _, c := range x.conns {
			if !c.srvClosed {
				blocked = true
			}
		}
		if !w && !blocked {
			break
		}
		x.tick()
	}
	for _, c := range x.conns {
		if !c.srvClosed && x.dead == "" {
			x.report("C18:connection-never-closed", fmt.Sprintf("connection %d was ended by the script but the server side never ran Close()", c.idx))
		}
	}
}

// cleanup: no goroutine, hold or queued request of this case may survive it
func (x *vConnRun) cleanup() {
	for _, c := range x.conns {
		_ = c.cli.Close()
		c.rd.mu.Lock()
		c.rd.stop = true
		c.rd.mu.Unlock()
	}
	// force-release whatever is left in the engine (through the in-memory connection of the engine harness)
	req := 0x60000000
	for _, key := range x.keys {
		for i := 0; i < 200; i++ {
			ks := x.v.keySnap(key)
			if len(ks.holds) == 0 && len(ks.waits) == 0 {
				break
			}
			req++
			if len(ks.holds) > 0 {
				x.v.apply(vOp{kind: 'U', req: req, conn: 1, flag: 1, lockId: 99999, key: key}, nil)
				continue
			}
			var id, rq int
			var tt int64
			fmt.Sscanf(strings.ReplaceAll(ks.waits[0], ".", " "), "%d %d %d", &id, &rq, &tt)
			x.v.apply(vOp{kind: 'U', req: req, conn: 1, flag: 2, lockId: id, key: key}, nil)
		}
	}
	x.v.replies = x.v.replies[:0]
	if db := x.v.slock.dbs[vConnDbNew]; db != nil {
		// the db a will created: park its background loops and forget it
		db.status = STATE_CLOSE
		x.v.slock.glock.Lock()
		x.v.slock.dbs[vConnDbNew] = nil
		x.v.slock.glock.Unlock()
	}
	for _, c := range x.conns {
		if !vConnWait(c.isDone, 2*time.Second) && c.tp != nil {
			for i := 0; i < 64 && !c.isDone(); i++ {
				select {
				case <-c.tp.lockWaiter:
				case <-time.After(20 * time.Millisecond):
				}
			}
		}
		if !vConnWait(c.isDone, 2*time.Second) {
			x.report("C18:goroutine-leak", fmt.Sprintf("the connection goroutine of connection %d is still running after the case", c.idx))
		}
		vConnWait(func() bool {
			select {
			case <-c.rd.done:
				return true
			default:
				return false
			}
		}, 2*time.Second)
	}
}

type vConnBase struct {
	keyCount         uint32
	locked, wait     uint32
	sessions, client int
}

func vConnCensus(v *vSeq) vConnBase {
	st := v.counters()
	v.slock.clientsGlock.Lock()
	ncl := len(v.slock.clients)
	v.slock.clientsGlock.Unlock()
	v.slock.protocolSessionsGlock.Lock()
	nse := len(v.slock.protocolSessions)
	v.slock.protocolSessionsGlock.Unlock()
	return vConnBase{st.KeyCount, st.LockedCount, st.WaitCount, nse, ncl}
}

// vConnCase runs one generated lifetime on v; returns false if v must be discarded
func vConnCase(v *vSeq, out *vOut, seed int64, idx int, risky bool, pendFile string) bool {
	x := &vConnRun{v: v, out: out, r: rand.New(rand.NewSource(seed*1000003 + int64(idx))), idx: idx, risky: risky, toks: map[int]*vConnTok{}, live: map[int]byte{},
		seen: map[string]bool{}, reg: map[int]*vConnC{}, nextKey: 1000 * (idx + 1), nextTok: 1, pendFile: pendFile}
	base := vConnCensus(v)
	done := make(chan struct{})
	bad := ""
	go func() {
		defer func() {
			if e := recover(); e != nil {
				bad = fmt.Sprintf("panic: %v", e)
			}
			close(done)
		}()
		if idx < len(vConnScripts) {
			vConnScripts[idx](x)
			out.stat("scripted-case")
		} else {
			x.open('b', false)
			x.open([]byte{'b', 'b', 't'}[x.r.Intn(3)], false)
			nsteps := 10 + x.r.Intn(30)
			for i := 0; i < nsteps && x.dead == ""; i++ {
				x.step()
			}
		}
		x.finale()
	}()
	select {
	case <-done:
	case <-time.After(60 * time.Second):
		bad = "harness-hang"
	}
	if bad == "" {
		x.cleanup()
	}
	line := x.line()
	ob := strings.Join(x.obs, ";")
	if bad != "" {
		ob += ";" + bad
		x.report("C18:harness-"+strings.Fields(bad)[0], "the harness itself failed during a case: "+bad)
	}
	out.emit(line, ob)
	if x.dead == "" && bad == "" {
		// leak census: the dead wheel entries get swept, then everything must be back at the baseline
		for i := 0; i < 18; i++ {
			v.tick()
		}
		v.replies = v.replies[:0]
		now := vConnCensus(v)
		if x.usedNewDb {
			// the LockDB a will created brought its own AOF channel (one in-memory protocol session); the harness dropped the db
			base.sessions = now.sessions
		}
		if now != base {
			x.report("C18:leak-after-close", fmt.Sprintf("after every connection of the case closed, its queued requests ended, its holds were released and 18 s passed: census %+v, baseline %+v (key records, LockedCount, WaitCount, protocol sessions, client registrations)", now, base))
		}
	}
	for _, f := range x.pend {
		f(line)
	}
	if pendFile != "" {
		_ = os.Remove(pendFile)
	}
	out.stat("case")
	if x.dead != "" {
		out.stat("case-ended-" + x.dead)
	}
	return x.dead == "" && bad == ""
}

// vConnScripts: the corpus — minimal lifetimes run before the generated ones (case index = position)
var vConnScripts = []func(x *vConnRun){
	// 0: wills of a text connection
	func(x *vConnRun) {
		x.open('b', false)
		t := x.open('t', false)
		w := &vConnWill{typ: "L0", imm: true, key: x.newKey(), tok: x.nextTok}
		x.nextTok++
		x.will(t, w)
		x.close(t, 'c')
	},
	// 1: a connection that never announced an id leaves a queued request behind; somebody announces the all-zero id
	func(x *vConnRun) {
		o := x.open('b', false)
		a := x.open('b', false)
		h := x.request(o, 'L', x.newKey(), 0, 0, 60)
		x.toks[h].long = true
		x.request(a, 'L', x.toks[h].key, 0, 3, 60)
		x.close(a, 'c')
		z := x.open('b', false)
		x.init(z, 0)
		for i := 0; i < 5 && x.dead == ""; i++ {
			x.tick()
		}
	},
	// 2 (child process): INIT + will + close
	func(x *vConnRun) {
		a := x.open('b', false)
		x.init(a, 77)
		w := &vConnWill{typ: "L0", imm: true, key: x.newKey(), tok: x.nextTok}
		x.nextTok++
		x.will(a, w)
		x.close(a, 'c')
	},
	// 3: same-id reconnect before the close: three wills (one waits in the engine), replies go to the reconnected connection
	func(x *vConnRun) {
		o := x.open('b', false)
		a := x.open('b', false)
		x.init(a, 7)
		pin := x.request(o, 'L', x.newKey(), 0, 0, 60)
		x.toks[pin].long, x.toks[pin].pin = true, true
		own := x.request(a, 'L', x.newKey(), 0, 0, 60)
		x.toks[own].long, x.toks[own].wtgt = true, true
		queued := x.request(a, 'L', x.toks[pin].key, 0, 4, 60)
		_ = queued
		ws := []*vConnWill{{typ: "L0", imm: true, key: x.newKey()}, {typ: "Lw", imm: false, key: x.toks[pin].key}, {typ: "Uo", imm: true, key: x.toks[own].key, target: own}}
		for _, w := range ws {
			w.tok = x.nextTok
			x.nextTok++
			x.will(a, w)
		}
		b := x.open('b', false)
		x.init(b, 7)
		x.close(a, 'e')
		x.close(a, 's')
		for i := 0; i < 6 && x.dead == ""; i++ {
			x.tick()
		}
	},
	// 4: order: the observer waits on three keys the subject holds; the subject's wills release them as 2, 3, 1
	func(x *vConnRun) {
		o := x.open('b', false)
		a := x.open([]byte{'b'}[0], false)
		var hs []int
		for i := 0; i < 3; i++ {
			h := x.request(a, 'L', x.newKey(), 0, 0, 60)
			x.toks[h].long, x.toks[h].wtgt = true, true
			hs = append(hs, h)
			x.request(o, 'L', x.toks[h].key, 0, 9, 60)
		}
		l0 := &vConnWill{typ: "L0", imm: true, key: x.newKey(), tok: x.nextTok}
		x.nextTok++
		x.will(a, l0)
		for _, i := range []int{1, 2, 0} {
			w := &vConnWill{typ: "Uo", imm: true, key: x.toks[hs[i]].key, target: hs[i], tok: x.nextTok}
			x.nextTok++
			x.will(a, w)
		}
		uw := &vConnWill{typ: "Uw", imm: true, key: l0.key, target: l0.tok, pair: l0, tok: x.nextTok}
		l0.pair = uw
		x.nextTok++
		x.will(a, uw)
		x.close(a, 's')
	},
}

func vConnSelfWills(x *vConnRun, c *vConnC) {
	ws := []*vConnWill{
		{typ: "Ux", imm: true, self: true, key: x.newKey(), db: 0xff, target: 999999},
		{typ: "L0", imm: true, key: x.newKey()},
		{typ: "Un", imm: true, self: true, key: x.newKey(), db: vConnDbMissing, target: 999999},
		{typ: "L0", imm: true, key: x.newKey()},
		{typ: "Lx", imm: true, self: true, key: x.newKey(), db: 0xff},
	}
	for _, w := range ws {
		w.tok = x.nextTok
		x.nextTok++
		x.will(c, w)
	}
}

func init() {
	vConnScripts = append(vConnScripts,
		// 5: wills the protocol answers itself (unknown db) in first, middle and last position: the write of their reply
		// fails on the closed connection, the wills after them must still run
		func(x *vConnRun) {
			x.open('b', false)
			a := x.open('b', false)
			vConnSelfWills(x, a)
			x.close(a, 'c')
		},
		// 6: the same with a same-id reconnect: their UNKNOWN_DB replies are delivered to the new connection
		func(x *vConnRun) {
			a := x.open('b', false)
			x.init(a, 7)
			vConnSelfWills(x, a)
			b := x.open('b', false)
			x.init(b, 7)
			x.close(a, 's')
		},
		// 7: text: an unlock will for a db that was never created, between two lock wills
		func(x *vConnRun) {
			x.open('b', false)
			t := x.open('t', false)
			ws := []*vConnWill{{typ: "L0", imm: true, key: x.newKey()}, {typ: "Un", imm: true, self: true, key: x.newKey(), db: vConnDbMissing, target: 999999}, {typ: "L0", imm: true, key: x.newKey()}}
			for _, w := range ws {
				w.tok = x.nextTok
				x.nextTok++
				x.will(t, w)
			}
			x.close(t, 'e')
		},
		// 8: ADMIN: a will on the binary connection, then wills and a hold on the nested text protocol of the same stream
		func(x *vConnRun) {
			x.open('b', false)
			a := x.open('b', false)
			w1 := &vConnWill{typ: "L0", imm: true, key: x.newKey(), tok: x.nextTok}
			x.nextTok++
			x.will(a, w1)
			n := x.admin(a)
			for i := 0; i < 2; i++ {
				w := &vConnWill{typ: "L0", imm: true, key: x.newKey(), tok: x.nextTok}
				x.nextTok++
				x.will(n, w)
			}
			h := x.request(n, 'L', x.newKey(), 0, 0, 60)
			x.toks[h].long = true
			x.close(n, 'c')
		},
		// 9: reconnect BEFORE the old connection is torn down (half-open socket): the new connection announces the id, then the
		// server ends the old one; the old connection's will reply and the timeout of its queued request go to the new one
		func(x *vConnRun) {
			o := x.open('b', false)
			a := x.open('b', false)
			x.init(a, 7)
			h := x.request(o, 'L', x.newKey(), 0, 0, 60)
			x.toks[h].long, x.toks[h].pin = true, true
			x.request(a, 'L', x.toks[h].key, 0, 3, 60)
			w := &vConnWill{typ: "L0", imm: true, key: x.newKey(), tok: x.nextTok}
			x.nextTok++
			x.will(a, w)
			b := x.open('b', false)
			x.init(b, 7)
			x.close(a, 's')
			for i := 0; i < 5 && x.dead == ""; i++ {
				x.tick()
			}
		},
		// 10: the old connection closes first, then the client reconnects under the same id; the timeout of the request it
		// left queued goes to the new connection
		func(x *vConnRun) {
			o := x.open('b', false)
			a := x.open('b', false)
			x.init(a, 7)
			h := x.request(o, 'L', x.newKey(), 0, 0, 60)
			x.toks[h].long, x.toks[h].pin = true, true
			x.request(a, 'L', x.toks[h].key, 0, 4, 60)
			x.close(a, 'c')
			b := x.open('b', false)
			x.init(b, 7)
			for i := 0; i < 6 && x.dead == ""; i++ {
				x.tick()
			}
		},
		// 11: two reconnects under one id while requests of the first connection are still queued: the second connection gets
		// one reply (and adopts the first connection's proxy), closes, the third connection must get the next ones
		func(x *vConnRun) { x.chain(2, 1, 0) },
		// 12: the same, half-open order (the new connection announces the id before the old one is ended)
		func(x *vConnRun) { x.chain(3, 1, 1) },
		// 13: FIVE dead connections of one client id, each leaving two queued requests; the sixth connection receives the first
		// reply of each (and adopts five reply proxies: more than the four the periodic session check lets a connection keep);
		// the session check (SLock.checkServerProtocolSession, the 120 s sweep — semantically neutral: trimmed proxies fall back to
		// the routing by client id) runs; the sixth connection closes, a seventh announces the id and must receive the second replies
		func(x *vConnRun) { x.manyProxies() },
		// 14 / 15: a queued request (14) resp. a hold (15) taken with the KEEP-ALIVE flag lives as long as its connection does; once
		// the connection has ended the request must still end with its timeout, the hold with its expiry (binary connection)
		func(x *vConnRun) { x.keepAliveAfterClose(false) },
		func(x *vConnRun) { x.keepAliveAfterClose(true) })
}

// keepAliveAfterClose: see corpus cases 14 / 15. The keep-alive request is sent raw (it is not an event of the model: while its
// connection lives it answers nothing, after the close its reply is dropped), the engine is read directly.
func (x *vConnRun) keepAliveAfterClose(hold bool) {
	o := x.open('b', false)
	c := x.open('b', false)
	key := x.newKey()
	lockId := 7700000 + key
	cmd := &protocol.LockCommand{Command: protocol.Command{Magic: protocol.MAGIC, Version: protocol.VERSION, CommandType: protocol.COMMAND_LOCK, RequestId: vId16(lockId)},
		LockId: vId16(lockId), LockKey: vId16(key), Timeout: 2, Expried: 2}
	if hold {
		cmd.ExpriedFlag = protocol.EXPRIED_FLAG_KEEPLIVED
	} else {
		h := x.request(o, 'L', key, 0, 0, 90)
		x.toks[h].long, x.toks[h].pin = true, true
		cmd.TimeoutFlag = protocol.TIMEOUT_FLAG_KEEPLIVED
	}
	b := make([]byte, 64)
	_ = cmd.Encode(b)
	_ = c.write(b)
	there := func() bool {
		sc := x.scan()
		if hold {
			return sc.holds[lockId] > 0
		}
		return sc.waits[lockId] > 0
	}
	if !vConnWait(there, 3*time.Second) {
		x.out.stat("keepalive-case-not-established")
		return
	}
	if hold {
		// the grant reply of the raw request: consumed here, it answers no token of the script
		c.waitFrame(func(f *vConnFrame) bool { return f.kind == 'L' && f.tok == lockId }, 2*time.Second)
	}
	for i := 0; i < 5 && x.dead == ""; i++ {
		x.tick()
	}
	if there() {
		x.out.stat("keepalive-kept-while-connection-lives")
	} else {
		x.out.stat("keepalive-ended-while-connection-lives")
	}
	x.close(c, 'c')
	for i := 0; i < 8 && x.dead == ""; i++ {
		x.tick()
	}
	if x.dead == "" && there() {
		if hold {
			x.report("C18:hold-never-expires-after-close:keepalive", fmt.Sprintf("a hold taken with the keep-alive expiry flag (LockId %d, key %d, expiry 2 s) by a connection that has ended is still held 8 s after the close: it is re-armed forever", lockId, key))
		} else {
			x.report("C18:queued-request-never-ends:keepalive", fmt.Sprintf("a request queued with the keep-alive timeout flag (LockId %d, key %d, timeout 2 s) by a connection that has ended is still queued 8 s after the close: it is re-armed forever", lockId, key))
		}
	}
	x.out.stat("keepalive-after-close")
}

// manyProxies: see corpus case 13. The session check is not an event of the model: on the unchanged code it changes nothing a client
// can see.
func (x *vConnRun) manyProxies() {
	x.chained = true
	x.nextCid++
	cid := 100 + x.nextCid
	o := x.open('b', false)
	for i := 0; i < 5 && x.dead == ""; i++ {
		c := x.open('b', false)
		x.init(c, cid)
		h := x.request(o, 'L', x.newKey(), 0, 0, 90)
		x.toks[h].long, x.toks[h].pin = true, true
		x.request(c, 'L', x.toks[h].key, 0, 4, 60)  // first reply (TIMEOUT) at +4 s: the sixth connection is current by then
		x.request(c, 'L', x.toks[h].key, 0, 12, 60) // second reply at +12 s: the seventh connection is current by then
		x.close(c, 'c')
	}
	six := x.open('b', false)
	x.init(six, cid)
	for i := 0; i < 6 && x.dead == ""; i++ {
		x.tick()
	}
	_ = x.v.slock.checkServerProtocolSession()
	x.out.stat("session-check-with-more-than-4-proxies")
	x.close(six, 'c')
	seven := x.open('b', false)
	x.init(seven, cid)
	for i := 0; i < 9 && x.dead == ""; i++ {
		x.tick()
	}
	x.out.stat("chain-many-proxies")
}

func vConnChild(seed int64, idx int, parent *vOut) {
	dir, err := os.MkdirTemp(os.Getenv("VERIF_OUT"), "child")
	if err != nil {
		panic(err)
	}
	defer os.RemoveAll(dir)
	exe, eerr := os.Executable()
	if eerr != nil {
		exe = os.Args[0]
	}
	cmd := exec.Command(exe, "-test.run", "^TestVerifHarness$", "-test.timeout", "120s", "-test.count=1")
	cmd.Dir = dir
	cmd.Env = append(os.Environ(), "VERIF_MODE=conn", "VERIF_CONN_CHILD="+fmt.Sprint(idx), "VERIF_OUT="+dir, "VERIF_DATA="+dir, "VERIF_SEED="+fmt.Sprint(seed))
	outb, err := cmd.CombinedOutput()
	read := func(name string) []string {
		b, _ := os.ReadFile(dir + "/" + name)
		var ls []string
		for _, l := range strings.Split(string(b), "\n") {
			if l != "" {
				ls = append(ls, l)
			}
		}
		return ls
	}
	if err == nil {
		ops, impl := read("conn.ops"), read("conn.impl")
		for i := range ops {
			if i < len(impl) {
				parent.emit(ops[i], impl[i])
			}
		}
		for _, l := range read("conn.mon") {
			parent.mon.Write([]byte(l + "\n"))
		}
		if b, e := os.ReadFile(dir + "/conn.stats"); e == nil {
			var st map[string]int
			if json.Unmarshal(b, &st) == nil {
				for k, n := range st {
					for i := 0; i < n; i++ {
						parent.stat(k)
					}
				}
			}
		}
		parent.stat("child-case-completed")
		return
	}
	// the child died: the pending record says where
	var pend map[string]string
	b, _ := os.ReadFile(dir + "/pending.json")
	_ = json.Unmarshal(b, &pend)
	tail := string(outb)
	if len(tail) > 1200 {
		tail = tail[:1200]
	}
	if pend == nil {
		parent.monitor("C18:harness-child-died", fmt.Sprintf("the child process of a risky case died outside a Close() (%v): %s", err, tail), map[string]interface{}{"case": idx})
		return
	}
	parent.emit(pend["ops"], pend["obs"]+";crash")
	parent.stat("child-case-crashed")
	for _, l := range read("conn.mon") {
		parent.mon.Write([]byte(l + "\n"))
	}
	sig, what := "C18:close-crash", "the server process died in Close() of a connection: "
	if strings.Contains(string(outb), "stack overflow") {
		sig, what = "C18:close-stack-overflow", "fatal error: stack overflow — Close() of a binary connection that sent INIT and registered a will drains the wills while closed=true, inited=true and clients[id] still maps to itself; the will's immediate reply recurses between ProcessLockResultCommand and ProcessLockResultCommandLocked without bound: "
	}
	first := tail
	if i := strings.Index(first, "\n\n"); i > 0 {
		first = first[:i]
	}
	parent.monitor(sig, what+first, map[string]interface{}{"ops": pend["ops"], "case": idx})
}

func init() {
	vModes["conn"] = func(t *testing.T) {
		seed := int64(vEnvInt("VERIF_SEED", 1))
		n := vEnvInt("VERIF_N", 100)
		every := vEnvInt("VERIF_CONN_RISKY_EVERY", 20)
		out := vOpen("conn")
		defer out.close()
		if ch := os.Getenv("VERIF_CONN_CHILD"); ch != "" {
			idx, _ := strconv.Atoi(ch)
			debug.SetMaxStack(32 << 20)
			v := vNewSeq(1, 0xff)
			vConnCase(v, out, seed, idx, true, os.Getenv("VERIF_OUT")+"/pending.json")
			return
		}
		v := vNewSeq(1, 0xff)
		for i := 0; i < n; i++ {
			if i == 2 || (every > 0 && i%every == every-1) {
				vConnChild(seed, i, out)
				continue
			}
			if !vConnCase(v, out, seed, i, false, "") {
				v = vNewSeq(1, 0xff)
			}
		}
	}
}
