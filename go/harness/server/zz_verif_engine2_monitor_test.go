package server

// Property monitors of the stage-2 engine harness, evaluated on what the REAL code did (replies at the moment they are
// emitted + in-package snapshots before / after each operation). Signatures "<Cxx>:<clause>".
//
//   C15:reply-not-previous-value     a reply's data differs from the key's value observed immediately before the operation
//                                    that produced it (first reply of an op: the value before the op; a later reply on the
//                                    same key — a request granted from the queue by the same op — the value right after the
//                                    previous reply's value operation)
//   C15:refused-changed-value        a request answered with a refusal (anything but SUCCED, LOCKED_ERROR to an update, or
//                                    LOCKED_ERROR to a cancel) changed the value
//   C17:keycount                     KeyCount ≠ number of the sequence's keys whose record is reachable through GetLockManager
//   C17:value-on-new-key             a key without a record gets a value from an operation that carries no frame (recycled key record)
//   C17:keycount-after-drain / C17:value-after-drain / C17:refcount-after-drain
//                                    after the adaptive drain + 18 s a key record / a value / a lock record is still reachable
//   C10:follower-ended-replicated-hold  a non-leader ended a journalled (isAof) hold less than 300 s past its deadline
//   C10:non-leader-changed-state     a client request answered STATE_ERROR changed holders / waiters / value

import (
	"fmt"
)

type vE2Monitor struct {
	out      *vOut
	x        *vE2Run
	line     string
	seen     map[string]bool
	pend     []func(line string)
	cur      vE2Op
	pre      map[int]vE2KeySnap
	chain    map[int]string  // per key: the value the next reply on that key must carry
	deadline map[int]int64   // request id of a journalled hold -> its deadline when the node stopped being leader / received it
	opRep    []vReply
	wasLead  bool
}

func vE2NewMonitor(out *vOut, x *vE2Run) *vE2Monitor {
	return &vE2Monitor{out: out, x: x, seen: map[string]bool{}, deadline: map[int]int64{}}
}

func (m *vE2Monitor) report(sig, what string) {
	if m.seen[sig] {
		return
	}
	m.seen[sig] = true
	idx := len(m.x.ops) - 1
	m.pend = append(m.pend, func(line string) {
		m.out.monitor(sig, what, map[string]interface{}{"ops": line, "at_op_index": idx})
	})
}

func (m *vE2Monitor) flush() {
	for _, f := range m.pend {
		f(m.line)
	}
	m.pend = nil
}

func (m *vE2Monitor) before(o vE2Op) {
	x := m.x
	m.cur = o
	m.opRep = m.opRep[:0]
	m.pre = map[int]vE2KeySnap{}
	m.chain = map[int]string{}
	m.wasLead = x.leader
	for _, key := range x.keys {
		ks := x.keySnap(key)
		m.pre[key] = ks
		m.chain[key] = e2HexOrDash(ks.data)
		if !x.leader {
			for _, h := range ks.holds {
				if _, ok := m.deadline[h.req]; h.isAof && !ok {
					m.deadline[h.req] = h.expT
				}
			}
		}
	}
	if x.leader {
		m.deadline = map[int]int64{}
	}
}

func (m *vE2Monitor) onReply(r vReply) {
	x := m.x
	m.opRep = append(m.opRep, r)
	// ---- C15: the reply carries the value from immediately before the operation
	if want, ok := m.chain[r.key]; ok {
		now := x.keySnap(r.key)
		got := e2HexOrDash(r.data)
		switch {
		case got == want:
		case !now.exists:
			// the operation ended the key's life (last lock record freed, key record reclaimed, value gone with it) before the
			// notice was assembled: the statement speaks of keys that are held
			x.out.stat(fmt.Sprintf("reply-after-key-reclaimed(result=%d)", r.result))
		case m.pre[r.key].locked == 0 && now.locked == 0:
			x.out.stat(fmt.Sprintf("reply-on-unheld-key-without-value(result=%d)", r.result)) // "while a key is held"
		default:
			m.report(fmt.Sprintf("C15:reply-not-previous-value(result=%d)", r.result),
				fmt.Sprintf("reply %d:%d result %d on key %d carries data %s, the key's value immediately before was %s (op %s)", r.conn, r.req, r.result, r.key, got, want, m.cur.String()))
		}
		m.chain[r.key] = e2HexOrDash(now.data)
	}
	// ---- C10: a non-leader must not end a replicated hold on its own clock
	if r.result == protocol_RESULT_EXPRIED && !x.leader {
		if d, ok := m.deadline[r.req]; ok && x.v.db.currentTime-d < 300 {
			m.report("C10:follower-ended-replicated-hold", fmt.Sprintf("non-leader ended the journalled hold of request %d at %d, %d s past its deadline %d", r.req, x.v.db.currentTime, x.v.db.currentTime-d, d))
		}
	}
}

func e2StateStr(ks vE2KeySnap) string {
	return fmt.Sprintf("%d/%v/%v/%v/%s", ks.locked, ks.waited, ks.holds, ks.waits, e2HexOrDash(ks.data))
}

func (m *vE2Monitor) after(o vE2Op, ob string) {
	x := m.x
	// ---- C17: KeyCount = number of reachable key records
	n := 0
	for _, key := range x.keys {
		if x.keySnap(key).exists {
			n++
		}
	}
	if kc := x.keyCount(); kc != n {
		m.report("C17:keycount", fmt.Sprintf("KeyCount moved by %d during this run but %d of its keys have a reachable record (after %s)", kc, n, o.String()))
	}
	if o.kind != 'L' && o.kind != 'U' {
		return
	}
	var own *vReply
	for i := range m.opRep {
		if m.opRep[i].req == o.req {
			own = &m.opRep[i]
			break
		}
	}
	if own == nil {
		return
	}
	pre, post := m.pre[o.key], x.keySnap(o.key)
	res := own.result
	// ---- C17 / C15: a key whose record did not exist before this operation starts life without a value: whatever its first
	// reply carries or its cell holds must come from this operation's own frame (a recycled key record must not bring a value along)
	if !pre.exists && len(o.frame) == 0 && (len(own.data) != 0 || (post.exists && len(post.data) != 0)) {
		m.report("C17:value-on-new-key", fmt.Sprintf("key %d had no record before %s, which carries no value frame, yet its reply carries %s and its cell holds %s", o.key, o.String(), e2HexOrDash(own.data), e2HexOrDash(post.data)))
	}
	accepted := res == 0 || (res == protocol_RESULT_LOCKED_ERROR && o.kind == 'L' && o.flag&2 != 0) || (res == protocol_RESULT_LOCKED_ERROR && o.kind == 'U' && o.flag&2 != 0)
	// ---- C15: a refused request leaves the value unchanged
	if !accepted && e2HexOrDash(pre.data) != e2HexOrDash(post.data) {
		m.report(fmt.Sprintf("C15:refused-changed-value(result=%d)", res), fmt.Sprintf("request %s was refused with result %d but the value of key %d changed: %s -> %s", o.String(), res, o.key, e2HexOrDash(pre.data), e2HexOrDash(post.data)))
	}
	// ---- C10: a non-leader refusal changes nothing
	if res == protocol_RESULT_STATE_ERROR && o.flag&4 == 0 {
		if a, b := e2StateStr(pre), e2StateStr(post); a != b {
			m.report("C10:non-leader-changed-state", fmt.Sprintf("client request %s answered STATE_ERROR changed key %d: %s -> %s", o.String(), o.key, a, b))
		}
		if m.wasLead {
			m.report("C10:state-error-on-leader", fmt.Sprintf("client request %s answered STATE_ERROR while the node is leader", o.String()))
		}
	}
	if !m.wasLead && o.flag&4 == 0 && res != protocol_RESULT_STATE_ERROR && !(res == protocol_RESULT_TIMEOUT && o.kind == 'L' && o.flag&8 != 0) && !(res == protocol_RESULT_UNLOCK_ERROR && o.kind == 'U' && !pre.exists) {
		m.report(fmt.Sprintf("C10:non-leader-decided(result=%d)", res), fmt.Sprintf("client request %s on a non-leader was answered %d instead of STATE_ERROR", o.String(), res))
	}
}

// drained: every hold released, every queued request answered, 18 s passed.
func (m *vE2Monitor) drained() {
	x := m.x
	for _, key := range x.keys {
		ks := x.keySnap(key)
		if !ks.exists {
			continue
		}
		m.report("C17:keycount-after-drain", fmt.Sprintf("key %d still has a reachable record after the drain + 18 s (refCount %d, %d queue entries)", key, ks.refCount, ks.recsQueued))
		if ks.cell != "-" {
			m.report("C17:value-after-drain", fmt.Sprintf("key %d still has the value %s after the drain + 18 s", key, ks.cell))
		}
		if ks.refCount != 0 || ks.recsQueued != 0 {
			m.report("C17:refcount-after-drain", fmt.Sprintf("key %d: %d lock records still counted, %d still referenced from its queues after the drain + 18 s", key, ks.refCount, ks.recsQueued))
		}
	}
	if kc := x.keyCount(); kc != 0 {
		m.report("C17:keycount-after-drain", fmt.Sprintf("KeyCount is %d above its value at the start of the sequence after the drain + 18 s", kc))
	}
}
