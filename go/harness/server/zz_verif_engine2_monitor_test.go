package server

// Property monitors of the stage-2 engine harness, evaluated on what the REAL code did (replies at the moment they are
// emitted + in-package snapshots before / after each operation). Signatures "<Cxx>:<clause>".
//
//   C15:reply-not-previous-value     a reply's data differs from the key's value observed immediately before the operation
//                                    that produced it (first reply of an op: the value before the op; a later reply on the
//                                    same key — a request granted from the queue by the same op — the value right after the
//                                    previous reply's value operation)
//   C15:refused-changed-value        a request answered with a refusal (anything but SUCCED, LOCKED_ERROR to an update, or
//                                    LOCKED_ERROR to a cancel) changed the value
//   C15:accepted-value-op-not-applied  an accepted UNLOCK / immediately granted LOCK with a simple value operation leaves a value
//                                    other than the one a sequential register computes from the value before it
//   C17:keycount                     KeyCount ≠ number of the sequence's keys whose record is reachable through GetLockManager
//   C17:value-on-new-key             a key without a record gets a value from an operation that carries no frame (recycled key record)
//   C17:keycount-after-drain / C17:value-after-drain / C17:refcount-after-drain
//                                    after the adaptive drain + 18 s a key record / a value / a lock record is still reachable
//   C10:follower-ended-replicated-hold  a non-leader ended a journalled (isAof) hold less than 300 s past its deadline
//   C10:non-leader-changed-state     a client request answered STATE_ERROR changed holders / waiters / value

import (
	"encoding/hex"
	"fmt"

	"github.com/snower/slock/protocol"
)

type vE2Monitor struct {
	out      *vOut
	x        *vE2Run
	line     string
	seen     map[string]bool
	pend     []func(line string)
	cur      vE2Op
	pre      map[int]vE2KeySnap
	chain    map[int]string  // per key: the value the next reply on that key must carry
	deadline map[int]int64   // request id of a journalled hold -> its deadline when the node stopped being leader / received it
	opRep    []vReply
	wasLead  bool
}

func vE2NewMonitor(out *vOut, x *vE2Run) *vE2Monitor {
	return &vE2Monitor{out: out, x: x, seen: map[string]bool{}, deadline: map[int]int64{}}
}

func (m *vE2Monitor) report(sig, what string) {
	if m.seen[sig] {
		return
	}
	m.seen[sig] = true
	idx := len(m.x.ops) - 1
	m.pend = append(m.pend, func(line string) {
		m.out.monitor(sig, what, map[string]interface{}{"ops": line, "at_op_index": idx})
	})
}

func (m *vE2Monitor) flush() {
	for _, f := range m.pend {
		f(m.line)
	}
	m.pend = nil
}

func (m *vE2Monitor) before(o vE2Op) {
	x := m.x
	m.cur = o
	m.opRep = m.opRep[:0]
	m.pre = map[int]vE2KeySnap{}
	m.chain = map[int]string{}
	m.wasLead = x.leader
	for _, key := range x.keys {
		ks := x.keySnap(key)
		m.pre[key] = ks
		m.chain[key] = e2HexOrDash(ks.data)
		if !x.leader {
			for _, h := range ks.holds {
				if _, ok := m.deadline[h.req]; h.isAof && !ok {
					m.deadline[h.req] = h.expT
				}
			}
		}
	}
	if x.leader {
		m.deadline = map[int]int64{}
	}
}

func (m *vE2Monitor) onReply(r vReply) {
	x := m.x
	m.opRep = append(m.opRep, r)
	// ---- C15: the reply carries the value from immediately before the operation
	if want, ok := m.chain[r.key]; ok {
		now := x.keySnap(r.key)
		got := e2HexOrDash(r.data)
		switch {
		case got == want:
		case !now.exists:
			// the operation ended the key's life (last lock record freed, key record reclaimed, value gone with it) before the
			// notice was assembled: the statement speaks of keys that are held
			x.out.stat(fmt.Sprintf("reply-after-key-reclaimed(result=%d)", r.result))
		case m.pre[r.key].locked == 0 && now.locked == 0:
			x.out.stat(fmt.Sprintf("reply-on-unheld-key-without-value(result=%d)", r.result)) // "while a key is held"
		default:
			m.report(fmt.Sprintf("C15:reply-not-previous-value(result=%d)", r.result),
				fmt.Sprintf("reply %d:%d result %d on key %d carries data %s, the key's value immediately before was %s (op %s)", r.conn, r.req, r.result, r.key, got, want, m.cur.String()))
		}
		m.chain[r.key] = e2HexOrDash(now.data)
	}
	// ---- C10: a non-leader must not end a replicated hold on its own clock
	if r.result == protocol_RESULT_EXPRIED && !x.leader {
		if d, ok := m.deadline[r.req]; ok && x.v.db.currentTime-d < 300 {
			m.report("C10:follower-ended-replicated-hold", fmt.Sprintf("non-leader ended the journalled hold of request %d at %d, %d s past its deadline %d", r.req, x.v.db.currentTime, x.v.db.currentTime-d, d))
		}
	}
}

func e2StateStr(ks vE2KeySnap) string {
	return fmt.Sprintf("%d/%v/%v/%v/%s", ks.locked, ks.waited, ks.holds, ks.waits, e2HexOrDash(ks.data))
}

func (m *vE2Monitor) after(o vE2Op, ob string) {
	x := m.x
	// ---- C17: KeyCount = number of reachable key records
	n := 0
	for _, key := range x.keys {
		if x.keySnap(key).exists {
			n++
		}
	}
	if kc := x.keyCount(); kc != n {
		m.report("C17:keycount", fmt.Sprintf("KeyCount moved by %d during this run but %d of its keys have a reachable record (after %s)", kc, n, o.String()))
	}
	if o.kind != 'L' && o.kind != 'U' {
		return
	}
	var own *vReply
	for i := range m.opRep {
		if m.opRep[i].req == o.req {
			own = &m.opRep[i]
			break
		}
	}
	if own == nil {
		return
	}
	pre, post := m.pre[o.key], x.keySnap(o.key)
	res := own.result
	// ---- C17 / C15: a key whose record did not exist before this operation starts life without a value: whatever its first
	// reply carries or its cell holds must come from this operation's own frame (a recycled key record must not bring a value along)
	if !pre.exists && len(o.frame) == 0 && (len(own.data) != 0 || (post.exists && len(post.data) != 0)) {
		m.report("C17:value-on-new-key", fmt.Sprintf("key %d had no record before %s, which carries no value frame, yet its reply carries %s and its cell holds %s", o.key, o.String(), e2HexOrDash(own.data), e2HexOrDash(post.data)))
	}
	accepted := res == 0 || (res == protocol_RESULT_LOCKED_ERROR && o.kind == 'L' && o.flag&2 != 0) || (res == protocol_RESULT_LOCKED_ERROR && o.kind == 'U' && o.flag&2 != 0)
	// ---- C15: a refused request leaves the value unchanged
	if !accepted && e2HexOrDash(pre.data) != e2HexOrDash(post.data) {
		m.report(fmt.Sprintf("C15:refused-changed-value(result=%d)", res), fmt.Sprintf("request %s was refused with result %d but the value of key %d changed: %s -> %s", o.String(), res, o.key, e2HexOrDash(pre.data), e2HexOrDash(post.data)))
	}
	// ---- C15: an accepted UNLOCK / immediately granted LOCK applies its value operation exactly as a sequential interpreter
	// does (simple top-level operations only; no other reply on this key in the same operation, so nothing else touched the value)
	// (a LOCK with expiry 0 holds nothing for any time: granted and over at once, or a no-op on an existing hold — not judged)
	if res == 0 && o.flag&4 == 0 && (o.kind == 'U' || o.expried > 0) && len(o.frame) != 0 && post.exists && post.locked > 0 && len(m.opRep) == 1 {
		fr, _ := hex.DecodeString(o.frameHx)
		if vop := e2SimpleValueOp(fr); vop != nil {
			pv, ok := vvDecode(pre.data)
			switch vop.kind { // an operation of one value type on a value of the other is outside what the statement defines
			case "INCR", "APPEND", "SHIFT":
				ok = ok && pv.kind != 2
			case "PUSH", "POP":
				ok = ok && pv.kind != 1
			}
			if ok {
				want := vvApply(pv, vop)
				if got, ok2 := vvDecode(post.data); !ok2 || !got.equal(want) {
					m.report(fmt.Sprintf("C15:accepted-value-op-not-applied(%c,%s)", o.kind, vop.kind), fmt.Sprintf("request %s was accepted (result 0) with the value operation %s on key %d whose value was %s: a sequential register now holds %s, the key holds %s", o.String(), vop.kind, o.key, pv.String(), want.String(), e2HexOrDash(post.data)))
				}
			}
		}
	}
	// ---- C10: a non-leader refusal changes nothing
	if res == protocol_RESULT_STATE_ERROR && o.flag&4 == 0 {
		if a, b := e2StateStr(pre), e2StateStr(post); a != b {
			m.report("C10:non-leader-changed-state", fmt.Sprintf("client request %s answered STATE_ERROR changed key %d: %s -> %s", o.String(), o.key, a, b))
		}
		if m.wasLead {
			m.report("C10:state-error-on-leader", fmt.Sprintf("client request %s answered STATE_ERROR while the node is leader", o.String()))
		}
	}
	if !m.wasLead && o.flag&4 == 0 && res != protocol_RESULT_STATE_ERROR && !(res == protocol_RESULT_TIMEOUT && o.kind == 'L' && o.flag&8 != 0) && !(res == protocol_RESULT_UNLOCK_ERROR && o.kind == 'U' && !pre.exists) {
		m.report(fmt.Sprintf("C10:non-leader-decided(result=%d)", res), fmt.Sprintf("client request %s on a non-leader was answered %d instead of STATE_ERROR", o.String(), res))
	}
}

// drained: every hold released, every queued request answered, 18 s passed.
func (m *vE2Monitor) drained() {
	x := m.x
	for _, key := range x.keys {
		ks := x.keySnap(key)
		if !ks.exists {
			continue
		}
		m.report("C17:keycount-after-drain", fmt.Sprintf("key %d still has a reachable record after the drain + 18 s (refCount %d, %d queue entries)", key, ks.refCount, ks.recsQueued))
		if ks.cell != "-" {
			m.report("C17:value-after-drain", fmt.Sprintf("key %d still has the value %s after the drain + 18 s", key, ks.cell))
		}
		if ks.refCount != 0 || ks.recsQueued != 0 {
			m.report("C17:refcount-after-drain", fmt.Sprintf("key %d: %d lock records still counted, %d still referenced from its queues after the drain + 18 s", key, ks.refCount, ks.recsQueued))
		}
	}
	if kc := x.keyCount(); kc != 0 {
		m.report("C17:keycount-after-drain", fmt.Sprintf("KeyCount is %d above its value at the start of the sequence after the drain + 18 s", kc))
	}
}

// e2SimpleValueOp reads a well-formed top-level value frame of the current stage without the first-or-last gate (SET / UNSET / INCR with
// an 8-byte operand / APPEND / SHIFT / PUSH / POP; properties skipped) as an operation of the sequential register; nil for anything else.
func e2SimpleValueOp(f []byte) *vvOp {
	if len(f) < 6 || int(uint32(f[0])|uint32(f[1])<<8|uint32(f[2])<<16|uint32(f[3])<<24) != len(f)-4 {
		return nil
	}
	if f[4]>>6 != protocol.LOCK_DATA_STAGE_CURRENT || f[5]&^(protocol.LOCK_DATA_FLAG_VALUE_TYPE_NUMBER|protocol.LOCK_DATA_FLAG_VALUE_TYPE_ARRAY|protocol.LOCK_DATA_FLAG_CONTAINS_PROPERTY) != 0 {
		return nil
	}
	off, ok := vvCellOffset(f)
	if !ok {
		return nil
	}
	p := f[off:]
	arr := f[5]&protocol.LOCK_DATA_FLAG_VALUE_TYPE_ARRAY != 0
	if arr && f[4]&0x3f != protocol.LOCK_DATA_COMMAND_TYPE_SET {
		return nil
	}
	switch f[4] & 0x3f {
	case protocol.LOCK_DATA_COMMAND_TYPE_SET:
		if arr {
			v, ok := vvDecode(f)
			if !ok {
				return nil
			}
			return &vvOp{kind: "SET", isArr: true, arr: v.xs}
		}
		return &vvOp{kind: "SET", b: vvClone(p)}
	case protocol.LOCK_DATA_COMMAND_TYPE_UNSET:
		return &vvOp{kind: "UNSET"}
	case protocol.LOCK_DATA_COMMAND_TYPE_INCR:
		if len(p) != 8 {
			return nil
		}
		return &vvOp{kind: "INCR", b: vvClone(p)}
	case protocol.LOCK_DATA_COMMAND_TYPE_APPEND:
		return &vvOp{kind: "APPEND", b: vvClone(p)}
	case protocol.LOCK_DATA_COMMAND_TYPE_PUSH:
		return &vvOp{kind: "PUSH", b: vvClone(p)}
	case protocol.LOCK_DATA_COMMAND_TYPE_SHIFT, protocol.LOCK_DATA_COMMAND_TYPE_POP:
		if len(p) != 4 {
			return nil
		}
		k := "SHIFT"
		if f[4]&0x3f == protocol.LOCK_DATA_COMMAND_TYPE_POP {
			k = "POP"
		}
		return &vvOp{kind: k, n: uint32(p[0]) | uint32(p[1])<<8 | uint32(p[2])<<16 | uint32(p[3])<<24}
	}
	return nil
}
