package server

// Harness mode "texthandlers" (C13, text side): a REAL TextServerProtocol on net.Pipe on a real leader SLock + LockDB
// (vNewSeq: virtual clock). Every name of the protocol's own handler table and of the admin handler table (enumerated
// in-package) is called through the entry the real loop uses — FindHandler(name) + handler(self, args), args[0] = the
// name as the parser delivers it — with generated argument vectors, in stateful sequences, and through Process() on whole
// byte streams. Any panic, or a call that neither returns nor legitimately waits for the lock engine, is reported:
//   C13:text-handler-panic:<COMMAND>:<kind>     replay = the argument vector (with the preceding sequence, if any)
// Second part: the value readers of protocol.LockResultCommandData on arbitrary and near-valid byte strings, directly and
// end-to-end (a binary connection plants the value, text commands read it back):
//   C13:value-helper-panic:<func>
// Build: only=[this file, zz_verif_engine_test.go, zz_verif_engine_monitor_test.go, zz_verif_engine_replay_test.go].

import (
	"bytes"
	"encoding/json"
	"fmt"
	"math/rand"
	"net"
	"os"
	"runtime/debug"
	"sort"
	"strconv"
	"strings"
	"sync"
	"testing"
	"time"

	"github.com/snower/slock/protocol"
)

type vThEnv struct {
	v   *vSeq
	srv *Server
	sp  *TextServerProtocol
	cli net.Conn
	mu  sync.Mutex
	got []byte
}

func vThNewEnv() *vThEnv {
	vFastPark = true
	v := vNewSeq(1, 0)
	e := &vThEnv{v: v, srv: NewServer(v.slock)}
	e.newConn()
	return e
}

func (e *vThEnv) newConn() {
	if e.cli != nil {
		_ = e.cli.Close()
	}
	sc, cc := net.Pipe()
	e.cli = cc
	e.sp = NewTextServerProtocol(e.v.slock, NewStream(sc))
	go func(c net.Conn) {
		buf := make([]byte, 65536)
		for {
			_ = c.SetReadDeadline(time.Now().Add(60 * time.Second))
			n, err := c.Read(buf)
			if n > 0 {
				e.mu.Lock()
				if len(e.got) < 1<<20 {
					e.got = append(e.got, buf[:n]...)
				}
				e.mu.Unlock()
			}
			if err != nil {
				return
			}
		}
	}(cc)
}

func (e *vThEnv) takeReply() []byte {
	e.mu.Lock()
	r := e.got
	e.got = nil
	e.mu.Unlock()
	return r
}

// vThWhere: the innermost slock frames of the panicking goroutine (file:line), for the replay record
func vThWhere() string {
	var out []string
	for _, l := range strings.Split(string(debug.Stack()), "\n") {
		l = strings.TrimSpace(l)
		if strings.HasPrefix(l, "/") && (strings.Contains(l, "/server/") || strings.Contains(l, "/protocol/")) && strings.Contains(l, ".go:") && !strings.Contains(l, "zz_verif") {
			if i := strings.Index(l, " +0x"); i > 0 {
				l = l[:i]
			}
			if j := strings.LastIndex(l, "/server/"); j >= 0 {
				l = l[j+1:]
			} else if j := strings.LastIndex(l, "/protocol/"); j >= 0 {
				l = l[j+1:]
			}
			out = append(out, l)
			if len(out) == 4 {
				break
			}
		}
	}
	return strings.Join(out, " < ")
}

func vThPanicKind(r interface{}) string {
	s := fmt.Sprint(r)
	switch {
	case strings.Contains(s, "index out of range"):
		return "index-out-of-range"
	case strings.Contains(s, "slice bounds out of range"):
		return "slice-bounds"
	case strings.Contains(s, "nil pointer"):
		return "nil-pointer"
	case strings.Contains(s, "makeslice") || strings.Contains(s, "out of memory"):
		return "alloc"
	}
	return "other"
}

var vThZero16 = [16]byte{}

// call: one handler invocation under recover, with a watchdog. While the handler waits for the lock engine
// (lockRequestId is set) the virtual clock is advanced so that ordinary timeouts fire.
// result: "ok" | "err" | "panic:<kind>:<message>" | "wait" (legitimately blocked on the engine) | "hang"
func (e *vThEnv) call(name string, args []string) string {
	done := make(chan string, 1)
	sp := e.sp
	upper := strings.ToUpper(name)
	if upper == "SHUTDOWN" {
		e.srv.stoped = true // Server.Close() (no listener in the harness) returns at once
	}
	restore := false
	if upper == "SLAVEOF" && len(args) >= 3 && args[1] != "" && args[2] != "" {
		e.v.slock.state = STATE_FOLLOWER // exercise the argument handling without switching the node for real
		restore = true
	}
	go func() {
		defer func() {
			if r := recover(); r != nil {
				done <- "panic:" + vThPanicKind(r) + ":" + fmt.Sprint(r) + " @ " + vThWhere()
			}
		}()
		h, err := sp.FindHandler(upper)
		if err != nil {
			h = sp.commandHandlerUnknownCommand
		}
		if herr := h(sp, args); herr != nil {
			done <- "err"
			return
		}
		done <- "ok"
	}()
	start := time.Now()
	ticks := 0
	res := ""
	for res == "" {
		select {
		case res = <-done:
		case <-time.After(15 * time.Millisecond):
			if sp.lockRequestId != vThZero16 && ticks < 400 {
				for i := 0; i < 50; i++ {
					e.v.tick()
					ticks++
				}
				continue
			}
			if sp.lockRequestId != vThZero16 && ticks >= 400 && time.Since(start) > 300*time.Millisecond {
				res = "wait" // 400 virtual seconds did not resolve it: a legitimately long wait (TIMEOUT -1, XX, …)
			} else if time.Since(start) > 2*time.Second {
				if sp.lockRequestId != vThZero16 {
					res = "wait"
				} else {
					res = "hang"
				}
			}
		}
	}
	if restore {
		e.v.slock.state = STATE_LEADER
	}
	return res
}

// ------------------------------------------------------------------ dictionary

var vThWords = []string{"MATCH", "COUNT", "EX", "PX", "NX", "XX", "TX", "PTX", "ACK", "NAOF", "WILL", "TIMEOUT", "EXPRIED", "RCOUNT", "FLAG", "LOCK_ID",
	"SET", "UNSET", "INCR", "APPEND", "SHIFT", "EXECUTE", "PUSH", "POP", "UNLOCK", "LOCK", "WAIT", "KILL", "GET", "DATABASES", "CONFIG", "ADD", "REMOVE", "MEMBERS",
	"QUIT-LEADER", "WEIGHT", "ARBITER", "LOG_LEVEL", "DB_LOCK_AOF_TIME", "AOF_FILE_REWRITE_SIZE", "DEBUG", "server", "clients", "LIST"}

func vThLoadWords() []string {
	words := append([]string{}, vThWords...)
	b, err := os.ReadFile(os.Getenv("VERIF_FACTS"))
	if err != nil {
		return words
	}
	var f struct {
		Facts map[string]json.RawMessage `json:"facts"`
	}
	if json.Unmarshal(b, &f) != nil {
		return words
	}
	var extra []string
	if raw, ok := f.Facts["texthandler_words"]; ok && json.Unmarshal(raw, &extra) == nil {
		seen := map[string]bool{}
		for _, w := range words {
			seen[w] = true
		}
		for _, w := range extra {
			if !seen[w] {
				words = append(words, w)
			}
		}
	}
	return words
}

func vThToken(r *rand.Rand, words []string, keyN *int) string {
	switch r.Intn(22) {
	case 0, 1, 2:
		*keyN++
		return fmt.Sprintf("key%d", *keyN%7)
	case 3:
		return ""
	case 4:
		return "0"
	case 5:
		return "-1"
	case 6:
		return "1"
	case 7:
		return "65536"
	case 8:
		return "4294967296"
	case 9:
		return "9223372036854775808"
	case 10:
		return "abc"
	case 11:
		return "*"
	case 12:
		return strings.Repeat("x", 1024)
	case 13:
		return "\x80\xff\xfe\xc3"
	case 14:
		return "a\r\nb"
	case 15:
		return "0123456789abcdef"
	case 16:
		return "00112233445566778899aabbccddeeff"
	case 17:
		return []string{"2", "10", "3000", "65535", "-9223372036854775808", "9223372036854775807", "+5", "1e3", "[", "(", "a**b", "\\"}[r.Intn(12)]
	}
	w := words[r.Intn(len(words))]
	if r.Intn(4) == 0 {
		w = strings.ToLower(w)
	}
	return w
}

type vThRun struct {
	env     *vThEnv
	out     *vOut
	seen    map[string]int
	calls   int
	waits   int
	history []string // the stateful sequence since the last fresh environment
}

func (x *vThRun) report(sig, what string, replay interface{}) {
	x.seen[sig]++
	if x.seen[sig] <= 3 {
		x.out.monitor(sig, what, replay)
	}
}

func vThShow(args []string) string {
	q := make([]string, len(args))
	for i, a := range args {
		if len(a) > 40 {
			a = a[:40] + fmt.Sprintf("…(%d bytes)", len(a))
		}
		q[i] = fmt.Sprintf("%q", a)
	}
	return strings.Join(q, " ")
}

// do: one call; classification, bookkeeping, fresh environment after a panic / wait / hang
func (x *vThRun) do(name string, args []string, stateful bool) string {
	x.calls++
	res := x.env.call(name, args)
	_ = x.env.takeReply()
	cmd := strings.ToUpper(name)
	line := vThShow(args)
	rec := "# texthandlers " + strings.SplitN(res, ":", 3)[0] + " " + line
	x.out.emit(rec, rec) // no model counterpart: the driver echoes comment lines
	hist := append([]string{}, x.history...)
	if stateful {
		x.history = append(x.history, line)
		if len(x.history) > 12 {
			x.history = x.history[len(x.history)-12:]
		}
	}
	switch {
	case strings.HasPrefix(res, "panic:"):
		p := strings.SplitN(res, ":", 3)
		x.report("C13:text-handler-panic:"+cmd+":"+p[1], "a text command handler panics on a client-supplied argument list ("+p[2]+"); the connection goroutine has no recover, the server process dies",
			map[string]interface{}{"args": args, "after": hist})
		x.fresh()
	case res == "hang":
		x.report("C13:text-handler-panic:"+cmd+":hang", "a text command handler did not return within 2 s and is not waiting for the lock engine",
			map[string]interface{}{"args": args, "after": hist})
		x.fresh()
	case res == "wait":
		x.waits++
		x.fresh()
	case res == "err":
		// the handler asked for the connection to be closed (QUIT, SHUTDOWN, write error): new connection
		x.env.newConn()
	}
	return res
}

func (x *vThRun) fresh() {
	x.env = vThNewEnv()
	x.history = nil
}

// reuse: same node, empty databases, new connection (a fresh node only after a panic / wait / hang)
func (x *vThRun) reuse() {
	for _, db := range x.env.v.slock.dbs {
		if db != nil {
			_ = db.FlushDB()
		}
	}
	x.env.newConn()
	x.history = nil
}

func (x *vThRun) names() (own []string, admin []string) {
	_, _ = x.env.sp.FindHandler("")
	for n := range x.env.sp.handlers {
		own = append(own, n)
	}
	for n := range x.env.v.slock.GetAdmin().GetHandlers() {
		admin = append(admin, n)
	}
	sort.Strings(own)
	sort.Strings(admin)
	return
}

func vThCase(r *rand.Rand, s string) string {
	switch r.Intn(4) {
	case 0:
		return strings.ToLower(s)
	case 1:
		b := []byte(s)
		for i := range b {
			if r.Intn(2) == 0 && b[i] >= 'A' && b[i] <= 'Z' {
				b[i] += 32
			}
		}
		return string(b)
	}
	return s
}

func vThHandlers(r *rand.Rand, x *vThRun, n int) {
	words := vThLoadWords()
	own, admin := x.names()
	all := append(append([]string{}, own...), admin...)
	all = append(all, "NOSUCHCOMMAND")
	keyN := 0
	slow := map[string]bool{"REWRITEAOF": true, "BGREWRITEAOF": true, "SHUTDOWN": true, "FLUSHALL": true, "QUIT": true}
	for _, name := range all {
		// fixed shapes: the name alone, then every dictionary word in every position 1..3 after a key / a number
		x.do(name, []string{name}, false)
		if slow[name] { // handlers that ignore their arguments: a few calls are enough
			x.do(name, []string{name, "a"}, false)
			x.do(name, []string{name, "a", "b", "c"}, false)
			continue
		}
		firsts := []string{"key1", "0", "*"}
		if n < 30 {
			firsts = firsts[1:2] // "0": a valid key AND a valid number (cursor, db id, …)
		}
		for _, w := range words {
			for _, first := range firsts {
				x.do(name, []string{vThCase(r, name), w}, false)
				x.do(name, []string{vThCase(r, name), first, w}, false)
				x.do(name, []string{vThCase(r, name), first, "v", w}, false)
				x.do(name, []string{vThCase(r, name), first, "1", "v", w}, false)
				x.do(name, []string{vThCase(r, name), first, w, "5", w}, false)
			}
			_ = x.env.v.db.FlushDB()
		}
		// every total length 1..9 with random tokens
		reps := 6 + n/20
		for L := 1; L <= 9; L++ {
			for rep := 0; rep < reps; rep++ {
				args := make([]string, L)
				args[0] = vThCase(r, name)
				for i := 1; i < L; i++ {
					args[i] = vThToken(r, words, &keyN)
				}
				x.do(name, args, false)
			}
			_ = x.env.v.db.FlushDB()
		}
	}
	// the unknown-command handler is what an EMPTY argument list reaches (`*0\r\n$-1\r\n\r\n`)
	x.do("", []string{}, false)
}

// stateful sequences on a few keys: values of every kind, then every value command on them
func vThSequences(r *rand.Rand, x *vThRun, n int) {
	words := vThLoadWords()
	own, _ := x.names()
	keyN := 0
	setup := [][]string{
		{"SET", "K", "hello"}, {"SET", "K", "12"}, {"SET", "K", ""}, {"INCR", "K"}, {"INCRBY", "K", "-5"}, {"APPEND", "K", "xyz"}, {"SETNX", "K", "v"},
		{"LOCK", "K", "TIMEOUT", "0", "EXPRIED", "100"}, {"LOCK", "K", "TIMEOUT", "0", "SET", "abc"}, {"LOCK", "K", "TIMEOUT", "0", "PUSH", "e1"}, {"LOCK", "K", "TIMEOUT", "0", "INCR", "7"},
		{"PUSH", "K", "PUSH", "e2"}, {"LOCK", "K", "TIMEOUT", "0", "COUNT", "5", "PUSH", "e3"}, {"SETEX", "K", "100", "v"}, {"PSETEX", "K", "100", "v"}, {"DEL", "K"},
		{"SELECT", "1"}, {"SELECT", "0"}, {"SELECT", "255"}, {"TIMEOUT", "SET", "0"}, {"EXPIRE", "K", "10"}, {"PERSIST", "K", "0"}, {"GETSET", "K", "nv"},
		{"LOCK", "K", "TIMEOUT", "0", "SHIFT", "1"}, {"LOCK", "K", "TIMEOUT", "0", "POP", "1"}, {"LOCK", "K", "TIMEOUT", "0", "UNSET", "1"}, {"UNLOCK", "K"},
		{"LOCK", "K", "TIMEOUT", "0", "EXECUTE", "UNLOCK", "LOCK", "K2", "TIMEOUT", "0"},
	}
	readers := []string{"GET", "STRLEN", "EXISTS", "TYPE", "DUMP", "TTL", "PTTL", "KEYS", "SCAN", "APPEND", "INCR", "DECR", "INCRBY", "DECRBY", "GETSET", "SET", "SETNX", "DEL", "EXPIRE", "PEXPIRE", "PERSIST", "SHOW"}
	// PUSH replies "+OK" without reading the engine's immediate result: the results must not pile up in lockWaiter (capacity 4)
	for i := 0; i < 7; i++ {
		if x.do("PUSH", []string{"PUSH", "pushkey", "PUSH", fmt.Sprintf("e%d", i)}, true) != "ok" {
			break
		}
	}
	x.do("LOCK", []string{"LOCK", "afterpush", "TIMEOUT", "0"}, true)
	for it := 0; it < 40+n; it++ {
		x.reuse()
		key := []string{"sk", "", "0123456789abcdef", "never"}[r.Intn(4)]
		steps := 1 + r.Intn(5)
		for s := 0; s < steps; s++ {
			t := setup[r.Intn(len(setup))]
			args := make([]string, len(t))
			for i, a := range t {
				if a == "K" {
					a = key
				}
				args[i] = a
			}
			if x.do(args[0], args, true) != "ok" {
				break
			}
		}
		for s := 0; s < 6; s++ {
			name := readers[r.Intn(len(readers))]
			if r.Intn(5) == 0 {
				name = own[r.Intn(len(own))]
			}
			var args []string
			switch name {
			case "KEYS":
				args = []string{name, []string{"*", "s*", "[", "never"}[r.Intn(4)]}
			case "SCAN":
				args = [][]string{{name, "0"}, {name, "0", "MATCH", "*"}, {name, "0", "COUNT", "10"}, {name, "1", "MATCH", "s*", "COUNT", "1"}, {name, "0", "COUNT", "0"}}[r.Intn(5)]
			case "SHOW":
				args = [][]string{{name}, {name, "*"}, {name, key}, {name, key, "WAIT"}}[r.Intn(4)]
			case "APPEND", "GETSET", "SET", "SETNX":
				args = []string{name, key, []string{"v", "", "123"}[r.Intn(3)]}
			case "INCRBY", "DECRBY":
				args = []string{name, key, []string{"1", "-1", "9223372036854775807", "x"}[r.Intn(4)]}
			case "EXPIRE", "PEXPIRE", "PERSIST":
				args = []string{name, key, "100"}
			default:
				args = []string{name, key}
			}
			if r.Intn(6) == 0 {
				args = append(args, vThToken(r, words, &keyN))
			}
			if res := x.do(name, args, true); res != "ok" && res != "err" {
				break
			}
		}
	}
}

// whole byte streams through Process(): the parser → handler glue
func vThStreams(r *rand.Rand, x *vThRun, n int) {
	words := vThLoadWords()
	own, admin := x.names()
	var all []string
	for _, nm := range append(append([]string{}, own...), admin...) {
		switch nm {
		case "SHUTDOWN", "REWRITEAOF", "BGREWRITEAOF", "SLAVEOF":
		default:
			all = append(all, nm)
		}
	}
	keyN := 0
	for it := 0; it < 30+n/2; it++ {
		x.reuse()
		e := x.env
		p := protocol.NewTextParser(make([]byte, 16), make([]byte, 16))
		var stream []byte
		var cmds [][]string
		for c := 0; c < 1+r.Intn(5); c++ {
			L := 1 + r.Intn(6)
			args := make([]string, L)
			args[0] = vThCase(r, all[r.Intn(len(all))])
			for i := 1; i < L; i++ {
				args[i] = vThToken(r, words, &keyN)
				if (strings.EqualFold(args[0], "LOCK") || strings.EqualFold(args[0], "UNLOCK") || strings.EqualFold(args[0], "PUSH")) && (args[i] == "-1" || strings.EqualFold(args[i], "XX")) {
					args[i] = "0"
				}
			}
			cmds = append(cmds, args)
			stream = append(stream, p.BuildRequest(args)...)
		}
		switch r.Intn(6) {
		case 0:
			stream = append(stream, []byte("*0\r\n$-1\r\n\r\n")...)
		case 1:
			stream = append([]byte("*0\r\n$-1\r\n\r\n"), stream...)
		case 2:
			stream = append(stream, []byte("*1\r\n$-5\r\n\r\n*-3\r\n$0\r\n\r\n")...)
		}
		done := make(chan string, 1)
		sp := e.sp
		go func() {
			defer func() {
				if rec := recover(); rec != nil {
					done <- "panic:" + vThPanicKind(rec) + ":" + fmt.Sprint(rec) + " @ " + vThWhere()
				}
			}()
			_ = sp.Process()
			done <- "ok"
		}()
		go func() {
			for len(stream) > 0 {
				k := 1 + r.Intn(len(stream))
				if k > 700 {
					k = 700
				}
				_ = e.cli.SetWriteDeadline(time.Now().Add(3 * time.Second))
				if _, err := e.cli.Write(stream[:k]); err != nil {
					return
				}
				stream = stream[k:]
			}
			time.Sleep(30 * time.Millisecond)
			_ = e.cli.Close()
		}()
		res := ""
		start := time.Now()
		for res == "" {
			select {
			case res = <-done:
			case <-time.After(20 * time.Millisecond):
				if sp.lockRequestId != vThZero16 {
					for i := 0; i < 50; i++ {
						e.v.tick()
					}
				}
				if time.Since(start) > 4*time.Second {
					if sp.lockRequestId != vThZero16 {
						res = "wait"
					} else {
						res = "hang"
					}
				}
			}
		}
		x.calls++
		rec := fmt.Sprintf("# texthandlers-stream %s %d commands", strings.SplitN(res, ":", 3)[0], len(cmds))
		x.out.emit(rec, rec)
		if strings.HasPrefix(res, "panic:") {
			pp := strings.SplitN(res, ":", 3)
			x.report("C13:text-handler-panic:STREAM:"+pp[1], "Process() panics on a client byte stream ("+pp[2]+")", map[string]interface{}{"commands": cmds})
		} else if res == "hang" {
			x.report("C13:text-handler-panic:STREAM:hang", "Process() neither returned nor waits for the lock engine", map[string]interface{}{"commands": cmds})
		}
	}
}

// ------------------------------------------------------------------ value helpers

func vThLe32(n uint32) []byte { return []byte{byte(n), byte(n >> 8), byte(n >> 16), byte(n >> 24)} }

// near-valid value frames: [len32][stage|type][flag] (+ property section) + cells with bad inner lengths
func vThFrame(r *rand.Rand) []byte {
	flag := byte(0)
	switch r.Intn(5) {
	case 0:
		flag = protocol.LOCK_DATA_FLAG_VALUE_TYPE_ARRAY
	case 1:
		flag = protocol.LOCK_DATA_FLAG_VALUE_TYPE_KV
	case 2:
		flag = protocol.LOCK_DATA_FLAG_VALUE_TYPE_NUMBER
	case 3:
		flag = byte(r.Intn(256))
	}
	var body []byte
	if r.Intn(2) == 0 {
		flag |= protocol.LOCK_DATA_FLAG_CONTAINS_PROPERTY
		var props []byte
		for k := r.Intn(3); k >= 0; k-- {
			val := vRandBytes(r, r.Intn(6))
			vl := len(val)
			switch r.Intn(5) {
			case 0:
				vl = 0xffff
			case 1:
				vl += 1 + r.Intn(40)
			}
			props = append(props, byte(r.Intn(3)), byte(vl), byte(vl>>8))
			props = append(props, val...)
		}
		if r.Intn(4) == 0 && len(props) > 0 {
			props = props[:r.Intn(len(props))]
		}
		pl := len(props)
		switch r.Intn(6) {
		case 0:
			pl = r.Intn(4)
		case 1:
			pl += r.Intn(3)
		}
		body = append(body, byte(pl), byte(pl>>8))
		body = append(body, props...)
	}
	for k := r.Intn(4); k > 0; k-- {
		cell := vRandBytes(r, r.Intn(6))
		cl := uint32(len(cell))
		switch r.Intn(6) {
		case 0:
			cl = 0xffffffff
		case 1:
			cl = 0
		case 2:
			cl += uint32(1 + r.Intn(50))
		case 3:
			cl = 0x7fffffff
		}
		body = append(body, vThLe32(cl)...)
		body = append(body, cell...)
	}
	if r.Intn(4) == 0 {
		body = append(body, vRandBytes(r, r.Intn(5))...)
	}
	typ := byte(r.Intn(9))
	if r.Intn(3) != 0 {
		typ = protocol.LOCK_DATA_COMMAND_TYPE_SET
	}
	out := append(vThLe32(uint32(len(body)+2)), typ|byte(r.Intn(4))<<6, flag)
	return append(out, body...)
}

func vThShowList(xs []string) string {
	if len(xs) == 0 {
		return "empty"
	}
	return strings.Join(xs, ",")
}

func vThValueHelpers(r *rand.Rand, x *vThRun, n int) {
	// each reader: its canonical result (compared with the Lean model by the driver command `thval …`)
	funcs := []struct {
		name, op string
		f        func(d *protocol.LockResultCommandData) string
	}{
		{"GetStringValue", "string", func(d *protocol.LockResultCommandData) string { return vHex([]byte(d.GetStringValue())) }},
		{"GetBytesValue", "string", func(d *protocol.LockResultCommandData) string { return vHex(d.GetBytesValue()) }},
		{"GetArrayValue", "array", func(d *protocol.LockResultCommandData) string {
			vs := d.GetArrayValue()
			if vs == nil {
				return "nil"
			}
			out := []string{}
			for _, v := range vs {
				out = append(out, vHex(v))
			}
			return vThShowList(out)
		}},
		{"GetKVValue", "kv", func(d *protocol.LockResultCommandData) string {
			m := d.GetKVValue()
			if m == nil {
				return "nil"
			}
			out := []string{}
			for k, v := range m {
				out = append(out, vHex([]byte(k))+"="+vHex(v))
			}
			sort.Strings(out)
			return vThShowList(out)
		}},
		{"GetDataProperties", "props", func(d *protocol.LockResultCommandData) string {
			ps := d.GetDataProperties()
			if ps == nil {
				return "nil"
			}
			out := []string{}
			for _, p := range ps {
				out = append(out, fmt.Sprintf("%d:%s", p.Code, vHex(p.Value)))
			}
			return vThShowList(out)
		}},
		{"GetDataProperty", "prop:1", func(d *protocol.LockResultCommandData) string {
			p := d.GetDataProperty(1)
			if p == nil {
				return "none"
			}
			return vHex(p.Value)
		}},
		{"GetDataProperty", "prop:0", func(d *protocol.LockResultCommandData) string {
			p := d.GetDataProperty(0)
			if p == nil {
				return "none"
			}
			return vHex(p.Value)
		}},
		{"GetIncrValue", "", func(d *protocol.LockResultCommandData) string { return fmt.Sprint(d.GetIncrValue()) }},
		{"GetValueSize", "", func(d *protocol.LockResultCommandData) string { return fmt.Sprint(d.GetValueSize()) }},
	}
	for it := 0; it < 1500+40*n; it++ {
		var raw []byte
		switch {
		case it%5 == 0:
			raw = vRandBytes(r, 6+r.Intn(30))
		case it%97 == 0:
			raw = vRandBytes(r, r.Intn(8))
		default:
			raw = vThFrame(r)
		}
		// the ingress check every client frame passes before it can be stored (and, later, read back)
		accepted := protocol.NewLockCommandDataFromOriginBytes(raw) != nil
		if accepted {
			// C14 (lossless codecs): the two readers of the property header agree — every property the list reader returns is found
			// by the by-code reader (first entry with that code), with the same value
			func() {
				defer func() { _ = recover() }() // panics are C13's subject, reported below
				d := protocol.NewLockResultCommandDataFromOriginBytes(raw)
				seen := map[uint8]bool{}
				for _, p := range d.GetDataProperties() {
					if seen[p.Code] {
						continue
					}
					seen[p.Code] = true
					q := d.GetDataProperty(p.Code)
					if q == nil || !bytes.Equal(q.Value, p.Value) {
						got := "nil"
						if q != nil {
							got = vHex(q.Value)
						}
						x.report("C14:property-reader-disagrees", fmt.Sprintf("GetDataProperties lists property %d = %s, GetDataProperty(%d) returns %s", p.Code, vHex(p.Value), p.Code, got),
							map[string]interface{}{"frame": vHex(raw)})
						break
					}
				}
			}()
		}
		for _, fn := range funcs {
			res := ""
			func() {
				defer func() {
					if rec := recover(); rec != nil {
						res = "panic"
						if accepted {
							x.report("C13:value-helper-panic:"+fn.name, "LockResultCommandData."+fn.name+" panics on a value frame that the ingress check accepts ("+vThPanicKind(rec)+": "+fmt.Sprint(rec)+" @ "+vThWhere()+")",
								map[string]interface{}{"frame": vHex(raw)})
						}
					}
				}()
				res = fn.f(protocol.NewLockResultCommandDataFromOriginBytes(raw))
			}()
			x.calls++
			if fn.op != "" {
				x.out.emit("thval "+fn.op+" "+vHex(raw), res)
			} else {
				x.out.emit("# valuehelper "+fn.name+" "+vHex(raw), "# valuehelper "+fn.name+" "+vHex(raw))
			}
		}
	}
	// end to end: a binary connection stores the frame with a LOCK, text commands read the value back
	readers := [][]string{{"GET", "K"}, {"STRLEN", "K"}, {"EXISTS", "K"}, {"TYPE", "K"}, {"DUMP", "K"}, {"KEYS", "*"}, {"KEYS"}, {"SCAN", "0"}, {"SCAN", "0", "MATCH", "*", "COUNT", "10"},
		{"APPEND", "K", "x"}, {"INCR", "K"}, {"GETSET", "K", "v"}, {"SHOW", "K"}, {"UNLOCK", "K"}, {"LOCK", "K", "TIMEOUT", "0", "POP", "1"}, {"LOCK", "K", "TIMEOUT", "0", "SHIFT", "1"}}
	for it := 0; it < 150+2*n; it++ {
		raw := vThFrame(r)
		data := protocol.NewLockCommandDataFromOriginBytes(raw)
		if data == nil {
			continue
		}
		x.reuse()
		e := x.env
		var key [16]byte
		e.sp.commandConverter.ConvertArgId2LockId("pk", &key)
		planted := "ok"
		func() {
			defer func() {
				if rec := recover(); rec != nil {
					planted = "panic:" + vThPanicKind(rec) + ":" + fmt.Sprint(rec) + " @ " + vThWhere()
				}
			}()
			cmd := &protocol.LockCommand{Command: protocol.Command{Magic: protocol.MAGIC, Version: protocol.VERSION, CommandType: protocol.COMMAND_LOCK, RequestId: vId16(900000 + it)},
				Flag: protocol.LOCK_FLAG_CONTAINS_DATA, DbId: 0, LockId: key, LockKey: key, Timeout: 0, Expried: 1000, Data: data}
			_ = e.v.conns[0].ProcessLockCommand(cmd)
		}()
		x.calls++
		rec := "# valueplant " + strings.SplitN(planted, ":", 2)[0] + " " + vHex(raw)
		x.out.emit(rec, rec)
		if planted != "ok" {
			// the binary ingest path belongs to the value-frame check (C13 value part); here only recorded
			continue
		}
		for k := 0; k < 5; k++ {
			t := readers[r.Intn(len(readers))]
			args := make([]string, len(t))
			for i, a := range t {
				if a == "K" {
					a = "pk"
				}
				args[i] = a
			}
			x.history = []string{"binary LOCK pk with data " + vHex(raw)}
			res := x.do(args[0], args, false)
			if strings.HasPrefix(res, "panic:") || res == "hang" || res == "wait" {
				break
			}
		}
	}
}

// vThRegister (C15 at the text surface): the Redis-style value commands read back what was written — SET / GETSET then GET on the real
// text handlers of a leader node, values incl. the empty string, digits, CR LF inside, 300 bytes. The engine-level register semantics
// are M-VALUE's; this part checks the reply WRITERS (bulk string framing of the stored value, nil for "no value").
func vThRegister(r *rand.Rand, x *vThRun, n int) {
	vals := []string{"", "a", "0", "12", "-7", "x\r\ny", strings.Repeat("v", 90), " ", "nil", "\x00\x01"}
	bulk := func(v string) string { return fmt.Sprintf("$%d\r\n%s\r\n", len(v), v) }
	// one complete RESP reply (the capture is filled by a reader goroutine: wait for the whole frame, at most 300 ms)
	complete := func(b string) bool {
		if !strings.HasSuffix(b, "\r\n") {
			return false
		}
		if strings.HasPrefix(b, "$") && !strings.HasPrefix(b, "$-1") {
			i := strings.Index(b, "\r\n")
			n, err := strconv.Atoi(b[1:i])
			return err == nil && len(b) >= i+2+n+2
		}
		return true
	}
	ask := func(args ...string) (string, string) {
		x.calls++
		_ = x.env.takeReply() // nothing of an earlier exchange
		res := x.env.call(args[0], args)
		rep := ""
		for w := 0; w < 150; w++ {
			rep += string(x.env.takeReply())
			if complete(rep) {
				break
			}
			time.Sleep(2 * time.Millisecond)
		}
		return res, rep
	}
	for it := 0; it < 40+2*n; it++ {
		x.reuse()
		key := fmt.Sprintf("rk%d", it)
		cur, has := "", false
		steps := 3 + r.Intn(5)
		var hist []string
		for st := 0; st < steps; st++ {
			v := vals[r.Intn(len(vals))]
			var res, rep, want, cmd string
			switch r.Intn(3) {
			case 0:
				cmd = "SET " + strconv.Quote(v)
				res, rep = ask("SET", key, v)
				want = "+OK\r\n"
				if res == "ok" && rep == want {
					cur, has = v, true
				}
			case 1:
				cmd = "GETSET " + strconv.Quote(v)
				res, rep = ask("GETSET", key, v)
				want = "$-1\r\n"
				if has {
					want = bulk(cur)
				}
				if res == "ok" {
					cur, has = v, true
				}
			default:
				cmd = "GET"
				res, rep = ask("GET", key)
				want = "$-1\r\n"
				if has {
					want = bulk(cur)
				}
			}
			hist = append(hist, cmd)
			rec := "# register " + key + " " + cmd
			x.out.emit(rec, rec)
			if res != "ok" || !complete(rep) {
				break // panics / waits are the other parts' subject; an uncaptured reply (written past the harness's capture) is not judged
			}
			if rep != want {
				x.report("C15:text-value-read-back-differs", fmt.Sprintf("after %v on key %s the reply is %q, the value written last makes it %q", hist, key, rep, want),
					map[string]interface{}{"key": key, "history": hist})
				break
			}
		}
	}
}

func init() {
	vModes["texthandlers"] = func(t *testing.T) {
		seed := int64(vEnvInt("VERIF_SEED", 1))
		n := vEnvInt("VERIF_N", 100)
		out := vOpen("texthandlers")
		defer out.close()
		x := &vThRun{env: vThNewEnv(), out: out, seen: map[string]int{}}
		part := os.Getenv("VERIF_TH_PART")
		t0 := time.Now()
		lap := func(what string) {
			fmt.Printf("texthandlers: %s done after %.1fs, %d calls\n", what, time.Since(t0).Seconds(), x.calls)
		}
		if part == "" || part == "handlers" {
			vThHandlers(rand.New(rand.NewSource(seed)), x, n)
			lap("handlers")
		}
		if part == "" || part == "sequences" {
			vThSequences(rand.New(rand.NewSource(seed+1)), x, n)
			lap("sequences")
		}
		if part == "" || part == "streams" {
			vThStreams(rand.New(rand.NewSource(seed+2)), x, n)
			lap("streams")
		}
		if part == "" || part == "values" {
			vThValueHelpers(rand.New(rand.NewSource(seed+3)), x, n)
			lap("values")
		}
		if part == "" || part == "register" {
			vThRegister(rand.New(rand.NewSource(seed+4)), x, n)
			lap("register")
		}
		fmt.Printf("texthandlers: %d calls, %d legitimate engine waits, signatures %v\n", x.calls, x.waits, x.seen)
	}
}
