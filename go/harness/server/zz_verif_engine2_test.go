package server

// E-seq, stage 2: the real SLock + LockDB in-process under the VIRTUAL clock of the stage-1 harness, now with
//   * value frames on LOCK / UNLOCK (flag 0x20 + cmd.Data built by the real parser from frames of the value harness' builders),
//   * the expiry aof flags 0x0100 / 0x0200 / 0x1000 and a per-sequence db.aofTime,
//   * a REAL journalling sink: db.aofChannels[0] is a real AofChannel (its Push builds the real AofLock); the harness pulls
//     what was pushed after every operation (no file behind it: the records are compared as pushed),
//   * non-leader phases with ticks and with replicated (from-aof, flag 0x04) LOCK / UNLOCK commands,
//   * snapshots that include each key record's value cell, lockManager.refCount and STATE KeyCount.
// One line per sequence:  engine2 <now0> <aofTimeDefault> <op>;<op>;…   (see lean/Driver/Engine2.lean)

import (
	"bufio"
	"encoding/hex"
	"fmt"
	"math/rand"
	"os"
	"sort"
	"strconv"
	"strings"
	"testing"
	"time"

	"github.com/snower/slock/protocol"
)

type vE2Op struct {
	vOp
	frame   []byte // value frame (nil: none)
	frameHx string // its hex as sent (the real code rewrites INCR frames in place)
}

func (o vE2Op) String() string {
	switch o.kind {
	case 'L', 'U':
		d := "-"
		if o.frame != nil {
			d = o.frameHx
		}
		return fmt.Sprintf("%c %d %d %d %d %d %d %d %d %d %d %d %s", o.kind, o.req, o.conn, o.flag, o.lockId, o.key, o.tflag, o.timeout, o.eflag, o.expried, o.count, o.rcount, d)
	case 'R':
		return fmt.Sprintf("R %d", o.arg)
	}
	return string(o.kind)
}

type vE2HoldSnap struct {
	vHoldSnap
	isAof   bool
	aofTime int
}

type vE2KeySnap struct {
	key, locked int
	waited      bool
	exists      bool
	holds       []vE2HoldSnap
	waits       []string
	cell        string // hex.ctype.isAof or "-"
	data        []byte // GetLockData() view
	refCount    uint32
	recsQueued  int // entries (tombstoned or not) still referenced by currentLock / locks / waitLocks
	locksCap    int
	waitCap     int
	waitPrio    bool
	longHolds   int
}

type vE2Run struct {
	v       *vSeq
	ch      *AofChannel
	g       *vGen
	r       *rand.Rand
	keys    []int
	ops     []vE2Op
	obs     []string
	mon     *vE2Monitor
	out     *vOut
	journal []string
	replies []vReply
	leader  bool
	kc0     uint32
}

func e2HexOrDash(b []byte) string {
	if b == nil {
		return "-"
	}
	return vHex(b)
}

func (x *vE2Run) keySnap(key int) vE2KeySnap {
	ks := vE2KeySnap{key: key, cell: "-"}
	m := x.v.db.GetLockManager(&protocol.LockCommand{LockKey: vId16(key)})
	if m == nil {
		return ks
	}
	m.glock.Lock()
	defer m.glock.Unlock()
	if m.lockKey != vId16(key) {
		return ks
	}
	ks.exists = true
	ks.locked = int(m.locked)
	ks.waited = m.waited
	ks.refCount = m.refCount
	if m.currentData != nil {
		ks.cell = fmt.Sprintf("%s.%d.%s", vHex(m.currentData.data), m.currentData.commandType, vv01(m.currentData.isAof))
		if d := m.GetLockData(); d != nil {
			ks.data = append([]byte{}, d...)
		}
	}
	add := func(l *Lock) {
		if l == nil {
			return
		}
		ks.recsQueued++
		if l.locked > 0 && l.command != nil {
			ks.holds = append(ks.holds, vE2HoldSnap{vHoldSnap{vInt16(l.command.LockId), int(l.locked), vInt16(l.command.RequestId), int(l.command.Count), l.expriedTime, l.longWaitIndex > 0}, l.isAof, int(l.aofTime)})
		}
	}
	add(m.currentLock)
	if m.locks != nil {
		ks.locksCap = cap(m.locks.fastQueue)
		for _, node := range m.locks.IterNodes() {
			for _, l := range node {
				add(l)
			}
		}
	}
	if m.waitLocks != nil {
		ks.waitCap = cap(m.waitLocks.fastQueue)
		ks.waitPrio = m.waitLocks.fastIndex < 0
		for _, node := range m.waitLocks.IterNodes() {
			for _, l := range node {
				if l == nil {
					continue
				}
				ks.recsQueued++
				if !l.timeouted && l.command != nil {
					ks.waits = append(ks.waits, fmt.Sprintf("%d.%d.%d", vInt16(l.command.LockId), vInt16(l.command.RequestId), l.timeoutTime))
				}
			}
		}
	}
	return ks
}

func (x *vE2Run) keyCount() int {
	return int(int32(x.v.counters().KeyCount - x.kc0))
}

func (x *vE2Run) snapshot() string {
	var parts []string
	keys := append([]int{}, x.keys...)
	sort.Ints(keys)
	for _, key := range keys {
		ks := x.keySnap(key)
		if !ks.exists {
			continue
		}
		hs := make([]string, len(ks.holds))
		for i, h := range ks.holds {
			e := fmt.Sprint(h.expT)
			if h.expT == 0x7fffffffffffffff {
				e = "inf"
			}
			hs[i] = fmt.Sprintf("%d.%d.%s.%d.%s.%d", h.lockId, h.depth, e, h.req, vv01(h.isAof), h.aofTime)
		}
		parts = append(parts, fmt.Sprintf("k%d=%d/%s/[%s]/[%s]/%s/%d", key, ks.locked, vv01(ks.waited), strings.Join(hs, " "), strings.Join(ks.waits, " "), ks.cell, ks.refCount))
	}
	st := x.v.counters()
	b := x.v.base
	return strings.Join(parts, "|") + "|" + fmt.Sprintf("lc=%d uc=%d ld=%d wc=%d to=%d ex=%d ue=%d kc=%d", st.LockCount-b.LockCount, st.UnLockCount-b.UnLockCount,
		st.LockedCount-b.LockedCount, st.WaitCount-b.WaitCount, st.TimeoutedCount-b.TimeoutedCount, st.ExpriedCount-b.ExpriedCount, st.UnlockErrorCount-b.UnlockErrorCount, x.keyCount())
}

// pull what the engine pushed to the journal channel since the last call
func (x *vE2Run) drainJournal() {
	ch := x.ch
	ch.queueGlock.Lock()
	for a := ch.pullAofLock(); a != nil; a = ch.pullAofLock() {
		x.journal = append(x.journal, fmt.Sprintf("%d.%d.%d.%d.%s", a.CommandType, vInt16(a.LockKey), vInt16(a.LockId), a.AofFlag, vv01(a.data != nil)))
		x.out.stat(fmt.Sprintf("journal-record(type=%d,flag=%#x)", a.CommandType, a.AofFlag))
		ch.freeAofLock(a)
	}
	ch.queueGlock.Unlock()
}

func (x *vE2Run) takeReplies() string {
	if len(x.replies) == 0 {
		return "-"
	}
	s := make([]string, len(x.replies))
	for i, r := range x.replies {
		s[i] = fmt.Sprintf("%d:%d:%d:%d:%d:%d:%d:%d:%s", r.conn, r.req, r.result, r.lcount, r.lrcount, r.lockId, r.count, r.rcount, e2HexOrDash(r.data))
	}
	x.replies = x.replies[:0]
	return strings.Join(s, ",")
}

func (x *vE2Run) apply(o vE2Op) string {
	v := x.v
	switch o.kind {
	case 'L', 'U':
		p := v.conns[o.conn-1]
		cmd := &protocol.LockCommand{Command: protocol.Command{Magic: protocol.MAGIC, Version: protocol.VERSION, CommandType: protocol.COMMAND_LOCK, RequestId: vId16(o.req)},
			Flag: uint8(o.flag), DbId: 0, LockId: vId16(o.lockId), LockKey: vId16(o.key), TimeoutFlag: uint16(o.tflag), Timeout: uint16(o.timeout),
			ExpriedFlag: uint16(o.eflag), Expried: uint16(o.expried), Count: uint16(o.count), Rcount: uint8(o.rcount)}
		if o.kind == 'U' {
			cmd.CommandType = protocol.COMMAND_UNLOCK
		}
		if o.frame != nil && o.flag&0x20 != 0 {
			cmd.Data = protocol.NewLockCommandDataFromOriginBytes(o.frame) // nil = refused by the parser
		}
		_ = p.ProcessLockCommand(cmd)
		x.drainJournal()
		return x.takeReplies()
	case 'T':
		v.tick()
		x.drainJournal()
		return x.takeReplies()
	case 'R':
		x.leader = o.arg == 1
		v.db.status = vRoleOf(o.arg)
		return "-"
	case 'S':
		return x.snapshot()
	case 'J':
		s := "-"
		if len(x.journal) > 0 {
			s = strings.Join(x.journal, ",")
		}
		x.journal = x.journal[:0]
		return s
	}
	return "?"
}

func (x *vE2Run) do(o vE2Op) string {
	if o.frame != nil {
		o.frameHx = vHex(o.frame)
	}
	x.ops = append(x.ops, o) // recorded first: a panic inside the op is that op's observation
	x.mon.before(o)
	ob := x.apply(o)
	x.out.stat("op-" + string(o.kind))
	if o.kind == 'L' || o.kind == 'U' {
		if o.frame != nil {
			x.out.stat(fmt.Sprintf("%c-with-frame(%s)", o.kind, vvOpName(o.frame)))
		}
		if o.flag&4 != 0 {
			x.out.stat(fmt.Sprintf("%c-from-aof(leader=%v)", o.kind, x.leader))
		}
	}
	if o.kind == 'T' && !x.leader {
		x.out.stat("tick-off-leader")
	}
	for _, rp := range strings.Split(ob, ",") {
		if f := strings.Split(rp, ":"); len(f) == 9 {
			x.out.stat("reply-result-" + f[2])
			if f[8] != "-" {
				x.out.stat("reply-with-data")
			}
		}
	}
	if o.kind == 'L' || o.kind == 'U' || o.kind == 'T' {
		for _, key := range x.keys {
			ks := x.keySnap(key)
			if !ks.exists {
				continue
			}
			if ks.locksCap > 6 {
				x.out.stat(fmt.Sprintf("holder-queue-cap=%d", ks.locksCap))
			}
			if ks.waitCap > 8 {
				x.out.stat(fmt.Sprintf("wait-queue-cap=%d", ks.waitCap))
			}
			if ks.waitPrio {
				x.out.stat("wait-queue-in-priority-mode")
			}
			if d := ks.recsQueued - len(ks.holds) - len(ks.waits); d > 0 {
				x.out.stat("tombstoned-queue-entries-present")
			}
			if len(ks.holds) == 0 && len(ks.waits) == 0 {
				x.out.stat("key-record-without-live-state")
				if ks.cell != "-" {
					x.out.stat("value-kept-by-finished-records")
				}
			}
			for _, h := range ks.holds {
				if h.long {
					x.out.stat("hold-in-long-table")
				}
				if h.isAof && !x.leader {
					x.out.stat("journalled-hold-off-leader")
				}
			}
		}
	}
	x.obs = append(x.obs, ob)
	x.mon.after(o, ob)
	return ob
}

// ---------------------------------------------------------------------------------------------
// generator

// does the frame contain an EXECUTE sub-command anywhere (outside the subset: needs a connected protocol / executor)
func e2HasExecute(f []byte) bool {
	if len(f) < 6 {
		return false
	}
	op := f[4] & 0x3f
	if op == protocol.LOCK_DATA_COMMAND_TYPE_EXECUTE {
		return true
	}
	if op != protocol.LOCK_DATA_COMMAND_TYPE_PIPELINE {
		return false
	}
	// scan every offset a sub-frame could start at (over-approximation: only leads to re-drawing the frame)
	for off := 6; off+6 <= len(f); off++ {
		if f[off+4]&0x3f == protocol.LOCK_DATA_COMMAND_TYPE_EXECUTE {
			return true
		}
	}
	return false
}

func (x *vE2Run) genFrame(key int) []byte {
	r := x.r
	ks := x.keySnap(key)
	v, ok := vvDecode(ks.data)
	if !ok {
		v = vvVal{}
	}
	for try := 0; try < 8; try++ {
		var f []byte
		if r.Intn(100) < 8 {
			f = vvRawFrame(r, v, 0)
		} else {
			o := vvGenOp(r, v, 0)
			if r.Intn(10) == 0 {
				o.fl = true
			}
			f = vvFrame(o)
		}
		if f == nil || e2HasExecute(f) {
			continue
		}
		return vvClone(f)
	}
	return nil
}

// the model's reading of "Expried × DBLockAofParcentTime" (uint8(float64(E) * 0.3)): only E values on which integer
// arithmetic and the float expression agree are generated with flag 0x1000
func e2ParcentOK(e int) bool {
	return int(uint8(float64(uint16(e))*Config.DBLockAofParcentTime)) == (e*3/10)%256
}

func (x *vE2Run) lockOp(fromAof bool) vE2Op {
	r := x.r
	o := vE2Op{vOp: x.g.lockOp()}
	if fromAof {
		// a replicated LOCK: plain terms, short expiries so that the deferral is exercised
		o.flag = 4
		o.tflag = 0
		o.timeout = 0
		o.eflag = 0
		o.expried = vPick(r, []int{1, 2, 3, 5, 8, 20, 40}, []int{20, 20, 15, 15, 10, 10, 10})
		if r.Intn(100) < 15 {
			o.eflag = 0x8000 // keep-alive hold replicated to this node: the follower rule (wait for the leader's record) still comes first
		}
		o.count = vPick(r, []int{0, 1, 2}, []int{50, 30, 20})
		o.rcount = vPick(r, []int{0, 2}, []int{60, 40})
	} else if r.Intn(100) < 3 {
		o.flag = (o.flag &^ 8) | 4
	}
	if !fromAof && r.Intn(100) < 25 {
		af := vPick(r, []int{0x100, 0x200, 0x1000}, []int{40, 25, 35})
		if af != 0x1000 || e2ParcentOK(o.expried) {
			o.eflag |= af
		}
		if af == 0x100 && r.Intn(2) == 0 && o.eflag&0x4040 == 0 {
			o.expried = vPick(r, []int{3, 5, 6, 7, 20, 60}, []int{15, 15, 20, 20, 15, 15}) // around the > 5 s threshold of the long-table shortcut
		}
	}
	if x.g.profile == 4 && !fromAof { // many holders of one key: the inline holder queue (cap 6) compacts and grows
		o.count = vPick(r, []int{0xffff, 12, 3}, []int{60, 30, 10})
		o.lockId = 1 + r.Intn(24)
		o.flag &^= 8 | 1
		o.expried = vPick(r, []int{2, 5, 10, 30, 120}, []int{15, 20, 25, 25, 15})
		o.eflag &^= 0x4040
		o.tflag &^= 0x200
		o.key = x.g.keyBase
	}
	if r.Intn(100) < 35 {
		if f := x.genFrame(o.key); f != nil {
			o.frame = f
			o.flag |= 0x20
		}
	}
	return o
}

func (x *vE2Run) unlockOp(fromAof bool) vE2Op {
	r := x.r
	o := vE2Op{vOp: x.g.unlockOp()}
	o.arg = 0
	if x.g.profile == 4 {
		o.lockId = 1 + r.Intn(24)
		o.key = x.g.keyBase
	}
	if fromAof {
		o.flag = 4 | vPick(r, []int{0, 1}, []int{70, 30})
	} else if r.Intn(100) < 3 {
		o.flag |= 4
	}
	if r.Intn(100) < 30 {
		if f := x.genFrame(o.key); f != nil {
			o.frame = f
			o.flag |= 0x20
		}
	}
	return o
}

func (x *vE2Run) ticks(k int) {
	for i := 0; i < k; i++ {
		x.do(vE2Op{vOp: vOp{kind: 'T'}})
	}
}

func (x *vE2Run) setLeader(b bool) {
	a := vNonLeaderArg(x.r)
	if b {
		a = 1
	}
	x.do(vE2Op{vOp: vOp{kind: 'R', arg: a}})
}

func (x *vE2Run) body(n int) {
	r := x.r
	for steps := 0; steps < n; steps++ { // a burst of ticks counts as one step
		c := r.Intn(100)
		if x.leader {
			if x.g.profile == 3 && c < 96 {
				c = vPick(r, []int{10, 60, 80, 93}, []int{38, 7, 50, 5})
			}
			switch {
			case c < 46:
				x.do(x.lockOp(false))
			case c < 70:
				x.do(x.unlockOp(false))
			case c < 88:
				k := vPick(r, []int{1, 2, 3, 6, 11, 17}, []int{50, 20, 12, 8, 6, 4})
				if x.g.profile == 3 {
					k = vPick(r, []int{1, 5, 12, 25, 47, 61}, []int{20, 20, 20, 15, 15, 10})
				}
				x.ticks(k)
			case c < 92:
				x.do(vE2Op{vOp: vOp{kind: 'S'}})
			case c < 96:
				x.do(vE2Op{vOp: vOp{kind: 'J'}})
			default:
				x.setLeader(false)
			}
		} else {
			switch {
			case c < 25:
				x.do(x.lockOp(true))
			case c < 38:
				x.do(x.unlockOp(true))
			case c < 50:
				if r.Intn(2) == 0 {
					x.do(x.lockOp(false)) // a client request on a non-leader
				} else {
					x.do(x.unlockOp(false))
				}
			case c < 80:
				x.ticks(vPick(r, []int{1, 2, 4, 9, 31, 45}, []int{25, 20, 20, 15, 10, 10}))
			case c < 86:
				x.do(vE2Op{vOp: vOp{kind: 'S'}})
			default:
				x.setLeader(true)
			}
		}
	}
	if !x.leader {
		x.setLeader(true)
	}
	x.do(vE2Op{vOp: vOp{kind: 'S'}})
	x.do(vE2Op{vOp: vOp{kind: 'J'}})
}

// drain: release every hold, cancel every queued request (adaptively, from the real state), final snapshot.
func (x *vE2Run) drain() {
	for _, key := range x.keys {
		for i := 0; i < 400; i++ {
			ks := x.keySnap(key)
			if len(ks.holds) == 0 && len(ks.waits) == 0 {
				break
			}
			if len(ks.holds) > 0 {
				x.do(vE2Op{vOp: vOp{kind: 'U', req: x.g.nextReq, conn: 1, flag: 1, lockId: 99999, key: key}})
				x.g.nextReq++
				continue
			}
			var id, rq int
			var tt int64
			fmt.Sscanf(strings.ReplaceAll(ks.waits[0], ".", " "), "%d %d %d", &id, &rq, &tt)
			x.do(vE2Op{vOp: vOp{kind: 'U', req: x.g.nextReq, conn: 1, flag: 2, lockId: id, key: key}})
			x.g.nextReq++
		}
	}
	x.do(vE2Op{vOp: vOp{kind: 'S'}})
	// let the dead wheel entries be swept (they stay in their slots for up to 9 s), then everything must be gone
	x.ticks(18)
	x.do(vE2Op{vOp: vOp{kind: 'S'}})
	x.do(vE2Op{vOp: vOp{kind: 'J'}})
	x.mon.drained()
}

func vE2NewSeq() (*vSeq, *AofChannel) {
	v := vNewSeq(3, 0xff)
	ch := NewAofChannel(v.slock.aof, v.db, 0, v.db.managerGlocks[0])
	v.db.aofChannels[0] = ch
	return v, ch
}

func vEngine2Run(t *testing.T, mode string, opsPer int) {
	r := rand.New(rand.NewSource(int64(vEnvInt("VERIF_SEED", 1))))
	n := vEnvInt("VERIF_N", 100)
	out := vOpen(mode)
	defer out.close()
	v, ch := vE2NewSeq()
	g := &vGen{r: r, nextReq: 1, nconn: 3}
	for it := 0; it < n; it++ {
		g.profile = []int{0, 0, 1, 2, 3, 4}[it%6]
		g.nkeys = 1 + r.Intn(2)
		g.nids = 2 + r.Intn(3)
		g.keyBase = 10 * (it + 1)
		g.keyStep = vKeyStep(r, v.db)
		if g.keyStep > 1 {
			g.nkeys = 2 + r.Intn(2)
			out.stat("keys-share-fast-slot")
		}
		x := &vE2Run{v: v, ch: ch, g: g, r: r, out: out, leader: true}
		for k := 0; k < g.nkeys; k++ {
			x.keys = append(x.keys, g.keyBase+k*g.step())
		}
		x.mon = vE2NewMonitor(out, x)
		g.statf = out.stat
		g.hint = func(key int) (vHoldSnap, int64, bool) {
			ks := v.keySnap(key)
			if len(ks.holds) == 0 {
				return vHoldSnap{}, 0, false
			}
			return ks.holds[r.Intn(len(ks.holds))], v.db.currentTime, true
		}
		aofTime := vPick(r, []int{0xff, 0, 1, 2, 5}, []int{35, 15, 20, 15, 15})
		v.db.aofTime = uint8(aofTime)
		v.db.status = STATE_LEADER
		v.base = v.counters()
		x.kc0 = v.base.KeyCount
		v.replies = v.replies[:0]
		v.onReply = func(rp vReply) {
			if rp.data != nil {
				rp.data = append([]byte{}, rp.data...)
			}
			x.replies = append(x.replies, rp)
			x.mon.onReply(rp)
			v.replies = v.replies[:0]
		}
		now0 := v.db.currentTime
		bad := ""
		done := make(chan struct{})
		nops := opsPer/2 + r.Intn(opsPer)
		if g.profile == 4 {
			nops *= 2
		}
		go func() {
			defer func() {
				if e := recover(); e != nil {
					bad = fmt.Sprintf("panic: %v", e)
				}
				close(done)
			}()
			x.body(nops)
			x.drain()
		}()
		select {
		case <-done:
		case <-time.After(30 * time.Second):
			bad = "hang"
		}
		strs := make([]string, len(x.ops))
		for i, o := range x.ops {
			strs[i] = o.String()
		}
		line := fmt.Sprintf("engine2 %d %d %s", now0, aofTime, strings.Join(strs, ";"))
		x.mon.line = line
		if bad != "" {
			kind := strings.TrimSuffix(strings.Fields(bad)[0], ":")
			out.emit(line, strings.Join(append(x.obs, kind), ";"))
			out.monitor("C13:engine2-"+kind, "the real engine "+bad+" during a sequential operation sequence", map[string]string{"ops": line})
			v, ch = vE2NewSeq() // the old instance may hold a shard mutex
			continue
		}
		out.emit(line, strings.Join(x.obs, ";"))
		x.mon.flush()
		v.onReply = nil
	}
}

func vE2ParseOp(s string) (vE2Op, bool) {
	f := strings.Fields(s)
	if len(f) == 0 {
		return vE2Op{}, false
	}
	switch f[0] {
	case "L", "U":
		if len(f) != 13 {
			return vE2Op{}, false
		}
		n := make([]int, 12)
		for i := 1; i < 12; i++ {
			v, err := strconv.Atoi(f[i])
			if err != nil {
				return vE2Op{}, false
			}
			n[i] = v
		}
		o := vE2Op{vOp: vOp{kind: f[0][0], req: n[1], conn: n[2], flag: n[3], lockId: n[4], key: n[5], tflag: n[6], timeout: n[7], eflag: n[8], expried: n[9], count: n[10], rcount: n[11]}}
		if f[12] != "-" {
			b, err := hex.DecodeString(f[12])
			if err != nil {
				return vE2Op{}, false
			}
			o.frame = b
		}
		return o, true
	case "T", "S", "J":
		return vE2Op{vOp: vOp{kind: f[0][0]}}, true
	case "R":
		if len(f) < 2 {
			return vE2Op{}, false
		}
		return vE2Op{vOp: vOp{kind: 'R', arg: int(f[1][0] - '0')}}, true
	}
	return vE2Op{}, false
}

// mode "engine2-replay": VERIF_REPLAY = file with one `engine2 <now0> <aofTime> op;op;…` line per case, run on the REAL engine
func vEngine2Replay(t *testing.T) {
	out := vOpen("engine2-replay")
	defer out.close()
	vFastPark = os.Getenv("VERIF_FASTPARK") == "1" // one LockDB per line: 40 ms instead of 1.25 s to park its background loops
	fh, err := os.Open(os.Getenv("VERIF_REPLAY"))
	if err != nil {
		t.Fatal(err)
	}
	defer fh.Close()
	sc := bufio.NewScanner(fh)
	sc.Buffer(make([]byte, 1<<20), 1<<26)
	for sc.Scan() {
		line := strings.TrimSpace(sc.Text())
		if !strings.HasPrefix(line, "engine2 ") {
			continue
		}
		parts := strings.SplitN(line, " ", 4)
		if len(parts) < 4 {
			continue
		}
		now0, _ := strconv.ParseInt(parts[1], 10, 64)
		aofTime, _ := strconv.Atoi(parts[2])
		v, ch := vE2NewSeq()
		v.setClock(now0)
		v.db.aofTime = uint8(aofTime)
		g := &vGen{nextReq: 1 << 30, nconn: 3}
		x := &vE2Run{v: v, ch: ch, g: g, r: rand.New(rand.NewSource(1)), out: out, leader: true}
		seen := map[int]bool{}
		var ops []vE2Op
		for _, s := range strings.Split(parts[3], ";") {
			if o, ok := vE2ParseOp(s); ok {
				ops = append(ops, o)
				if (o.kind == 'L' || o.kind == 'U') && !seen[o.key] {
					seen[o.key] = true
					x.keys = append(x.keys, o.key)
				}
			}
		}
		x.mon = vE2NewMonitor(out, x)
		v.base = v.counters()
		x.kc0 = v.base.KeyCount
		v.onReply = func(rp vReply) {
			if rp.data != nil {
				rp.data = append([]byte{}, rp.data...)
			}
			x.replies = append(x.replies, rp)
			x.mon.onReply(rp)
			v.replies = v.replies[:0]
		}
		bad := ""
		done := make(chan struct{})
		go func() {
			defer func() {
				if e := recover(); e != nil {
					bad = fmt.Sprintf("panic: %v", e)
				}
				close(done)
			}()
			for _, o := range ops {
				x.do(o)
			}
			// a recorded sequence ends with its drain + 18 ticks: evaluate the reclamation clauses if nothing is live any more
			live := 0
			for _, key := range x.keys {
				ks := x.keySnap(key)
				live += len(ks.holds) + len(ks.waits)
			}
			if live == 0 && len(ops) > 18 && ops[len(ops)-3].kind == 'T' {
				x.mon.drained()
			}
		}()
		select {
		case <-done:
		case <-time.After(30 * time.Second):
			bad = "hang"
		}
		strs := make([]string, len(x.ops))
		for i, o := range x.ops {
			strs[i] = o.String()
		}
		rl := fmt.Sprintf("engine2 %d %d %s", now0, aofTime, strings.Join(strs, ";"))
		x.mon.line = rl
		if bad != "" {
			kind := strings.TrimSuffix(strings.Fields(bad)[0], ":")
			out.emit(rl, strings.Join(append(x.obs, kind), ";"))
			out.monitor("C13:engine2-"+kind, "the real engine "+bad+" while replaying", map[string]string{"ops": rl})
			continue
		}
		out.emit(rl, strings.Join(x.obs, ";"))
		x.mon.flush()
	}
}

func init() {
	vModes["engine2"] = func(t *testing.T) {
		vEngine2Run(t, "engine2", vEnvInt("VERIF_OPS", 40))
	}
	vModes["engine2-replay"] = vEngine2Replay
}
