package client

// Harness mode "stream" (C09, monitors only): the byte stream a follower reads its leader's records and value blobs from
// (client.Stream: ReadBytes for the 64-byte records, ReadBytesFrame / ReadBytesSize / ReadBytes for the values) must deliver exactly
// the bytes that were written, however the connection chops them up (TCP segmentation, slow links): sizes from 0 to ~20 000 bytes
// — below and above the stream's 4096-byte buffer — under random read schedules.
//   C09:stream-read-differs:<reader>    the bytes returned differ from the bytes sent (or their count does)

import (
	"bytes"
	"fmt"
	"math/rand"
	"net"
	"testing"
	"time"
)

// vChopConn: a connection whose Read hands out the written bytes in chunks of scheduled sizes
type vChopConn struct {
	data  []byte
	sched []int
	i     int
}

func (c *vChopConn) Read(b []byte) (int, error) {
	if len(c.data) == 0 {
		return 0, fmt.Errorf("EOF")
	}
	n := c.sched[c.i%len(c.sched)]
	c.i++
	if n > len(b) {
		n = len(b)
	}
	if n > len(c.data) {
		n = len(c.data)
	}
	copy(b, c.data[:n])
	c.data = c.data[n:]
	return n, nil
}
func (c *vChopConn) Write(b []byte) (int, error)        { return len(b), nil }
func (c *vChopConn) Close() error                       { return nil }
func (c *vChopConn) LocalAddr() net.Addr                { return &net.TCPAddr{} }
func (c *vChopConn) RemoteAddr() net.Addr               { return &net.TCPAddr{} }
func (c *vChopConn) SetDeadline(t time.Time) error      { return nil }
func (c *vChopConn) SetReadDeadline(t time.Time) error  { return nil }
func (c *vChopConn) SetWriteDeadline(t time.Time) error { return nil }

func init() {
	vModes["stream"] = func(t *testing.T) {
		out := vOpen("stream")
		defer out.close()
		seed := int64(vEnvInt("VERIF_SEED", 1))
		r := rand.New(rand.NewSource(seed + 31))
		n := vEnvInt("VERIF_N", 300)
		seen := map[string]int{}
		for it := 0; it < n; it++ {
			// a stream of items: 64-byte records, each possibly followed by a length-prefixed value
			type item struct {
				reader string
				body   []byte
			}
			var items []item
			var wire []byte
			for k := 0; k < 1+r.Intn(5); k++ {
				rec := vRandBytes(r, 64)
				items = append(items, item{"ReadBytes(64)", rec})
				wire = append(wire, rec...)
				if r.Intn(3) != 0 {
					size := []int{0, 1, 7, 100, 4000, 4092, 4093, 4096, 4097, 5000, 8192, 9000, 12289, 20000}[r.Intn(14)] + r.Intn(3)
					val := vRandBytes(r, size)
					switch r.Intn(3) {
					case 0:
						items = append(items, item{"ReadBytesFrame", val})
						wire = append(wire, byte(size), byte(size>>8), byte(size>>16), byte(size>>24))
						wire = append(wire, val...)
					case 1:
						items = append(items, item{"ReadBytesSize", val})
						wire = append(wire, val...)
					default:
						items = append(items, item{"ReadBytes(n)", val})
						wire = append(wire, val...)
					}
				}
			}
			var sched []int
			switch r.Intn(4) {
			case 0:
				sched = []int{1 << 20}
			case 1:
				sched = []int{1 + r.Intn(1500)}
			case 2:
				sched = []int{1460, 1460, 1 + r.Intn(1460)}
			default:
				for j := 0; j < 7; j++ {
					sched = append(sched, 1+r.Intn(5000))
				}
			}
			s := NewStream(&vChopConn{data: append([]byte{}, wire...), sched: sched})
			for idx, itm := range items {
				var got []byte
				var err error
				func() {
					defer func() {
						if e := recover(); e != nil {
							err = fmt.Errorf("panic: %v", e)
						}
					}()
					switch itm.reader {
					case "ReadBytesFrame":
						got, err = s.ReadBytesFrame()
						if err == nil && len(got) >= 4 && len(got) == len(itm.body)+4 {
							got = got[4:] // the frame reader returns the length prefix with the body
						}
					case "ReadBytesSize":
						if len(itm.body) == 0 {
							return
						}
						got, err = s.ReadBytesSize(len(itm.body))
					default:
						got = make([]byte, len(itm.body))
						var m int
						m, err = s.ReadBytes(got)
						got = got[:m]
					}
				}()
				if itm.reader == "ReadBytesSize" && len(itm.body) == 0 {
					continue
				}
				if err != nil || !bytes.Equal(got, itm.body) {
					sig := "C09:stream-read-differs:" + itm.reader
					seen[sig]++
					if seen[sig] <= 3 {
						first := 0
						for first < len(got) && first < len(itm.body) && got[first] == itm.body[first] {
							first++
						}
						out.monitor(sig, fmt.Sprintf("item %d (%s, %d bytes) of a stream chopped into reads of %v: %d bytes returned (err %v), first difference at byte %d", idx, itm.reader, len(itm.body), sched, len(got), err, first),
							map[string]interface{}{"mode": "stream", "seed": seed, "case": it})
					}
					break
				}
				out.stat("stream-item(" + itm.reader + ")")
			}
			out.stat("stream-case")
		}
	}
}
