package protocol

// Harness mode "text", response side: the REAL TextParser.ParseResponse driven the way client.TextClientProtocol.Read
// drives it (one BufferUpdate per read; a finished reply is taken with argsType + GetArgs and Reset), on replies built
// by the real BuildResponse and on generated well-formed RESP replies, under every / many chunkings.
//   C14:response-parse-build            one-buffer parse of BuildResponse output ≠ what was built
//   C14:response-chunking:<cause>       a stream the one-buffer parse accepts parses differently under another chunking
//                                       (cause = where the decisive cut lies: crlf | type-blank | message-text | bulk-length | bulk-data | multi-cut)

import (
	"fmt"
	"math/rand"
	"strings"
)

type vRespReply struct {
	ty   int
	args []string
}

func vTextRParse(chunks [][]byte) (replies []vRespReply, status string) {
	max := 16
	for _, c := range chunks {
		if len(c) > max {
			max = len(c)
		}
	}
	p := NewTextParser(make([]byte, max), make([]byte, 64))
	defer func() {
		if r := recover(); r != nil {
			status = "panic"
		}
	}()
	for _, c := range chunks {
		if len(c) == 0 {
			continue
		}
		copy(p.GetReadBuf(), c)
		p.BufferUpdate(len(c))
		for {
			if err := p.ParseResponse(); err != nil {
				return replies, "err"
			}
			if p.IsParseFinish() {
				replies = append(replies, vRespReply{p.GetArgsType(), append([]string{}, p.GetArgs()...)})
				p.Reset()
			}
			if p.IsBufferEnd() {
				break
			}
		}
	}
	if p.IsParseFinish() {
		return replies, "done"
	}
	return replies, "pending"
}

func vShowRParse(rs []vRespReply, status string) string {
	if len(rs) == 0 {
		return "none;" + status
	}
	s := make([]string, len(rs))
	for i, r := range rs {
		s[i] = fmt.Sprintf("%d:%s", r.ty, vHexList(vStrs2Bytes(r.args)))
	}
	return strings.Join(s, "|") + ";" + status
}

type vRespRun struct {
	out  *vOut
	mon  *vMonLimiter
	seen map[string]bool
	n    int
}

func vRespCause(stream []byte, c int) string {
	prev, next := stream[c-1], stream[c]
	kind := stream[0]
	// the reply the cut lies in: the last reply start at or before c
	for i := 0; i < c; i++ {
		if (i == 0 || stream[i-1] == '\n') && strings.IndexByte("+-$*", stream[i]) >= 0 {
			kind = stream[i]
		}
	}
	switch {
	case next == '\r' || next == '\n' || prev == '\r':
		return "crlf"
	case kind == '-' && (next == ' ' || prev == ' '):
		return "type-blank"
	case kind == '+' || kind == '-':
		return "message-text"
	case prev == '$' || prev == '*' || (prev >= '0' && prev <= '9' && next >= '0' && next <= '9'):
		return "bulk-length"
	}
	return "bulk-data"
}

func (x *vRespRun) one(stream []byte, cuts []int, ref string, monitor bool) {
	chunks := vSplit(stream, cuts)
	op := "textrparse " + vHexList(chunks)
	if len(op) < 400 {
		if x.seen[op] {
			return
		}
		x.seen[op] = true
	}
	rs, st := vTextRParse(chunks)
	obs := vShowRParse(rs, st)
	x.out.emit(op, obs)
	x.n++
	if st == "panic" {
		x.mon.report("C13:text-parser-panics:response", "TextParser.ParseResponse panics on a byte stream a peer can send",
			map[string]interface{}{"stream": vHex(stream), "chunks": vHexList(chunks), "stream_text": fmt.Sprintf("%q", string(stream[:vMinInt(len(stream), 80)]))})
	}
	if monitor && ref != "" && obs != ref {
		cause := "multi-cut"
		for _, c := range cuts {
			if c <= 0 || c >= len(stream) {
				continue
			}
			r1, s1 := vTextRParse(vSplit(stream, []int{c}))
			if vShowRParse(r1, s1) != ref {
				cause = vRespCause(stream, c)
				break
			}
		}
		x.mon.report("C14:response-chunking:"+cause, "a reply stream that the one-buffer parse accepts parses differently when it arrives in other reads",
			map[string]interface{}{"stream": vHex(stream), "stream_text": fmt.Sprintf("%q", string(stream[:vMinInt(len(stream), 80)])), "cuts": cuts, "one_buffer": ref, "chunked": obs})
	}
}

func vMinInt(a, b int) int {
	if a < b {
		return a
	}
	return b
}

func (x *vRespRun) stream(r *rand.Rand, stream []byte, budget int) string {
	rs, st := vTextRParse([][]byte{stream})
	ref := vShowRParse(rs, st)
	x.one(stream, nil, "", false)
	monitor := st == "done" || st == "pending" // the one-buffer parse accepts the stream
	n := len(stream)
	switch {
	case n <= 12:
		for mask := 1; mask < 1<<uint(n-1); mask++ {
			cuts := []int{}
			for i := 1; i < n; i++ {
				if mask&(1<<uint(i-1)) != 0 {
					cuts = append(cuts, i)
				}
			}
			x.one(stream, cuts, ref, monitor)
		}
	case n <= 40 && budget >= 2:
		for a := 1; a < n; a++ {
			x.one(stream, []int{a}, ref, monitor)
			for b := a + 1; b < n; b++ {
				x.one(stream, []int{a, b}, ref, monitor)
			}
		}
		for i := 0; i < 6; i++ {
			x.one(stream, vRandCuts(r, n, 3+r.Intn(n)), ref, monitor)
		}
	default:
		for a := 1; a < n && a < 60; a++ {
			x.one(stream, []int{a}, ref, monitor)
		}
		for i := 0; i < 10; i++ {
			x.one(stream, vRandCuts(r, n, 1+r.Intn(6)), ref, monitor)
		}
		pos := []int{}
		for i, b := range stream {
			if b == '\r' || b == '\n' || b == ' ' {
				pos = append(pos, i, i+1)
			}
		}
		for i := 0; i < 10 && len(pos) > 0; i++ {
			m := map[int]bool{}
			for j := 0; j < 1+r.Intn(4); j++ {
				m[pos[r.Intn(len(pos))]] = true
			}
			cuts := []int{}
			for c := 1; c < n; c++ {
				if m[c] {
					cuts = append(cuts, c)
				}
			}
			x.one(stream, cuts, ref, monitor)
		}
	}
	if n <= 1500 && n > 12 {
		cuts := make([]int, 0, n)
		for i := 1; i < n; i++ {
			cuts = append(cuts, i)
		}
		x.one(stream, cuts, ref, monitor)
	}
	return ref
}

func vRespText(r *rand.Rand, allowBlank bool) string {
	n := []int{0, 0, 1, 2, 3, 5, 8, 20}[r.Intn(8)]
	b := make([]byte, n)
	alpha := "abcXYZ019_-:$*+"
	if allowBlank {
		alpha += "   "
	}
	for i := range b {
		b[i] = alpha[r.Intn(len(alpha))]
	}
	return string(b)
}

func vTextRespCases(r *rand.Rand, out *vOut, mon *vMonLimiter, n int) {
	x := &vRespRun{out: out, mon: mon, seen: map[string]bool{}}
	p := NewTextParser(make([]byte, 16), make([]byte, 16))
	build := func(ok bool, msg string, results []string) []byte {
		b := p.BuildResponse(ok, msg, results)
		res := "()"
		if len(results) > 0 {
			res = vHexList(vStrs2Bytes(results))
		}
		flag := "0"
		if ok {
			flag = "1"
		}
		out.emit(fmt.Sprintf("textresp %s %s %s", flag, vHex([]byte(msg)), res), vHex(b))
		return b
	}
	// parse ∘ build on the real code
	check := func(stream []byte, ty int, want []string) {
		ref := x.stream(r, stream, 2)
		exp := vShowRParse([]vRespReply{{ty, want}}, "done")
		if ref != exp {
			mon.report("C14:response-parse-build", "parsing BuildResponse output does not return what was built",
				map[string]interface{}{"stream": vHex(stream), "stream_text": fmt.Sprintf("%q", string(stream[:vMinInt(len(stream), 80)])), "want": exp, "got": ref})
		}
	}
	// fixed replies: every chunking / every 2-cut
	for _, m := range []string{"OK", "", "PONG", "a", "a b", "queued  twice"} {
		check(build(true, m, nil), 1, []string{m})
	}
	for _, tm := range [][2]string{{"ERR", "unknown command"}, {"ERR", ""}, {"E", "x"}, {"ERR", "a b c"}, {"WRONGTYPE", "Operation against a key"}, {"ERR", " lead"}} {
		msg := tm[0]
		if tm[1] != "" {
			msg += " " + tm[1]
		}
		check(build(false, msg, nil), 2, []string{tm[0], tm[1]})
	}
	for _, rs := range [][]string{{""}, {"a"}, {"ab\r\ncd"}, {"a", "b"}, {"", ""}, {"0", "OK", "LOCK_ID", "00112233445566778899aabbccddeeff"}, {"x", "", "\r\n", "$5"}} {
		ty := 4
		if len(rs) == 1 {
			ty = 3
		}
		check(build(true, "", rs), ty, rs)
	}
	// generated replies and pipelines (built by the real builder); texts without CR / LF, error types without blank
	for it := 0; it < 30+n; it++ {
		var stream []byte
		for k := 1 + r.Intn(3); k > 0; k-- {
			switch r.Intn(4) {
			case 0:
				stream = append(stream, build(true, vRespText(r, true), nil)...)
			case 1:
				t := vRespText(r, false)
				if t == "" {
					t = "ERR"
				}
				m := vRespText(r, true)
				msg := t
				if m != "" {
					msg += " " + m
				}
				stream = append(stream, build(false, msg, nil)...)
			case 2:
				stream = append(stream, build(true, "", []string{string(vRandArg(r, 300))})...)
			default:
				rs := make([]string, 2+r.Intn(4))
				for i := range rs {
					a := vRandArg(r, 200)
					if len(a) > 300 {
						a = a[:300]
					}
					rs[i] = string(a)
				}
				stream = append(stream, build(true, "", rs)...)
			}
		}
		budget := 1
		if it%6 == 0 {
			budget = 2
		}
		x.stream(r, stream, budget)
	}
	// hand-written RESP: accepted-but-odd and malformed replies (monitored only when the one-buffer parse accepts them)
	for _, s := range []string{"+\r\n", "-\r\n", "- \r\n", "-ERR \r\n", "-ERR  two blanks\r\n", "+a\rb\r\n", "+a\r\r\n", "+\rx\r\n", "-E\rR m\rsg\r\r\n", "-ERR\rx\r\n",
		"$0\r\n\r\n", "$-1\r\n", "$-1\r\n\r\n", "*0\r\n", "*-1\r\n", "*1\r\n$1\r\na\r\n", "*2\r\n$1\r\na\r\n$0\r\n\r\n", ":1\r\n", ":-2\r\n", "+OK\n", "+OK\r", "-ERR x\n", "$1\r\na\n", "+OK\r\n+OK\r\n", "-E m\r\n$1\r\nx\r\n+t\r\n",
		"$" + strings.Repeat("0", 129) + "\r\n", "$" + strings.Repeat("5", 200), "*" + strings.Repeat("0", 129) + "\r\n", "*1\r\n$" + strings.Repeat("3", 131) + "\r\n", "*2\r\n$1\r\na\r\n$" + strings.Repeat("1", 129),
		"*1\r\n+OK\r\n", "*1\r\n*1\r\n$1\r\na\r\n", "$2\r\na\r\n", "$3\r\nabc\r\nJUNK", "+OK\r\n\r\n", "!x\r\n", "", "+", "-", "$", "*"} {
		if s == "" {
			continue
		}
		x.stream(r, []byte(s), 2)
	}
	for it := 0; it < n; it++ {
		rs := []string{string(vRandArg(r, 20)), string(vRandArg(r, 20))}
		s := p.BuildResponse(r.Intn(3) != 0, vRespText(r, true), rs[:r.Intn(3)])
		if len(s) > 120 {
			s = s[:120]
		}
		for m := 0; m < 1+r.Intn(2); m++ {
			switch r.Intn(3) {
			case 0:
				s[r.Intn(len(s))] = vTextAlphabet[r.Intn(len(vTextAlphabet))]
			case 1:
				i := r.Intn(len(s))
				s = append(s[:i:i], s[i+1:]...)
			default:
				i := r.Intn(len(s) + 1)
				s = append(s[:i:i], append([]byte{vTextAlphabet[r.Intn(len(vTextAlphabet))]}, s[i:]...)...)
			}
			if len(s) == 0 {
				s = []byte("+")
			}
		}
		x.stream(r, s, 1)
	}
}
