package protocol

// Harness mode "text": the RESP request parser, BuildRequest, key/id normalisation, the text → LockCommand
// converters and the LOCK/UNLOCK result renderer of the protocol package, driven on the REAL code.
// Every case is emitted as (op line for the Lean driver, observation of the real code); the property itself is
// evaluated on the real code by the monitors "C14:…" / "C13:…", independently of the Lean model.

import (
	"crypto/md5"
	"encoding/hex"
	"fmt"
	"math/rand"
	"strings"
	"testing"
)

// ---------------------------------------------------------------- helpers

func vHexList(items [][]byte) string {
	if len(items) == 0 {
		return "()"
	}
	s := make([]string, len(items))
	for i, it := range items {
		s[i] = vHex(it)
	}
	return strings.Join(s, ",")
}

func vStrs2Bytes(ss []string) [][]byte {
	out := make([][]byte, len(ss))
	for i, s := range ss {
		out[i] = []byte(s)
	}
	return out
}

func vPanicClass(r interface{}) string {
	s := fmt.Sprint(r)
	switch {
	case strings.Contains(s, "index out of range"):
		return "index-out-of-range"
	case strings.Contains(s, "slice bounds out of range"):
		return "slice-bounds"
	case strings.Contains(s, "nil pointer"):
		return "nil-pointer"
	}
	return "other"
}

type vMonLimiter struct {
	out  *vOut
	seen map[string]int
}

func (m *vMonLimiter) report(sig, what string, replay interface{}) {
	m.seen[sig]++
	if m.seen[sig] <= 3 {
		m.out.monitor(sig, what, replay)
	}
}

// ---------------------------------------------------------------- parser

// vTextParse drives the real parser exactly the way TextServerProtocol.Process does: one BufferUpdate per chunk,
// ParseRequest until the buffer is consumed, a finished command is taken (GetArgs) and Reset.
func vTextParse(chunks [][]byte) (cmds [][]string, status string) {
	max := 16
	for _, c := range chunks {
		if len(c) > max {
			max = len(c)
		}
	}
	p := NewTextParser(make([]byte, max), make([]byte, 64))
	defer func() {
		if r := recover(); r != nil {
			status = "panic"
		}
	}()
	for _, c := range chunks {
		if len(c) == 0 {
			continue
		}
		copy(p.GetReadBuf(), c)
		p.BufferUpdate(len(c))
		for {
			if err := p.ParseRequest(); err != nil {
				return cmds, "err"
			}
			if p.IsParseFinish() {
				cmds = append(cmds, append([]string{}, p.GetArgs()...))
				p.Reset()
			}
			if p.IsBufferEnd() {
				break
			}
		}
	}
	if p.IsParseFinish() {
		return cmds, "done"
	}
	return cmds, "pending"
}

func vShowParse(cmds [][]string, status string) string {
	if len(cmds) == 0 {
		return "none;" + status
	}
	s := make([]string, len(cmds))
	for i, c := range cmds {
		s[i] = vHexList(vStrs2Bytes(c))
	}
	return strings.Join(s, "|") + ";" + status
}

func vSplit(stream []byte, cuts []int) [][]byte {
	out := [][]byte{}
	prev := 0
	for _, c := range cuts {
		if c > prev && c < len(stream) {
			out = append(out, stream[prev:c])
			prev = c
		}
	}
	return append(out, stream[prev:])
}

func vRandCuts(r *rand.Rand, n, k int) []int {
	if n < 2 {
		return nil
	}
	m := map[int]bool{}
	for i := 0; i < k; i++ {
		m[1+r.Intn(n-1)] = true
	}
	cuts := []int{}
	for i := 1; i < n; i++ {
		if m[i] {
			cuts = append(cuts, i)
		}
	}
	return cuts
}

type vParseRun struct {
	out  *vOut
	mon  *vMonLimiter
	seen map[string]bool
}

// one (stream, chunking) case; ref = the single-chunk observation ("" = do not monitor)
func (pr *vParseRun) one(stream []byte, cuts []int, ref string, wellFormed bool) string {
	chunks := vSplit(stream, cuts)
	op := "textparse " + vHexList(chunks)
	if len(op) < 400 {
		if pr.seen[op] {
			return ""
		}
		pr.seen[op] = true
	}
	cmds, st := vTextParse(chunks)
	obs := vShowParse(cmds, st)
	pr.out.emit(op, obs)
	if st == "panic" {
		// C13: no byte stream may crash the request parser (the connection goroutine has no recover: the process would die)
		pr.mon.report("C13:text-parser-panics:request", "TextParser.ParseRequest panics on a byte stream a client can send",
			map[string]interface{}{"stream": vHex(stream), "chunks": vHexList(chunks), "stream_text": fmt.Sprintf("%q", string(stream[:vMinInt(len(stream), 80)]))})
	}
	if wellFormed && ref != "" && obs != ref {
		pr.mon.report("C14:chunking", "the same well-formed request stream parses differently under two chunkings",
			map[string]interface{}{"stream": vHex(stream), "chunking_a": "single chunk", "result_a": ref, "chunking_b": vHexList(chunks), "result_b": obs})
	}
	return obs
}

// all chunkings (short streams), all 1-/2-cut chunkings (medium), random + CR/LF-adjacent cuts (long)
func (pr *vParseRun) stream(r *rand.Rand, stream []byte, expect [][]string, wellFormed bool, budget int) {
	ref := pr.one(stream, nil, "", wellFormed)
	if ref == "" {
		cmds, st := vTextParse([][]byte{stream})
		ref = vShowParse(cmds, st)
	}
	if wellFormed && expect != nil {
		want := vShowParse(expect, "done")
		if ref != want {
			pr.mon.report("C14:parse-build", "parsing BuildRequest output does not return the original arguments",
				map[string]interface{}{"stream": vHex(stream), "want": want, "got": ref})
		}
	}
	n := len(stream)
	switch {
	case n <= 13:
		for mask := 1; mask < 1<<uint(n-1); mask++ {
			cuts := []int{}
			for i := 1; i < n; i++ {
				if mask&(1<<uint(i-1)) != 0 {
					cuts = append(cuts, i)
				}
			}
			pr.one(stream, cuts, ref, wellFormed)
		}
	case n <= 36 && budget >= 2:
		for a := 1; a < n; a++ {
			pr.one(stream, []int{a}, ref, wellFormed)
			for b := a + 1; b < n; b++ {
				pr.one(stream, []int{a, b}, ref, wellFormed)
			}
		}
		for i := 0; i < 8; i++ {
			pr.one(stream, vRandCuts(r, n, 3+r.Intn(n)), ref, wellFormed)
		}
	default:
		k := 6
		if budget >= 2 {
			k = 16
		}
		if n > 6000 { // the model's per-byte append is quadratic in the argument length: few chunkings for huge streams
			k = 2
		}
		for i := 0; i < k; i++ {
			pr.one(stream, vRandCuts(r, n, 1+r.Intn(6)), ref, wellFormed)
		}
		// cuts next to CR / LF bytes
		pos := []int{}
		for i, b := range stream {
			if b == '\r' || b == '\n' {
				pos = append(pos, i, i+1)
			}
		}
		for i := 0; i < k && len(pos) > 0; i++ {
			m := map[int]bool{}
			for j := 0; j < 1+r.Intn(4); j++ {
				m[pos[r.Intn(len(pos))]] = true
			}
			if r.Intn(2) == 0 {
				m[1+r.Intn(n-1)] = true
			}
			cuts := []int{}
			for c := 1; c < n; c++ {
				if m[c] {
					cuts = append(cuts, c)
				}
			}
			pr.one(stream, cuts, ref, wellFormed)
		}
		if n <= 1500 {
			every := [][]byte{}
			for i := 0; i < n; i++ {
				every = append(every, stream[i:i+1])
			}
			cmds, st := vTextParse(every)
			obs := vShowParse(cmds, st)
			pr.out.emit("textparse "+vHexList(every), obs)
			if wellFormed && obs != ref {
				pr.mon.report("C14:chunking", "the same well-formed request stream parses differently under two chunkings",
					map[string]interface{}{"stream": vHex(stream), "chunking_a": "single chunk", "result_a": ref, "chunking_b": "one byte per chunk", "result_b": obs})
			}
		}
	}
}

var vTextAlphabet = []byte("\r\n\x00$*+-:0123456789abXY \xff\x80")

func vRandArg(r *rand.Rand, big int) []byte {
	var n int
	switch k := r.Intn(20); {
	case k < 4:
		n = 0
	case k < 8:
		n = 1 + r.Intn(3)
	case k < 16:
		n = r.Intn(24)
	case k < 19:
		n = 100 + r.Intn(1200)
	default:
		n = big
	}
	b := make([]byte, n)
	switch r.Intn(3) {
	case 0:
		for i := range b {
			b[i] = vTextAlphabet[r.Intn(len(vTextAlphabet))]
		}
	case 1:
		r.Read(b)
	default:
		copy(b, vRandBytes(r, n))
	}
	return b
}

func vBuild(args [][]byte) []byte {
	p := NewTextParser(make([]byte, 16), make([]byte, 16))
	ss := make([]string, len(args))
	for i, a := range args {
		ss[i] = string(a)
	}
	return p.BuildRequest(ss)
}

func vTextParserCases(r *rand.Rand, out *vOut, mon *vMonLimiter, n int, thorough bool) {
	pr := &vParseRun{out, mon, map[string]bool{}}
	toStrs := func(args [][]byte) []string {
		s := make([]string, len(args))
		for i, a := range args {
			s[i] = string(a)
		}
		return s
	}
	build := func(args [][]byte) []byte {
		b := vBuild(args)
		out.emit("textbuild "+vHexList(args), vHex(b))
		return b
	}
	// 1. fixed small lists: every chunking
	fixed := [][]string{{""}, {"a"}, {"ab"}, {"\n"}, {"\r"}, {"\r\n"}, {"abc"}, {"", ""}, {"a", ""}, {"", "a"}, {"$"}, {"*"}, {"\x00"},
		{"a", "b"}, {"ab", "c"}, {"a", "bc"}, {"\n\n"}, {"\r\n", ""}, {"abcd"}, {"a\nb"}, {"a\r\nb"}, {"\r\n\r\n"}, {"", "", ""}, {"x", "y", "z"},
		{"LOCK", "k"}, {"SET", "k", "v"}, {"abcdefghij"}, {"abcdefghij", "klmnopqrstuvw"}}
	for _, f := range fixed {
		args := vStrs2Bytes(f)
		pr.stream(r, build(args), [][]string{f}, true, 2)
	}
	// 2. zero arguments: `*0\r\n` (never completes — observation only)
	pr.stream(r, build(nil), nil, false, 2)
	// 3. random lists, pipelines
	big := 3000
	for it := 0; it < n; it++ {
		if thorough && it == 0 {
			big = 65536
		} else {
			big = 2000 + r.Intn(2000)
		}
		k := 1 + r.Intn(3)
		if r.Intn(5) == 0 {
			k = 1 + r.Intn(8)
		}
		var stream []byte
		var expect [][]string
		ncmd := 1
		if r.Intn(4) == 0 {
			ncmd = 2 + r.Intn(3)
		}
		for c := 0; c < ncmd; c++ {
			args := make([][]byte, k)
			for i := range args {
				args[i] = vRandArg(r, big)
			}
			if big == 65536 && c == 0 {
				args[0] = make([]byte, 65536)
				r.Read(args[0])
			}
			stream = append(stream, build(args)...)
			expect = append(expect, toStrs(args))
			k = 1 + r.Intn(3)
		}
		budget := 1
		if it%8 == 0 {
			budget = 2
		}
		pr.stream(r, stream, expect, true, budget)
	}
	// 4. malformed streams (observations only: outside "its own BuildRequest output")
	bad := []string{"*0\r\n", "*1\n$1\na\n", "\n", "*1\r\n$1\r\na\n", "*1\r\n$1\r\na\r", "*-1\r\n$-1\r\n\r\n", "*0\r\n$-1\r\n\r\n", "*1\r\n$+1\r\na\r\n", "*+1\r\n$1\r\na\r\n",
		"*\r\n", "*1\r\n$\r\n", "*1\r1\r\n$1\r\na\r\n$1\r\nb\r\n", "*99999999999999999999\r\n", "*9223372036854775807\r\n$0\r\n\r\n", "*1\r\n$9223372036854775808\r\n",
		"*" + strings.Repeat("0", 127) + "1\r\n$1\r\na\r\n", "*" + strings.Repeat("0", 128) + "1\r\n$1\r\na\r\n", "*1\r\n$" + strings.Repeat("0", 128) + "\r\n\r\n",
		// the 128-byte digit accumulator: 129 and more bytes without a line end, at the count line and at a length line (first and later argument)
		"*1\r\n$" + strings.Repeat("0", 129) + "\r\n\r\n", "*1\r\n$" + strings.Repeat("7", 130), "*2\r\n$3\r\nGET\r\n$" + strings.Repeat("1", 129), "*2\r\n$3\r\nGET\r\n$1\r" + strings.Repeat("x", 200) + "\r\n",
		"*" + strings.Repeat("9", 129), "*" + strings.Repeat("9", 300) + "\r\n$1\r\na\r\n",
		"+OK\r\n", "$1\r\na\r\n", "*1\r\n*1\r\n", "*1\r\n$1\r\nabc\r\n", "*1\r\n$3\r\na\r\n\r\n", "*2\r\n$1\r\na\r\n", "*1\r\n$1\r\naJUNK\n", "*1\r\n$1\r\naJUNK\r\n*1\r\n$1\r\nb\r\n",
		"*1\r\n$0\r\n\n", "*1\r\n$0\r\nx\r\n", "*1 \r\n$1\r\na\r\n", "*0x1\r\n", "*1_0\r\n", "*1\r\n$-0\r\n\r\n", "*-0\r\n$0\r\n\r\n", "*1\r\n$1\r\n\n\r\n", "*1\r\n$2\r\n\r\n\r\n"}
	for _, s := range bad {
		pr.stream(r, []byte(s), nil, false, 2)
	}
	for it := 0; it < n; it++ {
		k := 1 + r.Intn(3)
		args := make([][]byte, k)
		for i := range args {
			args[i] = vRandArg(r, 40)
			if len(args[i]) > 40 {
				args[i] = args[i][:40]
			}
		}
		s := vBuild(args)
		for m := 0; m < 1+r.Intn(3); m++ {
			switch r.Intn(4) {
			case 0:
				s[r.Intn(len(s))] = vTextAlphabet[r.Intn(len(vTextAlphabet))]
			case 1:
				i := r.Intn(len(s))
				s = append(s[:i:i], s[i+1:]...)
			case 2:
				i := r.Intn(len(s) + 1)
				s = append(s[:i:i], append([]byte{vTextAlphabet[r.Intn(len(vTextAlphabet))]}, s[i:]...)...)
			default:
				s = s[:1+r.Intn(len(s))]
			}
			if len(s) == 0 {
				s = []byte("*")
			}
		}
		pr.stream(r, s, nil, false, 1)
	}
}

// ---------------------------------------------------------------- normalisation

// the documented rule, written independently (crypto/md5, encoding/hex)
func vDocRule(s []byte) [16]byte {
	var out [16]byte
	switch {
	case len(s) <= 16:
		copy(out[16-len(s):], s)
	case len(s) == 32:
		if v, err := hex.DecodeString(string(s)); err == nil {
			copy(out[:], v)
		} else {
			out = md5.Sum(s)
		}
	default:
		out = md5.Sum(s)
	}
	return out
}

func vTextNormCases(r *rand.Rand, out *vOut, mon *vMonLimiter, n int) {
	conv := NewTextCommandConverter()
	reps := 1 + n/200
	for L := 0; L <= 64; L++ {
		for rep := 0; rep < reps; rep++ {
			for variant := 0; variant < 7; variant++ {
				b := make([]byte, L)
				switch variant {
				case 0:
					r.Read(b)
				case 1:
					for i := range b {
						b[i] = "0123456789abcdef"[r.Intn(16)]
					}
				case 2:
					for i := range b {
						b[i] = "0123456789ABCDEF"[r.Intn(16)]
					}
				case 3:
					for i := range b {
						b[i] = "0123456789abcdefABCDEF"[r.Intn(22)]
					}
				case 4: // hex with one non-hex character
					for i := range b {
						b[i] = "0123456789abcdef"[r.Intn(16)]
					}
					if L > 0 {
						b[r.Intn(L)] = "gG/:@`xz \x00"[r.Intn(10)]
					}
				case 5:
					for i := range b {
						b[i] = byte('a' + r.Intn(26))
					}
				default:
					copy(b, vRandBytes(r, L))
				}
				want := vDocRule(b)
				func() {
					obs := ""
					defer func() {
						if rec := recover(); rec != nil {
							obs = "panic"
							mon.report("C14:normalisation", "ConvertString2LockKey panics", map[string]interface{}{"input": vHex(b)})
						}
						out.emit("lockkey "+vHex(b), obs)
					}()
					got := ConvertString2LockKey(string(b))
					obs = vHex(got[:])
					if got != want {
						mon.report("C14:normalisation", "ConvertString2LockKey differs from the documented rule (<=16 left-padded, 32 hex decoded, else MD5)",
							map[string]interface{}{"input": vHex(b), "got": obs, "want": vHex(want[:])})
					}
				}()
				func() {
					obs := ""
					defer func() {
						if rec := recover(); rec != nil {
							obs = "panic"
							mon.report("C14:normalisation", "ConvertArgId2LockId panics", map[string]interface{}{"input": vHex(b)})
						}
						out.emit("lockid "+vHex(b), obs)
					}()
					got := [16]byte{0xaa, 0xaa, 0xaa, 0xaa, 0xaa, 0xaa, 0xaa, 0xaa, 0xaa, 0xaa, 0xaa, 0xaa, 0xaa, 0xaa, 0xaa, 0xaa}
					conv.ConvertArgId2LockId(string(b), &got)
					obs = vHex(got[:])
					if got != want {
						mon.report("C14:normalisation", "ConvertArgId2LockId differs from the documented rule (<=16 left-padded, 32 hex decoded, else MD5)",
							map[string]interface{}{"input": vHex(b), "got": obs, "want": vHex(want[:])})
					}
				}()
			}
		}
	}
}

// ---------------------------------------------------------------- converters

var vProtoLockId = [16]byte{0xe1, 0x5c, 0x07, 0x93, 0x3b, 0xd2, 0x4e, 0x88, 0x19, 0xa6, 0x70, 0x0f, 0xc4, 0x2d, 0x95, 0x6a}

type vTextProto struct {
	db      uint8
	timeout uint16
	parser  *TextParser
}

func (p *vTextProto) GetDBId() uint8                       { return p.db }
func (p *vTextProto) GetLockId() [16]byte                  { return vProtoLockId }
func (p *vTextProto) GetTimeout() uint16                   { return p.timeout }
func (p *vTextProto) GetLockCommand() *LockCommand         { return &LockCommand{} }
func (p *vTextProto) FreeLockCommand(_ *LockCommand) error { return nil }
func (p *vTextProto) GetParser() *TextParser               { return p.parser }

type vCapStream struct{ buf []byte }

func (s *vCapStream) ReadBytes(b []byte) (int, error) { return 0, nil }
func (s *vCapStream) Read(b []byte) (int, error)      { return 0, nil }
func (s *vCapStream) WriteBytes(b []byte) error       { s.buf = append(s.buf, b...); return nil }
func (s *vCapStream) Write(b []byte) (int, error)     { s.buf = append(s.buf, b...); return len(b), nil }
func (s *vCapStream) Close() error                    { return nil }

func vShowHdr(c, c2 *LockCommand) string {
	id := vHex(c.LockId[:])
	switch {
	case c.LockId == c.RequestId:
		id = "req"
	case c2 != nil && c.LockId != c2.LockId:
		id = "gen"
	case c.LockId == vProtoLockId:
		id = "proto"
	}
	return fmt.Sprintf("ct=%d f=%d db=%d id=%s key=%s tf=%d t=%d ef=%d e=%d c=%d rc=%d", c.CommandType, c.Flag, c.DbId, id, vHex(c.LockKey[:]),
		c.TimeoutFlag, c.Timeout, c.ExpriedFlag, c.Expried, c.Count, c.Rcount)
}

func vShowData(raw, raw2 []byte) string {
	if raw == nil {
		return "nil"
	}
	if len(raw) >= 70 && raw[4]&0x3f == LOCK_DATA_COMMAND_TYPE_EXECUTE {
		sub, sub2 := &LockCommand{}, &LockCommand{}
		_ = sub.Decode(raw[6:70])
		var s2 *LockCommand
		var r2 []byte
		if len(raw2) >= 70 {
			_ = sub2.Decode(raw2[6:70])
			s2 = sub2
			r2 = raw2[70:]
		}
		var subRaw []byte
		if len(raw) > 70 {
			subRaw = raw[70:]
			if len(r2) == 0 {
				r2 = nil
			}
		}
		return fmt.Sprintf("x%d(%s d=%s)", raw[4]>>6, vShowHdr(sub, s2), vShowData(subRaw, r2))
	}
	return vHex(raw)
}

func vErrClass(err error) string {
	s := err.Error()
	s = strings.TrimPrefix(s, "Command Parse ")
	s = strings.TrimSuffix(s, " Error")
	return "err:" + strings.ReplaceAll(s, " ", "_")
}

type vConvFn func(p ITextProtocol, args []string) (*LockCommand, WriteTextCommandResultFunc, error)

// vConvert runs a converter twice (random ids are recognised by comparing the two runs) under recover.
func vConvert(fn vConvFn, proto *vTextProto, args []string, classOnly bool) (obs string, cmd *LockCommand, panicClass string) {
	defer func() {
		if r := recover(); r != nil {
			obs, cmd, panicClass = "panic", nil, vPanicClass(r)
		}
	}()
	c1, _, err := fn(proto, args)
	if err != nil {
		return vErrClass(err), nil, ""
	}
	c2, _, err2 := fn(proto, args)
	if err2 != nil {
		return "nondeterministic", nil, ""
	}
	if classOnly {
		return "ok", c1, ""
	}
	var d1, d2 []byte
	if c1.Data != nil {
		d1 = c1.Data.Data
	}
	if c2.Data != nil {
		d2 = c2.Data.Data
	}
	return "ok " + vShowHdr(c1, c2) + " d=" + vShowData(d1, d2), c1, ""
}

var vNumTokens = []string{"0", "1", "2", "5", "10", "15", "60", "120", "255", "256", "257", "3000", "3001", "65535", "65536", "65537", "65595", "65580", "131072", "3932100", "3932160",
	"65535000", "65535001", "65580000", "65581000", "120000000", "4294967295", "4294967296", "9223372036854775807", "9223372036854775808", "-1", "-2", "-255", "-256", "-65536", "-65537",
	"-9223372036854775808", "-9223372036854775809", "+5", "+0", "-0", "007", "", "abc", "1a", "1_0", " 1", "1 ", "0x10", "1e3", "1.5", "--1", "+-1", "+", "-",
	"100000000000000000000000000000", "00000000000000000000000000000000001"}

var vLockKeywords = []string{"LOCK_ID", "FLAG", "TIMEOUT", "EXPRIED", "COUNT", "RCOUNT", "WILL", "SET", "UNSET", "INCR", "APPEND", "SHIFT", "EXECUTE", "PUSH", "POP", "FOO", "DATA", ""}
var vFlagKeywords = []string{"EX", "PX", "TX", "PTX", "NX", "XX", "ACK", "NAOF"}

func vCase(r *rand.Rand, s string) string {
	switch r.Intn(6) {
	case 0:
		return strings.ToLower(s)
	case 1:
		b := []byte(s)
		for i := range b {
			if r.Intn(2) == 0 && b[i] >= 'A' && b[i] <= 'Z' {
				b[i] += 32
			}
		}
		return string(b)
	}
	return s
}

func vRandKeyStr(r *rand.Rand) string {
	switch r.Intn(8) {
	case 0:
		return ""
	case 1:
		return string(vRandBytes(r, 16))
	case 2:
		b := make([]byte, 32)
		for i := range b {
			b[i] = "0123456789abcdefABCDEF"[r.Intn(22)]
		}
		return string(b)
	case 3:
		return string(vRandBytes(r, 17+r.Intn(40)))
	case 4:
		return string(vRandBytes(r, 32))
	}
	b := make([]byte, 1+r.Intn(12))
	for i := range b {
		b[i] = byte('a' + r.Intn(26))
	}
	return string(b)
}

func vRandToken(r *rand.Rand) string {
	switch r.Intn(10) {
	case 0, 1, 2:
		return vNumTokens[r.Intn(len(vNumTokens))]
	case 3, 4:
		return vCase(r, vFlagKeywords[r.Intn(len(vFlagKeywords))])
	case 5:
		return vCase(r, vLockKeywords[r.Intn(len(vLockKeywords))])
	case 6:
		return fmt.Sprint(r.Int63n(1 << uint(1+r.Intn(40))))
	}
	return vRandKeyStr(r)
}

func vLockValueFor(r *rand.Rand, kw string, depth int) string {
	switch strings.ToUpper(kw) {
	case "LOCK_ID":
		return vRandKeyStr(r)
	case "SET", "APPEND", "PUSH":
		return string(vRandArg(r, 50))
	case "EXECUTE":
		return vCase(r, []string{"UNLOCK", "TIMEOUT", "EXPRIED", "CURRENT", "x"}[r.Intn(5)])
	}
	if r.Intn(3) == 0 {
		return vNumTokens[r.Intn(len(vNumTokens))]
	}
	return fmt.Sprint(r.Int63n(1 << uint(1+r.Intn(34))))
}

func vTextLockCases(r *rand.Rand, out *vOut, mon *vMonLimiter, n int) {
	conv := NewTextCommandConverter()
	run := func(args []string) {
		proto := &vTextProto{uint8(r.Intn(4)), uint16(r.Intn(100)), nil}
		if r.Intn(10) == 0 {
			proto.db = 255
		}
		obs, _, pc := vConvert(conv.ConvertTextLockAndUnLockCommand, proto, args, false)
		out.emit(fmt.Sprintf("textlock %d %d %s", proto.db, proto.timeout, vHexList(vStrs2Bytes(args))), obs)
		if obs == "panic" {
			mon.report("C13:text-convert-panic:LOCK:"+pc, "ConvertTextLockAndUnLockCommand panics on a client-supplied argument list",
				map[string]interface{}{"args": args, "args_hex": vHexList(vStrs2Bytes(args))})
		}
	}
	names := []string{"LOCK", "UNLOCK", "PUSH", "lock", "unLock", "Push", "FOO", ""}
	// every length 0..8, keywords in odd and even positions
	for L := 0; L <= 8; L++ {
		for rep := 0; rep < 6+n/40; rep++ {
			args := make([]string, L)
			for i := range args {
				switch {
				case i == 0:
					args[i] = names[r.Intn(len(names))]
				case r.Intn(2) == 0:
					args[i] = vCase(r, vLockKeywords[r.Intn(len(vLockKeywords))])
				default:
					args[i] = vRandToken(r)
				}
			}
			run(args)
		}
	}
	// structured: name key (kw value)*
	for it := 0; it < 4*n; it++ {
		args := []string{names[r.Intn(len(names))], vRandKeyStr(r)}
		for k := r.Intn(6); k > 0; k-- {
			kw := vCase(r, vLockKeywords[r.Intn(len(vLockKeywords))])
			args = append(args, kw, vLockValueFor(r, kw, 0))
		}
		run(args)
	}
	// every keyword × every number token
	for _, kw := range vLockKeywords {
		for _, v := range vNumTokens {
			run([]string{"LOCK", "k", kw, v})
		}
	}
	// text_eq_binary on the real code: clean keyword values must arrive as the binary fields (COUNT/RCOUNT −1)
	for it := 0; it < n; it++ {
		key, id := vRandKeyStr(r), vRandKeyStr(r)
		t, e := r.Int63n(1<<32), r.Int63n(1<<32)
		c, rc, f := 1+r.Intn(65535), 1+r.Intn(255), r.Intn(256)
		name := []string{"LOCK", "UNLOCK"}[r.Intn(2)]
		args := []string{name, key, "LOCK_ID", id, "TIMEOUT", fmt.Sprint(t), "EXPRIED", fmt.Sprint(e), "COUNT", fmt.Sprint(c), "RCOUNT", fmt.Sprint(rc), "FLAG", fmt.Sprint(f)}
		proto := &vTextProto{uint8(r.Intn(4)), 5, nil}
		obs, cmd, pc := vConvert(conv.ConvertTextLockAndUnLockCommand, proto, args, false)
		out.emit(fmt.Sprintf("textlock %d %d %s", proto.db, proto.timeout, vHexList(vStrs2Bytes(args))), obs)
		if obs == "panic" {
			mon.report("C13:text-convert-panic:LOCK:"+pc, "ConvertTextLockAndUnLockCommand panics", map[string]interface{}{"args": args})
			continue
		}
		ct := uint8(COMMAND_LOCK)
		if name == "UNLOCK" {
			ct = COMMAND_UNLOCK
		}
		okEq := cmd != nil && cmd.CommandType == ct && cmd.Flag == uint8(f) && cmd.DbId == proto.db && cmd.LockKey == vDocRule([]byte(key)) && cmd.LockId == vDocRule([]byte(id)) &&
			cmd.Timeout == uint16(t&0xffff) && cmd.TimeoutFlag == uint16(t>>16) && cmd.Expried == uint16(e&0xffff) && cmd.ExpriedFlag == uint16(e>>16) &&
			cmd.Count == uint16(c-1) && cmd.Rcount == uint8(rc-1)
		if okEq {
			// and the binary frame of that command decodes to the same fields
			buf := make([]byte, 64)
			back := &LockCommand{}
			if cmd.Encode(buf) != nil || back.Decode(buf) != nil || back.LockKey != cmd.LockKey || back.LockId != cmd.LockId || back.Timeout != cmd.Timeout || back.TimeoutFlag != cmd.TimeoutFlag ||
				back.Expried != cmd.Expried || back.ExpriedFlag != cmd.ExpriedFlag || back.Count != cmd.Count || back.Rcount != cmd.Rcount || back.Flag != cmd.Flag || back.CommandType != cmd.CommandType {
				okEq = false
			}
		}
		if !okEq {
			mon.report("C14:text-eq-binary", "a text LOCK/UNLOCK does not carry its keyword values into the binary command fields", map[string]interface{}{"args": args, "got": obs})
		}
	}
}

var vKeyOpNames = []string{"DEL", "SET", "SETEX", "PSETEX", "SETNX", "APPEND", "GETSET", "INCR", "INCRBY", "DECR", "DECRBY", "EXPIRE", "PEXPIRE", "PEXPIREAT", "PERSIST",
	"GET", "STRLEN", "EXISTS", "TYPE", "DUMP", "LOCK", "UNLOCK", "EXPIREAT", "NOSUCH"}

func vTextKeyOpCases(r *rand.Rand, out *vOut, mon *vMonLimiter, n int) {
	conv := NewTextCommandConverter()
	run := func(args []string) {
		proto := &vTextProto{uint8(r.Intn(3)), uint16(r.Intn(50)), nil}
		name := strings.ToUpper(args[0])
		classOnly := name == "PEXPIREAT"
		obs, _, pc := vConvert(conv.ConvertTextKeyOperateValueCommand, proto, args, classOnly)
		opn := "textconv"
		if classOnly {
			opn = "textconvc"
		}
		out.emit(fmt.Sprintf("%s %d %d %s", opn, proto.db, proto.timeout, vHexList(vStrs2Bytes(args))), obs)
		if obs == "panic" {
			mon.report("C13:text-convert-panic:"+name+":"+pc, "a Redis-style text command converter panics on a client-supplied argument list",
				map[string]interface{}{"args": args, "args_hex": vHexList(vStrs2Bytes(args))})
		}
	}
	for _, name := range vKeyOpNames {
		// all short keyword/number patterns
		toks := []string{"k", "10", "EX", "PX", "TX", "PTX", "NX", "XX", "x"}
		run([]string{name})
		for _, a := range toks {
			run([]string{name, a})
			for _, b := range toks {
				run([]string{name, a, b})
				run([]string{name, "k", a, b})
			}
		}
		for _, a := range toks {
			for _, b := range toks {
				run([]string{name, "k", "7", "v", a, b})
				run([]string{name, "k", "v", a, b, "3"})
			}
			run([]string{name, "k", "1", "x", a})
		}
		for _, kw := range vFlagKeywords {
			for _, v := range vNumTokens {
				run([]string{name, "key", "5", kw, v})
				run([]string{name, "key", "5", "v", kw, v})
				run([]string{name, "key", v})
				run([]string{name, "key", v, "val"})
			}
		}
		// every length 1..8 with random tokens
		for L := 1; L <= 8; L++ {
			for rep := 0; rep < 4+n/25; rep++ {
				args := make([]string, L)
				args[0] = vCase(r, name)
				for i := 1; i < L; i++ {
					args[i] = vRandToken(r)
				}
				run(args)
			}
		}
	}
}

// ---------------------------------------------------------------- LOCK/UNLOCK result renderer

func vTextResultCases(r *rand.Rand, out *vOut, mon *vMonLimiter, n int) {
	conv := NewTextCommandConverter()
	for rep := 0; rep < 2+n/50; rep++ {
		for code := 0; code <= 15; code++ {
			for dv := 0; dv < 3; dv++ {
				res := &LockResultCommand{}
				res.Result = uint8(code)
				copy(res.LockId[:], vRandBytes(r, 16))
				res.Lcount, res.Count, res.Lrcount, res.Rcount = uint16(r.Intn(65536)), uint16(r.Intn(65536)), uint8(r.Intn(256)), uint8(r.Intn(256))
				if rep == 0 {
					res.Count, res.Rcount = 65535, 255
				}
				dataTok := "nil"
				switch dv {
				case 1:
					res.Flag = UNLOCK_FLAG_CONTAINS_DATA
					s := vRandArg(r, 30)
					res.Data = NewLockResultCommandDataFromBytes(s, 0, LOCK_DATA_COMMAND_TYPE_SET, 0)
					dataTok = vHex(s)
				case 2:
					res.Flag = uint8(r.Intn(256)) &^ UNLOCK_FLAG_CONTAINS_DATA
				}
				op := fmt.Sprintf("textresult %d %d %s %d %d %d %d %s", code, res.Flag, vHex(res.LockId[:]), res.Lcount, res.Count, res.Lrcount, res.Rcount, dataTok)
				obs := ""
				func() {
					defer func() {
						if rec := recover(); rec != nil {
							obs = "panic"
							if code <= 12 {
								mon.report(fmt.Sprintf("C14:result-rendering:%d", code), "the text LOCK/UNLOCK result renderer panics for a defined result code ("+vPanicClass(rec)+")",
									map[string]interface{}{"result": code, "op": op})
							}
						}
					}()
					st := &vCapStream{}
					proto := &vTextProto{0, 0, NewTextParser(make([]byte, 1024), make([]byte, 1024))}
					if err := conv.WriteTextLockAndUnLockCommandResult(proto, st, res); err != nil {
						obs = "err"
						return
					}
					obs = vHex(st.buf)
				}()
				out.emit(op, obs)
			}
		}
	}
}

func init() {
	vModes["text"] = func(t *testing.T) {
		seed := int64(vEnvInt("VERIF_SEED", 1))
		n := vEnvInt("VERIF_N", 200)
		thorough := vEnvInt("VERIF_THOROUGH", 0) != 0
		out := vOpen("text")
		defer out.close()
		mon := &vMonLimiter{out, map[string]int{}}
		vTextParserCases(rand.New(rand.NewSource(seed)), out, mon, n, thorough)
		vTextNormCases(rand.New(rand.NewSource(seed+1)), out, mon, n)
		vTextLockCases(rand.New(rand.NewSource(seed+2)), out, mon, n)
		vTextKeyOpCases(rand.New(rand.NewSource(seed+3)), out, mon, n)
		vTextResultCases(rand.New(rand.NewSource(seed+4)), out, mon, n)
		vTextRespCases(rand.New(rand.NewSource(seed+5)), out, mon, n)
	}
}
