package protocol

import (
	"math/rand"
	"testing"
)

var vProtoTypes = map[string]func() interface{}{
	"Command": func() interface{} { return &Command{} }, "ResultCommand": func() interface{} { return &ResultCommand{} },
	"InitCommand": func() interface{} { return &InitCommand{} }, "InitResultCommand": func() interface{} { return &InitResultCommand{} },
	"LockCommand": func() interface{} { return &LockCommand{} }, "LockResultCommand": func() interface{} { return &LockResultCommand{} },
	"StateCommand": func() interface{} { return &StateCommand{} }, "StateResultCommand": func() interface{} { return &StateResultCommand{} },
	"AdminCommand": func() interface{} { return &AdminCommand{} }, "AdminResultCommand": func() interface{} { return &AdminResultCommand{} },
	"PingCommand": func() interface{} { return &PingCommand{} }, "PingResultCommand": func() interface{} { return &PingResultCommand{} },
	"QuitCommand": func() interface{} { return &QuitCommand{} }, "QuitResultCommand": func() interface{} { return &QuitResultCommand{} },
	"CallCommand": func() interface{} { return &CallCommand{} }, "CallResultCommand": func() interface{} { return &CallResultCommand{} },
	"LeaderCommand": func() interface{} { return &LeaderCommand{} }, "LeaderResultCommand": func() interface{} { return &LeaderResultCommand{} },
	"SubscribeCommand": func() interface{} { return &SubscribeCommand{} }, "SubscribeResultCommand": func() interface{} { return &SubscribeResultCommand{} },
}

func init() {
	vModes["codec"] = func(t *testing.T) {
		facts := vLoadFacts()
		r := rand.New(rand.NewSource(int64(vEnvInt("VERIF_SEED", 1))))
		n := vEnvInt("VERIF_N", 200)
		out := vOpen("codec")
		defer out.close()
		for it := 0; it < n; it++ {
			for i := range facts.Layouts {
				L := &facts.Layouts[i]
				mk, ok := vProtoTypes[L.Name]
				if !ok {
					continue
				}
				vCodecCase(r, out, L, func() *vCodec { return vReflectCodec(mk()) })
			}
		}
	}
}
