package protocol

import (
	"math/rand"
	"os"
	"reflect"
	"testing"
)

var vProtoTypes = map[string]func() interface{}{
	"Command": func() interface{} { return &Command{} }, "ResultCommand": func() interface{} { return &ResultCommand{} },
	"InitCommand": func() interface{} { return &InitCommand{} }, "InitResultCommand": func() interface{} { return &InitResultCommand{} },
	"LockCommand": func() interface{} { return &LockCommand{} }, "LockResultCommand": func() interface{} { return &LockResultCommand{} },
	"StateCommand": func() interface{} { return &StateCommand{} }, "StateResultCommand": func() interface{} { return &StateResultCommand{} },
	"AdminCommand": func() interface{} { return &AdminCommand{} }, "AdminResultCommand": func() interface{} { return &AdminResultCommand{} },
	"PingCommand": func() interface{} { return &PingCommand{} }, "PingResultCommand": func() interface{} { return &PingResultCommand{} },
	"QuitCommand": func() interface{} { return &QuitCommand{} }, "QuitResultCommand": func() interface{} { return &QuitResultCommand{} },
	"CallCommand": func() interface{} { return &CallCommand{} }, "CallResultCommand": func() interface{} { return &CallResultCommand{} },
	"LeaderCommand": func() interface{} { return &LeaderCommand{} }, "LeaderResultCommand": func() interface{} { return &LeaderResultCommand{} },
	"SubscribeCommand": func() interface{} { return &SubscribeCommand{} }, "SubscribeResultCommand": func() interface{} { return &SubscribeResultCommand{} },
}

type vCodec struct {
	obj interface{}
	buf func(old []byte) []byte // installs a 64-byte buffer initialised from old and returns it
	enc func(buf []byte) error
	dec func(buf []byte) error
}

func vReflectCodec(obj interface{}) *vCodec {
	m := reflect.ValueOf(obj)
	call := func(name string, buf []byte) error {
		res := m.MethodByName(name).Call([]reflect.Value{reflect.ValueOf(buf)})
		if e, ok := res[0].Interface().(error); ok && e != nil {
			return e
		}
		return nil
	}
	return &vCodec{obj: obj, buf: func(old []byte) []byte { return append([]byte{}, old...) },
		enc: func(b []byte) error { return call("Encode", b) }, dec: func(b []byte) error { return call("Decode", b) }}
}

func vWellFormedName(b []byte, cap int) bool {
	return len(b) <= cap && (len(b) == 0 || (b[0] != 0 && b[len(b)-1] != 0))
}

// vCodecCase runs the real Encode / Decode of one layout on generated inputs, prints what they did
// (for the differential against the generated table) and evaluates C14's round-trip statement directly.
func vCodecCase(r *rand.Rand, out *vOut, L *vLayout, mk func() *vCodec) {
	c := mk()
	rv := reflect.ValueOf(c.obj).Elem()
	// ---- encode
	fields := make([][]byte, len(L.Fields))
	wf := true
	for i, f := range L.Fields {
		switch f.Kind {
		case "str":
			fields[i] = vRandName(r, f.Width)
			wf = wf && vWellFormedName(fields[i], f.Width)
		case "lpstr":
			fields[i] = vRandName(r, f.Width)
			wf = wf && len(fields[i]) <= f.Width
		default:
			fields[i] = vRandBytes(r, f.Width)
		}
	}
	// a length-prefixed string round-trips when its length field holds the length (what the constructor does)
	for i, f := range L.Fields {
		if f.Kind == "lpstr" && i > 0 && r.Intn(4) != 0 {
			fields[i-1] = []byte{byte(len(fields[i]))}
		} else if f.Kind == "lpstr" {
			wf = wf && i > 0 && len(fields[i-1]) == 1 && int(fields[i-1][0]) == len(fields[i])
		}
	}
	for i, f := range L.Fields {
		vSetField(vFieldByPath(rv, f.Name), fields[i])
	}
	old := vRandBytes(r, 64)
	buf := c.buf(old)
	obs := ""
	func() {
		defer func() {
			if e := recover(); e != nil {
				obs = "panic"
			}
		}()
		if err := c.enc(buf); err != nil {
			obs = "err"
		} else {
			obs = vHex(buf)
		}
	}()
	encOp := "enc " + L.Name + " " + vHex(old) + " " + vJoinFields(fields)
	out.emit(encOp, obs)
	if wf && len(obs) == 128 {
		// monitor: decode(encode(v)) = v on a fresh object
		c2 := mk()
		rv2 := reflect.ValueOf(c2.obj).Elem()
		b2 := c2.buf(buf)
		res := ""
		func() {
			defer func() {
				if e := recover(); e != nil {
					res = "panic"
				}
			}()
			if err := c2.dec(b2); err != nil {
				res = "err"
				return
			}
			for i, f := range L.Fields {
				got := vGetField(vFieldByPath(rv2, f.Name), f.Width)
				if string(got) != string(fields[i]) {
					res = "field " + f.Name + " decoded as " + vHex(got) + " want " + vHex(fields[i])
					return
				}
			}
		}()
		if res != "" {
			out.monitor("roundtrip:"+L.Name, "encode-then-decode of "+L.Name+" does not return the value: "+res, map[string]string{"op": encOp, "encoded": obs})
		}
	} else if wf && obs != "" {
		out.monitor("encode-refused:"+L.Name, "Encode of a well-formed "+L.Name+" value failed: "+obs, map[string]string{"op": encOp})
	}
	// ---- decode of arbitrary bytes (or of what was just encoded, slightly damaged)
	var in []byte
	if r.Intn(3) == 0 && len(obs) == 128 {
		in = append([]byte{}, buf...)
		if r.Intn(2) == 0 {
			in[r.Intn(64)] ^= byte(1 << uint(r.Intn(8)))
		}
	} else {
		in = vRandBytes(r, 64)
	}
	buf2 := c.buf(in)
	dobs := ""
	var got [][]byte
	func() {
		defer func() {
			if e := recover(); e != nil {
				dobs = "panic"
			}
		}()
		if err := c.dec(buf2); err != nil {
			dobs = "err"
			return
		}
		got = make([][]byte, len(L.Fields))
		for i, f := range L.Fields {
			got[i] = vGetField(vFieldByPath(rv, f.Name), f.Width)
		}
		dobs = vJoinFields(got)
	}()
	out.emit("dec "+L.Name+" "+vHex(in), dobs)
	if dobs == "panic" {
		out.monitor("decode-panic:"+L.Name, "Decode of "+L.Name+" panics on a 64-byte input", map[string]string{"op": "dec " + L.Name + " " + vHex(in)})
	}
	// monitor: decode-then-encode reproduces every byte that belongs to an integer / byte-array field
	if got != nil {
		b3 := c.buf(make([]byte, 64))
		ok := true
		func() {
			defer func() {
				if e := recover(); e != nil {
					ok = false
				}
			}()
			if err := c.enc(b3); err != nil {
				ok = false
			}
		}()
		if ok {
			for _, o := range L.FieldOffsets {
				if b3[o] != in[o] {
					out.monitor("reencode:"+L.Name, "decode-then-encode of "+L.Name+" changes a defined byte", map[string]interface{}{"op": "dec " + L.Name + " " + vHex(in), "offset": o, "reencoded": vHex(b3)})
					break
				}
			}
		}
	}
}

func TestVerifHarness(t *testing.T) {
	mode := os.Getenv("VERIF_MODE")
	if mode == "" {
		t.Skip("harness only")
	}
	switch mode {
	case "codec":
		facts := vLoadFacts()
		r := rand.New(rand.NewSource(int64(vEnvInt("VERIF_SEED", 1))))
		n := vEnvInt("VERIF_N", 200)
		out := vOpen("codec")
		defer out.close()
		for it := 0; it < n; it++ {
			for i := range facts.Layouts {
				L := &facts.Layouts[i]
				mk, ok := vProtoTypes[L.Name]
				if !ok {
					continue
				}
				vCodecCase(r, out, L, func() *vCodec { return vReflectCodec(mk()) })
			}
		}
	default:
		vProtocolModes(t, mode)
	}
}
