package protocol

import "testing"

func vProtocolModes(t *testing.T, mode string) {
	t.Fatalf("unknown VERIF_MODE %q", mode)
}
