module slockverif

go 1.19
