package main

import (
	"bufio"
	"encoding/json"
	"os"
	"sort"
	"sync"
	"time"
)

// Result codes used by the checker (mirror of protocol.RESULT_*; kept local so that
// the checker is a pure function over plain data).
const (
	resOK        = 0
	resLocked    = 5
	resUnlockErr = 6
	resUnown     = 7
	resTimeout   = 8
	resExpried   = 9
	resTransport = 0x80 // transport error / no result (client.LockError.Result == 0x80)
)

// Rec is one client operation in the timed history.
//
// TCall is taken immediately BEFORE the client call is entered, TReturn immediately AFTER it
// returned, both with the process-wide monotonic clock (time.Since(start)). Scheduling delays can
// therefore only make [TCall,TReturn] wider than the true call, never narrower; every comparison in
// the checker is written so that a wider window is the conservative direction.
//
// TReturn == -1 means the call had not returned when the history was dumped (watchdog).
type Rec struct {
	I       int64  `json:"i"`
	G       int    `json:"g"`
	Conn    int    `json:"conn"`
	Via     string `json:"via"`
	Prim    string `json:"prim"`
	Op      string `json:"op"`
	Key     string `json:"key"`             // first 8 hex digits of the 16-byte lock key
	Round   int    `json:"round,omitempty"` // event / prioritylock round (1-based); key epoch in -cut mode
	Prio    int    `json:"prio,omitempty"`  // prioritylock
	Depth   int    `json:"depth,omitempty"` // rlock nesting level after the op
	Nest    int    `json:"nest,omitempty"`  // rlock: per-goroutine nest number (1-based)
	Mode    string `json:"mode,omitempty"`  // event: "set" (default-set) | "clear" (default-clear)
	Holder  bool   `json:"holder,omitempty"`
	Late    bool   `json:"late,omitempty"`    // deliberately late participant (informational)
	Cleanup bool   `json:"cleanup,omitempty"` // best-effort retry after a transport error
	TCall   int64  `json:"t_call"`
	TReturn int64  `json:"t_return"`
	Result  int    `json:"result"`
	Err     string `json:"err,omitempty"`
}

func (r *Rec) ok() bool        { return r.TReturn >= 0 && r.Result == resOK }
func (r *Rec) transport() bool { return r.TReturn < 0 || r.Result == resTransport }

// Recorder collects the history. begin() registers the op before the call so that a watchdog dump
// also contains the in-flight calls (an in-flight release must end a held interval).
type Recorder struct {
	mu    sync.Mutex
	start time.Time
	recs  []*Rec
}

func NewRecorder(start time.Time) *Recorder {
	return &Recorder{start: start, recs: make([]*Rec, 0, 1<<14)}
}

func (h *Recorder) now() int64 { return int64(time.Since(h.start)) }

func (h *Recorder) begin(r *Rec) *Rec {
	r.TReturn = -1
	r.Result = resTransport
	h.mu.Lock()
	r.I = int64(len(h.recs))
	h.recs = append(h.recs, r)
	// taken last: everything above is bookkeeping that happens "before the call"
	r.TCall = h.now()
	h.mu.Unlock()
	return r
}

func (h *Recorder) end(r *Rec, tret int64, result int, err string) {
	h.mu.Lock()
	r.TReturn = tret
	r.Result = result
	r.Err = err
	h.mu.Unlock()
}

// snapshot returns value copies (safe to use while workers are still running).
func (h *Recorder) snapshot() []Rec {
	h.mu.Lock()
	out := make([]Rec, len(h.recs))
	for i, r := range h.recs {
		out[i] = *r
		if out[i].TReturn < 0 {
			out[i].Err = "in-flight"
		}
	}
	h.mu.Unlock()
	sort.Slice(out, func(a, b int) bool { return out[a].I < out[b].I })
	return out
}

func writeHistory(path string, recs []Rec) error {
	f, err := os.Create(path)
	if err != nil {
		return err
	}
	w := bufio.NewWriterSize(f, 1<<20)
	enc := json.NewEncoder(w)
	for i := range recs {
		if err := enc.Encode(&recs[i]); err != nil {
			f.Close()
			return err
		}
	}
	if err := w.Flush(); err != nil {
		f.Close()
		return err
	}
	return f.Close()
}
