package main

import (
	"fmt"
	"math"
	"sort"
)

// ---------------------------------------------------------------------------------------------
// History checker: a pure function over the recorded history.
//
// Only DEFINITELY-HELD intervals are used: an acquisition is held from t_return(acquire) (result 0)
// to t_call(release) of the matching release by the same goroutine. The server granted the hold
// before the acquire returned and cannot have processed the release before it was called, so at every
// instant inside the interval the hold exists at the server whatever the goroutine scheduling was.
// Ops with transport errors / non-zero results contribute no interval.
// ---------------------------------------------------------------------------------------------

const inf = int64(math.MaxInt64)

const maxListedViolations = 20

type Violation struct {
	Signature string `json:"signature"`
	What      string `json:"what"`
	Seed      int64  `json:"seed"`
	Slice     []Rec  `json:"slice"`
}

type CheckParams struct {
	Prim      string
	N         int   // capacity (semaphore / flow)
	Seed      int64 // copied into violations
	ExpriedNs int64 // lock expiry used by the workload; holds are never assumed to outlive it
	QueuedNs  int64 // prioritylock: a request is "definitely queued" this long after its t_call
}

type CheckResult struct {
	Violations     []Violation
	ViolationCount int
	Contended      int
	MaxConcurrency int
	Progress       int
}

type interval struct {
	g          int
	key        string
	start, end int64
	writer     bool
	acq, rel   int // positions in recs; rel == -1: never released
}

type checker struct {
	recs []Rec
	p    CheckParams
	res  CheckResult
}

func CheckHistory(recs []Rec, p CheckParams) CheckResult {
	if p.ExpriedNs <= 0 {
		p.ExpriedNs = 120e9
	}
	if p.QueuedNs <= 0 {
		p.QueuedNs = 300e6
	}
	sorted := make([]Rec, len(recs))
	copy(sorted, recs)
	sort.SliceStable(sorted, func(a, b int) bool { return sorted[a].I < sorted[b].I })
	c := &checker{recs: sorted, p: p}
	switch p.Prim {
	case "lock":
		ivs := c.buildIntervals(map[string]bool{"lock": true}, nil, map[string]bool{"unlock": true}, nil)
		c.checkExclusive(ivs, "overlap", false)
		c.stats(ivs, map[string]bool{"lock": true})
	case "semaphore", "flow":
		ivs := c.buildIntervals(map[string]bool{"acquire": true}, nil, map[string]bool{"release": true}, nil)
		c.checkCapacity(ivs, p.N)
		c.stats(ivs, map[string]bool{"acquire": true})
	case "rwlock":
		ivs := c.buildIntervals(map[string]bool{"rlock": true}, map[string]bool{"wlock": true},
			map[string]bool{"runlock": true}, map[string]bool{"wunlock": true})
		c.checkExclusive(ivs, "writer-overlap", true)
		c.stats(ivs, map[string]bool{"rlock": true, "wlock": true})
	case "rlock":
		ivs := c.checkRLockNests()
		c.checkExclusive(ivs, "overlap", false)
		c.stats(ivs, nil)
	case "prioritylock":
		ivs := c.buildIntervals(map[string]bool{"lock": true}, nil, map[string]bool{"unlock": true}, nil)
		c.checkHandover()
		c.stats(ivs, nil) // contended is computed by checkHandover
	case "event":
		c.checkEvent()
	}
	if p.Prim != "event" && p.Prim != "rlock" { // rlock's nest accounting has its own checker (checkRLockNests)
		c.checkReleases()
	}
	return c.res
}

// checkReleases: "n locks need n unlocks" from the caller's side — the workload releases only what it holds and long before the
// expiry, so a release that the primitive REFUSES (neither OK nor a transport error) means the client object lost track of a hold it
// was granted (e.g. RWLock forgetting a reader, RLock miscounting its depth). Only judged when the same goroutine's preceding
// acquire on that key succeeded and no transport error happened on that key in between.
func (c *checker) checkReleases() {
	rel := map[string]bool{"unlock": true, "runlock": true, "wunlock": true, "release": true}
	type gk struct {
		g   int
		key string
	}
	lastOK := map[gk]int{} // position of the last successful acquire-type op, -1 after a transport error
	for pos := range c.recs {
		r := &c.recs[pos]
		k := gk{r.G, r.Key}
		if r.transport() {
			// (nil, nil) from a release although the acquire had been answered with success: the
			// client object did not send it (it is what PriorityLock.Unlock returns before any Lock)
			if a, held := lastOK[k]; held && a >= 0 && rel[r.Op] && !r.Cleanup && r.TReturn >= 0 && r.Err == "nil result" {
				c.addViolation("release-not-sent", fmt.Sprintf("%s key %s: goroutine %d's %s (i=%d) returned neither a result nor an error although its %s (i=%d) had succeeded",
					c.p.Prim, r.Key, r.G, r.Op, r.I, c.recs[a].Op, c.recs[a].I), a, pos)
			}
			lastOK[k] = -1
			continue
		}
		if !rel[r.Op] {
			if r.ok() {
				lastOK[k] = pos
			} else {
				lastOK[k] = -1
			}
			continue
		}
		if r.Cleanup {
			continue
		}
		a, held := lastOK[k]
		if held && a >= 0 && !r.ok() && r.TCall-c.recs[a].TReturn < c.p.ExpriedNs/2 {
			c.addViolation("release-refused", fmt.Sprintf("%s key %s: goroutine %d's %s (i=%d) was refused with result %d although its %s (i=%d) had succeeded %d ms earlier and nothing failed in between",
				c.p.Prim, r.Key, r.G, r.Op, r.I, r.Result, c.recs[a].Op, c.recs[a].I, (r.TCall-c.recs[a].TReturn)/1e6), a, pos)
		}
		if r.ok() && r.Depth == 0 {
			delete(lastOK, k)
		}
	}
}

func (c *checker) addViolation(clause, what string, positions ...int) {
	c.res.ViolationCount++
	if len(c.res.Violations) >= maxListedViolations {
		return
	}
	c.res.Violations = append(c.res.Violations, Violation{
		Signature: fmt.Sprintf("C19:%s:%s", c.p.Prim, clause),
		What:      what,
		Seed:      c.p.Seed,
		Slice:     c.slice(positions),
	})
}

// slice returns the offending records plus the two neighbours on either side in global order.
func (c *checker) slice(positions []int) []Rec {
	want := map[int]bool{}
	for _, p := range positions {
		if p < 0 {
			continue
		}
		for q := p - 2; q <= p+2; q++ {
			if q >= 0 && q < len(c.recs) {
				want[q] = true
			}
		}
	}
	idx := make([]int, 0, len(want))
	for q := range want {
		idx = append(idx, q)
	}
	sort.Ints(idx)
	if len(idx) > 40 {
		idx = idx[:40]
	}
	out := make([]Rec, 0, len(idx))
	for _, q := range idx {
		out = append(out, c.recs[q])
	}
	return out
}

// capEnd: a hold is never assumed to outlive its expiry. The grant happened at or after
// t_call(acquire), so the hold exists at least until t_call(acquire)+expiry (minus the server's
// one-second timer granularity; 10 s of margin are taken).
func (c *checker) capEnd(iv *interval) bool {
	limit := c.recs[iv.acq].TCall + c.p.ExpriedNs - 10e9
	if iv.end > limit {
		iv.end = limit
	}
	return iv.end > iv.start
}

// buildIntervals pairs, per goroutine and in program order, every successful acquire with the next
// release op of the same kind on the same key by that goroutine (whatever the release's result: it
// was held at least until the release was CALLED). Cleanup retries are ignored.
func (c *checker) buildIntervals(racq, wacq, rrel, wrel map[string]bool) []interval {
	type openT struct {
		iv     interval
		active bool
	}
	open := map[int]*[2]openT{} // per goroutine: [0] reader-kind, [1] writer-kind
	var out []interval
	emit := func(iv interval) {
		if c.capEnd(&iv) {
			out = append(out, iv)
		}
		if iv.rel >= 0 && c.recs[iv.rel].ok() {
			c.res.Progress++
		}
	}
	for pos := range c.recs {
		r := &c.recs[pos]
		if r.Cleanup {
			continue
		}
		st := open[r.G]
		if st == nil {
			st = &[2]openT{}
			open[r.G] = st
		}
		kind := -1
		isAcq := false
		switch {
		case racq[r.Op]:
			kind, isAcq = 0, true
		case wacq[r.Op]:
			kind, isAcq = 1, true
		case rrel[r.Op]:
			kind = 0
		case wrel[r.Op]:
			kind = 1
		}
		if kind < 0 {
			continue
		}
		o := &st[kind]
		if isAcq {
			if o.active {
				// should not happen (workloads release before re-acquiring); be conservative
				o.iv.end = r.TCall
				emit(o.iv)
				o.active = false
			}
			if r.ok() {
				o.iv = interval{g: r.G, key: r.Key, start: r.TReturn, end: inf, writer: kind == 1, acq: pos, rel: -1}
				o.active = true
			}
			continue
		}
		if o.active && o.iv.key == r.Key {
			o.iv.end = r.TCall
			o.iv.rel = pos
			emit(o.iv)
			o.active = false
		}
	}
	for _, st := range open {
		for k := 0; k < 2; k++ {
			if st[k].active {
				emit(st[k].iv)
			}
		}
	}
	sort.Slice(out, func(a, b int) bool {
		if out[a].start != out[b].start {
			return out[a].start < out[b].start
		}
		return out[a].acq < out[b].acq
	})
	return out
}

func byKey(ivs []interval) map[string][]interval {
	m := map[string][]interval{}
	for _, iv := range ivs {
		m[iv.key] = append(m[iv.key], iv)
	}
	return m
}

func sortedKeys(m map[string][]interval) []string {
	keys := make([]string, 0, len(m))
	for k := range m {
		keys = append(keys, k)
	}
	sort.Strings(keys)
	return keys
}

// checkExclusive: intervals (already sorted by start) of DIFFERENT goroutines must be disjoint.
// With writersOnly, only pairs in which at least one side is a writer count.
func (c *checker) checkExclusive(ivs []interval, clause string, writersOnly bool) {
	groups := byKey(ivs)
	for _, key := range sortedKeys(groups) {
		var active []interval
		for _, x := range groups[key] {
			keep := active[:0]
			for _, y := range active {
				if y.end > x.start {
					keep = append(keep, y)
				}
			}
			active = keep
			for _, y := range active {
				if y.g == x.g {
					continue
				}
				if writersOnly && !x.writer && !y.writer {
					continue
				}
				c.addViolation(clause, fmt.Sprintf(
					"%s key %s: goroutine %d %s from t=%d (op i=%d) while goroutine %d still %s: its hold began t=%d (op i=%d) and its release was not called before t=%s",
					c.p.Prim, key, x.g, heldAs(x), x.start, c.recs[x.acq].I, y.g, heldAs(y), y.start, c.recs[y.acq].I, tstr(y.end)),
					y.acq, y.rel, x.acq, x.rel)
			}
			active = append(active, x)
		}
	}
}

func heldAs(iv interval) string {
	if iv.writer {
		return "held it as writer"
	}
	return "held it"
}

func tstr(t int64) string {
	if t == inf {
		return "+inf"
	}
	return fmt.Sprintf("%d", t)
}

// checkCapacity: at no instant more than n definitely-held intervals (sweep line).
// For the semaphore (Release = UnlockHead releases the OLDEST holder, not the caller's) this is still
// sound because the workload calls Release exactly once after each successful Acquire and never
// retries it: #intervals covering t <= #Acquire returned ok - #Release called <= holds at the server.
func (c *checker) checkCapacity(ivs []interval, n int) {
	groups := byKey(ivs)
	for _, key := range sortedKeys(groups) {
		var active []interval
		for _, x := range groups[key] {
			keep := active[:0]
			for _, y := range active {
				if y.end > x.start {
					keep = append(keep, y)
				}
			}
			active = append(keep, x)
			if len(active) > n {
				pos := []int{}
				for _, y := range active {
					pos = append(pos, y.acq, y.rel)
				}
				c.addViolation("over-capacity", fmt.Sprintf(
					"%s(%d) key %s: %d holders at t=%d (goroutine %d's acquire i=%d returned while %d earlier holds were not yet released)",
					c.p.Prim, n, key, len(active), x.start, x.g, c.recs[x.acq].I, len(active)-1), pos...)
			}
		}
	}
}

// stats: max number of overlapping definitely-held intervals, and the number of successful acquire ops
// whose [t_call,t_return] overlapped a definitely-held interval (a goroutine's own intervals never
// overlap its own acquire window, so no exclusion is necessary).
func (c *checker) stats(ivs []interval, acqOps map[string]bool) {
	groups := byKey(ivs)
	for _, key := range sortedKeys(groups) {
		g := groups[key]
		type ev struct {
			t int64
			d int
		}
		evs := make([]ev, 0, 2*len(g))
		for _, iv := range g {
			evs = append(evs, ev{iv.start, +1}, ev{iv.end, -1})
		}
		sort.Slice(evs, func(a, b int) bool {
			if evs[a].t != evs[b].t {
				return evs[a].t < evs[b].t
			}
			return evs[a].d < evs[b].d
		})
		cur := 0
		for _, e := range evs {
			cur += e.d
			if cur > c.res.MaxConcurrency {
				c.res.MaxConcurrency = cur
			}
		}
	}
	if acqOps == nil {
		return
	}
	prefMax := map[string][]int64{}
	for key, g := range groups {
		pm := make([]int64, len(g))
		m := int64(math.MinInt64)
		for i, iv := range g {
			if iv.end > m {
				m = iv.end
			}
			pm[i] = m
		}
		prefMax[key] = pm
	}
	for pos := range c.recs {
		r := &c.recs[pos]
		if !acqOps[r.Op] || r.Cleanup || !r.ok() {
			continue
		}
		g := groups[r.Key]
		// last interval with start < r.TReturn
		idx := sort.Search(len(g), func(i int) bool { return g[i].start >= r.TReturn }) - 1
		if idx >= 0 && prefMax[r.Key][idx] > r.TCall {
			c.res.Contended++
		}
	}
}

// ---------------------------------------------------------------------------------------------
// rlock: nests. Per (goroutine, nest): k = number of Lock ops with result 0 (they form a prefix: the
// workload stops locking at the first failure). The lock is definitely held from t_return of the
// first Lock until the k-th Unlock op of the nest is CALLED (each Unlock releases at most one level,
// and possibly-applied Locks only add levels). Outer intervals of different owners must be disjoint.
// Immediate clauses, only for nests without any transport error before the offending op:
//
//	reentry-refused: the first Lock succeeded and a nested Lock got a non-zero result from the server
//	unlock-count:    one of the k Unlocks matching k successful Locks got a non-zero result
//
// ---------------------------------------------------------------------------------------------
func (c *checker) checkRLockNests() []interval {
	type nestKey struct{ g, nest int }
	nests := map[nestKey][]int{}
	var order []nestKey
	for pos := range c.recs {
		r := &c.recs[pos]
		if r.Op != "lock" && r.Op != "unlock" {
			continue
		}
		k := nestKey{r.G, r.Nest}
		if _, ok := nests[k]; !ok {
			order = append(order, k)
		}
		nests[k] = append(nests[k], pos)
	}
	var out []interval
	for _, nk := range order {
		ops := nests[nk]
		first := &c.recs[ops[0]]
		if first.Op != "lock" || !first.ok() {
			continue
		}
		k := 0
		clean := true // no transport error / in-flight op so far in this nest
		unlocks := 0
		iv := interval{g: nk.g, key: first.Key, start: first.TReturn, end: inf, acq: ops[0], rel: -1}
		allUnlocksOK := true
		for _, pos := range ops {
			r := &c.recs[pos]
			// the expiry guard: only judge ops that returned well within the expiry of the first lock
			fresh := r.TReturn >= 0 && r.TReturn < first.TCall+c.p.ExpriedNs-10e9
			switch r.Op {
			case "lock":
				if r.ok() && unlocks == 0 {
					k++
				} else if !r.transport() && clean && fresh && unlocks == 0 && pos != ops[0] {
					c.addViolation("reentry-refused", fmt.Sprintf(
						"rlock key %s: goroutine %d holds the lock at depth %d (first Lock i=%d returned 0) but its nested Lock i=%d was answered with result %d",
						first.Key, nk.g, k, first.I, r.I, r.Result), ops[0], pos)
				}
			case "unlock":
				unlocks++
				if unlocks == k && iv.rel < 0 {
					iv.end = r.TCall
					iv.rel = pos
				}
				if !r.ok() {
					allUnlocksOK = false
				}
				if unlocks <= k && !r.ok() && !r.transport() && clean && fresh && !r.Cleanup {
					c.addViolation("unlock-count", fmt.Sprintf(
						"rlock key %s: goroutine %d locked %d times (all result 0) but Unlock number %d (i=%d) was answered with result %d",
						first.Key, nk.g, k, unlocks, r.I, r.Result), append(append([]int{}, ops...), pos)...)
				}
			}
			if r.transport() {
				clean = false
			}
		}
		if iv.rel >= 0 && allUnlocksOK && unlocks == k {
			c.res.Progress++
		}
		// contended: the first Lock of the nest had to wait for another owner (filled in below)
		if c.capEnd(&iv) {
			out = append(out, iv)
		}
	}
	sort.Slice(out, func(a, b int) bool {
		if out[a].start != out[b].start {
			return out[a].start < out[b].start
		}
		return out[a].acq < out[b].acq
	})
	// contended (first Lock of a nest overlapping another owner's outer interval)
	pm := map[string][]int64{}
	groups := byKey(out)
	for key, g := range groups {
		m := int64(math.MinInt64)
		for _, iv := range g {
			if iv.end > m {
				m = iv.end
			}
			pm[key] = append(pm[key], m)
		}
	}
	for _, iv := range out {
		r := &c.recs[iv.acq]
		g := groups[iv.key]
		idx := sort.Search(len(g), func(i int) bool { return g[i].start >= r.TReturn }) - 1
		if idx >= 0 && pm[iv.key][idx] > r.TCall {
			c.res.Contended++
		}
	}
	return out
}

// ---------------------------------------------------------------------------------------------
// prioritylock handover. For every acquisition A (goroutine X, priority p, ta = t_return) other than
// the round's initial holder: tr = t_call of the latest SUCCESSFUL unlock on that key with
// t_call < ta. Its caller still held the lock when it called, so X was granted after tr. A request Y
// of the same round with result 0, t_call(Y)+queued <= tr and t_return(Y) > ta reached the server
// before X was granted and was still waiting when X was granted (had Y been granted before X it
// would have returned, held and released before X's grant, hence t_return(Y) < ta).
// Violation if such a Y has a strictly higher priority than X. Nothing is required for equal
// priorities or for requests that were not definitely queued.
// ---------------------------------------------------------------------------------------------
func (c *checker) checkHandover() {
	type roundOps struct {
		locks   []int
		unlocks []int
	}
	rounds := map[string]*roundOps{}
	var keys []string
	for pos := range c.recs {
		r := &c.recs[pos]
		ro := rounds[r.Key]
		if ro == nil {
			ro = &roundOps{}
			rounds[r.Key] = ro
			keys = append(keys, r.Key)
		}
		switch r.Op {
		case "lock":
			if !r.Cleanup {
				ro.locks = append(ro.locks, pos)
			}
		case "unlock":
			if r.ok() {
				ro.unlocks = append(ro.unlocks, pos)
			}
		}
	}
	for _, key := range keys {
		ro := rounds[key]
		for _, ap := range ro.locks {
			a := &c.recs[ap]
			if a.Holder || !a.ok() {
				continue
			}
			ta := a.TReturn
			tr := int64(-1)
			trPos := -1
			for _, up := range ro.unlocks {
				u := &c.recs[up]
				if u.TCall < ta && u.TCall > tr {
					tr, trPos = u.TCall, up
				}
			}
			if trPos < 0 {
				continue
			}
			if a.TCall < tr {
				c.res.Contended++ // X's Lock really waited for a hold that ended after X had asked
			}
			for _, yp := range ro.locks {
				y := &c.recs[yp]
				if yp == ap || y.G == a.G || !y.ok() || y.Holder {
					continue
				}
				if y.TCall+c.p.QueuedNs <= tr && y.TReturn > ta && y.Prio > a.Prio {
					c.addViolation("handover", fmt.Sprintf(
						"prioritylock key %s round %d: after the release called at t=%d (i=%d) the lock went to goroutine %d with priority %d (returned t=%d) although goroutine %d with priority %d had been queued since t=%d and was still waiting (got it at t=%d)",
						key, a.Round, tr, c.recs[trPos].I, a.G, a.Prio, ta, y.G, y.Prio, y.TCall, y.TReturn),
						trPos, ap, yp)
				}
			}
		}
	}
}

// ---------------------------------------------------------------------------------------------
// event. Per round (fresh key): set_r = the earliest Set call of the round (t_call; +inf if none).
// default-set mode: clear_r = the first Clear that returned result 0 before any Set was called; every
//
//	Wait w with result 0 and t_call(w) >= t_return(clear_r) must not return before Set was called.
//
// default-clear mode: the event is clear from the start of the round (fresh key), so this holds for
//
//	every Wait of the round with result 0.
//
// ---------------------------------------------------------------------------------------------
func (c *checker) checkEvent() {
	type round struct {
		mode  string
		clear int // position of clear_r, -1
		set   int // position of earliest set
		waits []int
		key   string
		num   int
	}
	rounds := map[string]*round{}
	var keys []string
	for pos := range c.recs {
		r := &c.recs[pos]
		rd := rounds[r.Key]
		if rd == nil {
			rd = &round{mode: r.Mode, clear: -1, set: -1, key: r.Key, num: r.Round}
			rounds[r.Key] = rd
			keys = append(keys, r.Key)
		}
		switch r.Op {
		case "set":
			if rd.set < 0 || r.TCall < c.recs[rd.set].TCall {
				rd.set = pos
			}
		case "clear":
			if rd.mode == "set" && rd.clear < 0 && rd.set < 0 && r.ok() {
				rd.clear = pos
			}
		case "wait":
			rd.waits = append(rd.waits, pos)
		}
	}
	for _, key := range keys {
		rd := rounds[key]
		tset := inf
		if rd.set >= 0 {
			tset = c.recs[rd.set].TCall
		}
		var from int64
		if rd.mode == "set" {
			if rd.clear < 0 {
				continue
			}
			from = c.recs[rd.clear].TReturn
			// the clear is itself a lock with an expiry: never reason beyond it
			if tset > c.recs[rd.clear].TCall+c.p.ExpriedNs-10e9 {
				tset = c.recs[rd.clear].TCall + c.p.ExpriedNs - 10e9
			}
		} else {
			from = math.MinInt64
		}
		completed := false
		for _, wp := range rd.waits {
			w := &c.recs[wp]
			if !w.ok() || w.TCall < from {
				continue
			}
			if w.TCall < tset {
				c.res.Contended++ // called while the event was definitely clear: it really had to block
			}
			completed = true
			if w.TReturn < tset {
				c.addViolation("wait-before-set", fmt.Sprintf(
					"event key %s round %d (default-%s mode): Wait of goroutine %d (i=%d) was called at t=%d with the event clear and returned success at t=%d, before Set was called (t=%s)",
					key, rd.num, rd.mode, w.G, w.I, w.TCall, w.TReturn, tstr(tset)),
					rd.clear, wp, rd.set)
			}
		}
		if completed && rd.set >= 0 && c.recs[rd.set].TReturn >= 0 && !c.recs[rd.set].transport() {
			c.res.Progress++
		}
	}
}
