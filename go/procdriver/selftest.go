package main

import (
	"fmt"
)

// hand-made histories: times in milliseconds

type hist struct {
	recs []Rec
}

func (h *hist) op(g int, op string, tcMs, trMs float64, result int, mods ...func(*Rec)) *hist {
	r := Rec{I: int64(len(h.recs)), G: g, Conn: 0, Via: "leader", Op: op, Key: "k0",
		TCall: int64(tcMs * 1e6), TReturn: int64(trMs * 1e6), Result: result}
	for _, m := range mods {
		m(&r)
	}
	h.recs = append(h.recs, r)
	return h
}

func nest(n, depth int) func(*Rec) { return func(r *Rec) { r.Nest, r.Depth = n, depth } }
func prio(p int) func(*Rec)        { return func(r *Rec) { r.Prio, r.Round = p, 1 } }
func holder(r *Rec)                { r.Holder, r.Round = true, 1 }
func mode(m string) func(*Rec)     { return func(r *Rec) { r.Mode, r.Round = m, 1 } }
func cleanupOp(r *Rec)             { r.Cleanup = true }

type stCase struct {
	name   string
	prim   string
	n      int
	h      *hist
	expect string // "" = must be clean
}

func selfTestCases() []stCase {
	var cs []stCase
	add := func(name, prim string, n int, expect string, h *hist) {
		cs = append(cs, stCase{name, prim, n, h, expect})
	}

	// ---- lock: overlap
	add("lock/overlap", "lock", 1, "C19:lock:overlap", (&hist{}).
		op(1, "lock", 0, 10, 0).op(2, "lock", 5, 20, 0).op(1, "unlock", 30, 31, 0).op(2, "unlock", 40, 41, 0))
	add("lock/clean", "lock", 1, "", (&hist{}).
		op(1, "lock", 0, 10, 0).op(2, "lock", 5, 35, 0).op(1, "unlock", 30, 31, 0).op(2, "unlock", 40, 41, 0))
	add("lock/clean-ambiguous-acquire", "lock", 1, "", (&hist{}).
		op(1, "lock", 0, 10, 0).op(2, "lock", 5, 20, resTransport).op(2, "unlock", 21, 22, 0, cleanupOp).
		op(1, "unlock", 30, 31, 0))
	add("lock/clean-failed-release-still-ends-hold", "lock", 1, "", (&hist{}).
		op(1, "lock", 0, 10, 0).op(1, "unlock", 30, 31, resTransport).op(2, "lock", 5, 32, 0).
		op(1, "unlock", 131, 132, resUnlockErr, cleanupOp).op(2, "unlock", 140, 141, 0))
	add("lock/overlap-never-released", "lock", 1, "C19:lock:overlap", (&hist{}).
		op(1, "lock", 0, 10, 0).op(2, "lock", 5, 50, 0).op(2, "unlock", 60, 61, 0))
	add("lock/clean-inflight-release", "lock", 1, "", (&hist{}).
		op(1, "lock", 0, 10, 0).op(1, "unlock", 30, -1e-6, resTransport).op(2, "lock", 5, 50, 0).op(2, "unlock", 60, 61, 0))

	// ---- semaphore / flow: over-capacity
	for _, p := range []string{"semaphore", "flow"} {
		add(p+"/over-capacity", p, 2, "C19:"+p+":over-capacity", (&hist{}).
			op(1, "acquire", 0, 10, 0).op(2, "acquire", 1, 11, 0).op(3, "acquire", 2, 12, 0).
			op(1, "release", 20, 21, 0).op(2, "release", 22, 23, 0).op(3, "release", 24, 25, 0))
		add(p+"/clean", p, 2, "", (&hist{}).
			op(1, "acquire", 0, 10, 0).op(2, "acquire", 1, 11, 0).op(3, "acquire", 2, 21, 0).
			op(1, "release", 20, 22, 0).op(2, "release", 22, 23, 0).op(3, "release", 24, 25, 0))
		add(p+"/clean-timeout-is-no-hold", p, 2, "", (&hist{}).
			op(1, "acquire", 0, 10, 0).op(2, "acquire", 1, 11, 0).op(3, "acquire", 2, 12, resTimeout).
			op(1, "release", 20, 21, 0).op(2, "release", 22, 23, 0))
	}

	// ---- rwlock: writer-overlap
	add("rwlock/writer-overlap", "rwlock", 1, "C19:rwlock:writer-overlap", (&hist{}).
		op(1, "rlock", 0, 10, 0).op(2, "wlock", 5, 20, 0).op(1, "runlock", 30, 31, 0).op(2, "wunlock", 40, 41, 0))
	add("rwlock/writer-writer-overlap", "rwlock", 1, "C19:rwlock:writer-overlap", (&hist{}).
		op(1, "wlock", 0, 10, 0).op(2, "wlock", 5, 20, 0).op(1, "wunlock", 30, 31, 0).op(2, "wunlock", 40, 41, 0))
	add("rwlock/clean", "rwlock", 1, "", (&hist{}).
		op(1, "rlock", 0, 10, 0).op(3, "rlock", 2, 12, 0).op(2, "wlock", 5, 33, 0).
		op(1, "runlock", 30, 31, 0).op(3, "runlock", 31, 32, 0).op(2, "wunlock", 40, 41, 0))

	// ---- rlock
	add("rlock/overlap", "rlock", 2, "C19:rlock:overlap", (&hist{}).
		op(1, "lock", 0, 10, 0, nest(1, 1)).op(1, "lock", 10, 12, 0, nest(1, 2)).
		op(1, "unlock", 30, 31, 0, nest(1, 1)).op(2, "lock", 5, 35, 0, nest(1, 1)).
		op(1, "unlock", 40, 41, 0, nest(1, 0)).op(2, "unlock", 50, 51, 0, nest(1, 0)))
	add("rlock/clean", "rlock", 2, "", (&hist{}).
		op(1, "lock", 0, 10, 0, nest(1, 1)).op(1, "lock", 10, 12, 0, nest(1, 2)).
		op(1, "unlock", 30, 31, 0, nest(1, 1)).op(1, "unlock", 40, 41, 0, nest(1, 0)).
		op(2, "lock", 5, 42, 0, nest(1, 1)).op(2, "unlock", 50, 51, 0, nest(1, 0)))
	add("rlock/reentry-refused", "rlock", 2, "C19:rlock:reentry-refused", (&hist{}).
		op(1, "lock", 0, 10, 0, nest(1, 1)).op(1, "lock", 10, 12, resLocked, nest(1, 1)).
		op(1, "unlock", 30, 31, 0, nest(1, 0)))
	add("rlock/clean-reentry-transport-error", "rlock", 2, "", (&hist{}).
		op(1, "lock", 0, 10, 0, nest(1, 1)).op(1, "lock", 10, 12, resTransport, nest(1, 1)).
		op(1, "unlock", 30, 31, 0, nest(1, 0), cleanupOp).op(1, "unlock", 32, 33, resUnlockErr, nest(1, 0), cleanupOp))
	add("rlock/unlock-count", "rlock", 2, "C19:rlock:unlock-count", (&hist{}).
		op(1, "lock", 0, 10, 0, nest(1, 1)).op(1, "lock", 10, 12, 0, nest(1, 2)).
		op(1, "unlock", 30, 31, 0, nest(1, 1)).op(1, "unlock", 40, 41, resUnlockErr, nest(1, 0)))
	add("rlock/clean-two-nests", "rlock", 2, "", (&hist{}).
		op(1, "lock", 0, 10, 0, nest(1, 1)).op(1, "lock", 10, 12, 0, nest(1, 2)).
		op(1, "unlock", 30, 31, 0, nest(1, 1)).op(1, "unlock", 40, 41, 0, nest(1, 0)).
		op(1, "lock", 42, 43, 0, nest(2, 1)).op(1, "unlock", 44, 45, 0, nest(2, 0)))

	// ---- prioritylock: handover
	add("prioritylock/handover", "prioritylock", 1, "C19:prioritylock:handover", (&hist{}).
		op(0, "lock", 0, 1, 0, holder).op(1, "lock", 100, 700, 0, prio(50)).op(2, "lock", 120, 610, 0, prio(10)).
		op(0, "unlock", 600, 601, 0, holder).op(2, "unlock", 640, 641, 0, prio(10)).op(1, "unlock", 730, 731, 0, prio(50)))
	add("prioritylock/clean", "prioritylock", 1, "", (&hist{}).
		op(0, "lock", 0, 1, 0, holder).op(1, "lock", 100, 610, 0, prio(50)).op(2, "lock", 120, 700, 0, prio(10)).
		op(0, "unlock", 600, 601, 0, holder).op(1, "unlock", 640, 641, 0, prio(50)).op(2, "unlock", 730, 731, 0, prio(10)))
	add("prioritylock/clean-not-definitely-queued", "prioritylock", 1, "", (&hist{}).
		op(0, "lock", 0, 1, 0, holder).op(1, "lock", 450, 700, 0, prio(50)).op(2, "lock", 120, 610, 0, prio(10)).
		op(0, "unlock", 600, 601, 0, holder).op(2, "unlock", 640, 641, 0, prio(10)).op(1, "unlock", 730, 731, 0, prio(50)))
	add("prioritylock/clean-higher-one-failed", "prioritylock", 1, "", (&hist{}).
		op(0, "lock", 0, 1, 0, holder).op(1, "lock", 100, 700, resTransport, prio(50)).op(2, "lock", 120, 610, 0, prio(10)).
		op(0, "unlock", 600, 601, 0, holder).op(2, "unlock", 640, 641, 0, prio(10)))

	// ---- event: wait-before-set
	add("event/wait-before-set(default-set)", "event", 1, "C19:event:wait-before-set", (&hist{}).
		op(0, "clear", 0, 5, 0, mode("set")).op(1, "wait", 10, 50, 0, mode("set")).op(0, "set", 100, 101, 0, mode("set")))
	add("event/clean(default-set)", "event", 1, "", (&hist{}).
		op(0, "clear", 0, 5, 0, mode("set")).op(1, "wait", 10, 100.5, 0, mode("set")).op(0, "set", 100, 101, 0, mode("set")).
		op(2, "wait", 130, 131, 0, mode("set")))
	add("event/clean-wait-raced-clear(default-set)", "event", 1, "", (&hist{}).
		op(0, "clear", 0, 5, 0, mode("set")).op(1, "wait", 3, 4, 0, mode("set")).op(0, "set", 100, 101, 0, mode("set")))
	add("event/clean-wait-timeout(default-set)", "event", 1, "", (&hist{}).
		op(0, "clear", 0, 5, 0, mode("set")).op(1, "wait", 10, 50, resTimeout, mode("set")).op(0, "set", 100, 101, 0, mode("set")))
	add("event/wait-before-set(default-clear)", "event", 1, "C19:event:wait-before-set", (&hist{}).
		op(1, "wait", 10, 50, 0, mode("clear")).op(0, "set", 100, 101, 0, mode("clear")).op(0, "clear", 200, 201, 0, mode("clear")))
	add("event/clean(default-clear)", "event", 1, "", (&hist{}).
		op(1, "wait", 10, 100.2, 0, mode("clear")).op(0, "set", 100, 101, 0, mode("clear")).op(0, "clear", 200, 201, 0, mode("clear")))
	add("event/wait-never-set(default-clear)", "event", 1, "C19:event:wait-before-set", (&hist{}).
		op(1, "wait", 10, 50, 0, mode("clear")))
	return cs
}

func runSelfTest() int {
	bad := 0
	cases := selfTestCases()
	for _, c := range cases {
		for i := range c.h.recs {
			c.h.recs[i].Prim = c.prim
		}
		res := CheckHistory(c.h.recs, CheckParams{Prim: c.prim, N: c.n, Seed: 42})
		okCase := true
		if c.expect == "" {
			if res.ViolationCount != 0 {
				okCase = false
			}
		} else {
			found := false
			for _, v := range res.Violations {
				if v.Signature == c.expect && len(v.Slice) > 0 && v.What != "" && v.Seed == 42 {
					found = true
				} else if v.Signature != c.expect {
					okCase = false // a different clause fired as well
				}
			}
			if !found {
				okCase = false
			}
		}
		status := "ok  "
		if !okCase {
			status = "FAIL"
			bad++
		}
		sigs := []string{}
		for _, v := range res.Violations {
			sigs = append(sigs, v.Signature)
		}
		fmt.Printf("%s %-50s expect=%-32q got=%v contended=%d maxconc=%d progress=%d\n",
			status, c.name, c.expect, sigs, res.Contended, res.MaxConcurrency, res.Progress)
	}
	if bad > 0 {
		fmt.Printf("selftest FAILED (%d of %d cases)\n", bad, len(cases))
		return 1
	}
	fmt.Println("selftest ok")
	return 0
}
