// procdriver: process-level test driver for property C19.
//
// It drives the REAL Go client (github.com/snower/slock/client) over loopback TCP against REAL slock
// server processes that the caller started, records a timed history of every client call and checks
// the textbook guarantee of the chosen primitive on that history.
//
//	procdriver -addr 127.0.0.1:PORT [-faddr 127.0.0.1:FPORT] -prim lock|rlock|rwlock|semaphore|flow|prioritylock|event
//	           -seed S -g G -k K -n N -dur SECONDS -out DIR [-cut MS] [-holdmax MS]
//	procdriver -selftest
//
// Exit status: 0 run completed (violations, if any, are in DIR/<prim>.result.json), 2 infrastructure
// failure, 3 watchdog fired (goroutines hung for more than dur+45 s; history dumped first).
package main

import (
	"encoding/json"
	"flag"
	"fmt"
	"net"
	"os"
	"path/filepath"
	"strconv"
	"sync/atomic"
	"time"

	"github.com/snower/slock/client"
)

type Result struct {
	Prim            string      `json:"prim"`
	Seed            int64       `json:"seed"`
	G               int         `json:"g"`
	K               int         `json:"k"`
	N               int         `json:"n"`
	Dur             float64     `json:"dur"`
	ViaFollower     bool        `json:"via_follower"`
	CutMs           int         `json:"cut_ms"`
	HoldMaxMs       int         `json:"holdmax_ms"`
	TimeoutS        int         `json:"timeout_s"`
	ExpriedS        int         `json:"expried_s"`
	KeySalt         int64       `json:"key_salt"`
	Ops             int         `json:"ops"`
	OkOps           int         `json:"ok_ops"`
	OkOpsLeader     int         `json:"ok_ops_leader"`
	OkOpsFollower   int         `json:"ok_ops_follower"`
	Contended       int         `json:"contended"`
	Errors          int         `json:"errors"`
	Timeouts        int         `json:"timeouts"`
	NoReply         int         `json:"no_reply"` // subset of errors: the client gave up waiting for an answer
	OtherNonzero    int         `json:"other_nonzero"`
	ResultCounts    map[int]int `json:"result_counts"`
	ReconnectCuts   int64       `json:"reconnect_cuts"`
	Reconnects      int64       `json:"reconnects"`
	OkAfterFirstCut int         `json:"ok_ops_after_first_error"`
	MaxConcurrency  int         `json:"max_concurrency_observed"`
	Progress        int         `json:"progress"`
	WallS           float64     `json:"wall_s"`
	OpsPerS         float64     `json:"ops_per_s"`
	ForcedClose     bool        `json:"forced_close"`
	Watchdog        bool        `json:"watchdog"`
	ViolationCount  int         `json:"violation_count"`
	Violations      []Violation `json:"violations"`
	Samples         []Rec       `json:"samples"`
	Note            string      `json:"note"`
}

func fatal(format string, a ...interface{}) {
	fmt.Fprintf(os.Stderr, "procdriver: "+format+"\n", a...)
	os.Exit(2)
}

func splitAddr(addr string) (string, uint) {
	host, ps, err := net.SplitHostPort(addr)
	if err != nil {
		fatal("bad address %q: %v", addr, err)
	}
	port, err := strconv.Atoi(ps)
	if err != nil || port <= 0 || port > 65535 {
		fatal("bad port in %q", addr)
	}
	return host, uint(port)
}

func main() {
	addr := flag.String("addr", "", "leader address host:port")
	faddr := flag.String("faddr", "", "follower address host:port (odd-numbered connections use it)")
	prim := flag.String("prim", "", "lock|rlock|rwlock|semaphore|flow|prioritylock|event")
	seed := flag.Int64("seed", 1, "seed")
	G := flag.Int("g", 8, "goroutines (2..64)")
	K := flag.Int("k", 2, "client connections (1..8)")
	N := flag.Int("n", 2, "capacity for semaphore/flow, max nesting depth for rlock (1..5)")
	dur := flag.Float64("dur", 3, "work phase wall time in seconds")
	out := flag.String("out", "", "output directory")
	cut := flag.Int("cut", 0, "if >0: cut every proxied connection at random intervals around MS ms")
	holdmax := flag.Int("holdmax", 8, "max random hold time in ms")
	selftest := flag.Bool("selftest", false, "run the checker self-test")
	capOffset := flag.Int("debug-capacity-offset", 0, "")
	salt := flag.Int64("keysalt", 0, "")
	timeoutS := flag.Int("timeout", 0, "")
	expriedS := flag.Int("expried", 0, "")
	tap := flag.String("tap", "", "")               // diagnostic: pass every connection through a never-cutting forwarder that records both byte streams into this directory
	trylock := flag.Bool("trylock", false, "wait timeout 0: every acquire is a try-lock (refused at once when it cannot be admitted)")
	timeoutFlag := flag.Uint("timeout-flag", 0, "") // diagnostic: ORed into the high 16 bits of the lock timeout
	flag.Parse()

	if *selftest {
		os.Exit(runSelfTest())
	}
	prims := map[string]bool{"lock": true, "rlock": true, "rwlock": true, "semaphore": true, "flow": true, "prioritylock": true, "event": true}
	if !prims[*prim] {
		fatal("unknown -prim %q", *prim)
	}
	if *addr == "" || *out == "" {
		fatal("-addr and -out are required")
	}
	if *G < 2 || *G > 64 || *K < 1 || *K > 8 || *N < 1 || *N > 5 || *dur <= 0 {
		fatal("parameter out of range: need 2<=g<=64, 1<=k<=8, 1<=n<=5, dur>0")
	}
	if err := os.MkdirAll(*out, 0o755); err != nil {
		fatal("cannot create %s: %v", *out, err)
	}
	if *salt == 0 {
		*salt = time.Now().UnixNano()
	}
	// 30 s wait timeout / 120 s expiry everywhere. With -cut the wait timeout is 3 s: requests that were
	// queued on a cut connection are later granted to nobody and would block the key for a full 30 s.
	if *timeoutS == 0 {
		*timeoutS = 30
		if *cut > 0 {
			*timeoutS = 3
		}
	}
	if *expriedS == 0 {
		*expriedS = 120
	}

	if *trylock {
		*timeoutS = 0 // timeout and expiry differ as much as they can: a primitive that mixes the two up shows at once
	}
	start := time.Now()
	e := &env{prim: *prim, seed: *seed, salt: *salt, G: *G, K: *K, N: *N, capOffset: *capOffset, holdMaxMs: *holdmax,
		timeout: uint32(*timeoutS) | uint32(*timeoutFlag)<<16, expried: uint32(*expriedS), cutMode: *cut > 0, start: start, rec: NewRecorder(start)}

	var clients []*client.Client
	var forwarders []*Forwarder
	viaFollower := false
	for i := 0; i < *K; i++ {
		target, via := *addr, "leader"
		if *faddr != "" && i%2 == 1 {
			target, via = *faddr, "follower"
			viaFollower = true
		}
		host, port := splitAddr(target)
		if *cut > 0 || *tap != "" {
			f, err := NewForwarder(target, *cut, *seed+int64(i)*104729+17)
			if err != nil {
				fatal("cannot start forwarder: %v", err)
			}
			if *tap != "" {
				_ = os.MkdirAll(*tap, 0o755)
				f.tapDir, f.tapName = *tap, fmt.Sprintf("conn%d", i)
			}
			forwarders = append(forwarders, f)
			host, port = "127.0.0.1", uint(f.Addr().Port)
		}
		c := client.NewClient(host, port)
		if err := c.Open(); err != nil {
			fatal("cannot connect connection %d to %s (%s): %v", i, target, via, err)
		}
		clients = append(clients, c)
		e.dbs = append(e.dbs, c.SelectDB(0))
		e.vias = append(e.vias, via)
	}

	closeAll := func(limit time.Duration) {
		done := make(chan struct{}, len(clients))
		for _, c := range clients {
			go func(c *client.Client) {
				defer func() { _ = recover(); done <- struct{}{} }()
				_ = c.Close()
			}(c)
		}
		t := time.After(limit)
		for range clients {
			select {
			case <-done:
			case <-t:
				return
			}
		}
	}

	e.deadline = time.Now().Add(time.Duration(*dur * float64(time.Second)))
	workStart := time.Now()
	wg := e.run()
	finished := make(chan struct{})
	go func() { wg.Wait(); close(finished) }()

	res := &Result{Prim: *prim, Seed: *seed, G: *G, K: *K, N: *N, Dur: *dur, ViaFollower: viaFollower, CutMs: *cut,
		HoldMaxMs: *holdmax, TimeoutS: *timeoutS, ExpriedS: *expriedS, KeySalt: *salt}

	durD := time.Duration(*dur * float64(time.Second))
	watchdog := time.After(durD + 45*time.Second)
	var force <-chan time.Time
	if *cut > 0 {
		// with -cut the tail of the run is not waited out: once the work phase is over the forwarder
		// stops cutting and, 5 s later, the clients are closed, which fails every pending call
		force = time.After(durD + 5*time.Second)
	}
	stopCut := time.After(durD)
	exit := 0
wait:
	for {
		select {
		case <-finished:
			break wait
		case <-stopCut:
			for _, f := range forwarders {
				f.StopCutting()
			}
			stopCut = nil
		case <-force:
			res.ForcedClose = true
			atomic.StoreInt32(&e.stop, 1)
			closeAll(8 * time.Second)
			force = nil
		case <-watchdog:
			res.Watchdog = true
			exit = 3
			break wait
		}
	}
	wall := time.Since(workStart)
	recs := e.rec.snapshot()
	if exit == 3 {
		// dump what we have first, then try to shut down
		fmt.Fprintf(os.Stderr, "procdriver: watchdog: goroutines still running %.0f s after the deadline\n", 45.0)
		finalize(res, recs, e, forwarders, wall, *out)
		atomic.StoreInt32(&e.stop, 1)
		closeAll(5 * time.Second)
		os.Exit(3)
	}
	closeAll(10 * time.Second)
	finalize(res, recs, e, forwarders, wall, *out)
	for _, f := range forwarders {
		f.Close()
	}
	os.Exit(0)
}

func finalize(res *Result, recs []Rec, e *env, forwarders []*Forwarder, wall time.Duration, out string) {
	for _, f := range forwarders {
		res.ReconnectCuts += f.Cuts()
		if a := f.Accepts(); a > 0 {
			res.Reconnects += a - 1
		}
	}
	res.ResultCounts = map[int]int{}
	firstErr := int64(-1)
	for i := range recs {
		r := &recs[i]
		res.Ops++
		res.ResultCounts[r.Result]++
		switch {
		case r.ok():
			res.OkOps++
			if r.Via == "follower" {
				res.OkOpsFollower++
			} else {
				res.OkOpsLeader++
			}
			if firstErr >= 0 && r.TCall > firstErr {
				res.OkAfterFirstCut++
			}
		case r.transport():
			res.Errors++
			if r.Err == "128 timeout" {
				res.NoReply++
			}
			if firstErr < 0 && r.TReturn >= 0 {
				firstErr = r.TReturn
			}
		case r.Result == resTimeout || r.Result == resExpried:
			res.Timeouts++
		default:
			res.OtherNonzero++
		}
	}
	cr := CheckHistory(recs, CheckParams{Prim: e.prim, N: e.N, Seed: e.seed, ExpriedNs: int64(e.expried) * 1e9})
	res.Violations = cr.Violations
	if res.Violations == nil {
		res.Violations = []Violation{}
	}
	res.ViolationCount = cr.ViolationCount
	res.Contended = cr.Contended
	res.MaxConcurrency = cr.MaxConcurrency
	res.Progress = cr.Progress
	res.WallS = wall.Seconds()
	if res.WallS > 0 {
		res.OpsPerS = float64(res.Ops) / res.WallS
	}
	res.Samples = samples(recs)
	note := ""
	add := func(s string) {
		if note != "" {
			note += "; "
		}
		note += s
	}
	if res.Progress == 0 {
		add("SUSPICIOUS: progress is 0 (no completed acquire/release pair or event round)")
	}
	if res.Contended == 0 {
		add("no contended operation observed")
	}
	if e.cutMode {
		rot := "key rotates every second (field round = key epoch)"
		if e.prim == "prioritylock" || e.prim == "event" {
			rot = "fresh key per round"
		}
		add(fmt.Sprintf("-cut mode: wait timeout %d s, %s, clients force-closed 5 s after the work phase if still busy", e.timeout&0xffff, rot))
	}
	if e.capOffset != 0 {
		add(fmt.Sprintf("debug: primitive created with capacity n%+d, checked against n", e.capOffset))
	}
	if e.prim == "prioritylock" && res.MaxConcurrency > 1 {
		add("prioritylock: more than one definitely-held interval overlapped (not a C19 clause of this check, look at the history)")
	}
	if res.ViolationCount > len(res.Violations) {
		add(fmt.Sprintf("only the first %d of %d violations are listed", len(res.Violations), res.ViolationCount))
	}
	if res.NoReply > 0 {
		add(fmt.Sprintf("%d request(s) were never answered by the server within the client's wait (timeout+2 s); counted as errors", res.NoReply))
	}
	if res.Watchdog {
		add("watchdog fired: history is partial, in-flight calls have t_return=-1")
	}
	res.Note = note

	if err := writeHistory(filepath.Join(out, e.prim+".history.jsonl"), recs); err != nil {
		fmt.Fprintf(os.Stderr, "procdriver: cannot write history: %v\n", err)
		os.Exit(2)
	}
	b, _ := json.MarshalIndent(res, "", " ")
	if err := os.WriteFile(filepath.Join(out, e.prim+".result.json"), append(b, '\n'), 0o644); err != nil {
		fmt.Fprintf(os.Stderr, "procdriver: cannot write result: %v\n", err)
		os.Exit(2)
	}
}

func samples(recs []Rec) []Rec {
	n := len(recs)
	if n <= 6 {
		return append([]Rec{}, recs...)
	}
	idx := []int{0, 1, n / 2, n/2 + 1, n - 2, n - 1}
	out := make([]Rec, 0, 6)
	for _, i := range idx {
		out = append(out, recs[i])
	}
	return out
}
