package main

import (
	"crypto/sha256"
	"encoding/hex"
	"fmt"
	"math/rand"
	"sync"
	"sync/atomic"
	"time"

	"github.com/snower/slock/client"
	"github.com/snower/slock/protocol"
)

type env struct {
	prim      string
	seed      int64
	salt      int64
	G, K, N   int
	capOffset int // hidden: create Semaphore/Flow with N+capOffset but check against N
	holdMaxMs int
	timeout   uint32
	expried   uint32
	cutMode   bool
	start     time.Time
	deadline  time.Time
	dbs       []*client.Database
	vias      []string
	rec       *Recorder
	stop      int32 // set when the clients were force-closed: leave every loop

	sharedMu    sync.Mutex
	sharedLocks map[[2]int]*client.Lock // (connection, key epoch) -> ONE Lock object used by several goroutines like a sync.Mutex
}

// sharedLock: the Lock object that the goroutines of one connection share for one key epoch
func (e *env) sharedLock(conn, ep int, mk func() *client.Lock) *client.Lock {
	e.sharedMu.Lock()
	defer e.sharedMu.Unlock()
	if e.sharedLocks == nil {
		e.sharedLocks = map[[2]int]*client.Lock{}
	}
	k := [2]int{conn, ep}
	if e.sharedLocks[k] == nil {
		e.sharedLocks[k] = mk()
	}
	return e.sharedLocks[k]
}

func (e *env) stopped() bool { return atomic.LoadInt32(&e.stop) != 0 }
func (e *env) running() bool { return !e.stopped() && time.Now().Before(e.deadline) }

func (e *env) rng(g int, stream int64) *rand.Rand {
	return rand.New(rand.NewSource(e.seed + int64(g)*7919 + stream*104729))
}

// key derives the 16-byte lock key of a run (round 0) or of one round / key epoch of it.
func (e *env) key(round int) [16]byte {
	sum := sha256.Sum256([]byte(fmt.Sprintf("C19|%s|%d|%d|%d", e.prim, e.seed, e.salt, round)))
	var k [16]byte
	copy(k[:], sum[:16])
	return k
}

func keyStr(k [16]byte) string { return hex.EncodeToString(k[:4]) }

// epoch: without -cut the whole run uses one key. With -cut the key rotates every second: requests
// that were queued on a connection the forwarder cut are later granted to nobody (the server keeps
// them queued and nothing is released when a connection dies), so a key that went through a cut stays
// blocked until those ghost holds expire; rotating the key keeps the run making progress.
func (e *env) epoch() int {
	if !e.cutMode {
		return 0
	}
	return 1 + int(time.Since(e.start)/time.Second)
}

func resultOf(res *protocol.LockResultCommand, err error) (int, string) {
	es := ""
	if err != nil {
		es = err.Error()
	}
	if res != nil {
		return int(res.Result), es
	}
	if le, ok := err.(*client.LockError); ok && le != nil {
		return int(le.Result), es
	}
	if err == nil {
		es = "nil result"
	}
	return resTransport, es
}

// do performs one recorded client call.
func (e *env) do(tmpl Rec, call func() (*protocol.LockResultCommand, error)) *Rec {
	r := tmpl
	r.Prim = e.prim
	r.Conn = r.G % e.K
	r.Via = e.vias[r.Conn]
	rec := e.rec.begin(&r)
	res, err := call()
	tret := e.rec.now()
	code, es := resultOf(res, err)
	if e.prim != "event" && err == nil && res != nil && res.Result != 0 {
		// the caller of a primitive goes by the ERROR: (result, nil) is the API saying "acquired" / "released", whatever the result byte
		// inside says — the history records what the caller was told (the lock-shaped primitives return an error for every non-zero result)
		code, es = resOK, fmt.Sprintf("api returned nil error with result byte %d", res.Result)
	}
	e.rec.end(rec, tret, code, es)
	return rec
}

func (e *env) hold(rng *rand.Rand) {
	if e.holdMaxMs <= 0 || rng.Intn(4) == 0 {
		return // zero hold: release immediately (tight handover races)
	}
	time.Sleep(time.Duration(rng.Int63n(int64(e.holdMaxMs)*1000+1)) * time.Microsecond)
}

func (e *env) backoff() {
	if !e.stopped() {
		time.Sleep(100 * time.Millisecond)
	}
}

// refused: an acquire was answered with a non-zero result (timeout, state error, ...): do not spin.
func (e *env) refused() {
	if !e.stopped() {
		time.Sleep(20 * time.Millisecond)
	}
}

// cleanup retries a release-type call after a transport error until the server gave a definite
// answer (any result byte). Used only where the release is addressed to the caller's own lock id, so
// that a duplicate cannot release somebody else's hold. Never used for the semaphore.
func (e *env) cleanup(tmpl Rec, call func() (*protocol.LockResultCommand, error)) {
	tmpl.Cleanup = true
	limit := e.deadline.Add(3 * time.Second)
	for attempt := 0; attempt < 200 && !e.stopped() && time.Now().Before(limit); attempt++ {
		e.backoff()
		if r := e.do(tmpl, call); r.Result != resTransport {
			return
		}
	}
}

// lockAPI: the four entry points every lock-shaped primitive offers. One acquire/release cycle in
// three goes through the WithData pair (nil payload half of the time), so that both copies of each
// method are exercised; the payload has no bearing on who may hold the lock.
type lockAPI interface {
	Lock() (*protocol.LockResultCommand, error)
	Unlock() (*protocol.LockResultCommand, error)
	LockWithData(*protocol.LockCommandData) (*protocol.LockResultCommand, error)
	UnlockWithData(*protocol.LockCommandData) (*protocol.LockResultCommand, error)
}

type lockCall = func() (*protocol.LockResultCommand, error)

func pickData(rng *rand.Rand) *protocol.LockCommandData {
	if rng.Intn(2) == 0 {
		return nil
	}
	return protocol.NewLockCommandDataSetString(fmt.Sprintf("v%d", rng.Intn(1000)))
}

func pickAPI(rng *rand.Rand, l lockAPI) (lockCall, lockCall) {
	if rng.Intn(3) != 0 {
		return l.Lock, l.Unlock
	}
	ld, ud := pickData(rng), pickData(rng)
	return func() (*protocol.LockResultCommand, error) { return l.LockWithData(ld) },
		func() (*protocol.LockResultCommand, error) { return l.UnlockWithData(ud) }
}

func (e *env) run() *sync.WaitGroup {
	wg := &sync.WaitGroup{}
	var body func(g int)
	switch e.prim {
	case "lock":
		body = e.runLock
	case "rlock":
		body = e.runRLock
	case "rwlock":
		body = e.runRWLock
	case "semaphore":
		body = e.runSemaphore
	case "flow":
		body = e.runFlow
	case "prioritylock":
		body = e.prioRunner()
	case "event":
		body = e.eventRunner()
	}
	for g := 0; g < e.G; g++ {
		wg.Add(1)
		go func(g int) {
			defer wg.Done()
			body(g)
		}(g)
	}
	return wg
}

// ------------------------------------------------------------------------------------------ lock

func (e *env) runLock(g int) {
	rng := e.rng(g, 0)
	db := e.dbs[g%e.K]
	ep := -1
	var l *client.Lock
	var ks string
	shared := !e.cutMode && e.G >= 4*e.K && (g/e.K)%2 == 1
	for e.running() {
		if cur := e.epoch(); cur != ep {
			ep = cur
			k := e.key(ep)
			ks = keyStr(k)
			if shared {
				// half of the goroutines of a connection use ONE Lock object per key like a sync.Mutex: a second Lock() on an object
				// that holds the key is a LOCK under the holder's own LockId, which the server refuses (LOCKED_ERROR) — the object
				// must report that as a failure
				l = e.sharedLock(g%e.K, ep, func() *client.Lock { return db.Lock(k, e.timeout, e.expried) })
			} else {
				l = db.Lock(k, e.timeout, e.expried)
			}
		}
		t := Rec{G: g, Key: ks, Round: ep}
		lk, ul := pickAPI(rng, l)
		t.Op = "lock"
		a := e.do(t, lk)
		t.Op = "unlock"
		switch {
		case a.Result == resOK:
			e.hold(rng)
			if u := e.do(t, ul); u.Result == resTransport {
				e.cleanup(t, ul)
			}
		case a.Result == resTransport:
			if !shared { // on a shared object an unlock "to be safe" could release the hold of the goroutine that owns it
				e.cleanup(t, ul) // we do not know whether it was granted
			} else {
				e.backoff()
			}
		default:
			e.refused()
		}
	}
}

// ----------------------------------------------------------------------------------------- rlock

func (e *env) runRLock(g int) {
	rng := e.rng(g, 0)
	db := e.dbs[g%e.K]
	ep := -1
	var l *client.RLock
	var ks string
	nest := 0
	for e.running() {
		if cur := e.epoch(); cur != ep {
			ep = cur
			k := e.key(ep)
			l, ks = db.RLock(k, e.timeout, e.expried), keyStr(k)
		}
		nest++
		lk, ul := pickAPI(rng, l)
		d := 1 + rng.Intn(e.N)
		depth := 0
		tainted := false
		t := Rec{G: g, Key: ks, Round: ep, Nest: nest, Op: "lock"}
		for j := 0; j < d; j++ {
			// the record carries the depth after the op; it is only known once the op returned, so
			// do() is given the optimistic value and it is corrected on failure
			t.Depth = depth + 1
			a := e.do(t, lk)
			if a.Result == resOK {
				depth++
				continue
			}
			e.rec.mu.Lock()
			a.Depth = depth
			e.rec.mu.Unlock()
			if a.Result == resTransport {
				tainted = true
			} else {
				e.refused()
			}
			break
		}
		t.Op = "unlock"
		if depth > 0 {
			e.hold(rng)
		}
		if !tainted {
			for depth > 0 {
				t.Depth = depth - 1
				u := e.do(t, ul)
				if u.Result == resTransport {
					tainted = true
					break
				}
				depth--
				if depth > 0 && rng.Intn(2) == 0 {
					// widen the window in which a too-early release at the server would be seen
					time.Sleep(time.Duration(rng.Intn(800)) * time.Microsecond)
				}
			}
		}
		if tainted {
			// drain: unlock until the server says it is not locked any more
			t.Cleanup = true
			t.Depth = 0
			limit := e.deadline.Add(3 * time.Second)
			for attempt := 0; attempt < 200 && !e.stopped() && time.Now().Before(limit); attempt++ {
				u := e.do(t, ul)
				if u.Result == resTransport {
					e.backoff()
					continue
				}
				if u.Result != resOK {
					break
				}
			}
		}
	}
}

// ---------------------------------------------------------------------------------------- rwlock

func (e *env) runRWLock(g int) {
	rng := e.rng(g, 0)
	db := e.dbs[g%e.K]
	ep := -1
	var l *client.RWLock
	var ks string
	for e.running() {
		if cur := e.epoch(); cur != ep {
			ep = cur
			k := e.key(ep)
			l, ks = db.RWLock(k, e.timeout, e.expried), keyStr(k)
		}
		t := Rec{G: g, Key: ks, Round: ep}
		if rng.Intn(10) < 7 {
			t.Op = "rlock"
			rl, ru := lockCall(l.RLock), lockCall(l.RUnlock)
			if rng.Intn(3) == 0 {
				ld, ud := pickData(rng), pickData(rng)
				rl = func() (*protocol.LockResultCommand, error) { return l.RLockWithData(ld) }
				ru = func() (*protocol.LockResultCommand, error) { return l.RUnlockWithData(ud) }
			}
			a := e.do(t, rl)
			t.Op = "runlock"
			if a.Result == resOK {
				e.hold(rng)
				// RUnlock pops the reader lock from the object: it cannot be retried
				if u := e.do(t, ru); u.Result == resTransport {
					e.backoff()
				}
			} else if a.Result == resTransport {
				e.backoff() // a reader lock that may have been granted cannot be addressed any more
			} else {
				e.refused()
			}
			continue
		}
		lk, ul := pickAPI(rng, l)
		t.Op = "wlock"
		a := e.do(t, lk)
		t.Op = "wunlock"
		switch {
		case a.Result == resOK:
			e.hold(rng)
			if u := e.do(t, ul); u.Result == resTransport {
				e.cleanup(t, ul)
			}
		case a.Result == resTransport:
			e.cleanup(t, ul)
		default:
			e.refused()
		}
	}
}

// ------------------------------------------------------------------------------------- semaphore

func (e *env) runSemaphore(g int) {
	rng := e.rng(g, 0)
	db := e.dbs[g%e.K]
	ep := -1
	var s *client.Semaphore
	var ks string
	for e.running() {
		if cur := e.epoch(); cur != ep {
			ep = cur
			k := e.key(ep)
			s, ks = db.Semaphore(k, e.timeout, e.expried, uint16(e.N+e.capOffset)), keyStr(k)
		}
		t := Rec{G: g, Key: ks, Round: ep, Op: "acquire"}
		a := e.do(t, s.Acquire)
		if a.Result == resOK {
			e.hold(rng)
			t.Op = "release"
			// exactly one Release per successful Acquire, never retried (see checkCapacity)
			if u := e.do(t, s.Release); u.Result == resTransport {
				e.backoff()
			}
		} else if a.Result == resTransport {
			e.backoff()
		} else {
			e.refused()
		}
	}
}

// ------------------------------------------------------------------------------------------ flow

func (e *env) runFlow(g int) {
	rng := e.rng(g, 0)
	db := e.dbs[g%e.K]
	ep := -1
	var f *client.MaxConcurrentFlow
	var ks string
	for e.running() {
		if cur := e.epoch(); cur != ep {
			ep = cur
			k := e.key(ep)
			f, ks = db.MaxConcurrentFlow(k, uint16(e.N+e.capOffset), e.timeout, e.expried), keyStr(k)
		}
		t := Rec{G: g, Key: ks, Round: ep, Op: "acquire"}
		a := e.do(t, f.Acquire)
		t.Op = "release"
		switch {
		case a.Result == resOK:
			e.hold(rng)
			if u := e.do(t, f.Release); u.Result == resTransport {
				e.cleanup(t, f.Release)
			}
		case a.Result == resTransport:
			e.cleanup(t, f.Release)
		default:
			e.refused()
		}
	}
}

// ---------------------------------------------------------------------------------- prioritylock

type roundMsg struct {
	round int
	t0    time.Time
	stop  bool
	wg    *sync.WaitGroup
}

const prioMaxParticipants = 12

type prioPlan struct {
	prio   []int           // per participant (index 0 = holder, priority 0)
	offset []time.Duration // arrival offset after the holder got the lock
	late   []bool
}

func (e *env) prioPlan(round, p int) prioPlan {
	rng := rand.New(rand.NewSource(e.seed + int64(round)*15485863))
	plan := prioPlan{make([]int, p), make([]time.Duration, p), make([]bool, p)}
	perm := rng.Perm(200)
	small := rng.Perm(p) // every other round: the compact range 0..p-2, so that the adjacent pair (0, 1) — where an off-by-one in the priority encoding collapses two priorities — competes
	for i := 1; i < p; i++ {
		plan.prio[i] = perm[i] + 1 // distinct, 1..200
		if round%2 == 0 && p > 2 {
			plan.prio[i] = small[i] % (p - 1)
			for j := 1; j < i; j++ { // keep them distinct
				if plan.prio[j] == plan.prio[i] {
					plan.prio[i] = p - 1
				}
			}
		}
		if rng.Intn(100) < 15 {
			plan.late[i] = true
			plan.offset[i] = time.Duration(450+rng.Intn(141)) * time.Millisecond
		} else {
			plan.offset[i] = time.Duration(rng.Intn(200000)) * time.Microsecond
		}
	}
	if round%2 == 0 && p > 2 {
		// the lowest priority arrives first and the next one clearly later (both well before the release): the order in which
		// only a priority comparison — not arrival order — gives the right hand-over
		for i := 1; i < p; i++ {
			if plan.prio[i] == 0 {
				plan.late[i], plan.offset[i] = false, time.Duration(rng.Intn(20000))*time.Microsecond
			}
			if plan.prio[i] == 1 {
				plan.late[i], plan.offset[i] = false, time.Duration(100000+rng.Intn(80000))*time.Microsecond
			}
		}
	}
	return plan
}

func (e *env) prioRunner() func(g int) {
	p := e.G
	if p > prioMaxParticipants {
		p = prioMaxParticipants
	}
	chans := make([]chan roundMsg, p)
	for i := range chans {
		chans[i] = make(chan roundMsg, 1)
	}
	const holdTime = 600 * time.Millisecond
	const waiterHold = 30 * time.Millisecond

	holder := func() {
		db := e.dbs[0]
		for round := 1; e.running(); round++ {
			k := e.key(round)
			l := db.PriorityLock(k, 0, e.timeout, e.expried)
			t := Rec{G: 0, Key: keyStr(k), Round: round, Holder: true, Op: "lock"}
			lk, ul := pickAPI(e.rng(0, int64(round)), l)
			a := e.do(t, lk)
			t.Op = "unlock"
			if a.Result != resOK {
				if a.Result == resTransport {
					e.cleanup(t, ul)
				} else {
					e.refused()
				}
				continue
			}
			t0 := time.Now()
			wg := &sync.WaitGroup{}
			wg.Add(p - 1)
			for i := 1; i < p; i++ {
				chans[i] <- roundMsg{round: round, t0: t0, wg: wg}
			}
			time.Sleep(time.Until(t0.Add(holdTime)))
			if u := e.do(t, ul); u.Result == resTransport {
				e.cleanup(t, ul)
			}
			wg.Wait()
		}
		for i := 1; i < p; i++ {
			chans[i] <- roundMsg{stop: true}
		}
	}

	waiter := func(g int) {
		db := e.dbs[g%e.K]
		for msg := range chans[g] {
			if msg.stop {
				return
			}
			plan := e.prioPlan(msg.round, p)
			k := e.key(msg.round)
			l := db.PriorityLock(k, uint8(plan.prio[g]), e.timeout, e.expried)
			time.Sleep(time.Until(msg.t0.Add(plan.offset[g])))
			t := Rec{G: g, Key: keyStr(k), Round: msg.round, Prio: plan.prio[g], Late: plan.late[g], Op: "lock"}
			lk, ul := pickAPI(e.rng(g, int64(msg.round)), l)
			a := e.do(t, lk)
			t.Op = "unlock"
			switch {
			case a.Result == resOK:
				time.Sleep(waiterHold)
				if u := e.do(t, ul); u.Result == resTransport {
					e.cleanup(t, ul)
				}
			case a.Result == resTransport:
				e.cleanup(t, ul)
			}
			msg.wg.Done()
		}
	}

	return func(g int) {
		switch {
		case g == 0:
			holder()
		case g < p:
			waiter(g)
		}
	}
}

// ----------------------------------------------------------------------------------------- event

func (e *env) eventRunner() func(g int) {
	chans := make([]chan roundMsg, e.G)
	for i := range chans {
		chans[i] = make(chan roundMsg, 1)
	}

	setter := func() {
		db := e.dbs[0]
		rng := e.rng(0, 1)
		for round := 1; e.running(); round++ {
			defaultSet := round%2 == 1
			mode := "clear"
			if defaultSet {
				mode = "set"
			}
			k := e.key(round)
			ev := db.Event(k, e.timeout, e.expried, defaultSet)
			t := Rec{G: 0, Key: keyStr(k), Round: round, Mode: mode}
			if defaultSet {
				// default-set: the event starts SET; clear it (takes the event lock)
				t.Op = "clear"
				if c := e.do(t, ev.Clear); c.Result != resOK {
					if c.Result == resTransport {
						t.Op = "set"
						e.cleanup(t, ev.Set)
					} else {
						e.refused()
					}
					continue
				}
			}
			wg := &sync.WaitGroup{}
			wg.Add(e.G - 1)
			t0 := time.Now()
			for i := 1; i < e.G; i++ {
				chans[i] <- roundMsg{round: round, t0: t0, wg: wg}
			}
			time.Sleep(time.Duration(20+rng.Intn(101)) * time.Millisecond)
			t.Op = "set"
			for attempt := 0; attempt < 100; attempt++ {
				s := e.do(t, ev.Set)
				if s.Result != resTransport || e.stopped() {
					break
				}
				e.backoff()
			}
			wg.Wait()
			if !defaultSet {
				// default-clear: Set took the event lock; give it back so that the key does not linger
				t.Op = "clear"
				if c := e.do(t, ev.Clear); c.Result == resTransport {
					e.cleanup(t, ev.Clear)
				}
			}
		}
		for i := 1; i < e.G; i++ {
			chans[i] <- roundMsg{stop: true}
		}
	}

	waiter := func(g int) {
		db := e.dbs[g%e.K]
		rng := e.rng(g, 1)
		for msg := range chans[g] {
			if msg.stop {
				return
			}
			defaultSet := msg.round%2 == 1
			mode := "clear"
			if defaultSet {
				mode = "set"
			}
			k := e.key(msg.round)
			ev := db.Event(k, e.timeout, e.expried, defaultSet)
			late := rng.Intn(100) < 20
			if late {
				time.Sleep(time.Duration(125+rng.Intn(40)) * time.Millisecond) // after Set (<= 120 ms)
			} else {
				time.Sleep(time.Duration(rng.Intn(10000)) * time.Microsecond)
			}
			t := Rec{G: g, Key: keyStr(k), Round: msg.round, Mode: mode, Late: late, Op: "wait"}
			w := e.do(t, func() (*protocol.LockResultCommand, error) { return ev.Wait(e.timeout) })
			if w.Result == resTransport {
				e.backoff()
			}
			msg.wg.Done()
		}
	}

	return func(g int) {
		if g == 0 {
			setter()
		} else {
			waiter(g)
		}
	}
}
