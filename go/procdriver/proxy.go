package main

import (
	"fmt"
	"io"
	"math/rand"
	"net"
	"os"
	"path/filepath"
	"sync"
	"sync/atomic"
	"time"
)

// Forwarder is the in-driver TCP forwarder used by -cut: it listens on 127.0.0.1:0, dials the real
// server for every accepted connection and abruptly closes (RST) both sides of the proxied connection
// after a seeded random lifetime of 0.5..1.5 x cutMs, so that the client library's own reconnect
// logic runs.
type Forwarder struct {
	ln      net.Listener
	target  string
	cutMs   int
	mu      sync.Mutex
	rng     *rand.Rand
	live    map[net.Conn]bool
	cuts    int64
	accepts int64
	noCut   int32
	closed  int32
	tapDir  string // diagnostic (-tap): copy both byte streams of every proxied connection to files
	tapName string
}

func NewForwarder(target string, cutMs int, seed int64) (*Forwarder, error) {
	ln, err := net.Listen("tcp", "127.0.0.1:0")
	if err != nil {
		return nil, err
	}
	f := &Forwarder{ln: ln, target: target, cutMs: cutMs, rng: rand.New(rand.NewSource(seed)), live: map[net.Conn]bool{}}
	go f.acceptLoop()
	return f, nil
}

func (f *Forwarder) Addr() *net.TCPAddr { return f.ln.Addr().(*net.TCPAddr) }
func (f *Forwarder) Cuts() int64        { return atomic.LoadInt64(&f.cuts) }
func (f *Forwarder) Accepts() int64     { return atomic.LoadInt64(&f.accepts) }
func (f *Forwarder) StopCutting()       { atomic.StoreInt32(&f.noCut, 1) }

func (f *Forwarder) Close() {
	atomic.StoreInt32(&f.closed, 1)
	_ = f.ln.Close()
	f.mu.Lock()
	for c := range f.live {
		_ = c.Close()
	}
	f.mu.Unlock()
}

func (f *Forwarder) acceptLoop() {
	for {
		c, err := f.ln.Accept()
		if err != nil {
			return
		}
		atomic.AddInt64(&f.accepts, 1)
		go f.serve(c)
	}
}

func abort(c net.Conn) {
	if tc, ok := c.(*net.TCPConn); ok {
		_ = tc.SetLinger(0) // RST instead of FIN: "abruptly"
	}
	_ = c.Close()
}

func (f *Forwarder) serve(c net.Conn) {
	s, err := net.DialTimeout("tcp", f.target, 2*time.Second)
	if err != nil {
		abort(c)
		return
	}
	for _, x := range []net.Conn{c, s} {
		if tc, ok := x.(*net.TCPConn); ok {
			_ = tc.SetNoDelay(true)
		}
	}
	f.mu.Lock()
	f.live[c], f.live[s] = true, true
	life := time.Duration(float64(f.cutMs)*(0.5+f.rng.Float64())*1000) * time.Microsecond
	f.mu.Unlock()

	done := make(chan struct{})
	var once sync.Once
	finish := func(cut bool) {
		once.Do(func() {
			if cut {
				atomic.AddInt64(&f.cuts, 1)
			}
			abort(c)
			abort(s)
			f.mu.Lock()
			delete(f.live, c)
			delete(f.live, s)
			f.mu.Unlock()
			close(done)
		})
	}
	var fromClient, fromServer io.Reader = c, s
	if f.tapDir != "" {
		n := atomic.LoadInt64(&f.accepts)
		if up, err := os.Create(filepath.Join(f.tapDir, fmt.Sprintf("%s.%d.c2s", f.tapName, n))); err == nil {
			fromClient = io.TeeReader(c, up)
			defer func() { <-done; up.Close() }()
		}
		if down, err := os.Create(filepath.Join(f.tapDir, fmt.Sprintf("%s.%d.s2c", f.tapName, n))); err == nil {
			fromServer = io.TeeReader(s, down)
			defer func() { <-done; down.Close() }()
		}
	}
	go func() { _, _ = io.Copy(s, fromClient); finish(false) }()
	go func() { _, _ = io.Copy(c, fromServer); finish(false) }()
	if f.cutMs <= 0 {
		return
	}
	go func() {
		select {
		case <-done:
		case <-time.After(life):
			if atomic.LoadInt32(&f.noCut) == 0 && atomic.LoadInt32(&f.closed) == 0 {
				finish(true)
			}
		}
	}()
}
