#!/bin/bash
# usage: tools/sweep.sh [tier] [props…] — run every claimed check on the current tree and summarise (one line per property)
tier=${1:-quick}; shift
props=${@:-$(python3 -c "import json;print(' '.join(c['property_id'] for c in json.load(open('/verif/MANIFEST.json'))['checks']))")}
cd /verif
for P in $props; do
  out=$(./check $P $tier 2>/dev/null); rc=$?
  echo "$P rc=$rc $(echo "$out" | grep -E '^(VIOLATION|OK)' | cut -c1-220 | head -3 | tr '\n' '|') known=$(echo "$out" | grep -c '^KNOWN-FINDING')"
done
