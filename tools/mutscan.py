#!/usr/bin/env python3
"""Mechanical mutation scan of the lock engine against our checks.

usage: tools/mutscan.py [--n N] [--seed S] [--files server/db.go,server/lock.go] [--funcs regex] [--out build/mutscan.json]

For each sampled one-token mutant (relational / boolean / +-1 / statement deletion) of the selected functions, in ONE scratch
worktree outside /repo: build → pinned test suite (a mutant the suite already kills is not interesting) → `VERIF_REPO=<wt> ./check ENG quick`
(all engine-level monitors + correspondence + regenerated-kernel proofs). Reports caught / missed; missed mutants are candidates
for equivalent mutants or blind spots and are triaged by hand. /repo is never touched.
"""
import argparse, json, os, random, re, subprocess, sys, time

ENV = dict(os.environ, GOFLAGS="-mod=mod", GOPROXY="off", GOSUMDB="off", GOTOOLCHAIN="local")
WT = "/tmp/mutscan-wt"

FUNCS_DEFAULT = (r"^func \(self \*LockDB\) (Lock|UnLock|doLock|doCheckLockWaitPriority|wakeUpWaitLocks|wakeUpWaitLock|cancelWaitLock|doTimeOut|doExpried|"
                 r"AddTimeOut|AddExpried|RemoveTimeOut|RemoveExpried|RemoveLongTimeOut|RemoveLongExpried|checkTimeTimeOut|checkTimeExpried|flushTimeOut|flushExpried|"
                 r"GetOrNewLockManager|GetLockManager|RemoveLockManager|HasLock|checkLessLockVersion)\(|"
                 r"^func \(self \*LockManager\) (AddLock|RemoveLock|GetLockedLock|CheckLockedEqual|checkLockedCountEqual|UpdateLockedLock|AddWaitLock|GetWaitLock|"
                 r"GetOrNewLock|FreeLock|GetLockData|PushLockAof|PushUnLockAof)\(")

OPS = [
    (r"<=", "<"), (r">=", ">"), (r"(?<![<>=!:])==", "!="), (r"!=", "=="),
    (r"(?<![<\-])<(?![=<\-])", "<="), (r"(?<![>\-=])>(?![=>])", ">="),
    (r"&&", "||"), (r"\|\|", "&&"),
    (r" \+ 1\b", ""), (r" - 1\b", ""), (r"\+\+$", "--"), (r"--$", "++"),
]


def sh(cmd, cwd=None, timeout=600, env=None):
    try:
        p = subprocess.run(cmd, cwd=cwd, env=env or ENV, stdout=subprocess.PIPE, stderr=subprocess.STDOUT, text=True, timeout=timeout)
        return p.returncode, p.stdout
    except subprocess.TimeoutExpired:
        return 124, "timeout"


def functions(lines, pat):
    out, i = [], 0
    rx = re.compile(pat)
    while i < len(lines):
        if rx.search(lines[i]):
            j = i + 1
            while j < len(lines) and lines[j] != "}":
                j += 1
            out.append((i, j, lines[i].split("(")[1].split(")")[0] + "." + lines[i].split(") ")[1].split("(")[0]))
            i = j
        i += 1
    return out


def mutants(path, pat):
    lines = open(path).read().split("\n")
    ms = []
    for (a, b, name) in functions(lines, pat):
        for ln in range(a + 1, b):
            src = lines[ln]
            code = src.split("//")[0]
            st = code.strip()
            if not st or "Log()." in st or st.startswith("_ = self.slock.Log") or "Errorf" in st:
                continue
            for (rx, rep) in OPS:
                for m in re.finditer(rx, code):
                    new = code[:m.start()] + rep + code[m.end():]
                    if new != code:
                        ms.append({"file": path, "line": ln + 1, "func": name, "kind": f"{m.group(0).strip()}→{rep.strip() or '∅'}", "old": src, "new": new})
            # statement deletion: simple one-line statements (assignments, ++/--, calls) not ending a block
            if re.match(r"^[A-Za-z_][\w\.\[\]]*(\+\+|--| [-+|&]?= .+)$", st) or re.match(r"^(self|lockManager|lock|currentLock|waitLock)\.[\w\.]+\(.*\)$", st):
                ms.append({"file": path, "line": ln + 1, "func": name, "kind": "delete", "old": src, "new": src[:len(src) - len(src.lstrip())] + "_ = 0"})
    return ms


def main():
    ap = argparse.ArgumentParser()
    ap.add_argument("--n", type=int, default=40)
    ap.add_argument("--seed", type=int, default=1)
    ap.add_argument("--files", default="server/db.go,server/lock.go")
    ap.add_argument("--funcs", default=FUNCS_DEFAULT)
    ap.add_argument("--check", default="ENG")
    ap.add_argument("--out", default="/verif/build/mutscan.json")
    ap.add_argument("--rerun", default="", help="JSON of an earlier scan: run only its MISSED / check-error mutants again")
    a = ap.parse_args()
    sh(["git", "-C", "/repo", "worktree", "remove", "--force", WT])
    rc, out = sh(["git", "-C", "/repo", "worktree", "add", "-q", "--detach", WT, "HEAD"])
    if rc:
        print(out); return 2
    allm = []
    for f in a.files.split(","):
        for m in mutants(os.path.join(WT, f), a.funcs):
            m["file"] = f
            allm.append(m)
    random.Random(a.seed).shuffle(allm)
    sample = allm[:a.n]
    if a.rerun:
        want = {(m["file"], m["line"], m["kind"], m["new"]) for m in json.load(open(a.rerun)) if m["status"] in ("MISSED", "check-error")}
        sample = [m for m in allm if (m["file"], m["line"], m["kind"], m["new"]) in want]
    print(f"{len(allm)} candidate mutants, running {len(sample)} (seed {a.seed})", flush=True)
    res = []
    try:
        for i, m in enumerate(sample):
            sh(["git", "checkout", "-q", "--", "."], cwd=WT)
            p = os.path.join(WT, m["file"])
            lines = open(p).read().split("\n")
            assert lines[m["line"] - 1] == m["old"]
            lines[m["line"] - 1] = m["new"]
            open(p, "w").write("\n".join(lines))
            t0 = time.time()
            rc, out = sh(["go", "build", "./..."], cwd=WT, timeout=300)
            if rc:
                m["status"] = "stillborn"
            else:
                rc, out = sh(["go", "test", "-vet=off", "-count=1", "-timeout", "120s", "./protocol/...", "./server/..."], cwd=WT, timeout=200)
                if rc:
                    m["status"] = "killed-by-suite"
                else:
                    rc, out = sh(["./check", a.check, "quick"], cwd="/verif", env=dict(ENV, VERIF_REPO=WT, VERIF_HARNESS_TIMEOUT="150"), timeout=900)
                    vio = [l for l in out.split("\n") if l.startswith("VIOLATION")]
                    if vio:
                        m["status"] = "caught"
                        sigs = []
                        for l in vio[:4]:
                            mm = re.search(r"replay=(\S+)", l)
                            if mm and os.path.exists(mm.group(1)):
                                r = json.load(open(mm.group(1)))
                                sigs.append(r.get("signature") or ("broken:" + ",".join(sorted({b["name"] for b in r.get("broken", [])}))[:80]))
                        m["by"] = sigs
                    elif rc != 0:
                        m["status"] = "check-error"
                        m["by"] = out[-300:]
                    else:
                        m["status"] = "MISSED"
            m["secs"] = round(time.time() - t0, 1)
            res.append(m)
            print(f"[{i+1}/{len(sample)}] {m['status']:15s} {m['file']}:{m['line']} {m['func']} {m['kind']}  | {m['old'].strip()[:90]}  {m.get('by','')}", flush=True)
            json.dump(res, open(a.out, "w"), indent=1)
    finally:
        sh(["git", "-C", "/repo", "worktree", "remove", "--force", WT])
        sh(["/verif/build/extract", "/repo", "/verif/lean", "/verif/build/facts.json"])
    from collections import Counter
    print(Counter(r["status"] for r in res))
    return 0


if __name__ == "__main__":
    sys.exit(main())
