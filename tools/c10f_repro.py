#!/usr/bin/env python3
"""Process-level reproducers for the candidate findings of C10 (forwarding half): REAL slock server processes built from
/repo's working tree (a leader and a follower started with --slaveof), raw sockets as clients, a byte proxy between the
follower and the leader so that the follower's links can be cut / the leader's stream delayed.

    python3 tools/c10f_repro.py            # all
    python3 tools/c10f_repro.py R1 R4      # some

Nothing is written outside /verif/build and a scratch directory; /repo is only read (go build -o /verif/build/slock-server)."""
import os, shutil, signal, socket, struct, subprocess, sys, tempfile, threading, time

VERIF = os.path.dirname(os.path.dirname(os.path.abspath(__file__)))
REPO = os.environ.get("VERIF_REPO", "/repo")
BUILD = os.path.join(VERIF, "build")
SERVER_EXE = os.path.join(BUILD, "slock-server")
GOENV = dict(os.environ, GOFLAGS="-mod=mod", GOPROXY="off", GOSUMDB="off", GOTOOLCHAIN="local", CGO_ENABLED="0")


def free_port():
    s = socket.socket()
    s.bind(("127.0.0.1", 0))
    p = s.getsockname()[1]
    s.close()
    return p


def wait_port(port, proc, secs=15.0):
    t0 = time.time()
    while time.time() - t0 < secs:
        if proc.poll() is not None:
            return False
        try:
            with socket.create_connection(("127.0.0.1", port), timeout=0.5):
                return True
        except OSError:
            time.sleep(0.1)
    return False


class Proxy:
    """follower -> (this) -> leader; can hold back what the leader sends, and cut every connection"""

    def __init__(self, target_port):
        self.target = target_port
        self.ln = socket.socket()
        self.ln.setsockopt(socket.SOL_SOCKET, socket.SO_REUSEADDR, 1)
        self.ln.bind(("127.0.0.1", 0))
        self.ln.listen(64)
        self.port = self.ln.getsockname()[1]
        self.pairs = []
        self.hold = False
        self.lock = threading.Lock()
        threading.Thread(target=self.accept, daemon=True).start()

    def accept(self):
        while True:
            try:
                f, _ = self.ln.accept()
            except OSError:
                return
            try:
                l = socket.create_connection(("127.0.0.1", self.target), timeout=2)
            except OSError:
                f.close()
                continue
            l.settimeout(None)
            with self.lock:
                self.pairs.append((f, l))
            threading.Thread(target=self.pump, args=(f, l, False), daemon=True).start()
            threading.Thread(target=self.pump, args=(l, f, True), daemon=True).start()

    def pump(self, src, dst, down):
        # the two directions end independently, as on a real TCP connection: when the follower closes its socket right after
        # writing, everything it wrote still has to reach the leader although the leader's answers can no longer be delivered
        dst_gone = False
        try:
            while True:
                try:
                    b = src.recv(65536)
                except OSError:
                    break
                if not b:
                    break
                while down and self.hold:
                    time.sleep(0.005)
                if not dst_gone:
                    try:
                        dst.sendall(b)
                    except OSError:
                        dst_gone = True
                        if not down:
                            break
        finally:
            if down:
                for s in (src, dst):
                    try:
                        s.close()
                    except OSError:
                        pass
            else:
                try:
                    dst.shutdown(socket.SHUT_WR)  # FIN after the last byte; the leader closes, which ends the other direction
                except OSError:
                    pass

    def cut_all(self):
        with self.lock:
            ps, self.pairs = self.pairs, []
        for f, l in ps:
            for s in (f, l):
                try:
                    s.shutdown(socket.SHUT_RDWR)
                except OSError:
                    pass
                s.close()


def id16(n):
    return struct.pack("<I", n) + b"\x00" * 8 + b"RPRO"


def lock_frame(ct, rid, lockid, key, flag=0, timeout=0, tflag=0, expried=60, eflag=0, count=0, rcount=0):
    return (bytes([0x56, 1, ct]) + id16(rid) + bytes([flag, 0]) + id16(lockid) + id16(key) +
            struct.pack("<HHHHH", timeout, tflag, expried, eflag, count) + bytes([rcount]))


def init_frame(rid, cid):
    return bytes([0x56, 1, 0]) + id16(rid) + id16(cid) + b"\x00" * 29


RESULT = {0: "SUCCED", 3: "UNKNOWN_DB", 5: "LOCKED_ERROR", 6: "UNLOCK_ERROR", 7: "UNOWN_ERROR", 8: "TIMEOUT", 10: "STATE_ERROR", 11: "ERROR"}


class Bin:
    def __init__(self, port):
        self.s = socket.create_connection(("127.0.0.1", port), timeout=3)
        self.s.setsockopt(socket.IPPROTO_TCP, socket.TCP_NODELAY, 1)
        self.buf = b""

    def send(self, b):
        self.s.sendall(b)

    def frame(self, timeout=2.0):
        """next 64-byte frame as a dict, or None after `timeout` seconds"""
        end = time.time() + timeout
        while len(self.buf) < 64:
            left = end - time.time()
            if left <= 0:
                return None
            self.s.settimeout(left)
            try:
                b = self.s.recv(4096)
            except socket.timeout:
                return None
            if not b:
                return None
            self.buf += b
        f, self.buf = self.buf[:64], self.buf[64:]
        rid = struct.unpack("<I", f[3:7])[0]
        d = {"type": f[2], "rid": rid, "result": f[19], "name": RESULT.get(f[19], str(f[19]))}
        if f[2] in (1, 2):
            d.update(lockid_zero=f[22:38] == b"\x00" * 16, lcount=struct.unpack("<H", f[54:56])[0], lrcount=f[58])
        if f[2] == 0:
            d.update(itype=f[20])
        return d

    def close(self):
        self.s.close()


def resp(*args):
    out = b"*%d\r\n" % len(args)
    for a in args:
        a = a if isinstance(a, bytes) else a.encode()
        out += b"$%d\r\n%s\r\n" % (len(a), a)
    return out


class Text:
    def __init__(self, port):
        self.s = socket.create_connection(("127.0.0.1", port), timeout=3)
        self.s.setsockopt(socket.IPPROTO_TCP, socket.TCP_NODELAY, 1)

    def cmd(self, *args, timeout=2.0):
        b = resp(*args)
        self.s.sendall(b)
        self.s.settimeout(timeout)
        data = b""
        try:
            while True:
                data += self.s.recv(4096)
                if data.startswith((b"+", b"-", b":")) and data.endswith(b"\r\n"):
                    break
                if data.startswith(b"*") and data.count(b"\r\n") >= 1 + 2 * int(data[1:data.index(b"\r\n")]):
                    break
        except socket.timeout:
            pass
        return len(b), data

    def close(self):
        self.s.close()


class World:
    def __init__(self):
        self.root = tempfile.mkdtemp(prefix="c10f-repro-", dir=BUILD)
        self.procs = []
        self.leader_port = free_port()
        self.leader = self.start("leader", self.leader_port, [])
        self.proxy = Proxy(self.leader_port)
        self.follower_port = free_port()
        self.follower = self.start("follower", self.follower_port, ["--slaveof", "127.0.0.1:%d" % self.proxy.port])
        time.sleep(2.5)  # initial sync

    def start(self, name, port, extra):
        d = os.path.join(self.root, name)
        os.makedirs(os.path.join(d, "data"))
        p = subprocess.Popen([SERVER_EXE, "--bind", "127.0.0.1", "--port", str(port), "--data_dir", os.path.join(d, "data"),
                              "--log", os.path.join(d, "server.log"), "--log_level", "INFO"] + extra, cwd=d,
                             stdout=open(os.path.join(d, "stdout.txt"), "w"), stderr=subprocess.STDOUT, start_new_session=True)
        self.procs.append(p)
        if not wait_port(port, p):
            raise RuntimeError(name + " did not come up")
        return p

    def stop(self):
        for p in self.procs:
            try:
                os.killpg(p.pid, signal.SIGKILL)
            except OSError:
                pass
        for p in self.procs:
            try:
                p.wait(timeout=5)
            except Exception:
                pass
        shutil.rmtree(self.root, ignore_errors=True)


def say(tag, text):
    print("  [%s] %s" % (tag, text), flush=True)


def R1(w):
    """the first command of a text connection to the follower, when it fits the first 64-byte read, is not forwarded"""
    t = Text(w.follower_port)
    n, a = t.cmd("LOCK", "r1key", "TIMEOUT", "0")
    say("R1", "first command (%d bytes) through the follower -> %r" % (n, a[:40]))
    n2, b = t.cmd("LOCK", "r1key", "TIMEOUT", "0")
    say("R1", "the same command again on the same connection -> %r" % b[:40])
    d = Text(w.leader_port)
    _, c = d.cmd("LOCK", "r1key2", "TIMEOUT", "0")
    say("R1", "first command of a connection to the leader itself -> %r" % c[:40])
    ok = a.startswith(b"*12\r\n$2\r\n10\r\n") and b.startswith(b"*12\r\n$1\r\n0\r\n") and c.startswith(b"*12\r\n$1\r\n0\r\n")
    t.close(); d.close()
    return ok, "follower answers STATE_ERROR (10) to the first command and forwards the identical second one (0 = granted by the leader)"


def R2(w):
    """a LOCK with the concurrent-check flag and Timeout 0 is answered from the follower's own (here: stale) lock table"""
    o = Bin(w.leader_port)
    o.send(lock_frame(1, 201, 21, 2001, expried=120))
    say("R2", "holder locks key 2001 at the leader -> %s" % o.frame()["name"])
    time.sleep(3.0)  # a hold is journalled (and so replicated) once it is older than db_lock_aof_time (1 s)
    w.proxy.hold = True  # the leader's stream to the follower is delayed from now on (replication lag)
    o.send(lock_frame(2, 202, 21, 2001))
    say("R2", "holder unlocks at the leader -> %s (the follower has not heard of it yet)" % o.frame()["name"])
    f = Bin(w.follower_port)
    t0 = time.time()
    f.send(lock_frame(1, 203, 22, 2001, flag=0x08, timeout=0))
    a = f.frame(1.5)
    dt = time.time() - t0
    say("R2", "LOCK key 2001, flag CONCURRENT_CHECK, Timeout 0, Count 0 through the follower -> %s in %.0f ms" % (a and (a["name"], "LCount", a["lcount"]), dt * 1000))
    o.send(lock_frame(1, 204, 23, 2001, flag=0x08, timeout=0))
    b = o.frame()
    say("R2", "the same command sent to the leader itself -> %s" % ((b["name"], "LCount", b["lcount"]),))
    w.proxy.hold = False
    o.send(lock_frame(2, 205, 23, 2001))
    o.frame()
    ok = a is not None and a["result"] == 8 and b["result"] == 0
    f.close(); o.close()
    return ok, "follower: TIMEOUT from its own table while the leader's stream is held back (nothing can have been relayed); leader: SUCCED"


def R3(w):
    """link loss with two requests queued at the leader: only the latest gets an (ERROR) answer, the earlier one nothing"""
    o = Bin(w.leader_port)
    for k in (3001, 3002):
        o.send(lock_frame(1, 300 + k % 10, 31, k, expried=120)); o.frame()
    f = Bin(w.follower_port)
    f.send(lock_frame(1, 311, 32, 3001, timeout=30))
    f.send(lock_frame(1, 312, 32, 3002, timeout=30))
    time.sleep(0.4)
    say("R3", "two LOCKs (RequestIds 311, 312) through the follower are queued at the leader; answers so far: %s" % f.frame(0.3))
    w.proxy.cut_all()
    got = []
    while True:
        a = f.frame(1.0)
        if a is None:
            break
        got.append((a["rid"], a["name"], "LockId zero" if a.get("lockid_zero") else "LockId kept"))
    say("R3", "the follower's link loses its socket; the client receives: %s" % got)
    o.send(lock_frame(2, 321, 31, 3001)); o.frame()
    time.sleep(0.3)
    say("R3", "the holder releases key 3001 at the leader; the client receives: %s" % f.frame(0.7))
    o.send(lock_frame(1, 322, 33, 3001, timeout=0))
    b = o.frame()
    say("R3", "is key 3001 free at the leader? LOCK Timeout 0 directly -> %s (LCount %d): it was granted to request 311, whose client was told nothing" % (b["name"], b["lcount"]))
    ok = got == [(312, "ERROR", "LockId zero")] and b["result"] != 0
    f.close(); o.close()
    return ok, "exactly one fabricated ERROR (for 312), nothing for 311 — which the leader then grants to nobody"


def R4(w):
    """a session that sent INIT: ERROR at the link loss, then the leader's real answer over the re-opened link"""
    o = Bin(w.leader_port)
    o.send(lock_frame(1, 401, 41, 4001, expried=120)); o.frame()
    f = Bin(w.follower_port)
    f.send(init_frame(410, 4100))
    say("R4", "INIT through the follower -> %s" % f.frame())
    f.send(lock_frame(1, 411, 42, 4001, timeout=30))
    time.sleep(0.4)
    w.proxy.cut_all()
    say("R4", "LOCK 411 is queued at the leader; the link loses its socket -> %s" % f.frame(1.5))
    f.send(lock_frame(1, 412, 42, 4002, timeout=0))
    got = [f.frame(1.5), f.frame(1.0)]
    say("R4", "next request (412, another key) re-opens the link and re-sends the INIT -> %s" % got)
    o.send(lock_frame(2, 402, 41, 4001)); o.frame()
    a = f.frame(1.5)
    say("R4", "the holder releases key 4001 at the leader -> the client receives %s" % a)
    ok = a is not None and a["rid"] == 411 and a["result"] == 0
    f.close(); o.close()
    return ok, "request 411 was answered twice: ERROR (fabricated at the link loss), then SUCCED (the leader re-routed it to the connection that re-announced the client id)"


def R5(w):
    """an INIT that is not the first command of the connection is forwarded, its answer dropped"""
    f = Bin(w.follower_port)
    f.send(lock_frame(1, 501, 51, 5001, timeout=0))
    say("R5", "LOCK through the follower -> %s" % f.frame()["name"])
    f.send(init_frame(502, 5100))
    a = f.frame(1.5)
    say("R5", "INIT on the same connection -> %s" % a)
    d = Bin(w.leader_port)
    d.send(lock_frame(1, 503, 52, 5002, timeout=0)); d.frame()
    d.send(init_frame(504, 5101))
    b = d.frame(1.5)
    say("R5", "the same two commands sent to the leader itself -> INIT answered %s" % b)
    ok = a is None and b is not None and b["type"] == 0
    f.close(); d.close()
    return ok, "no answer to the INIT through the follower within 1.5 s; the leader answers it"


def R6(w):
    """will commands registered through a follower: when the client disconnects, Close writes them to the leader and closes the link at
    once — (1) the link's own reader, relaying the leader's answers to the client that has gone, can close the link under it, and
    (2) closing with the leader's answers unread makes the kernel send RST and discard the wills still in the send queue: wills are lost
    (C10F_R6_N wills per connection, default 400; C10F_R6_TRIES disconnects, default 8; measured: N=5 1/150, N=20 29/150 disconnects lose wills)"""
    # a second follower attached to the leader DIRECTLY (no proxy in between: nothing but the two real processes and TCP)
    port2 = free_port()
    w.start("follower2", port2, ["--slaveof", "127.0.0.1:%d" % w.leader_port])
    time.sleep(2.5)
    n, tries, lost_runs, worst = int(os.environ.get("C10F_R6_N", "400")), int(os.environ.get("C10F_R6_TRIES", "8")), 0, 0
    for attempt in range(tries):
        base = 100000 + attempt * (n + 10)
        f = Bin(port2)
        f.send(lock_frame(1, base, 61, base, timeout=0, expried=5))  # opens the link
        f.frame()
        for i in range(n):
            f.send(lock_frame(8, base + 1 + i, 62, base + 1 + i, timeout=0, expried=8))  # WILL_LOCK (type 8)
        f.send(bytes([0x56, 1, 5]) + id16(base + n + 5) + b"\x00" * 45)  # PING: everything before it has been handled
        f.frame()
        f.close()
        time.sleep(0.3)
        o = Bin(w.leader_port)
        held = 0
        for i in range(n):
            o.send(lock_frame(1, base + 1 + i, 63, base + 1 + i, timeout=0, expried=1))
            r = o.frame()
            if r and r["result"] != 0:
                held += 1
        o.close()
        if held < n:
            lost_runs += 1
            worst = max(worst, n - held)
            say("R6", "attempt %d: %d will LOCKs registered, the connection closed: only %d of the keys are held at the leader" % (attempt, n, held))
    ok = lost_runs > 0
    return ok, "in %d of %d disconnects some registered wills never reached the leader (up to %d of %d lost)" % (lost_runs, tries, worst, n)


ALL = {"R1": R1, "R2": R2, "R3": R3, "R4": R4, "R5": R5, "R6": R6}


def main():
    which = [a for a in sys.argv[1:] if a in ALL] or list(ALL)
    os.makedirs(BUILD, exist_ok=True)
    p = subprocess.run(["go", "build", "-o", SERVER_EXE, "."], cwd=REPO, env=GOENV, stdout=subprocess.PIPE, stderr=subprocess.STDOUT, text=True)
    if p.returncode != 0:
        print(p.stdout)
        return 2
    w = World()
    rc = 0
    try:
        for name in which:
            print("%s — %s" % (name, ALL[name].__doc__), flush=True)
            try:
                ok, what = ALL[name](w)
            except Exception as e:  # noqa
                ok, what = False, "exception: %r" % (e,)
            print("  => %s: %s" % ("REPRODUCED" if ok else "not reproduced", what), flush=True)
            if not ok:
                rc = 1
    finally:
        w.stop()
    return rc


if __name__ == "__main__":
    sys.exit(main())
