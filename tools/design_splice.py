#!/usr/bin/env python3
"""Rebuild DESIGN.md §0 from tools/design_s0.md + the generated tables (tools/designgen.py); §1… are left as they are."""
import subprocess
d = open('/verif/DESIGN.md').read()
s0 = open('/verif/tools/design_s0.md').read()
tables = subprocess.run(['python3', '/verif/tools/designgen.py'], capture_output=True, text=True).stdout
tables = tables.replace("#### Seeded changes", "### 0.8 Seeded changes (generated from `seeded/*/meta.json`)")
s0 = s0.replace('@@TABLES@@', tables)
a = d.index('## 0. As built')
b = d.index('## 1. What the technique can and cannot reach here')
sep = '\n---------------------------------------------------------------------------------------------------\n\n'
open('/verif/DESIGN.md', 'w').write(d[:a] + s0.rstrip('\n') + '\n' + sep + d[b:])
