#!/usr/bin/env python3
"""dev helper: run a harness mode, print one example trace per monitor signature (optionally filtered by prefix)."""
import sys, os, json
sys.path.insert(0, os.path.dirname(os.path.abspath(__file__)))
import vlib
mode, n, seed = sys.argv[1], int(sys.argv[2]), int(sys.argv[3])
prefix = sys.argv[4] if len(sys.argv) > 4 else ""
back = int(sys.argv[5]) if len(sys.argv) > 5 else 14
ctx = vlib.Ctx("dev", "quick")
exe = ctx.build_harness("server", only=["zz_verif_engine_test.go", "zz_verif_engine_monitor_test.go"])
outdir = ctx.run_harness(exe, mode, n, seed=seed, extra={"VERIF_OPS": os.environ.get("VERIF_OPS", "40")})
impls = {}
for a, b in zip(open(outdir + f"/{mode}.ops"), open(outdir + f"/{mode}.impl")):
    impls[a.strip()] = b.strip().split(";")
seen = set()
for l in open(outdir + f"/{mode}.mon"):
    m = json.loads(l)
    if not m["signature"].startswith(prefix) or m["signature"] in seen:
        continue
    seen.add(m["signature"])
    print("=====", m["signature"]); print(m["what"])
    line = m["replay"]["ops"]; ops = line.split(" ", 2)[2].split(";"); i = m["replay"].get("at_op_index", len(ops))
    impl = impls.get(line, [])
    for t in range(max(0, i - back), min(len(ops), i + 1)):
        print("   ", t, ops[t], "  =>", impl[t] if t < len(impl) else None)
ctx.cleanup()
