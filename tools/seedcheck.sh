#!/bin/bash
# usage: tools/seedcheck.sh <seed-id> <PROP…> — apply /verif/seeded/<seed-id>/patch.diff in a scratch worktree and run our quick checks against it (VERIF_REPO)
ID=$1; shift
W=/tmp/seedchk-$ID
git -C /repo worktree add -q --detach $W HEAD || exit 1
git -C $W apply /verif/seeded/$ID/patch.diff || { git -C /repo worktree remove --force $W; exit 1; }
for P in "$@"; do
  (cd /verif && VERIF_REPO=$W ./check $P ${TIER:-quick} 2>/dev/null | grep -E "^(VIOLATION|OK)" | cut -c1-260 | head -4; echo "  -> seed $ID vs $P rc=${PIPESTATUS[0]}")
done
git -C /repo worktree remove --force $W
(cd /verif && ./build/extract /repo lean build/facts.json >/dev/null 2>&1)
