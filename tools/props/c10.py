"""C10 — only the leader decides; other nodes refuse (engine part: role gate, no journalling off-leader, follower-side expiry deferral)."""
from props import engine2_common, c10f, ms_common

THEOREMS = engine2_common.THEOREMS_C10
THEOREMS_ALL = THEOREMS + c10f.THEOREMS
FINISH = {"level": "proof", "assumptions": [
    "M-ENGINE stage 2 (lean/Slock/Model/Engine2.lean) is hand-written; it is tied to server/db.go + server/lock.go by the E-seq differential run "
    "(real SLock + LockDB in-process, virtual clock, real AofChannel as journalling sink, non-leader phases with ticks and replicated commands) "
    "and cross-checked on every operation against the stage-1 model through `abs`",
    "engine half: what ONE node's lock engine does when it is not the leader (rows S0 of Lock/UnLock, PushLockAof/PushUnLockAof, doExpried); connection half (M-TRANS, "
    "tools/props/c10f.py): Server.handle / checkProtocol / Transparency*ServerProtocol forwarding to the leader and relaying its reply, AGAIN re-dispatch on role change, driven on "
    "two real nodes in one process over loopback with a recording byte proxy and an oracle connection straight to the leader",
    "a LOCK with the concurrent-check flag and Timeout 0 is answered from the node's own state before the role is looked at (rows P0a/P0b): excluded by hypothesis in gate_lock",
    "observed and proved (follower_defers_again): the follower re-arm overwrites the deadline, so the 300 s bound of the statement is measured against the last re-arm — "
    "a follower never ends a replicated hold on its own clock; the monitor C10:follower-ended-replicated-hold checks the statement's safety reading (not ended before deadline+300)"]}


def run(ctx):
    ctx.extract()
    ctx.lake_build(["Slock.Properties.C10"])
    ctx.audit("Slock.Properties.C10", THEOREMS)
    if ctx.tier == "thorough":
        ctx.leanchecker("Slock.Properties.C10")
    engine2_common.run_engine2(ctx, ["C10:"])
    c10f.run_forward(ctx, ["C10:"])
    ms_common.run_ms_follower(ctx)
    for a in c10f.FINISH.get("assumptions", []):
        ctx.assumptions.append("forwarding half: " + a)
    ctx.cov["rule"] = ("seeded operation sequences on the real LockDB (LOCK/UNLOCK with value frames, aof-timing flags, from-aof commands; ticks; role flips with "
                       "follower phases of up to 45 s bursts; snapshots incl. value/refCount/KeyCount; journal pulls), six profiles, adaptive drain + 18 s; "
                       "distinct_nontrivial = distinct sequences containing at least one grant")


def replay(path):
    if ms_common.is_ms_replay(path):
        return ms_common.replay_ms("C10", path)
    if "engine2 " in open(path).read():
        return engine2_common.replay_engine2("C10", path, ["C10:"])
    return c10f.replay(path)
