"""Shared by the properties decided over M-AOF (C08, C16, C07-arithmetic)."""
import json, os


def read_monitor(ctx, outdir, mode, prefixes):
    p = os.path.join(outdir, mode + ".mon")
    seen = {}
    if os.path.exists(p):
        for line in open(p):
            line = line.strip()
            if not line:
                continue
            m = json.loads(line)
            sig = m["signature"]
            seen[sig] = seen.get(sig, 0) + 1
            if any(sig.startswith(px) for px in prefixes):
                ctx.add_violation(m["what"], sig, m["replay"])
    return seen


def run_mode(ctx, exe, mode, n, prefixes, classify, name, seeds=None, extra=None, timeout=900):
    for sd in (seeds or [ctx.seed]):
        outdir = ctx.run_harness(exe, mode, n, seed=sd, extra=extra, timeout=timeout)
        if not outdir:
            continue
        dis = ctx.diff(outdir, mode, classify=classify)
        seen = read_monitor(ctx, outdir, mode, prefixes)
        ctx.cov.setdefault("monitor_signatures_seen", {}).update(seen)
        if dis:
            d = dis[0]
            ctx.broken.append({"kind": "correspondence", "name": name,
                               "detail": f"{len(dis)} disagreements; first: op={d[1][:1200]} impl={d[2][:600]} model={d[3][:600]}"})
            ctx.cov.setdefault("disagreements", []).append({"op": d[1][:4000], "impl": d[2][:2000], "model": d[3][:2000]})
