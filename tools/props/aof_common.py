"""Shared by the properties decided over M-AOF (C08, C16, C07-arithmetic)."""
import json, os


def read_monitor(ctx, outdir, mode, prefixes):
    p = os.path.join(outdir, mode + ".mon")
    seen = {}
    if os.path.exists(p):
        for line in open(p):
            line = line.strip()
            if not line:
                continue
            m = json.loads(line)
            sig = m["signature"]
            seen[sig] = seen.get(sig, 0) + 1
            if any(sig.startswith(px) for px in prefixes):
                ctx.add_violation(m["what"], sig, m["replay"])
    return seen


def run_mode(ctx, exe, mode, n, prefixes, classify, name, seeds=None, extra=None, timeout=900, diff_modes=None, stats_key=None):
    """Run one harness mode. `diff_modes`: the <x>.ops/<x>.impl pairs of the output directory that are diffed against the Lean
    driver (default: the mode itself; [] = monitor-only). `stats_key`: copy <mode>.stats (generation distribution) into the evidence."""
    for sd in (seeds or [ctx.seed]):
        outdir = ctx.run_harness(exe, mode, n, seed=sd, extra=extra, timeout=timeout)
        if not outdir:
            continue
        for dm in ([mode] if diff_modes is None else diff_modes):
            dis = ctx.diff(outdir, dm, classify=classify if dm == mode else (lambda op, impl: (dm, hash(op) % 4096)))
            if dis:
                d = dis[0]
                ctx.broken.append({"kind": "correspondence", "name": name + (" [" + dm + "]" if dm != mode else ""),
                                   "detail": f"{len(dis)} disagreements; first: op={d[1][:1200]} impl={d[2][:600]} model={d[3][:600]}"})
                ctx.cov.setdefault("disagreements", []).append({"op": d[1][:4000], "impl": d[2][:2000], "model": d[3][:2000]})
        seen = read_monitor(ctx, outdir, mode, prefixes)
        ctx.cov.setdefault("monitor_signatures_seen", {}).update(seen)
        sp = os.path.join(outdir, mode + ".stats")
        if stats_key and os.path.exists(sp):
            dist = ctx.cov.setdefault("distribution", {}).setdefault(stats_key, {})
            for tok in open(sp).read().split():
                k, _, v = tok.rpartition("=")
                dist[k] = dist.get(k, 0) + int(v)
