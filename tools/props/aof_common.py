"""Shared by the properties decided over M-AOF (C08, C16, C07-arithmetic)."""
import json, os


def read_monitor(ctx, outdir, mode, prefixes):
    p = os.path.join(outdir, mode + ".mon")
    seen = {}
    if os.path.exists(p):
        for line in open(p):
            line = line.strip()
            if not line:
                continue
            m = json.loads(line)
            sig = m["signature"]
            seen[sig] = seen.get(sig, 0) + 1
            if any(sig.startswith(px) for px in prefixes):
                ctx.add_violation(m["what"], sig, m["replay"])
    return seen


def run_mode(ctx, exe, mode, n, prefixes, classify, name, seeds=None, extra=None, timeout=900, diff_modes=None, stats_key=None):
    """Run one harness mode. `diff_modes`: the <x>.ops/<x>.impl pairs of the output directory that are diffed against the Lean
    driver (default: the mode itself; [] = monitor-only). `stats_key`: copy <mode>.stats (generation distribution) into the evidence."""
    for sd in (seeds or [ctx.seed]):
        outdir = ctx.run_harness(exe, mode, n, seed=sd, extra=extra, timeout=timeout)
        if not outdir:
            continue
        for dm in ([mode] if diff_modes is None else diff_modes):
            dis = ctx.diff(outdir, dm, classify=classify if dm == mode else (lambda op, impl: (dm, hash(op) % 4096)))
            if dis:
                d = dis[0]
                ctx.broken.append({"kind": "correspondence", "name": name + (" [" + dm + "]" if dm != mode else ""),
                                   "detail": f"{len(dis)} disagreements; first: op={d[1][:1200]} impl={d[2][:600]} model={d[3][:600]}"})
                ctx.cov.setdefault("disagreements", []).append({"op": d[1][:4000], "impl": d[2][:2000], "model": d[3][:2000]})
        seen = read_monitor(ctx, outdir, mode, prefixes)
        ctx.cov.setdefault("monitor_signatures_seen", {}).update(seen)
        sp = os.path.join(outdir, mode + ".stats")
        if stats_key and os.path.exists(sp):
            dist = ctx.cov.setdefault("distribution", {}).setdefault(stats_key, {})
            for tok in open(sp).read().split():
                k, _, v = tok.rpartition("=")
                dist[k] = dist.get(k, 0) + int(v)


CORPUS = os.path.join(os.path.dirname(os.path.abspath(__file__)), "aof_corpus.txt")


def _same_snapshot(real, model):
    """real restart snapshot vs `reload` (model prints '<holds>|<values>#<classes>'); '~' = value not predicted."""
    m = model.split("#")[0]
    if "|" not in real or "|" not in m:
        return real == m
    rh, rv = real.split("|", 1)
    mh, mv = m.split("|", 1)
    if rh != mh:
        return False
    rvd = dict(x.split("=", 1) for x in rv.split(";") if "=" in x)
    mvd = dict(x.split("=", 1) for x in mv.split(";") if "=" in x)
    for k in set(rvd) | set(mvd):
        if mvd.get(k) == "~":
            continue
        if rvd.get(k) != mvd.get(k):
            return False
    return True


def run_restart(ctx, exe, n, prefixes, seeds=None, timeout=1500, corpus=True):
    """restart mode: (1) Slock.Aof.recover vs the harness oracle (aofjournal lines, exact); (2) the REAL restart snapshot vs
    Slock.Aof.reload (aofreload lines; a disagreement breaks the tie whatever the history shape); (3) the monitors; the
    replay-side ones ("C07:replay:?") get the model's class of the first record of that key that the restart treats differently."""
    for i, sd in enumerate(seeds or [ctx.seed]):
        extra = {"VERIF_CORPUS": CORPUS} if (corpus and i == 0) else {}
        outdir = ctx.run_harness(exe, "restart", n, seed=sd, extra=extra, timeout=timeout)
        if not outdir:
            continue
        dis = ctx.diff(outdir, "aofjournal", classify=lambda op, impl: ("aofjournal", hash(op) % 4096))
        if dis:
            d = dis[0]
            ctx.broken.append({"kind": "correspondence", "name": "Slock.Aof.recover vs the harness's reference replay",
                               "detail": f"{len(dis)} disagreements; first: op={d[1][:1200]} impl={d[2][:600]} model={d[3][:600]}"})
        # reload vs real restart
        ops = open(os.path.join(outdir, "aofreload.ops")).read().split("\n")
        impl = open(os.path.join(outdir, "aofreload.impl")).read().split("\n")
        mp = ctx.run_model(os.path.join(outdir, "aofreload.ops"))
        classes = {}
        if mp is not None:
            model = open(mp).read().split("\n")
            bad = []
            for j in range(min(len(ops), len(impl))):
                if not ops[j]:
                    continue
                ctx.cov["evaluations"] += 1
                mj = model[j] if j < len(model) else ""
                if not _same_snapshot(impl[j], mj):
                    bad.append((j, ops[j], impl[j], mj))
                cl = {}
                if "#" in mj:
                    for tok in mj.split("#", 1)[1].split(","):
                        if ":" in tok:
                            k, c = tok.split(":", 1)
                            cl[k] = c
                classes[j] = cl
                ctx.distinct.add(("aofreload", impl[j].count(";"), tuple(sorted(set(cl.values()))), len(ops[j]) // 256))
            ctx.cov["traces_validated_against_impl"] += len(classes)
            ctx.cov["disagreements_checked"] += len(bad)
            if bad:
                d = bad[0]
                ctx.broken.append({"kind": "correspondence", "name": "Slock.Aof.reload vs the real restart (fresh SLock on a copy of the directory)",
                                   "detail": f"{len(bad)} disagreements; first: op={d[1][:1500]} real={d[2][:700]} model={d[3][:700]}"})
                ctx.cov.setdefault("disagreements", []).append({"op": d[1][:4000], "impl": d[2][:2000], "model": d[3][:2000]})
        # monitors
        seen = {}
        mon = os.path.join(outdir, "restart.mon")
        if os.path.exists(mon):
            for line in open(mon):
                line = line.strip()
                if not line:
                    continue
                m = json.loads(line)
                sig = m["signature"]
                if sig == "C07:replay:?":
                    r = m["replay"]
                    cl = classes.get(r.get("reloadLine"), {})
                    sig = "C07:replay:" + cl.get(f"{r.get('db')}.{r.get('key')}", "other")
                    if str(r.get("corpus", "")).startswith("pass-"):
                        sig = "C07:regression:" + r["corpus"] + ":" + sig.split(":", 1)[1]
                seen[sig] = seen.get(sig, 0) + 1
                if any(sig.startswith(px) for px in prefixes):
                    ctx.add_violation(m["what"], sig, m["replay"])
        ctx.cov.setdefault("monitor_signatures_seen", {}).update(seen)
        sp = os.path.join(outdir, "restart.stats")
        if os.path.exists(sp):
            dist = ctx.cov.setdefault("distribution", {}).setdefault("restart", {})
            for tok in open(sp).read().split():
                k, _, v = tok.rpartition("=")
                dist[k] = dist.get(k, 0) + int(v)
