"""C01 — mutual exclusion and Count capacity bound per key."""
import vlib
from props import engine_common

THEOREMS = []
FINISH = {"level": "proof", "assumptions": []}


def run(ctx):
    ctx.extract()
    engine_common.run_engine(ctx, ["C01:"])
