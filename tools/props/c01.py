"""C01 — mutual exclusion and Count capacity bound per key."""
from props import engine_common, engine2_common

THEOREMS = ["Slock.C01.reachable_inv", "Slock.C01.doLock_sound", "Slock.C01.admission_bound",
            "Slock.C01.C01_admission_direct_partial", "Slock.C01.C01_admission_wake_partial",
            "Slock.C01.ffff_admits_unbounded", "Slock.Engine.consts_match",
            "Slock.C01.reachable_U3", "Slock.C01.C01_uniform_count", "Slock.C01.C01_uniform_count_prefix", "Slock.C01.C01_mutex", "Slock.C01.uniformCount_spec"]
FINISH = {"level": "proof", "assumptions": [
    "M-ENGINE is hand-written; it is tied to server/db.go + server/lock.go by the E-seq differential run (real LockDB, virtual clock) and by the regenerated constants (consts_match)",
    "granularity: one model step = one shard-mutex critical section; Go scheduling below that is not modelled — except for ONE forced schedule (harness mode `parked`, monitors only): a LOCK waits for the shard mutex while the holder of the mutex recycles the key's idle record",
    "value frames, require-ack, millisecond timers are outside stage 1 of the model (generator does not emit them)"]}


def run(ctx):
    ctx.extract()
    ctx.lake_build(["Slock.Properties.C01"])
    ctx.audit("Slock.Properties.C01", THEOREMS)
    if ctx.tier == "thorough":
        ctx.leanchecker("Slock.Properties.C01")
    engine_common.run_engine(ctx, ["C01:"], n_quick=3000, n_thorough=60000)
    # what is proved so far of the stage-2 → stage-1 simulation (branch tables refine, refusal branches stutter, the admission
    # contract transferred to record-level states); the state-changing branches and the sweeps are tied by the executable abs cross-check
    engine2_common.audit_sim(ctx)
    engine_common.run_parked(ctx, ["C01:"])
    ctx.cov["rule"] = ("seeded operation sequences (LOCK/UNLOCK with flags from the core subset, ticks, role flips, snapshots, adaptive drain) on 1–2 keys, 2–4 LockIds, "
                       "3 connections; three profiles (mixed, capacity-heavy, queue-heavy); distinct_nontrivial = distinct sequences containing at least one grant")


def replay(path):
    return engine_common.replay_engine("C01", path)
